import Asn1Proofs.Lemmas.X696Prim
/-
  C06: declarative meaning of the primitives of the specification `X696`.
  * INTEGER: the fixed width is the least of 1, 2, 4, 8 octets that holds the whole (visible) range,
    and a variable-size form is used exactly when there is no such width;
  * variable-size numbers use the least number of octets and are read back as the value;
  * the length determinant is the short form below 128 and otherwise the long form with the least
    number of length octets; it exists exactly for lengths below 256^127.
-/
set_option linter.unusedSimpArgs false
namespace Asn1.X696
open Asn1.Uper (Err)

/-- the widths of fixed-size numbers in OER (X.696 10.2, 10.3) -/
def widths : List Nat := [1, 2, 4, 8]

theorem mem_widths {k : Nat} : k ∈ widths ↔ k = 1 ∨ k = 2 ∨ k = 4 ∨ k = 8 := by
  simp [widths]

/-! ### INTEGER: which form -/

/-- **fixed-width table, unsigned**: a fixed-size unsigned number of `k` octets is used only for a
non-extensible constraint with both bounds and a non-negative lower bound, and `k` is the least of
1, 2, 4, 8 octets that can hold the upper bound. -/
theorem fixedUnsigned_least {c : IntC} {k : Nat} (h : intForm c = .fixedUnsigned k) :
    c.ext = false ∧ ∃ lb ub, c.lo = some lb ∧ c.hi = some ub ∧ 0 ≤ lb ∧ k ∈ widths ∧
      ub < (256 : Int) ^ k ∧ ∀ k' ∈ widths, ub < (256 : Int) ^ k' → k ≤ k' := by
  obtain ⟨lo, hi, ext⟩ := c
  unfold intForm visibleLo visibleHi at h
  cases ext with
  | true => simp at h
  | false =>
    refine ⟨rfl, ?_⟩
    simp only [Bool.false_eq_true, if_false] at h
    cases lo with
    | none => simp at h
    | some lb =>
      simp only at h
      by_cases h0 : 0 ≤ lb
      · simp only [h0, if_true] at h
        cases hi with
        | none => simp at h
        | some ub =>
          refine ⟨lb, ub, rfl, rfl, h0, ?_⟩
          simp only at h
          split at h
          · cases h
            refine ⟨by simp [widths], by omega, ?_⟩
            intro k' hk' _; rcases mem_widths.1 hk' with rfl | rfl | rfl | rfl <;> omega
          · split at h
            · cases h
              refine ⟨by simp [widths], by omega, ?_⟩
              intro k' hk' hlt; rcases mem_widths.1 hk' with rfl | rfl | rfl | rfl <;> omega
            · split at h
              · cases h
                refine ⟨by simp [widths], by omega, ?_⟩
                intro k' hk' hlt; rcases mem_widths.1 hk' with rfl | rfl | rfl | rfl <;> omega
              · split at h
                · cases h
                  refine ⟨by simp [widths], by omega, ?_⟩
                  intro k' hk' hlt; rcases mem_widths.1 hk' with rfl | rfl | rfl | rfl <;> omega
                · cases h
      · simp only [h0, if_false] at h
        cases hi with
        | none => simp at h
        | some ub =>
          simp only at h
          repeat' split at h
          all_goals cases h

/-- **fixed-width table, signed**: a fixed-size signed number of `k` octets is used only for a
non-extensible constraint with both bounds and a negative lower bound, and `k` is the least of 1, 2, 4, 8
octets whose two's complement range holds both bounds. -/
theorem fixedSigned_least {c : IntC} {k : Nat} (h : intForm c = .fixedSigned k) :
    c.ext = false ∧ ∃ lb ub, c.lo = some lb ∧ c.hi = some ub ∧ lb < 0 ∧ k ∈ widths ∧
      (-(2 : Int) ^ (8 * k - 1) ≤ lb ∧ ub < (2 : Int) ^ (8 * k - 1)) ∧
      ∀ k' ∈ widths, (-(2 : Int) ^ (8 * k' - 1) ≤ lb ∧ ub < (2 : Int) ^ (8 * k' - 1)) → k ≤ k' := by
  obtain ⟨lo, hi, ext⟩ := c
  unfold intForm visibleLo visibleHi at h
  cases ext with
  | true => simp at h
  | false =>
    refine ⟨rfl, ?_⟩
    simp only [Bool.false_eq_true, if_false] at h
    cases lo with
    | none => simp at h
    | some lb =>
      simp only at h
      by_cases h0 : 0 ≤ lb
      · simp only [h0, if_true] at h
        cases hi with
        | none => simp at h
        | some ub =>
          simp only at h
          repeat' split at h
          all_goals cases h
      · simp only [h0, if_false] at h
        cases hi with
        | none => simp at h
        | some ub =>
          refine ⟨lb, ub, rfl, rfl, by omega, ?_⟩
          simp only at h
          split at h
          · cases h
            refine ⟨by simp [widths], by omega, ?_⟩
            intro k' hk' _; rcases mem_widths.1 hk' with rfl | rfl | rfl | rfl <;> omega
          · split at h
            · cases h
              refine ⟨by simp [widths], by omega, ?_⟩
              intro k' hk' hlt; rcases mem_widths.1 hk' with rfl | rfl | rfl | rfl <;> omega
            · split at h
              · cases h
                refine ⟨by simp [widths], by omega, ?_⟩
                intro k' hk' hlt; rcases mem_widths.1 hk' with rfl | rfl | rfl | rfl <;> omega
              · split at h
                · cases h
                  refine ⟨by simp [widths], by omega, ?_⟩
                  intro k' hk' hlt; rcases mem_widths.1 hk' with rfl | rfl | rfl | rfl <;> omega
                · cases h

/-- **completeness of the table**: a non-extensible range with both bounds that fits 8 octets (unsigned
when the lower bound is non-negative, two's complement otherwise) always gets a fixed-size form. -/
theorem fixed_of_fits {lb ub : Int} (hfit : (0 ≤ lb ∧ ub < (256 : Int) ^ 8) ∨
      (lb < 0 ∧ -(2 : Int) ^ 63 ≤ lb ∧ ub < (2 : Int) ^ 63)) :
    ∃ k ∈ widths, intForm ⟨some lb, some ub, false⟩ = .fixedUnsigned k ∨
                  intForm ⟨some lb, some ub, false⟩ = .fixedSigned k := by
  unfold intForm visibleLo visibleHi
  simp only [Bool.false_eq_true, if_false]
  rcases hfit with ⟨h0, h1⟩ | ⟨h0, h1, h2⟩
  · simp only [h0, if_true]
    by_cases a1 : ub ≤ 255
    · exact ⟨1, by simp [widths], by simp [a1]⟩
    by_cases a2 : ub ≤ 65535
    · exact ⟨2, by simp [widths], by simp [a1, a2]⟩
    by_cases a3 : ub ≤ 4294967295
    · exact ⟨4, by simp [widths], by simp [a1, a2, a3]⟩
    · have a4 : ub ≤ 18446744073709551615 := by omega
      exact ⟨8, by simp [widths], by simp [a1, a2, a3, a4]⟩
  · have hn : ¬ 0 ≤ lb := by omega
    simp only [hn, if_false]
    by_cases a1 : -128 ≤ lb ∧ ub ≤ 127
    · exact ⟨1, by simp [widths], by simp [a1]⟩
    by_cases a2 : -32768 ≤ lb ∧ ub ≤ 32767
    · exact ⟨2, by simp [widths], by simp [a1, a2]⟩
    by_cases a3 : -2147483648 ≤ lb ∧ ub ≤ 2147483647
    · exact ⟨4, by simp [widths], by simp [a1, a2, a3]⟩
    · have a4 : -9223372036854775808 ≤ lb ∧ ub ≤ 9223372036854775807 := by omega
      exact ⟨8, by simp [widths], by simp [a1, a2, a3, a4]⟩

/-- an extensible constraint is not OER-visible: always the variable-size signed form -/
theorem ext_varSigned (lo hi : Option Int) : intForm ⟨lo, hi, true⟩ = .varSigned := rfl

/-- no lower bound: variable-size signed form -/
theorem noLower_varSigned (hi : Option Int) (ext : Bool) : intForm ⟨none, hi, ext⟩ = .varSigned := by
  cases ext <;> rfl

/-- non-negative lower bound and no upper bound: variable-size unsigned form -/
theorem semi_varUnsigned {lb : Int} (h : 0 ≤ lb) : intForm ⟨some lb, none, false⟩ = .varUnsigned := by
  simp [intForm, visibleLo, visibleHi, h]

/-- negative lower bound and no upper bound: variable-size signed form -/
theorem semi_varSigned {lb : Int} (h : lb < 0) : intForm ⟨some lb, none, false⟩ = .varSigned := by
  have : ¬ 0 ≤ lb := by omega
  simp [intForm, visibleLo, visibleHi, this]

/-! ### least number of octets -/

theorem unsignedOctets_pos (n : Nat) : 1 ≤ unsignedOctets n := by unfold unsignedOctets; omega

/-- `n` fits in `unsignedOctets n` octets ... -/
theorem unsignedOctets_fits (n : Nat) : n < 256 ^ unsignedOctets n := by
  have h := lt_pow_byteLength n
  unfold unsignedOctets
  exact Nat.lt_of_lt_of_le h (Nat.pow_le_pow_right (by decide) (by omega))

/-- ... and in no smaller positive number of octets -/
theorem unsignedOctets_least (n k : Nat) (hk : 1 ≤ k) (h : n < 256 ^ k) : unsignedOctets n ≤ k := by
  rw [pow256_oer] at h
  have := bitLength_le_of_lt_pow_oer h
  unfold unsignedOctets byteLength
  omega

/-- the octets of the variable-size unsigned form denote the value -/
theorem unsigned_value (n : Nat) : bytesToNat (natToBytesN (unsignedOctets n) n) = n :=
  bytesToNat_natToBytesN_of_lt (unsignedOctets_fits n)

theorem signedOctets_pos (i : Int) : 1 ≤ signedOctets i := intByteLength_pos_oer i

/-- `i` fits the two's complement range of `signedOctets i` octets ... -/
theorem signedOctets_fits (i : Int) :
    -((2 ^ (8 * signedOctets i - 1) : Nat) : Int) ≤ i ∧ i < ((2 ^ (8 * signedOctets i - 1) : Nat) : Int) :=
  intByteLength_bounds_oer i

/-- ... and of no smaller positive number of octets -/
theorem signedOctets_least (i : Int) (k : Nat) (hk : 1 ≤ k)
    (hlo : -((2 ^ (8 * k - 1) : Nat) : Int) ≤ i) (hhi : i < ((2 ^ (8 * k - 1) : Nat) : Int)) :
    signedOctets i ≤ k := by
  unfold signedOctets intByteLength
  split
  · rename_i h0
    have h : i.toNat < 2 ^ (8 * k - 1) := by omega
    have := bitLength_le_of_lt_pow_oer h
    omega
  · rename_i h0
    have h : (-i - 1).toNat < 2 ^ (8 * k - 1) := by omega
    have := bitLength_le_of_lt_pow_oer h
    omega

/-- the octets of the variable-size signed form denote the value -/
theorem signed_value (i : Int) : bytesToInt (intToBytesN (signedOctets i) i) = i :=
  bytesToInt_intToBytesMin i

/-! ### length determinant -/

/-- 8.6.4: short form for every length below 128 -/
theorem lengthDet_short {n : Nat} (h : n < 128) : lengthDet n = .ok [n] := by
  simp [lengthDet, h]

/-- 8.6.5: otherwise the long form: `80 + k`, then `k` octets denoting the length, `k` being the least
number of octets that can hold it (so the first length octet is not zero) -/
theorem lengthDet_long {n : Nat} {bs : Bytes} (h : 128 ≤ n) (he : lengthDet n = .ok bs) :
    ∃ k ds, bs = (128 + k) :: ds ∧ ds.length = k ∧ 1 ≤ k ∧ k ≤ 127 ∧ bytesToNat ds = n ∧
      ∀ k', n < 256 ^ k' → k ≤ k' := by
  have hn : ¬ n < 128 := by omega
  simp only [lengthDet, hn, if_false] at he
  split at he
  · rename_i hk
    cases he
    refine ⟨byteLength n, natToBytesN (byteLength n) n, rfl, natToBytesN_length _ _, ?_, hk,
      bytesToNat_natToBytesN_of_lt (lt_pow_byteLength n), ?_⟩
    · unfold byteLength bitLength
      split
      · omega
      · omega
    · intro k' hk'
      rw [pow256_oer] at hk'
      have := bitLength_le_of_lt_pow_oer hk'
      unfold byteLength
      omega
  · cases he

/-- a length has a length determinant exactly when it needs at most 127 octets -/
theorem lengthDet_exists_iff (n : Nat) : (∃ bs, lengthDet n = .ok bs) ↔ n < 256 ^ 127 := by
  constructor
  · rintro ⟨bs, he⟩
    by_cases h : n < 128
    · exact Nat.lt_of_lt_of_le h (by decide)
    · simp only [lengthDet, h, if_false] at he
      split at he
      · rename_i hk
        exact Nat.lt_of_lt_of_le (lt_pow_byteLength n) (Nat.pow_le_pow_right (by decide) hk)
      · cases he
  · intro h
    by_cases h' : n < 128
    · exact ⟨_, lengthDet_short h'⟩
    · have hk : byteLength n ≤ 127 := by
        rw [pow256_oer] at h
        have := bitLength_le_of_lt_pow_oer h
        unfold byteLength
        omega
      exact ⟨(128 + byteLength n) :: natToBytesN (byteLength n) n, by simp [lengthDet, h', hk]⟩

/-- the only way the length determinant fails -/
theorem lengthDet_error {n : Nat} {e : Err} (h : lengthDet n = .error e) : e = .encodeError := by
  by_cases h1 : n < 128
  · simp [lengthDet, h1] at h
  · by_cases hk : byteLength n ≤ 127
    · simp [lengthDet, h1, hk] at h
    · simp [lengthDet, h1, hk] at h
      exact h.symm

end Asn1.X696
