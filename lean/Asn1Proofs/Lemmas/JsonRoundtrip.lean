import Asn1Proofs.Lemmas.JsonLex
/-
  `Json.parse (Json.render indent j) = some j`: every document the writer emits is an RFC 8259 document
  and the reader gives back the tree, for every indent.
-/
namespace Asn1.Json

mutual
  /-- well-formed JSON trees: strings and member names are lists of Unicode scalar values; no number with
  a fraction / exponent (the JER model never produces one) -/
  def wfV : JsonV → Bool
    | .null => true
    | .bool _ => true
    | .num _ => true
    | .dec _ _ => false
    | .str s => s.all isScalar
    | .arr xs => wfList xs
    | .obj kvs => wfMembers kvs
  def wfList : List JsonV → Bool
    | [] => true
    | x :: xs => wfV x && wfList xs
  def wfMembers : List (List Nat × JsonV) → Bool
    | [] => true
    | (k, v) :: r => k.all isScalar && wfV v && wfMembers r
end

/-! ### numbers -/

theorem isWs_of_isDigit {c : Nat} (h : isDigit c = true) : isWs c = false := by
  simp only [isDigit, Bool.and_eq_true, decide_eq_true_eq] at h
  simp only [isWs, Bool.or_eq_false_iff, beq_eq_false_iff_ne]
  omega

theorem parseExp_int (neg : Bool) (ds rest : List Nat) (hr : okFollow rest) :
    parseExp neg ds [] rest = some (.num (signed neg (digitsVal ds)), rest) := by
  cases rest with
  | nil => simp [parseExp]
  | cons e r =>
    have h1 : ¬ (e = 101 ∨ e = 69) := by
      simp only [okFollow, isWs, Bool.or_eq_true, beq_iff_eq] at hr
      omega
    simp [parseExp, h1]

theorem parseNumber_nat (ds rest : List Nat) (hd : ∀ c ∈ ds, isDigit c = true) (hne : ds ≠ [])
    (hz : ds.head? = some 48 → ds = [48]) (hr : okFollow rest) :
    parseNumber (ds ++ rest) = some (.num (digitsVal ds : Nat), rest) := by
  cases ds with
  | nil => exact absurd rfl hne
  | cons d ds' =>
    have hdd := hd d (List.mem_cons_self ..)
    have hd45 : ¬ d = 45 := by
      simp only [isDigit, Bool.and_eq_true, decide_eq_true_eq] at hdd; omega
    have hsp := spanDigits_append (d :: ds') rest hd (okFollow_not_digit hr)
    have hlead : ¬ (d = 48 ∧ (!ds'.isEmpty) = true) := by
      rintro ⟨h1, h2⟩
      subst h1
      have := hz rfl
      simp only [List.cons.injEq, true_and] at this
      subst this
      simp at h2
    rw [List.cons_append] at hsp ⊢
    simp only [parseNumber, hd45, if_false, hsp, hlead]
    have key := parseExp_int false (d :: ds') rest hr
    simp only [signed, Bool.false_eq_true, if_false] at key
    cases rest with
    | nil => simpa using key
    | cons p r =>
      have h46 : ¬ p = 46 := by
        simp only [okFollow, isWs, Bool.or_eq_true, beq_iff_eq] at hr
        omega
      simp only [h46, if_false]
      exact key

theorem parseNumber_neg (ds rest : List Nat) (hd : ∀ c ∈ ds, isDigit c = true) (hne : ds ≠ [])
    (hz : ds.head? = some 48 → ds = [48]) (hr : okFollow rest) :
    parseNumber (45 :: ds ++ rest) = some (.num (-(digitsVal ds : Nat)), rest) := by
  cases ds with
  | nil => exact absurd rfl hne
  | cons d ds' =>
    have hsp := spanDigits_append (d :: ds') rest hd (okFollow_not_digit hr)
    have hlead : ¬ (d = 48 ∧ (!ds'.isEmpty) = true) := by
      rintro ⟨h1, h2⟩
      subst h1
      have := hz rfl
      simp only [List.cons.injEq, true_and] at this
      subst this
      simp at h2
    rw [List.cons_append] at hsp
    simp only [parseNumber, List.cons_append, if_true, hsp, hlead, if_false]
    have key := parseExp_int true (d :: ds') rest hr
    simp only [signed, if_true] at key
    cases rest with
    | nil => simpa using key
    | cons p r =>
      have h46 : ¬ p = 46 := by
        simp only [okFollow, isWs, Bool.or_eq_true, beq_iff_eq] at hr
        omega
      simp only [h46, if_false]
      exact key

theorem parseNumber_renderInt (i : Int) (rest : List Nat) (hr : okFollow rest) :
    parseNumber (renderInt i ++ rest) = some (.num i, rest) := by
  unfold renderInt
  by_cases hneg : i < 0
  · rw [if_pos hneg]
    obtain ⟨h1, h2, h3, h4⟩ := natDigits_spec (-i).toNat
    rw [parseNumber_neg _ _ h1 h2 h4 hr, h3]
    congr 3; omega
  · rw [if_neg hneg]
    obtain ⟨h1, h2, h3, h4⟩ := natDigits_spec i.toNat
    rw [parseNumber_nat _ _ h1 h2 h4 hr, h3]
    congr 3; omega

/-- the first character of a rendered integer -/
theorem renderInt_head (i : Int) : ∃ h tl, renderInt i = h :: tl ∧ (h = 45 ∨ isDigit h = true) := by
  unfold renderInt
  by_cases hneg : i < 0
  · rw [if_pos hneg]; exact ⟨45, _, rfl, Or.inl rfl⟩
  · rw [if_neg hneg]
    obtain ⟨h1, h2, _, _⟩ := natDigits_spec i.toNat
    cases hd : natDigits i.toNat with
    | nil => exact absurd hd h2
    | cons d tl => exact ⟨d, tl, rfl, Or.inr (h1 d (by rw [hd]; exact List.mem_cons_self ..))⟩

theorem value_renderInt (i : Int) (rest : List Nat) (hr : okFollow rest) (fuel : Nat) :
    value (fuel + 1) (renderInt i ++ rest) = some (.num i, rest) := by
  obtain ⟨h, tl, e, hh⟩ := renderInt_head i
  have key := parseNumber_renderInt i rest hr
  rw [e] at key ⊢
  rw [List.cons_append] at key ⊢
  have hdig : h = 45 ∨ (48 ≤ h ∧ h ≤ 57) := by
    rcases hh with hh | hh
    · exact Or.inl hh
    · simp only [isDigit, Bool.and_eq_true, decide_eq_true_eq] at hh; exact Or.inr hh
  rw [value, if_neg (by omega), if_neg (by omega), if_neg (by omega), if_neg (by omega), if_neg (by omega),
    if_neg (by omega), if_pos (by
      rcases hh with hh | hh
      · exact Or.inl hh
      · exact Or.inr hh)]
  exact key

/-! ### first characters -/

theorem length_flatMap_renderChar (cps : List Nat) : cps.length ≤ (cps.flatMap renderChar).length := by
  induction cps with
  | nil => simp
  | cons c cps ih =>
    obtain ⟨h, tl, e, _⟩ := renderChar_head c
    simp only [List.flatMap_cons, List.length_append, List.length_cons, e]
    omega

/-- a rendered value is not empty and starts with a character that is neither white space nor a closing
bracket -/
theorem renderV_head (indent : Option Nat) (level : Nat) (j : JsonV) :
    ∃ h tl, renderV indent level j = h :: tl ∧ isWs h = false ∧ h ≠ 93 ∧ h ≠ 125 := by
  cases j with
  | null => exact ⟨110, _, by rw [renderV], by decide, by decide, by decide⟩
  | bool b =>
    cases b
    · exact ⟨102, _, by rw [renderV], by decide, by decide, by decide⟩
    · exact ⟨116, _, by rw [renderV], by decide, by decide, by decide⟩
  | num i =>
    obtain ⟨h, tl, e, hh⟩ := renderInt_head i
    refine ⟨h, tl, by rw [renderV, e], ?_, ?_, ?_⟩
    · rcases hh with hh | hh
      · subst hh; decide
      · exact isWs_of_isDigit hh
    · rcases hh with hh | hh
      · omega
      · simp only [isDigit, Bool.and_eq_true, decide_eq_true_eq] at hh; omega
    · rcases hh with hh | hh
      · omega
      · simp only [isDigit, Bool.and_eq_true, decide_eq_true_eq] at hh; omega
  | dec m e =>
    obtain ⟨h, tl, e', hh⟩ := renderInt_head m
    refine ⟨h, tl ++ [101] ++ renderInt e, by rw [renderV, e']; rfl, ?_, ?_, ?_⟩
    · rcases hh with hh | hh
      · subst hh; decide
      · exact isWs_of_isDigit hh
    · rcases hh with hh | hh
      · omega
      · simp only [isDigit, Bool.and_eq_true, decide_eq_true_eq] at hh; omega
    · rcases hh with hh | hh
      · omega
      · simp only [isDigit, Bool.and_eq_true, decide_eq_true_eq] at hh; omega
  | str s => exact ⟨34, _, by rw [renderV, renderStr]; rfl, by decide, by decide, by decide⟩
  | arr xs =>
    cases xs with
    | nil => exact ⟨91, _, by rw [renderV], by decide, by decide, by decide⟩
    | cons x xs => exact ⟨91, _, by rw [renderV]; rfl, by decide, by decide, by decide⟩
  | obj kvs =>
    cases kvs with
    | nil => exact ⟨123, _, by rw [renderV], by decide, by decide, by decide⟩
    | cons kv kvs => obtain ⟨k, v⟩ := kv; exact ⟨123, _, by rw [renderV]; rfl, by decide, by decide, by decide⟩

/-! ### the main induction -/

theorem okFollow_ws_append (w : List Nat) (c : Nat) (rest : List Nat) (hw : ∀ x ∈ w, isWs x = true)
    (hc : c = 44 ∨ c = 93 ∨ c = 125) : okFollow (w ++ c :: rest) := by
  cases w with
  | nil => simp only [List.nil_append, okFollow]; omega
  | cons x w => simp only [List.cons_append, okFollow]; exact Or.inr (Or.inr (Or.inr (hw x (List.mem_cons_self ..))))

theorem value_renderStr (cps : List Nat) (hs : cps.all isScalar = true) (rest : List Nat) (fuel : Nat)
    (hf : (renderStr cps ++ rest).length ≤ fuel) :
    value (fuel + 1) (renderStr cps ++ rest) = some (.str cps, rest) := by
  have hlen := length_flatMap_renderChar cps
  simp only [renderStr, List.append_assoc, List.cons_append, List.nil_append, List.length_cons,
    List.length_append] at hf ⊢
  rw [value]
  simp only [show ¬ ((34:Nat) = 110) by decide, show ¬ ((34:Nat) = 116) by decide, show ¬ ((34:Nat) = 102) by decide,
    if_false, if_true]
  rw [parseStr_render cps (by simpa using hs) rest fuel (by omega)]

mutual
  theorem value_render (indent : Option Nat) (j : JsonV) (hj : wfV j = true) (level : Nat) (rest : List Nat)
      (hr : okFollow rest) (fuel : Nat) (hf : 2 * (renderV indent level j ++ rest).length + 1 ≤ fuel) :
      value fuel (renderV indent level j ++ rest) = some (j, rest) := by
    obtain ⟨f, rfl⟩ : ∃ f, fuel = f + 1 := ⟨fuel - 1, by omega⟩
    match j, hj with
    | .null, _ => rw [renderV]; simp [value, expect]
    | .bool true, _ => rw [renderV]; simp [value, expect]
    | .bool false, _ => rw [renderV]; simp [value, expect]
    | .num i, _ => rw [renderV]; exact value_renderInt i rest hr f
    | .dec _ _, hj => simp [wfV] at hj
    | .str cps, hj =>
      rw [renderV] at hf ⊢
      rw [wfV] at hj
      exact value_renderStr cps hj rest f (by omega)
    | .arr [], _ =>
      rw [renderV]
      simp [value, skipWs, isWs]
    | .arr (x :: xs), hj =>
      rw [wfV] at hj
      have hl : wfList (x :: xs) = true := hj
      rw [renderV] at hf ⊢
      simp only [List.append_assoc, List.cons_append, List.nil_append, List.length_cons] at hf ⊢
      rw [value]
      simp only [show ¬ ((91:Nat) = 110) by decide, show ¬ ((91:Nat) = 116) by decide, show ¬ ((91:Nat) = 102) by decide,
        show ¬ ((91:Nat) = 34) by decide, if_false, if_true]
      rw [skipWs_nl]
      have ih := elems_render indent (x :: xs) (List.cons_ne_nil _ _) hl (level + 1) (nl indent level) rest
        (nl_ws indent level) f (by
          rw [renderTail]
          simp only [List.append_assoc, List.cons_append, List.nil_append, List.length_append, List.length_cons] at hf ⊢
          omega)
      simp only at ih
      obtain ⟨h, tl, e, h1, h2, _⟩ := renderV_head indent (level + 1) x
      rw [e] at ih ⊢
      rw [List.cons_append] at ih ⊢
      rw [skipWs_of_not_ws h _ h1]
      simp only [if_neg h2, ih]
    | .obj [], _ =>
      rw [renderV]
      simp [value, skipWs, isWs]
    | .obj ((k, v) :: kvs), hj =>
      rw [wfV] at hj
      have hl : wfMembers ((k, v) :: kvs) = true := hj
      rw [renderV] at hf ⊢
      simp only [List.append_assoc, List.cons_append, List.nil_append, List.length_cons] at hf ⊢
      rw [value]
      simp only [show ¬ ((123:Nat) = 110) by decide, show ¬ ((123:Nat) = 116) by decide, show ¬ ((123:Nat) = 102) by decide,
        show ¬ ((123:Nat) = 34) by decide, show ¬ ((123:Nat) = 91) by decide, if_false, if_true]
      rw [skipWs_nl]
      have ih := members_render indent ((k, v) :: kvs) (List.cons_ne_nil _ _) hl (level + 1) (nl indent level) rest
        (nl_ws indent level) f (by
          rw [renderMembers]
          simp only [List.append_assoc, List.cons_append, List.nil_append, List.length_append, List.length_cons] at hf ⊢
          omega)
      simp only at ih
      simp only [renderStr, List.append_assoc, List.cons_append, List.nil_append] at ih ⊢
      rw [skipWs_of_not_ws 34 _ (by decide)]
      simp only [show ¬ ((34:Nat) = 125) by decide, if_false, ih]
  /-- the items of a non-empty array followed by the closing white space and bracket -/
  theorem elems_render (indent : Option Nat) (l : List JsonV) (hne : l ≠ []) (hl : wfList l = true) (level : Nat)
      (w rest : List Nat) (hw : ∀ c ∈ w, isWs c = true) (fuel : Nat)
      (hf : 2 * (renderTail indent level l ++ (w ++ 93 :: rest)).length ≤ fuel) :
      match (generalizing := false) l with
      | [] => True
      | x :: xs =>
        elems fuel (renderV indent level x ++ (renderTail indent level xs ++ (w ++ 93 :: rest))) = some (l, rest) := by
    match l, hne, hl with
    | [], hne, _ => exact absurd rfl hne
    | x :: xs, _, hl =>
      simp only
      rw [wfList, Bool.and_eq_true] at hl
      rw [renderTail] at hf
      simp only [List.append_assoc, List.cons_append, List.nil_append, List.length_cons, List.length_append] at hf
      obtain ⟨f, rfl⟩ : ∃ f, fuel = f + 1 := ⟨fuel - 1, by omega⟩
      rw [elems]
      have hfollow : okFollow (renderTail indent level xs ++ (w ++ 93 :: rest)) := by
        cases xs with
        | nil => rw [renderTail, List.nil_append]; exact okFollow_ws_append w 93 rest hw (by omega)
        | cons y ys => rw [renderTail]; simp [okFollow]
      rw [value_render indent x hl.1 level _ hfollow f (by
        simp only [List.length_append, List.length_cons]
        omega)]
      simp only
      match xs, hl.2 with
      | [], _ =>
        rw [renderTail, List.nil_append, skipWs_ws_append w _ hw, skipWs_of_not_ws 93 _ (by decide)]
        simp
      | y :: ys, hys =>
        have ih := elems_render indent (y :: ys) (List.cons_ne_nil _ _) hys level w rest hw f (by
          rw [renderTail] at hf ⊢
          simp only [List.append_assoc, List.cons_append, List.nil_append, List.length_cons, List.length_append] at hf ⊢
          omega)
        simp only at ih
        rw [renderTail]
        simp only [List.append_assoc, List.cons_append, List.nil_append]
        rw [skipWs_of_not_ws 44 _ (by decide)]
        simp only [if_true]
        rw [skipWs_nl]
        obtain ⟨h, tl, e, h1, _, _⟩ := renderV_head indent level y
        rw [e] at ih ⊢
        rw [List.cons_append] at ih ⊢
        rw [skipWs_of_not_ws h _ h1, ih]
  theorem members_render (indent : Option Nat) (l : List (List Nat × JsonV)) (hne : l ≠ []) (hl : wfMembers l = true)
      (level : Nat) (w rest : List Nat) (hw : ∀ c ∈ w, isWs c = true) (fuel : Nat)
      (hf : 2 * (renderMembers indent level l ++ (w ++ 125 :: rest)).length ≤ fuel) :
      match (generalizing := false) l with
      | [] => True
      | (k, v) :: kvs =>
        members fuel (renderStr k ++ (keySep indent ++ (renderV indent level v ++
          (renderMembers indent level kvs ++ (w ++ 125 :: rest))))) = some (l, rest) := by
    match l, hne, hl with
    | [], hne, _ => exact absurd rfl hne
    | (k, v) :: kvs, _, hl =>
      simp only
      rw [wfMembers, Bool.and_eq_true, Bool.and_eq_true] at hl
      obtain ⟨⟨hk, hv⟩, hkvs⟩ := hl
      rw [renderMembers] at hf
      have hklen := length_flatMap_renderChar k
      simp only [renderStr, List.append_assoc, List.cons_append, List.nil_append, List.length_cons,
        List.length_append] at hf ⊢
      obtain ⟨f, rfl⟩ : ∃ f, fuel = f + 1 := ⟨fuel - 1, by omega⟩
      rw [members]
      simp only [if_true]
      rw [parseStr_render k (by simpa using hk) _ f (by omega)]
      simp only
      have hfollow : okFollow (renderMembers indent level kvs ++ (w ++ 125 :: rest)) := by
        cases kvs with
        | nil => rw [renderMembers, List.nil_append]; exact okFollow_ws_append w 125 rest hw (by omega)
        | cons y ys => obtain ⟨k', v'⟩ := y; rw [renderMembers]; simp [okFollow]
      obtain ⟨h, tl, e, h1, _, _⟩ := renderV_head indent level v
      have hval := value_render indent v hv level _ hfollow f (by
        simp only [List.length_append, List.length_cons]
        omega)
      have hsep : ∀ s, ∃ r2, skipWs (keySep indent ++ (h :: s)) = 58 :: r2 ∧ skipWs r2 = h :: s := by
        intro s
        cases indent with
        | none =>
          refine ⟨h :: s, ?_, skipWs_of_not_ws h _ h1⟩
          simp only [keySep, List.cons_append, List.nil_append]
          rw [skipWs_of_not_ws 58 _ (by decide)]
        | some n =>
          refine ⟨32 :: h :: s, ?_, ?_⟩
          · simp only [keySep, List.cons_append, List.nil_append]
            rw [skipWs_of_not_ws 58 _ (by decide)]
          · rw [skipWs, if_pos (by decide), skipWs_of_not_ws h _ h1]
      rw [e] at hval ⊢
      rw [List.cons_append] at hval ⊢
      obtain ⟨r2, hs1, hs2⟩ := hsep (tl ++ (renderMembers indent level kvs ++ (w ++ 125 :: rest)))
      rw [hs1]
      simp only [if_true]
      rw [hs2, hval]
      simp only
      match kvs, hkvs with
      | [], _ =>
        rw [renderMembers, List.nil_append, skipWs_ws_append w _ hw, skipWs_of_not_ws 125 _ (by decide)]
        simp
      | (k', v') :: ys, hys =>
        have ih := members_render indent ((k', v') :: ys) (List.cons_ne_nil _ _) hys level w rest hw f (by
          rw [renderMembers] at hf ⊢
          simp only [renderStr, List.append_assoc, List.cons_append, List.nil_append, List.length_cons,
            List.length_append] at hf ⊢
          omega)
        simp only at ih
        rw [renderMembers]
        simp only [renderStr, List.append_assoc, List.cons_append, List.nil_append] at ih ⊢
        rw [skipWs_of_not_ws 44 _ (by decide)]
        simp only [if_true]
        rw [skipWs_nl, skipWs_of_not_ws 34 _ (by decide), ih]
end

/-- **the writer emits valid JSON and the reader inverts it**, for every indent -/
theorem parse_render (indent : Option Nat) (j : JsonV) (hj : wfV j = true) :
    parse (render indent j) = some j := by
  obtain ⟨h, tl, e, h1, _, _⟩ := renderV_head indent 0 j
  have key := value_render indent j hj 0 [] trivial (2 * (render indent j).length + 2) (by
    simp only [render, List.append_nil]; omega)
  rw [List.append_nil] at key
  rw [parse]
  have : skipWs (render indent j) = render indent j := by
    rw [render, e]; exact skipWs_of_not_ws h _ h1
  rw [this]
  rw [render] at key ⊢
  rw [key]
  simp [skipWs]

end Asn1.Json
