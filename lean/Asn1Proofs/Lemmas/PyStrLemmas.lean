import Asn1Proofs.Lemmas.Bridge2Defs
import Asn1Proofs.Lemmas.UperMisc
import Asn1Proofs.Lemmas.OerBits
/-
  Lemmas about the Python string / hexadecimal primitives of `Asn1Model/PyPrim.lean` used by the translated decoder
  classes (`int(s, 2)`, `s[a:b]`, `s[i]`, `'0' * n`, `binascii.unhexlify(hex(x)[4:])`), and list-level facts about
  `splitExact`, `packBits`, `bytesToBits`.
-/
namespace Asn1.Bridge
open Asn1 Asn1.Translated

/-! ### `splitExact` / `Oer.splitAux` as take / drop -/

theorem uper_splitAux_eq (n : Nat) (bs acc : Bits) :
    Uper.splitAux n bs acc =
      if n ≤ bs.length then some (acc.reverse ++ bs.take n, bs.drop n) else none := by
  induction n generalizing bs acc with
  | zero => simp [Uper.splitAux]
  | succ n ih =>
    cases bs with
    | nil => simp [Uper.splitAux]
    | cons b t =>
      simp only [Uper.splitAux, ih, List.length_cons, Nat.add_le_add_iff_right, List.reverse_cons,
        List.take_succ_cons, List.drop_succ_cons, List.append_assoc, List.singleton_append]

theorem splitExact_eq (n : Nat) (bs : Bits) :
    Uper.splitExact n bs = if n ≤ bs.length then some (bs.take n, bs.drop n) else none := by
  unfold Uper.splitExact
  rw [uper_splitAux_eq]; rfl

theorem oer_splitAux_eq (n : Nat) (bs acc : Bytes) :
    Oer.splitAux n bs acc =
      if n ≤ bs.length then some (acc.reverse ++ bs.take n, bs.drop n) else none := by
  induction n generalizing bs acc with
  | zero => simp [Oer.splitAux]
  | succ n ih =>
    cases bs with
    | nil => simp [Oer.splitAux]
    | cons b t =>
      simp only [Oer.splitAux, ih, List.length_cons, Nat.add_le_add_iff_right, List.reverse_cons,
        List.take_succ_cons, List.drop_succ_cons, List.append_assoc, List.singleton_append]

theorem oer_readBytes_eq (n : Nat) (bs : Bytes) :
    Oer.readBytes n bs = if n ≤ bs.length then .ok (bs.take n, bs.drop n) else .error .decodeError := by
  simp only [Oer.readBytes, oer_splitAux_eq]
  by_cases h : n ≤ bs.length <;> simp [h]

/-! ### octets and bits -/

theorem bytesToBits_take (bs : Bytes) (k : Nat) : (bytesToBits bs).take (8 * k) = bytesToBits (bs.take k) := by
  induction bs generalizing k with
  | nil => simp [bytesToBits]
  | cons b r ih =>
    cases k with
    | zero => simp [bytesToBits]
    | succ k =>
      rw [bytesToBits_cons, List.take_succ_cons, bytesToBits_cons, ← ih k,
        show 8 * (k + 1) = 8 + 8 * k by omega, List.take_append, natToBits_length,
        List.take_of_length_le (by simp), show 8 + 8 * k - 8 = 8 * k by omega]

theorem bytesToBits_drop (bs : Bytes) (k : Nat) : (bytesToBits bs).drop (8 * k) = bytesToBits (bs.drop k) := by
  induction bs generalizing k with
  | nil => simp [bytesToBits]
  | cons b r ih =>
    cases k with
    | zero => simp
    | succ k =>
      rw [bytesToBits_cons, List.drop_succ_cons, ← ih k,
        show 8 * (k + 1) = 8 + 8 * k by omega]
      rw [List.drop_append, natToBits_length, List.drop_of_length_le (by simp),
        show 8 + 8 * k - 8 = 8 * k by omega, List.nil_append]

theorem bitsToNat_bytesToBits (bs : Bytes) (h : ∀ b ∈ bs, b < 256) : bitsToNat (bytesToBits bs) = bytesToNat bs := by
  rw [bytesToBits_eq bs h, bitsToNat_natToBits_of_lt (bytesToNat_lt bs h)]

theorem natToBytesN_bytesToNat (bs : Bytes) (h : ∀ b ∈ bs, b < 256) : natToBytesN bs.length (bytesToNat bs) = bs := by
  have h1 := packBits_bytesToBits _ (natToBytesN_lt bs.length (bytesToNat bs))
  rw [bytesToBits_natToBytesN, ← bytesToBits_eq bs h, packBits_bytesToBits bs h] at h1
  exact h1.symm

/-- zero padding up to the octet boundary does not change the packed octets -/
theorem bitsToBytes_pad (f1 : Nat) : ∀ (f2 : Nat) (bs : Bits), bs.length + 1 ≤ f1 →
    (bs ++ List.replicate ((8 - bs.length % 8) % 8) false).length + 1 ≤ f2 →
    bitsToBytes f2 (bs ++ List.replicate ((8 - bs.length % 8) % 8) false) = bitsToBytes f1 bs := by
  induction f1 with
  | zero => intro f2 bs h; omega
  | succ f1 ih =>
    intro f2 bs h1 h2
    cases f2 with
    | zero => omega
    | succ f2 =>
      cases hbs : bs with
      | nil => rfl
      | cons b r =>
        rw [← hbs]
        have hlen : 1 ≤ bs.length := by rw [hbs]; simp
        have hne : bs.isEmpty = false := by rw [hbs]; rfl
        have hne2 : (bs ++ List.replicate ((8 - bs.length % 8) % 8) false).isEmpty = false := by
          rw [hbs]; rfl
        rw [bitsToBytes, bitsToBytes, hne, hne2]
        simp only [Bool.false_eq_true, if_false]
        by_cases h8 : 8 ≤ bs.length
        · have t1 : (bs ++ List.replicate ((8 - bs.length % 8) % 8) false).take 8 = bs.take 8 :=
            List.take_append_of_le_length h8
          have d1 : (bs ++ List.replicate ((8 - bs.length % 8) % 8) false).drop 8
              = bs.drop 8 ++ List.replicate ((8 - (bs.drop 8).length % 8) % 8) false := by
            rw [List.drop_append_of_le_length h8, List.length_drop]
            congr 3; omega
          rw [t1, d1, ih f2 (bs.drop 8) (by rw [List.length_drop]; omega) (by
            rw [← d1]; simp only [List.length_drop, List.length_append, List.length_replicate] at h2 ⊢; omega)]
        · have e : (8 - bs.length % 8) % 8 = 8 - bs.length := by omega
          have hl : (bs ++ List.replicate (8 - bs.length) false).length = 8 := by
            simp only [List.length_append, List.length_replicate]; omega
          rw [e, List.take_of_length_le (by omega), List.drop_of_length_le (by omega), hl,
            List.take_of_length_le (by omega : bs.length ≤ 8), List.drop_of_length_le (by omega : bs.length ≤ 8)]
          simp only [Nat.sub_self, List.replicate_zero, List.append_nil]
          cases f1 <;> cases f2 <;> rfl

theorem packBits_pad (bs : Bits) :
    packBits (bs ++ List.replicate ((8 - bs.length % 8) % 8) false) = packBits bs := by
  unfold packBits
  exact bitsToBytes_pad _ _ bs (Nat.le_refl _) (Nat.le_refl _)

/-- the octets of a bit string, as the number its zero-padded form stands for -/
theorem packBits_eq (bs : Bits) (k : Nat) (p : Nat) (hp : p = (8 - bs.length % 8) % 8) (hk : 8 * k = bs.length + p) :
    ofNats (packBits bs) = ofNats (natToBytesN k (bitsToNat (bs ++ List.replicate p false))) := by
  subst hp
  have hl : (bs ++ List.replicate ((8 - bs.length % 8) % 8) false).length = 8 * k := by
    simp only [List.length_append, List.length_replicate]; omega
  have h1 := packBits_bytesToBits _ (natToBytesN_lt k (bitsToNat (bs ++ List.replicate ((8 - bs.length % 8) % 8) false)))
  rw [bytesToBits_natToBytesN, ← hl, natToBits_bitsToNat, packBits_pad] at h1
  rw [h1]

/-! ### `binascii.unhexlify(hex(x)[4:])` behind a 0x80 sentinel octet -/

def nibbles (bs : List Nat) : List Nat := bs.flatMap (fun b => [b / 16, b % 16])

theorem nibbles_append (a b : List Nat) : nibbles (a ++ b) = nibbles a ++ nibbles b := by
  simp [nibbles]

theorem nibbles_length (a : List Nat) : (nibbles a).length = 2 * a.length := by
  induction a with
  | nil => rfl
  | cons x r ih => simp [nibbles] at ih ⊢; omega

theorem pairUp_nibbles (bs : List Nat) : Py.pairUp (nibbles bs) = ofNats bs := by
  induction bs with
  | nil => rfl
  | cons b r ih =>
    show Py.pairUp (b / 16 :: b % 16 :: nibbles r) = _
    rw [Py.pairUp, ih, ofNats_cons]
    congr 1
    show ((16 * (b / 16) + b % 16 : Nat) : Int) = (b : Int)
    congr 1; omega

theorem hexDigitsAux_sentinel (k : Nat) : ∀ (x fuel : Nat) (acc : List Nat), x < 256 ^ k → 2 * k + 2 ≤ fuel →
    Py.hexDigitsAux fuel (128 * 256 ^ k + x) acc = 8 :: 0 :: (nibbles (natToBytesN k x) ++ acc) := by
  induction k with
  | zero =>
    intro x fuel acc hx hf
    have : x = 0 := by simpa using hx
    subst this
    obtain ⟨f, rfl⟩ : ∃ f, fuel = f + 2 := ⟨fuel - 2, by omega⟩
    simp [Py.hexDigitsAux, natToBytesN, nibbles]
  | succ k ih =>
    intro x fuel acc hx hf
    obtain ⟨f, rfl⟩ : ∃ f, fuel = f + 2 := ⟨fuel - 2, by omega⟩
    have hpos : 0 < 256 ^ k := Nat.pow_pos (by omega)
    rw [Nat.pow_succ] at hx
    have hn : 128 * 256 ^ (k + 1) + x = (128 * 256 ^ k + x / 256) * 256 + x % 256 := by
      rw [Nat.pow_succ]; omega
    generalize hN : 128 * 256 ^ (k + 1) + x = N at hn
    have c1 : ¬ N < 16 := by omega
    have c2 : ¬ N / 16 < 16 := by omega
    have e1 : N / 16 / 16 = 128 * 256 ^ k + x / 256 := by omega
    have e2 : N / 16 % 16 = x % 256 / 16 := by omega
    have e3 : N % 16 = x % 256 % 16 := by omega
    rw [Py.hexDigitsAux, if_neg c1, Py.hexDigitsAux, if_neg c2, e1, e2, e3,
      ih (x / 256) f _ (by omega) (by omega), natToBytesN, nibbles_append]
    simp [nibbles]

theorem unhexAfter4_sentinel (k x : Nat) (hx : x < 256 ^ k) :
    Py.unhexAfter4 ((128 * 256 ^ k + x : Nat) : Int) = .ok (ofNats (natToBytesN k x)) := by
  unfold Py.unhexAfter4 Py.hexDigits
  have hk : k < 256 ^ k := Nat.lt_pow_self (by omega)
  rw [if_neg (by omega), Int.toNat_natCast, hexDigitsAux_sentinel k x _ [] hx (by omega)]
  simp only [List.drop_succ_cons, List.drop_zero, List.append_nil, nibbles_length, natToBytesN_length]
  rw [if_neg (by omega), pairUp_nibbles]

/-! ### strings of '0' / '1' -/

def bitOfChar (c : Char) : Bool := c == '1'

theorem intOfBin_eq (s : List Char) (hne : s ≠ []) (hb : ∀ c ∈ s, c = '0' ∨ c = '1') :
    Py.intOfBin s = .ok ((bitsToNat (s.map (· == '1')) : Nat) : Int) := by
  unfold Py.intOfBin
  have h1 : s.isEmpty = false := by cases s <;> simp at hne ⊢
  have h2 : s.all (fun c => c == '0' || c == '1') = true := by
    rw [List.all_eq_true]
    intro c hc
    rcases hb c hc with rfl | rfl <;> rfl
  rw [h1, h2]
  simp only [Bool.false_eq_true, if_false, if_true]
  unfold bitsToNat
  rw [List.foldl_map]
  simp only [beq_iff_eq]
  rfl

theorem intOfDec_bit (c : Char) (hb : c = '0' ∨ c = '1') :
    Py.intOfDec [c] = .ok (if (c == '1') then 1 else 0) := by
  rcases hb with rfl | rfl <;> rfl

theorem strRepeat_zero (p : Nat) : Py.strRepeat ['0'] (p : Int) = List.replicate p '0' := by
  unfold Py.strRepeat
  rw [Int.toNat_natCast]
  induction p with
  | zero => rfl
  | succ p ih => rw [List.replicate_succ, List.flatten_cons, ih]; rfl

theorem slice_eq {α : Type} (xs : List α) (a n : Nat) (h : a + n ≤ xs.length) :
    Py.slice xs (a : Int) ((a : Int) + (n : Int)) = (xs.drop a).take n := by
  unfold Py.slice Py.clamp
  have h1 : ((a : Int) ≥ 0) := by omega
  have h2 : ((a : Int) + (n : Int) ≥ 0) := by omega
  simp only [h1, h2, if_true]
  rw [show ((a : Int) + (n : Int)).toNat = a + n by omega, Int.toNat_natCast,
    Nat.min_eq_left h, Nat.min_eq_left (by omega : a ≤ xs.length)]
  congr 1; omega

theorem strIdx_eq (xs : List Char) (a : Nat) (h : a < xs.length) :
    Py.strIdx xs (a : Int) = .ok [xs[a]] := by
  unfold Py.strIdx Py.getIdx?
  rw [if_pos (by omega), Int.toNat_natCast, List.getElem?_eq_getElem h]

/-! ### bit 8 of an octet -/

theorem band128_zero {c : Nat} (h2 : c < 128) : Py.band (c : Int) 128 = 0 := by
  have h3 : c &&& 2 ^ 7 = 0 := by
    rw [Py.and_two_pow_eq_zero_of_lt (by omega)]; omega
  rw [show (128 : Int) = ((128 : Nat) : Int) from rfl, Py.band_natCast]
  show ((c &&& 2 ^ 7 : Nat) : Int) = 0
  rw [h3]; rfl

theorem band128_nonzero {c : Nat} (h1 : 128 ≤ c) (h2 : c < 256) : Py.band (c : Int) 128 ≠ 0 := by
  have h3 : ¬ (c &&& 2 ^ 7 = 0) := by
    rw [Py.and_two_pow_eq_zero_of_lt (by omega)]; omega
  rw [show (128 : Int) = ((128 : Nat) : Int) from rfl, Py.band_natCast]
  show ((c &&& 2 ^ 7 : Nat) : Int) ≠ 0
  omega

end Asn1.Bridge
