import Asn1Proofs.Lemmas.ExtLemmas
import Asn1Proofs.Lemmas.ExtPerSeq
import Asn1Proofs.Lemmas.X691Prim
/-
  C07, ALIGNED PER: the cross-version round trip for every pair of compatible types (`xt_all`), the
  side condition `Per.skipFree` in the backward direction (it always holds: the newer decoder knows every
  addition of the older encoder), and the forward / backward statements at the level of `Per.enc` /
  `Per.dec` and of `Per.encode` / `Per.decode`.
-/
set_option linter.unusedSimpArgs false
set_option linter.unusedVariables false
namespace Asn1.Ext.PerX
open Asn1 Asn1.Per Asn1.Ext
open Asn1.Uper (padToByte)

/-- FRAME / cross-version round trip for every pair of compatible types -/
theorem xt_all {tD tE : Ty} (h : Compat tD tE) : XT tD tE :=
  Compat.rec
    (motive_1 := fun tD tE _ => XT tD tE)
    (motive_2 := fun mD mE _ => XTM mD mE)
    (motive_3 := fun aD aE _ => XTA aD aE)
    (motive_4 := fun rD rE _ => UperX.AltsAllX XT rD rE)
    (motive_5 := fun aD aE _ => UperX.AltsAllX XT aD aE)
    xt_boolean xt_null xt_integer xt_octetString xt_bitString xt_charString
    xt_enumerated xt_enumeratedD xt_enumeratedE
    (fun x hcm _ hm ha => xt_sequence _ _ _ _ x hcm hm ha)
    (fun c _ ih => xt_sequenceOf _ _ c ih)
    (fun x hcr hca ihr iha => xt_choice _ _ _ _ x hcr hca ihr iha)
    xtm_nil
    (fun name p hc _ hx ih => xtm_cons name p _ _ _ _ hc hx ih)
    xta_nilD
    (fun ms _ => xta_nilE ms)
    (fun name p _ _ hx ih => xta_cons name p _ _ _ _ hx ih)
    (by simp [UperX.AltsAllX])
    (fun name _ _ hx ih => by simp only [UperX.AltsAllX]; exact ⟨hx, ih⟩)
    (fun as => by cases as <;> simp [UperX.AltsAllX])
    (fun as => by cases as <;> simp [UperX.AltsAllX])
    (fun name _ _ hx ih => by simp only [UperX.AltsAllX]; exact ⟨hx, ih⟩)
    h

/-! ### `skipFree` holds whenever the DECODER has the newer version -/

theorem skipFree_rev {t1 t2 : Ty} (h : Extends t1 t2) : ∀ v, skipFree t2 t1 v = true :=
  Extends.rec
    (motive_1 := fun t1 t2 _ => ∀ v, skipFree t2 t1 v = true)
    (motive_2 := fun m1 m2 _ => ∀ fs, skipFreeMembers m2 m1 fs = true)
    (motive_3 := fun _ m1 m2 _ => ∀ fs, skipFreeAdds m2 m1 fs = true)
    (motive_4 := fun a1 a2 _ => ∀ n v, skipFreeAlt a2 a1 n v = true)
    (motive_5 := fun _ a1 a2 _ => ∀ n v, skipFreeAlt a2 a1 n v = true)
    (fun v => by cases v <;> rfl) (fun v => by cases v <;> rfl) (fun _ v => by cases v <;> rfl)
    (fun _ v => by cases v <;> rfl) (fun _ v => by cases v <;> rfl) (fun _ _ v => by cases v <;> rfl)
    (fun _ v => by cases v <;> rfl)
    (fun _ _ _ v => by cases v <;> rfl)
    (fun x _ _ ihr iha v => by
      cases v <;> try rfl
      simp only [skipFree, ihr, iha, Bool.and_self])
    (fun c _ ih v => by
      cases v <;> try rfl
      simp only [skipFree, List.all_eq_true]
      exact fun w _ => ih w)
    (fun x _ _ ihr iha v => by
      cases v <;> try rfl
      simp only [skipFree, ihr, iha, Bool.and_self])
    (fun fs => rfl)
    (fun name p _ _ iht ihm fs => by
      simp only [skipFreeMembers, ihm, Bool.and_true]
      cases lookup name fs <;> simp only [iht])
    (fun x ms _ _ fs => by cases ms <;> rfl)
    (fun name p _ _ iht ihm fs => by
      simp only [skipFreeAdds, ihm, Bool.and_true]
      cases lookup name fs <;> simp only [iht])
    (fun n v => rfl)
    (fun name _ _ iht ihm n v => by
      simp only [skipFreeAlt, iht, ihm, ite_self])
    (fun x as _ n v => by cases as <;> rfl)
    (fun name _ _ iht ihm n v => by
      simp only [skipFreeAlt, iht, ihm, ite_self])
    h

/-! ### forward / backward, recursive coders -/

/-- forward, decoder at any position that agrees with the encoder's modulo 8 -/
theorem forward_mod8 (t1 t2 : Ty) (v : Val) (pos pos' : Nat) (bits rest : Bits) (fuel : Nat)
    (hx : Extends t1 t2)
    (hwf : t2.wf = true) (hd1 : t1.defaultsOk = true) (hd2 : t2.defaultsOk = true)
    (hns : t2.nsOk = true) (ht : hasType t2 v = true) (hf : fragFree t2 v = true)
    (hs : skipFree t1 t2 v = true) (hp : pos' % 8 = pos % 8)
    (he : enc t2 pos v = .ok bits) (hfuel : bits.length + rest.length + 2 ≤ fuel) :
    dec t1 fuel ⟨pos', bits ++ rest⟩ =
      .ok (canon t1 (project t1 t2 v), ⟨pos' + bits.length, rest⟩) := by
  have h := xt_all (compat_of_extends hx) v pos pos' bits rest fuel hwf hd2 hns
    (dOk_fwd false hx hwf (by rw [defaultsOkG_false]; exact hd1)) ht hf hs hp he hfuel
  rw [view_project false hx (wf_of_extends hx hwf) v, canonG_false] at h
  exact h

/-- backward, decoder at any position that agrees with the encoder's modulo 8 -/
theorem backward_mod8 (t1 t2 : Ty) (v : Val) (pos pos' : Nat) (bits rest : Bits) (fuel : Nat)
    (hx : Extends t1 t2)
    (hwf : t2.wf = true) (hd1 : t1.defaultsOk = true) (hd2 : t2.defaultsOk = true)
    (hns : t2.nsOk = true) (ht : hasType t1 v = true) (hf : fragFree t1 v = true)
    (hp : pos' % 8 = pos % 8)
    (he : enc t1 pos v = .ok bits) (hfuel : bits.length + rest.length + 2 ≤ fuel) :
    dec t2 fuel ⟨pos', bits ++ rest⟩ = .ok (canon t2 v, ⟨pos' + bits.length, rest⟩) := by
  have h := xt_all (compat_of_extends_rev hx) v pos pos' bits rest fuel (wf_of_extends hx hwf) hd1
    (UperX.nsOk_of_extends hx hns)
    (dOk_bwd false hx hwf (by rw [defaultsOkG_false]; exact hd1) (by rw [defaultsOkG_false]; exact hd2))
    ht hf (skipFree_rev hx v) hp he hfuel
  rw [(view_same false hx hwf v ht).2, canonG_false] at h
  exact h

/-! ### forward / backward, `Specification.encode` / `Specification.decode` -/

/-- the zero bits `packBits` appends to fill the last octet are the continuation `rest` -/
theorem decode_packBits (t : Ty) (bits : Bits) (w : Val)
    (h : ∀ rest fuel, bits.length + rest.length + 2 ≤ fuel →
      ∃ s, dec t fuel ⟨0, bits ++ rest⟩ = .ok (w, s)) :
    decode t (packBits bits) = .ok w := by
  unfold decode
  rw [X691.bytesToBits_packBits, X691.packBits_length, padToByte_length, Uper.padToByte_eq]
  have h8 : 8 * (8 * ((bits.length + 7) / 8) / 8) = 8 * ((bits.length + 7) / 8) := by omega
  obtain ⟨s, hs⟩ := h (List.replicate (8 * ((bits.length + 7) / 8) - bits.length) false)
    (8 * ((bits.length + 7) / 8) + 2) (by simp only [List.length_replicate]; omega)
  rw [h8, hs]
  rfl

theorem forward_top (t1 t2 : Ty) (v : Val) (bytes : Bytes) (hx : Extends t1 t2)
    (hwf : t2.wf = true) (hd1 : t1.defaultsOk = true) (hd2 : t2.defaultsOk = true)
    (hns : t2.nsOk = true) (ht : hasType t2 v = true) (hf : fragFree t2 v = true)
    (hs : skipFree t1 t2 v = true) (he : encode t2 v = .ok bytes) :
    decode t1 bytes = .ok (canon t1 (project t1 t2 v)) := by
  obtain ⟨bits, hb, hE⟩ := encode_total t2 v hwf ht
  rw [hE] at he
  cases he
  exact decode_packBits t1 bits _ (fun rest fuel hfu =>
    ⟨_, forward_mod8 t1 t2 v 0 0 bits rest fuel hx hwf hd1 hd2 hns ht hf hs rfl hb hfu⟩)

theorem backward_top (t1 t2 : Ty) (v : Val) (bytes : Bytes) (hx : Extends t1 t2)
    (hwf : t2.wf = true) (hd1 : t1.defaultsOk = true) (hd2 : t2.defaultsOk = true)
    (hns : t2.nsOk = true) (ht : hasType t1 v = true) (hf : fragFree t1 v = true)
    (he : encode t1 v = .ok bytes) :
    decode t2 bytes = .ok (canon t2 v) := by
  obtain ⟨bits, hb, hE⟩ := encode_total t1 v (wf_of_extends hx hwf) ht
  rw [hE] at he
  cases he
  exact decode_packBits t2 bits _ (fun rest fuel hfu =>
    ⟨_, backward_mod8 t1 t2 v 0 0 bits rest fuel hx hwf hd1 hd2 hns ht hf rfl hb hfu⟩)

end Asn1.Ext.PerX

#print axioms Asn1.Ext.PerX.xt_all
#print axioms Asn1.Ext.PerX.forward_mod8
#print axioms Asn1.Ext.PerX.backward_mod8
#print axioms Asn1.Ext.PerX.forward_top
#print axioms Asn1.Ext.PerX.backward_top
