import Asn1Proofs.Lemmas.PerTypeCheck
import Asn1Proofs.Lemmas.X691Prim
/-
  Round-trip theorem for the ALIGNED PER code model (`Asn1Model/Per.lean`), the analogue of
  `Uper.roundtrip_partial`.

  The decoder inverts the encoder on every well-formed type and every well-typed value, at every
  start position and in front of every continuation; no alignment mismatch between
  `per.Encoder` and `per.Decoder` exists in the model.  Hypotheses beyond the typing ones:

  * `Per.fragFree` (defined in `PerDefs.lean`): the aligned PER variant of F_unfragmented.  It is
    WEAKER than the UPER predicate on SEQUENCE additions (the decoder ignores the open type length
    of a known addition, so a length of 16384 octets or more is harmless there) and refers to the
    aligned encoding `Per.enc t 0 v` for the open type of a CHOICE addition;
  * `Ty.nsOk` as for UPER (index of an ENUMERATED / CHOICE addition needing ≥ 16384 octets).

  The induction proves the slightly stronger statement `RT` (`PerDefs.lean`): the decoder may start
  at any position `pos'` with `pos' % 8 = pos % 8`.  This is what makes open types work: the
  encoder fills a fresh buffer (`pos = 0`), the decoder reads it at an octet boundary of the message.
-/
namespace Asn1.Per
open Asn1.Uper (padToByte)

theorem et_all (t : Ty) : ET t :=
  Ty.rec (motive_1 := ET) (motive_2 := Members.All ET) (motive_3 := Alts.All ET)
    et_boolean et_null et_integer et_enumerated et_octetString et_bitString et_charString
    (fun root ext adds ihr iha => et_sequence root ext adds ihr iha)
    (fun e c ih => et_sequenceOf e c ih)
    (fun root ext adds ihr iha => et_choice root ext adds ihr iha)
    trivial (fun _ _ _ _ iht ihr => ⟨iht, ihr⟩)
    trivial (fun _ _ _ iht ihr => ⟨iht, ihr⟩) t

theorem members_all_et (ms : Members) : ms.All ET := by
  induction ms using Members.ind with
  | nil => trivial
  | cons name p t rest ih => exact ⟨et_all t, ih⟩

theorem rt_all (t : Ty) : RT t :=
  Ty.rec (motive_1 := RT) (motive_2 := Members.All RT) (motive_3 := Alts.All RT)
    rt_boolean rt_null rt_integer rt_enumerated rt_octetString rt_bitString rt_anyString
    (fun root ext adds ihr iha => rt_sequence root ext adds ihr iha (members_all_et adds))
    (fun e c ih => rt_sequenceOf e c ih)
    (fun root ext adds ihr iha => rt_choice root ext adds ihr iha)
    trivial (fun _ _ _ _ iht ihr => ⟨iht, ihr⟩)
    trivial (fun _ _ _ iht ihr => ⟨iht, ihr⟩) t

/-- every well-typed value of a well-formed type encodes, at every position -/
theorem enc_total (t : Ty) (v : Val) (pos : Nat) (hwf : t.wf = true) (ht : hasType t v = true) :
    ∃ bits, enc t pos v = .ok bits :=
  et_all t v pos hwf ht

/-- the general form: the decoder may run at any position that agrees with the encoder's modulo 8 -/
theorem roundtrip_mod8 (t : Ty) (v : Val) (pos pos' : Nat) (bits rest : Bits) (fuel : Nat)
    (hwf : t.wf = true) (hd : t.defaultsOk = true) (ht : hasType t v = true)
    (hf : fragFree t v = true) (hns : t.nsOk = true) (hp : pos' % 8 = pos % 8)
    (he : enc t pos v = .ok bits) (hfuel : bits.length + rest.length + 2 ≤ fuel) :
    dec t fuel ⟨pos', bits ++ rest⟩ = .ok (canon t v, ⟨pos' + bits.length, rest⟩) :=
  rt_all t v pos pos' bits rest fuel hwf hd hns ht hf hp he hfuel

/-- decoding an aligned PER encoding written at position `pos` and followed by arbitrary further
bits returns the canonical value, exactly the further bits, and the position behind the encoding -/
theorem roundtrip_partial (t : Ty) (v : Val) (pos : Nat) (bits rest : Bits) (fuel : Nat)
    (hwf : t.wf = true) (hd : t.defaultsOk = true) (ht : hasType t v = true)
    (hf : fragFree t v = true) (hns : t.nsOk = true)
    (he : enc t pos v = .ok bits) (hfuel : bits.length + rest.length + 2 ≤ fuel) :
    dec t fuel ⟨pos, bits ++ rest⟩ = .ok (canon t v, ⟨pos + bits.length, rest⟩) :=
  rt_all t v pos pos bits rest fuel hwf hd hns ht hf rfl he hfuel

/-! ### the top level: `Specification.encode` / `Specification.decode` -/

/-- `Per.encode` succeeds on every well-typed value: the type checker pass lets it through and the
encoder takes no error branch -/
theorem encode_total (t : Ty) (v : Val) (hwf : t.wf = true) (ht : hasType t v = true) :
    ∃ bits, enc t 0 v = .ok bits ∧ encode t v = .ok (packBits bits) := by
  obtain ⟨bits, hb⟩ := enc_total t v 0 hwf ht
  refine ⟨bits, hb, ?_⟩
  unfold encode
  rw [tc_all t v hwf ht, if_pos rfl, hb]
  rfl

/-- the top-level decoder inverts the top-level encoder: the zero bits `packBits` appends to fill the
last octet are the continuation `rest` of `roundtrip_partial` -/
theorem decode_encode (t : Ty) (v : Val) (bytes : Bytes)
    (hwf : t.wf = true) (hd : t.defaultsOk = true) (ht : hasType t v = true)
    (hf : fragFree t v = true) (hns : t.nsOk = true) (he : encode t v = .ok bytes) :
    decode t bytes = .ok (canon t v) := by
  obtain ⟨bits, hb, hE⟩ := encode_total t v hwf ht
  rw [hE] at he
  cases he
  unfold decode
  rw [X691.bytesToBits_packBits, X691.packBits_length, padToByte_length, Uper.padToByte_eq]
  have h8 : 8 * (8 * ((bits.length + 7) / 8) / 8) = 8 * ((bits.length + 7) / 8) := by omega
  rw [h8, roundtrip_partial t v 0 bits _ _ hwf hd ht hf hns hb
    (by simp only [List.length_replicate]; omega)]
  rfl

/-- both together: a well-typed value encodes and the result decodes to its canonical form -/
theorem encode_decode (t : Ty) (v : Val)
    (hwf : t.wf = true) (hd : t.defaultsOk = true) (ht : hasType t v = true)
    (hf : fragFree t v = true) (hns : t.nsOk = true) :
    ∃ bytes, encode t v = .ok bytes ∧ decode t bytes = .ok (canon t v) := by
  obtain ⟨bits, _, hE⟩ := encode_total t v hwf ht
  exact ⟨_, hE, decode_encode t v _ hwf hd ht hf hns hE⟩

end Asn1.Per

#print axioms Asn1.Per.enc_total
#print axioms Asn1.Per.roundtrip_mod8
#print axioms Asn1.Per.roundtrip_partial
#print axioms Asn1.Per.decode_encode
#print axioms Asn1.Per.encode_decode
