import Asn1Proofs.Lemmas.CostUper
/-
  C08 for the UPER model: the allocation bound of `Uper.dec` for every type of the universe.
-/
set_option linter.unusedSimpArgs false
set_option linter.unusedVariables false
namespace Asn1.Cost
open Asn1.Uper

/-! ### the allocation bound, type by type -/

/-- cost predicate of the decoder of `t` -/
def SzU (t : Ty) : Prop := ∀ f, BdU Val.nodes (KU t) (dec t f)

theorem szu_boolean : SzU .boolean := by
  intro f bs v r h
  rw [dec] at h
  obtain ⟨⟨b, r1⟩, h1, h⟩ := bind_ok h
  try dsimp only at h
  have := readBit_ok h1
  cases h
  simp only [KU, Val.nodes]; omega

theorem szu_null : SzU .null := by
  intro f bs v r h
  rw [dec] at h
  cases h
  simp only [KU, Val.nodes]; omega

theorem szu_integer (c : IntC) : SzU (.integer c) := by
  intro f bs v r h
  rw [dec] at h
  revert h
  split
  · dsimp only
    split
    · intro h
      obtain ⟨⟨b, r1⟩, h1, h⟩ := bind_ok h
      try dsimp only at h
      have := readBit_ok h1
      try dsimp only at h
      revert h
      split
      · intro h
        obtain ⟨⟨i, r2⟩, h2, h⟩ := bind_ok h
        try dsimp only at h
        have := decUnconstrained_ok h2
        cases h
        simp only [KU, Val.nodes]; omega
      · intro h
        obtain ⟨⟨n, r2⟩, h2, h⟩ := bind_ok h
        try dsimp only at h
        have := (readNat_ok h2).1
        cases h
        simp only [KU, Val.nodes]; omega
    · intro h
      obtain ⟨⟨n, r2⟩, h2, h⟩ := bind_ok h
      try dsimp only at h
      have := (readNat_ok h2).1
      cases h
      simp only [KU, Val.nodes]; omega
  · split
    · intro h
      obtain ⟨⟨b, r1⟩, h1, h⟩ := bind_ok h
      try dsimp only at h
      have := readBit_ok h1
      obtain ⟨⟨i, r2⟩, h2, h⟩ := bind_ok h
      try dsimp only at h
      have := decUnconstrained_ok h2
      cases h
      simp only [KU, Val.nodes]; omega
    · intro h
      obtain ⟨⟨i, r2⟩, h2, h⟩ := bind_ok h
      try dsimp only at h
      have := decUnconstrained_ok h2
      cases h
      simp only [KU, Val.nodes]; omega


theorem utf8Dec_length (fuel : Nat) : ∀ (bs : Bytes) (cps : List Nat), utf8Dec fuel bs = some cps →
    cps.length ≤ bs.length := by
  induction fuel with
  | zero => intro bs cps h; simp only [utf8Dec] at h; cases h
  | succ fuel ih =>
    intro bs cps h
    cases bs with
    | nil => simp only [utf8Dec] at h; cases h; simp
    | cons b r =>
      have hmap : ∀ (x : Nat) (r' : Bytes), r'.length ≤ r.length →
          (utf8Dec fuel r').map (x :: ·) = some cps → cps.length ≤ (b :: r).length := by
        intro x r' hl hm
        cases hd : utf8Dec fuel r' with
        | none => rw [hd] at hm; cases hm
        | some ys =>
          rw [hd] at hm; cases hm
          have := ih r' ys hd
          simp only [List.length_cons]; omega
      conv at h => lhs; unfold utf8Dec
      repeat' split at h
      all_goals try dsimp only at h
      all_goals try split at h
      all_goals first
        | (cases h; done)
        | exact hmap _ _ (by simp only [List.length_cons]; omega) h
        | exact hmap _ _ (Nat.le_refl _) h

theorem bitsPerChar_pos (k : StrKind) (hk : k ≠ .utf8) : 1 ≤ bitsPerChar k := by
  cases k
  · rw [bitsPerChar_ia5]; omega
  · rw [bitsPerChar_visible]; omega
  · rw [bitsPerChar_numeric]; omega
  · rw [bitsPerChar_printable]; omega
  · exact absurd rfl hk


theorem szu_enumerated (root : List (String × Int)) (ext : Option (List (String × Int))) :
    SzU (.enumerated root ext) := by
  intro f bs v r h
  have hroot : ∀ (bs : Bits) (v : Val) (r : Bits),
      (do
        let (i, r) ← readNat (bitLength ((sortByVal root).length - 1)) bs
        match (sortByVal root)[i]? with
        | some (n, _) => .ok (.enum n, r)
        | none => .error .decodeError : DecM (Val × Bits)) = .ok (v, r) →
      r.length ≤ bs.length ∧ v.nodes = 1 := by
    intro bs v r h
    obtain ⟨⟨i, r1⟩, h1, h⟩ := bind_ok h
    try dsimp only at h
    have := (readNat_ok h1).1
    try dsimp only at h
    revert h
    split
    · intro h; cases h; exact ⟨by omega, rfl⟩
    · intro h; cases h
  cases ext with
  | none =>
    rw [dec] at h
    try dsimp only at h
    obtain ⟨h1, h2⟩ := hroot bs v r h
    simp only [KU, h2]; omega
  | some adds =>
    rw [dec] at h
    try dsimp only at h
    obtain ⟨⟨b, r1⟩, h1, h⟩ := bind_ok h
    try dsimp only at h
    have := readBit_ok h1
    try dsimp only at h
    revert h
    split
    · intro h
      obtain ⟨h1, h2⟩ := hroot r1 v r h
      simp only [KU, h2]; omega
    · intro h
      obtain ⟨⟨i, r2⟩, h2, h⟩ := bind_ok h
      try dsimp only at h
      have := decNsnnwn_ok h2
      try dsimp only at h
      revert h
      split <;> (intro h; cases h; simp only [KU, Val.nodes]; omega)

theorem szu_octetString (c : SizeC) : SzU (.octetString c) := by
  intro f bs v r h
  rw [dec] at h
  obtain ⟨⟨ext, r0⟩, h0, h⟩ := bind_ok h
  try dsimp only at h
  have hl0 := optBit_ok h0
  try dsimp only at h
  revert h
  split
  · intro h
    obtain ⟨⟨len, r1⟩, h1, h⟩ := bind_ok h
    try dsimp only at h
    have := (readLenDet_ok h1).1
    obtain ⟨⟨body, r2⟩, h2, h⟩ := bind_ok h
    try dsimp only at h
    obtain ⟨hl2, hb⟩ := readBits_ok h2
    cases h
    simp only [KU, Val.nodes, packBits_length, hb]; omega
  · split
    · intro h
      obtain ⟨⟨xs, r1⟩, h1, h⟩ := bind_ok h
      try dsimp only at h
      have := decChunks_len (fun bs a r h => by have := (readNat_ok h).1; omega) f h1
      cases h
      simp only [KU, Val.nodes]; omega
    · intro h
      obtain ⟨⟨len, r1⟩, h1, h⟩ := bind_ok h
      try dsimp only at h
      have := (optLen_ok h1).1
      obtain ⟨⟨body, r2⟩, h2, h⟩ := bind_ok h
      try dsimp only at h
      obtain ⟨hl2, hb⟩ := readBits_ok h2
      cases h
      simp only [KU, Val.nodes, packBits_length, hb]; omega

theorem szu_bitString (c : SizeC) : SzU (.bitString c) := by
  intro f bs v r h
  rw [dec] at h
  obtain ⟨⟨ext, r0⟩, h0, h⟩ := bind_ok h
  try dsimp only at h
  have hl0 := optBit_ok h0
  try dsimp only at h
  revert h
  split
  · intro h; cases h
  · split
    · intro h
      obtain ⟨⟨xs, r1⟩, h1, h⟩ := bind_ok h
      try dsimp only at h
      have := decChunks_len (fun bs a r h => by have := readBit_ok h; omega) f h1
      cases h
      simp only [KU, Val.nodes, packBits_length]; omega
    · intro h
      obtain ⟨⟨len, r1⟩, h1, h⟩ := bind_ok h
      try dsimp only at h
      have := (optLen_ok h1).1
      obtain ⟨⟨body, r2⟩, h2, h⟩ := bind_ok h
      try dsimp only at h
      obtain ⟨hl2, hb⟩ := readBits_ok h2
      cases h
      simp only [KU, Val.nodes, packBits_length, hb]; omega

theorem szu_utf8 (c : SizeC) : SzU (.charString .utf8 c) := by
  intro f bs v r h
  rw [dec] at h
  obtain ⟨⟨xs, r1⟩, h1, h⟩ := bind_ok h
  try dsimp only at h
  have := decChunks_len (fun bs a r h => by have := (readNat_ok h).1; omega) f h1
  try dsimp only at h
  revert h
  split
  · rename_i cps hu
    intro h; cases h
    have := utf8Dec_length _ _ _ hu
    simp only [KU, Val.nodes]; omega
  · intro h; cases h

theorem one_ok (k : StrKind) (hk : k ≠ .utf8) (bs : Bits) (a : Nat) (r : Bits)
    (h : (do let (v, r) ← readNat (bitsPerChar k) bs; let ch ← charDecode k v; .ok (ch, r)
      : DecM (Nat × Bits)) = .ok (a, r)) : r.length < bs.length := by
  obtain ⟨⟨v, r1⟩, h1, h⟩ := bind_ok h
  try dsimp only at h
  have := (readNat_ok h1).1
  have := bitsPerChar_pos k hk
  try dsimp only at h
  obtain ⟨ch, h2, h⟩ := bind_ok h
  try dsimp only at h
  cases h; omega

theorem szu_charString (k : StrKind) (hk : k ≠ .utf8) (c : SizeC) : SzU (.charString k c) := by
  intro f bs v r h
  rw [dec] at h
  · obtain ⟨⟨ext, r0⟩, h0, h⟩ := bind_ok h
    have hl0 := optBit_ok h0
    try dsimp only at h
    revert h
    split
    · intro h; cases h
    · split
      · intro h
        obtain ⟨⟨xs, r1⟩, h1, h⟩ := bind_ok h
        try dsimp only at h
        have := decChunks_len (one_ok k hk) f h1
        cases h
        simp only [KU, Val.nodes]; omega
      · intro h
        obtain ⟨⟨len, r1⟩, h1, h⟩ := bind_ok h
        try dsimp only at h
        have := (optLen_ok h1).1
        obtain ⟨⟨xs, r2⟩, h2, h⟩ := bind_ok h
        try dsimp only at h
        have hn := decRepeat_len (one_ok k hk) len h2
        have hx : xs.length = len :=
          (decRepeat_ok (size := fun _ => 1) (K := 1)
            (fun bs a r h => ⟨Nat.le_of_lt (one_ok k hk bs a r h), by show 1 ≤ 1 * _; omega⟩) len h2).2.1
        cases h
        simp only [KU, Val.nodes]; omega
  all_goals (first | exact hk | (intro c' heq; cases heq; exact hk rfl))


/-! ### composite types -/

theorem seqOfMax_ge (c : SizeC) : 8192 ≤ seqOfMax c := by
  unfold seqOfMax; split
  · exact Nat.le_refl _
  · exact Nat.le_max_left _ _

theorem seqOfMax_sized {c : SizeC} {w : Nat} (h : sizeBits c = some w) : c.lo + 2 ^ w ≤ seqOfMax c := by
  unfold seqOfMax; rw [h]; exact Nat.le_max_right _ _

theorem seqOf_arith {K M c c1 c2 n s : Nat} (hs : s ≤ K * (c1 + n)) (hn : n ≤ M * (c2 + 1))
    (h1 : c1 ≤ c) (h2 : c2 ≤ c) : 1 + s ≤ (1 + K * (1 + M)) * (c + 1) := by
  have a1 : M * (c2 + 1) ≤ M * (c + 1) := Nat.mul_le_mul_left _ (by omega)
  have a2 : c1 + n ≤ (1 + M) * (c + 1) := by rw [Nat.add_mul]; omega
  have a3 : K * (c1 + n) ≤ K * ((1 + M) * (c + 1)) := Nat.mul_le_mul_left _ a2
  rw [Nat.add_mul, Nat.mul_assoc]; omega

theorem szu_sequenceOf (e : Ty) (c : SizeC) (ih : SzU e) : SzU (.sequenceOf e c) := by
  intro f bs v r h
  rw [dec] at h
  obtain ⟨⟨ext, r0⟩, h0, h⟩ := bind_ok h
  try dsimp only at h
  have hl0 := optBit_ok h0
  try dsimp only at h
  revert h
  split
  · intro h
    obtain ⟨⟨len, r1⟩, h1, h⟩ := bind_ok h
    try dsimp only at h
    obtain ⟨hl1, hlen⟩ := readLenDet_ok h1
    obtain ⟨⟨xs, r2⟩, h2, h⟩ := bind_ok h
    try dsimp only at h
    obtain ⟨hl2, hn, hs⟩ := decRepeat_ok (ih f) len h2
    cases h
    refine ⟨by omega, ?_⟩
    rw [sumSize_nodes] at hs
    simp only [KU, Val.nodes]
    have hm := seqOfMax_ge c
    refine seqOf_arith (c1 := r1.length - r.length) (c2 := r0.length - r1.length) hs ?_ (by omega) (by omega)
    refine Nat.le_trans hlen (Nat.le_trans (Nat.mul_le_mul_right _ hm) (Nat.mul_le_mul_left _ (by omega)))
  · split
    · intro h
      obtain ⟨⟨xs, r1⟩, h1, h⟩ := bind_ok h
      try dsimp only at h
      obtain ⟨hl1, hx, hs⟩ := decChunks_ok (ih f) f h1
      cases h
      refine ⟨by omega, ?_⟩
      rw [sumSize_nodes] at hs
      simp only [KU, Val.nodes]
      have hm := seqOfMax_ge c
      refine seqOf_arith (c1 := r0.length - r.length) (c2 := r0.length - r.length) hs ?_ (by omega) (by omega)
      refine Nat.le_trans hx (Nat.le_trans (Nat.mul_le_mul_right _ hm) (Nat.mul_le_mul_left _ (by omega)))
    · rename_i w hsb
      intro h
      obtain ⟨⟨len, r1⟩, h1, h⟩ := bind_ok h
      try dsimp only at h
      obtain ⟨hl1, hlen⟩ := optLen_ok h1
      obtain ⟨⟨xs, r2⟩, h2, h⟩ := bind_ok h
      try dsimp only at h
      obtain ⟨hl2, hn, hs⟩ := decRepeat_ok (ih f) len h2
      cases h
      refine ⟨by omega, ?_⟩
      rw [sumSize_nodes] at hs
      simp only [KU, Val.nodes]
      have hm := seqOfMax_sized hsb
      refine seqOf_arith (c1 := r1.length - r.length) (c2 := 0) hs ?_ (by omega) (by omega)
      omega

theorem mem_arith {a K1 c1 b K2 c2 P c : Nat} (h1 : a ≤ K1 * (c1 + 1)) (h2 : b ≤ K2 * (c2 + 1))
    (hc1 : c1 ≤ c) (hc2 : c2 ≤ c) : 1 + a + b ≤ (1 + P + K1 + K2) * (c + 1) := by
  have a1 : K1 * (c1 + 1) ≤ K1 * (c + 1) := Nat.mul_le_mul_left _ (by omega)
  have a2 : K2 * (c2 + 1) ≤ K2 * (c + 1) := Nat.mul_le_mul_left _ (by omega)
  have a3 := bd_const (1 + P) c
  rw [Nat.add_mul, Nat.add_mul]; omega

theorem mem_arith_default {b K1 K2 c2 P c : Nat} (h2 : b ≤ K2 * (c2 + 1)) (hc2 : c2 ≤ c) :
    1 + P + b ≤ (1 + P + K1 + K2) * (c + 1) := by
  have a2 : K2 * (c2 + 1) ≤ K2 * (c + 1) := Nat.mul_le_mul_left _ (by omega)
  have a3 := bd_const (1 + P) c
  rw [Nat.add_mul, Nat.add_mul]; omega

theorem szu_decMembers (ms : Members) : ms.All SzU → ∀ (f : Nat) (flags bs : Bits)
    (fs : List (String × Val)) (r : Bits), decMembers ms f flags bs = .ok (fs, r) →
    r.length ≤ bs.length ∧ Val.nodesFields fs ≤ KUm ms * (bs.length - r.length + 1) := by
  induction ms using Members.ind with
  | nil =>
    intro _ f flags bs fs r h
    rw [decMembers] at h
    cases h
    simp [Val.nodesFields]
  | cons name p t rest ih =>
    intro hall f flags bs fs r h
    obtain ⟨ht, hrest⟩ := hall
    have hpresent : ∀ fl, (do
          let (v, r) ← dec t f bs
          let (fs, r') ← decMembers rest f fl r
          .ok ((name, v) :: fs, r') : DecM (List (String × Val) × Bits)) = .ok (fs, r) →
        r.length ≤ bs.length ∧ Val.nodesFields fs ≤ KUm (.cons name p t rest) * (bs.length - r.length + 1) := by
      intro fl h
      obtain ⟨⟨v, r1⟩, h1, h⟩ := bind_ok h
      try dsimp only at h
      obtain ⟨hl1, hs1⟩ := ht f _ _ _ h1
      obtain ⟨⟨fs', r2⟩, h2, h⟩ := bind_ok h
      try dsimp only at h
      obtain ⟨hl2, hs2⟩ := ih hrest f fl _ _ _ h2
      cases h
      refine ⟨by omega, ?_⟩
      simp only [Val.nodesFields, KUm]
      exact mem_arith hs1 hs2 (by omega) (by omega)
    have hskip : ∀ fl, decMembers rest f fl bs = .ok (fs, r) →
        r.length ≤ bs.length ∧ Val.nodesFields fs ≤ KUm (.cons name p t rest) * (bs.length - r.length + 1) := by
      intro fl h
      obtain ⟨hl, hs⟩ := ih hrest f fl _ _ _ h
      refine ⟨hl, bd_mono hs ?_ (Nat.le_refl _)⟩
      simp only [KUm]; omega
    cases p with
    | mandatory =>
      rw [decMembers] at h
      exact hpresent flags h
    | optional =>
      rw [decMembers.eq_def] at h
      try dsimp only at h
      revert h
      split
      · intro h; exact hpresent _ h
      · intro h; exact hskip _ h
      · intro h; cases h
    | default d =>
      rw [decMembers.eq_def] at h
      try dsimp only at h
      revert h
      split
      · intro h; exact hpresent _ h
      · intro h
        obtain ⟨⟨fs', r1⟩, h1, h⟩ := bind_ok h
        try dsimp only at h
        obtain ⟨hl, hs⟩ := ih hrest f _ _ _ _ h1
        cases h
        refine ⟨hl, ?_⟩
        simp only [Val.nodesFields, KUm, presenceNodes]
        exact mem_arith_default hs (Nat.le_refl _)
      · intro h; cases h

theorem szu_decAdditions (ms : Members) : ms.All SzU → ∀ (f : Nat) (bitmap bs : Bits)
    (fs : List (String × Val)) (r : Bits), decAdditions ms f bitmap bs = .ok (fs, r) →
    r.length ≤ bs.length ∧ Val.nodesFields fs ≤ KUm ms * (bs.length - r.length + 1) := by
  induction ms using Members.ind with
  | nil =>
    intro _ f bitmap bs fs r h
    rw [decAdditions] at h
    obtain ⟨r1, h1, h⟩ := bind_ok h
    try dsimp only at h
    have := skipUnknown_ok bitmap h1
    cases h
    simp [Val.nodesFields, this]
  | cons name p t rest ih =>
    intro hall f bitmap bs fs r h
    obtain ⟨ht, hrest⟩ := hall
    cases bitmap with
    | nil => rw [decAdditions] at h; cases h; simp [Val.nodesFields]
    | cons present bitmap =>
      rw [decAdditions.eq_def] at h
      try dsimp only at h
      revert h
      split
      · intro h
        obtain ⟨⟨len, r1⟩, h1, h⟩ := bind_ok h
        try dsimp only at h
        have hl1 := (readLenDet_ok h1).1
        obtain ⟨⟨v, r2⟩, h2, h⟩ := bind_ok h
        try dsimp only at h
        obtain ⟨hl2, hs2⟩ := ht f _ _ _ h2
        obtain ⟨r3, h3, h⟩ := bind_ok h
        try dsimp only at h
        have hl3 := skipPad_ok h3
        obtain ⟨⟨fs', r4⟩, h4, h⟩ := bind_ok h
        try dsimp only at h
        obtain ⟨hl4, hs4⟩ := ih hrest f _ _ _ _ h4
        cases h
        refine ⟨by omega, ?_⟩
        simp only [Val.nodesFields, KUm]
        exact mem_arith hs2 hs4 (by omega) (by omega)
      · intro h
        obtain ⟨hl, hs⟩ := ih hrest f _ _ _ _ h
        refine ⟨hl, bd_mono hs ?_ (Nat.le_refl _)⟩
        simp only [KUm]; omega

theorem szu_sequence (root : Members) (ext : Bool) (adds : Members)
    (ihr : root.All SzU) (iha : adds.All SzU) : SzU (.sequence root ext adds) := by
  intro f bs v r h
  rw [dec] at h
  obtain ⟨⟨e, r0⟩, h0, h⟩ := bind_ok h
  try dsimp only at h
  have hl0 := optBit_ok h0
  obtain ⟨⟨flags, r1⟩, h1, h⟩ := bind_ok h
  try dsimp only at h
  have hl1 := (readBits_ok h1).1
  obtain ⟨⟨fields, r2⟩, h2, h⟩ := bind_ok h
  try dsimp only at h
  obtain ⟨hl2, hs2⟩ := szu_decMembers root ihr f _ _ _ _ h2
  revert h
  split
  · intro h
    obtain ⟨⟨n, r3⟩, h3, h⟩ := bind_ok h
    try dsimp only at h
    have hl3 := decNsLength_ok h3
    obtain ⟨⟨bitmap, r4⟩, h4, h⟩ := bind_ok h
    try dsimp only at h
    have hl4 := (readBits_ok h4).1
    obtain ⟨⟨more, r5⟩, h5, h⟩ := bind_ok h
    try dsimp only at h
    obtain ⟨hl5, hs5⟩ := szu_decAdditions adds iha f _ _ _ _ h5
    cases h
    refine ⟨by omega, ?_⟩
    simp only [Val.nodes, KU, nodesFields_append]
    have := mem_arith (P := 0) hs2 hs5 (c := bs.length - r.length) (by omega) (by omega)
    simp only [Nat.add_zero] at this
    omega
  · intro h
    cases h
    refine ⟨by omega, ?_⟩
    simp only [Val.nodes, KU]
    have := mem_arith (P := 0) (b := 0) (K2 := KUm adds) (c2 := 0) hs2 (by omega)
      (c := bs.length - r.length) (by omega) (by omega)
    simp only [Nat.add_zero] at this
    omega

theorem KU_pos_choice {K c : Nat} : 2 ≤ (2 + K) * (c + 1) := by
  have := bd_const (2 + K) c; omega

theorem szu_decAlt (as : Alts) : as.All SzU → ∀ (f i : Nat) (bs : Bits) (res : DecM (Val × Bits))
    (v : Val) (r : Bits), decAlt as f i bs = some res → res = .ok (v, r) →
    r.length ≤ bs.length ∧ v.nodes ≤ (1 + KUa as) * (bs.length - r.length + 1) := by
  induction as using Alts.ind with
  | nil => intro _ f i bs res v r h; simp only [decAlt] at h; cases h
  | cons n t rest ih =>
    intro hall f i bs res v r h hres
    obtain ⟨ht, hrest⟩ := hall
    cases i with
    | zero =>
      simp only [decAlt] at h
      cases h
      obtain ⟨⟨w, r1⟩, h1, h⟩ := bind_ok hres
      obtain ⟨hl1, hs1⟩ := ht f _ _ _ h1
      cases h
      refine ⟨hl1, ?_⟩
      simp only [Val.nodes, KUa]
      have := bd_add (bd_const 1 0) hs1
      refine Nat.le_trans this ?_
      refine Nat.mul_le_mul (by omega) (by omega)
    | succ i =>
      simp only [decAlt] at h
      obtain ⟨hl, hs⟩ := ih hrest f i bs res v r h hres
      refine ⟨hl, bd_mono hs ?_ (Nat.le_refl _)⟩
      simp only [KUa]; omega


theorem szu_choice (root : Alts) (ext : Bool) (adds : Alts)
    (ihr : root.All SzU) (iha : adds.All SzU) : SzU (.choice root ext adds) := by
  intro f bs v r h
  rw [dec] at h
  obtain ⟨⟨e, r0⟩, h0, h⟩ := bind_ok h
  try dsimp only at h
  have hl0 := optBit_ok h0
  revert h
  split
  · intro h
    obtain ⟨⟨idx, r1⟩, h1, h⟩ := bind_ok h
    try dsimp only at h
    have hl1 := decNsnnwn_ok h1
    obtain ⟨⟨len, r2⟩, h2, h⟩ := bind_ok h
    try dsimp only at h
    have hl2 := (readLenDet_ok h2).1
    cases hd : decAlt adds f idx r2 with
    | none =>
      rw [hd] at h
      dsimp only at h
      obtain ⟨⟨body, r3⟩, h3, h⟩ := bind_ok h
      try dsimp only at h
      have hl3 := (readBits_ok h3).1
      cases h
      refine ⟨by omega, ?_⟩
      simp only [Val.nodes, KU, Nat.add_assoc]
      exact KU_pos_choice
    | some res =>
      rw [hd] at h
      dsimp only at h
      obtain ⟨⟨w, r3⟩, h3, h⟩ := bind_ok h
      try dsimp only at h
      obtain ⟨hl3, hs3⟩ := szu_decAlt adds iha f idx r2 res w r3 hd h3
      revert h
      split
      · intro h; cases h
      · intro h
        obtain ⟨⟨body, r4⟩, h4, h⟩ := bind_ok h
        try dsimp only at h
        have hl4 := (readBits_ok h4).1
        cases h
        refine ⟨by omega, ?_⟩
        simp only [KU]
        exact bd_mono hs3 (by omega) (by omega)
  · intro h
    obtain ⟨⟨idx, r1⟩, h1, h⟩ := bind_ok h
    try dsimp only at h
    have hl1 : r1.length ≤ r0.length := by
      split at h1
      · have := (readNat_ok h1).1; omega
      · cases h1; exact Nat.le_refl _
    cases hd : decAlt root f idx r1 with
    | none => rw [hd] at h; cases h
    | some res =>
      rw [hd] at h
      dsimp only at h
      obtain ⟨hl3, hs3⟩ := szu_decAlt root ihr f idx r1 res v r hd h
      refine ⟨by omega, ?_⟩
      simp only [KU]
      exact bd_mono hs3 (by omega) (by omega)

/-- **UPER allocation bound (bit level)**: a successful run of the decoder of `t` never lengthens the
input, and the value it returns has at most `KU t` nodes per bit consumed (+1) -/
theorem szu_all (t : Ty) : SzU t :=
  Ty.rec (motive_1 := SzU) (motive_2 := Members.All SzU) (motive_3 := Alts.All SzU)
    szu_boolean szu_null szu_integer szu_enumerated szu_octetString szu_bitString
    (fun k c => by
      by_cases hk : k = .utf8
      · subst hk; exact szu_utf8 c
      · exact szu_charString k hk c)
    (fun root ext adds ihr iha => szu_sequence root ext adds ihr iha)
    (fun e c ih => szu_sequenceOf e c ih)
    (fun root ext adds ihr iha => szu_choice root ext adds ihr iha)
    trivial (fun _ _ _ _ iht ihr => ⟨iht, ihr⟩)
    trivial (fun _ _ _ iht ihr => ⟨iht, ihr⟩) t

theorem uper_dec_cost (t : Ty) (f : Nat) (bs : Bits) (v : Val) (r : Bits)
    (h : dec t f bs = .ok (v, r)) :
    r.length ≤ bs.length ∧ v.nodes ≤ KU t * (bs.length - r.length + 1) := szu_all t f bs v r h

/-- **UPER allocation bound**: whatever the octets, a decoded value has at most
`KU t * (8 * length + 1)` nodes -/
theorem uper_decode_alloc (t : Ty) (bs : Bytes) (v : Val) (h : Uper.decode t bs = .ok v) :
    v.nodes ≤ KU t * (8 * bs.length + 1) := by
  unfold Uper.decode at h
  cases hd : dec t (8 * bs.length + 2) (bytesToBits bs) with
  | error e => rw [hd] at h; cases h
  | ok vr =>
    obtain ⟨w, r⟩ := vr
    rw [hd] at h
    cases h
    obtain ⟨hl, hs⟩ := uper_dec_cost t _ _ _ _ hd
    rw [bytesToBits_length] at hs hl
    exact bd_mono hs (Nat.le_refl _) (by omega)

theorem uper_decode_alloc' (t : Ty) (bs : Bytes) (v : Val) (h : Uper.decode t bs = .ok v) :
    v.nodes ≤ 8 * KU t * (bs.length + 1) := by
  have := uper_decode_alloc t bs v h
  refine Nat.le_trans this ?_
  rw [Nat.mul_comm 8 (KU t), Nat.mul_assoc]
  exact Nat.mul_le_mul_left _ (by omega)

end Asn1.Cost
