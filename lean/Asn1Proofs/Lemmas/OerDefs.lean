import Asn1Proofs.Lemmas.UperMembers
import Asn1Proofs.Lemmas.UperBeq
import Asn1Proofs.Lemmas.OerTag
/-
  Statement shapes for the induction over `Ty`, the extra side condition `noSwallow`,
  and codec-independent facts about alternatives and DEFAULT values.
-/
set_option linter.unusedSimpArgs false
namespace Asn1

def Members.AllO (P : Ty → Prop) : Members → Prop
  | .nil => True
  | .cons _ _ t rest => P t ∧ Members.AllO P rest

def Alts.AllO (P : Ty → Prop) : Alts → Prop
  | .nil => True
  | .cons _ t rest => P t ∧ Alts.AllO P rest

/-- first alternative with the given name and its position -/
def Alts.findO (name : String) : Alts → Option (Nat × Ty)
  | .nil => none
  | .cons n t rest => if n == name then some (0, t) else (Alts.findO name rest).map (fun x => (x.1 + 1, x.2))

theorem find_none_iff_oer (name : String) (as : Alts) : as.findO name = none ↔ name ∉ as.names := by
  induction as using Alts.ind with
  | nil => simp [Alts.findO, Alts.names]
  | cons n t rest ih =>
    simp only [Alts.findO, Alts.names, List.mem_cons, not_or]
    by_cases hn : n = name
    · subst hn; simp
    · have : ¬ name = n := fun e => hn e.symm
      simp [hn, this, ih]

theorem find_lt_oer (name : String) (as : Alts) (j : Nat) (t : Ty) (h : as.findO name = some (j, t)) :
    j < as.length := by
  induction as using Alts.ind generalizing j with
  | nil => simp [Alts.findO] at h
  | cons n t' rest ih =>
    simp only [Alts.findO] at h
    split at h
    · cases h; simp [Alts.length]
    · simp only [Option.map_eq_some_iff] at h
      obtain ⟨⟨j', t''⟩, h1, h2⟩ := h
      cases h2
      have := ih j' h1
      simp [Alts.length]; omega

theorem find_all_oer {P : Ty → Prop} (name : String) (as : Alts) (j : Nat) (t : Ty)
    (h : as.findO name = some (j, t)) (hall : as.AllO P) : P t := by
  induction as using Alts.ind generalizing j with
  | nil => simp [Alts.findO] at h
  | cons n t' rest ih =>
    simp only [Alts.findO] at h
    split at h
    · cases h; exact hall.1
    · simp only [Option.map_eq_some_iff] at h
      obtain ⟨⟨j', t''⟩, h1, h2⟩ := h
      cases h2
      exact ih j' h1 hall.2

theorem alts_all_wf_oer (as : Alts) (h : as.wf = true) : as.AllO (fun t => t.wf = true) := by
  induction as using Alts.ind with
  | nil => trivial
  | cons n t rest ih =>
    simp only [Alts.wf, Bool.and_eq_true] at h
    exact ⟨h.1, ih h.2⟩

theorem alts_all_defaultsOk_oer (as : Alts) (h : as.defaultsOk = true) :
    as.AllO (fun t => t.defaultsOk = true) := by
  induction as using Alts.ind with
  | nil => trivial
  | cons n t rest ih =>
    simp only [Alts.defaultsOk, Bool.and_eq_true] at h
    exact ⟨h.1, ih h.2⟩

theorem hasAlt_find_oer (as : Alts) (name : String) (v : Val) :
    hasAlt as name v = (match as.findO name with | some x => hasType x.2 v | none => false) := by
  induction as using Alts.ind with
  | nil => rfl
  | cons n t rest ih =>
    simp only [hasAlt, Alts.findO]
    split
    · rfl
    · rw [ih]
      cases rest.findO name <;> rfl

theorem canonAlt_find_oer (as : Alts) (name : String) (v : Val) :
    canonAlt as name v = (as.findO name).map (fun x => canon x.2 v) := by
  induction as using Alts.ind with
  | nil => rfl
  | cons n t rest ih =>
    simp only [canonAlt, Alts.findO]
    split
    · rfl
    · rw [ih]
      cases rest.findO name <;> rfl

/-! ### DEFAULT handling -/

theorem canon_of_isDefault_oer (t : Ty) (v d : Val)
    (hc : (canon t d == d) = true) (h : isDefault t v d = true) : canon t v = d := by
  have hcd := Val.eq_of_beq _ _ hc
  unfold isDefault at h
  split at h
  · rename_i c a n b m
    rw [canon] at hcd ⊢
    simp only [Bool.and_eq_true, beq_iff_eq] at h
    have hcb := (Val.bits.inj hcd).1
    obtain ⟨h1, h2⟩ := h
    subst h1
    rw [h2, hcb]
  · have := Val.eq_of_beq _ _ h
    subst this
    exact hcd

namespace Oer

mutual
  /-- Finding predicate (negated): no `EncodeError` raised while encoding a present SEQUENCE
  extension addition is swallowed by `encode_additions` (`except EncodeError: pass`).  For
  well-typed values the only such error is a length determinant that needs more than 127 length
  octets (a length `≥ 2^1016`). -/
  def noSwallow : Ty → Val → Bool
    | .sequence root _ adds, .record fs =>
      noSwallowMembers root fs false && noSwallowMembers adds fs true
    | .sequenceOf e _, .list vs => vs.all (noSwallow e)
    | .choice root _ adds, .choice n v => noSwallowAlt root n v && noSwallowAlt adds n v
    | _, _ => true
  def noSwallowMembers : Members → List (String × Val) → Bool → Bool
    | .nil, _, _ => true
    | .cons name _ t rest, fs, isAddition =>
      (match lookup name fs with
       | some v => noSwallow t v &&
         (!isAddition || (match enc t v with | .ok _ => true | .error _ => false))
       | none => true) && noSwallowMembers rest fs isAddition
  def noSwallowAlt : Alts → String → Val → Bool
    | .nil, _, _ => true
    | .cons n t rest, name, v => if n == name then noSwallow t v else noSwallowAlt rest name v
end

def RT (t : Ty) : Prop :=
  ∀ (v : Val) (bytes rest : Bytes),
    t.wf = true → oerWf t = true → t.defaultsOk = true → hasType t v = true →
    utf8Ok t v = true → noSwallow t v = true → enc t v = .ok bytes →
    dec t (bytes ++ rest) = .ok (canon t v, rest)

def ET (t : Ty) : Prop :=
  ∀ (v : Val), t.wf = true → hasType t v = true →
    (∃ bytes, enc t v = .ok bytes) ∨ enc t v = .error .encodeError

theorem utf8OkAlt_find (as : Alts) (name : String) (v : Val) :
    utf8OkAlt as name v = (match as.findO name with | some x => utf8Ok x.2 v | none => true) := by
  induction as using Alts.ind with
  | nil => rfl
  | cons n t rest ih =>
    simp only [utf8OkAlt, Alts.findO]
    split
    · rfl
    · rw [ih]
      cases rest.findO name <;> rfl

theorem noSwallowAlt_find (as : Alts) (name : String) (v : Val) :
    noSwallowAlt as name v = (match as.findO name with | some x => noSwallow x.2 v | none => true) := by
  induction as using Alts.ind with
  | nil => rfl
  | cons n t rest ih =>
    simp only [noSwallowAlt, Alts.findO]
    split
    · rfl
    · rw [ih]
      cases rest.findO name <;> rfl

theorem alts_all_oerWf (as : Alts) (h : oerWfAlts as = true) : as.AllO (fun t => oerWf t = true) := by
  induction as using Alts.ind with
  | nil => trivial
  | cons n t rest ih =>
    simp only [oerWfAlts, Bool.and_eq_true] at h
    exact ⟨h.1, ih h.2⟩

theorem encAlt_find (as : Alts) (name : String) (v : Val) (i : Nat) :
    encAlt as name v i = (as.findO name).map (fun x => (i + x.1, enc x.2 v)) := by
  induction as using Alts.ind generalizing i with
  | nil => rfl
  | cons n t rest ih =>
    simp only [encAlt, Alts.findO]
    split
    · rfl
    · rw [ih]
      cases rest.findO name with
      | none => rfl
      | some x => simp only [Option.map_some]; congr 2; omega

end Oer
end Asn1
