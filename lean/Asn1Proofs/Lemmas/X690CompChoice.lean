import Asn1Proofs.Lemmas.X690CompDefs
/-
  C04 completeness, CHOICE: whatever the strict reference decoder `decVS` accepts for a CHOICE type
  (bare, or inside the EXPLICIT wrapper `[i]` with a definite or the indefinite length), the code's
  decoder accepts with the same value, given the same for the alternatives.
-/
set_option linter.unusedSimpArgs false
set_option linter.unusedVariables false
namespace Asn1.X690
open Asn1.Der (mkTag tagOf readLen readTag matchTag gAlt gBare gChoice)
open Asn1.BerCodec (berTest ber_isCodec)

/-! ### `readLength` / `takeN` with more input behind -/

theorem cc_takeN_append {n : Nat} {bs c r : Bytes} (x : Bytes) (h : takeN n bs [] = some (c, r)) :
    takeN n (bs ++ x) [] = some (c, r ++ x) := by
  obtain ⟨e1, e2⟩ := takeN_some h
  subst e1; subst e2
  rw [List.append_assoc]
  exact takeN_append c (r ++ x)

theorem cc_readLength_append {bs r : Bytes} {l : Len} (x : Bytes) (h : readLength bs = some (l, r)) :
    readLength (bs ++ x) = some (l, r ++ x) := by
  cases bs with
  | nil => simp [readLength] at h
  | cons b r0 =>
    simp only [readLength, List.cons_append] at h ⊢
    by_cases h1 : b < 128
    · rw [if_pos h1] at h ⊢
      simp only [Option.some.injEq, Prod.mk.injEq] at h
      obtain ⟨e1, e2⟩ := h
      subst e1; subst e2; rfl
    · rw [if_neg h1] at h ⊢
      by_cases h2 : b = 128
      · rw [if_pos h2] at h ⊢
        simp only [Option.some.injEq, Prod.mk.injEq] at h
        obtain ⟨e1, e2⟩ := h
        subst e1; subst e2; rfl
      · rw [if_neg h2] at h ⊢
        by_cases h3 : b < 255
        · rw [if_pos h3] at h ⊢
          split at h
          · rename_i ds r' hds
            simp only [Option.some.injEq, Prod.mk.injEq] at h
            obtain ⟨e1, e2⟩ := h
            subst e1; subst e2
            rw [cc_takeN_append x hds]
          · cases h
        · rw [if_neg h3] at h; cases h

theorem cc_readLength_indef_length {bs r : Bytes} (h : readLength bs = some (.indefinite, r)) :
    bs.length = 1 + r.length := by
  cases bs with
  | nil => simp [readLength] at h
  | cons b r0 =>
    simp only [readLength] at h
    by_cases h1 : b < 128
    · rw [if_pos h1] at h; cases h
    · rw [if_neg h1] at h
      by_cases h2 : b = 128
      · rw [if_pos h2] at h
        simp only [Option.some.injEq, Prod.mk.injEq, true_and] at h
        subst h
        simp [Nat.add_comm]
      · rw [if_neg h2] at h
        by_cases h3 : b < 255
        · rw [if_pos h3] at h
          split at h <;> cases h
        · rw [if_neg h3] at h; cases h

/-! ### something follows the identifier octets -/

theorem cc_primitiveContents_ne_nil {r : Bytes} {x : Bytes × Bytes} (h : primitiveContents r = some x) : r ≠ [] := by
  intro e; subst e; simp [primitiveContents, readLength] at h

theorem cc_constructedContents_ne_nil {α : Type} {p : Bytes → Option (α × Bytes)} {r : Bytes} {x : α × Bytes}
    (h : constructedContents p r = some x) : r ≠ [] := by
  intro e; subst e; simp [constructedContents, readLength] at h

theorem cc_constructedContentsI_ne_nil {α : Type} {p : Bool → Bytes → Option (α × Bytes)} {r : Bytes} {x : α × Bytes}
    (h : constructedContentsI p r = some x) : r ≠ [] := by
  intro e; subst e; simp [constructedContentsI, readLength] at h

/-- two splits of the same input after identifier octets of the same context tag number -/
theorem cc_same_number {u u' : Nat} {c c' : Bool} {j : Nat} {b r r' : Bytes}
    (h1 : b = mkTag u c (some j) ++ r) (h2 : b = mkTag u' c' (some j) ++ r') (hr' : r' ≠ []) : r ≠ [] := by
  have l1 := Der.mkTag_ctx_length_mono (u := u) (u' := u') (c := c) (c' := c') (Nat.le_refl j)
  have l2 := Der.mkTag_ctx_length_mono (u := u') (u' := u) (c := c') (c' := c) (Nat.le_refl j)
  have e := congrArg List.length (h1.symm.trans h2)
  simp only [List.length_append] at e
  intro hr
  subst hr
  have : r'.length = 0 := by simp only [List.length_nil] at e; omega
  exact hr' (List.eq_nil_of_length_eq_zero this)

/-- after a header in context `[j]` that is followed by something -/
theorem cc_after_header {t : Ty} {j : Nat} {c c' : Bool} {b r r' : Bytes}
    (hs : stripPrefix (identifier .context c j) b = some r)
    (hs' : stripPrefix (header t (some j) c') b = some r') (hr' : r' ≠ []) : r ≠ [] := by
  have e1 := stripPrefix_some hs
  have e2 := stripPrefix_some hs'
  rw [identifier_context 0] at e1
  rw [header_eq_mkTag] at e2
  exact cc_same_number e1 e2 hr'

theorem cc_stringChunks_after {u fuel : Nat} {prim cons bs : Bytes} {x : List Bytes × Bytes}
    (h : stringChunks u fuel prim cons bs = some x) :
    ∃ r, (stripPrefix prim bs = some r ∨ stripPrefix cons bs = some r) ∧ r ≠ [] := by
  unfold stringChunks at h
  split at h
  · rename_i r hr
    split at h
    · rename_i c r' hp
      exact ⟨r, Or.inl hr, cc_primitiveContents_ne_nil hp⟩
    · cases h
  · split at h
    · rename_i r hr
      exact ⟨r, Or.inr hr, cc_constructedContents_ne_nil h⟩
    · cases h

theorem cc_after_chunks {t : Ty} {j fuel u : Nat} {c : Bool} {b r : Bytes} {x : List Bytes × Bytes}
    (hs : stripPrefix (identifier .context c j) b = some r)
    (h : stringChunks u fuel (header t (some j) false) (header t (some j) true) b = some x) : r ≠ [] := by
  obtain ⟨r', h' | h', hr'⟩ := cc_stringChunks_after h
  · exact cc_after_header hs h' hr'
  · exact cc_after_header hs h' hr'

/-- after the identifier octets of a successfully decoded component at least the length octets follow -/
theorem decVS_after_tag {t : Ty} {j : Nat} {fuel : Nat} {b r : Bytes} {c : Bool} {x : Val × Bytes}
    (h : decVS t (some j) fuel b = some x) (hs : stripPrefix (identifier .context c j) b = some r) : r ≠ [] := by
  cases t with
  | boolean =>
    rw [decVS, decV] at h
    split at h
    · cases h
    · rename_i r' hs'
      split at h
      · rename_i _ _ hp
        exact cc_after_header hs hs' (cc_primitiveContents_ne_nil hp)
      · cases h
  | null =>
    rw [decVS, decV] at h
    split at h
    · cases h
    · rename_i r' hs'
      split at h
      · rename_i _ hp
        exact cc_after_header hs hs' (cc_primitiveContents_ne_nil hp)
      · cases h
  | integer cc =>
    rw [decVS, decV] at h
    split at h
    · cases h
    · rename_i r' hs'
      split at h
      · rename_i _ _ hp
        exact cc_after_header hs hs' (cc_primitiveContents_ne_nil hp)
      · cases h
  | enumerated root ext =>
    rw [decVS, decV] at h
    split at h
    · cases h
    · rename_i r' hs'
      split at h
      · rename_i _ _ hp
        exact cc_after_header hs hs' (cc_primitiveContents_ne_nil hp)
      · cases h
  | octetString cc =>
    rw [decVS, decV] at h
    split at h
    · rename_i _ _ hc
      exact cc_after_chunks hs hc
    · cases h
  | bitString cc =>
    rw [decVS] at h
    split at h
    · rename_i _ _ hc
      exact cc_after_chunks hs hc
    · cases h
  | charString k cc =>
    rw [decVS, decV] at h
    split at h
    · rename_i _ _ hc
      exact cc_after_chunks hs hc
    · cases h
  | sequence root e adds =>
    rw [decVS] at h
    split at h
    · cases h
    · rename_i r' hs'
      exact cc_after_header hs hs' (cc_constructedContentsI_ne_nil h)
  | sequenceOf e cc =>
    rw [decVS] at h
    split at h
    · cases h
    · rename_i r' hs'
      split at h
      · rename_i _ _ hp
        exact cc_after_header hs hs' (cc_constructedContents_ne_nil hp)
      · cases h
  | choice root e adds =>
    rw [decVS] at h
    try simp only [] at h
    split at h
    · cases h
    · rename_i r' hs'
      have e1 := stripPrefix_some hs
      have e2 := stripPrefix_some hs'
      rw [identifier_context 0] at e1 e2
      exact cc_same_number e1 e2 (cc_constructedContents_ne_nil h)

/-! ### the alternative the reference decoder finds present is the one the code finds by its tag -/

theorem cc_isString_eq (t : Ty) : isStringType t = BerCodec.isString t := by
  cases t <;> rfl

/-- a component found present starts with identifier octets the code has in `tag_to_member` -/
theorem cc_present {t : Ty} {i : Nat} {b : Bytes} (h : componentPresent t i b = true) :
    ∃ (c : Bool) (r0 : Bytes), stripPrefix (identifier .context c i) b = some r0 ∧
      b = mkTag 0 c (some i) ++ r0 ∧ berTest t i (mkTag 0 c (some i)) = true := by
  unfold componentPresent at h
  simp only [Bool.or_eq_true, Bool.and_eq_true, Option.isSome_iff_exists] at h
  rcases h with ⟨r, hr⟩ | ⟨hst, r, hr⟩
  · have e := stripPrefix_some hr
    rw [identifier_context 0] at e
    refine ⟨derConstructed t, r, hr, e, ?_⟩
    have : mkTag 0 (derConstructed t) (some i) = tagOf t (some i) := by
      rw [derConstructed_eq]; rfl
    rw [this]
    exact ber_isCodec.test_self t i
  · have e := stripPrefix_some hr
    rw [identifier_context 0] at e
    refine ⟨true, r, hr, e, ?_⟩
    rw [cc_isString_eq] at hst
    have : mkTag 0 true (some i) = mkTag (Der.univNumber t) true (some i) := rfl
    simp only [berTest, hst, this, beq_self_eq_true, Bool.and_self, Bool.or_true]

/-- the list of alternatives: the first one present (reference) is the one selected by tag (code) -/
theorem cc_alts (as : Alts) (hall : as.AllO COMP) (i fuel fuelC : Nat) (b rest extra : Bytes) (v : Val)
    (h : decAlternativesS as i fuel b = some (v, rest)) (hf : (b ++ extra).length < fuelC) :
    ∃ (j : Nat) (c : Bool) (r0 : Bytes), i ≤ j ∧ b = mkTag 0 c (some j) ++ r0 ∧ r0 ≠ [] ∧
      ∃ k, gAlt BerCodec.dec berTest as i (mkTag 0 c (some j)) fuelC (b ++ extra)
          = some (.ok (some (v, k, rest ++ extra))) ∧ b.length = k + rest.length := by
  induction as using Alts.ind generalizing i with
  | nil => simp [decAlternativesS] at h
  | cons n t as' ih =>
    rw [decAlternativesS] at h
    by_cases hp : componentPresent t i b = true
    · rw [if_pos hp] at h
      obtain ⟨c, r0, hs, hb, htest⟩ := cc_present hp
      split at h
      · rename_i v' r' hd
        cases h
        have hr0 := decVS_after_tag hd hs
        obtain ⟨k, hk, hlen⟩ := hall.1 (some i) fuel fuelC b rest extra v' hd hf
        refine ⟨i, c, r0, Nat.le_refl _, hb, hr0, k, ?_, hlen⟩
        rw [gAlt, if_pos htest, hk]
      · cases h
    · rw [if_neg hp] at h
      obtain ⟨j, c, r0, hij, hb, hr0, k, hk, hlen⟩ := ih hall.2 (i + 1) h
      refine ⟨j, c, r0, by omega, hb, hr0, k, ?_, hlen⟩
      have hne : berTest t i (mkTag 0 c (some j)) = false := by
        cases hc : berTest t i (mkTag 0 c (some j)) with
        | false => rfl
        | true =>
          have := ber_isCodec.test_num t i j 0 c hc
          omega
      rw [gAlt, hne]
      simp only [Bool.false_eq_true, if_false]
      exact hk

/-- the bare CHOICE -/
theorem cc_bare (root : Alts) (ext : Bool) (adds : Alts)
    (ihr : root.AllO COMP) (iha : adds.AllO COMP) (fuel fuelC : Nat) (b rest extra : Bytes) (v : Val)
    (h : (match decAlternativesS root 0 fuel b with
      | some x => some x
      | none => decAlternativesS adds root.length fuel b) = some (v, rest))
    (hf : (b ++ extra).length < fuelC) :
    ∃ k, gBare BerCodec.dec berTest root ext adds fuelC (b ++ extra) = .ok (some (v, k, rest ++ extra)) ∧
      b.length = k + rest.length := by
  split at h
  · rename_i x hx
    cases h
    obtain ⟨j, c, r0, _, hb, hr0, k, hk, hlen⟩ := cc_alts root ihr 0 fuel fuelC b rest extra v hx hf
    refine ⟨k, ?_, hlen⟩
    have htag : readTag (b ++ extra) = .ok (mkTag 0 c (some j), r0 ++ extra) := by
      rw [hb, List.append_assoc]
      exact Der.readTag_mkTag_ctx _ _ _ _ (by simp [hr0])
    rw [gBare, htag]
    simp only []
    rw [hk]
  · rename_i hx
    obtain ⟨j, c, r0, hj, hb, hr0, k, hk, hlen⟩ :=
      cc_alts adds iha root.length fuel fuelC b rest extra v h hf
    refine ⟨k, ?_, hlen⟩
    have htag : readTag (b ++ extra) = .ok (mkTag 0 c (some j), r0 ++ extra) := by
      rw [hb, List.append_assoc]
      exact Der.readTag_mkTag_ctx _ _ _ _ (by simp [hr0])
    have hn : gAlt BerCodec.dec berTest root 0 (mkTag 0 c (some j)) fuelC (b ++ extra) = none :=
      Der.gAlt_none ber_isCodec root _ _ _ 0 fuelC _ (by omega)
    rw [gBare, htag]
    simp only []
    rw [hn]
    simp only []
    rw [hk]

/-! ### CHOICE -/

theorem comp_choice (root : Alts) (ext : Bool) (adds : Alts)
    (ihr : root.AllO COMP) (iha : adds.AllO COMP) : COMP (.choice root ext adds) := by
  intro tg fuel fuelC bs rest extra v h hf
  rw [ber_isCodec.choice]
  cases tg with
  | none =>
    rw [decVS] at h
    try simp only [] at h
    rw [gChoice]
    exact cc_bare root ext adds ihr iha fuel fuelC bs rest extra v h hf
  | some i =>
    rw [decVS] at h
    try simp only [] at h
    split at h
    · cases h
    · rename_i r hs
      have hbs := stripPrefix_some hs
      rw [identifier_context 0] at hbs
      have hbl : bs.length = (mkTag 0 true (some i)).length + r.length := by
        rw [hbs, List.length_append]
      have hm : matchTag (mkTag 0 true (some i)) (bs ++ extra) = .ok (some (r ++ extra)) := by
        rw [hbs, List.append_assoc]; exact Der.matchTag_self _ _
      unfold constructedContents at h
      split at h
      · -- definite length
        rename_i n r1 hrl
        split at h
        · rename_i c rest' htk
          split at h
          · rename_i a hch
            cases h
            obtain ⟨hdr, hlen, hl⟩ := readLen_of_readLength (d := false)
              (cc_readLength_append extra hrl) (cc_takeN_append extra htk)
            obtain ⟨e1, e2⟩ := takeN_some htk
            rw [e1] at hl
            simp only [List.length_append] at hl
            have hf' : (c ++ (rest ++ extra)).length < fuelC := by
              rw [hbs] at hf
              simp only [List.length_append] at hf ⊢
              omega
            obtain ⟨k, hk, hkl⟩ := cc_bare root ext adds ihr iha fuel fuelC c [] (rest ++ extra) v hch hf'
            simp only [List.nil_append, List.length_nil, Nat.add_zero] at hk hkl
            refine ⟨(mkTag 0 true (some i)).length + hdr + k, ?_, ?_⟩
            · rw [gChoice]
              try simp only []
              rw [hm]
              try simp only []
              rw [hlen]
              try simp only []
              rw [e1, List.append_assoc, hk]
            · rw [hbl]
              omega
          · cases h
        · cases h
      · -- indefinite length
        rename_i r1 hrl
        split at h
        · rename_i a rest' hch
          cases h
          have hlen := readLen_of_readLength_indef (cc_readLength_append extra hrl)
          have hl := cc_readLength_indef_length hrl
          have hf' : (r1 ++ extra).length < fuelC := by
            rw [hbs] at hf
            simp only [List.length_append] at hf ⊢
            omega
          obtain ⟨k, hk, hkl⟩ := cc_bare root ext adds ihr iha fuel fuelC r1 (0 :: 0 :: rest) extra v hch hf'
          refine ⟨(mkTag 0 true (some i)).length + 1 + k + 2, ?_, ?_⟩
          · rw [gChoice]
            try simp only []
            rw [hm]
            try simp only []
            rw [hlen]
            try simp only []
            rw [hk]
            simp only [List.cons_append, Der.eoc, List.drop_succ_cons, List.drop_zero]
          · simp only [List.length_cons] at hkl
            rw [hbl]
            omega
        · cases h
      · cases h

end Asn1.X690

#print axioms Asn1.X690.decVS_after_tag
#print axioms Asn1.X690.comp_choice
