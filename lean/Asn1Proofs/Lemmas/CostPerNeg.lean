import Asn1Proofs.Lemmas.CostPerFuel
/-
  C08 for the ALIGNED PER model, the negative result: with a rewinding CHOICE the allocation is NOT
  linear in the length of the input.

      T ::= SEQUENCE OF CHOICE { a NULL, ..., b OCTET STRING }

  `Choice.decode` reads an extension addition as an open type: length `L`, then the alternative, then
  `skip_bits(8 * L - consumed)`.  When the alternative read MORE than `L` octets the number is negative,
  passes the out-of-data test and moves the read position BACK to the end of the open type.  So an
  element `80 01 c2` (addition 0, open type of 1 octet, whose OCTET STRING starts with the fragment
  marker `c2` = "32768 octets follow, then another length") decodes an OCTET STRING that runs through
  the whole rest of the message, and then continues 3 octets after its own start, where the next
  element does the same.  The input

      (c2 80 01)^32767 c2 80 00   repeated q times,   then 32769 octets 00

  is a SEQUENCE OF (fragments of 32768 elements, markers `c2`) of `32768 * q` such elements; every third
  octet is `c2`, the markers are `32769 = 3 * 10923` octets apart, so every chain of fragments stays on
  the markers until it reaches the final zeros.  `98304 * q + 32769` octets decode to a value of more
  than `10^9 * q * (q - 1)` nodes.
-/
set_option linter.unusedSimpArgs false
set_option linter.unusedVariables false
namespace Asn1.CostP
open Asn1.Per
open Asn1.Uper (DecM Err bind_ok sizeBits)

/-- `CHOICE { a NULL, ..., b OCTET STRING }` -/
def rwChoice : Ty :=
  .choice (.cons "a" .null .nil) true (.cons "b" (.octetString ⟨0, none, false⟩) .nil)

/-- `SEQUENCE OF CHOICE { a NULL, ..., b OCTET STRING }` -/
def rwList : Ty := .sequenceOf rwChoice ⟨0, none, false⟩

/-- octet `i` of the periodic part of the input -/
def rwByte (i : Nat) : Nat :=
  if i % 3 = 0 then 0xc2 else if i % 3 = 1 then 0x80 else if i % 98304 = 98303 then 0 else 1

/-- the input: `q` fragments of 32768 elements, then 32769 zero octets -/
def rwInput (q : Nat) : Bytes := (List.range (98304 * q)).map rwByte ++ List.replicate 32769 0

theorem rwInput_length (q : Nat) : (rwInput q).length = 98304 * q + 32769 := by
  unfold rwInput
  rw [List.length_append, List.length_map, List.length_range, List.length_replicate]

theorem rwInput_octets (q : Nat) : ∀ b ∈ rwInput q, b < 256 := by
  intro b hb
  simp only [rwInput, List.mem_append, List.mem_map, List.mem_range, List.mem_replicate] at hb
  rcases hb with ⟨i, _, rfl⟩ | ⟨_, rfl⟩
  · unfold rwByte
    repeat' split
    all_goals omega
  · omega

theorem drop_of_getElem? {α : Type} {l : List α} {p : Nat} {x : α} (h : l[p]? = some x) :
    l.drop p = x :: l.drop (p + 1) := by
  obtain ⟨hl, he⟩ := List.getElem?_eq_some_iff.mp h
  rw [List.drop_eq_getElem_cons hl, he]

theorem rwInput_drop_lt (q p : Nat) (h : p < 98304 * q) :
    (rwInput q).drop p = rwByte p :: (rwInput q).drop (p + 1) := by
  apply drop_of_getElem?
  unfold rwInput
  rw [List.getElem?_append_left (by rw [List.length_map, List.length_range]; exact h),
    List.getElem?_map, List.getElem?_range h]
  rfl

theorem rwInput_drop_ge (q p : Nat) (h : 98304 * q ≤ p) (h2 : p < 98304 * q + 32769) :
    (rwInput q).drop p = 0 :: (rwInput q).drop (p + 1) := by
  apply drop_of_getElem?
  unfold rwInput
  rw [List.getElem?_append_right (by rw [List.length_map, List.length_range]; exact h),
    List.length_map, List.length_range, List.getElem?_replicate, if_pos (by omega)]

/-! ### readers on whole octets -/

theorem bytesToBits_cons (x : Nat) (l : Bytes) : bytesToBits (x :: l) = natToBits 8 x ++ bytesToBits l := by
  simp [bytesToBits]

/-- a one-octet length determinant -/
theorem readLenDet_short (pos v : Nat) (rest : Bits) (hv : v < 128) :
    readLenDet ⟨pos, natToBits 8 v ++ rest⟩ = .ok (v, ⟨pos + 8, rest⟩) := by
  simp only [readLenDet, bind, Except.bind]
  rw [readNat_natToBits _ rest (by omega)]
  simp only [hv, if_true]

/-- the fragment marker `c2` -/
theorem readLenDet_c2 (pos : Nat) (rest : Bits) :
    readLenDet ⟨pos, natToBits 8 0xc2 ++ rest⟩ = .ok (32768, ⟨pos + 8, rest⟩) := by
  simp only [readLenDet, bind, Except.bind]
  rw [readNat_natToBits _ rest (by omega)]
  simp

theorem readBits_bytes (pos n : Nat) (l : Bytes) (h : n ≤ l.length) :
    readBits (8 * n) ⟨pos, bytesToBits l⟩ =
      .ok (bytesToBits (l.take n), ⟨pos + 8 * n, bytesToBits (l.drop n)⟩) := by
  conv => lhs; rw [← List.take_append_drop n l, bytesToBits_append]
  rw [readBits_append]
  rw [bytesToBits_length, List.length_take, Nat.min_eq_left h]

/-! ### the chain of fragments read by one OCTET STRING -/

/-- from any marker position `p` (a multiple of 3) the fragmented OCTET STRING reader runs to the final
zeros: it returns at least `32768 * ⌈(E - p) / 32769⌉` octets (`E` = length of the periodic part) -/
theorem rw_chain (q : Nat) : ∀ (fuel p pos : Nat), p % 3 = 0 → p ≤ 98304 * q + 32768 →
    8 * (98304 * q + 32769 - p) < fuel →
    ∃ xs s3, decChunksBits 8 fuel ⟨pos, bytesToBits ((rwInput q).drop p)⟩ = .ok (xs, s3) ∧
      pos + 8 + xs.length ≤ s3.pos ∧
      8 * (32768 * ((98304 * q - p + 32768) / 32769)) ≤ xs.length := by
  intro fuel
  induction fuel with
  | zero => intro p pos _ _ h; omega
  | succ fuel ih =>
    intro p pos h3 hp hf
    by_cases hlt : p < 98304 * q
    · have hb : rwByte p = 0xc2 := by unfold rwByte; rw [if_pos h3]
      obtain ⟨ys, s3, hy, hpos, hlen⟩ := ih (p + 32769) (pos + 8 + 8 * 32768) (by omega) (by omega)
        (by omega)
      refine ⟨bytesToBits (((rwInput q).drop (p + 1)).take 32768) ++ ys, s3, ?_, ?_, ?_⟩
      · rw [rwInput_drop_lt q p hlt, hb, bytesToBits_cons]
        simp only [decChunksBits, bind, Except.bind]
        rw [readLenDet_c2]
        simp only
        rw [readBits_bytes _ _ _ (by rw [List.length_drop, rwInput_length]; omega)]
        simp only [List.drop_drop]
        rw [if_neg (by omega)]
        rw [show p + 1 + 32768 = p + 32769 by omega, hy]
      · simp only [List.length_append, bytesToBits_length, List.length_take, List.length_drop,
          rwInput_length]
        omega
      · simp only [List.length_append, bytesToBits_length, List.length_take, List.length_drop,
          rwInput_length]
        omega
    · refine ⟨[], ⟨pos + 8 + 8 * 0, bytesToBits ((rwInput q).drop (p + 1))⟩, ?_, ?_, ?_⟩
      · rw [rwInput_drop_ge q p (by omega) (by omega), bytesToBits_cons]
        simp only [decChunksBits, bind, Except.bind]
        rw [readLenDet_short _ _ _ (by omega)]
        simp only
        rw [readBits_bytes _ 0 _ (by omega)]
        simp [bytesToBits]
      · simp
      · simp only [List.length_nil]; omega

/-! ### one element -/

theorem rw_sizeBits : sizeBits ⟨0, none, false⟩ = none := rfl

/-- the element `80 L ...`: extension bit, addition 0, an open type of `L` octets; the OCTET STRING in
it reads `xs` and ends at `s3`, past the end of the open type: the decoder goes BACK to that end -/
theorem rw_elem (fuel pos L : Nat) (hpos : pos % 8 = 0) (hL : L < 128) (tail xs : Bits) (s3 : St)
    (hchain : decChunksBits 8 fuel ⟨pos + 16, tail⟩ = .ok (xs, s3))
    (hcons : pos + 16 + 8 * L < s3.pos) :
    dec rwChoice fuel ⟨pos, natToBits 8 0x80 ++ (natToBits 8 L ++ tail)⟩ =
      .ok (.choice "b" (.bytes (packBits xs)), ⟨pos + 16 + 8 * L, tail.drop (8 * L)⟩) := by
  have h80 : natToBits 8 0x80 = true :: false :: natToBits 6 0 := by decide
  have hal : align ⟨pos + 16, tail⟩ = ⟨pos + 16, tail⟩ := align_of_aligned _ _ (by omega)
  have hal8 : align ⟨pos + 1 + 1 + 6, natToBits 8 L ++ tail⟩ = ⟨pos + 8, natToBits 8 L ++ tail⟩ := by
    rw [show pos + 1 + 1 + 6 = pos + 8 by omega]
    exact align_of_aligned _ _ (by omega)
  have hoct : dec (.octetString ⟨0, none, false⟩) fuel ⟨pos + 16, tail⟩
      = .ok (.bytes (packBits xs), s3) := by
    rw [dec]
    simp only [Bool.false_eq_true, if_false, bind, Except.bind, rw_sizeBits, hal, hchain]
  unfold rwChoice
  rw [dec]
  simp only [h80, if_true, bind, Except.bind, List.cons_append, readBit_cons, decNsnnwn,
    Bool.not_false]
  rw [readNat_natToBits _ _ (by omega)]
  simp only [hal8]
  rw [readLenDet_short _ _ _ hL]
  simp only [decAlt, show pos + 8 + 8 = pos + 16 by omega, hoct, bind, Except.bind]
  rw [if_pos (by omega)]

/-- octets taken by the element that starts at octet `p`: 3, except for the last element of a
fragment (2: its open type is empty, the OCTET STRING starts on the next fragment marker) -/
def rwStride (p : Nat) : Nat := if (p + 1) % 98304 = 98303 then 2 else 3

/-- the element at octet `p` of the input: decoded to a value of at least
`32768 * ⌈(E - (p + 2)) / 32769⌉` nodes, and the decoder continues `rwStride p` octets further -/
theorem rw_elem_at (q fuel p pos : Nat) (hp3 : p % 3 = 1) (hp : p < 98304 * q) (hpos : pos % 8 = 0)
    (hf : 8 * (98304 * q + 32769) < fuel) :
    ∃ v, dec rwChoice fuel ⟨pos, bytesToBits ((rwInput q).drop p)⟩ =
        .ok (v, ⟨pos + 8 * rwStride p, bytesToBits ((rwInput q).drop (p + rwStride p))⟩) ∧
      32768 * ((98304 * q - (p + 2) + 32768) / 32769) ≤ v.nodes := by
  have hb0 : rwByte p = 0x80 := by unfold rwByte; rw [if_neg (by omega), if_pos hp3]
  have h1 : p + 1 < 98304 * q := by omega
  obtain ⟨xs, s3, hchain, hpos', hlen⟩ := rw_chain q fuel (p + 2) (pos + 16) (by omega) (by omega)
    (by omega)
  have hnodes : 32768 * ((98304 * q - (p + 2) + 32768) / 32769)
      ≤ (Val.choice "b" (.bytes (packBits xs))).nodes := by
    simp only [Val.nodes, packBits_length]; omega
  refine ⟨_, ?_, hnodes⟩
  rw [rwInput_drop_lt q p hp, rwInput_drop_lt q (p + 1) h1, bytesToBits_cons, bytesToBits_cons, hb0]
  by_cases hL : (p + 1) % 98304 = 98303
  · have hb1 : rwByte (p + 1) = 0 := by
      unfold rwByte; rw [if_neg (by omega), if_neg (by omega), if_pos hL]
    rw [hb1, rw_elem fuel pos 0 hpos (by omega) _ xs s3 hchain (by omega)]
    simp only [rwStride, hL, if_true, Nat.mul_zero, Nat.add_zero, List.drop_zero]
  · have hb1 : rwByte (p + 1) = 1 := by
      unfold rwByte; rw [if_neg (by omega), if_neg (by omega), if_neg hL]
    have h2 : p + 2 < 98304 * q := by omega
    rw [hb1, rw_elem fuel pos 1 hpos (by omega) _ xs s3 hchain (by omega)]
    have hb2 : rwByte (p + 2) = 0xc2 := by unfold rwByte; rw [if_pos (by omega)]
    rw [rwInput_drop_lt q (p + 2) h2, bytesToBits_cons, hb2,
      List.drop_left' (natToBits_length 8 0xc2)]
    simp only [rwStride, hL, if_false]

/-! ### runs of elements, fragments, the whole message -/

theorem decRepeat_snoc {α : Type} (p : St → DecM (α × St)) (m : Nat) : ∀ (s : St) (xs : List α)
    (r : St) (a : α) (r' : St), decRepeat p m s = .ok (xs, r) → p r = .ok (a, r') →
    decRepeat p (m + 1) s = .ok (xs ++ [a], r') := by
  induction m with
  | zero =>
    intro s xs r a r' h1 h2
    simp only [decRepeat] at h1
    cases h1
    simp only [decRepeat, bind, Except.bind, h2, List.nil_append]
  | succ m ih =>
    intro s xs r a r' h1 h2
    rw [decRepeat] at h1
    obtain ⟨⟨a0, r0⟩, h0, h1⟩ := bind_ok h1
    try dsimp only at h1
    obtain ⟨⟨as, r1⟩, h3, h1⟩ := bind_ok h1
    try dsimp only at h1
    cases h1
    have := ih r0 as r a r' h3 h2
    rw [decRepeat]
    simp only [bind, Except.bind, h0, this, List.cons_append]

/-- `n` elements of 3 octets inside one fragment, each worth at least `B` nodes -/
theorem rw_run (q fuel : Nat) (hf : 8 * (98304 * q + 32769) < fuel) (B : Nat) :
    ∀ (n p pos : Nat), p % 3 = 1 → pos % 8 = 0 → p % 98304 + 3 * n ≤ 98302 →
      p + 3 * n ≤ 98304 * q + 1 →
      B ≤ 32768 * ((98304 * q - (p + 3 * n - 1) + 32768) / 32769) →
      ∃ vs, decRepeat (dec rwChoice fuel) n ⟨pos, bytesToBits ((rwInput q).drop p)⟩ =
          .ok (vs, ⟨pos + 24 * n, bytesToBits ((rwInput q).drop (p + 3 * n))⟩) ∧
        n * B ≤ Val.nodesList vs := by
  intro n
  induction n with
  | zero =>
    intro p pos _ _ _ _ _
    exact ⟨[], by simp only [decRepeat, Nat.mul_zero, Nat.add_zero], by simp⟩
  | succ n ih =>
    intro p pos hp3 hpos hblk hend hB
    obtain ⟨v, hv, hvn⟩ := rw_elem_at q fuel p pos hp3 (by omega) hpos hf
    have hst : rwStride p = 3 := by unfold rwStride; rw [if_neg (by omega)]
    rw [hst] at hv
    obtain ⟨vs, hvs, hvsn⟩ := ih (p + 3) (pos + 8 * 3) (by omega) (by omega) (by omega) (by omega)
      (by rw [show p + 3 + 3 * n - 1 = p + 3 * (n + 1) - 1 by omega]; exact hB)
    rw [show pos + 8 * 3 + 24 * n = pos + 24 * (n + 1) by omega,
      show p + 3 + 3 * n = p + 3 * (n + 1) by omega] at hvs
    refine ⟨v :: vs, ?_, ?_⟩
    · rw [decRepeat]
      simp only [bind, Except.bind, hv, hvs]
    · have hvB : B ≤ v.nodes := by
        refine Nat.le_trans hB (Nat.le_trans ?_ hvn)
        omega
      simp only [Val.nodesList, Nat.succ_mul]
      omega

/-- one fragment: 32767 elements of 3 octets and a last one of 2 (the count is kept symbolic so that
nothing ever unfolds `decRepeat` 32768 times) -/
theorem rw_block (q fuel b pos : Nat) (hf : 8 * (98304 * q + 32769) < fuel) (hb : b < q)
    (hpos : pos % 8 = 0) (cnt : Nat) (hcnt : cnt = 32768) :
    ∃ vs, decRepeat (dec rwChoice fuel) cnt
          ⟨pos, bytesToBits ((rwInput q).drop (98304 * b + 1))⟩ =
        .ok (vs, ⟨pos + 8 * 98303, bytesToBits ((rwInput q).drop (98304 * (b + 1)))⟩) ∧
      32767 * (65536 * (q - b - 1)) ≤ Val.nodesList vs := by
  obtain ⟨n, rfl⟩ : ∃ n, cnt = n + 1 := ⟨32767, hcnt⟩
  have hn : n = 32767 := by omega
  obtain ⟨vs, hvs, hnn⟩ := rw_run q fuel hf (65536 * (q - b - 1)) n (98304 * b + 1) pos
    (by omega) hpos (by omega) (by omega) (by omega)
  obtain ⟨v, hv, _⟩ := rw_elem_at q fuel (98304 * b + 1 + 3 * n) (pos + 24 * n) (by omega)
    (by omega) (by omega) hf
  have hst : rwStride (98304 * b + 1 + 3 * n) = 2 := by
    unfold rwStride; rw [if_pos (by omega)]
  rw [hst] at hv
  refine ⟨vs ++ [v], ?_, ?_⟩
  · rw [decRepeat_snoc _ n _ _ _ _ _ hvs hv]
    rw [show pos + 24 * n + 8 * 2 = pos + 8 * 98303 by omega,
      show 98304 * b + 1 + 3 * n + 2 = 98304 * (b + 1) by omega]
  · rw [Cost.nodesList_append]
    have : n * (65536 * (q - b - 1)) = 32767 * (65536 * (q - b - 1)) := by rw [hn]
    omega

/-- lower bound of the value: fragment `b` of `q` is worth `32767 * 65536 * (q - b - 1)` nodes -/
def rwLB : Nat → Nat
  | 0 => 0
  | m + 1 => 32767 * (65536 * m) + rwLB m

theorem rw_chunks (q fuel : Nat) (hf : 8 * (98304 * q + 32769) < fuel) :
    ∀ (m b pos fuel' : Nat), b + m = q → pos % 8 = 0 → m < fuel' →
      ∃ vs r, decChunks (dec rwChoice fuel) fuel'
          ⟨pos, bytesToBits ((rwInput q).drop (98304 * b))⟩ = .ok (vs, r) ∧
        rwLB m ≤ Val.nodesList vs := by
  intro m
  induction m with
  | zero =>
    intro b pos fuel' hb hpos hfu
    obtain ⟨f, rfl⟩ : ∃ k, fuel' = k + 1 := ⟨fuel' - 1, by omega⟩
    refine ⟨[], ⟨pos + 8, bytesToBits ((rwInput q).drop (98304 * b + 1))⟩, ?_, by simp [rwLB]⟩
    rw [rwInput_drop_ge q _ (by omega) (by omega), bytesToBits_cons]
    simp only [decChunks, bind, Except.bind]
    rw [readLenDet_short _ _ _ (by omega)]
    simp only [decRepeat]
    rw [if_pos (by omega)]
  | succ m ih =>
    intro b pos fuel' hb hpos hfu
    obtain ⟨f, rfl⟩ : ∃ k, fuel' = k + 1 := ⟨fuel' - 1, by omega⟩
    have hc2 : rwByte (98304 * b) = 0xc2 := by unfold rwByte; rw [if_pos (by omega)]
    obtain ⟨vs1, h1, hn1⟩ := rw_block q fuel b (pos + 8) hf (by omega) (by omega) 32768 rfl
    obtain ⟨vs2, r, h2, hn2⟩ := ih (b + 1) (pos + 8 + 8 * 98303) f (by omega) (by omega) (by omega)
    refine ⟨vs1 ++ vs2, r, ?_, ?_⟩
    · rw [rwInput_drop_lt q _ (by omega), bytesToBits_cons, hc2]
      rw [decChunks]
      simp only [bind, Except.bind]
      rw [readLenDet_c2]
      simp only
      rw [h1]
      simp only
      rw [if_neg (by omega), h2]
    · rw [Cost.nodesList_append, rwLB, show q - b - 1 = m by omega] at *
      omega

theorem rwLB_closed (m : Nat) : 2 * rwLB m + 2147418112 * m = 2147418112 * (m * m) := by
  induction m with
  | zero => rfl
  | succ m ih =>
    have e : (m + 1) * (m + 1) = m * m + 2 * m + 1 := by
      rw [Nat.mul_add, Nat.add_mul, Nat.mul_one, Nat.one_mul]; omega
    rw [rwLB, e]
    omega

/-- **the quadratic input**: `98304 * q + 32769` genuine octets that the aligned PER decoder of
`SEQUENCE OF CHOICE { a NULL, ..., b OCTET STRING }` accepts, building a value of more than
`1073709056 * q * (q - 1)` nodes -/
theorem rw_decode (q : Nat) :
    ∃ v, Per.decode rwList (rwInput q) = .ok v ∧ 1 + rwLB q ≤ v.nodes := by
  have hlen := rwInput_length q
  obtain ⟨vs, r, h, hn⟩ := rw_chunks q (8 * (rwInput q).length + 2) (by omega) q 0 0
    (8 * (rwInput q).length + 2) (by omega) rfl (by omega)
  refine ⟨.list vs, ?_, by simp only [Val.nodes]; omega⟩
  unfold Per.decode rwList
  rw [dec]
  simp only [Bool.false_eq_true, if_false, bind, Except.bind, rw_sizeBits]
  rw [align_of_aligned _ _ rfl]
  rw [Nat.mul_zero, List.drop_zero] at h
  rw [h]
  rfl

/-- **no linear allocation bound for aligned PER**: for this type no constant `K` bounds the size of
the decoded value by `K * (8 * length + 1)` (compare `uper_alloc_bound_bits`) -/
theorem per_no_alloc_bound :
    ¬ ∃ K : Nat, ∀ (bs : Bytes) (v : Val),
      Per.decode rwList bs = .ok v → v.nodes ≤ K * (8 * bs.length + 1) := by
  rintro ⟨K, hK⟩
  have e0 : 8 * (98304 * (K + 2) + 32769) + 1 = 786432 * (K + 2) + 262153 := by omega
  have e1 : (K + 2) * (K + 2) = K * (K + 2) + 2 * (K + 2) := Nat.add_mul K 2 (K + 2)
  have e2 : K * (8 * (98304 * (K + 2) + 32769) + 1) = 786432 * (K * (K + 2)) + 262153 * K := by
    rw [e0, Nat.mul_add, Nat.mul_left_comm, Nat.mul_comm K 262153]
  have e3 : K ≤ K * (K + 2) := Nat.le_mul_of_pos_right K (by omega)
  obtain ⟨v, hv, hlb⟩ := rw_decode (K + 2)
  have h := hK _ v hv
  rw [rwInput_length, e2] at h
  have hc := rwLB_closed (K + 2)
  rw [e1, Nat.mul_add] at hc
  clear hv hK e0 e1 e2
  generalize K * (K + 2) = X at *
  generalize rwLB (K + 2) = Y at *
  omega

/-- the same input, closed form: `98304 * q + 32769` octets, more than `1073709056 * q * (q - 1)` nodes -/
theorem rw_decode_quadratic (q : Nat) :
    ∃ v, Per.decode rwList (rwInput q) = .ok v ∧
      1073709056 * (q * q) ≤ v.nodes + 1073709056 * q := by
  obtain ⟨v, hv, hlb⟩ := rw_decode q
  refine ⟨v, hv, ?_⟩
  have hc := rwLB_closed q
  generalize q * q = X at *
  generalize rwLB q = Y at *
  omega

/-- **the inductive statement fails already for a single rewinding CHOICE**: the decoder of
`CHOICE { a NULL, ..., b OCTET STRING }` consumes 24 bits and returns a value as large as the rest of
the message; no constant bounds the size of the value by the bits consumed (compare `uper_dec_alloc`) -/
theorem per_dec_no_linear_cost :
    ¬ ∃ K : Nat, ∀ (f : Nat) (s : St) (v : Val) (r : St), dec rwChoice f s = .ok (v, r) →
      v.nodes ≤ K * (s.bs.length - r.bs.length + 1) := by
  rintro ⟨K, hK⟩
  obtain ⟨v, hv, hn⟩ := rw_elem_at (K + 1) (8 * (98304 * (K + 1) + 32769) + 1) 1 0 rfl (by omega) rfl
    (by omega)
  have hst : rwStride 1 = 3 := by decide
  rw [hst] at hv
  have h := hK _ _ _ _ hv
  simp only [bytesToBits_length, List.length_drop, rwInput_length] at h
  have e : 8 * (98304 * (K + 1) + 32769 - 1) - 8 * (98304 * (K + 1) + 32769 - (1 + 3)) + 1 = 25 := by
    omega
  rw [e] at h
  omega

end Asn1.CostP

#print axioms Asn1.CostP.per_no_alloc_bound
#print axioms Asn1.CostP.rw_decode_quadratic
#print axioms Asn1.CostP.per_dec_no_linear_cost
