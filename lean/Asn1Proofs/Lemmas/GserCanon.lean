import Asn1Proofs.Lemmas.GserTree
/-
  `Gser.canonG` (what a reader of the notation obtains) versus `canon` (what the library's binary decoders
  return): they differ only in that `canon` leaves an absent DEFAULT *extension addition* absent.
-/
namespace Asn1.Gser
open Asn1.Jer (MembersAll AltsAll)

/-- no member is declared DEFAULT -/
def membersNoDefault : Members → Bool
  | .nil => true
  | .cons _ p _ rest => (match p with | .default _ => false | _ => true) && membersNoDefault rest

mutual
  /-- no extension addition of a SEQUENCE is declared DEFAULT, at any depth -/
  def addsPlain : Ty → Bool
    | .sequence root _ adds => membersPlain root && membersPlain adds && membersNoDefault adds
    | .sequenceOf e _ => addsPlain e
    | .choice root _ adds => altsPlain root && altsPlain adds
    | _ => true
  def membersPlain : Members → Bool
    | .nil => true
    | .cons _ _ t rest => addsPlain t && membersPlain rest
  def altsPlain : Alts → Bool
    | .nil => true
    | .cons _ t rest => addsPlain t && altsPlain rest
end

def CE (t : Ty) : Prop := addsPlain t = true → ∀ v : Val, canonG t v = canon t v

theorem members_eq (fs : List (String × Val)) (fill : Bool) :
    ∀ ms : Members, MembersAll CE ms → membersPlain ms = true → (fill = true ∨ membersNoDefault ms = true) →
      canonGMembers ms fs = canonMembers ms fs fill := by
  intro ms
  induction ms using Members.ind with
  | nil => intro _ _ _; rfl
  | cons name p t rest ih =>
    intro hall hp hf
    obtain ⟨hce, hall'⟩ := hall
    simp only [membersPlain, Bool.and_eq_true] at hp
    have hf' : fill = true ∨ membersNoDefault rest = true := by
      rcases hf with hf | hf
      · exact Or.inl hf
      · simp only [membersNoDefault, Bool.and_eq_true] at hf; exact Or.inr hf.2
    have ihr := ih hall' hp.2 hf'
    simp only [canonGMembers, canonMembers]
    cases hl : lookup name fs with
    | some v => simp only [hce hp.1 v, ihr]
    | none =>
      cases p with
      | mandatory => exact ihr
      | optional => exact ihr
      | default d =>
        rcases hf with hf | hf
        · subst hf; simp only [ihr, if_true]
        · simp [membersNoDefault] at hf

theorem alts_eq (n : String) (v : Val) : ∀ as : Alts, AltsAll CE as → altsPlain as = true →
    canonGAlt as n v = canonAlt as n v := by
  intro as
  induction as using Alts.ind with
  | nil => intro _ _; rfl
  | cons m t rest ih =>
    intro hall hp
    obtain ⟨hce, hall'⟩ := hall
    simp only [altsPlain, Bool.and_eq_true] at hp
    simp only [canonGAlt, canonAlt, hce hp.1 v, ih hall' hp.2]

theorem ce_all (t : Ty) : CE t :=
  Ty.rec (motive_1 := CE) (motive_2 := MembersAll CE) (motive_3 := AltsAll CE)
    (by intro _ v; cases v <;> rfl)
    (by intro _ v; cases v <;> rfl)
    (by intro c _ v; cases v <;> rfl)
    (by intro r e _ v; cases v <;> rfl)
    (by intro c _ v; cases v <;> rfl)
    (by intro c _ v; cases v <;> rfl)
    (by intro k c _ v; cases v <;> rfl)
    (by
      intro root ext adds ihr iha hp v
      simp only [addsPlain, Bool.and_eq_true] at hp
      cases v <;> try rfl
      rename_i fs
      simp only [canonG, canon, members_eq fs true root ihr hp.1.1 (Or.inl rfl),
        members_eq fs false adds iha hp.1.2 (Or.inr hp.2)])
    (by
      intro e c ih hp v
      simp only [addsPlain] at hp
      cases v <;> try rfl
      rename_i vs
      simp only [canonG, canon]
      congr 1
      exact List.map_congr_left (fun x _ => ih hp x))
    (by
      intro root ext adds ihr iha hp v
      simp only [addsPlain, Bool.and_eq_true] at hp
      cases v <;> try rfl
      rename_i n x
      simp only [canonG, canon, alts_eq n x root ihr hp.1, alts_eq n x adds iha hp.2]
      cases canonAlt root n x with
      | some w => rfl
      | none => cases canonAlt adds n x <;> rfl)
    trivial (fun _ _ _ _ iht ihr => ⟨iht, ihr⟩)
    trivial (fun _ _ _ iht ihr => ⟨iht, ihr⟩) t

end Asn1.Gser
