import Asn1Model.Translated
import Asn1Model.BerFraming
import Asn1Model.Uper
import Asn1Model.Per
import Asn1Model.Oer
import Asn1Model.CCursorOer
import Asn1Proofs.Lemmas.PyPrimLemmas
import Asn1Proofs.Lemmas.UperNum
import Asn1Proofs.Lemmas.BerFramingLemmas
/-
  BRIDGE, part 1: the translated helper functions of codecs/ber.py, codecs/oer.py, codecs/per.py,
  codecs/compiler.py, source/c/oer.py, source/c/uper.py equal the hand-written model functions.
  (Part 2, the `per.Encoder` class, is `Asn1Proofs/Lemmas/Bridge.lean`, which imports this file.)
-/
namespace Asn1.Bridge
open Asn1 Asn1.Translated

/-- octets of the byte-list models as Python integers -/
def ofNats (bs : List Nat) : List Int := bs.map Int.ofNat

theorem ofNats_append (a b : List Nat) : ofNats (a ++ b) = ofNats a ++ ofNats b := by
  simp [ofNats]

theorem ofNats_singleton (a : Nat) : ofNats [a] = [(a : Int)] := rfl

theorem ofNats_length (a : List Nat) : (ofNats a).length = a.length := by simp [ofNats]

theorem ofNats_reverse (a : List Nat) : (ofNats a).reverse = ofNats a.reverse := by simp [ofNats]

/-! ### ber.encode_length_definite -/

theorem byteLength_pos {n : Nat} (h : 0 < n) : 1 ≤ byteLength n := by
  have := Ber.byteLength_le_iff n 0
  simp at this
  omega

theorem byteLength_div (n : Nat) (h : 0 < n) : byteLength n = byteLength (n / 256) + 1 := by
  apply Nat.le_antisymm
  · rw [Ber.byteLength_le_iff, Nat.pow_succ]
    have := Ber.lt_pow_byteLength (n / 256)
    omega
  · have h1 := byteLength_pos h
    obtain ⟨k, hk⟩ : ∃ k, byteLength n = k + 1 := ⟨byteLength n - 1, by omega⟩
    have h2 := Ber.lt_pow_byteLength n
    rw [hk, Nat.pow_succ] at h2
    have h3 : byteLength (n / 256) ≤ k := by
      rw [Ber.byteLength_le_iff]; omega
    omega

theorem natToBytesMin_step (n : Nat) (h : 0 < n) :
    natToBytesMin n = natToBytesMin (n / 256) ++ [n % 256] := by
  unfold natToBytesMin
  rw [byteLength_div n h, natToBytesN]

theorem length_loop (fuel n : Nat) (acc : List Nat) (hf : n < fuel) :
    ber_encode_length_definite_loop1 fuel (n : Int) (ofNats acc)
      = (ofNats (acc ++ (natToBytesMin n).reverse), 0) := by
  induction fuel generalizing n acc with
  | zero => omega
  | succ f ih =>
    unfold ber_encode_length_definite_loop1
    by_cases h0 : n = 0
    · subst h0
      simp [natToBytesMin, byteLength, bitLength, natToBytesN]
    · have hp : (n : Int) > 0 := by omega
      simp only [hp, decide_true, if_true, Py.band255, Py.shr8]
      rw [← ofNats_singleton, ← ofNats_append, ih _ _ (by omega), natToBytesMin_step n (by omega)]
      simp

/-- the translated function, for every `n` (the length octet is `0x80 | len`, which is `0x80 + len`
only while `len < 128`) -/
theorem ber_encode_length_definite_general (n : Nat) :
    ber_encode_length_definite (n : Int)
      = ofNats (if n ≤ 127 then [n] else (128 ||| (natToBytesMin n).length) :: natToBytesMin n) := by
  unfold ber_encode_length_definite
  by_cases h : n ≤ 127
  · have : (n : Int) ≤ 127 := by omega
    simp [this, h, ofNats]
  · have : ¬ (n : Int) ≤ 127 := by omega
    simp only [this, h, decide_false, if_false, Bool.false_eq_true]
    have := length_loop (1 + Py.fuelOfInt (n : Int) + Py.fuelOfList ([] : List Int)) n []
      (by rw [Py.fuelOfInt_natCast]; omega)
    rw [show ofNats [] = ([] : List Int) from rfl] at this
    rw [this]
    simp only [List.nil_append, Py.len_eq, ofNats_length, List.length_reverse]
    rw [show (128 : Int) = ((128 : Nat) : Int) from rfl, Py.bor_natCast, ← ofNats_singleton, ← ofNats_append,
      ofNats_reverse]
    simp

/-- CORRECTED STATEMENT.  The statement originally asked for was
`theorem ber_encode_length_definite_eq (n : Nat) :
    ber_encode_length_definite (n : Int) = ofNats (Ber.encLength n)`
which is FALSE: the Python code writes the first octet as `0x80 | len(encoded)`, the model as `128 + ds.length`;
they differ as soon as the length needs 128 octets (`n ≥ 256^127`: Python `0x80 | 128 = 128`, model `256`),
see `ber_encode_length_definite_eq_original_false`.  `ber_encode_length_definite_general` above is the
unconditional description; under `n < 256 ^ 127` (exactly the range in which `Ber.encLength n` is a valid
X.690 length, `Ber.encLength_valid_iff`) the two agree. -/
theorem ber_encode_length_definite_eq (n : Nat) (hn : n < 256 ^ 127) :
    ber_encode_length_definite (n : Int) = ofNats (Ber.encLength n) := by
  rw [ber_encode_length_definite_general]
  unfold Ber.encLength
  split
  · rfl
  · have h1 : (natToBytesMin n).length ≤ 127 := by
      unfold natToBytesMin
      rw [natToBytesN_length, Ber.byteLength_le_iff]; exact hn
    have h2 := Py.or_128 (b := (natToBytesMin n).length) (by omega)
    simp only [h2]

/-- concrete counterexample to the original (unconditional) statement -/
theorem ber_encode_length_definite_eq_original_false :
    ber_encode_length_definite ((256 ^ 127 : Nat) : Int) ≠ ofNats (Ber.encLength (256 ^ 127)) := by
  intro h1
  rw [ber_encode_length_definite_general] at h1
  have h2 : (natToBytesMin (256 ^ 127)).length = 128 := by
    unfold natToBytesMin
    rw [natToBytesN_length]
    apply Nat.le_antisymm
    · rw [Ber.byteLength_le_iff]; exact Nat.pow_lt_pow_right (by omega) (by omega)
    · have : ¬ byteLength (256 ^ 127) ≤ 127 := by
        rw [Ber.byteLength_le_iff]; omega
      omega
  have h3 : ¬ (256 ^ 127 ≤ 127) := by
    have : 256 ^ 1 ≤ 256 ^ 127 := Nat.pow_le_pow_right (by omega) (by omega)
    omega
  simp only [Ber.encLength, h3, if_false, h2, ofNats, List.map_cons] at h1
  have := (List.cons.inj h1).1
  revert this
  decide

/-! ### base-128 continuation octets (BER / OER tags, OID subidentifiers) -/

/-- the octets the `while number > 0` loops append: base-128 digits, least significant first, each with bit 8 set -/
def contLE (m : Nat) : List Nat :=
  if h : m = 0 then [] else (m % 128 + 128) :: contLE (m / 128)
termination_by m
decreasing_by omega

theorem contLE_zero : contLE 0 = [] := by rw [contLE]; simp

theorem contLE_pos {m : Nat} (h : m ≠ 0) : contLE m = (m % 128 + 128) :: contLE (m / 128) := by
  rw [contLE]; simp [h]

theorem contLE_base128 (f m : Nat) (h0 : m ≠ 0) (h : m < 128 ^ (f + 1)) :
    contLE m = ((Ber.base128 (f + 1) m).reverse).map (· + 128) := by
  induction f generalizing m with
  | zero =>
    have : m < 128 := by simpa using h
    rw [contLE_pos h0, Ber.base128]
    have h1 : m / 128 = 0 := by omega
    have h2 : m % 128 = m := by omega
    simp [this, h1, h2, contLE_zero]
  | succ f ih =>
    rw [contLE_pos h0, Ber.base128]
    by_cases hm : m < 128
    · have h1 : m / 128 = 0 := by omega
      have h2 : m % 128 = m := by omega
      simp [hm, h1, h2, contLE_zero]
    · rw [Nat.pow_succ] at h
      rw [ih (m / 128) (by omega) (by omega)]
      simp [hm]

theorem base128_unfold (f n : Nat) :
    Ber.base128 (f + 1) n = if n < 128 then [n] else Ber.base128 f (n / 128) ++ [n % 128] := rfl

theorem base128_fuel (f g m : Nat) (hf : m < 128 ^ (f + 1)) (hg : m < 128 ^ (g + 1)) :
    Ber.base128 (f + 1) m = Ber.base128 (g + 1) m := by
  induction f generalizing g m with
  | zero =>
    have : m < 128 := by simpa using hf
    simp [Ber.base128, this]
  | succ f ih =>
    rw [base128_unfold (f + 1), base128_unfold g]
    by_cases hm : m < 128
    · simp [hm]
    · simp only [hm, if_false]
      cases g with
      | zero => simp at hg; omega
      | succ g =>
        rw [Nat.pow_succ] at hf hg
        rw [ih g (m / 128) (by omega) (by omega)]

theorem lt_pow128 (n : Nat) : n < 128 ^ (bitLength n + 1) := by
  have h1 := lt_two_pow_bitLength n
  have h2 : 2 ^ bitLength n ≤ 128 ^ bitLength n := Nat.pow_le_pow_left (by omega) _
  have h3 : 128 ^ bitLength n ≤ 128 ^ (bitLength n + 1) := Nat.pow_le_pow_right (by omega) (by omega)
  omega

theorem lt_pow128_self (n : Nat) : n < 128 ^ (n + 1) := by
  have h1 : n < 128 ^ n := Nat.lt_pow_self (by omega)
  have h3 : 128 ^ n ≤ 128 ^ (n + 1) := Nat.pow_le_pow_right (by omega) (by omega)
  omega

theorem base128_oer (f n : Nat) : Oer.base128 f n = Ber.base128 f n := by
  induction f generalizing n with
  | zero => rfl
  | succ f ih => simp [Oer.base128, Ber.base128, ih]

theorem ber_tag_loop (fuel m : Nat) (fl : Int) (tg : List Int) (acc : List Nat) (hf : m < fuel) :
    ber_encode_tag_loop1 fuel (m : Int) fl tg (ofNats acc) = .ok (ofNats (acc ++ contLE m), 0) := by
  induction fuel generalizing m acc with
  | zero => omega
  | succ f ih =>
    unfold ber_encode_tag_loop1
    by_cases h0 : m = 0
    · subst h0; simp [contLE_zero]; rfl
    · have hp : (m : Int) > 0 := by omega
      simp only [hp, decide_true, if_true, Py.band127, Py.shr7]
      rw [Py.bor128 (Nat.mod_lt _ (by omega)), ← ofNats_singleton, ← ofNats_append, ih _ _ (by omega),
        contLE_pos h0, Nat.add_comm 128]
      simp

theorem oer_tag_loop (fuel m : Nat) (fl : Int) (tg : List Int) (acc : List Nat) (hf : m < fuel) :
    oer_encode_tag_loop1 fuel (m : Int) fl tg (ofNats acc) = .ok (ofNats (acc ++ contLE m), 0) := by
  induction fuel generalizing m acc with
  | zero => omega
  | succ f ih =>
    unfold oer_encode_tag_loop1
    by_cases h0 : m = 0
    · subst h0; simp [contLE_zero]; rfl
    · have hp : (m : Int) > 0 := by omega
      simp only [hp, decide_true, if_true, Py.band127, Py.shr7]
      rw [Py.bor128 (Nat.mod_lt _ (by omega)), ← ofNats_singleton, ← ofNats_append, ih _ _ (by omega),
        contLE_pos h0, Nat.add_comm 128]
      simp

theorem oid_loop (fuel m : Nat) (acc : List Nat) (hf : m < fuel) :
    ber_encode_object_identifier_subidentifier_loop1 fuel (m : Int) (ofNats acc) = (ofNats (acc ++ contLE m), 0) := by
  induction fuel generalizing m acc with
  | zero => omega
  | succ f ih =>
    unfold ber_encode_object_identifier_subidentifier_loop1
    by_cases h0 : m = 0
    · subst h0; simp [contLE_zero]
    · have hp : (m : Int) > 0 := by omega
      simp only [hp, decide_true, if_true, Py.band127, Py.shr7]
      rw [Py.bor128 (Nat.mod_lt _ (by omega)), ← ofNats_singleton, ← ofNats_append, ih _ _ (by omega),
        contLE_pos h0, Nat.add_comm 128]
      simp

/-- low bits clear: OR is addition -/
theorem or_low {f b : Nat} (k : Nat) (hf : f % 2 ^ k = 0) (hb : b < 2 ^ k) : f ||| b = f + b := by
  have : f = f / 2 ^ k * 2 ^ k := by
    have := Nat.div_add_mod f (2 ^ k)
    rw [Nat.mul_comm] at this; omega
  rw [this, Py.mul_pow_or _ hb]

theorem getIdx_ofNats_cons_zero (a : Nat) (r : List Nat) :
    Py.getIdx (ofNats (a :: r)) (0 : Int) = (.ok (a : Int) : Except String Int) := rfl

theorem setIdx_ofNats_cons_zero (a : Nat) (r : List Nat) (v : Int) :
    Py.setIdx (ofNats (a :: r)) (0 : Int) v = v :: ofNats r := rfl

theorem ofNats_cons (a : Nat) (r : List Nat) : ofNats (a :: r) = (a : Int) :: ofNats r := rfl

theorem base128_snoc (f n : Nat) : ∃ xs y, Ber.base128 (f + 1) n = xs ++ [y] ∧ y < 128 := by
  rw [base128_unfold]
  by_cases h : n < 128
  · exact ⟨[], n, by simp [h], h⟩
  · exact ⟨Ber.base128 f (n / 128), n % 128, by simp only [h, if_false], Nat.mod_lt _ (by omega)⟩

theorem ber_encode_tag_eq (n f : Nat) (hf : f % 32 = 0) :
    ber_encode_tag (n : Int) (f : Int) = .ok (ofNats (Ber.encTag n f)) := by
  unfold ber_encode_tag Ber.encTag
  by_cases h : n < 31
  · have : (n : Int) < 31 := by omega
    simp only [this, h, decide_true, if_true, Py.bor_natCast, or_low 5 hf (show n < 2 ^ 5 by omega)]
    rfl
  · have : ¬ (n : Int) < 31 := by omega
    simp only [this, h, decide_false, if_false, Bool.false_eq_true]
    have hl := ber_tag_loop (1 + Py.fuelOfInt (n : Int) + Py.fuelOfInt (f : Int) + Py.fuelOfList [Py.bor (f : Int) 31]
      + Py.fuelOfList ([] : List Int)) n (f : Int) [Py.bor (f : Int) 31] [] (by rw [Py.fuelOfInt_natCast]; omega)
    rw [show ofNats [] = ([] : List Int) from rfl] at hl
    have hn0 : n ≠ 0 := by omega
    rw [hl, List.nil_append, contLE_base128 _ n hn0 (lt_pow128_self n),
      base128_fuel n (bitLength n) n (lt_pow128_self n) (lt_pow128 n)]
    obtain ⟨xs, y, hxy, hy⟩ := base128_snoc (bitLength n) n
    rw [hxy]
    simp only [List.reverse_append, List.reverse_cons, List.reverse_nil, List.nil_append, List.singleton_append,
      List.map_cons, bind, Except.bind, pure, Except.pure, getIdx_ofNats_cons_zero, setIdx_ofNats_cons_zero,
      Py.band127, List.dropLast_concat, List.getLast?_concat, Option.getD_some]
    have h1 : (y + 128) % 128 = y := by omega
    have h2 : (31 : Int) = ((31 : Nat) : Int) := rfl
    rw [h1, h2, Py.bor_natCast, or_low 5 hf (show 31 < 2 ^ 5 by omega)]
    simp [ofNats]
theorem oer_encode_tag_eq (n f : Nat) (hf : f % 64 = 0) :
    oer_encode_tag (n : Int) (f : Int) = .ok (ofNats (Oer.encTag n f)) := by
  unfold oer_encode_tag Oer.encTag
  by_cases h : n < 63
  · have : (n : Int) < 63 := by omega
    simp only [this, h, decide_true, if_true, Py.bor_natCast, or_low 6 hf (show n < 2 ^ 6 by omega)]
    rfl
  · have : ¬ (n : Int) < 63 := by omega
    simp only [this, h, decide_false, if_false, Bool.false_eq_true]
    have hl := oer_tag_loop (1 + Py.fuelOfInt (n : Int) + Py.fuelOfInt (f : Int) + Py.fuelOfList [Py.bor (f : Int) 63]
      + Py.fuelOfList ([] : List Int)) n (f : Int) [Py.bor (f : Int) 63] [] (by rw [Py.fuelOfInt_natCast]; omega)
    rw [show ofNats [] = ([] : List Int) from rfl] at hl
    have hn0 : n ≠ 0 := by omega
    rw [hl, List.nil_append, contLE_base128 _ n hn0 (lt_pow128_self n),
      base128_fuel n (bitLength n) n (lt_pow128_self n) (lt_pow128 n), base128_oer]
    obtain ⟨xs, y, hxy, hy⟩ := base128_snoc (bitLength n) n
    rw [hxy]
    simp only [List.reverse_append, List.reverse_cons, List.reverse_nil, List.nil_append, List.singleton_append,
      List.map_cons, bind, Except.bind, pure, Except.pure, getIdx_ofNats_cons_zero, setIdx_ofNats_cons_zero,
      Py.band127, List.dropLast_concat, List.getLast?_concat, Option.getD_some]
    have h1 : (y + 128) % 128 = y := by omega
    have h2 : (63 : Int) = ((63 : Nat) : Int) := rfl
    rw [h1, h2, Py.bor_natCast, or_low 6 hf (show 63 < 2 ^ 6 by omega)]
    simp [ofNats]

/-! ### OBJECT IDENTIFIER subidentifiers -/

theorem oid_encode_eq (n : Nat) :
    ber_encode_object_identifier_subidentifier (n : Int) = ofNats ((contLE (n / 128)).reverse ++ [n % 128]) := by
  unfold ber_encode_object_identifier_subidentifier
  simp only [Py.band127, Py.shr7]
  rw [← ofNats_singleton, oid_loop _ _ _ (by rw [Py.fuelOfInt_natCast]; omega), ofNats_reverse]
  simp

theorem contLE_range (m : Nat) : ∀ b ∈ contLE m, 128 ≤ b ∧ b < 256 := by
  induction m using Nat.strongRecOn with
  | ind m ih =>
    by_cases h : m = 0
    · subst h; simp [contLE_zero]
    · rw [contLE_pos h]
      intro b hb
      rcases List.mem_cons.1 hb with rfl | hb
      · omega
      · exact ih (m / 128) (by omega) b hb

/-- the most significant continuation octet is not `0x80` -/
theorem contLE_getLast (m : Nat) : (contLE m).getLast? ≠ some 128 := by
  induction m using Nat.strongRecOn with
  | ind m ih =>
    by_cases h : m = 0
    · subst h; simp [contLE_zero]
    · rw [contLE_pos h]
      by_cases h2 : m / 128 = 0
      · rw [h2, contLE_zero]
        simp; omega
      · have := ih (m / 128) (by omega)
        rw [contLE_pos h2] at this ⊢
        simpa [List.getLast?_cons_cons] using this

theorem oid_subidentifier_shape (n : Nat) :
    let e := ber_encode_object_identifier_subidentifier (n : Int)
    e ≠ [] ∧ (∀ b ∈ e, 0 ≤ b ∧ b < 256) ∧ (∀ b ∈ e.dropLast, 128 ≤ b) ∧ (∀ b, e.getLast? = some b → b < 128) ∧
      (e.length > 1 → e.head? ≠ some 128) := by
  intro e
  have he : e = ofNats ((contLE (n / 128)).reverse ++ [n % 128]) := oid_encode_eq n
  have hr := contLE_range (n / 128)
  rw [he]
  refine ⟨by simp [ofNats], ?_, ?_, ?_, ?_⟩
  · intro b hb
    simp only [ofNats, List.map_append, List.mem_append, List.mem_map, List.mem_reverse] at hb
    rcases hb with ⟨a, ha, rfl⟩ | ⟨a, ha, rfl⟩
    · have := hr a ha
      simp only [Int.ofNat_eq_natCast]; omega
    · simp at ha; subst ha
      simp only [Int.ofNat_eq_natCast]; omega
  · intro b hb
    simp only [ofNats, List.map_append, List.map_cons, List.map_nil, List.dropLast_concat, List.mem_map,
      List.mem_reverse] at hb
    obtain ⟨a, ha, rfl⟩ := hb
    have := hr a ha
    simp only [Int.ofNat_eq_natCast]; omega
  · intro b hb
    simp only [ofNats, List.map_append, List.map_cons, List.map_nil, List.getLast?_concat, Option.some.injEq] at hb
    subst hb
    simp only [Int.ofNat_eq_natCast]; omega
  · intro hlen
    have hne : contLE (n / 128) ≠ [] := by
      intro h0; rw [h0] at hlen; simp [ofNats] at hlen
    have hl := contLE_getLast (n / 128)
    rw [← List.head?_reverse] at hl
    cases hc : (contLE (n / 128)).reverse with
    | nil => simp at hc; exact absurd hc hne
    | cons a r =>
      rw [hc] at hl
      simp only [List.head?_cons, ne_eq, Option.some.injEq] at hl
      simp only [ofNats, List.cons_append, List.map_cons, List.head?_cons, ne_eq, Option.some.injEq,
        Int.ofNat_eq_natCast]
      omega
theorem getIdx_ofNats_mid (pre : List Nat) (x : Nat) (post : List Nat) (rest : List Int) :
    Py.getIdx (ofNats (pre ++ x :: post) ++ rest) (pre.length : Int) = (.ok (x : Int) : Except String Int) := by
  have h : (ofNats (pre ++ x :: post) ++ rest)[pre.length]? = some (x : Int) := by
    simp [ofNats]
  simp [Py.getIdx, Py.getIdx?, h]

theorem band128_ne {c : Nat} (h1 : 128 ≤ c) (h2 : c < 256) : Py.truthyInt (Py.band (c : Int) 128) = true := by
  have h3 : ¬ (c &&& 2 ^ 7 = 0) := by
    rw [Py.and_two_pow_eq_zero_of_lt (by omega)]; omega
  rw [show (128 : Int) = ((128 : Nat) : Int) from rfl, Py.band_natCast]
  simpa [Py.truthyInt] using h3

theorem band128_eq {c : Nat} (h2 : c < 128) : Py.truthyInt (Py.band (c : Int) 128) = false := by
  have h3 : c &&& 2 ^ 7 = 0 := by
    rw [Py.and_two_pow_eq_zero_of_lt (by omega)]; omega
  rw [show (128 : Int) = ((128 : Nat) : Int) from rfl, Py.band_natCast]
  simpa [Py.truthyInt] using h3

theorem oid_dec_loop (cd : List Nat) : ∀ (fuel : Nat) (pre : List Nat) (d l : Nat) (rest : List Int),
    (∀ c ∈ cd, 128 ≤ c ∧ c < 256) → l < 128 → cd.length < fuel →
    ber_decode_object_identifier_subidentifier_loop1 fuel (ofNats (pre ++ cd ++ [l]) ++ rest) (pre.length : Int) (d : Int)
      = .ok (((cd.foldl (fun d c => (d + (c - 128)) * 128) d : Nat) : Int), ((pre.length + cd.length : Nat) : Int)) := by
  induction cd with
  | nil =>
    intro fuel pre d l rest _ hl hf
    cases fuel with
    | zero => omega
    | succ f =>
      unfold ber_decode_object_identifier_subidentifier_loop1
      simp only [List.append_nil, bind, Except.bind, getIdx_ofNats_mid, band128_eq hl]
      simp; rfl
  | cons c cs ih =>
    intro fuel pre d l rest hc hl hf
    cases fuel with
    | zero => simp at hf
    | succ f =>
      unfold ber_decode_object_identifier_subidentifier_loop1
      have hcc := hc c (by simp)
      rw [List.append_assoc, List.cons_append]
      simp only [bind, Except.bind, getIdx_ofNats_mid, band128_ne hcc.1 hcc.2, if_true, Py.band127]
      have e1 : (d : Int) + ((c % 128 : Nat) : Int) = ((d + (c - 128) : Nat) : Int) := by omega
      have e2 : (pre.length : Int) + 1 = (((pre ++ [c]).length : Nat) : Int) := by simp
      have e3 : pre ++ c :: (cs ++ [l]) = (pre ++ [c]) ++ cs ++ [l] := by simp
      rw [e1, Py.shl7, e2, e3, ih f (pre ++ [c]) _ l rest (fun x hx => hc x (by simp [hx])) hl (by simp at hf; omega)]
      simp only [List.foldl_cons, List.length_append, List.length_cons, List.length_nil]
      congr 3; omega

theorem contLE_fold (m : Nat) :
    (contLE m).reverse.foldl (fun d c => (d + (c - 128)) * 128) 0 = m * 128 := by
  induction m using Nat.strongRecOn with
  | ind m ih =>
    by_cases h : m = 0
    · subst h; simp [contLE_zero]
    · rw [contLE_pos h, List.reverse_cons, List.foldl_append, ih (m / 128) (by omega)]
      simp only [List.foldl_cons, List.foldl_nil]
      omega

theorem oid_subidentifier_roundtrip (n : Nat) (rest : List Int) :
    ber_decode_object_identifier_subidentifier (ber_encode_object_identifier_subidentifier (n : Int) ++ rest) 0
      = .ok ((n : Int), ((ber_encode_object_identifier_subidentifier (n : Int)).length : Int)) := by
  rw [oid_encode_eq]
  unfold ber_decode_object_identifier_subidentifier
  have h := oid_dec_loop (contLE (n / 128)).reverse
    (1 + Py.fuelOfList (ofNats ((contLE (n / 128)).reverse ++ [n % 128]) ++ rest) + Py.fuelOfInt 0 + Py.fuelOfInt 0)
    [] 0 (n % 128) rest (fun c hc => contLE_range _ c (by simpa using hc)) (Nat.mod_lt _ (by omega))
    (by simp [Py.fuelOfList, ofNats]; omega)
  simp only [List.nil_append, List.length_nil, Int.natCast_zero, Nat.zero_add] at h
  have hnat : ((0 : Nat) : Int) = 0 := rfl
  simp only [bind, Except.bind, h, contLE_fold]
  have hg := getIdx_ofNats_mid (contLE (n / 128)).reverse (n % 128) [] rest
  simp only [List.length_reverse] at hg ⊢
  rw [hg]
  simp only [pure, Except.pure, ofNats_length, List.length_append, List.length_reverse, List.length_cons,
    List.length_nil]
  congr 2
  · omega

/-! ### straight-line helpers -/

theorem c_oer_get_length_determinant_length_eq (n : Nat) :
    c_oer_get_length_determinant_length (n : Int) = (CCursorOer.staticLenDetLen n : Int) := by
  unfold c_oer_get_length_determinant_length CCursorOer.staticLenDetLen
  simp only [decide_eq_true_eq]
  repeat' split
  all_goals omega

theorem c_uper_does_bits_match_range_eq (nb : Nat) (lo hi : Int) :
    c_uper_does_bits_match_range (nb : Int) lo hi = decide ((2 : Int) ^ nb = hi - lo + 1) := by
  unfold c_uper_does_bits_match_range
  rw [Py.pow_natCast]

theorem compiler_lowest_set_bit_zero : compiler_lowest_set_bit 0 = 0 := by decide

theorem per_integer_as_number_of_bits_eq (n : Nat) :
    per_integer_as_number_of_bits (n : Int) = (bitLength n : Int) := by
  unfold per_integer_as_number_of_bits
  rw [Py.bitLength_natCast]
  split
  · rename_i h
    have : n = 0 := by simpa using h
    subst this; rfl
  · rfl

theorem per_size_as_number_of_bytes_eq (n : Nat) :
    per_size_as_number_of_bytes (n : Int) = (Per.sizeAsBytes n : Int) := by
  unfold per_size_as_number_of_bytes Per.sizeAsBytes
  rw [Py.bitLength_natCast]
  by_cases h : n = 0
  · subst h; rfl
  · have h' : ¬ ((n : Int) = 0) := by omega
    simp only [h', h, decide_false, if_false, Py.fmod8, Bool.false_eq_true]
    by_cases h2 : bitLength n % 8 = 0
    · have h3 : ((bitLength n % 8 : Nat) : Int) = 0 := by omega
      simp only [h3, ne_eq, not_true_eq_false, decide_false, Bool.false_eq_true, if_false, Py.fdiv8]
      congr 1; omega
    · have h3 : ¬ ((bitLength n % 8 : Nat) : Int) = 0 := by omega
      simp only [ne_eq, h3, not_false_eq_true, decide_true, if_true]
      rw [show ((bitLength n : Nat) : Int) + (8 - ((bitLength n % 8 : Nat) : Int)) = ((bitLength n + (8 - bitLength n % 8) : Nat) : Int) by omega, Py.fdiv8]
      congr 1; omega
/-! ### compiler.lowest_set_bit -/

theorem bitLength_two_pow' (k : Nat) : bitLength (2 ^ k) = k + 1 := by
  have hp : 2 ^ k ≠ 0 := Nat.ne_of_gt (Nat.two_pow_pos k)
  simp [bitLength, Nat.log2_two_pow]

/-- `n & (n-1)` clears the lowest set bit -/
theorem lowbit (n : Nat) (h : 0 < n) :
    ∃ k : Nat, n - (n &&& (n - 1)) = 2 ^ k ∧ 2 ^ k ∣ n ∧ ¬ 2 ^ (k + 1) ∣ n := by
  induction n using Nat.strongRecOn with
  | ind n ih =>
    have hd : (n &&& (n - 1)) = 2 * (n / 2 &&& (n - 1) / 2) + (n % 2 &&& (n - 1) % 2) := by
      have h1 := Nat.and_div_two (a := n) (b := n - 1)
      have h2 := Nat.and_mod_two_pow (a := n) (b := n - 1) (n := 1)
      simp only [Nat.pow_one] at h2
      omega
    by_cases hodd : n % 2 = 1
    · refine ⟨0, ?_, by simp, by simp; omega⟩
      have e1 : (n - 1) / 2 = n / 2 := by omega
      have e2 : (n - 1) % 2 = 0 := by omega
      rw [hd, e1, e2, hodd, Nat.and_self]
      simp; omega
    · have e0 : n % 2 = 0 := by omega
      have e1 : (n - 1) / 2 = n / 2 - 1 := by omega
      obtain ⟨k, hk1, hk2, hk3⟩ := ih (n / 2) (by omega) (by omega)
      refine ⟨k + 1, ?_, ?_, ?_⟩
      · rw [hd, e1, e0, Nat.zero_and, Nat.pow_succ]
        have := Nat.and_le_left (n := n / 2) (m := n / 2 - 1)
        omega
      · obtain ⟨c, hc⟩ := hk2
        refine ⟨c, ?_⟩
        have h1 : n = 2 * (n / 2) := by omega
        rw [h1, hc, Nat.pow_succ]; ac_rfl
      · intro ⟨c, hc⟩
        apply hk3
        refine ⟨c, ?_⟩
        have h1 : n = 2 * (2 ^ (k + 1) * c) := by
          rw [hc, Nat.pow_succ 2 (k + 1)]; ac_rfl
        omega

theorem compiler_lowest_set_bit_spec (n : Nat) (h : 0 < n) :
    ∃ k : Nat, compiler_lowest_set_bit (n : Int) = (k : Int) ∧ 2 ^ k ∣ n ∧ ¬ 2 ^ (k + 1) ∣ n := by
  obtain ⟨k, hk1, hk2, hk3⟩ := lowbit n h
  refine ⟨k, ?_, hk2, hk3⟩
  unfold compiler_lowest_set_bit
  obtain ⟨m, rfl⟩ : ∃ m, n = m + 1 := ⟨n - 1, by omega⟩
  have e : -(((m + 1 : Nat)) : Int) = Int.negSucc m := rfl
  rw [e]
  have hb : Py.band (((m + 1 : Nat)) : Int) (Int.negSucc m) = Int.ofNat (m + 1 - (m + 1 &&& m)) := rfl
  simp only [Nat.add_sub_cancel] at hk1
  rw [hb, hk1]
  have : Py.bitLength (Int.ofNat (2 ^ k)) = ((k + 1 : Nat) : Int) := by
    rw [← bitLength_two_pow']; exact Py.bitLength_natCast _
  simp only [this]
  have h2 : ¬ (((k + 1 : Nat) : Int) - 1 < 0) := by omega
  simp only [h2, decide_false, Bool.false_eq_true, if_false]
  omega

/-! ### per.integer_as_number_of_bits_power_of_two -/

theorem pow2_loop (fuel : Nat) (sz : Int) (bl j : Nat) (hj : j ≤ bitLength (bl - 1))
    (hf : bitLength (bl - 1) - j < fuel) :
    per_integer_as_number_of_bits_power_of_two_loop1 fuel sz (bl : Int) ((2 ^ j : Nat) : Int)
      = ((2 ^ bitLength (bl - 1) : Nat) : Int) := by
  induction fuel generalizing j with
  | zero => omega
  | succ f ih =>
    unfold per_integer_as_number_of_bits_power_of_two_loop1
    by_cases hc : bl > 2 ^ j
    · have hc' : (bl : Int) > ((2 ^ j : Nat) : Int) := by omega
      have hlt : j < bitLength (bl - 1) := by
        apply Nat.lt_of_not_le
        rw [Ber.bitLength_le_iff]; omega
      simp only [hc', decide_true, if_true, Py.shl1]
      rw [← Nat.pow_succ, ih (j + 1) (by omega) (by omega)]
    · have hc' : ¬ (bl : Int) > ((2 ^ j : Nat) : Int) := by omega
      have hle : bitLength (bl - 1) ≤ j := by
        rw [Ber.bitLength_le_iff]
        have := Nat.two_pow_pos j
        omega
      simp only [hc', decide_false, Bool.false_eq_true, if_false]
      rw [show j = bitLength (bl - 1) by omega]

theorem bitLength_le_self' (n : Nat) : bitLength n ≤ n := by
  rw [Ber.bitLength_le_iff]; exact Nat.lt_two_pow_self

theorem per_integer_as_number_of_bits_power_of_two_eq (n : Nat) :
    per_integer_as_number_of_bits_power_of_two (n : Int) = (Per.bitsPow2 n : Int) := by
  unfold per_integer_as_number_of_bits_power_of_two Per.bitsPow2
  by_cases h : n = 0
  · subst h; rfl
  · have h' : ¬ ((n : Int) = 0) := by omega
    simp only [h', h, decide_false, Bool.false_eq_true, if_false]
    have hb : per_integer_as_number_of_bits (n : Int) = (bitLength n : Int) := by
      unfold per_integer_as_number_of_bits
      simp only [h', decide_false, Bool.false_eq_true, if_false, Py.bitLength_natCast]
    rw [hb]
    have := pow2_loop (1 + Py.fuelOfInt (n : Int) + Py.fuelOfInt (bitLength n : Int) + Py.fuelOfInt 1) (n : Int)
      (bitLength n) 0 (by omega) (by
        rw [Py.fuelOfInt_natCast, Py.fuelOfInt_natCast]
        have := bitLength_le_self' (bitLength n - 1)
        omega)
    exact this

/-! ### per.to_byte_array -/

theorem to_byte_array_loop (fuel num : Nat) (nb : Int) (acc : List Nat) (hf : nb.toNat < fuel) :
    (per_to_byte_array_loop1 fuel (num : Int) nb (ofNats acc)).1
      = ofNats (natToBytesN ((nb.toNat + 7) / 8) num ++ acc) := by
  induction fuel generalizing num nb acc with
  | zero => omega
  | succ f ih =>
    unfold per_to_byte_array_loop1
    by_cases hc : nb > 0
    · simp only [hc, decide_true, if_true, Py.band255, Py.shr8]
      rw [← ofNats_cons, ih _ _ _ (by omega)]
      have : (nb.toNat + 7) / 8 = ((nb - 8).toNat + 7) / 8 + 1 := by omega
      rw [this, natToBytesN]
      simp
    · simp only [hc, decide_false, Bool.false_eq_true, if_false]
      have : (nb.toNat + 7) / 8 = 0 := by omega
      rw [this]; rfl

theorem per_to_byte_array_eq (num nbits : Nat) :
    per_to_byte_array (num : Int) (nbits : Int) = ofNats (natToBytesN ((nbits + 7) / 8) num) := by
  unfold per_to_byte_array
  have := to_byte_array_loop (1 + Py.fuelOfInt (num : Int) + Py.fuelOfInt (nbits : Int) + Py.fuelOfList ([] : List Int))
    num (nbits : Int) [] (by rw [Py.fuelOfInt_natCast, Py.fuelOfInt_natCast]; simp; omega)
  simp only [Int.toNat_natCast, List.append_nil] at this
  rw [← this]
  rfl

end Asn1.Bridge
