import Asn1Proofs.Lemmas.UperPrim
/-
  Repetition and fragmentation (`decRepeat`, `encChunks` / `decChunks`).
-/
set_option linter.unusedSimpArgs false
namespace Asn1.Uper

inductive All2 {α β : Type} (R : α → β → Prop) : List α → List β → Prop
  | nil : All2 R [] []
  | cons {a b l1 l2} : R a b → All2 R l1 l2 → All2 R (a :: l1) (b :: l2)

theorem lenDet_snd_eq_of_snd_lt {n : Nat} (h : (lenDet n).2 < 16384) : (lenDet n).2 = n := by
  by_cases h2 : n < 16384
  · exact lenDet_snd_of_lt h2
  · exfalso
    unfold lenDet at h
    have : ¬ n < 128 := by omega
    simp only [this, h2, if_false] at h
    repeat' split at h
    all_goals (simp only at h; omega)

/-- per-item round trip, valid whenever the item plus what follows fits in `L` bits -/
def ItemRT {α : Type} (p : Bits → DecM (α × Bits)) (L : Nat) (item : Bits) (val : α) : Prop :=
  ∀ rest : Bits, item.length + rest.length ≤ L → p (item ++ rest) = .ok (val, rest)

theorem decRepeat_flatten {α : Type} (p : Bits → DecM (α × Bits)) (L : Nat)
    (items : List Bits) (vals : List α) (h : All2 (ItemRT p L) items vals)
    (rest : Bits) (hL : items.flatten.length + rest.length ≤ L) :
    decRepeat p items.length (items.flatten ++ rest) = .ok (vals, rest) := by
  induction h with
  | nil => rfl
  | @cons item val items vals hx _ ih =>
    simp only [List.flatten_cons, List.length_append, List.length_cons] at hL ⊢
    simp only [decRepeat, bind, Except.bind, List.append_assoc]
    rw [hx (items.flatten ++ rest) (by simp only [List.length_append]; omega)]
    simp only
    rw [ih (by omega)]

theorem forall₂_take {α β : Type} {R : α → β → Prop} {l1 : List α} {l2 : List β}
    (h : All2 R l1 l2) (k : Nat) : All2 R (l1.take k) (l2.take k) := by
  induction h generalizing k with
  | nil => simp only [List.take_nil, List.drop_nil]; exact .nil
  | cons hx _ ih =>
    cases k with
    | zero => exact .nil
    | succ k => simp only [List.take_succ_cons]; exact .cons hx (ih k)

theorem forall₂_drop {α β : Type} {R : α → β → Prop} {l1 : List α} {l2 : List β}
    (h : All2 R l1 l2) (k : Nat) : All2 R (l1.drop k) (l2.drop k) := by
  induction h generalizing k with
  | nil => simp only [List.take_nil, List.drop_nil]; exact .nil
  | cons hx hr ih =>
    cases k with
    | zero => exact .cons hx hr
    | succ k => simp only [List.drop_succ_cons]; exact ih k

theorem forall₂_length {α β : Type} {R : α → β → Prop} {l1 : List α} {l2 : List β}
    (h : All2 R l1 l2) : l1.length = l2.length := by
  induction h with
  | nil => rfl
  | cons _ _ ih => simp [ih]

theorem decChunks_encChunks {α : Type} (p : Bits → DecM (α × Bits)) (L : Nat)
    (f : Nat) (items : List Bits) (vals : List α) (h : All2 (ItemRT p L) items vals)
    (hf : items.length / 16384 + 2 ≤ f)
    (rest : Bits) (hL : (encChunks f items).length + rest.length ≤ L)
    (fuel : Nat) (hfuel : (encChunks f items).length < fuel) :
    decChunks p fuel (encChunks f items ++ rest) = .ok (vals, rest) := by
  induction f generalizing items vals fuel with
  | zero => omega
  | succ f ih =>
    cases fuel with
    | zero => omega
    | succ fuel =>
      have hk := lenDet_snd_le items.length
      have hh := lenDet_length_ge items.length
      have htake : ((items.take (lenDet items.length).2)).length = (lenDet items.length).2 := by
        rw [List.length_take]; omega
      unfold encChunks at hL hfuel ⊢
      simp only at hL hfuel ⊢
      split
      · rename_i hlt
        simp only [hlt, if_true, List.length_append] at hL hfuel
        have hall : (lenDet items.length).2 = items.length := lenDet_snd_eq_of_snd_lt hlt
        rw [hall] at hL hfuel ⊢
        rw [List.take_length] at hL hfuel ⊢
        simp only [decChunks, bind, Except.bind, List.append_assoc]
        rw [readLenDet_lenDet, hall]
        simp only
        rw [decRepeat_flatten p L items vals h rest (by omega)]
        have : items.length < 16384 := by omega
        simp [this]
      · rename_i hge
        simp only [hge, if_false, List.length_append] at hL hfuel
        simp only [decChunks, bind, Except.bind, List.append_assoc]
        rw [readLenDet_lenDet]
        simp only
        have hrep := decRepeat_flatten p L _ _ (forall₂_take h (lenDet items.length).2)
          (encChunks f (items.drop (lenDet items.length).2) ++ rest)
          (by simp only [List.length_append]; omega)
        rw [htake] at hrep
        rw [hrep]
        simp only [hge, if_false]
        rw [ih _ _ (forall₂_drop h _) (by rw [List.length_drop]; omega) (by omega) _ (by omega)]
        simp

end Asn1.Uper
