import Asn1Proofs.Lemmas.OerComp
/-
  SEQUENCE of the OER model: preamble, root members, extension additions.
-/
set_option linter.unusedSimpArgs false
namespace Asn1.Oer
open Asn1.Uper (Err)

/-! ### unfolding lemmas -/

def encHere (p : Presence) (t : Ty) (ov : Option Val) (encDefault : Bool) : EncM Bytes :=
  match ov with
  | some v =>
    match p with
    | .default d => if !(isDefault t v d) || encDefault then enc t v else .ok []
    | _ => enc t v
  | none =>
    match p with
    | .mandatory => .error .encodeError
    | _ => .ok []

theorem encMembers_cons (name : String) (p : Presence) (t : Ty) (rest : Members)
    (fs : List (String × Val)) (b : Bool) :
    encMembers (.cons name p t rest) fs b =
      (match encHere p t (lookup name fs) b, encMembers rest fs b with
       | .ok a, .ok b => .ok (a ++ b)
       | .error e, _ => .error e
       | _, .error e => .error e) := by
  cases p <;> rfl

theorem encPreamble_cons (name : String) (p : Presence) (t : Ty) (rest : Members)
    (fs : List (String × Val)) :
    encPreamble (.cons name p t rest) fs =
      (match encPreamble rest fs with
       | .error e => .error e
       | .ok r =>
         match p with
         | .mandatory => .ok r
         | .optional => .ok ((lookup name fs).isSome :: r)
         | .default d =>
           match lookup name fs with
           | some v => .ok ((!(isDefault t v d)) :: r)
           | none => .ok (false :: r)) := by
  cases p <;> rfl

theorem encPreamble_ok (fs : List (String × Val)) (ms : Members) :
    ∃ pre, encPreamble ms fs = .ok pre := by
  induction ms using Members.ind with
  | nil => exact ⟨[], rfl⟩
  | cons name p t rest ih =>
    obtain ⟨r, hr⟩ := ih
    rw [encPreamble_cons, hr]
    cases p with
    | mandatory => exact ⟨_, rfl⟩
    | optional => exact ⟨_, rfl⟩
    | default d => cases lookup name fs <;> exact ⟨_, rfl⟩

/-- decode a present member then the remaining ones -/
def decHere (name : String) (t : Ty) (rest : Members) (fl : Bits) (bs : Bytes) :
    DecM (List (String × Val) × Bytes) := do
  let (v, r) ← dec t bs
  let (fs, r') ← decMembers rest fl r
  .ok ((name, v) :: fs, r')

theorem decMembers_mandatory (name : String) (t : Ty) (rest : Members) (fl : Bits) (bs : Bytes) :
    decMembers (.cons name .mandatory t rest) fl bs = decHere name t rest fl bs := rfl

theorem decMembers_optional_true (name : String) (t : Ty) (rest : Members) (fl : Bits) (bs : Bytes) :
    decMembers (.cons name .optional t rest) (true :: fl) bs = decHere name t rest fl bs := rfl

theorem decMembers_optional_false (name : String) (t : Ty) (rest : Members) (fl : Bits) (bs : Bytes) :
    decMembers (.cons name .optional t rest) (false :: fl) bs = decMembers rest fl bs := rfl

theorem decMembers_default_true (name : String) (d : Val) (t : Ty) (rest : Members)
    (fl : Bits) (bs : Bytes) :
    decMembers (.cons name (.default d) t rest) (true :: fl) bs = decHere name t rest fl bs := rfl

theorem decMembers_default_false (name : String) (d : Val) (t : Ty) (rest : Members)
    (fl : Bits) (bs : Bytes) :
    decMembers (.cons name (.default d) t rest) (false :: fl) bs =
      (do let (fs, r') ← decMembers rest fl bs; .ok ((name, d) :: fs, r')) := rfl

theorem optionalCount_cons (name : String) (p : Presence) (t : Ty) (rest : Members) :
    optionalCount (.cons name p t rest) =
      (match p with | .mandatory => optionalCount rest | _ => optionalCount rest + 1) := by
  cases p <;> rfl

theorem canonMembers_cons (name : String) (p : Presence) (t : Ty) (rest : Members)
    (fs : List (String × Val)) (b : Bool) :
    canonMembers (.cons name p t rest) fs b =
      (match lookup name fs with
       | some v => (name, canon t v) :: canonMembers rest fs b
       | none =>
         match p with
         | .default d => if b then (name, d) :: canonMembers rest fs b else canonMembers rest fs b
         | _ => canonMembers rest fs b) := by
  cases p <;> rfl

/-- a present member followed by the remaining ones -/
theorem decHere_ok {name : String} {t : Ty} {rest : Members} {fl : Bits} {a b tail : Bytes}
    {w : Val} {fs' : List (String × Val)}
    (h1 : dec t (a ++ (b ++ tail)) = .ok (w, b ++ tail))
    (h2 : decMembers rest fl (b ++ tail) = .ok (fs', tail)) :
    decHere name t rest fl ((a ++ b) ++ tail) = .ok ((name, w) :: fs', tail) := by
  unfold decHere
  simp only [bind, Except.bind, List.append_assoc]
  rw [h1]
  simp only
  rw [h2]

/-! ### root members -/

theorem rt_members (fs : List (String × Val)) (ms : Members) :
    ms.AllO RT → ms.wf = true → oerWfMembers ms = true → ms.defaultsOk = true →
    membersOk ms fs = true → utf8OkMembers ms fs = true → noSwallowMembers ms fs false = true →
    ∀ (pre : Bits) (body rest : Bytes),
      encPreamble ms fs = .ok pre → encMembers ms fs false = .ok body →
      pre.length = optionalCount ms ∧
      decMembers ms pre (body ++ rest) = .ok (canonMembers ms fs true, rest) := by
  induction ms using Members.ind with
  | nil =>
    intro _ _ _ _ _ _ _ pre body rest hp hb
    simp only [encPreamble, encMembers] at hp hb
    cases hp; cases hb
    exact ⟨rfl, rfl⟩
  | cons name p t ms ih =>
    intro hall hwf hwf2 hd hok hu hns pre body rest hp hb
    obtain ⟨hrt, hall'⟩ := hall
    simp only [Members.wf, Bool.and_eq_true] at hwf
    simp only [oerWfMembers, Bool.and_eq_true] at hwf2
    simp only [Members.defaultsOk, Bool.and_eq_true] at hd
    simp only [membersOk, Bool.and_eq_true] at hok
    simp only [utf8OkMembers, Bool.and_eq_true] at hu
    simp only [noSwallowMembers, Bool.and_eq_true] at hns
    have ih' := ih hall' hwf.2 hwf2.2 hd.2 hok.2 hu.2 hns.2
    rw [encPreamble_cons] at hp
    rw [encMembers_cons] at hb
    rw [optionalCount_cons, canonMembers_cons]
    -- split the encodings
    cases hpr : encPreamble ms fs with
    | error e => rw [hpr] at hp; cases hp
    | ok r =>
    rw [hpr] at hp
    simp only at hp
    cases hbr : encMembers ms fs false with
    | error e =>
      rw [hbr] at hb
      cases hh : encHere p t (lookup name fs) false <;> rw [hh] at hb <;> cases hb
    | ok b =>
    rw [hbr] at hb
    cases hh : encHere p t (lookup name fs) false with
    | error e => rw [hh] at hb; cases hb
    | ok a =>
    rw [hh] at hb
    simp only [Except.ok.injEq] at hb
    subst hb
    obtain ⟨hlen, hdec⟩ := ih' r b rest hpr hbr
    -- the member itself
    cases hl : lookup name fs with
    | some v =>
      simp only [hl] at hok hu hns hh hp ⊢
      have hrt' : ∀ a', enc t v = .ok a' →
          dec t (a' ++ (b ++ rest)) = .ok (canon t v, b ++ rest) := fun a' ha =>
        hrt v a' (b ++ rest) hwf.1 hwf2.1 hd.1.2 hok.1 hu.1 (by simpa using hns.1) ha
      cases p with
      | mandatory =>
        simp only [encHere] at hh
        simp only [Except.ok.injEq] at hp
        subst hp
        rw [decMembers_mandatory]
        exact ⟨hlen, decHere_ok (hrt' a hh) hdec⟩
      | optional =>
        simp only [encHere] at hh
        simp only [Option.isSome_some, Except.ok.injEq] at hp
        subst hp
        rw [decMembers_optional_true]
        exact ⟨by simp [hlen], decHere_ok (hrt' a hh) hdec⟩
      | default d =>
        simp only [encHere, Bool.or_false] at hh
        simp only [Except.ok.injEq] at hp
        subst hp
        cases hdef : isDefault t v d with
        | true =>
          simp only [hdef, Bool.not_true, Bool.false_eq_true, if_false, Except.ok.injEq] at hh
          subst hh
          simp only [Bool.not_true]
          rw [decMembers_default_false]
          simp only [bind, Except.bind, List.nil_append]
          rw [hdec]
          have hdd := hd.1.1
          simp only [Bool.and_eq_true] at hdd
          have hc := canon_of_isDefault_oer t v d hdd.2 hdef
          rw [hc]
          exact ⟨by simp [hlen], rfl⟩
        | false =>
          simp only [hdef, Bool.not_false, if_true] at hh
          simp only [Bool.not_false]
          rw [decMembers_default_true]
          exact ⟨by simp [hlen], decHere_ok (hrt' a hh) hdec⟩
    | none =>
      simp only [hl] at hok hh hp ⊢
      cases p with
      | mandatory => simp at hok
      | optional =>
        simp only [encHere, Except.ok.injEq] at hh
        subst hh
        simp only [Option.isSome_none, Except.ok.injEq] at hp
        subst hp
        rw [decMembers_optional_false]
        exact ⟨by simp [hlen], by simpa using hdec⟩
      | default d =>
        simp only [encHere, Except.ok.injEq] at hh
        subst hh
        simp only [Except.ok.injEq] at hp
        subst hp
        rw [decMembers_default_false]
        simp only [bind, Except.bind, List.nil_append]
        rw [hdec]
        exact ⟨by simp [hlen], rfl⟩

theorem et_members (fs : List (String × Val)) (b : Bool) (ms : Members) :
    ms.AllO ET → ms.wf = true → membersOk ms fs = true →
    (∃ body, encMembers ms fs b = .ok body) ∨ encMembers ms fs b = .error .encodeError := by
  induction ms using Members.ind with
  | nil => intro _ _ _; exact Or.inl ⟨[], rfl⟩
  | cons name p t ms ih =>
    intro hall hwf hok
    simp only [Members.wf, Bool.and_eq_true] at hwf
    simp only [membersOk, Bool.and_eq_true] at hok
    rw [encMembers_cons]
    have hhere : (∃ a, encHere p t (lookup name fs) b = .ok a) ∨
        encHere p t (lookup name fs) b = .error .encodeError := by
      cases hl : lookup name fs with
      | some v =>
        simp only [hl] at hok
        have := hall.1 v hwf.1 hok.1
        cases p with
        | mandatory => exact this
        | optional => exact this
        | default d =>
          simp only [encHere]
          split
          · exact this
          · exact Or.inl ⟨_, rfl⟩
      | none =>
        cases p with
        | mandatory => exact Or.inr rfl
        | optional => exact Or.inl ⟨_, rfl⟩
        | default d => exact Or.inl ⟨_, rfl⟩
    rcases hhere with ⟨a, ha⟩ | ha <;> rw [ha]
    · rcases ih hall.2 hwf.2 hok.2 with ⟨r, hr⟩ | hr <;> rw [hr]
      · exact Or.inl ⟨_, rfl⟩
      · exact Or.inr rfl
    · exact Or.inr rfl

end Asn1.Oer
