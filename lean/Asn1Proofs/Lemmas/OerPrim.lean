import Asn1Model.OerTyping
import Asn1Proofs.Lemmas.OerBits
import Asn1Proofs.Lemmas.UperUtf8
/-
  Primitive round-trip lemmas of the OER model: readers, length determinant, integers,
  tags, enumerations, strings, repetition.
-/
namespace Asn1.Oer
open Asn1.Uper (Err utf8Enc utf8Dec alphabetOf)

/-! ### readers -/

theorem splitAux_append (a b acc : Bytes) :
    splitAux a.length (a ++ b) acc = some (acc.reverse ++ a, b) := by
  induction a generalizing acc with
  | nil => simp [splitAux]
  | cons x r ih =>
    simp only [List.length_cons, List.cons_append, splitAux]
    rw [ih]; simp

theorem readBytes_append {n : Nat} (a b : Bytes) (h : a.length = n) :
    readBytes n (a ++ b) = .ok (a, b) := by
  subst h; unfold readBytes; rw [splitAux_append]; simp

theorem readBytes_zero (b : Bytes) : readBytes 0 b = .ok ([], b) := rfl

theorem readByte_cons (b : Nat) (r : Bytes) : readByte (b :: r) = .ok (b, r) := rfl

/-! ### length determinant -/

theorem lenDet_def (n : Nat) : lenDet n =
    if n < 128 then .ok [n]
    else if (natToBytesMin n).length > 127 then .error .encodeError
    else .ok ((0x80 + (natToBytesMin n).length) :: natToBytesMin n) := rfl

theorem lenDet_ne_nil {n : Nat} {l : Bytes} (h : lenDet n = .ok l) : l ≠ [] := by
  rw [lenDet_def] at h
  split at h
  · cases h; simp
  · split at h
    · cases h
    · cases h; simp

theorem readLenDet_lenDet {n : Nat} {l : Bytes} (h : lenDet n = .ok l) (rest : Bytes) :
    readLenDet (l ++ rest) = .ok (n, rest) := by
  rw [lenDet_def] at h
  split at h
  · rename_i hn
    cases h
    simp only [readLenDet, bind, Except.bind, List.cons_append, List.nil_append, readByte_cons, hn,
      if_true]
  · rename_i hn
    split at h
    · cases h
    · rename_i hl
      cases h
      simp only [readLenDet, bind, Except.bind, List.cons_append, readByte_cons]
      have h1 : ¬ (0x80 + (natToBytesMin n).length < 128) := by omega
      rw [if_neg h1]
      rw [readBytes_append _ _ (by omega)]
      simp only [bytesToNat_natToBytesMin]

/-! ### integers -/

theorem decSigned_encSigned {i : Int} {bs : Bytes} (h : encSigned i = .ok bs) (rest : Bytes) :
    decSigned (bs ++ rest) = .ok (i, rest) := by
  unfold encSigned at h
  simp only [bind, Except.bind] at h
  split at h
  · cases h
  · rename_i l hl
    cases h
    simp only [decSigned, bind, Except.bind, List.append_assoc]
    rw [readLenDet_lenDet hl]
    simp only
    rw [readBytes_append _ _ (intToBytesN_length _ _)]
    simp only
    have := intByteLength_pos_oer i
    rw [if_neg (by omega), bytesToInt_intToBytesMin]

theorem encSigned_ne_nil {i : Int} {bs : Bytes} (h : encSigned i = .ok bs) : bs ≠ [] := by
  unfold encSigned at h
  simp only [bind, Except.bind] at h
  split at h
  · cases h
  · rename_i l hl
    cases h
    have := lenDet_ne_nil hl
    simp [this]

theorem decUnsigned_encUnsigned {n : Nat} {bs : Bytes} (h : encUnsigned n = .ok bs) (rest : Bytes) :
    decUnsigned (bs ++ rest) = .ok (n, rest) := by
  unfold encUnsigned at h
  simp only [bind, Except.bind] at h
  split at h
  · cases h
  · rename_i l hl
    cases h
    simp only [decUnsigned, bind, Except.bind, List.append_assoc]
    rw [readLenDet_lenDet hl]
    simp only
    rw [readBytes_append _ _ (natToBytesN_length _ _)]
    simp only
    rw [bytesToNat_natToBytesN_of_lt]
    rw [pow256_oer]
    exact Nat.lt_of_lt_of_le (lt_two_pow_bitLength_oer n) (Nat.pow_le_pow_right (by omega) (by omega))

/-! ### enumerations -/

theorem enumName_of_enumValue (name : String) (v : Int) (l : List (String × Int))
    (hnd : (l.map (·.2)).Nodup) (h : enumValue name l = some v) : enumName v l = some name := by
  induction l with
  | nil => simp [enumValue] at h
  | cons x r ih =>
    obtain ⟨n, w⟩ := x
    simp only [List.map_cons, List.nodup_cons] at hnd
    unfold enumValue at h
    unfold enumName
    split at h
    · rename_i hn
      cases h
      simp only [beq_iff_eq] at hn
      simp [hn]
    · have hr := ih hnd.2 h
      have hmem : v ∈ r.map (·.2) := by
        clear ih hnd hr
        induction r with
        | nil => simp [enumValue] at h
        | cons y s ih2 =>
          obtain ⟨n', w'⟩ := y
          unfold enumValue at h
          split at h
          · cases h; simp
          · simp only [List.map_cons, List.mem_cons]; exact Or.inr (ih2 h)
      have : ¬ w = v := fun e => hnd.1 (e ▸ hmem)
      rw [if_neg this]; exact hr

theorem enumValue_of_mem (name : String) (l : List (String × Int)) (h : name ∈ namesOf l) :
    ∃ v, enumValue name l = some v := by
  induction l with
  | nil => simp [namesOf] at h
  | cons x r ih =>
    obtain ⟨n, w⟩ := x
    unfold enumValue
    by_cases hn : n = name
    · exact ⟨w, by simp [hn]⟩
    · simp only [namesOf, List.map_cons, List.mem_cons] at h
      rcases h with h | h
      · exact absurd h.symm hn
      · obtain ⟨v, hv⟩ := ih h
        exact ⟨v, by simp [hn, hv]⟩

/-! ### strings -/

set_option maxRecDepth 10000 in
theorem ia5_lt : ∀ c ∈ Extracted.ia5Alphabet, c < 128 := by decide
set_option maxRecDepth 10000 in
theorem visible_lt : ∀ c ∈ Extracted.visibleAlphabet, c < 128 := by decide
set_option maxRecDepth 10000 in
theorem printable_lt : ∀ c ∈ Extracted.printableAlphabet, c < 128 := by decide
set_option maxRecDepth 10000 in
theorem numeric_lt : ∀ c ∈ Extracted.numericAlphabet, c < 128 := by decide

theorem alphabet_lt (k : StrKind) : ∀ c ∈ alphabetOf k, c < 128 := by
  cases k
  · exact ia5_lt
  · exact visible_lt
  · exact numeric_lt
  · exact printable_lt
  · intro c hc; simp [alphabetOf] at hc

/-! ### repetition -/

theorem mapM_nil' {α β : Type} (f : α → EncM β) : ([] : List α).mapM f = .ok [] := by
  simp [pure, Except.pure]

theorem mapM_cons' {α β : Type} (f : α → EncM β) (a : α) (l : List α) :
    (a :: l).mapM f = match f a with
      | .error e => .error e
      | .ok b => match l.mapM f with
        | .error e => .error e
        | .ok bs => .ok (b :: bs) := by
  rw [List.mapM_cons]
  simp only [bind, Except.bind, pure, Except.pure]
  cases f a with
  | error e => rfl
  | ok b => cases l.mapM f <;> rfl

/-- decoding a concatenation of item encodings -/
theorem decRepeat_mapM {α : Type} (f : α → EncM Bytes) (g : α → Val) (p : Bytes → DecM (Val × Bytes))
    (vs : List α) (items : List Bytes) (rest : Bytes)
    (hp : ∀ v ∈ vs, ∀ bs r, f v = .ok bs → p (bs ++ r) = .ok (g v, r))
    (h : vs.mapM f = .ok items) :
    decRepeat p vs.length (items.flatten ++ rest) = .ok (vs.map g, rest) := by
  induction vs generalizing items with
  | nil =>
    rw [mapM_nil'] at h; cases h
    rfl
  | cons v vs ih =>
    rw [mapM_cons'] at h
    split at h
    · cases h
    · rename_i b hb
      split at h
      · cases h
      · rename_i bs hbs
        cases h
        simp only [List.length_cons, decRepeat, bind, Except.bind, List.flatten_cons,
          List.append_assoc, List.map_cons]
        rw [hp v (by simp) b _ hb]
        simp only
        rw [ih bs (fun x hx => hp x (by simp [hx])) hbs]

end Asn1.Oer
