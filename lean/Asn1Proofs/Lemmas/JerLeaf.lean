import Asn1Model.Jer
import Asn1Proofs.Lemmas.OerPrim
import Asn1Proofs.Lemmas.UperMembers
import Asn1Proofs.Lemmas.JsonRoundtrip
/-
  JER model: lemmas on names, hex strings, `dict` look-ups and the leaf types.
-/
namespace Asn1.Jer
open Asn1.Uper (Err)
open Asn1.Json (isScalar wfV wfList wfMembers hexNat)

/-! ### identifiers -/

theorem strCps_inj {a b : String} (h : strCps a = strCps b) : a = b := by
  unfold strCps at h
  exact String.ext ((List.map_inj_right (fun x y hxy => Char.toNat_inj.mp hxy)).mp h)

theorem strCps_beq (a b : String) : (strCps a == strCps b) = (a == b) := by
  by_cases h : a = b
  · subst h; simp
  · have : strCps a ≠ strCps b := fun e => h (strCps_inj e)
    have h1 : (a == b) = false := beq_eq_false_iff_ne.mpr h
    have h2 : (strCps a == strCps b) = false := beq_eq_false_iff_ne.mpr this
    rw [h1, h2]

theorem strCps_scalar (s : String) : (strCps s).all isScalar = true := by
  simp only [strCps, List.all_map, List.all_eq_true]
  intro c _
  have hv := c.valid
  show isScalar c.toNat = true
  simp only [isScalar, Char.toNat, Bool.and_eq_true, decide_eq_true_eq, Bool.not_eq_true',
    Bool.and_eq_false_iff, decide_eq_false_iff_not]
  unfold UInt32.isValidChar Nat.isValidChar at hv
  omega

theorem findName_of_mem (n : String) (names : List String) (h : n ∈ names) :
    findName (strCps n) names = some n := by
  induction names with
  | nil => simp at h
  | cons m r ih =>
    unfold findName
    rw [strCps_beq]
    by_cases hm : m = n
    · subst hm; simp
    · have : (m == n) = false := by simpa using hm
      rw [this]
      simp only [Bool.false_eq_true, if_false]
      simp only [List.mem_cons] at h
      rcases h with h | h
      · exact absurd h.symm hm
      · exact ih h

/-! ### hex strings -/

theorem hexNat_hexDigitU (d : Nat) (h : d < 16) : hexNat (hexDigitU d) = some d := by
  unfold hexDigitU hexNat
  by_cases h10 : d < 10
  · rw [if_pos h10, if_pos (by omega)]; congr 1; omega
  · rw [if_neg h10, if_neg (by omega), if_neg (by omega), if_pos (by omega)]; congr 1; omega

theorem hexDigitU_lt (d : Nat) (h : d < 16) : hexDigitU d < 128 := by
  unfold hexDigitU; split <;> omega

theorem unhex_hexUpper (bs : Bytes) (h : allBytes bs = true) : unhex (hexUpper bs) = some bs := by
  induction bs with
  | nil => rfl
  | cons b r ih =>
    simp only [allBytes, List.all_cons, Bool.and_eq_true, decide_eq_true_eq] at h
    have hr : allBytes r = true := by unfold allBytes; exact h.2
    simp only [hexUpper, List.flatMap_cons, List.cons_append, List.nil_append] at ih ⊢
    rw [unhex, hexNat_hexDigitU _ (Nat.mod_lt _ (by decide)), hexNat_hexDigitU _ (Nat.mod_lt _ (by decide))]
    have ih' := ih hr
    rw [ih']
    simp only [Option.some.injEq, List.cons.injEq, and_true]
    omega

theorem hexUpper_scalar (bs : Bytes) : (hexUpper bs).all isScalar = true := by
  simp only [hexUpper, List.all_flatMap, List.all_eq_true]
  intro b _ x hx
  have h1 := hexDigitU_lt (b / 16 % 16) (Nat.mod_lt _ (by decide))
  have h2 := hexDigitU_lt (b % 16) (Nat.mod_lt _ (by decide))
  simp only [List.mem_cons, List.not_mem_nil, or_false] at hx
  simp only [isScalar, Bool.and_eq_true, decide_eq_true_eq,
    Bool.not_eq_true', Bool.and_eq_false_iff, decide_eq_false_iff_not]
  rcases hx with hx | hx <;> subst hx <;> omega

/-! ### `dict` look-ups -/

theorem dictGet_append (k : List Nat) (a b : List (List Nat × JsonV)) :
    dictGet k (a ++ b) = match dictGet k b with
      | some w => some w
      | none => dictGet k a := by
  induction a with
  | nil => simp only [List.nil_append, dictGet]; cases dictGet k b <;> rfl
  | cons x r ih =>
    obtain ⟨k', v⟩ := x
    rw [List.cons_append, dictGet, ih]
    cases hb : dictGet k b with
    | some w => rfl
    | none => simp only [dictGet]

theorem dictGet_cons (k k' : List Nat) (v : JsonV) (r : List (List Nat × JsonV)) :
    dictGet k ((k', v) :: r) = match dictGet k r with
      | some w => some w
      | none => if k' == k then some v else none := rfl

end Asn1.Jer
