import Asn1Model.Per
import Asn1Proofs.Lemmas.UperSeq
/-
  Primitive lemmas for the ALIGNED PER round-trip proof: alignment, the position-tracking readers,
  length determinants, whole numbers, constrained whole numbers, size prefixes.

  Convention: the encoder ran at position `pos`, the decoder runs at position `pos'` with
  `pos' % 8 = pos % 8` (they differ inside open types, where the encoder starts a fresh buffer).
-/
set_option linter.unusedSimpArgs false
namespace Asn1.Per
open Asn1.Uper (lenDet encUnconstrained encNsnnwn encNsLength)

/-! ### alignment -/

theorem padLen_congr {p q : Nat} (h : p % 8 = q % 8) : padLen p = padLen q := by
  unfold padLen; rw [h]

@[simp] theorem alignBits_length (p : Nat) : (alignBits p).length = padLen p := by
  unfold alignBits; simp

theorem padLen_lt (p : Nat) : padLen p < 8 := by unfold padLen; omega

theorem add_padLen_mod (p : Nat) : (p + padLen p) % 8 = 0 := by unfold padLen; omega

theorem padLen_of_aligned {p : Nat} (h : p % 8 = 0) : padLen p = 0 := by unfold padLen; omega

theorem alignBits_of_aligned {p : Nat} (h : p % 8 = 0) : alignBits p = [] := by
  unfold alignBits; rw [padLen_of_aligned h]; rfl

/-- the decoder's `align` removes exactly the padding the encoder wrote -/
theorem align_alignBits (pos pos' : Nat) (bs : Bits) (h : pos' % 8 = pos % 8) :
    align ⟨pos', alignBits pos ++ bs⟩ = ⟨pos' + padLen pos, bs⟩ := by
  unfold align
  simp only [padLen_congr h]
  rw [List.drop_left' (alignBits_length pos)]

theorem align_of_aligned (pos : Nat) (bs : Bits) (h : pos % 8 = 0) :
    align ⟨pos, bs⟩ = ⟨pos, bs⟩ := by
  unfold align
  simp only [padLen_of_aligned h, Nat.add_zero, List.drop_zero]

theorem St.eq_of_pos {a a' : Nat} (b : Bits) (h : a = a') : (⟨a, b⟩ : St) = ⟨a', b⟩ := by rw [h]

/-! ### readers -/

theorem readBits_append {n : Nat} (pos : Nat) (a b : Bits) (h : a.length = n) :
    readBits n ⟨pos, a ++ b⟩ = .ok (a, ⟨pos + n, b⟩) := by
  unfold readBits; simp only [Uper.splitExact_append a b h]

theorem readBits_zero (s : St) : readBits 0 s = .ok ([], ⟨s.pos, s.bs⟩) := rfl

theorem readNat_append {n : Nat} (pos : Nat) (a b : Bits) (h : a.length = n) :
    readNat n ⟨pos, a ++ b⟩ = .ok (bitsToNat a, ⟨pos + n, b⟩) := by
  unfold readNat; simp only [Uper.splitExact_append a b h]

theorem readNat_natToBits {w n : Nat} (pos : Nat) (rest : Bits) (h : n < 2 ^ w) :
    readNat w ⟨pos, natToBits w n ++ rest⟩ = .ok (n, ⟨pos + w, rest⟩) := by
  rw [readNat_append _ _ _ (natToBits_length w n), bitsToNat_natToBits_of_lt h]

theorem readBit_cons (pos : Nat) (b : Bool) (r : Bits) :
    readBit ⟨pos, b :: r⟩ = .ok (b, ⟨pos + 1, r⟩) := rfl

/-! ### length determinant -/

theorem lenDet_length_mod (n : Nat) : (lenDet n).1.length % 8 = 0 := by
  unfold lenDet; repeat' split
  all_goals simp

theorem readLenDet_lenDet (pos n : Nat) (rest : Bits) :
    readLenDet ⟨pos, (lenDet n).1 ++ rest⟩ =
      .ok ((lenDet n).2, ⟨pos + (lenDet n).1.length, rest⟩) := by
  unfold lenDet
  split
  · rename_i h
    simp only [readLenDet, bind, Except.bind]
    rw [readNat_natToBits _ rest (by omega)]
    simp [h]
  split
  · rename_i h1 h
    have hs : natToBits 16 (0x8000 + n) = natToBits 8 (128 + n / 256) ++ natToBits 8 (n % 256) := by
      rw [natToBits_add 8 8, ← natToBits_mod 8 (0x8000 + n)]
      congr 2 <;> omega
    simp only [readLenDet, bind, Except.bind]
    rw [hs, List.append_assoc, readNat_natToBits _ _ (by omega)]
    have h2 : ¬ (128 + n / 256 < 128) := by omega
    have h3 : 128 + n / 256 < 192 := by omega
    simp only [h2, h3, if_true, if_false]
    rw [readNat_natToBits _ _ (by omega)]
    simp only [Except.ok.injEq, Prod.mk.injEq, List.length_append, natToBits_length]
    exact ⟨by omega, trivial⟩
  have key : ∀ v k, 192 < v → v < 256 →
      (if v = 0xc1 then (.ok (16384, ⟨pos + 8, rest⟩) : Uper.DecM (Nat × St))
       else if v = 0xc2 then .ok (32768, ⟨pos + 8, rest⟩)
       else if v = 0xc3 then .ok (49152, ⟨pos + 8, rest⟩)
       else if v = 0xc4 then .ok (65536, ⟨pos + 8, rest⟩)
       else .error .decodeError) = .ok (k, ⟨pos + 8, rest⟩) →
      readLenDet ⟨pos, natToBits 8 v ++ rest⟩ = .ok (k, ⟨pos + (natToBits 8 v).length, rest⟩) := by
    intro v k h1 h2 h3
    simp only [readLenDet, bind, Except.bind]
    rw [readNat_natToBits _ rest (by omega)]
    have h4 : ¬ v < 128 := by omega
    have h5 : ¬ v < 192 := by omega
    simp only [h4, h5, if_false, natToBits_length]
    exact h3
  repeat' split
  all_goals exact key _ _ (by omega) (by omega) (by simp)

/-! ### whole numbers -/

theorem decUnconstrained_enc (pos : Nat) (i : Int) (rest : Bits) (h : intByteLength i < 16384) :
    decUnconstrained ⟨pos, encUnconstrained i ++ rest⟩ =
      .ok (i, ⟨pos + (encUnconstrained i).length, rest⟩) := by
  have hb := intByteLength_bounds i
  have hpos := intByteLength_pos i
  unfold encUnconstrained
  generalize hk : intByteLength i = k at *
  simp only [intToBytesN]
  rw [bytesToBits_natToBytesN]
  have hQ : (2 : Nat) ^ (8 * k) = 2 * 2 ^ (8 * k - 1) := by
    have : 8 * k = (8 * k - 1) + 1 := by omega
    rw [this, Nat.pow_succ]; simp; omega
  generalize hq : (2 : Nat) ^ (8 * k - 1) = Q at *
  have hm : ((i % ((256 ^ k : Nat) : Int)).toNat : Int) = if 0 ≤ i then i else i + 2 * Q := by
    rw [pow256, hQ]
    split
    · rename_i h0
      rw [Int.emod_eq_of_lt h0 (by omega)]; omega
    · rename_i h0
      have : i % ((2 * Q : Nat) : Int) = i + 2 * Q := by
        rw [← Int.add_emod_right, Int.emod_eq_of_lt (by omega) (by omega)]; simp
      rw [this]; omega
  generalize (i % ((256 ^ k : Nat) : Int)).toNat = m at *
  have hmlt : m < 2 ^ (8 * k) := by rw [hQ]; split at hm <;> omega
  simp only [decUnconstrained, bind, Except.bind, List.append_assoc]
  rw [readLenDet_lenDet, Uper.lenDet_snd_of_lt h]
  simp only
  rw [readBits_append _ _ _ (natToBits_length _ _)]
  simp only
  have hk0 : ¬ k = 0 := by omega
  simp only [hk0, if_false, bitsToNat_natToBits_of_lt hmlt, hq, List.length_append,
    natToBits_length, Nat.add_assoc]
  split at hm
  · have : ¬ m ≥ Q := by omega
    simp only [this, if_false]
    congr 2
  · have : m ≥ Q := by omega
    simp only [this, if_true, hQ]
    congr 2
    omega

/-- hypothesis under which the normally-small number's length determinant is not fragmented -/
theorem decNsnnwn_enc (pos v : Nat) (rest : Bits) (h : (bitLength v + 7) / 8 < 16384) :
    decNsnnwn ⟨pos, encNsnnwn v ++ rest⟩ = .ok (v, ⟨pos + (encNsnnwn v).length, rest⟩) := by
  unfold encNsnnwn
  split
  · rename_i hv
    rw [natToBits_succ_of_lt (w := 6) (by omega)]
    simp only [decNsnnwn, bind, Except.bind, List.cons_append, readBit_cons]
    simp only [Bool.not_false, if_true]
    rw [readNat_natToBits _ rest (by omega)]
    simp only [List.length_cons, natToBits_length]
  · simp only [decNsnnwn, bind, Except.bind, List.cons_append, List.nil_append, readBit_cons,
      List.append_assoc]
    simp only [Bool.not_true, Bool.false_eq_true, if_false]
    rw [readLenDet_lenDet, Uper.lenDet_snd_of_lt h]
    simp only
    rw [readNat_natToBits]
    · simp only [List.length_cons, List.length_append, natToBits_length, Except.ok.injEq,
        Prod.mk.injEq, true_and]
      exact St.eq_of_pos _ (by omega)
    · have := lt_two_pow_bitLength v
      exact Nat.lt_of_lt_of_le this (Nat.pow_le_pow_right (by omega) (by omega))

theorem decNsLength_enc {n : Nat} (pos : Nat) (rest : Bits) (h1 : 1 ≤ n) (h : n ≤ 64) :
    decNsLength ⟨pos, natToBits 7 (n - 1) ++ rest⟩ = .ok (n, ⟨pos + 7, rest⟩) := by
  rw [natToBits_succ_of_lt (w := 6) (by omega)]
  simp only [decNsLength, bind, Except.bind, List.cons_append, readBit_cons]
  simp only [Bool.not_false, if_true]
  rw [readNat_natToBits _ rest (by omega)]
  simp only [Except.ok.injEq, Prod.mk.injEq]
  exact ⟨by omega, trivial⟩

/-! ### constrained whole numbers -/

theorem decCwn_encCwn (pos pos' v range nbits : Nat) (rest : Bits) (hp : pos' % 8 = pos % 8)
    (h1 : v < range) (h2 : v < 2 ^ nbits) :
    decCwn range nbits ⟨pos', encCwn pos v range nbits ++ rest⟩ =
      .ok (v, ⟨pos' + (encCwn pos v range nbits).length, rest⟩) := by
  unfold decCwn encCwn
  split
  · rw [readNat_natToBits _ _ h2]; simp only [natToBits_length]
  split
  · rw [List.append_assoc, align_alignBits _ _ _ hp, readNat_natToBits _ _ (by omega)]
    simp only [List.length_append, alignBits_length, natToBits_length, Nat.add_assoc]
  split
  · rw [List.append_assoc, align_alignBits _ _ _ hp, readNat_natToBits _ _ (by omega)]
    simp only [List.length_append, alignBits_length, natToBits_length, Nat.add_assoc]
  · rw [List.append_assoc, align_alignBits _ _ _ hp, readNat_natToBits _ _ h2]
    simp only [List.length_append, alignBits_length, natToBits_length, Nat.add_assoc]

theorem bitLength_pos {n : Nat} (h : n ≠ 0) : 0 < bitLength n := by
  unfold bitLength; simp [h]

theorem sizeAsBytes_pos (v : Nat) : 1 ≤ sizeAsBytes v := by
  unfold sizeAsBytes
  split
  · omega
  · rename_i h
    have := bitLength_pos h
    omega

theorem lt_pow_sizeAsBytes (v : Nat) : v < 2 ^ (8 * sizeAsBytes v) := by
  unfold sizeAsBytes
  split
  · subst_vars; simp
  · exact Nat.lt_of_lt_of_le (lt_two_pow_bitLength v) (Nat.pow_le_pow_right (by omega) (by omega))

theorem sizeAsBytes_le {v size : Nat} (h : v ≤ size) (hs : 65535 < size) :
    sizeAsBytes v ≤ (bitLength size + 7) / 8 := by
  have h16 : 16 < bitLength size := by
    have h1 := lt_two_pow_bitLength size
    have h2 : 2 ^ 16 < 2 ^ bitLength size := by omega
    exact (Nat.pow_lt_pow_iff_right (by omega)).mp h2
  unfold sizeAsBytes
  split
  · omega
  · have := bitLength_mono h
    omega

theorem decConstrainedInt_enc (pos pos' : Nat) (lo hi i : Int) (rest : Bits)
    (hp : pos' % 8 = pos % 8) (h1 : lo ≤ i) (h2 : i ≤ hi) :
    decConstrainedInt lo hi ⟨pos', encConstrainedInt pos lo hi i ++ rest⟩ =
      .ok (i, ⟨pos' + (encConstrainedInt pos lo hi i).length, rest⟩) := by
  unfold decConstrainedInt encConstrainedInt
  have hv : (i - lo).toNat ≤ (hi - lo).toNat := by omega
  have hback : lo + ((i - lo).toNat : Int) = i := by omega
  generalize (hi - lo).toNat = size at *
  generalize (i - lo).toNat = v at *
  simp only
  split
  · simp only [bind, Except.bind]
    rw [decCwn_encCwn _ _ _ _ _ _ hp (by omega) (lt_two_pow_bitLength_of_le hv)]
    simp only [hback]
  · rename_i hs
    have hnb := sizeAsBytes_le hv (by omega)
    have hpos := sizeAsBytes_pos v
    have hk : sizeAsBytes v - 1 < 2 ^ indefBits (bitLength size) := by
      unfold indefBits
      exact lt_two_pow_bitLength_of_le (by omega)
    simp only [bind, Except.bind, List.append_assoc]
    rw [decCwn_encCwn _ _ _ _ _ _ hp (by omega) hk]
    simp only
    rw [align_alignBits _ _ _ (by omega)]
    have hkk : sizeAsBytes v - 1 + 1 = sizeAsBytes v := by omega
    rw [hkk, decCwn_encCwn _ _ _ _ _ _ (by simp only [alignBits_length]; omega) (by omega)
      (lt_pow_sizeAsBytes v)]
    simp only [hback, List.length_append, alignBits_length, Except.ok.injEq, Prod.mk.injEq, true_and]
    exact St.eq_of_pos _ (by omega)

/-! ### size prefixes -/

theorem readSize_sizePrefix (c : SizeC) (w pos pos' n : Nat) (av af : Bool) (av' : Nat → Bool)
    (rest : Bits) (hp : pos' % 8 = pos % 8) (hs : Uper.sizeBits c = some w)
    (hin : Uper.inSize c n = true) (hav : av' n = av) :
    readSize c w av' af ⟨pos', sizePrefix c w pos n av af ++ rest⟩ =
      .ok (n, ⟨pos' + (sizePrefix c w pos n av af).length, rest⟩) := by
  obtain ⟨h1, h2, h3⟩ := Uper.sizeBits_some hs hin
  have hhi : ∃ hi, c.hi = some hi ∧ n ≤ hi := by
    unfold Uper.inSize at hin
    cases hh : c.hi with
    | none => simp [Uper.sizeBits, hh] at hs
    | some hi =>
      simp only [hh, Bool.and_eq_true, decide_eq_true_eq] at hin
      exact ⟨hi, rfl, hin.2⟩
  obtain ⟨hi, hhi, hnhi⟩ := hhi
  unfold readSize sizePrefix
  split
  · simp only [bind, Except.bind, List.append_assoc]
    rw [decCwn_encCwn _ _ _ _ _ _ hp (by rw [hhi]; simp only [Option.getD_some]; omega) h2]
    have hn : c.lo + (n - c.lo) = n := by omega
    simp only [hn, hav]
    cases av
    · simp only [Bool.false_eq_true, if_false, List.nil_append, List.append_nil]
    · simp only [if_true]
      rw [align_alignBits _ _ _ (by omega)]
      simp only [List.length_append, alignBits_length, Nat.add_assoc]
  · rename_i hne
    have hn : c.lo = n := (h3 (by simpa using hne)).symm
    simp only [hn]
    cases af
    · simp only [Bool.false_eq_true, if_false, List.nil_append, List.length_nil, Nat.add_zero]
    · simp only [if_true]
      rw [align_alignBits _ _ _ hp]
      simp only [alignBits_length]

end Asn1.Per
