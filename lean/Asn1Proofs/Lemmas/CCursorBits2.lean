import Asn1Proofs.Lemmas.CCursorBits
/-
  C09, functional part (continued): B4 (`packBits` bridge: the first `(pos + 7) / 8` bytes of a
  zero padded buffer are `packBits` of its first `pos` bits) and B5 for `readBitVal`/`readNnbiVal`.
-/
set_option linter.unusedSimpArgs false
namespace Asn1.CCursor
open Asn1

theorem bitsFrom_take (m : Mem) (p n k : Nat) : (bitsFrom m p n).take k = bitsFrom m p (min k n) := by
  apply List.ext_getElem
  · simp
  · intro i h1 h2
    rw [List.getElem_take, bitsFrom_getElem, bitsFrom_getElem]

theorem bitsFrom_drop (m : Mem) (p n k : Nat) : (bitsFrom m p n).drop k = bitsFrom m (p + k) (n - k) := by
  apply List.ext_getElem
  · simp
  · intro i h1 h2
    rw [List.getElem_drop, bitsFrom_getElem, bitsFrom_getElem, Nat.add_assoc]

theorem bitsToNat_bitsFrom_byte (m : Mem) (j : Nat) : bitsToNat (bitsFrom m (8 * j) 8) = m[j]!.toNat := by
  rw [bitsFrom_byte, bitsToNat_natToBits]
  have := m[j]!.toNat_lt
  omega

/-- zero padding completes the last byte -/
theorem bitsFrom_pad (m : Mem) (j n : Nat) (hn0 : 0 < n) (hn : n ≤ 8) (hpad : Padded m (8 * j + n)) :
    bitsFrom m (8 * j) n ++ List.replicate (8 - n) false = bitsFrom m (8 * j) 8 := by
  apply List.ext_getElem
  · simp; omega
  · intro k h1 h2
    have hk : k < 8 := by simpa using h2
    rw [bitsFrom_getElem]
    by_cases hkn : k < n
    · rw [List.getElem_append_left (by simpa using hkn), bitsFrom_getElem]
    · rw [List.getElem_append_right (by simpa using hkn)]
      simp only [List.getElem_replicate]
      exact (hpad (8 * j + k) (by omega) (by omega)).symm

theorem bitsToBytes_bitsFrom (buf : Mem) :
    ∀ (fuel j n : Nat), n + 1 ≤ fuel → Padded buf (8 * j + n) →
      bitsToBytes fuel (bitsFrom buf (8 * j) n)
        = (List.range ((n + 7) / 8)).map fun i => buf[j + i]!.toNat := by
  intro fuel
  induction fuel with
  | zero => intro j n h; omega
  | succ fuel ih =>
    intro j n hf hpad
    rw [bitsToBytes]
    by_cases hn : n = 0
    · subst hn; simp
    · have hne : (bitsFrom buf (8 * j) n).isEmpty = false := by
        cases n with
        | zero => omega
        | succ n => rw [bitsFrom_succ']; rfl
      rw [hne]
      simp only [Bool.false_eq_true, if_false]
      rw [bitsFrom_take, bitsFrom_drop, bitsFrom_length]
      have hpad' : Padded buf (8 * j + min 8 n) := by
        by_cases h8 : 8 ≤ n
        · rw [Nat.min_eq_left h8]; exact padded_aligned _ _ (by omega)
        · rw [Nat.min_eq_right (by omega)]; exact hpad
      rw [bitsFrom_pad buf j (min 8 n) (by omega) (Nat.min_le_left _ _) hpad', bitsToNat_bitsFrom_byte]
      have e8 : 8 * j + 8 = 8 * (j + 1) := by omega
      rw [e8, ih (j + 1) (n - 8) (by omega) (by
        by_cases h8 : 8 ≤ n
        · have : 8 * (j + 1) + (n - 8) = 8 * j + n := by omega
          rw [this]; exact hpad
        · exact padded_aligned _ _ (by omega))]
      have ek : (n + 7) / 8 = (n - 8 + 7) / 8 + 1 := by omega
      rw [ek, List.range_succ_eq_map]
      simp only [List.map_cons, List.map_map, Nat.add_zero, List.cons.injEq, true_and]
      apply List.map_congr_left
      intro i _
      simp only [Function.comp]
      congr 2; omega

theorem bytes_take_eq (buf : Mem) (k : Nat) (h : k ≤ buf.size) :
    (buf.toList.take k).map UInt8.toNat = (List.range k).map fun i => buf[i]!.toNat := by
  apply List.ext_getElem
  · simp; omega
  · intro i h1 h2
    have hi : i < k := by simpa using h2
    simp [Array.getElem!_eq_getD, Array.getD_eq_getD_getElem?, show i < buf.size by omega]

/-- B4 -/
theorem packBits_bitsFrom (buf : Mem) (p : Nat) (hpad : Padded buf p) (hsz : (p + 7) / 8 ≤ buf.size) :
    (buf.toList.take ((p + 7) / 8)).map UInt8.toNat = packBits (bitsFrom buf 0 p) := by
  rw [bytes_take_eq buf _ hsz]
  unfold packBits
  have := bitsToBytes_bitsFrom buf (p + 1) 0 p (Nat.le_refl _) (by simpa using hpad)
  simp only [Nat.mul_zero, Nat.zero_add] at this
  rw [bitsFrom_length, this]

/-! ### B5: `readBitVal`, `readNnbiVal` -/

theorem readBitVal_eq (buf : Mem) (p : Nat) : readBitVal buf p = if getBit buf p then 1 else 0 := by
  unfold readBitVal getBit
  rw [Nat.and_one_is_mod, Nat.testBit_eq_decide_div_mod_eq, Nat.shiftRight_eq_div_pow]
  generalize buf[p / 8]!.toNat / 2 ^ (7 - p % 8) = x
  have : x % 2 = 0 ∨ x % 2 = 1 := by omega
  rcases this with h | h <;> simp [h]

theorem readBitVal_le (buf : Mem) (p : Nat) : readBitVal buf p ≤ 1 := by
  rw [readBitVal_eq]; split <;> omega

/-- one step of the accumulator -/
theorem nnbi_step (v : UInt64) (b : Nat) (hb : b ≤ 1) :
    ((v <<< 1) ||| UInt64.ofNat b).toNat = (2 * v.toNat + b) % 2 ^ 64 := by
  rw [UInt64.toNat_or, UInt64.toNat_shiftLeft, UInt64.toNat_ofNat']
  have e1 : (1 : UInt64).toNat % 64 = 1 := by decide
  rw [e1, Nat.shiftLeft_eq, Nat.pow_one]
  have hb' : b % 2 ^ 64 = b := Nat.mod_eq_of_lt (by omega)
  rw [hb']
  have hv := v.toNat_lt
  -- the shifted value is even, so `|||` with a bit is `+`
  have heven : ∃ y, v.toNat * 2 % 2 ^ 64 = 2 * y := ⟨v.toNat * 2 % 2 ^ 64 / 2, by omega⟩
  obtain ⟨y, hy⟩ := heven
  rw [hy]
  have hor : 2 * y ||| b = 2 * y + b := by
    have : b = 0 ∨ b = 1 := by omega
    rcases this with rfl | rfl
    · simp
    · apply Nat.eq_of_testBit_eq
      intro i
      rw [Nat.testBit_or]
      cases i with
      | zero => simp [Nat.testBit_zero]
      | succ i =>
        rw [← Nat.testBit_div_two, ← Nat.testBit_div_two (2 * y + 1), ← Nat.testBit_div_two 1]
        have : (2 * y + 1) / 2 = 2 * y / 2 := by omega
        rw [this]; simp
  rw [hor]
  omega

/-- B5, accumulator form -/
theorem readNnbiVal_acc (buf : Mem) :
    ∀ (n : Nat) (v : UInt64) (p : Nat),
      (readNnbiVal buf n v p).toNat = (v.toNat * 2 ^ n + bitsToNat (bitsFrom buf p n)) % 2 ^ 64 := by
  intro n
  induction n with
  | zero =>
    intro v p
    simp only [readNnbiVal, bitsFrom_zero, bitsToNat_nil, Nat.pow_zero, Nat.mul_one, Nat.add_zero]
    exact (Nat.mod_eq_of_lt v.toNat_lt).symm
  | succ n ih =>
    intro v p
    rw [readNnbiVal, ih, nnbi_step v _ (readBitVal_le buf p), readBitVal_eq, bitsFrom_succ',
      bitsToNat_cons, bitsFrom_length]
    generalize bitsToNat (bitsFrom buf (p + 1) n) = X
    generalize (if getBit buf p = true then 1 else 0) = b
    rw [Nat.add_mod, Nat.mul_mod, Nat.mod_mod, ← Nat.mul_mod, ← Nat.add_mod]
    congr 1
    rw [Nat.pow_succ, Nat.add_mul, Nat.add_assoc]
    congr 1
    rw [Nat.mul_comm 2 v.toNat, Nat.mul_assoc, Nat.mul_comm 2 (2 ^ n)]

/-- B5: `decoder_read_non_negative_binary_integer(size = n)` -/
theorem readNnbiVal_spec (buf : Mem) (n p : Nat) :
    (readNnbiVal buf n 0 p).toNat = bitsToNat (bitsFrom buf p n) % 2 ^ 64 := by
  rw [readNnbiVal_acc]
  simp

theorem readNnbiVal_spec_le (buf : Mem) (n p : Nat) (hn : n ≤ 64) :
    (readNnbiVal buf n 0 p).toNat = bitsToNat (bitsFrom buf p n) := by
  rw [readNnbiVal_spec]
  apply Nat.mod_eq_of_lt
  have h1 := bitsToNat_lt (bitsFrom buf p n)
  rw [bitsFrom_length] at h1
  exact Nat.lt_of_lt_of_le h1 (Nat.pow_le_pow_right (by omega) hn)

end Asn1.CCursor
