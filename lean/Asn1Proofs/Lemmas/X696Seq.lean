import Asn1Proofs.Lemmas.X696Comp
/-
  C06, SEQUENCE: preamble, root components, extension additions.
-/
set_option linter.unusedSimpArgs false
namespace Asn1.X696
open Asn1.Uper (Err utf8Enc)

/-! ### unfolding lemmas for the specification -/

def rootHere (p : Presence) (t : Ty) (ov : Option Val) : EncM Bytes :=
  match ov with
  | some v =>
    (match p with
     | .default d => if isDefault t v d then .ok [] else enc t v
     | _ => enc t v)
  | none =>
    (match p with
     | .mandatory => .error .encodeError
     | _ => .ok [])

theorem encRoot_cons (name : String) (p : Presence) (t : Ty) (rest : Members) (fs : List (String × Val)) :
    encRoot (.cons name p t rest) fs =
      (match rootHere p t (lookup name fs), encRoot rest fs with
       | .ok a, .ok b => .ok (a ++ b)
       | .error e, _ => .error e
       | _, .error e => .error e) := by
  cases p <;> rfl

def slotHere (p : Presence) (t : Ty) (ov : Option Val) (later : Bool) : EncM (Option Bytes) :=
  match ov with
  | some v =>
    (match p with
     | .default d =>
       if isDefault t v d then .ok none
       else (match enc t v with | .ok e => .ok (some e) | .error e => .error e)
     | _ => (match enc t v with | .ok e => .ok (some e) | .error e => .error e))
  | none =>
    (match p with
     | .mandatory => if later then .error .encodeError else .ok none
     | _ => .ok none)

theorem encSlots_cons (name : String) (p : Presence) (t : Ty) (rest : Members) (fs : List (String × Val)) :
    encSlots (.cons name p t rest) fs =
      (match slotHere p t (lookup name fs) (anyPresent rest fs), encSlots rest fs with
       | .ok a, .ok b => .ok (a :: b)
       | .error e, _ => .error e
       | _, .error e => .error e) := by
  cases p <;> rfl

/-! ### preamble -/

theorem preamble_eq (fs : List (String × Val)) (ms : Members) :
    Oer.encPreamble ms fs = .ok (rootPresence ms fs) := by
  induction ms using Members.ind with
  | nil => rfl
  | cons name p t rest ih =>
    rw [Oer.encPreamble_cons, ih]
    cases p with
    | mandatory => rfl
    | optional => rfl
    | default d => simp only [rootPresence]; cases lookup name fs <;> rfl

/-! ### root components -/

theorem devsMembers_cons (name : String) (p : Presence) (t : Ty) (rest : Members) (fs : List (String × Val)) :
    devsMembers (.cons name p t rest) fs =
      (match lookup name fs with | some v => devs t v | none => []) ++ devsMembers rest fs := by
  rw [devsMembers]
  cases lookup name fs <;> rfl

theorem encRoot_eq (fs : List (String × Val)) (ms : Members) (ih : ms.AllO REF) (hwf : ms.wf = true)
    (hok : membersOk ms fs = true) (hd : devsMembers ms fs = []) :
    Oer.encMembers ms fs false = encRoot ms fs := by
  induction ms using Members.ind with
  | nil => rfl
  | cons name p t rest ihm =>
    simp only [Members.wf, Bool.and_eq_true] at hwf
    simp only [membersOk, Bool.and_eq_true] at hok
    rw [devsMembers_cons, List.append_eq_nil_iff] at hd
    rw [Oer.encMembers_cons, encRoot_cons, ihm ih.2 hwf.2 hok.2 hd.2]
    have hh : Oer.encHere p t (lookup name fs) false = rootHere p t (lookup name fs) := by
      cases hl : lookup name fs with
      | none => cases p <;> rfl
      | some v =>
        have e : Oer.enc t v = enc t v :=
          ih.1 v hwf.1 (by simpa [hl] using hok.1) (by simpa [hl] using hd.1)
        cases p with
        | mandatory => exact e
        | optional => exact e
        | default d =>
          simp only [Oer.encHere, rootHere, e, Bool.or_false]
          cases isDefault t v d <;> rfl
    rw [hh]
    cases rootHere p t (lookup name fs) <;> cases encRoot rest fs <;> rfl

/-! ### extension additions -/

theorem anyPresent_of_fails (fs : List (String × Val)) (ms : Members) (hok : membersOk ms fs = true)
    (hf : additionFails ms fs = true) : anyPresent ms fs = true := by
  induction ms using Members.ind with
  | nil => simp [additionFails] at hf
  | cons name p t rest ih =>
    simp only [membersOk, Bool.and_eq_true] at hok
    simp only [additionFails, Bool.or_eq_true] at hf
    simp only [anyPresent, Bool.or_eq_true]
    rcases hf with hf | hf
    · left
      cases hl : lookup name fs with
      | some v => rfl
      | none =>
        exfalso
        rw [hl] at hf
        have := hok.1
        rw [hl] at this
        cases p <;> simp_all
    · right; exact ih hok.2 hf

theorem slots_eq (fs : List (String × Val)) (ms : Members) (ih : ms.AllO REF) (hwf : ms.wf = true)
    (hok : membersOk ms fs = true) (hd : devsMembers ms fs = [])
    (hdef : additionIsDefault ms fs = false) (hfail : additionFails ms fs = false) :
    ∃ slots, encSlots ms fs = .ok slots ∧
      Oer.encAdditions ms fs = (slots.map Option.isSome, slots.filterMap id, false) ∧
      slots.length = ms.length := by
  induction ms using Members.ind with
  | nil => exact ⟨[], rfl, rfl, rfl⟩
  | cons name p t rest ihm =>
    simp only [Members.wf, Bool.and_eq_true] at hwf
    simp only [membersOk, Bool.and_eq_true] at hok
    rw [devsMembers_cons, List.append_eq_nil_iff] at hd
    simp only [additionIsDefault, Bool.or_eq_false_iff] at hdef
    simp only [additionFails, Bool.or_eq_false_iff] at hfail
    obtain ⟨slots, hs, ha, hlen⟩ := ihm ih.2 hwf.2 hok.2 hd.2 hdef.2 hfail.2
    rw [encSlots_cons, Oer.encAdditions_cons, hs, ha]
    cases hl : lookup name fs with
    | none =>
      have hp : p ≠ .mandatory := by
        intro hp; subst hp
        have := hok.1; rw [hl] at this; simp at this
      have h1 : slotHere p t none (anyPresent rest fs) = .ok none := by
        cases p <;> first | rfl | exact absurd rfl hp
      have h2 : Oer.addHere p t none = .ok [] := by
        cases p <;> first | rfl | exact absurd rfl hp
      refine ⟨none :: slots, ?_, ?_, ?_⟩
      · rw [h1]
      · rw [h2]; simp
      · simp [Members.length, hlen]
    | some v =>
      have hty : hasType t v = true := by simpa [hl] using hok.1
      have hdv : devs t v = [] := by simpa [hl] using hd.1
      have e : Oer.enc t v = enc t v := ih.1 v hwf.1 hty hdv
      have hok' : ∃ bs, enc t v = .ok bs := by
        have := hfail.1; rw [hl] at this
        cases he : enc t v with
        | ok bs => exact ⟨bs, rfl⟩
        | error er => simp [he] at this
      obtain ⟨bs, hbs⟩ := hok'
      have h1 : slotHere p t (some v) (anyPresent rest fs) = .ok (some bs) := by
        cases p with
        | mandatory => simp [slotHere, hbs]
        | optional => simp [slotHere, hbs]
        | default d =>
          have : isDefault t v d = false := by simpa [hl] using hdef.1
          simp [slotHere, hbs, this]
      have h2 : Oer.addHere p t (some v) = .ok bs := by
        simp only [Oer.addHere, e, hbs]
      refine ⟨some bs :: slots, ?_, ?_, ?_⟩
      · rw [h1]
      · rw [h2]; simp
      · simp [Members.length, hlen]

end Asn1.X696
