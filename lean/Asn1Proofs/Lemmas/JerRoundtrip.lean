import Asn1Proofs.Lemmas.JerLeaf
/-
  Tree-level round trip of the JER model: `ofJson t (toJson t v) = canonJ t v`, and the JSON tree the
  encoder builds is well formed (`Json.wfV`: what `Json.parse_render` needs).
-/
namespace Asn1.Jer
open Asn1.Uper (Err)
open Asn1.Json (isScalar wfV wfList wfMembers)
open Asn1.Oer (mapM_nil' mapM_cons' alphabet_lt)

/-- the statement proved by induction on the type -/
def RT (t : Ty) : Prop :=
  ∀ (v : Val) (j : JsonV), t.wf = true → hasType t v = true → toJson t v = .ok j →
    ofJson t j = .ok (canonJ t v) ∧ wfV j = true

def MembersAll (P : Ty → Prop) : Members → Prop
  | .nil => True
  | .cons _ _ t rest => P t ∧ MembersAll P rest

def AltsAll (P : Ty → Prop) : Alts → Prop
  | .nil => True
  | .cons _ t rest => P t ∧ AltsAll P rest

/-! ### leaf types -/

theorem rt_boolean : RT .boolean := by
  intro v j _ ht he
  cases v <;> simp [hasType] at ht
  simp only [toJson, Except.ok.injEq] at he
  subst he
  exact ⟨by simp [ofJson, pyVal, canonJ], by simp [wfV]⟩

theorem rt_null : RT .null := by
  intro v j _ ht he
  cases v <;> simp [hasType] at ht
  simp only [toJson, Except.ok.injEq] at he
  subst he
  exact ⟨by simp [ofJson, canonJ], by simp [wfV]⟩

theorem rt_integer (c : IntC) : RT (.integer c) := by
  intro v j _ ht he
  cases v <;> simp [hasType] at ht
  simp only [toJson, Except.ok.injEq] at he
  subst he
  exact ⟨by simp [ofJson, pyVal, canonJ], by simp [wfV]⟩

theorem rt_enumerated (root : List (String × Int)) (ext : Option (List (String × Int))) :
    RT (.enumerated root ext) := by
  intro v j _ ht he
  cases v <;> simp [hasType] at ht
  rename_i n
  simp only [toJson] at he
  split at he
  · rename_i hc
    simp only [Except.ok.injEq] at he
    subst he
    have hm : n ∈ enumNames root ext := by simpa using hc
    exact ⟨by simp [ofJson, findName_of_mem n _ hm, canonJ], by simp [wfV, strCps_scalar]⟩
  · cases he

theorem rt_octetString (c : SizeC) : RT (.octetString c) := by
  intro v j _ ht he
  cases v <;> simp [hasType] at ht
  rename_i bs
  simp only [toJson, Except.ok.injEq] at he
  subst he
  exact ⟨by simp [ofJson, unhex_hexUpper bs ht.1, canonJ], by simp [wfV, hexUpper_scalar]⟩

theorem kValue_scalar : kValue.all isScalar = true := by decide
theorem kLength_scalar : kLength.all isScalar = true := by decide

theorem rt_bitString (c : SizeC) : RT (.bitString c) := by
  intro v j _ ht he
  cases v <;> simp [hasType] at ht
  rename_i data n
  obtain ⟨⟨hb, _⟩, hs⟩ := ht
  simp only [toJson] at he
  split at he
  · rename_i hfix
    simp only [Except.ok.injEq] at he
    subst he
    refine ⟨?_, by simp [wfV, hexUpper_scalar]⟩
    have hn : c.lo = n := by
      simp only [fixedSize, beq_iff_eq] at hfix
      simp only [sizeOk, hfix, Bool.and_eq_true, decide_eq_true_eq] at hs
      omega
    simp [ofJson, hfix, unhex_hexUpper data hb, canonJ, hn]
  · rename_i hfix
    simp only [Except.ok.injEq] at he
    subst he
    refine ⟨?_, by simp [wfV, wfMembers, hexUpper_scalar, kValue_scalar, kLength_scalar]⟩
    have h1 : dictGet kValue [(kValue, JsonV.str (hexUpper data)), (kLength, JsonV.num ↑n)]
        = some (JsonV.str (hexUpper data)) := by
      simp [dictGet, show (kLength == kValue) = false by decide]
    have h2 : dictGet kLength [(kValue, JsonV.str (hexUpper data)), (kLength, JsonV.num ↑n)]
        = some (JsonV.num ↑n) := by
      simp [dictGet]
    simp [ofJson, hfix, h1, h2, unhex_hexUpper data hb, canonJ]

theorem rt_charString (k : StrKind) (c : SizeC) : RT (.charString k c) := by
  intro v j _ ht he
  cases v <;> simp only [hasType, Bool.false_eq_true] at ht
  rename_i cps
  simp only [toJson, Except.ok.injEq] at he
  subst he
  refine ⟨by simp [ofJson, pyVal, canonJ], ?_⟩
  simp only [wfV, List.all_eq_true]
  intro cp hcp
  cases k
  case utf8 =>
    simp only [List.all_eq_true] at ht
    exact ht cp hcp
  all_goals
    simp only [Bool.and_eq_true, List.all_eq_true, List.contains_iff_mem] at ht
    have := alphabet_lt _ cp (ht.1 cp hcp)
    simp only [isScalar, Bool.and_eq_true, decide_eq_true_eq, Bool.not_eq_true', Bool.and_eq_false_iff,
      decide_eq_false_iff_not]
    omega

/-! ### SEQUENCE OF -/

theorem seqOf_items (e : Ty) (ih : RT e) (hwf : e.wf = true) :
    ∀ (vs : List Val) (js : List JsonV), (∀ v ∈ vs, hasType e v = true) → vs.mapM (toJson e) = .ok js →
      js.mapM (ofJson e) = .ok (vs.map (canonJ e)) ∧ wfList js = true := by
  intro vs
  induction vs with
  | nil =>
    intro js _ h
    rw [mapM_nil'] at h
    cases h
    exact ⟨mapM_nil' _, rfl⟩
  | cons v vs ihl =>
    intro js hall h
    rw [mapM_cons'] at h
    cases hv : toJson e v with
    | error err => rw [hv] at h; cases h
    | ok j =>
      rw [hv] at h
      cases hr : vs.mapM (toJson e) with
      | error err => rw [hr] at h; cases h
      | ok js' =>
        rw [hr] at h
        cases h
        obtain ⟨h1, h2⟩ := ih v j hwf (hall v (List.mem_cons_self ..)) hv
        obtain ⟨h3, h4⟩ := ihl js' (fun x hx => hall x (List.mem_cons_of_mem _ hx)) hr
        refine ⟨?_, by simp [wfList, h2, h4]⟩
        rw [mapM_cons', h1, h3]
        rfl

theorem rt_sequenceOf (e : Ty) (c : SizeC) (ih : RT e) : RT (.sequenceOf e c) := by
  intro v j hwf ht he
  cases v <;> simp only [hasType, Bool.false_eq_true] at ht
  rename_i vs
  simp only [Ty.wf, Bool.and_eq_true] at hwf
  simp only [Bool.and_eq_true, List.all_eq_true] at ht
  simp only [toJson] at he
  cases hm : vs.mapM (toJson e) with
  | error err => rw [hm] at he; cases he
  | ok js =>
    rw [hm] at he
    cases he
    obtain ⟨h1, h2⟩ := seqOf_items e ih hwf.1 vs js ht.1 hm
    exact ⟨by simp [ofJson, iterItems, h1, canonJ], by simp [wfV, h2]⟩

/-! ### SEQUENCE -/

/-- the names of the object `membersToJson` builds are names of the declared members -/
theorem membersToJson_dictGet_none (k : List Nat) (fs : List (String × Val)) :
    ∀ (ms : Members) (a : List (List Nat × JsonV)), membersToJson ms fs = .ok a →
      (∀ n ∈ ms.names, strCps n ≠ k) → dictGet k a = none := by
  intro ms
  induction ms using Members.ind with
  | nil => intro a h _; simp only [membersToJson, Except.ok.injEq] at h; subst h; rfl
  | cons name p t rest ih =>
    intro a h hk
    have hk' : ∀ n ∈ rest.names, strCps n ≠ k := fun n hn => hk n (by simp [Members.names, hn])
    have hname : strCps name ≠ k := hk name (by simp [Members.names])
    simp only [membersToJson] at h
    cases hl : lookup name fs with
    | some v =>
      simp only [hl] at h
      cases hj : toJson t v with
      | error e => simp [hj] at h
      | ok j =>
        simp only [hj] at h
        cases hr : membersToJson rest fs with
        | error e => simp [hr] at h
        | ok js =>
          simp only [hr, Except.ok.injEq] at h
          subst h
          rw [dictGet_cons, ih js hr hk']
          have : (strCps name == k) = false := beq_eq_false_iff_ne.mpr hname
          simp [this]
    | none =>
      simp only [hl] at h
      cases p with
      | mandatory => simp at h
      | optional => exact ih a h hk'
      | default d => exact ih a h hk'

/-- what the decoder finds in the object `O` for every declared member -/
def MFact (O : List (List Nat × JsonV)) (fs : List (String × Val)) : Members → Prop
  | .nil => True
  | .cons name _ t rest =>
    (match lookup name fs with
     | some v => ∃ j, toJson t v = .ok j ∧ dictGet (strCps name) O = some j
     | none => dictGet (strCps name) O = none) ∧ MFact O fs rest

theorem MFact_congr (O O' : List (List Nat × JsonV)) (fs : List (String × Val)) :
    ∀ ms : Members, (∀ n ∈ ms.names, dictGet (strCps n) O' = dictGet (strCps n) O) → MFact O fs ms → MFact O' fs ms := by
  intro ms
  induction ms using Members.ind with
  | nil => intro _ _; trivial
  | cons name p t rest ih =>
    intro h hf
    obtain ⟨h1, h2⟩ := hf
    refine ⟨?_, ih (fun n hn => h n (by simp [Members.names, hn])) h2⟩
    rw [h name (by simp [Members.names])]
    exact h1

theorem MFact_self (fs : List (String × Val)) :
    ∀ (ms : Members) (a : List (List Nat × JsonV)), ms.names.Nodup → membersToJson ms fs = .ok a → MFact a fs ms := by
  intro ms
  induction ms using Members.ind with
  | nil => intro _ _ _; trivial
  | cons name p t rest ih =>
    intro a hnd h
    simp only [Members.names, List.nodup_cons] at hnd
    have hnot : ∀ n ∈ rest.names, strCps n ≠ strCps name := fun n hn e => hnd.1 (strCps_inj e ▸ hn)
    simp only [membersToJson] at h
    cases hl : lookup name fs with
    | some v =>
      simp only [hl] at h
      cases hj : toJson t v with
      | error e => simp [hj] at h
      | ok j =>
        simp only [hj] at h
        cases hr : membersToJson rest fs with
        | error e => simp [hr] at h
        | ok js =>
          simp only [hr, Except.ok.injEq] at h
          subst h
          have hnone := membersToJson_dictGet_none (strCps name) fs rest js hr hnot
          refine ⟨?_, ?_⟩
          · simp only [hl]
            exact ⟨j, hj, by rw [dictGet_cons, hnone]; simp⟩
          · apply MFact_congr js _ fs rest _ (ih js hnd.2 hr)
            intro n hn
            rw [dictGet_cons]
            have : (strCps name == strCps n) = false :=
              beq_eq_false_iff_ne.mpr (fun e => hnot n hn e.symm)
            cases dictGet (strCps n) js <;> simp [this]
    | none =>
      simp only [hl] at h
      have hrest : membersToJson rest fs = .ok a := by cases p <;> simp_all
      refine ⟨?_, ih a hnd.2 hrest⟩
      simp only [hl]
      exact membersToJson_dictGet_none (strCps name) fs rest a hrest hnot

theorem membersOfJson_obj (O : List (List Nat × JsonV)) (fs : List (String × Val)) :
    ∀ ms : Members, MembersAll RT ms → ms.wf = true → membersOk ms fs = true → MFact O fs ms →
      membersOfJson ms (.obj O) = .ok (canonJMembers ms fs) := by
  intro ms
  induction ms using Members.ind with
  | nil => intro _ _ _ _; rfl
  | cons name p t rest ih =>
    intro hall hwf hok hf
    obtain ⟨hrt, hall'⟩ := hall
    simp only [Members.wf, Bool.and_eq_true] at hwf
    simp only [membersOk, Bool.and_eq_true] at hok
    obtain ⟨hf1, hf2⟩ := hf
    have ihr := ih hall' hwf.2 hok.2 hf2
    simp only [membersOfJson, memberIn, memberGet, canonJMembers]
    cases hl : lookup name fs with
    | some v =>
      simp only [hl] at hf1 hok
      obtain ⟨j, hj, hd⟩ := hf1
      obtain ⟨h1, _⟩ := hrt v j hwf.1 hok.1 hj
      simp [hd, h1, ihr]
    | none =>
      simp only [hl] at hf1
      simp only [hf1, Option.isSome_none]
      cases p <;> simp [ihr]

theorem membersToJson_wf (fs : List (String × Val)) :
    ∀ (ms : Members) (a : List (List Nat × JsonV)), MembersAll RT ms → ms.wf = true → membersOk ms fs = true →
      membersToJson ms fs = .ok a → wfMembers a = true := by
  intro ms
  induction ms using Members.ind with
  | nil => intro a _ _ _ h; simp only [membersToJson, Except.ok.injEq] at h; subst h; rfl
  | cons name p t rest ih =>
    intro a hall hwf hok h
    obtain ⟨hrt, hall'⟩ := hall
    simp only [Members.wf, Bool.and_eq_true] at hwf
    simp only [membersOk, Bool.and_eq_true] at hok
    simp only [membersToJson] at h
    cases hl : lookup name fs with
    | some v =>
      simp only [hl] at h hok
      cases hj : toJson t v with
      | error e => simp [hj] at h
      | ok j =>
        simp only [hj] at h
        cases hr : membersToJson rest fs with
        | error e => simp [hr] at h
        | ok js =>
          simp only [hr, Except.ok.injEq] at h
          subst h
          obtain ⟨_, h2⟩ := hrt v j hwf.1 hok.1 hj
          simp [wfMembers, strCps_scalar, h2, ih js hall' hwf.2 hok.2 hr]
    | none =>
      simp only [hl] at h
      have hrest : membersToJson rest fs = .ok a := by cases p <;> simp_all
      exact ih a hall' hwf.2 hok.2 hrest

theorem wfMembers_append (a b : List (List Nat × JsonV)) (ha : wfMembers a = true) (hb : wfMembers b = true) :
    wfMembers (a ++ b) = true := by
  induction a with
  | nil => exact hb
  | cons x r ih =>
    obtain ⟨k, v⟩ := x
    simp only [wfMembers, Bool.and_eq_true] at ha
    simp [wfMembers, ha.1.1, ha.1.2, ih ha.2]

theorem rt_sequence (root : Members) (ext : Bool) (adds : Members)
    (ihr : MembersAll RT root) (iha : MembersAll RT adds) : RT (.sequence root ext adds) := by
  intro v j hwf ht he
  cases v <;> try (simp only [hasType, Bool.false_eq_true] at ht)
  rename_i fs
  simp only [Ty.wf, Bool.and_eq_true, List.nodup_append, decide_eq_true_eq] at hwf
  obtain ⟨⟨⟨⟨hwr, hwa⟩, hnd⟩, _⟩, _⟩ := hwf
  have hnd' : (root.names ++ adds.names).Nodup := by
    rw [List.nodup_append]; exact hnd
  obtain ⟨hok1, hok2⟩ := membersOk_of_hasType root adds ext fs hnd' ht
  obtain ⟨nd1, nd2, disj⟩ := hnd
  simp only [toJson] at he
  cases h1 : membersToJson root fs with
  | error e => simp [h1] at he
  | ok a =>
    simp only [h1] at he
    cases h2 : membersToJson adds fs with
    | error e => simp [h2] at he
    | ok b =>
      simp only [h2, Except.ok.injEq] at he
      subst he
      have f1 : MFact (a ++ b) fs root := by
        apply MFact_congr a _ fs root _ (MFact_self fs root a nd1 h1)
        intro n hn
        rw [dictGet_append, membersToJson_dictGet_none (strCps n) fs adds b h2
          (fun m hm e => disj n hn m hm (strCps_inj e).symm)]
      have f2 : MFact (a ++ b) fs adds := by
        apply MFact_congr b _ fs adds _ (MFact_self fs adds b nd2 h2)
        intro n hn
        rw [dictGet_append]
        cases hb : dictGet (strCps n) b with
        | some w => rfl
        | none =>
          simp only
          exact membersToJson_dictGet_none (strCps n) fs root a h1
            (fun m hm e => disj m hm n hn (strCps_inj e))
      refine ⟨?_, ?_⟩
      · simp only [ofJson, canonJ]
        rw [membersOfJson_obj (a ++ b) fs root ihr hwr hok1 f1, membersOfJson_obj (a ++ b) fs adds iha hwa hok2 f2]
      · simp only [wfV]
        exact wfMembers_append a b (membersToJson_wf fs root a ihr hwr hok1 h1)
          (membersToJson_wf fs adds b iha hwa hok2 h2)

/-! ### CHOICE -/

theorem hasAlt_mem (n : String) (v : Val) : ∀ as : Alts, hasAlt as n v = true → n ∈ as.names := by
  intro as
  induction as using Alts.ind with
  | nil => intro h; simp [hasAlt] at h
  | cons m t rest ih =>
    intro h
    simp only [hasAlt] at h
    by_cases hm : m = n
    · simp [Alts.names, hm]
    · have : (m == n) = false := beq_eq_false_iff_ne.mpr hm
      simp only [this, Bool.false_eq_true, if_false] at h
      simp [Alts.names, ih h]

theorem altToJson_mem (n : String) (v : Val) : ∀ as : Alts, (altToJson as n v).isSome = true → n ∈ as.names := by
  intro as
  induction as using Alts.ind with
  | nil => intro h; simp [altToJson] at h
  | cons m t rest ih =>
    intro h
    simp only [altToJson] at h
    by_cases hm : m = n
    · simp [Alts.names, hm]
    · have : (m == n) = false := beq_eq_false_iff_ne.mpr hm
      simp only [this, Bool.false_eq_true, if_false] at h
      simp [Alts.names, ih h]

theorem alts_none (n : String) (v : Val) : ∀ as : Alts, altToJson as n v = none →
    (∀ x, altOfJson as (strCps n) x = none) ∧ canonJAlt as n v = none ∧ hasAlt as n v = false := by
  intro as
  induction as using Alts.ind with
  | nil => intro _; exact ⟨fun _ => rfl, rfl, rfl⟩
  | cons m t rest ih =>
    intro h
    simp only [altToJson] at h
    by_cases hm : m = n
    · subst hm; simp at h
    · have hb : (m == n) = false := beq_eq_false_iff_ne.mpr hm
      simp only [hb, Bool.false_eq_true, if_false] at h
      obtain ⟨h1, h2, h3⟩ := ih h
      refine ⟨fun x => ?_, ?_, ?_⟩
      · simp only [altOfJson, strCps_beq, hb, Bool.false_eq_true, if_false]; exact h1 x
      · simp only [canonJAlt, hb, Bool.false_eq_true, if_false]; exact h2
      · simp only [hasAlt, hb, Bool.false_eq_true, if_false]; exact h3

theorem alts_some (n : String) (v : Val) : ∀ as : Alts, AltsAll RT as → as.wf = true →
    ∀ J, altToJson as n v = some (.ok J) → hasAlt as n v = true →
      ∃ j w, J = .obj [(strCps n, j)] ∧ wfV j = true ∧ canonJAlt as n v = some w ∧
        altOfJson as (strCps n) j = some (.ok (.choice n w)) := by
  intro as
  induction as using Alts.ind with
  | nil => intro _ _ J h; simp [altToJson] at h
  | cons m t rest ih =>
    intro hall hwf J h ht
    obtain ⟨hrt, hall'⟩ := hall
    simp only [Alts.wf, Bool.and_eq_true] at hwf
    simp only [altToJson] at h
    simp only [hasAlt] at ht
    by_cases hm : m = n
    · subst hm
      simp only [beq_self_eq_true, if_true, Option.some.injEq] at h ht
      cases hj : toJson t v with
      | error e => simp [hj] at h
      | ok j =>
        simp only [hj, Except.ok.injEq] at h
        subst h
        obtain ⟨h1, h2⟩ := hrt v j hwf.1 ht hj
        refine ⟨j, canonJ t v, rfl, h2, by simp [canonJAlt], ?_⟩
        simp [altOfJson, h1]
    · have hb : (m == n) = false := beq_eq_false_iff_ne.mpr hm
      simp only [hb, Bool.false_eq_true, if_false] at h ht
      obtain ⟨j, w, e1, e2, e3, e4⟩ := ih hall' hwf.2 J h ht
      refine ⟨j, w, e1, e2, ?_, ?_⟩
      · simp only [canonJAlt, hb, Bool.false_eq_true, if_false]; exact e3
      · simp only [altOfJson, strCps_beq, hb, Bool.false_eq_true, if_false]; exact e4

theorem hasAlt_false_of_not_mem (n : String) (v : Val) (as : Alts) (h : n ∉ as.names) : hasAlt as n v = false := by
  cases hh : hasAlt as n v with
  | false => rfl
  | true => exact absurd (hasAlt_mem n v as hh) h

theorem rt_choice (root : Alts) (ext : Bool) (adds : Alts)
    (ihr : AltsAll RT root) (iha : AltsAll RT adds) : RT (.choice root ext adds) := by
  intro v J hwf ht he
  cases v <;> try (simp only [hasType, Bool.false_eq_true] at ht)
  rename_i n v
  simp only [Ty.wf, Bool.and_eq_true, List.nodup_append, decide_eq_true_eq] at hwf
  obtain ⟨⟨⟨⟨hwr, hwa⟩, _⟩, ⟨_, _, disj⟩⟩, _⟩ := hwf
  simp only [Bool.or_eq_true] at ht
  simp only [toJson] at he
  have single : ∀ j : JsonV, dictGet (strCps n) [(strCps n, j)] = some j := by
    intro j; simp [dictGet]
  cases h1 : altToJson root n v with
  | some r =>
    simp only [h1] at he
    subst he
    have hmem : n ∈ root.names := altToJson_mem n v root (by simp [h1])
    have hta : hasAlt adds n v = false :=
      hasAlt_false_of_not_mem n v adds (fun hm => disj n hmem n hm rfl)
    have htr : hasAlt root n v = true := by
      rcases ht with ht | ht
      · exact ht
      · rw [hta] at ht; cases ht
    obtain ⟨j, w, e1, e2, e3, e4⟩ := alts_some n v root ihr hwr J h1 htr
    subst e1
    refine ⟨?_, by simp [wfV, wfMembers, strCps_scalar, e2]⟩
    simp [ofJson, single, e4, canonJ, e3]
  | none =>
    simp only [h1] at he
    obtain ⟨n1, n2, n3⟩ := alts_none n v root h1
    cases h2 : altToJson adds n v with
    | none => simp [h2] at he
    | some r =>
      simp only [h2] at he
      subst he
      have hta : hasAlt adds n v = true := by
        rcases ht with ht | ht
        · rw [n3] at ht; cases ht
        · exact ht
      obtain ⟨j, w, e1, e2, e3, e4⟩ := alts_some n v adds iha hwa J h2 hta
      subst e1
      refine ⟨?_, by simp [wfV, wfMembers, strCps_scalar, e2]⟩
      simp [ofJson, single, n1, e4, canonJ, n2, e3]

/-! ### all types -/

theorem rt_all (t : Ty) : RT t :=
  Ty.rec (motive_1 := RT) (motive_2 := MembersAll RT) (motive_3 := AltsAll RT)
    rt_boolean rt_null rt_integer rt_enumerated rt_octetString rt_bitString rt_charString
    (fun root ext adds ihr iha => rt_sequence root ext adds ihr iha)
    (fun e c ih => rt_sequenceOf e c ih)
    (fun root ext adds ihr iha => rt_choice root ext adds ihr iha)
    trivial (fun _ _ _ _ iht ihr => ⟨iht, ihr⟩)
    trivial (fun _ _ _ iht ihr => ⟨iht, ihr⟩) t

/-! ### the encoder is total on well-typed values -/

/-- every value the checkers accept is accepted by the JER encoder -/
def ET (t : Ty) : Prop := ∀ v : Val, t.wf = true → hasType t v = true → ∃ j, toJson t v = .ok j

theorem et_boolean : ET .boolean := by
  intro v _ ht; cases v <;> simp [hasType] at ht; exact ⟨_, rfl⟩
theorem et_null : ET .null := by
  intro v _ ht; cases v <;> simp [hasType] at ht; exact ⟨_, rfl⟩
theorem et_integer (c : IntC) : ET (.integer c) := by
  intro v _ ht; cases v <;> simp [hasType] at ht; exact ⟨_, rfl⟩
theorem et_octetString (c : SizeC) : ET (.octetString c) := by
  intro v _ ht; cases v <;> simp [hasType] at ht; exact ⟨_, rfl⟩
theorem et_charString (k : StrKind) (c : SizeC) : ET (.charString k c) := by
  intro v _ ht; cases v <;> simp only [hasType, Bool.false_eq_true] at ht; exact ⟨_, rfl⟩
theorem et_bitString (c : SizeC) : ET (.bitString c) := by
  intro v _ ht; cases v <;> simp [hasType] at ht
  simp only [toJson]; split <;> exact ⟨_, rfl⟩
theorem et_enumerated (root : List (String × Int)) (ext : Option (List (String × Int))) :
    ET (.enumerated root ext) := by
  intro v _ ht; cases v <;> simp only [hasType, Bool.false_eq_true] at ht
  rename_i n
  have : (enumNames root ext).contains n = true := by
    simp only [Bool.or_eq_true, List.contains_iff_mem, namesOf] at ht
    simp only [enumNames, List.contains_iff_mem, List.mem_append]
    rcases ht with ht | ht
    · exact Or.inl ht
    · cases ext with
      | none => simp at ht
      | some a => exact Or.inr (by simpa using ht)
  simp only [toJson, this, if_true]
  exact ⟨_, rfl⟩

theorem et_sequenceOf (e : Ty) (c : SizeC) (ih : ET e) : ET (.sequenceOf e c) := by
  intro v hwf ht
  cases v <;> simp only [hasType, Bool.false_eq_true] at ht
  rename_i vs
  simp only [Ty.wf, Bool.and_eq_true] at hwf
  simp only [Bool.and_eq_true, List.all_eq_true] at ht
  have : ∃ js, vs.mapM (toJson e) = .ok js := by
    have hall := ht.1
    clear ht
    induction vs with
    | nil => exact ⟨[], mapM_nil' _⟩
    | cons v vs ihl =>
      obtain ⟨j, hj⟩ := ih v hwf.1 (hall v (List.mem_cons_self ..))
      obtain ⟨js, hjs⟩ := ihl (fun x hx => hall x (List.mem_cons_of_mem _ hx))
      exact ⟨j :: js, by rw [mapM_cons', hj, hjs]⟩
  obtain ⟨js, hjs⟩ := this
  exact ⟨.arr js, by simp only [toJson, hjs]⟩

theorem membersToJson_total (fs : List (String × Val)) :
    ∀ ms : Members, MembersAll ET ms → ms.wf = true → membersOk ms fs = true →
      ∃ a, membersToJson ms fs = .ok a := by
  intro ms
  induction ms using Members.ind with
  | nil => intro _ _ _; exact ⟨[], rfl⟩
  | cons name p t rest ih =>
    intro hall hwf hok
    obtain ⟨het, hall'⟩ := hall
    simp only [Members.wf, Bool.and_eq_true] at hwf
    simp only [membersOk, Bool.and_eq_true] at hok
    obtain ⟨a, ha⟩ := ih hall' hwf.2 hok.2
    simp only [membersToJson]
    cases hl : lookup name fs with
    | some v =>
      simp only [hl] at hok
      obtain ⟨j, hj⟩ := het v hwf.1 hok.1
      exact ⟨(strCps name, j) :: a, by simp only [hj, ha]⟩
    | none =>
      simp only [hl] at hok
      cases p with
      | mandatory => simp at hok
      | optional => exact ⟨a, ha⟩
      | default d => exact ⟨a, ha⟩

theorem et_sequence (root : Members) (ext : Bool) (adds : Members)
    (ihr : MembersAll ET root) (iha : MembersAll ET adds) : ET (.sequence root ext adds) := by
  intro v hwf ht
  cases v <;> try (simp only [hasType, Bool.false_eq_true] at ht)
  rename_i fs
  simp only [Ty.wf, Bool.and_eq_true, decide_eq_true_eq] at hwf
  obtain ⟨⟨⟨⟨hwr, hwa⟩, hnd⟩, _⟩, _⟩ := hwf
  obtain ⟨hok1, hok2⟩ := membersOk_of_hasType root adds ext fs hnd ht
  obtain ⟨a, ha⟩ := membersToJson_total fs root ihr hwr hok1
  obtain ⟨b, hb⟩ := membersToJson_total fs adds iha hwa hok2
  exact ⟨.obj (a ++ b), by simp only [toJson, ha, hb]⟩

theorem altToJson_total (n : String) (v : Val) : ∀ as : Alts, AltsAll ET as → as.wf = true →
    hasAlt as n v = true → ∃ J, altToJson as n v = some (.ok J) := by
  intro as
  induction as using Alts.ind with
  | nil => intro _ _ h; simp [hasAlt] at h
  | cons m t rest ih =>
    intro hall hwf h
    obtain ⟨het, hall'⟩ := hall
    simp only [Alts.wf, Bool.and_eq_true] at hwf
    simp only [hasAlt] at h
    simp only [altToJson]
    by_cases hm : m = n
    · subst hm
      simp only [beq_self_eq_true, if_true] at h ⊢
      obtain ⟨j, hj⟩ := het v hwf.1 h
      exact ⟨.obj [(strCps m, j)], by simp only [hj]⟩
    · have hb : (m == n) = false := beq_eq_false_iff_ne.mpr hm
      simp only [hb, Bool.false_eq_true, if_false] at h ⊢
      exact ih hall' hwf.2 h

theorem et_choice (root : Alts) (ext : Bool) (adds : Alts)
    (ihr : AltsAll ET root) (iha : AltsAll ET adds) : ET (.choice root ext adds) := by
  intro v hwf ht
  cases v <;> try (simp only [hasType, Bool.false_eq_true] at ht)
  rename_i n v
  simp only [Ty.wf, Bool.and_eq_true, List.nodup_append, decide_eq_true_eq] at hwf
  obtain ⟨⟨⟨⟨hwr, hwa⟩, _⟩, ⟨_, _, disj⟩⟩, _⟩ := hwf
  simp only [Bool.or_eq_true] at ht
  simp only [toJson]
  cases h1 : altToJson root n v with
  | some r =>
    have hmem : n ∈ root.names := altToJson_mem n v root (by simp [h1])
    have hta : hasAlt adds n v = false :=
      hasAlt_false_of_not_mem n v adds (fun hm => disj n hmem n hm rfl)
    have htr : hasAlt root n v = true := by
      rcases ht with ht | ht
      · exact ht
      · rw [hta] at ht; cases ht
    obtain ⟨J, hJ⟩ := altToJson_total n v root ihr hwr htr
    rw [h1] at hJ
    cases hJ
    exact ⟨J, rfl⟩
  | none =>
    obtain ⟨_, _, n3⟩ := alts_none n v root h1
    have hta : hasAlt adds n v = true := by
      rcases ht with ht | ht
      · rw [n3] at ht; cases ht
      · exact ht
    obtain ⟨J, hJ⟩ := altToJson_total n v adds iha hwa hta
    exact ⟨J, by simp only [hJ]⟩

theorem et_all (t : Ty) : ET t :=
  Ty.rec (motive_1 := ET) (motive_2 := MembersAll ET) (motive_3 := AltsAll ET)
    et_boolean et_null et_integer et_enumerated et_octetString et_bitString et_charString
    (fun root ext adds ihr iha => et_sequence root ext adds ihr iha)
    (fun e c ih => et_sequenceOf e c ih)
    (fun root ext adds ihr iha => et_choice root ext adds ihr iha)
    trivial (fun _ _ _ _ iht ihr => ⟨iht, ihr⟩)
    trivial (fun _ _ _ iht ihr => ⟨iht, ihr⟩) t

end Asn1.Jer
