import Asn1Model.CCursor
/-
  C09 groundwork: invariant of the UPER C helper library model (`Asn1Model/CCursor.lean`) and exact
  characterisations of `encoder_alloc` / `decoder_free` / `*_abort` / `*_get_result`.
  Numeric literals: 2^59 = 576460752303423488, 2^62 = 4611686018427387904,
  2^63 = 9223372036854775808, 2^64 = 18446744073709551616.
-/
namespace Asn1.CCursor

/-! ### small facts about the fixed width layer -/

theorem ssz_ok {x : Int} (h1 : -9223372036854775808 ≤ x) (h2 : x ≤ 9223372036854775807) :
    ssz x = .ok x := by
  simp [ssz, h1, h2]

theorem toSsize_small {n : UInt64} (h : n.toNat < 9223372036854775808) : toSsize n = n.toNat := by
  simp [toSsize, h]

theorem toSize_nonneg {x : Int} (h0 : 0 ≤ x) (h1 : x < 18446744073709551616) :
    (toSize x).toNat = x.toNat := by
  unfold toSize
  rw [UInt64.toNat_ofNat']
  have : (x % 18446744073709551616) = x := Int.emod_eq_of_lt h0 h1
  rw [this]
  omega

theorem shrS32_ok {v s : Nat} (h : s < 32) : shrS32 v s = .ok (v >>> s) := by simp [shrS32, h]
theorem shlS32_ok {v s : Nat} (h : s < 32) (h2 : v <<< s < 2147483648) : shlS32 v s = .ok (v <<< s) := by
  simp [shlS32, h, h2]
theorem shrU32_ok {v : UInt32} {s : Nat} (h : s < 32) : shrU32 v s = .ok (v >>> UInt32.ofNat s) := by simp [shrU32, h]
theorem shlU32_ok {v : UInt32} {s : Nat} (h : s < 32) : shlU32 v s = .ok (v <<< UInt32.ofNat s) := by simp [shlU32, h]
theorem shrU64_ok {v : UInt64} {s : Nat} (h : s < 64) : shrU64 v s = .ok (v >>> UInt64.ofNat s) := by simp [shrU64, h]
theorem shlU64_ok {v : UInt64} {s : Nat} (h : s < 64) : shlU64 v s = .ok (v <<< UInt64.ofNat s) := by simp [shlU64, h]

theorem Mem.load_ok {m : Mem} {i : Nat} (h : i < m.size) : m.load i = .ok m[i]! := by
  simp [Mem.load, h]

theorem Mem.store_ok {m : Mem} {i : Nat} {v : UInt8} (h : i < m.size) : m.store i v = .ok (m.set! i v) := by
  simp [Mem.store, h, Array.set!_eq_setIfInBounds, Array.setIfInBounds]

theorem Mem.loadI_ok {m : Mem} {i : Int} (h0 : 0 ≤ i) (h : i.toNat < m.size) : m.loadI i = .ok m[i.toNat]! := by
  have : ¬ i < 0 := by omega
  simp [Mem.loadI, this, Mem.load_ok h]

theorem Mem.storeI_ok {m : Mem} {i : Int} {v : UInt8} (h0 : 0 ≤ i) (h : i.toNat < m.size) :
    m.storeI i v = .ok (m.set! i.toNat v) := by
  have : ¬ i < 0 := by omega
  simp [Mem.storeI, this, Mem.store_ok h]

theorem Mem.ptr_ok {m : Mem} {i : Nat} (h : i ≤ m.size) : m.ptr i = .ok () := by simp [Mem.ptr, h]

@[simp] theorem Mem.size_set! (m : Mem) (i : Nat) (v : UInt8) : (m.set! i v).size = m.size := by
  simp [Array.set!_eq_setIfInBounds]

/-! ### the invariant -/

/-- Representation invariant of `struct encoder_t`: the memory object is smaller than 2^59 bytes and
either the cursor is live (`0 ≤ pos ≤ size ≤ 8·|object|`) or the error is latched
(`size = pos = -error`). -/
def Enc.Inv (e : Enc) : Prop :=
  e.buf.size < 576460752303423488 ∧
  ((0 ≤ e.pos ∧ e.pos ≤ e.size ∧ e.size ≤ 8 * (e.buf.size : Int)) ∨
   (e.size < 0 ∧ e.pos = e.size ∧ -4611686018427387904 ≤ e.size))

/-- the error latch is set -/
def Enc.Latched (e : Enc) : Prop := e.size < 0

def Dec.Inv (d : Dec) : Prop :=
  d.buf.size < 576460752303423488 ∧
  ((0 ≤ d.pos ∧ d.pos ≤ d.size ∧ d.size ≤ 8 * (d.buf.size : Int)) ∨
   (d.size < 0 ∧ d.pos = d.size ∧ -4611686018427387904 ≤ d.size))

def Dec.Latched (d : Dec) : Prop := d.size < 0

/-- the latched state with error code `err` -/
def Enc.latch (e : Enc) (err : Int) : Enc := { e with size := -err, pos := -err }
def Dec.latch (d : Dec) (err : Int) : Dec := { d with size := -err, pos := -err }

/-! ### init / abort / get_result -/

theorem Enc.init_ok {buf : Mem} {size : UInt64} (h : size.toNat < 576460752303423488) :
    Enc.init buf size = .ok { buf := buf, size := 8 * (size.toNat : Int), pos := 0 } := by
  unfold Enc.init
  rw [toSsize_small (by omega), ssz_ok (by omega) (by omega)]
  rfl

theorem Enc.init_inv {buf : Mem} {size : UInt64} (hs : size.toNat ≤ buf.size)
    (hb : buf.size < 576460752303423488) :
    ∃ e, Enc.init buf size = .ok e ∧ e.Inv ∧ e.buf = buf ∧ e.pos = 0 ∧ e.size = 8 * (size.toNat : Int) := by
  refine ⟨_, Enc.init_ok (by omega), ?_, rfl, rfl, rfl⟩
  refine ⟨hb, Or.inl ⟨?_, ?_, ?_⟩⟩ <;> simp <;> omega

theorem Dec.init_ok {buf : Mem} {size : UInt64} (h : size.toNat < 576460752303423488) :
    Dec.init buf size = .ok { buf := buf, size := 8 * (size.toNat : Int), pos := 0 } := by
  unfold Dec.init
  rw [toSsize_small (by omega), ssz_ok (by omega) (by omega)]
  rfl

theorem Dec.init_inv {buf : Mem} {size : UInt64} (hs : size.toNat ≤ buf.size)
    (hb : buf.size < 576460752303423488) :
    ∃ d, Dec.init buf size = .ok d ∧ d.Inv ∧ d.buf = buf ∧ d.pos = 0 ∧ d.size = 8 * (size.toNat : Int) := by
  refine ⟨_, Dec.init_ok (by omega), ?_, rfl, rfl, rfl⟩
  refine ⟨hb, Or.inl ⟨?_, ?_, ?_⟩⟩ <;> simp <;> omega

theorem Enc.abort_latched {e : Enc} (h : e.size < 0) (err : Int) : e.abort err = .ok e := by
  have : ¬ e.size ≥ 0 := by omega
  simp [Enc.abort, this]

theorem Enc.abort_live {e : Enc} (h : 0 ≤ e.size) {err : Int}
    (h1 : -9223372036854775807 ≤ err) (h2 : err ≤ 9223372036854775808) :
    e.abort err = .ok (e.latch err) := by
  unfold Enc.abort
  rw [if_pos (by omega), ssz_ok (by omega) (by omega)]
  rfl

theorem Dec.abort_latched {d : Dec} (h : d.size < 0) (err : Int) : d.abort err = .ok d := by
  have : ¬ d.size ≥ 0 := by omega
  simp [Dec.abort, this]

theorem Dec.abort_live {d : Dec} (h : 0 ≤ d.size) {err : Int}
    (h1 : -9223372036854775807 ≤ err) (h2 : err ≤ 9223372036854775808) :
    d.abort err = .ok (d.latch err) := by
  unfold Dec.abort
  rw [if_pos (by omega), ssz_ok (by omega) (by omega)]
  rfl

theorem Enc.latch_inv {e : Enc} (hb : e.buf.size < 576460752303423488) {err : Int}
    (h1 : 0 < err) (h2 : err ≤ 4611686018427387904) : (e.latch err).Inv := by
  refine ⟨hb, Or.inr ⟨?_, rfl, ?_⟩⟩ <;> simp [Enc.latch] <;> omega

theorem Dec.latch_inv {d : Dec} (hb : d.buf.size < 576460752303423488) {err : Int}
    (h1 : 0 < err) (h2 : err ≤ 4611686018427387904) : (d.latch err).Inv := by
  refine ⟨hb, Or.inr ⟨?_, rfl, ?_⟩⟩ <;> simp [Dec.latch] <;> omega

theorem Enc.getResult_live {e : Enc} (hi : e.Inv) (h : 0 ≤ e.size) :
    e.getResult = .ok ((e.pos + 7) / 8) := by
  obtain ⟨hb, hi | hi⟩ := hi
  · unfold Enc.getResult
    rw [if_pos (by omega), ssz_ok (by omega) (by omega)]
    simp only [bind, Except.bind]
    rw [Int.tdiv_eq_ediv_of_nonneg (by omega)]
  · omega

theorem Enc.getResult_latched {e : Enc} (h : e.size < 0) : e.getResult = .ok e.pos := by
  have : ¬ e.size ≥ 0 := by omega
  simp [Enc.getResult, this]

theorem Dec.getResult_live {d : Dec} (hi : d.Inv) (h : 0 ≤ d.size) :
    d.getResult = .ok ((d.pos + 7) / 8) := by
  obtain ⟨hb, hi | hi⟩ := hi
  · unfold Dec.getResult
    rw [if_pos (by omega), ssz_ok (by omega) (by omega)]
    simp only [bind, Except.bind]
    rw [Int.tdiv_eq_ediv_of_nonneg (by omega)]
  · omega

theorem Dec.getResult_latched {d : Dec} (h : d.size < 0) : d.getResult = .ok d.pos := by
  have : ¬ d.size ≥ 0 := by omega
  simp [Dec.getResult, this]

/-! ### `encoder_alloc` -/

/-- room: the cursor advances -/
theorem Enc.alloc_ok {e : Enc} (hi : e.Inv) {n : UInt64} (hn : n.toNat < 4611686018427387904)
    (h0 : 0 ≤ e.size) (h : e.pos + n.toNat ≤ e.size) :
    e.alloc n = .ok (e.pos, { e with pos := e.pos + n.toNat }) := by
  obtain ⟨hb, hi | hi⟩ := hi
  · unfold Enc.alloc
    rw [toSsize_small (by omega), ssz_ok (by omega) (by omega)]
    simp only [bind, Except.bind]
    rw [if_pos h]
  · omega

/-- no room: `-ENOMEM` is latched -/
theorem Enc.alloc_full {e : Enc} (hi : e.Inv) {n : UInt64} (hn : n.toNat < 4611686018427387904)
    (h0 : 0 ≤ e.size) (h : e.size < e.pos + n.toNat) :
    e.alloc n = .ok (-12, e.latch 12) := by
  obtain ⟨hb, hi | hi⟩ := hi
  · unfold Enc.alloc
    rw [toSsize_small (by omega), ssz_ok (by omega) (by omega)]
    simp only [bind, Except.bind]
    rw [if_neg (by omega)]
    simp only [ENOMEM]
    rw [ssz_ok (by omega) (by omega), Enc.abort_live h0 (by omega) (by omega)]
  · omega

/-- latched: nothing changes and a negative position is returned -/
theorem Enc.alloc_latched {e : Enc} (hi : e.Inv) {n : UInt64} (hn : n.toNat < 4611686018427387904)
    (h0 : e.size < 0) : ∃ p, p < 0 ∧ e.alloc n = .ok (p, e) := by
  obtain ⟨hb, hi | ⟨_, hp, hlo⟩⟩ := hi
  · omega
  · unfold Enc.alloc
    rw [toSsize_small (by omega), ssz_ok (by omega) (by omega)]
    simp only [bind, Except.bind]
    by_cases hz : n.toNat = 0
    · refine ⟨e.pos, by omega, ?_⟩
      rw [if_pos (by omega)]
      have : e.pos + (n.toNat : Int) = e.pos := by omega
      rw [this]
    · refine ⟨-12, by omega, ?_⟩
      rw [if_neg (by omega)]
      simp only [ENOMEM]
      rw [ssz_ok (by omega) (by omega), Enc.abort_latched h0]

/-! ### `decoder_free` -/

theorem Dec.free_ok {d : Dec} (hi : d.Inv) {n : UInt64} (hn : n.toNat < 4611686018427387904)
    (h0 : 0 ≤ d.size) (h : d.pos + n.toNat ≤ d.size) :
    d.free n = .ok (d.pos, { d with pos := d.pos + n.toNat }) := by
  obtain ⟨hb, hi | hi⟩ := hi
  · unfold Dec.free
    rw [toSsize_small (by omega), ssz_ok (by omega) (by omega)]
    simp only [bind, Except.bind]
    rw [if_pos h]
  · omega

theorem Dec.free_empty {d : Dec} (hi : d.Inv) {n : UInt64} (hn : n.toNat < 4611686018427387904)
    (h0 : 0 ≤ d.size) (h : d.size < d.pos + n.toNat) :
    d.free n = .ok (-500, d.latch 500) := by
  obtain ⟨hb, hi | hi⟩ := hi
  · unfold Dec.free
    rw [toSsize_small (by omega), ssz_ok (by omega) (by omega)]
    simp only [bind, Except.bind]
    rw [if_neg (by omega)]
    simp only [EOUTOFDATA]
    rw [ssz_ok (by omega) (by omega), Dec.abort_live h0 (by omega) (by omega)]
  · omega

theorem Dec.free_latched {d : Dec} (hi : d.Inv) {n : UInt64} (hn : n.toNat < 4611686018427387904)
    (h0 : d.size < 0) : ∃ p, p < 0 ∧ d.free n = .ok (p, d) := by
  obtain ⟨hb, hi | ⟨_, hp, hlo⟩⟩ := hi
  · omega
  · unfold Dec.free
    rw [toSsize_small (by omega), ssz_ok (by omega) (by omega)]
    simp only [bind, Except.bind]
    by_cases hz : n.toNat = 0
    · refine ⟨d.pos, by omega, ?_⟩
      rw [if_pos (by omega)]
      have : d.pos + (n.toNat : Int) = d.pos := by omega
      rw [this]
    · refine ⟨-500, by omega, ?_⟩
      rw [if_neg (by omega)]
      simp only [EOUTOFDATA]
      rw [ssz_ok (by omega) (by omega), Dec.abort_latched h0]

end Asn1.CCursor
