import Asn1Proofs.Lemmas.PerSeqExt
/-
  Aligned PER: the type checker pass of `Specification.encode` accepts every well-typed value.
-/
set_option linter.unusedSimpArgs false
namespace Asn1.Per
open Asn1.Uper (find_none_iff find_all all_wf hasAlt_find)

def TC (t : Ty) : Prop := ∀ v : Val, t.wf = true → hasType t v = true → typeCheck t v = true

theorem typeCheckAlt_find (as : Alts) (name : String) (v : Val) :
    typeCheckAlt as name v = (as.find name).map (fun x => typeCheck x.2 v) := by
  induction as using Alts.ind with
  | nil => rfl
  | cons n t rest ih =>
    simp only [typeCheckAlt, Alts.find]
    split
    · rfl
    · rw [ih]
      cases rest.find name <;> rfl

theorem typeCheckMembers_cons (name : String) (p : Presence) (t : Ty) (rest : Members)
    (fs : List (String × Val)) :
    typeCheckMembers (.cons name p t rest) fs =
      ((match lookup name fs with
        | some v => typeCheck t v
        | none => true) && typeCheckMembers rest fs) := by
  cases p <;> rfl

theorem tc_members (fs : List (String × Val)) (ms : Members) :
    ms.All TC → ms.wf = true → membersOk ms fs = true → typeCheckMembers ms fs = true := by
  induction ms using Members.ind with
  | nil => intros; rfl
  | cons name p t ms ih =>
    intro hall hwf hok
    simp only [Members.wf, membersOk, Bool.and_eq_true] at hwf hok
    rw [typeCheckMembers_cons, ih hall.2 hwf.2 hok.2, Bool.and_true]
    cases hl : lookup name fs with
    | some v =>
      simp only [hl] at hok
      exact hall.1 v hwf.1 hok.1
    | none => rfl

theorem tc_boolean : TC .boolean := by
  intro v _ ht
  cases v <;> simp only [hasType, Bool.false_eq_true] at ht
  rfl

theorem tc_null : TC .null := by
  intro v _ ht
  cases v <;> simp only [hasType, Bool.false_eq_true] at ht
  rfl

theorem tc_integer (c : IntC) : TC (.integer c) := by
  intro v _ ht
  cases v <;> simp only [hasType, Bool.false_eq_true] at ht
  rfl

theorem tc_enumerated (r : List (String × Int)) (e : Option (List (String × Int))) :
    TC (.enumerated r e) := by
  intro v _ ht
  cases v <;> simp only [hasType, Bool.false_eq_true] at ht
  rfl

theorem tc_octetString (c : SizeC) : TC (.octetString c) := by
  intro v _ ht
  cases v <;> simp only [hasType, Bool.false_eq_true] at ht
  rfl

theorem tc_bitString (c : SizeC) : TC (.bitString c) := by
  intro v _ ht
  cases v <;> simp only [hasType, Bool.false_eq_true] at ht
  simp only [Bool.and_eq_true, decide_eq_true_eq] at ht
  simp only [typeCheck, decide_eq_true_eq]
  omega

theorem tc_charString (k : StrKind) (c : SizeC) : TC (.charString k c) := by
  intro v _ ht
  cases v <;> simp only [hasType, Bool.false_eq_true] at ht
  rfl

theorem tc_sequence (root : Members) (ext : Bool) (adds : Members)
    (ihr : root.All TC) (iha : adds.All TC) : TC (.sequence root ext adds) := by
  intro v hwf ht
  cases v <;> try (simp only [hasType, Bool.false_eq_true] at ht; done)
  rename_i fs
  rw [Ty.wf] at hwf
  simp only [Bool.and_eq_true, decide_eq_true_eq, Bool.or_eq_true, beq_iff_eq] at hwf
  obtain ⟨⟨⟨⟨hrwf, hawf⟩, hnd⟩, _⟩, _⟩ := hwf
  obtain ⟨hokr, hoka⟩ := membersOk_of_hasType root adds ext fs hnd ht
  simp only [typeCheck, Bool.and_eq_true]
  exact ⟨tc_members fs root ihr hrwf hokr, tc_members fs adds iha hawf hoka⟩

theorem tc_sequenceOf (e : Ty) (c : SizeC) (ih : TC e) : TC (.sequenceOf e c) := by
  intro v hwf ht
  cases v <;> simp only [hasType, Bool.false_eq_true] at ht
  rename_i vs
  rw [Ty.wf] at hwf
  simp only [Bool.and_eq_true, List.all_eq_true] at ht hwf
  simp only [typeCheck, List.all_eq_true]
  exact fun v hv => ih v hwf.1 (ht.1 v hv)

theorem tc_choice (root : Alts) (ext : Bool) (adds : Alts)
    (ihr : root.All TC) (iha : adds.All TC) : TC (.choice root ext adds) := by
  intro v hwf ht
  cases v <;> simp only [hasType, Bool.false_eq_true] at ht
  rename_i name w
  rw [Ty.wf] at hwf
  simp only [Bool.and_eq_true, Bool.or_eq_true, decide_eq_true_eq, beq_iff_eq] at ht hwf
  obtain ⟨⟨⟨⟨hrwf, hawf⟩, _⟩, hnd⟩, _⟩ := hwf
  rw [hasAlt_find, hasAlt_find] at ht
  simp only [typeCheck, typeCheckAlt_find]
  cases hfr : root.find name with
  | some x =>
    obtain ⟨j, t⟩ := x
    have hnr : name ∈ root.names := by
      by_cases h : name ∈ root.names
      · exact h
      · have := (find_none_iff name root).2 h
        rw [this] at hfr; cases hfr
    have hfa : adds.find name = none := by
      rw [find_none_iff]
      intro hna
      exact (List.nodup_append.1 hnd).2.2 name hnr name hna rfl
    simp only [hfr, hfa, Bool.false_eq_true, or_false] at ht
    simp only [Option.map_some]
    exact find_all name root j t hfr ihr w (find_all name root j t hfr (all_wf root hrwf)) ht
  | none =>
    simp only [hfr, Bool.false_eq_true, false_or] at ht
    cases hfa : adds.find name with
    | none => simp [hfa] at ht
    | some x =>
      obtain ⟨j, t⟩ := x
      simp only [hfa] at ht
      simp only [Option.map_none, Option.map_some, Option.getD_some]
      exact find_all name adds j t hfa iha w (find_all name adds j t hfa (all_wf adds hawf)) ht

theorem tc_all (t : Ty) : TC t :=
  Ty.rec (motive_1 := TC) (motive_2 := Members.All TC) (motive_3 := Alts.All TC)
    tc_boolean tc_null tc_integer tc_enumerated tc_octetString tc_bitString tc_charString
    (fun root ext adds ihr iha => tc_sequence root ext adds ihr iha)
    (fun e c ih => tc_sequenceOf e c ih)
    (fun root ext adds ihr iha => tc_choice root ext adds ihr iha)
    trivial (fun _ _ _ _ iht ihr => ⟨iht, ihr⟩)
    trivial (fun _ _ _ iht ihr => ⟨iht, ihr⟩) t

end Asn1.Per
