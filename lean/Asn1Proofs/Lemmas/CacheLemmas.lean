import Asn1Model.Cache
/-
  Auxiliary lemmas for C17 (compile cache transparency).
-/
namespace Asn1.CacheLemmas
open Asn1 Asn1.Cache

/-! ### decimal digits -/

theorem digits_eq (n : Nat) : digits n = (Nat.toDigits 10 n).map Char.toNat := by
  simp [digits]

theorem map_toNat_injective {l m : List Char} (h : l.map Char.toNat = m.map Char.toNat) : l = m := by
  induction l generalizing m with
  | nil => cases m <;> simp_all
  | cons a l ih =>
    cases m with
    | nil => simp at h
    | cons b m =>
      simp only [List.map_cons, List.cons.injEq] at h
      rw [Char.toNat_inj.mp h.1, ih h.2]

theorem digits_injective {n m : Nat} (h : digits n = digits m) : n = m := by
  rw [digits_eq, digits_eq] at h
  have h' := map_toNat_injective h
  have := congrArg (fun l => Nat.ofDigitChars 10 l 0) h'
  simpa using this

theorem digits_ne_colon {n d : Nat} (h : d ∈ digits n) : d ≠ 58 := by
  rw [digits_eq] at h
  obtain ⟨c, hc, rfl⟩ := List.mem_map.mp h
  have hd := Nat.isDigit_of_mem_toDigits (by decide) (by decide) hc
  simp only [Char.isDigit, Bool.and_eq_true, decide_eq_true_eq] at hd
  intro h58
  have : c.val.toNat = 58 := h58
  have h1 : c.val.toNat ≤ 57 := by
    have := hd.2
    exact UInt32.le_iff_toNat_le.mp this
  omega

/-! ### splitting at the first separator -/

theorem split_at_sep {sep : Nat} {a b x y : List Nat} (ha : ∀ d ∈ a, d ≠ sep) (hb : ∀ d ∈ b, d ≠ sep)
    (h : a ++ sep :: x = b ++ sep :: y) : a = b ∧ x = y := by
  induction a generalizing b with
  | nil =>
    cases b with
    | nil => simpa using h
    | cons b0 b =>
      simp only [List.nil_append, List.cons_append, List.cons.injEq] at h
      exact absurd h.1.symm (hb b0 (by simp))
  | cons a0 a ih =>
    cases b with
    | nil =>
      simp only [List.nil_append, List.cons_append, List.cons.injEq] at h
      exact absurd h.1 (ha a0 (by simp))
    | cons b0 b =>
      simp only [List.cons_append, List.cons.injEq] at h
      obtain ⟨rfl, h⟩ := h
      have := ih (b := b) (fun d hd => ha d (by simp [hd])) (fun d hd => hb d (by simp [hd])) h
      exact ⟨by rw [this.1], this.2⟩

/-- a netstring followed by anything determines the payload and the rest -/
theorem netstring_append_inj {f g r s : List Nat} (h : netstring f ++ r = netstring g ++ s) :
    f = g ∧ r = s := by
  simp only [netstring, List.append_assoc, List.singleton_append] at h
  have := split_at_sep (fun d hd => digits_ne_colon hd) (fun d hd => digits_ne_colon hd) h
  have hlen : f.length = g.length := digits_injective this.1
  exact List.append_inj this.2 hlen

theorem netstring_ne_nil (f : List Nat) : netstring f ≠ [] := by
  simp [netstring]

theorem flatMap_netstring_injective (fs gs : List (List Nat))
    (h : fs.flatMap netstring = gs.flatMap netstring) : fs = gs := by
  induction fs generalizing gs with
  | nil =>
    cases gs with
    | nil => rfl
    | cons g gs =>
      simp only [List.flatMap_nil, List.flatMap_cons] at h
      have := List.append_eq_nil_iff.mp h.symm
      exact absurd this.1 (netstring_ne_nil g)
  | cons f fs ih =>
    cases gs with
    | nil =>
      simp only [List.flatMap_nil, List.flatMap_cons] at h
      have := List.append_eq_nil_iff.mp h
      exact absurd this.1 (netstring_ne_nil f)
    | cons g gs =>
      simp only [List.flatMap_cons] at h
      obtain ⟨hfg, hrest⟩ := netstring_append_inj h
      rw [hfg, ih gs hrest]

/-! ### prefix-freeness of the extracted codec table -/

theorem prefixFree_of_list (l : List (List Nat))
    (h : ∀ a ∈ l, ∀ b ∈ l, a <+: b → a = b) : PrefixFree (fun a => a ∈ l) := by
  intro a b x y ha hb hab
  rcases List.append_eq_append_iff.mp hab with ⟨c, rfl, _⟩ | ⟨c, rfl, _⟩
  · exact h a ha _ hb (List.prefix_append a c)
  · exact (h b hb _ ha (List.prefix_append b c)).symm

/-! ### the store -/

theorem find_some_mem {ρ : Type} {k : List Nat} {s : Store ρ} {r : ρ} (h : find k s = some r) :
    (k, r) ∈ s := by
  induction s with
  | nil => simp [find] at h
  | cons e s ih =>
    obtain ⟨k', r'⟩ := e
    simp only [find] at h
    split at h
    · next hk =>
      cases h; subst hk; simp
    · exact List.mem_cons_of_mem _ (ih h)

end Asn1.CacheLemmas
