import Asn1Proofs.Lemmas.PrepAll
/-
  Lemmas about pass 4 of the dictionary rewrite (`pre_process_default_value`) on descriptors:
  it commutes with the tag pass and the EXTENSIBILITY IMPLIED pass, a second application (possibly
  with another `numeric_enums` flag) is absorbed wherever the attribute-level conversion absorbs it,
  and it keeps "every descriptor satisfies P".
-/
namespace Asn1.SpecDict

section
variable (sk : Skel) (n : Bool) (mn : String)

@[simp] theorem convAttrs_core (a : Attrs) : (convAttrs sk n mn a).core = a.core := by
  obtain ⟨ty, nm, tg, op, df, vs, nb, ex⟩ := a
  cases df <;> rfl

@[simp] theorem convAttrs_type (a : Attrs) : (convAttrs sk n mn a).type = a.type :=
  congrArg Core.type (convAttrs_core sk n mn a)

@[simp] theorem convAttrs_tag (a : Attrs) : (convAttrs sk n mn a).tag = a.tag := by
  obtain ⟨ty, nm, tg, op, df, vs, nb, ex⟩ := a
  cases df <;> rfl

theorem convAttrs_default (a : Attrs) :
    (convAttrs sk n mn a).default = a.default.map (convDefault n (resolve sk a.core mn)) := by
  obtain ⟨ty, nm, tg, op, df, vs, nb, ex⟩ := a
  cases df <;> rfl

/-- the conversion of the DEFAULT commutes with the two tag rewrites -/
theorem kind_num_convAttrs (mt mn' : String) (k : Option Nat) (a : Attrs) :
    kindAttrs sk mt mn' (numAttrs k (convAttrs sk n mn a))
      = convAttrs sk n mn (kindAttrs sk mt mn' (numAttrs k a)) := by
  obtain ⟨ty, nm, tg, op, df, vs, nb, ex⟩ := a
  cases df <;> cases k <;> cases tg with
    | none => rfl
    | some t => obtain ⟨num, c, kd⟩ := t; cases kd <;> rfl

@[simp] theorem defDesc_attrs (c : Bool) (d : Desc) :
    (defDesc sk n mn c d).attrs = if c then convAttrs sk n mn d.attrs else d.attrs := by
  cases d; simp [defDesc, Desc.attrs]

theorem defDesc_tag_isSome (c : Bool) (d : Desc) :
    (defDesc sk n mn c d).attrs.tag.isSome = d.attrs.tag.isSome := by
  cases c <;> simp

@[simp] theorem defDescs_length (c : Bool) (g : List Desc) : (defDescs sk n mn c g).length = g.length := by
  induction g with
  | nil => simp [defDescs]
  | cons d t ih => simp [defDescs, ih]

theorem anyTaggedDescs_defDescs (c : Bool) (g : List Desc) :
    anyTaggedDescs (defDescs sk n mn c g) = anyTaggedDescs g := by
  induction g with
  | nil => simp [defDescs]
  | cons d t ih => cases c <;> simp [defDescs, anyTaggedDescs, ih]

theorem anyTagged_defItems (c : Bool) (l : List Item) :
    anyTagged (defItems sk n mn c l) = anyTagged l := by
  induction l with
  | nil => simp [defItems]
  | cons i t ih =>
    cases i <;> cases c <;> simp [defItems, defItem, anyTagged, ih, anyTaggedDescs_defDescs]

theorem hasMarker_defItems (c : Bool) (l : List Item) :
    hasMarker (defItems sk n mn c l) = hasMarker l := by
  induction l with
  | nil => simp [defItems]
  | cons i t ih => cases i <;> simp [defItems, defItem, hasMarker, ih]

theorem defItems_append_marker (c : Bool) (l : List Item) :
    defItems sk n mn c (l ++ [.marker]) = defItems sk n mn c l ++ [.marker] := by
  induction l with
  | nil => simp [defItems, defItem]
  | cons i t ih => simp [defItems, ih]

theorem defItems_addMarker (c : Bool) (l : List Item) :
    defItems sk n mn c (addMarker l) = addMarker (defItems sk n mn c l) := by
  unfold addMarker
  rw [hasMarker_defItems]
  split
  · rfl
  · exact defItems_append_marker sk n mn c l

/-! ### commutation with the EXTENSIBILITY IMPLIED pass -/
mutual
  theorem extDesc_defDesc (c : Bool) (d : Desc) :
      extDesc (defDesc sk n mn c d) = defDesc sk n mn c (extDesc d) := by
    cases d with
    | mk a b => simp only [defDesc, extDesc]; rw [extBody_defBody _ b]
  theorem extBody_defBody (c : Bool) (b : Body) :
      extBody (defBody sk n mn c b) = defBody sk n mn c (extBody b) := by
    cases b with
    | leaf => simp [defBody, extBody]
    | element e => simp only [defBody, extBody]; rw [extDesc_defDesc false e]
    | members ms =>
      simp only [defBody, extBody]
      rw [extItems_defItems c ms, defItems_addMarker]
  theorem extItems_defItems (c : Bool) (l : List Item) :
      extItems (defItems sk n mn c l) = defItems sk n mn c (extItems l) := by
    cases l with
    | nil => simp [defItems, extItems]
    | cons i t =>
      simp only [defItems, extItems]
      rw [extItem_defItem c i, extItems_defItems c t]
  theorem extItem_defItem (c : Bool) (i : Item) :
      extItem (defItem sk n mn c i) = defItem sk n mn c (extItem i) := by
    cases i with
    | marker => simp [defItem, extItem]
    | compOf r => simp [defItem, extItem]
    | group g => simp only [defItem, extItem]; rw [extDescs_defDescs c g]
    | desc d => simp only [defItem, extItem]; rw [extDesc_defDesc c d]
  theorem extDescs_defDescs (c : Bool) (g : List Desc) :
      extDescs (defDescs sk n mn c g) = defDescs sk n mn c (extDescs g) := by
    cases g with
    | nil => simp [defDescs, extDescs]
    | cons d t =>
      simp only [defDescs, extDescs]
      rw [extDesc_defDesc c d, extDescs_defDescs c t]
end

/-! ### commutation with the tag pass (the two passes may even use different skeleton / module) -/
section
variable (mt mn' : String)

mutual
  theorem tagDesc_defDesc (k : Option Nat) (c : Bool) (d : Desc) :
      tagDesc sk mt mn' k (defDesc sk n mn c d) = defDesc sk n mn c (tagDesc sk mt mn' k d) := by
    cases d with
    | mk a b =>
      simp only [defDesc, tagDesc, kindAttrs_type, numAttrs_type]
      rw [tagBody_defBody _ b]
      cases c with
      | false => simp
      | true => simp [kind_num_convAttrs]
  theorem tagBody_defBody (c : Bool) (b : Body) :
      tagBody sk mt mn' (defBody sk n mn c b) = defBody sk n mn c (tagBody sk mt mn' b) := by
    cases b with
    | leaf => simp [defBody, tagBody]
    | element e => simp only [defBody, tagBody]; rw [tagDesc_defDesc none false e]
    | members ms =>
      simp only [defBody, tagBody]
      rw [anyTagged_defItems, tagItems_defItems _ c ms]
  theorem tagItems_defItems (k : Option Nat) (c : Bool) (l : List Item) :
      tagItems sk mt mn' k (defItems sk n mn c l) = defItems sk n mn c (tagItems sk mt mn' k l) := by
    cases l with
    | nil => simp [defItems, tagItems]
    | cons i t =>
      cases i with
      | marker => simp only [defItems, defItem, tagItems]; rw [tagItems_defItems k c t]
      | compOf r => simp only [defItems, defItem, tagItems]; rw [tagItems_defItems k c t]
      | group g =>
        simp only [defItems, defItem, tagItems, defDescs_length]
        rw [tagDescs_defDescs k c g, tagItems_defItems _ c t]
      | desc d =>
        simp only [defItems, defItem, tagItems]
        rw [tagDesc_defDesc k c d, tagItems_defItems _ c t]
  theorem tagDescs_defDescs (k : Option Nat) (c : Bool) (g : List Desc) :
      tagDescs sk mt mn' k (defDescs sk n mn c g) = defDescs sk n mn c (tagDescs sk mt mn' k g) := by
    cases g with
    | nil => simp [defDescs, tagDescs]
    | cons d t =>
      simp only [defDescs, tagDescs]
      rw [tagDesc_defDesc k c d, tagDescs_defDescs _ c t]
end
end

/-! ### "every descriptor satisfies P" -/
section
variable {P : Attrs → Prop} (hP : ∀ a, P a → P (convAttrs sk n mn a))
include hP

mutual
  theorem Desc.All.dflt (c : Bool) (d : Desc) (hd : d.All P) : (defDesc sk n mn c d).All P := by
    cases d with
    | mk a b =>
      simp only [Desc.All, defDesc] at hd ⊢
      refine ⟨?_, Body.All.dflt _ b hd.2⟩
      cases c with
      | false => simpa using hd.1
      | true => simpa using hP a hd.1
  theorem Body.All.dflt (c : Bool) (b : Body) (hb : b.All P) : (defBody sk n mn c b).All P := by
    cases b with
    | leaf => simp [Body.All, defBody]
    | members ms => simp only [Body.All, defBody] at hb ⊢; exact ItemsAll.dflt c ms hb
    | element e => simp only [Body.All, defBody] at hb ⊢; exact Desc.All.dflt false e hb
  theorem ItemsAll.dflt (c : Bool) (l : List Item) (hl : ItemsAll P l) :
      ItemsAll P (defItems sk n mn c l) := by
    cases l with
    | nil => simp [ItemsAll, defItems]
    | cons i t =>
      simp only [ItemsAll, defItems] at hl ⊢
      exact ⟨Item.All.dflt c i hl.1, ItemsAll.dflt c t hl.2⟩
  theorem Item.All.dflt (c : Bool) (i : Item) (hi : i.All P) : (defItem sk n mn c i).All P := by
    cases i with
    | marker => simp [Item.All, defItem]
    | compOf r => simp [Item.All, defItem]
    | group g => simp only [Item.All, defItem] at hi ⊢; exact DescsAll.dflt c g hi
    | desc d => simp only [Item.All, defItem] at hi ⊢; exact Desc.All.dflt c d hi
  theorem DescsAll.dflt (c : Bool) (l : List Desc) (hl : DescsAll P l) : DescsAll P (defDescs sk n mn c l) := by
    cases l with
    | nil => simp [DescsAll, defDescs]
    | cons d t =>
      simp only [DescsAll, defDescs] at hl ⊢
      exact ⟨Desc.All.dflt c d hl.1, DescsAll.dflt c t hl.2⟩
end
end

/-! ### a second application is absorbed -/

/-- the attribute-level absorption property (idempotence for `m = n`) -/
def Absorbs (m : Bool) (a : Attrs) : Prop :=
  convAttrs sk n mn (convAttrs sk m mn a) = convAttrs sk n mn a

section
variable (m : Bool)

mutual
  theorem defDesc_absorb (c : Bool) (d : Desc) (hd : d.All (Absorbs sk n mn m)) :
      defDesc sk n mn c (defDesc sk m mn c d) = defDesc sk n mn c d := by
    cases d with
    | mk a b =>
      simp only [Desc.All] at hd
      simp only [defDesc]
      have hb : defBody sk n mn (isSeqOrSet (if c = true then convAttrs sk m mn a else a).type)
          (defBody sk m mn (isSeqOrSet a.type) b) = defBody sk n mn (isSeqOrSet a.type) b := by
        have : (if c = true then convAttrs sk m mn a else a).type = a.type := by
          cases c <;> simp
        rw [this]
        exact defBody_absorb _ b hd.2
      rw [hb]
      cases c with
      | false => simp
      | true => simp only [if_true]; rw [hd.1]
  theorem defBody_absorb (c : Bool) (b : Body) (hb : b.All (Absorbs sk n mn m)) :
      defBody sk n mn c (defBody sk m mn c b) = defBody sk n mn c b := by
    cases b with
    | leaf => simp [defBody]
    | members ms =>
      simp only [Body.All] at hb
      simp only [defBody]; rw [defItems_absorb c ms hb]
    | element e =>
      simp only [Body.All] at hb
      simp only [defBody]; rw [defDesc_absorb false e hb]
  theorem defItems_absorb (c : Bool) (l : List Item) (hl : ItemsAll (Absorbs sk n mn m) l) :
      defItems sk n mn c (defItems sk m mn c l) = defItems sk n mn c l := by
    cases l with
    | nil => simp [defItems]
    | cons i t =>
      simp only [ItemsAll] at hl
      simp only [defItems]
      rw [defItem_absorb c i hl.1, defItems_absorb c t hl.2]
  theorem defItem_absorb (c : Bool) (i : Item) (hi : i.All (Absorbs sk n mn m)) :
      defItem sk n mn c (defItem sk m mn c i) = defItem sk n mn c i := by
    cases i with
    | marker => simp [defItem]
    | compOf r => simp [defItem]
    | group g => simp only [Item.All] at hi; simp only [defItem]; rw [defDescs_absorb c g hi]
    | desc d => simp only [Item.All] at hi; simp only [defItem]; rw [defDesc_absorb c d hi]
  theorem defDescs_absorb (c : Bool) (l : List Desc) (hl : DescsAll (Absorbs sk n mn m) l) :
      defDescs sk n mn c (defDescs sk m mn c l) = defDescs sk n mn c l := by
    cases l with
    | nil => simp [defDescs]
    | cons d t =>
      simp only [DescsAll] at hl
      simp only [defDescs]
      rw [defDesc_absorb c d hl.1, defDescs_absorb c t hl.2]
end
end

end

end Asn1.SpecDict
