import Asn1Proofs.Lemmas.Bridge
import Asn1Proofs.Lemmas.BerFramingLemmas
import Asn1Proofs.Properties.C15
/-
  BRIDGE, part 4: the BER/DER framing readers `skip_tag`, `decode_length`, `skip_tag_length_contents`,
  `detect_end_of_contents_tag` and the length probe `decode_full_length` of /repo/asn1tools/codecs/ber.py, translated from the
  source on every run (exceptions with their attributes: `Except Py.Err`), against the model of Asn1Model/BerFraming.lean —
  and, composed with C15's theorems, the property statement of C15 DIRECTLY about the translated `decode_full_length`.
-/
set_option linter.unusedVariables false   -- `hp`, `hd` of the statements as given are kept although two proofs do not need them
namespace Asn1.Bridge
open Asn1 Asn1.Translated Asn1.Ber

def allBytes (bs : Bytes) : Prop := ∀ b ∈ bs, b < 256

/-! ### helpers: `try: data[offset] except IndexError: raise OutOfByteDataError(offset=…)`, slices, masks -/

theorem allBytes_cons {b : Nat} {r : Bytes} (h : allBytes (b :: r)) : b < 256 ∧ allBytes r :=
  ⟨h b (by simp), fun x hx => h x (by simp [hx])⟩

theorem allBytes_append {a b : Bytes} (ha : allBytes a) (hb : allBytes b) : allBytes (a ++ b) := by
  intro x hx
  rcases List.mem_append.1 hx with h | h
  · exact ha x h
  · exact hb x h

theorem allBytes_take {a : Bytes} (k : Nat) (ha : allBytes a) : allBytes (a.take k) :=
  fun x hx => ha x (List.mem_of_mem_take hx)

theorem allBytes_drop {a : Bytes} (k : Nat) (ha : allBytes a) : allBytes (a.drop k) :=
  fun x hx => ha x (List.mem_of_mem_drop hx)

/-- the guarded read inside the data -/
theorem getIdx_catch_mid (pre : List Nat) (x : Nat) (post : List Nat) (off : Int) :
    Py.catchWith (Py.liftE (Py.getIdx (ofNats (pre ++ x :: post)) (pre.length : Int)))
      (fun e__ => if Py.isSub excParent e__.cls "IndexError" then throw (Py.Err.mk "OutOfByteDataError" [off]) else throw e__)
      = .ok (x : Int) := by
  have h := getIdx_ofNats_mid pre x post []
  rw [List.append_nil] at h
  rw [h]; rfl

/-- the guarded read just behind the data: IndexError becomes OutOfByteDataError -/
theorem getIdx_catch_end (pre : List Nat) (off : Int) :
    Py.catchWith (Py.liftE (Py.getIdx (ofNats pre) (pre.length : Int)))
      (fun e__ => if Py.isSub excParent e__.cls "IndexError" then throw (Py.Err.mk "OutOfByteDataError" [off]) else throw e__)
      = .error ⟨"OutOfByteDataError", [off]⟩ := by
  have h : Py.getIdx (ofNats pre) (pre.length : Int) = .error "IndexError" := by
    have h1 : (ofNats pre)[pre.length]? = none := by simp [ofNats]
    simp [Py.getIdx, Py.getIdx?, h1]
  rw [h]; rfl

/-- `xs[a:a+n]` for non-negative `a`, `n`, without any bound on the list -/
theorem slice_nat {α : Type} (xs : List α) (a b : Int) (a' n : Nat) (ha : a = (a' : Int)) (hb : b = (a' : Int) + (n : Int)) :
    Py.slice xs a b = (xs.drop a').take n := by
  subst ha hb
  unfold Py.slice Py.clamp
  have h1 : ((a' : Int) ≥ 0) := by omega
  have h2 : ((a' : Int) + (n : Int) ≥ 0) := by omega
  simp only [h1, h2, if_true]
  rw [show ((a' : Int) + (n : Int)).toNat = a' + n by omega, Int.toNat_natCast]
  by_cases h : a' ≤ xs.length
  · rw [Nat.min_eq_left h]
    apply List.ext_getElem?
    intro i
    simp only [List.getElem?_take, List.getElem?_drop]
    by_cases hi : i < n
    · by_cases hi2 : a' + i < xs.length
      · have : i < min (a' + n) xs.length - a' := by omega
        simp [hi, this]
      · have : xs[a' + i]? = none := by simp; omega
        simp [this]
    · have : ¬ i < min (a' + n) xs.length - a' := by omega
      simp [hi, this]
  · have e1 : xs.drop (min a' xs.length) = [] := by simp; omega
    have e2 : xs.drop a' = [] := by simp; omega
    rw [e1, e2]; simp

theorem band31 (a : Nat) : Py.band (a : Int) 31 = ((a % 32 : Nat) : Int) := by
  rw [← Nat.and_two_pow_sub_one_eq_mod a 5]; exact Py.band_natCast a 31

theorem ofNats_take (a : List Nat) (k : Nat) : (ofNats a).take k = ofNats (a.take k) := by
  simp [ofNats, List.map_take]

theorem ofNats_drop (a : List Nat) (k : Nat) : (ofNats a).drop k = ofNats (a.drop k) := by
  simp [ofNats, List.map_drop]

theorem ofNats_inj' {a b : List Nat} : ofNats a = ofNats b ↔ a = b := by
  constructor
  · intro h
    induction a generalizing b with
    | nil => cases b with
      | nil => rfl
      | cons y b => simp [ofNats] at h
    | cons x a ih => cases b with
      | nil => simp [ofNats] at h
      | cons y b =>
        simp only [ofNats_cons, List.cons.injEq] at h
        rw [ih h.2, show x = y by omega]
  · intro h; rw [h]

/-! ### `skip_tag` -/

theorem skipTagRest_pos (r : Bytes) (c : Nat) (h : skipTagRest r = some c) : 1 ≤ c := by
  induction r generalizing c with
  | nil => simp [skipTagRest] at h
  | cons b r ih =>
    unfold skipTagRest at h
    split at h
    · cases hr : skipTagRest r with
      | none => simp [hr] at h
      | some d => simp [hr] at h; omega
    · simp at h; omega

theorem skip_tag_loop (r : List Nat) : ∀ (fuel : Nat) (pre : List Nat) (byte : Int), allBytes r → r.length < fuel →
    ber_skip_tag_loop1 fuel (ofNats (pre ++ r)) (pre.length : Int) byte =
      (match skipTagRest r with
       | some c => .ok (((pre.length + c : Nat) : Int) - 1)
       | none => .error ⟨"OutOfByteDataError", [((pre.length + r.length : Nat) : Int)]⟩) := by
  induction r with
  | nil =>
    intro fuel pre byte _ hf
    cases fuel with
    | zero => simp at hf
    | succ f =>
      unfold ber_skip_tag_loop1
      simp only [List.append_nil, getIdx_catch_end, bind, Except.bind, skipTagRest, List.length_nil, Nat.add_zero]
  | cons b r ih =>
    intro fuel pre byte hr hf
    obtain ⟨hb, hr'⟩ := allBytes_cons hr
    cases fuel with
    | zero => simp at hf
    | succ f =>
      unfold ber_skip_tag_loop1
      simp only [getIdx_catch_mid, bind, Except.bind]
      by_cases hc : 128 ≤ b
      · have e2 : (pre.length : Int) + 1 = (((pre ++ [b]).length : Nat) : Int) := by simp
        have e3 : pre ++ b :: r = (pre ++ [b]) ++ r := by simp
        rw [band128_ne hc hb, if_pos rfl, e2, e3, ih f (pre ++ [b]) byte hr' (by simp at hf; omega)]
        have h1 : b % 256 ≥ 128 := by omega
        simp only [skipTagRest, h1, if_true]
        cases skipTagRest r with
        | none => simp; omega
        | some c => simp; omega
      · have h1 : ¬ b % 256 ≥ 128 := by omega
        rw [band128_eq (by omega)]
        simp only [skipTagRest, h1, if_false, Bool.false_eq_true]
        simp [pure, Except.pure]

/-- `skip_tag(data, offset)` with the identifier octets starting at `offset = pre.length` -/
theorem ber_skip_tag_at (pre data : Bytes) (hd : allBytes data) :
    match Ber.skipTag data with
    | some o => ber_skip_tag (ofNats (pre ++ data)) (pre.length : Int) = .ok ((pre.length + o : Nat) : Int)
    | none => ∃ k, ber_skip_tag (ofNats (pre ++ data)) (pre.length : Int) = .error ⟨"OutOfByteDataError", [k]⟩ := by
  cases data with
  | nil =>
    simp only [skipTag]
    unfold ber_skip_tag
    simp only [List.append_nil, getIdx_catch_end, bind, Except.bind]
    exact ⟨_, rfl⟩
  | cons b r =>
    obtain ⟨hb, hr⟩ := allBytes_cons hd
    unfold ber_skip_tag
    simp only [getIdx_catch_mid, bind, Except.bind, band31]
    by_cases h31 : b % 32 = 31
    · have h31' : ((b % 32 : Nat) : Int) = 31 := by omega
      have e2 : (pre.length : Int) + 1 = (((pre ++ [b]).length : Nat) : Int) := by simp
      have e3 : pre ++ b :: r = (pre ++ [b]) ++ r := by simp
      simp only [h31', decide_true, if_true]
      simp only [skipTag, h31, if_true]
      rw [e2, e3, skip_tag_loop r _ (pre ++ [b]) _ hr (by
        simp [Py.fuelOfList, ofNats]; omega)]
      cases hs : skipTagRest r with
      | none => exact ⟨_, rfl⟩
      | some c =>
        have hc := skipTagRest_pos r c hs
        simp only [Option.map_some, pure, Except.pure, Py.len_eq, ofNats_length, List.length_append, List.length_cons,
          List.length_nil]
        by_cases hge : c + 1 ≥ r.length + 1
        · simp only [hge, if_true]
          rw [if_pos (by rw [decide_eq_true_eq]; omega)]
          exact ⟨_, rfl⟩
        · simp only [hge, if_false]
          rw [if_neg (by rw [decide_eq_true_eq]; omega)]
          congr 1; omega
    · have h31' : ¬ ((b % 32 : Nat) : Int) = 31 := by omega
      simp only [h31', decide_false, if_false, Bool.false_eq_true]
      simp only [skipTag, h31, if_false, pure, Except.pure, Py.len_eq,
        ofNats_length, List.length_append, List.length_cons]
      by_cases hge : 1 ≥ r.length + 1
      · simp only [hge, if_true]
        rw [if_pos (by rw [decide_eq_true_eq]; omega)]
        exact ⟨_, rfl⟩
      · simp only [hge, if_false]
        rw [if_neg (by rw [decide_eq_true_eq]; omega)]
        congr 1

/-- `skip_tag(data, 0)` -/
theorem ber_skip_tag_eq (data : Bytes) (hd : allBytes data) :
    match Ber.skipTag data with
    | some o => ber_skip_tag (ofNats data) 0 = .ok (o : Int)
    | none => ∃ k, ber_skip_tag (ofNats data) 0 = .error ⟨"OutOfByteDataError", [k]⟩ := by
  have h := ber_skip_tag_at [] data hd
  simpa using h

/-! ### `decode_length` -/

/-- `decode_length(encoded, offset)` with the length octets starting at `offset = pre.length`: the three outcomes of the model
(`outOfData`, `indefinite`, `ok`), the last one split by whether the contents are complete (`MissingDataError` carries the
offset of the contents and the length — exactly the two numbers of the normal return) -/
theorem ber_decode_length_eq (pre data : Bytes) (hp : allBytes pre) (hd : allBytes data) :
    match Ber.decodeLength data with
    | .outOfData => ∃ k, ber_decode_length (ofNats (pre ++ data)) pre.length = .error ⟨"OutOfByteDataError", [k]⟩
    | .indefinite => ∃ k, ber_decode_length (ofNats (pre ++ data)) pre.length = .error ⟨"DecodeError", [k]⟩
    | .ok n h =>
        if pre.length + h + n ≤ (pre ++ data).length
        then ber_decode_length (ofNats (pre ++ data)) pre.length = .ok ((n : Int), ((pre.length + h : Nat) : Int))
        else ber_decode_length (ofNats (pre ++ data)) pre.length
               = .error ⟨"MissingDataError", [((pre.length + h : Nat) : Int), (n : Int)]⟩ := by
  cases data with
  | nil =>
    simp only [decodeLength]
    unfold ber_decode_length
    simp only [List.append_nil, getIdx_catch_end, bind, Except.bind]
    exact ⟨_, rfl⟩
  | cons l r =>
    obtain ⟨hl, hr⟩ := allBytes_cons hd
    unfold ber_decode_length
    simp only [getIdx_catch_mid, bind, Except.bind]
    by_cases h1 : l < 128
    · have h1' : l % 256 < 128 := by omega
      rw [band128_eq h1]
      simp only [decodeLength, h1', if_true, Bool.false_eq_true, if_false, Py.len_eq, ofNats_length, List.length_append,
        List.length_cons]
      by_cases hc : pre.length + 1 + l ≤ pre.length + (r.length + 1)
      · simp only [hc, if_true]
        rw [if_neg (by rw [decide_eq_true_eq]; omega)]
        simp only [pure, Except.pure]
        congr 2
      · simp only [hc, if_false]
        rw [if_pos (by rw [decide_eq_true_eq]; omega)]
        simp only [throw, throwThe, MonadExceptOf.throw]
        congr 3
    · have h1' : ¬ l % 256 < 128 := by omega
      rw [band128_ne (by omega) hl, if_pos rfl]
      by_cases h2 : l = 128
      · subst h2
        simp only [decodeLength]
        exact ⟨_, rfl⟩
      · have h2' : ¬ l % 256 = 128 := by omega
        have h2'' : ¬ (l : Int) = 128 := by omega
        simp only [h2'', decide_false, Bool.false_eq_true, if_false, Py.band127]
        rw [slice_nat _ _ _ (pre.length + 1) (l % 128) (by omega) (by omega)]
        have e3 : pre ++ l :: r = (pre ++ [l]) ++ r := by simp
        have e4 : (ofNats (pre ++ l :: r)).drop (pre.length + 1) = ofNats r := by
          rw [ofNats_drop, e3, List.drop_left' (by simp)]
        have e5 : l % 256 - 128 = l % 128 := by omega
        rw [e4, ofNats_take]
        simp only [decodeLength, h1', h2', if_false, e5, Py.len_eq, ofNats_length, List.length_take]
        by_cases h3 : r.length < l % 128
        · simp only [h3, if_true]
          rw [if_pos (by rw [decide_eq_true_eq]; omega)]
          exact ⟨_, rfl⟩
        · simp only [h3, if_false]
          rw [bytesToInt_ofNats]
          simp only [List.length_append, List.length_cons]
          by_cases hc : pre.length + (l % 128 + 1) + bytesToNat (r.take (l % 128)) ≤ pre.length + (r.length + 1)
          · simp only [hc, if_true]
            rw [if_neg (by rw [decide_eq_true_eq]; omega), if_neg (by rw [decide_eq_true_eq]; omega)]
            have e : (pre.length : Int) + 1 + ((l % 128 : Nat) : Int) = ((pre.length + (l % 128 + 1) : Nat) : Int) := by omega
            rw [e]; rfl
          · simp only [hc, if_false]
            rw [if_neg (by rw [decide_eq_true_eq]; omega), if_pos (by rw [decide_eq_true_eq]; omega)]
            have e : (pre.length : Int) + 1 + ((l % 128 : Nat) : Int) = ((pre.length + (l % 128 + 1) : Nat) : Int) := by omega
            rw [e]; rfl

/-! ### `skip_tag_length_contents` / `decode_full_length` -/

theorem skipTag_lt (data : Bytes) (o : Nat) (h : skipTag data = some o) : o < data.length := by
  cases data with
  | nil => simp [skipTag] at h
  | cons b r =>
    simp only [skipTag] at h
    generalize (if b % 32 = 31 then (skipTagRest r).map (· + 1) else some 1) = off at h
    cases off with
    | none => simp at h
    | some c =>
      simp only at h
      split at h
      · simp at h
      · simp only [Option.some.injEq] at h; subst h; omega

theorem isSub_ood_missing : Py.isSub excParent "OutOfByteDataError" "MissingDataError" = false := by decide
theorem isSub_ood_ood : Py.isSub excParent "OutOfByteDataError" "OutOfByteDataError" = true := by decide
theorem isSub_missing_missing : Py.isSub excParent "MissingDataError" "MissingDataError" = true := by decide
theorem isSub_dec_missing : Py.isSub excParent "DecodeError" "MissingDataError" = false := by decide
theorem isSub_dec_ood : Py.isSub excParent "DecodeError" "OutOfByteDataError" = false := by decide

/-- the length probe `decode_full_length(data)` is the model's `fullLength`: `None` for 'not yet known', the number otherwise,
DecodeError for the indefinite form -/
theorem ber_decode_full_length_eq (data : Bytes) (hd : allBytes data) :
    match Ber.fullLength data with
    | .unknown => ber_decode_full_length (ofNats data) = .ok none
    | .known n => ber_decode_full_length (ofNats data) = .ok (some (n : Int))
    | .indefinite => ∃ k, ber_decode_full_length (ofNats data) = .error ⟨"DecodeError", [k]⟩ := by
  have hs := ber_skip_tag_eq data hd
  unfold ber_decode_full_length ber_skip_tag_length_contents fullLength
  cases hsk : skipTag data with
  | none =>
    rw [hsk] at hs
    obtain ⟨k, hk⟩ := hs
    simp only [hk, bind, Except.bind, isSub_ood_missing, isSub_ood_ood, if_true, Bool.false_eq_true, if_false]
    rfl
  | some o =>
    rw [hsk] at hs
    have ho := skipTag_lt data o hsk
    have hdl := ber_decode_length_eq (data.take o) (data.drop o) (allBytes_take o hd) (allBytes_drop o hd)
    have hlen : (data.take o).length = o := by simp; omega
    rw [List.take_append_drop, hlen] at hdl
    simp only [hs, bind, Except.bind]
    cases hdec : decodeLength (data.drop o) with
    | outOfData =>
      rw [hdec] at hdl
      obtain ⟨k, hk⟩ := hdl
      simp only [hk, isSub_ood_missing, isSub_ood_ood, if_true, Bool.false_eq_true, if_false]
      rfl
    | indefinite =>
      rw [hdec] at hdl
      obtain ⟨k, hk⟩ := hdl
      simp only [hk, isSub_dec_missing, isSub_dec_ood, Bool.false_eq_true, if_false]
      exact ⟨k, rfl⟩
    | ok n h =>
      rw [hdec] at hdl
      simp only at hdl
      split at hdl
      · simp only [hdl, pure, Except.pure]
        congr 2 <;> omega
      · simp only [hdl, isSub_missing_missing, if_true, pure, Except.pure, Py.excArg, List.getD_cons_zero,
          List.getD_cons_succ]
        congr 2 <;> omega

/-! ### C15 about the translated probe -/

/-- C15 on the translated code: for identifier octets `t`, definite length octets `l` for `n` and ANY following bytes, the probe
translated from the source answers `|t| + |l| + n` -/
theorem translated_probe_complete (t l rest : Bytes) (n : Nat) (ht : validTag t) (hl : validLen l n) (hr : allBytes rest)
    (hb : allBytes (t ++ l)) :
    ber_decode_full_length (ofNats (t ++ l ++ rest)) = .ok (some ((t.length + l.length + n : Nat) : Int)) := by
  have h := ber_decode_full_length_eq (t ++ l ++ rest) (allBytes_append hb hr)
  rw [C15.probe_complete t l rest n ht hl] at h
  exact h

/-- C15 on the translated code: every prefix that cuts the identifier or length octets is 'not yet known' -/
theorem translated_probe_prefix (t l : Bytes) (n k : Nat) (ht : validTag t) (hl : validLen l n) (hb : allBytes (t ++ l))
    (hk : k < t.length + l.length) :
    ber_decode_full_length (ofNats ((t ++ l).take k)) = .ok none := by
  have h := ber_decode_full_length_eq ((t ++ l).take k) (allBytes_take k hb)
  rw [C15.probe_prefix t l n k ht hl hk] at h
  exact h

/-! ### `detect_end_of_contents_tag` -/

/-- `detect_end_of_contents_tag(data, offset)` at `offset = pre.length` -/
theorem ber_detect_end_of_contents_tag_eq (pre data : Bytes) (hp : allBytes pre) (hd : allBytes data) :
    ber_detect_end_of_contents_tag (ofNats (pre ++ data)) pre.length =
      (if data.take 2 = [0, 0] then .ok true
       else if data.length < 2 then .error ⟨"OutOfByteDataError", [(pre.length : Int)]⟩
       else .ok false) := by
  unfold ber_detect_end_of_contents_tag
  rw [slice_nat _ (pre.length : Int) ((pre.length : Int) + 2) pre.length 2 rfl rfl, ofNats_drop, List.drop_left, ofNats_take]
  have e : ([0, 0] : List Int) = ofNats [0, 0] := rfl
  simp only [e, ofNats_inj', Py.len_eq, ofNats_length, List.length_take]
  by_cases h1 : data.take 2 = [0, 0]
  · simp only [h1, decide_true, if_true]; rfl
  · simp only [h1, decide_false, Bool.false_eq_true, if_false]
    by_cases h2 : data.length < 2
    · rw [if_pos (by rw [decide_eq_true_eq]; omega), if_pos h2]; rfl
    · rw [if_neg (by rw [decide_eq_true_eq]; omega), if_neg h2]; rfl

end Asn1.Bridge
