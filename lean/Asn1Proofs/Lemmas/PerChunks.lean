import Asn1Proofs.Lemmas.PerPrim
/-
  Repetition and fragmentation for the aligned PER model:
  `encSeqM` / `decRepeat`, `encChunksM` / `decChunks`, `Uper.encChunks` / `decChunksBits`.
-/
set_option linter.unusedSimpArgs false
namespace Asn1.Per
open Asn1.Uper (lenDet encChunks encChunked All2 EncM DecM)

/-- per-element round trip at any two positions that agree modulo 8, valid whenever the element
plus what follows fits in `L` bits -/
def ElemRT {α β : Type} (f : Nat → α → EncM Bits) (p : St → DecM (β × St)) (g : α → β) (L : Nat)
    (v : α) : Prop :=
  ∀ (pos pos' : Nat) (bits rest : Bits), pos' % 8 = pos % 8 → f pos v = .ok bits →
    bits.length + rest.length ≤ L → p ⟨pos', bits ++ rest⟩ = .ok (g v, ⟨pos' + bits.length, rest⟩)

theorem encSeqM_nil {α : Type} (f : Nat → α → EncM Bits) (pos : Nat) : encSeqM f pos [] = .ok [] := rfl

theorem encSeqM_cons {α : Type} (f : Nat → α → EncM Bits) (pos : Nat) (v : α) (r : List α) :
    encSeqM f pos (v :: r) =
      (match f pos v with
       | .error e => .error e
       | .ok a =>
         match encSeqM f (pos + a.length) r with
         | .error e => .error e
         | .ok b => .ok (a ++ b)) := rfl

theorem decRepeat_encSeqM {α β : Type} (f : Nat → α → EncM Bits) (p : St → DecM (β × St))
    (g : α → β) (L : Nat) (vs : List α) (h : ∀ v ∈ vs, ElemRT f p g L v)
    (pos pos' : Nat) (bits rest : Bits) (hp : pos' % 8 = pos % 8)
    (he : encSeqM f pos vs = .ok bits) (hL : bits.length + rest.length ≤ L) :
    decRepeat p vs.length ⟨pos', bits ++ rest⟩ = .ok (vs.map g, ⟨pos' + bits.length, rest⟩) := by
  induction vs generalizing pos pos' bits with
  | nil =>
    cases he
    rfl
  | cons v r ih =>
    rw [encSeqM_cons] at he
    cases ha : f pos v with
    | error e => rw [ha] at he; cases he
    | ok a =>
    rw [ha] at he
    simp only at he
    cases hb : encSeqM f (pos + a.length) r with
    | error e => rw [hb] at he; cases he
    | ok b =>
    rw [hb] at he
    cases he
    simp only [List.length_append] at hL
    simp only [List.length_cons, decRepeat, bind, Except.bind, List.append_assoc]
    rw [h v (by simp) pos pos' a (b ++ rest) hp ha (by simp only [List.length_append]; omega)]
    simp only
    rw [ih (fun x hx => h x (by simp [hx])) (pos + a.length) (pos' + a.length) b (by omega) hb
      (by omega)]
    simp only [List.map_cons, List.length_append, Nat.add_assoc]

theorem encChunksM_succ {α : Type} (f : Nat → α → EncM Bits) (fl pos : Nat) (items : List α) :
    encChunksM f (fl + 1) pos items =
      (match encSeqM f (pos + (lenDet items.length).1.length) (items.take (lenDet items.length).2) with
       | .error e => .error e
       | .ok body =>
         if (lenDet items.length).2 < 16384 then .ok ((lenDet items.length).1 ++ body)
         else
           match encChunksM f fl (pos + (lenDet items.length).1.length + body.length)
               (items.drop (lenDet items.length).2) with
           | .error e => .error e
           | .ok rest => .ok ((lenDet items.length).1 ++ body ++ rest)) := rfl

theorem decChunks_encChunksM {α β : Type} (f : Nat → α → EncM Bits) (p : St → DecM (β × St))
    (g : α → β) (L : Nat) (fl : Nat) (vs : List α) (h : ∀ v ∈ vs, ElemRT f p g L v)
    (hf : vs.length / 16384 + 2 ≤ fl)
    (pos pos' : Nat) (bits rest : Bits) (hp : pos' % 8 = pos % 8)
    (he : encChunksM f fl pos vs = .ok bits) (hL : bits.length + rest.length ≤ L)
    (fuel : Nat) (hfuel : bits.length < fuel) :
    decChunks p fuel ⟨pos', bits ++ rest⟩ = .ok (vs.map g, ⟨pos' + bits.length, rest⟩) := by
  induction fl generalizing vs pos pos' bits fuel with
  | zero => omega
  | succ fl ih =>
    cases fuel with
    | zero => omega
    | succ fuel =>
      have hk := Uper.lenDet_snd_le vs.length
      have hh := Uper.lenDet_length_ge vs.length
      have hm := lenDet_length_mod vs.length
      have htake : (vs.take (lenDet vs.length).2).length = (lenDet vs.length).2 := by
        rw [List.length_take]; omega
      rw [encChunksM_succ] at he
      cases hb : encSeqM f (pos + (lenDet vs.length).1.length) (vs.take (lenDet vs.length).2) with
      | error e => rw [hb] at he; cases he
      | ok body =>
      rw [hb] at he
      simp only at he
      split at he
      · rename_i hlt
        cases he
        have hall : (lenDet vs.length).2 = vs.length := Uper.lenDet_snd_eq_of_snd_lt hlt
        rw [hall, List.take_length] at hb
        simp only [List.length_append] at hL hfuel
        simp only [decChunks, bind, Except.bind, List.append_assoc]
        rw [readLenDet_lenDet, hall]
        simp only
        rw [decRepeat_encSeqM f p g L vs h _ _ body rest (by omega) hb (by omega)]
        have : vs.length < 16384 := by omega
        simp only [this, if_true, List.length_append, Nat.add_assoc]
      · rename_i hge
        cases hr : encChunksM f fl (pos + (lenDet vs.length).1.length + body.length)
            (vs.drop (lenDet vs.length).2) with
        | error e => rw [hr] at he; cases he
        | ok more =>
        rw [hr] at he
        cases he
        simp only [List.length_append] at hL hfuel
        simp only [decChunks, bind, Except.bind, List.append_assoc]
        rw [readLenDet_lenDet]
        simp only
        have hrep := decRepeat_encSeqM f p g L (vs.take (lenDet vs.length).2)
          (fun v hv => h v (List.mem_of_mem_take hv)) _ (pos' + (lenDet vs.length).1.length) body
          (more ++ rest) (by omega) hb (by simp only [List.length_append]; omega)
        rw [htake] at hrep
        rw [hrep]
        simp only [hge, if_false]
        rw [ih (vs.drop (lenDet vs.length).2) (fun v hv => h v (List.mem_of_mem_drop hv))
          (by rw [List.length_drop]; omega) _
          (pos' + (lenDet vs.length).1.length + body.length) more (by omega) hr (by omega) fuel
          (by omega)]
        simp only [← List.map_append, List.take_append_drop, List.length_append, Nat.add_assoc]

/-! ### position independent items -/

theorem encSeqM_of_all2 {α : Type} (h : α → EncM Bits) (vs : List α) (items : List Bits)
    (hall : All2 (fun a item => h a = .ok item) vs items) (pos : Nat) :
    encSeqM (fun _ a => h a) pos vs = .ok items.flatten := by
  induction hall generalizing pos with
  | nil => rfl
  | @cons a item vs items hx _ ih =>
    rw [encSeqM_cons]
    simp only [hx, ih, List.flatten_cons]

theorem encChunksM_of_all2 {α : Type} (h : α → EncM Bits) (fl : Nat) (vs : List α)
    (items : List Bits) (hall : All2 (fun a item => h a = .ok item) vs items) (pos : Nat) :
    encChunksM (fun _ a => h a) fl pos vs = .ok (encChunks fl items) := by
  induction fl generalizing vs items pos with
  | zero => rfl
  | succ fl ih =>
    have hlen := Uper.All2.length_eq hall
    rw [encChunksM_succ, hlen]
    rw [encSeqM_of_all2 h _ _ (Uper.forall₂_take hall _)]
    simp only [encChunks]
    split
    · rfl
    · rw [ih _ _ (Uper.forall₂_drop hall _)]

/-! ### fragmented bit strings read block by block -/

theorem flatten_length_uniform (u : Nat) (l : List Bits) (h : ∀ x ∈ l, x.length = u) :
    l.flatten.length = u * l.length := by
  induction l with
  | nil => simp
  | cons a r ih =>
    rw [List.flatten_cons, List.length_append, ih (fun x hx => h x (by simp [hx])),
      h a (by simp), List.length_cons, Nat.mul_succ]
    omega

theorem decChunksBits_encChunks (u fl : Nat) (items : List Bits) (hu : ∀ x ∈ items, x.length = u)
    (hf : items.length / 16384 + 2 ≤ fl) (pos : Nat) (rest : Bits)
    (fuel : Nat) (hfuel : (encChunks fl items).length < fuel) :
    decChunksBits u fuel ⟨pos, encChunks fl items ++ rest⟩ =
      .ok (items.flatten, ⟨pos + (encChunks fl items).length, rest⟩) := by
  induction fl generalizing items pos fuel with
  | zero => omega
  | succ fl ih =>
    cases fuel with
    | zero => omega
    | succ fuel =>
      have hk := Uper.lenDet_snd_le items.length
      have hh := Uper.lenDet_length_ge items.length
      have htake : ((items.take (lenDet items.length).2).flatten).length
          = u * (lenDet items.length).2 := by
        rw [flatten_length_uniform u _ (fun x hx => hu x (List.mem_of_mem_take hx)),
          List.length_take]
        congr 1; omega
      unfold encChunks at hfuel ⊢
      simp only at hfuel ⊢
      split
      · rename_i hlt
        simp only [hlt, if_true, List.length_append] at hfuel
        have hall : (lenDet items.length).2 = items.length := Uper.lenDet_snd_eq_of_snd_lt hlt
        rw [hall, List.take_length] at htake
        rw [hall, List.take_length]
        simp only [decChunksBits, bind, Except.bind, List.append_assoc]
        rw [readLenDet_lenDet, hall]
        simp only
        rw [readBits_append _ _ _ htake]
        have : items.length < 16384 := by omega
        simp only [this, if_true, List.length_append, Nat.add_assoc, htake]
      · rename_i hge
        simp only [hge, if_false, List.length_append] at hfuel
        simp only [decChunksBits, bind, Except.bind, List.append_assoc]
        rw [readLenDet_lenDet]
        simp only
        rw [readBits_append _ _ _ htake]
        simp only [hge, if_false]
        rw [ih (items.drop (lenDet items.length).2) (fun x hx => hu x (List.mem_of_mem_drop hx))
          (by rw [List.length_drop]; omega) _ fuel (by omega)]
        simp only [← List.flatten_append, List.take_append_drop, List.length_append, Nat.add_assoc,
          htake]

theorem decChunksBits_encChunked (u : Nat) (items : List Bits) (hu : ∀ x ∈ items, x.length = u)
    (pos : Nat) (rest : Bits) (fuel : Nat) (hfuel : (encChunked items).length < fuel) :
    decChunksBits u fuel ⟨pos, encChunked items ++ rest⟩ =
      .ok (items.flatten, ⟨pos + (encChunked items).length, rest⟩) :=
  decChunksBits_encChunks u _ items hu (Nat.le_refl _) pos rest fuel hfuel

end Asn1.Per
