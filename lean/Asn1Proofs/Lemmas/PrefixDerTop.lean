import Asn1Proofs.Lemmas.PrefixDerTypes
/-
  C16 for the DER model: a bare CHOICE (dispatch on the tag read by `readTag`) and the top level.
-/
set_option linter.unusedSimpArgs false
set_option linter.unusedVariables false
namespace Asn1.Der
open Asn1.Uper (Err)
open Asn1.Oer (splitAux readBytes)

theorem tagRest_split (r t r' : Bytes) (h : tagRest r = some (t, r')) : r = t ++ r' := by
  induction r generalizing t r' with
  | nil => simp only [tagRest] at h; cases h
  | cons b r ih =>
    simp only [tagRest] at h
    split at h
    · split at h
      · rename_i t0 r0 h0
        cases h
        rw [ih _ _ h0]; rfl
      · cases h
    · cases h; rfl

theorem tagRest_ext (r t r' x : Bytes) (h : tagRest r = some (t, r')) :
    tagRest (r ++ x) = some (t, r' ++ x) := by
  induction r generalizing t r' with
  | nil => simp only [tagRest] at h; cases h
  | cons b r ih =>
    simp only [tagRest, List.cons_append] at h ⊢
    split at h
    · rename_i hb
      rw [if_pos hb]
      split at h
      · rename_i t0 r0 h0
        cases h
        rw [ih _ _ h0]
      · cases h
    · rename_i hb
      rw [if_neg hb]
      cases h; rfl

theorem tagRest_enc (mid : Bytes) (last : Nat) (rest : Bytes) (hm : ∀ m ∈ mid, 128 ≤ m)
    (hl : last < 128) : tagRest (mid ++ [last] ++ rest) = some (mid ++ [last], rest) := by
  induction mid with
  | nil =>
    simp only [List.nil_append, List.cons_append, tagRest]
    rw [if_neg (by omega)]
  | cons m mid ih =>
    simp only [List.cons_append, tagRest]
    rw [if_pos (hm m (by simp))]
    rw [ih (fun m' hm' => hm m' (by simp [hm']))]

/-- `readTag` either reports missing data, or splits off the identifier octets, leaves something,
and does the same on every extension of its input -/
theorem readTag_cases (q : Bytes) :
    readTag q = .error .decodeError ∨
      ∃ t r', readTag q = .ok (t, r') ∧ q = t ++ r' ∧ r' ≠ [] ∧
        ∀ x, readTag (q ++ x) = .ok (t, r' ++ x) := by
  cases q with
  | nil => exact .inl rfl
  | cons b r =>
    by_cases hb : b % 32 = 31
    · cases htr : tagRest r with
      | none => left; simp only [readTag, hb, htr, if_true]
      | some tr =>
        obtain ⟨t, r'⟩ := tr
        cases hr' : r' with
        | nil => left; subst hr'; simp only [readTag, hb, htr, if_true, List.isEmpty_nil]
        | cons c r'' =>
          right
          refine ⟨b :: t, r', ?_, ?_, ?_, ?_⟩
          · subst hr'; simp only [readTag, hb, htr, if_true, List.isEmpty_cons, Bool.false_eq_true, if_false]
          · rw [tagRest_split r t r' htr]; rfl
          · rw [hr']; exact List.cons_ne_nil _ _
          · intro x
            have := tagRest_ext r t r' x htr
            subst hr'
            simp only [List.cons_append, readTag, hb, this, if_true, List.isEmpty_cons,
              Bool.false_eq_true, if_false]
    · cases hr : r with
      | nil => left; simp only [readTag, hb, if_false, List.isEmpty_nil, if_true]
      | cons c r'' =>
        right
        refine ⟨[b], c :: r'', ?_, rfl, List.cons_ne_nil _ _, ?_⟩
        · simp only [readTag, hb, if_false, List.isEmpty_cons, Bool.false_eq_true]
        · intro x
          simp only [List.cons_append, readTag, hb, if_false, List.isEmpty_cons, Bool.false_eq_true]

theorem readTag_encTag (n c : Nat) (rest : Bytes) (hc : c = 0 ∨ c = 32) (hrest : rest ≠ []) :
    readTag (Ber.encTag n (0x80 + c) ++ rest) = .ok (Ber.encTag n (0x80 + c), rest) := by
  obtain ⟨d, rest', rfl⟩ : ∃ d rest', rest = d :: rest' := by
    cases rest with
    | nil => exact absurd rfl hrest
    | cons d rest' => exact ⟨d, rest', rfl⟩
  unfold Ber.encTag
  by_cases hn : n < 31
  · rw [if_pos hn]
    have hb : ¬ (0x80 + c + n) % 32 = 31 := by rcases hc with rfl | rfl <;> omega
    simp only [List.cons_append, List.nil_append, readTag, hb, if_false, List.isEmpty_cons,
      Bool.false_eq_true]
  · rw [if_neg hn]
    have hb : (0x80 + c + 31) % 32 = 31 := by rcases hc with rfl | rfl <;> omega
    dsimp only
    generalize hds : Ber.base128 (bitLength n + 1) n = ds
    have hlt : ∀ d ∈ ds, d < 128 := by rw [← hds]; exact Ber.base128_lt _ _
    have hlast : ds.getLast?.getD 0 < 128 := by
      cases hgl : ds.getLast? with
      | none => simp
      | some l => exact hlt l (List.mem_of_getLast? hgl)
    have hmid : ∀ m ∈ ds.dropLast.map (· + 128), 128 ≤ m := by
      intro m hm
      obtain ⟨m', _, rfl⟩ := List.mem_map.mp hm
      omega
    have := tagRest_enc (ds.dropLast.map (· + 128)) (ds.getLast?.getD 0) (d :: rest') hmid hlast
    simp only [List.cons_append, readTag, hb, this, if_true, List.isEmpty_cons, Bool.false_eq_true,
      if_false]

theorem encLength_ne_nil (n : Nat) : Ber.encLength n ≠ [] := by
  unfold Ber.encLength
  split <;> simp

theorem decAlt_short (as : Alts) (i : Nat) (T : Bytes) (fuel : Nat) (q content : Bytes)
    (h : SPre q (tlv T content)) :
    decAlt as i T fuel q = none ∨ decAlt as i T fuel q = some (.error .decodeError) := by
  induction as using Alts.ind generalizing i with
  | nil => exact .inl rfl
  | cons n t rest ih =>
    simp only [decAlt]
    split
    · rename_i heq
      have hT : T = tagOf t (some i) := by simpa using heq
      right
      rw [dec_short t (some i) fuel q content (.inl rfl) (hT ▸ h)]
      rfl
    · exact ih (i + 1)

/-- a bare CHOICE on a strict prefix of the TLV of one of its alternatives: out of data, or (at
worst) no alternative claims the tag -/
theorem dec_bare_short (root adds : Alts) (ext : Bool) (fuel : Nat) (q content : Bytes) (n c : Nat)
    (hc : c = 0 ∨ c = 32) (h : SPre q (tlv (Ber.encTag n (0x80 + c)) content)) :
    dec (.choice root ext adds) none fuel q = .error .decodeError ∨
      dec (.choice root ext adds) none fuel q = .ok none := by
  rw [dec]
  dsimp only
  obtain ⟨x, hx, hfull⟩ := h
  rcases readTag_cases q with h1 | ⟨t, r', h1, hq, hr', hext⟩
  · left; rw [h1]; rfl
  · have hfull' := readTag_encTag n c (Ber.encLength content.length ++ content) hc
      (by simp [encLength_ne_nil])
    rw [← tlv_eq, hfull, hext x] at hfull'
    injection hfull' with hfull'
    injection hfull' with ht hrest
    subst ht
    have hsp : SPre q (tlv (Ber.encTag n (0x80 + c)) content) := ⟨x, hx, hfull⟩
    have hlen : readLen true r' = .error .decodeError :=
      readLen_short true content r' ⟨x, hx, hrest.symm⟩
    rw [h1]
    dsimp only [bind, Except.bind]
    rcases decAlt_short root 0 _ fuel q content hsp with e1 | e1 <;> rw [e1] <;> dsimp only
    · rcases decAlt_short adds root.length _ fuel q content hsp with e2 | e2 <;> rw [e2] <;> dsimp only
      · cases ext
        · right; rfl
        · left
          simp only [skipTLV, h1, bind, Except.bind, hlen, if_true]
      · exact .inl rfl
    · exact .inl rfl

/-- **DER: every strict prefix of an encoding is rejected with `decodeError`** (no hypothesis on the
type or the value other than that the encoder accepted it) -/
theorem decode_short (t : Ty) (v : Val) (bytes : Bytes) (k : Nat)
    (he : encode t v = .ok bytes) (hk : k < bytes.length) :
    decode t (bytes.take k) = .error .decodeError := by
  unfold encode at he
  replace he : enc t none v = .ok bytes := by
    split at he
    · exact he
    · cases he
  have hsp : SPre (bytes.take k) bytes :=
    ⟨bytes.drop k, by
      intro h0
      have := congrArg List.length h0
      simp only [List.length_drop, List.length_nil] at this
      omega, (List.take_append_drop k bytes).symm⟩
  have key : dec t none ((bytes.take k).length + 1) (bytes.take k) = .error .decodeError ∨
      dec t none ((bytes.take k).length + 1) (bytes.take k) = .ok none := by
    by_cases hch : ∃ r e a, t = .choice r e a
    · obtain ⟨root, ext, adds, rfl⟩ := hch
      cases v <;> simp only [enc] at he <;> first | cases he | skip
      rename_i name v'
      have : ∃ j t', enc t' (some j) v' = .ok bytes := by
        split at he
        · rename_i r hr
          obtain ⟨j, t', rfl⟩ := encAlt_some _ _ _ _ _ hr
          exact ⟨j, t', he⟩
        · split at he
          · rename_i r hr
            obtain ⟨j, t', rfl⟩ := encAlt_some _ _ _ _ _ hr
            exact ⟨j, t', he⟩
          · cases he
      obtain ⟨j, t', he'⟩ := this
      obtain ⟨content, rfl⟩ := enc_shape t' (some j) _ _ (.inl rfl) he'
      exact dec_bare_short root adds ext _ _ content j (if isConstructed t' then 0x20 else 0)
        (by split <;> simp) hsp
    · left
      have hne : ∀ r e a, t ≠ .choice r e a := fun r e a h => hch ⟨r, e, a, h⟩
      obtain ⟨content, rfl⟩ := enc_shape t none v bytes (.inr hne) he
      exact dec_short t none _ _ content (.inr hne) hsp
  unfold decode decodeWithLength
  rcases key with k1 | k1 <;> rw [k1] <;> rfl

end Asn1.Der
