import Asn1Proofs.Lemmas.PerSeq
/-
  Aligned PER SEQUENCE: extension additions (open types) and the SEQUENCE type itself.
-/
set_option linter.unusedSimpArgs false
namespace Asn1.Per
open Asn1.Uper (EncM DecM lenDet encNsLength padToByte padToByte_eq canonMembers_cons
  encNsLength_small)

/-! ### extension additions -/

def addHere (p : Presence) (t : Ty) (ov : Option Val) : EncM Bits :=
  match ov with
  | some v => enc t 0 v
  | none =>
    match p with
    | .mandatory => .error .encodeError
    | _ => .ok []

theorem encAdditions_cons (name : String) (p : Presence) (t : Ty) (rest : Members)
    (fs : List (String × Val)) :
    encAdditions (.cons name p t rest) fs =
      (match addHere p t (lookup name fs) with
       | .error .encodeError => .ok ([], [])
       | .error e => .error e
       | .ok e =>
         match encAdditions rest fs with
         | .error err => .error err
         | .ok (bits, encs) =>
           if e.length > 0 ∨ (lookup name fs).isSome then .ok (true :: bits, e :: encs)
           else .ok (false :: bits, encs)) := by
  cases p <;> rfl

theorem decAdditions_cons_true (name : String) (p : Presence) (t : Ty) (rest : Members) (fuel : Nat)
    (bitmap : Bits) (s : St) :
    decAdditions (.cons name p t rest) fuel (true :: bitmap) s =
      (do
        let (_, r) ← readLenDet s
        let (v, r1) ← dec t fuel r
        let (_, r2) ← readBits (padLen (r1.pos - r.pos)) r1
        let (fs, r3) ← decAdditions rest fuel bitmap r2
        .ok ((name, v) :: fs, r3)) := rfl

theorem decAdditions_cons_false (name : String) (p : Presence) (t : Ty) (rest : Members) (fuel : Nat)
    (bitmap : Bits) (s : St) :
    decAdditions (.cons name p t rest) fuel (false :: bitmap) s = decAdditions rest fuel bitmap s :=
  rfl

theorem padLen_eq (n : Nat) : padLen n = 8 * ((n + 7) / 8) - n := by unfold padLen; omega

theorem openType_eq (e : Bits) :
    openType e = (lenDet ((e.length + 7) / 8)).1 ++
      (e ++ List.replicate (8 * ((e.length + 7) / 8) - e.length) false) := by
  show (lenDet ((padToByte e).length / 8)).1 ++ padToByte e = _
  rw [Uper.padToByte_length_div, padToByte_eq]

theorem openType_length_mod (e : Bits) : (openType e).length % 8 = 0 := by
  rw [openType_eq]
  have := lenDet_length_mod ((e.length + 7) / 8)
  simp only [List.length_append, List.length_replicate]
  omega

theorem flatMap_openType_cons (e : Bits) (encs : List Bits) :
    (e :: encs).flatMap openType = openType e ++ encs.flatMap openType := by
  simp

theorem rt_additions (fs : List (String × Val)) (ms : Members) :
    ms.All RT → ms.All ET → ms.wf = true → ms.defaultsOk = true → ms.nsOk = true →
    membersOk ms fs = true → fragFreeMembers ms fs = true →
    ∃ present encs, encAdditions ms fs = .ok (present, encs) ∧ present.length = ms.length ∧
      (encs = [] → canonMembers ms fs false = []) ∧
      ∀ (pos' : Nat) (rest : Bits) (fuel : Nat), pos' % 8 = 0 →
        (encs.flatMap openType).length + rest.length + 2 ≤ fuel →
        decAdditions ms fuel present ⟨pos', encs.flatMap openType ++ rest⟩ =
          .ok (canonMembers ms fs false, ⟨pos' + (encs.flatMap openType).length, rest⟩) := by
  induction ms using Members.ind with
  | nil =>
    intro _ _ _ _ _ _ _
    exact ⟨[], [], rfl, rfl, fun _ => rfl, fun pos' rest fuel _ _ => rfl⟩
  | cons name p t ms ih =>
    intro hall hall2 hwf hd hns hok hff
    simp only [Members.wf, Members.defaultsOk, Members.nsOk, membersOk, fragFreeMembers,
      Bool.and_eq_true] at hwf hd hns hok hff
    obtain ⟨present, encs, ih0, ih1, ih2, ih3⟩ := ih hall.2 hall2.2 hwf.2 hd.2 hns.2 hok.2 hff.2
    rw [encAdditions_cons, canonMembers_cons]
    cases hl : lookup name fs with
    | some v =>
      simp only [hl] at hok hff
      obtain ⟨e, he⟩ := hall2.1 v 0 hwf.1 hok.1
      simp only [addHere, he, ih0, Option.isSome_some, or_true, if_true]
      refine ⟨true :: present, e :: encs, rfl, by simp [ih1, Members.length], by simp, ?_⟩
      intro pos' rest fuel hp8 hfuel
      have hm := lenDet_length_mod ((e.length + 7) / 8)
      rw [flatMap_openType_cons, openType_eq] at hfuel ⊢
      simp only [List.length_append, List.length_replicate] at hfuel
      have hrt := hall.1 v 0 (pos' + (lenDet ((e.length + 7) / 8)).1.length) e
        (List.replicate (8 * ((e.length + 7) / 8) - e.length) false ++
          (encs.flatMap openType ++ rest)) fuel hwf.1 hd.1.2 hns.1 hok.1 hff.1 (by omega) he
        (by simp only [List.length_append, List.length_replicate]; omega)
      rw [decAdditions_cons_true]
      simp only [bind, Except.bind, List.append_assoc]
      rw [readLenDet_lenDet]
      simp only
      rw [hrt]
      simp only
      have hpl : padLen (pos' + (lenDet ((e.length + 7) / 8)).1.length + e.length -
          (pos' + (lenDet ((e.length + 7) / 8)).1.length)) = 8 * ((e.length + 7) / 8) - e.length := by
        rw [Nat.add_sub_cancel_left, padLen_eq]
      rw [hpl, readBits_append _ _ _ (List.length_replicate ..)]
      simp only
      rw [ih3 _ rest fuel (by omega) (by omega)]
      simp only [List.length_append, List.length_replicate, Except.ok.injEq, Prod.mk.injEq, true_and]
      exact St.eq_of_pos _ (by omega)
    | none =>
      simp only [hl] at hok
      cases p with
      | mandatory => simp at hok
      | optional =>
        simp only [addHere, ih0, List.length_nil, Nat.lt_irrefl, Option.isSome_none,
          Bool.false_eq_true, or_self, if_false]
        refine ⟨false :: present, encs, rfl, by simp [ih1, Members.length], ih2, ?_⟩
        intro pos' rest fuel hp8 hfuel
        rw [decAdditions_cons_false]
        exact ih3 pos' rest fuel hp8 hfuel
      | default d =>
        simp only [addHere, ih0, List.length_nil, Nat.lt_irrefl, Option.isSome_none,
          Bool.false_eq_true, or_self, if_false]
        refine ⟨false :: present, encs, rfl, by simp [ih1, Members.length], ih2, ?_⟩
        intro pos' rest fuel hp8 hfuel
        rw [decAdditions_cons_false]
        exact ih3 pos' rest fuel hp8 hfuel

/-! ### SEQUENCE -/

theorem enc_sequence (root : Members) (extensible : Bool) (adds : Members) (pos : Nat)
    (fs : List (String × Val)) :
    enc (.sequence root extensible adds) pos (.record fs) =
      (match encMembers root fs false
          (pos + (if extensible then 1 else 0) + (encPreamble root fs).length) with
       | .error e => .error e
       | .ok body =>
         if extensible then
           match adds with
           | .nil => .ok ([false] ++ encPreamble root fs ++ body)
           | _ =>
             match encAdditions adds fs with
             | .error e => .error e
             | .ok (present, encs) =>
               if encs.isEmpty then .ok ([false] ++ encPreamble root fs ++ body)
               else
                 match encNsLength adds.length with
                 | .error e => .error e
                 | .ok nl =>
                   .ok ([true] ++ encPreamble root fs ++ body ++ nl ++
                     (present ++ List.replicate (adds.length - present.length) false) ++
                     alignBits (pos + 1 + (encPreamble root fs).length + body.length + nl.length +
                       (present ++ List.replicate (adds.length - present.length) false).length) ++
                     encs.flatMap openType)
         else .ok (encPreamble root fs ++ body)) := by
  rw [enc]; rfl

theorem rt_sequence (root : Members) (ext : Bool) (adds : Members)
    (ihr : root.All RT) (iha : adds.All RT) (eta : adds.All ET) : RT (.sequence root ext adds) := by
  intro v pos pos' bits rest fuel hwf hd hns ht hf hp he hfuel
  cases v <;> try (simp only [hasType, Bool.false_eq_true] at ht; done)
  rename_i fs
  rw [Ty.wf] at hwf
  rw [Ty.defaultsOk] at hd
  rw [Ty.nsOk] at hns
  rw [fragFree] at hf
  simp only [Bool.and_eq_true, decide_eq_true_eq, Bool.or_eq_true, beq_iff_eq] at hwf hd hns hf
  obtain ⟨⟨⟨⟨hrwf, hawf⟩, hnd⟩, hext⟩, h64⟩ := hwf
  obtain ⟨hokr, hoka⟩ := membersOk_of_hasType root adds ext fs hnd ht
  rw [canon]
  rw [enc_sequence] at he
  have hplen := encPreamble_length fs root
  generalize hpre : encPreamble root fs = pre at *
  cases hbody : encMembers root fs false (pos + (if ext = true then 1 else 0) + pre.length) with
  | error e => rw [hbody] at he; cases he
  | ok body =>
  rw [hbody] at he
  simp only at he
  have hm := fun q hq rest' hfu => rt_members fs root ihr hrwf hd.1 hns.1 hokr hf.1
    (pos + (if ext = true then 1 else 0) + pre.length) q body rest' fuel hq hbody hfu
  rw [hpre] at hm
  obtain ⟨present, encs, a0, a1, a2, a3⟩ := rt_additions fs adds iha eta hawf hd.2 hns.2 hoka hf.2
  have plain : ∀ bits : Bits, bits = (if ext = true then [false] else []) ++ (pre ++ body) →
      canonMembers adds fs false = [] → bits.length + rest.length + 2 ≤ fuel →
      dec (.sequence root ext adds) fuel ⟨pos', bits ++ rest⟩ =
        .ok (.record (canonMembers root fs true ++ canonMembers adds fs false),
          ⟨pos' + bits.length, rest⟩) := by
    intro bits hb hc hfu
    subst hb
    rw [dec]
    cases ext with
    | false =>
      simp only [Bool.false_eq_true, if_false, List.nil_append, Nat.add_zero, List.length_append]
        at hm hfu ⊢
      simp only [bind, Except.bind, List.append_assoc]
      rw [readBits_append _ _ _ hplen]
      simp only
      rw [← hplen, hm _ (by omega) rest (by omega)]
      simp only [hc, List.append_nil, Nat.add_assoc, Bool.false_eq_true, if_false]
    | true =>
      simp only [if_true, List.length_append, List.length_cons, List.length_nil] at hm hfu ⊢
      simp only [bind, Except.bind, List.append_assoc, List.cons_append, List.nil_append,
        readBit_cons]
      rw [readBits_append _ _ _ hplen]
      simp only
      rw [← hplen, hm _ (by omega) rest (by omega)]
      simp only [hc, List.append_nil, Bool.false_eq_true, if_false, Except.ok.injEq, Prod.mk.injEq,
        true_and]
      exact St.eq_of_pos _ (by omega)
  cases ext with
  | false =>
    simp only [Bool.false_eq_true, if_false, false_or] at he hext
    cases he
    have : adds = .nil := by
      cases adds with
      | nil => rfl
      | cons _ _ _ _ => simp [Members.length] at hext
    subst this
    exact plain _ (by simp) rfl hfuel
  | true =>
    simp only [if_true] at he
    split at he
    · cases he
      exact plain _ (by simp) rfl hfuel
    · rename_i hnn
      rw [a0] at he
      simp only at he
      split at he
      · rename_i hemp
        cases he
        exact plain _ (by simp) (a2 (by simpa using hemp)) hfuel
      · rename_i hemp
        have hlen1 : 1 ≤ adds.length := by
          cases adds with
          | nil => exact absurd rfl (hnn)
          | cons _ _ _ _ => simp [Members.length]
        rw [encNsLength_small h64] at he
        simp only [a1, Nat.sub_self, List.replicate_zero, List.append_nil, natToBits_length] at he
        cases he
        simp only [List.length_append, List.length_cons, List.length_nil, natToBits_length,
          alignBits_length, if_true] at hfuel hm
        have hpad := add_padLen_mod (pos + 1 + pre.length + body.length + 7 + adds.length)
        have hdm := hm (pos' + 1 + pre.length) (by omega)
          (natToBits 7 (adds.length - 1) ++ (present ++
            (alignBits (pos + 1 + pre.length + body.length + 7 + adds.length) ++
              (encs.flatMap openType ++ rest))))
          (by simp only [List.length_append, natToBits_length, alignBits_length]; omega)
        rw [dec]
        simp only [List.append_assoc, bind, Except.bind, List.cons_append, List.nil_append,
          readBit_cons, if_true]
        rw [readBits_append _ _ _ hplen]
        simp only
        rw [← hplen, hdm]
        simp only [if_true]
        rw [decNsLength_enc _ _ hlen1 h64]
        simp only
        rw [readBits_append _ _ _ a1]
        simp only
        rw [align_alignBits _ _ _ (by omega)]
        rw [a3 _ rest fuel (by omega) (by omega)]
        simp only [List.length_cons, List.length_append, natToBits_length, alignBits_length,
          Except.ok.injEq, Prod.mk.injEq, true_and]
        exact St.eq_of_pos _ (by omega)

theorem encAdditions_ok (fs : List (String × Val)) (ms : Members) :
    ms.All ET → ms.wf = true → membersOk ms fs = true → ∃ pe, encAdditions ms fs = .ok pe := by
  induction ms using Members.ind with
  | nil => intros; exact ⟨_, rfl⟩
  | cons name p t ms ih =>
    intro hall hwf hok
    simp only [Members.wf, membersOk, Bool.and_eq_true] at hwf hok
    obtain ⟨⟨present, encs⟩, hpe⟩ := ih hall.2 hwf.2 hok.2
    have : ∃ e, addHere p t (lookup name fs) = .ok e := by
      unfold addHere
      cases hl : lookup name fs with
      | some v =>
        simp only [hl] at hok
        exact hall.1 v 0 hwf.1 hok.1
      | none =>
        simp only [hl] at hok
        cases p with
        | mandatory => simp at hok
        | optional => exact ⟨[], rfl⟩
        | default d => exact ⟨[], rfl⟩
    obtain ⟨e, he⟩ := this
    rw [encAdditions_cons, he, hpe]
    simp only
    split <;> exact ⟨_, rfl⟩

theorem et_sequence (root : Members) (ext : Bool) (adds : Members)
    (ihr : root.All ET) (eta : adds.All ET) : ET (.sequence root ext adds) := by
  intro v pos hwf ht
  cases v <;> try (simp only [hasType, Bool.false_eq_true] at ht; done)
  rename_i fs
  rw [Ty.wf] at hwf
  simp only [Bool.and_eq_true, decide_eq_true_eq, Bool.or_eq_true, beq_iff_eq] at hwf
  obtain ⟨⟨⟨⟨hrwf, hawf⟩, hnd⟩, hext⟩, h64⟩ := hwf
  obtain ⟨hokr, hoka⟩ := membersOk_of_hasType root adds ext fs hnd ht
  obtain ⟨body, hbody⟩ := et_members fs false root ihr hrwf hokr
    (pos + (if ext = true then 1 else 0) + (encPreamble root fs).length)
  obtain ⟨⟨present, encs⟩, hpe⟩ := encAdditions_ok fs adds eta hawf hoka
  rw [enc_sequence, hbody]
  simp only
  split
  · split
    · exact ⟨_, rfl⟩
    · rw [hpe]
      simp only
      split
      · exact ⟨_, rfl⟩
      · rw [encNsLength_small h64]
        exact ⟨_, rfl⟩
  · exact ⟨_, rfl⟩

end Asn1.Per
