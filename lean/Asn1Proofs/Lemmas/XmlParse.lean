import Asn1Model.Xml
import Asn1Proofs.Lemmas.XerLeaf
/-
  The XML reader reads back what the writer writes: `parse (renderDoc ind x) = .ok x` for every
  plain tree (`XmlT.plain`: ASCII names, character data XML can carry, text or children) and every
  indentation.
-/
set_option linter.unusedSimpArgs false

namespace Asn1.Xml

/-! ### strings and code points -/

theorem ofCps_toCps (s : String) : ofCps (toCps s) = s := by
  unfold ofCps toCps
  rw [List.map_map]
  have : (Char.ofNat ∘ Char.toNat) = id := by
    funext c; simp [Char.ofNat_toNat]
  rw [this, List.map_id, String.ofList_toList]

/-! ### character classes -/

theorem asciiNameStart_facts (c : Nat) (h : isAsciiNameStart c = true) :
    isChar c = true ∧ isNameStart c = true ∧ isNameChar c = true ∧ c ≠ 47 ∧ c ≠ 33 ∧ c ≠ 63 ∧
      c ≠ 58 ∧ c ≠ 13 := by
  simp only [isAsciiNameStart, Bool.or_eq_true, Bool.and_eq_true, decide_eq_true_eq, beq_iff_eq] at h
  refine ⟨?_, ?_, ?_, ?_, ?_, ?_, ?_, ?_⟩
  · simp only [isChar, Bool.or_eq_true, Bool.and_eq_true, decide_eq_true_eq, beq_iff_eq]; omega
  · simp only [isNameStart, Bool.or_eq_true, Bool.and_eq_true, decide_eq_true_eq, beq_iff_eq]; omega
  · simp only [isNameChar, isNameStart, Bool.or_eq_true, Bool.and_eq_true, decide_eq_true_eq, beq_iff_eq]; omega
  all_goals omega

theorem asciiNameChar_facts (c : Nat) (h : isAsciiNameChar c = true) :
    isChar c = true ∧ isNameChar c = true ∧ c ≠ 13 := by
  simp only [isAsciiNameChar, isAsciiNameStart, Bool.or_eq_true, Bool.and_eq_true, decide_eq_true_eq,
    beq_iff_eq] at h
  refine ⟨?_, ?_, ?_⟩
  · simp only [isChar, Bool.or_eq_true, Bool.and_eq_true, decide_eq_true_eq, beq_iff_eq]; omega
  · simp only [isNameChar, isNameStart, Bool.or_eq_true, Bool.and_eq_true, decide_eq_true_eq, beq_iff_eq]; omega
  · omega

theorem digit_facts (c : Nat) (h : isDigit c = true) :
    isChar c = true ∧ isNameChar c = true ∧ c ≠ 59 ∧ c ≠ 13 ∧ c ≠ 120 := by
  simp only [isDigit, Bool.and_eq_true, decide_eq_true_eq] at h
  refine ⟨?_, ?_, ?_, ?_, ?_⟩
  · simp only [isChar, Bool.or_eq_true, Bool.and_eq_true, decide_eq_true_eq, beq_iff_eq]; omega
  · simp only [isNameChar, isNameStart, Bool.or_eq_true, Bool.and_eq_true, decide_eq_true_eq, beq_iff_eq]; omega
  all_goals omega

/-! ### running the machine -/

theorem run_nil (s : St) : run s [] = .ok s := rfl

theorem run_cons (s : St) (c : Nat) (cs : List Nat) :
    run s (c :: cs) = (match step s c with | .ok s' => run s' cs | .error e => .error e) := by
  unfold run
  rw [List.foldlM_cons]
  cases step s c <;> rfl

theorem run_append (s : St) (a b : List Nat) :
    run s (a ++ b) = (match run s a with | .ok s' => run s' b | .error e => .error e) := by
  induction a generalizing s with
  | nil => rfl
  | cons c r ih =>
    rw [List.cons_append, run_cons, run_cons]
    cases step s c with
    | error e => rfl
    | ok s' => exact ih s'

theorem run_append_ok {s s' : St} {a : List Nat} (h : run s a = .ok s') (b : List Nat) :
    run s (a ++ b) = run s' b := by
  rw [run_append, h]

/-- text goes to the frame while it has no child -/
def Frame.addText (f : Frame) (t : List Nat) : Frame :=
  if f.kids.isEmpty then { f with text := t.reverse ++ f.text } else f

theorem addChar_cons (c : Nat) (f : Frame) (st : List Frame) :
    addChar c (f :: st) = f.addText [c] :: st := by
  simp only [addChar, Frame.addText, List.reverse_cons, List.reverse_nil, List.nil_append,
    List.singleton_append]

theorem addText_addText (f : Frame) (a b : List Nat) :
    (f.addText a).addText b = f.addText (a ++ b) := by
  unfold Frame.addText
  by_cases h : f.kids.isEmpty = true
  · simp [h]
  · simp [h]

theorem addText_nil (f : Frame) : f.addText [] = f := by
  unfold Frame.addText
  split <;> simp

@[simp] theorem addText_kids (f : Frame) (t : List Nat) : (f.addText t).kids = f.kids := by
  unfold Frame.addText; split <;> rfl

@[simp] theorem addText_name (f : Frame) (t : List Nat) : (f.addText t).name = f.name := by
  unfold Frame.addText; split <;> rfl

/-! ### tags -/

theorem run_openName (st : List Frame) (root : Option XmlT) (cs acc : List Nat)
    (h : cs.all isAsciiNameChar = true) :
    run ⟨st, .openName acc, root⟩ cs = .ok ⟨st, .openName (cs.reverse ++ acc), root⟩ := by
  induction cs generalizing acc with
  | nil => rfl
  | cons c r ih =>
    simp only [List.all_cons, Bool.and_eq_true] at h
    obtain ⟨h1, h2, _⟩ := asciiNameChar_facts c h.1
    rw [run_cons]
    have : step ⟨st, .openName acc, root⟩ c = .ok ⟨st, .openName (c :: acc), root⟩ := by
      simp [step, h1, h2]
    rw [this]
    simp only []
    rw [ih (c :: acc) h.2]
    simp

theorem run_closeName (st : List Frame) (root : Option XmlT) (cs acc : List Nat)
    (h : cs.all isAsciiNameChar = true) (hacc : acc ≠ []) :
    run ⟨st, .closeName acc, root⟩ cs = .ok ⟨st, .closeName (cs.reverse ++ acc), root⟩ := by
  induction cs generalizing acc with
  | nil => rfl
  | cons c r ih =>
    simp only [List.all_cons, Bool.and_eq_true] at h
    obtain ⟨h1, h2, _⟩ := asciiNameChar_facts c h.1
    rw [run_cons]
    have hne : acc.isEmpty = false := by cases acc <;> simp_all
    have : step ⟨st, .closeName acc, root⟩ c = .ok ⟨st, .closeName (c :: acc), root⟩ := by
      simp [step, h1, h2, hne]
    rw [this]
    simp only []
    rw [ih (c :: acc) h.2 (by simp)]
    simp

/-- `<name` -/
theorem run_tagStart (st : List Frame) (root : Option XmlT) (k : Nat) (nm : List Nat)
    (hn : isAsciiName nm = true) (hroot : (st.isEmpty && root.isSome) = false) :
    run ⟨st, .content k, root⟩ (60 :: nm) = .ok ⟨st, .openName nm.reverse, root⟩ := by
  cases nm with
  | nil => simp [isAsciiName] at hn
  | cons c r =>
    simp only [isAsciiName, Bool.and_eq_true] at hn
    obtain ⟨h1, h2, _, h4, h5, h6, h7, _⟩ := asciiNameStart_facts c hn.1
    rw [run_cons]
    have s1 : step ⟨st, .content k, root⟩ 60 = .ok ⟨st, .lt, root⟩ := by
      simp [step, isChar, hroot]
    rw [s1]
    simp only []
    rw [run_cons]
    have s2 : step ⟨st, .lt, root⟩ c = .ok ⟨st, .openName [c], root⟩ := by
      simp [step, h1, h2, h4, h5, h6, h7]
    rw [s2]
    simp only []
    rw [run_openName st root r [c] hn.2]
    simp

/-- `<name>` -/
theorem run_openTag (st : List Frame) (root : Option XmlT) (k : Nat) (nm : List Nat)
    (hn : isAsciiName nm = true) (hroot : (st.isEmpty && root.isSome) = false) :
    run ⟨st, .content k, root⟩ (60 :: nm ++ [62]) = .ok ⟨⟨nm, [], []⟩ :: st, .content 0, root⟩ := by
  rw [run_append_ok (run_tagStart st root k nm hn hroot), run_cons]
  have : step ⟨st, .openName nm.reverse, root⟩ 62 = .ok ⟨⟨nm, [], []⟩ :: st, .content 0, root⟩ := by
    simp [step, isChar, isNameChar, isNameStart, isWs]
  rw [this]
  rfl

/-- `<name />` -/
theorem run_emptyTag (st : List Frame) (root : Option XmlT) (k : Nat) (nm : List Nat)
    (hn : isAsciiName nm = true) (hroot : (st.isEmpty && root.isSome) = false) :
    run ⟨st, .content k, root⟩ (60 :: nm ++ [32, 47, 62]) =
      (match addKid (.elem (ofCps nm) [] []) st root with
       | .ok (st', r) => .ok ⟨st', .content 0, r⟩
       | .error e => .error e) := by
  rw [run_append_ok (run_tagStart st root k nm hn hroot), run_cons]
  have s1 : step ⟨st, .openName nm.reverse, root⟩ 32 = .ok ⟨st, .openWs nm.reverse, root⟩ := by
    simp [step, isChar, isNameChar, isNameStart, isWs]
  rw [s1]
  simp only []
  rw [run_cons]
  have s2 : step ⟨st, .openWs nm.reverse, root⟩ 47 = .ok ⟨st, .emptyClose nm.reverse, root⟩ := by
    simp [step, isChar, isWs]
  rw [s2]
  simp only []
  rw [run_cons]
  have s3 : step ⟨st, .emptyClose nm.reverse, root⟩ 62 = emptyTag ⟨st, .emptyClose nm.reverse, root⟩ nm.reverse := by
    simp [step, isChar]
  rw [s3]
  simp only [emptyTag, List.reverse_reverse]
  cases addKid (.elem (ofCps nm) [] []) st root with
  | error e => rfl
  | ok p => rfl

/-- `</name>` -/
theorem run_closeTag (f : Frame) (st : List Frame) (root : Option XmlT) (k : Nat)
    (hn : isAsciiName f.name = true) :
    run ⟨f :: st, .content k, root⟩ (60 :: 47 :: f.name ++ [62]) =
      (match addKid (closeFrame f) st root with
       | .ok (st', r) => .ok ⟨st', .content 0, r⟩
       | .error e => .error e) := by
  cases hnm : f.name with
  | nil => rw [hnm] at hn; simp [isAsciiName] at hn
  | cons c r =>
    rw [hnm] at hn
    simp only [isAsciiName, Bool.and_eq_true] at hn
    obtain ⟨h1, h2, h3, _⟩ := asciiNameStart_facts c hn.1
    rw [List.cons_append, List.cons_append, List.cons_append, run_cons]
    have s1 : step ⟨f :: st, .content k, root⟩ 60 = .ok ⟨f :: st, .lt, root⟩ := by
      simp [step, isChar]
    rw [s1]
    simp only []
    rw [run_cons]
    have s2 : step ⟨f :: st, .lt, root⟩ 47 = .ok ⟨f :: st, .closeName [], root⟩ := by
      simp [step, isChar]
    rw [s2]
    simp only []
    rw [run_cons]
    have s3 : step ⟨f :: st, .closeName [], root⟩ c = .ok ⟨f :: st, .closeName [c], root⟩ := by
      simp [step, h1, h2]
    rw [s3]
    simp only []
    rw [run_append_ok (run_closeName (f :: st) root r [c] hn.2 (by simp)), run_cons]
    have s4 : step ⟨f :: st, .closeName (r.reverse ++ [c]), root⟩ 62 =
        closeTag ⟨f :: st, .closeName (r.reverse ++ [c]), root⟩ (r.reverse ++ [c]) := by
      simp [step, isChar, isNameChar, isNameStart, isWs]
    rw [s4]
    simp only [closeTag, List.reverse_append, List.reverse_reverse, List.reverse_cons, List.reverse_nil,
      List.nil_append, List.singleton_append, hnm, if_true]
    cases addKid (closeFrame f) st root with
    | error e => rfl
    | ok p => rfl

/-! ### character data -/

theorem run_refDigits (st : List Frame) (root : Option XmlT) (ds acc : List Nat)
    (h : ds.all isDigit = true) :
    run ⟨st, .ref acc, root⟩ ds = .ok ⟨st, .ref (ds.reverse ++ acc), root⟩ := by
  induction ds generalizing acc with
  | nil => rfl
  | cons c r ih =>
    simp only [List.all_cons, Bool.and_eq_true] at h
    obtain ⟨h1, h2, h3, _⟩ := digit_facts c h.1
    rw [run_cons]
    have : step ⟨st, .ref acc, root⟩ c = .ok ⟨st, .ref (c :: acc), root⟩ := by
      simp [step, h1, h2, h3]
    rw [this]
    simp only []
    rw [ih (c :: acc) h.2]
    simp

theorem decodeRef_dec (ds : List Nat) (hne : ds ≠ []) (hd : ds.all isDigit = true)
    (hc : isChar (decToNat ds) = true) : decodeRef (35 :: ds) = some (decToNat ds) := by
  cases ds with
  | nil => exact absurd rfl hne
  | cons d r =>
    have hd' := hd
    simp only [List.all_cons, Bool.and_eq_true] at hd'
    obtain ⟨_, _, _, _, h120⟩ := digit_facts d hd'.1
    unfold decodeRef
    simp [h120, hd, hc]

theorem textChar_isChar (c : Nat) (h : isTextChar c = true) : isChar c = true ∧ c ≠ 13 := by
  simp only [isTextChar, Bool.and_eq_true, bne_iff_ne] at h
  exact h

theorem run_escChar (f : Frame) (st : List Frame) (root : Option XmlT) (k c : Nat)
    (hc : isTextChar c = true) :
    ∃ k', run ⟨f :: st, .content k, root⟩ (escChar c) = .ok ⟨f.addText [c] :: st, .content k', root⟩ := by
  obtain ⟨hch, _⟩ := textChar_isChar c hc
  unfold escChar
  by_cases h38 : c = 38
  · subst h38
    refine ⟨0, ?_⟩
    simp [run_cons, run_nil, step, isChar, isNameChar, isNameStart, decodeRef, addChar_cons]
  rw [if_neg h38]
  by_cases h60 : c = 60
  · subst h60
    refine ⟨0, ?_⟩
    simp [run_cons, run_nil, step, isChar, isNameChar, isNameStart, decodeRef, addChar_cons]
  rw [if_neg h60]
  by_cases h62 : c = 62
  · subst h62
    refine ⟨0, ?_⟩
    simp [run_cons, run_nil, step, isChar, isNameChar, isNameStart, decodeRef, addChar_cons]
  rw [if_neg h62]
  by_cases h128 : c < 128
  · rw [if_pos h128]
    refine ⟨if c = 93 then k + 1 else 0, ?_⟩
    rw [run_cons]
    have : step ⟨f :: st, .content k, root⟩ c =
        .ok ⟨f.addText [c] :: st, .content (if c = 93 then k + 1 else 0), root⟩ := by
      simp [step, hch, h38, h60, h62, addChar_cons]
    rw [this]
    rfl
  · rw [if_neg h128]
    refine ⟨0, ?_⟩
    have hds := natToDec_digits c
    have hne := natToDec_ne_nil c
    have hval := decToNat_natToDec c
    generalize natToDec c = ds at *
    have hshape : [38, 35] ++ ds ++ [59] = 38 :: 35 :: (ds ++ [59]) := by simp
    rw [hshape, run_cons]
    have s1 : step ⟨f :: st, .content k, root⟩ 38 = .ok ⟨f :: st, .ref [], root⟩ := by
      simp [step, isChar]
    rw [s1]
    simp only []
    rw [run_cons]
    have s2 : step ⟨f :: st, .ref [], root⟩ 35 = .ok ⟨f :: st, .ref [35], root⟩ := by
      simp [step, isChar]
    rw [s2]
    simp only []
    rw [run_append_ok (run_refDigits (f :: st) root ds [35] hds), run_cons]
    have s3 : step ⟨f :: st, .ref (ds.reverse ++ [35]), root⟩ 59 =
        .ok ⟨f.addText [c] :: st, .content 0, root⟩ := by
      have hr : (ds.reverse ++ [35]).reverse = 35 :: ds := by simp
      simp only [step, hr, decodeRef_dec ds hne hds (by rw [hval]; exact hch), hval, addChar_cons]
      simp [isChar]
    rw [s3]
    rfl

theorem run_escText (f : Frame) (st : List Frame) (root : Option XmlT) (k : Nat) (t : List Nat)
    (ht : t.all isTextChar = true) :
    ∃ k', run ⟨f :: st, .content k, root⟩ (escText t) = .ok ⟨f.addText t :: st, .content k', root⟩ := by
  induction t generalizing f k with
  | nil => exact ⟨k, by simp [escText, run_nil, addText_nil]⟩
  | cons c r ih =>
    simp only [List.all_cons, Bool.and_eq_true] at ht
    obtain ⟨k1, h1⟩ := run_escChar f st root k c ht.1
    obtain ⟨k2, h2⟩ := ih (f.addText [c]) k1 ht.2
    refine ⟨k2, ?_⟩
    have : escText (c :: r) = escChar c ++ escText r := by simp [escText]
    rw [this, run_append_ok h1, h2, addText_addText]
    rfl

theorem indentStr_ws (ind : Option Nat) (level : Nat) :
    (indentStr ind level).all isWs = true ∧ (indentStr ind level).all isTextChar = true ∧
      escText (indentStr ind level) = indentStr ind level := by
  cases ind with
  | none => exact ⟨rfl, rfl, rfl⟩
  | some n =>
    simp only [indentStr]
    generalize level * n = m
    refine ⟨?_, ?_, ?_⟩
    · simp [isWs]
    · simp [isTextChar, isChar]
    · induction m with
      | zero => rfl
      | succ m ih =>
        simp only [escText, List.flatMap_cons, List.replicate_succ] at ih ⊢
        have e10 : escChar 10 = [10] := rfl
        have e32 : escChar 32 = [32] := rfl
        rw [e10] at ih ⊢
        rw [e32]
        simp only [List.cons_append, List.nil_append, List.cons.injEq, true_and] at ih ⊢
        exact ih

theorem run_indent (f : Frame) (st : List Frame) (root : Option XmlT) (k : Nat)
    (ind : Option Nat) (level : Nat) :
    ∃ k', run ⟨f :: st, .content k, root⟩ (indentStr ind level) =
      .ok ⟨f.addText (indentStr ind level) :: st, .content k', root⟩ := by
  obtain ⟨_, h2, h3⟩ := indentStr_ws ind level
  have := run_escText f st root k (indentStr ind level) h2
  rw [h3] at this
  exact this

/-! ### elements -/

theorem plain_elem (name : String) (text : List Nat) (kids : List XmlT)
    (h : (XmlT.elem name text kids).plain = true) :
    isAsciiName (toCps name) = true ∧ text.all isTextChar = true ∧
      (text = [] ∨ kids = []) ∧ plainList kids = true := by
  simp only [XmlT.plain, Bool.and_eq_true, Bool.or_eq_true, List.isEmpty_iff] at h
  exact ⟨h.1.1.1, h.1.1.2, h.1.2, h.2⟩

/-- outcome of handing a finished element to the machine -/
def pushed (x : XmlT) (st : List Frame) (root : Option XmlT) : Except PErr St :=
  match addKid x st root with
  | .ok (st', r) => .ok ⟨st', .content 0, r⟩
  | .error e => .error e

mutual
  theorem run_render (ind : Option Nat) : ∀ (x : XmlT) (level : Nat) (st : List Frame)
      (root : Option XmlT) (k : Nat), x.plain = true → (st.isEmpty && root.isSome) = false →
      run ⟨st, .content k, root⟩ (render ind level x) = pushed x st root
    | .elem name text kids, level, st, root, k, hp, hroot => by
      obtain ⟨hn, ht, hor, hk⟩ := plain_elem name text kids hp
      cases kids with
      | nil =>
        by_cases hte : text = []
        · subst hte
          have : render ind level (.elem name [] []) = 60 :: toCps name ++ [32, 47, 62] := by
            simp [render]
          rw [this, run_emptyTag st root k (toCps name) hn hroot, ofCps_toCps]
          rfl
        · have hie : text.isEmpty = false := by cases text <;> simp_all
          have : render ind level (.elem name text []) =
              (60 :: toCps name ++ [62]) ++ (escText text ++ (60 :: 47 :: toCps name ++ [62])) := by
            simp [render, hie]
          rw [this, run_append_ok (run_openTag st root k (toCps name) hn hroot)]
          obtain ⟨k1, h1⟩ := run_escText ⟨toCps name, [], []⟩ st root 0 text ht
          rw [run_append_ok h1]
          have hf : (Frame.addText ⟨toCps name, [], []⟩ text) = ⟨toCps name, text.reverse, []⟩ := by
            simp [Frame.addText]
          rw [hf]
          have := run_closeTag ⟨toCps name, text.reverse, []⟩ st root k1 hn
          simp only [] at this
          rw [this]
          simp only [closeFrame, List.isEmpty_nil, Bool.not_true, Bool.false_and, Bool.false_eq_true,
            if_false, List.reverse_reverse, List.reverse_nil, ofCps_toCps]
          rfl
      | cons k0 ks =>
        have hte : text = [] := by
          rcases hor with h | h
          · exact h
          · cases h
        subst hte
        have : render ind level (.elem name [] (k0 :: ks)) =
            (60 :: toCps name ++ [62]) ++ (renderKids ind (level + 1) (k0 :: ks) ++
              (indentStr ind level ++ (60 :: 47 :: toCps name ++ [62]))) := by
          simp [render, escText]
        rw [this, run_append_ok (run_openTag st root k (toCps name) hn hroot)]
        obtain ⟨k1, w, hw, h1⟩ := run_renderKids ind (k0 :: ks) (level + 1) ⟨toCps name, [], []⟩ st root 0 hk
        rw [run_append_ok h1]
        simp only [List.append_nil]
        obtain ⟨k2, h2⟩ := run_indent ⟨toCps name, w, (k0 :: ks).reverse⟩ st root k1 ind level
        rw [run_append_ok h2]
        have hf : Frame.addText ⟨toCps name, w, (k0 :: ks).reverse⟩ (indentStr ind level) =
            ⟨toCps name, w, (k0 :: ks).reverse⟩ := by
          simp [Frame.addText]
        rw [hf]
        have := run_closeTag ⟨toCps name, w, (k0 :: ks).reverse⟩ st root k2 hn
        simp only [] at this
        rw [this]
        have hw' : w.reverse.all isWs = true := by
          simp only [List.all_eq_true] at hw ⊢
          intro c hc
          exact hw c (by simpa using hc)
        simp only [closeFrame, hw', List.reverse_reverse, ofCps_toCps]
        simp [pushed]
  theorem run_renderKids (ind : Option Nat) : ∀ (ks : List XmlT) (level : Nat) (g : Frame)
      (st : List Frame) (root : Option XmlT) (k : Nat), plainList ks = true →
      ∃ k' w, w.all isWs = true ∧
        run ⟨g :: st, .content k, root⟩ (renderKids ind level ks) =
          .ok ⟨⟨g.name, w ++ g.text, ks.reverse ++ g.kids⟩ :: st, .content k', root⟩
    | [], level, g, st, root, k, _ => ⟨k, [], rfl, by simp [renderKids, run_nil]⟩
    | k0 :: ks, level, g, st, root, k, hp => by
      simp only [plainList, Bool.and_eq_true] at hp
      obtain ⟨k1, h1⟩ := run_indent g st root k ind level
      have h2 := run_render ind k0 level (g.addText (indentStr ind level) :: st) root k1 hp.1 (by simp)
      obtain ⟨k3, w, hw, h3⟩ := run_renderKids ind ks level
        ⟨g.name, (g.addText (indentStr ind level)).text, k0 :: g.kids⟩ st root 0 hp.2
      have hws := (indentStr_ws ind level).1
      have htext : ∃ w1, w1.all isWs = true ∧ (g.addText (indentStr ind level)).text = w1 ++ g.text := by
        unfold Frame.addText
        split
        · refine ⟨(indentStr ind level).reverse, ?_, rfl⟩
          simp only [List.all_eq_true] at hws ⊢
          intro c hc
          exact hws c (by simpa using hc)
        · exact ⟨[], rfl, rfl⟩
      obtain ⟨w1, hw1, ht1⟩ := htext
      refine ⟨k3, w ++ w1, by simp [List.all_append, hw, hw1], ?_⟩
      have : renderKids ind level (k0 :: ks) =
          indentStr ind level ++ (render ind level k0 ++ renderKids ind level ks) := by
        simp [renderKids]
      rw [this, run_append_ok h1, run_append, h2]
      simp only [pushed, addKid, addText_kids, addText_name]
      rw [h3, ht1]
      simp
end

/-! ### the output is ASCII without CR -/

/-- every code point is ASCII and not CR -/
def outOk (l : List Nat) : Prop := ∀ c ∈ l, c ≠ 13 ∧ c < 128

theorem outOk_append {a b : List Nat} (ha : outOk a) (hb : outOk b) : outOk (a ++ b) := by
  intro c hc
  rcases List.mem_append.1 hc with h | h
  · exact ha c h
  · exact hb c h

theorem outOk_cons {c : Nat} {l : List Nat} (hc : c ≠ 13 ∧ c < 128) (hl : outOk l) : outOk (c :: l) := by
  intro d hd
  rcases List.mem_cons.1 hd with rfl | h
  · exact hc
  · exact hl d h

theorem outOk_nil : outOk [] := fun _ h => by cases h

theorem outOk_append_iff (a b : List Nat) : outOk (a ++ b) ↔ outOk a ∧ outOk b := by
  constructor
  · intro h
    exact ⟨fun c hc => h c (List.mem_append_left _ hc), fun c hc => h c (List.mem_append_right _ hc)⟩
  · intro h; exact outOk_append h.1 h.2

theorem outOk_cons_iff (c : Nat) (l : List Nat) : outOk (c :: l) ↔ (c ≠ 13 ∧ c < 128) ∧ outOk l := by
  constructor
  · intro h
    exact ⟨h c (List.mem_cons_self ..), fun d hd => h d (List.mem_cons_of_mem _ hd)⟩
  · intro h; exact outOk_cons h.1 h.2

theorem asciiNameChar_lt (c : Nat) (h : isAsciiNameChar c = true) : c ≠ 13 ∧ c < 128 := by
  simp only [isAsciiNameChar, isAsciiNameStart, Bool.or_eq_true, Bool.and_eq_true, decide_eq_true_eq,
    beq_iff_eq] at h
  omega

theorem asciiNameStart_lt (c : Nat) (h : isAsciiNameStart c = true) : c ≠ 13 ∧ c < 128 := by
  simp only [isAsciiNameStart, Bool.or_eq_true, Bool.and_eq_true, decide_eq_true_eq, beq_iff_eq] at h
  omega

theorem outOk_name (nm : List Nat) (h : isAsciiName nm = true) : outOk nm := by
  cases nm with
  | nil => exact outOk_nil
  | cons c r =>
    simp only [isAsciiName, Bool.and_eq_true, List.all_eq_true] at h
    apply outOk_cons (asciiNameStart_lt c h.1)
    intro d hd
    exact asciiNameChar_lt d (h.2 d hd)

theorem outOk_digits (ds : List Nat) (h : ds.all isDigit = true) : outOk ds := by
  intro d hd
  simp only [List.all_eq_true] at h
  have := h d hd
  simp only [isDigit, Bool.and_eq_true, decide_eq_true_eq] at this
  omega

theorem outOk_escChar (c : Nat) (h : isTextChar c = true) : outOk (escChar c) := by
  obtain ⟨_, h13⟩ := textChar_isChar c h
  unfold escChar
  split
  · intro d hd; simp at hd; omega
  split
  · intro d hd; simp at hd; omega
  split
  · intro d hd; simp at hd; omega
  split
  · intro d hd; simp at hd; omega
  · apply outOk_append (outOk_append _ (outOk_digits _ (natToDec_digits c))) _
    · intro d hd; simp at hd; omega
    · intro d hd; simp at hd; omega

theorem outOk_escText (t : List Nat) (h : t.all isTextChar = true) : outOk (escText t) := by
  induction t with
  | nil => exact outOk_nil
  | cons c r ih =>
    simp only [List.all_cons, Bool.and_eq_true] at h
    have : escText (c :: r) = escChar c ++ escText r := by simp [escText]
    rw [this]
    exact outOk_append (outOk_escChar c h.1) (ih h.2)

theorem outOk_indent (ind : Option Nat) (level : Nat) : outOk (indentStr ind level) := by
  cases ind with
  | none => exact outOk_nil
  | some n =>
    intro c hc
    simp only [indentStr, List.mem_cons, List.mem_replicate] at hc
    omega

mutual
  theorem outOk_render (ind : Option Nat) : ∀ (x : XmlT) (level : Nat), x.plain = true →
      outOk (render ind level x)
    | .elem name text kids, level, hp => by
      obtain ⟨hn, ht, _, hk⟩ := plain_elem name text kids hp
      have hnm := outOk_name _ hn
      have htx := outOk_escText text ht
      have hin := outOk_indent ind level
      cases kids with
      | nil =>
        simp only [render]
        split
        · simp only [outOk_append_iff, outOk_cons_iff]
          simp [hnm, outOk_nil]
        · simp only [outOk_append_iff, outOk_cons_iff]
          simp [hnm, htx, outOk_nil]
      | cons k0 ks =>
        have hks := outOk_renderKids ind (k0 :: ks) (level + 1) hk
        simp only [render]
        simp only [outOk_append_iff, outOk_cons_iff]
        simp [hnm, htx, hin, hks, outOk_nil]
  theorem outOk_renderKids (ind : Option Nat) : ∀ (ks : List XmlT) (level : Nat),
      plainList ks = true → outOk (renderKids ind level ks)
    | [], _, _ => by simp only [renderKids]; exact outOk_nil
    | k0 :: ks, level, hp => by
      simp only [plainList, Bool.and_eq_true] at hp
      simp only [renderKids]
      exact outOk_append (outOk_append (outOk_indent ind level) (outOk_render ind k0 level hp.1))
        (outOk_renderKids ind ks level hp.2)
end

theorem outOk_renderDoc (ind : Option Nat) (x : XmlT) (hp : x.plain = true) :
    outOk (renderDoc ind x) := by
  unfold renderDoc
  apply outOk_append (outOk_render ind x 0 hp)
  split
  · exact outOk_cons ⟨by omega, by omega⟩ outOk_nil
  · exact outOk_nil

theorem normEolAux_of_outOk (l : List Nat) (h : outOk l) : normEolAux false l = l := by
  induction l with
  | nil => rfl
  | cons c r ih =>
    have hc := (h c (List.mem_cons_self ..)).1
    unfold normEolAux
    rw [if_neg hc, if_neg (by simp), ih (fun d hd => h d (List.mem_cons_of_mem _ hd))]

/-! ### documents -/

theorem render_head (ind : Option Nat) (level : Nat) (x : XmlT) :
    ∃ r, render ind level x = 60 :: r := by
  cases x with
  | elem name text kids =>
    cases kids with
    | nil =>
      simp only [render]
      split <;> exact ⟨_, rfl⟩
    | cons k ks => exact ⟨_, by simp only [render]; rfl⟩

/-- the reader returns the tree the writer was given, for every indentation -/
theorem parse_renderDoc (ind : Option Nat) (x : XmlT) (hp : x.plain = true) :
    parse (renderDoc ind x) = .ok x := by
  unfold parse renderDoc
  obtain ⟨r, hr⟩ := render_head ind 0 x
  have hbom : dropBom (render ind 0 x ++ (if (ind.isSome && !x.kids.isEmpty) = true then [10] else [])) =
      render ind 0 x ++ (if (ind.isSome && !x.kids.isEmpty) = true then [10] else []) := by
    rw [hr]; rfl
  rw [hbom]
  have hcr := outOk_renderDoc ind x hp
  unfold renderDoc at hcr
  rw [normEol, normEolAux_of_outOk _ hcr]
  have h1 := run_render ind x 0 [] none 0 hp rfl
  have h1' : run ⟨[], .content 0, none⟩ (render ind 0 x) = .ok ⟨[], .content 0, some x⟩ := by
    rw [h1]; rfl
  rw [initSt, run_append_ok h1']
  by_cases hb : (ind.isSome && !x.kids.isEmpty) = true
  · rw [if_pos hb]
    simp [run_cons, run_nil, step, isChar, isWs, finish]
  · rw [if_neg hb]
    simp [run_nil, finish]

end Asn1.Xml
