import Asn1Proofs.Lemmas.X690Tag
/-
  Shape of every DER encoding, of the code model (`Der.enc`) and of the specification (`X690.encV`):
  a single definite-length TLV -- valid identifier octets (X.690 8.1.2), length octets in the
  definite form with the minimum number of octets (10.1), contents -- which the framing probe
  `decode_full_length` (`Ber.fullLength`) measures exactly.
-/
set_option linter.unusedSimpArgs false
set_option linter.unusedVariables false
namespace Asn1.X690
open Asn1.Der (mkTag tagOf univNumber isConstructed)

/-! ### minimal length octets -/

/-- `l` are definite length octets for `n`, and no valid definite length octets for `n` *made of
octets* are shorter.

The restriction `∀ b ∈ l', b < 256` is needed: `Bytes = List Nat` and `Ber.validLen` does not bound
the digits of a long form, so without it `[0x81, 256]` would be "length octets" for 256 shorter
than `[0x82, 1, 0]` (`minimalLen_unrestricted_false`). -/
def MinimalLen (l : Bytes) (n : Nat) : Prop :=
  Ber.validLen l n ∧ ∀ l', (∀ b ∈ l', b < 256) → Ber.validLen l' n → l.length ≤ l'.length

/-- the unrestricted variant (quantifying over all `l' : List Nat`) is false for `n = 256` -/
theorem minimalLen_unrestricted_false :
    ¬ (∀ l', Ber.validLen l' 256 → (Ber.encLength 256).length ≤ l'.length) := by
  intro h
  have hv : Ber.validLen [0x81, 256] 256 := Or.inr ⟨1, [256], rfl, by decide, by decide, rfl, rfl⟩
  have h1 := h [0x81, 256] hv
  have h2 : (Ber.encLength 256).length = 3 := by decide
  rw [h2] at h1
  exact absurd h1 (by decide)

theorem foldl_bytes_lt (ds : Bytes) (hd : ∀ b ∈ ds, b < 256) (acc : Nat) :
    ds.foldl (fun acc b => 256 * acc + b) acc < (acc + 1) * 256 ^ ds.length := by
  induction ds generalizing acc with
  | nil => simp
  | cons b r ih =>
    have hb : b < 256 := hd b (by simp)
    have h1 := ih (fun x hx => hd x (by simp [hx])) (256 * acc + b)
    simp only [List.foldl_cons, List.length_cons]
    have h2 : (256 * acc + b + 1) * 256 ^ r.length ≤ (256 * (acc + 1)) * 256 ^ r.length :=
      Nat.mul_le_mul_right _ (by omega)
    have h3 : (256 * (acc + 1)) * 256 ^ r.length = (acc + 1) * 256 ^ (r.length + 1) := by
      rw [Nat.pow_succ, Nat.mul_comm 256 (acc + 1), Nat.mul_assoc, Nat.mul_comm 256]
    omega

/-- octets, read as a big-endian number, stay below `256 ^ length` -/
theorem bytesToNat_lt_pow (ds : Bytes) (hd : ∀ b ∈ ds, b < 256) : bytesToNat ds < 256 ^ ds.length := by
  have h := foldl_bytes_lt ds hd 0
  simpa [bytesToNat] using h

theorem encLength_length_long (n : Nat) (hn : ¬ n ≤ 127) : (Ber.encLength n).length = byteLength n + 1 := by
  simp [Ber.encLength, hn, natToBytesMin, Ber.natToBytesN_length]

/-- `encode_length_definite` uses the minimum number of octets (X.690 10.1) -/
theorem encLength_minimal (n : Nat) (hn : n < 256 ^ 127) : MinimalLen (Ber.encLength n) n := by
  refine ⟨(Ber.encLength_valid_iff n).mpr hn, ?_⟩
  intro l' hb hl'
  by_cases h : n ≤ 127
  · have hne := Ber.validLen_ne_nil hl'
    have : (Ber.encLength n).length = 1 := by simp [Ber.encLength, h]
    rw [this]
    cases l' with
    | nil => exact absurd rfl hne
    | cons a r => simp
  · rw [encLength_length_long n h]
    rcases hl' with ⟨_, hlt⟩ | ⟨k, ds, rfl, _, _, hk, hval⟩
    · omega
    · have hds : ∀ b ∈ ds, b < 256 := fun b hb' => hb b (by simp [hb'])
      have hlt := bytesToNat_lt_pow ds hds
      rw [hval, hk] at hlt
      have := (Ber.byteLength_le_iff n k).mpr hlt
      simp only [List.length_cons, hk]
      omega

/-! ### a single TLV -/

/-- a single definite-length TLV with valid identifier octets and minimal length octets, which the
framing probe `decode_full_length` measures exactly -/
def SingleTLV (bytes : Bytes) : Prop :=
  ∃ tag len content, bytes = tag ++ len ++ content ∧ Ber.validTag tag ∧ MinimalLen len content.length ∧
    Ber.fullLength bytes = .known bytes.length

/-- `decode_full_length` on identifier octets, definite length octets and anything after them
(same statement as `probe_complete` of C15) -/
theorem fullLength_tlv (t l rest : Bytes) (n : Nat) (ht : Ber.validTag t) (hl : Ber.validLen l n) :
    Ber.fullLength (t ++ l ++ rest) = .known (t.length + l.length + n) := by
  have hne : l ++ rest ≠ [] := by simp [Ber.validLen_ne_nil hl]
  rw [List.append_assoc]
  simp only [Ber.fullLength, Ber.skipTag_complete t (l ++ rest) ht hne, List.drop_left,
    Ber.decodeLength_complete l rest n hl]

theorem tlv_singleTLV (tag content : Bytes) (ht : Ber.validTag tag)
    (hlen : (Der.tlv tag content).length < 256 ^ 127) : SingleTLV (Der.tlv tag content) := by
  have hc : content.length < 256 ^ 127 := by
    simp only [Der.tlv, List.length_append] at hlen
    omega
  have hmin := encLength_minimal content.length hc
  refine ⟨tag, Ber.encLength content.length, content, rfl, ht, hmin, ?_⟩
  unfold Der.tlv
  rw [fullLength_tlv tag _ content content.length ht hmin.1]
  simp only [List.length_append]

theorem univNumber_lt (t : Ty) : univNumber t < 31 := by
  cases t with
  | charString k c => cases k <;> simp [univNumber]
  | _ => simp [univNumber]

theorem mkTag_validTag (u : Nat) (c : Bool) (tg : Option Nat) (hu : u < 31) : Ber.validTag (mkTag u c tg) := by
  cases tg with
  | none => exact Der.mkTag_univ_validTag u c hu
  | some i => exact Der.mkTag_ctx_validTag u c i

/-- NULL: `tag ++ [0]` is the TLV with empty contents -/
theorem null_eq_tlv (tag : Bytes) : tag ++ [0] = Der.tlv tag [] := by
  simp [Der.tlv, Ber.encLength]

/-! ### the code's encoder -/

/-- every case but the bare CHOICE, which is the encoding of the chosen alternative -/
theorem enc_tlv_shape_aux (t : Ty) (tg : Option Nat) (v : Val) (bytes : Bytes)
    (h : Der.enc t tg v = .ok bytes) (hlen : bytes.length < 256 ^ 127) :
    SingleTLV bytes ∨ (tg = none ∧ ∃ t' j v', Der.enc t' (some j) v' = .ok bytes) := by
  cases t <;> cases v <;> simp only [Der.enc] at h <;> try (cases h; done)
  case boolean.bool => cases h; exact Or.inl (tlv_singleTLV _ _ (mkTag_validTag _ _ _ (by decide)) hlen)
  case null.null =>
    cases h
    rw [null_eq_tlv] at hlen ⊢
    exact Or.inl (tlv_singleTLV _ _ (mkTag_validTag _ _ _ (by decide)) hlen)
  case integer.int => cases h; exact Or.inl (tlv_singleTLV _ _ (mkTag_validTag _ _ _ (by decide)) hlen)
  case enumerated.enum =>
    split at h
    · cases h
    · cases h; exact Or.inl (tlv_singleTLV _ _ (mkTag_validTag _ _ _ (by decide)) hlen)
  case octetString.bytes => cases h; exact Or.inl (tlv_singleTLV _ _ (mkTag_validTag _ _ _ (by decide)) hlen)
  case bitString.bits => cases h; exact Or.inl (tlv_singleTLV _ _ (mkTag_validTag _ _ _ (by decide)) hlen)
  case charString.str =>
    split at h
    · cases h
    · cases h; exact Or.inl (tlv_singleTLV _ _ (mkTag_validTag _ _ _ (univNumber_lt _)) hlen)
  case sequence.record =>
    split at h
    · cases h
    · split at h
      · cases h
      · cases h; exact Or.inl (tlv_singleTLV _ _ (mkTag_validTag _ _ _ (by decide)) hlen)
  case sequenceOf.list =>
    split at h
    · cases h
    · cases h; exact Or.inl (tlv_singleTLV _ _ (mkTag_validTag _ _ _ (by decide)) hlen)
  case choice.choice root ext adds name v =>
    cases tg with
    | some i =>
      simp only [] at h
      split at h
      · cases h
      · cases h; exact Or.inl (tlv_singleTLV _ _ (mkTag_validTag _ _ _ (by decide)) hlen)
    | none =>
      simp only [] at h
      refine Or.inr ⟨rfl, ?_⟩
      split at h
      · rename_i r hr
        obtain ⟨t', j, e⟩ := Der.encAlt_some_rt hr
        exact ⟨t', j, v, e ▸ h⟩
      · split at h
        · rename_i r hr
          obtain ⟨t', j, e⟩ := Der.encAlt_some_rt hr
          exact ⟨t', j, v, e ▸ h⟩
        · cases h

/-- output of the code's DER/BER encoder, any tagging context -/
theorem enc_tlv_shape (t : Ty) (tg : Option Nat) (v : Val) (bytes : Bytes)
    (h : Der.enc t tg v = .ok bytes) (hlen : bytes.length < 256 ^ 127) : SingleTLV bytes := by
  rcases enc_tlv_shape_aux t tg v bytes h hlen with hs | ⟨_, t', j, v', h'⟩
  · exact hs
  · rcases enc_tlv_shape_aux t' (some j) v' bytes h' hlen with hs | ⟨hn, _⟩
    · exact hs
    · cases hn

/-! ### the specification encoder -/

theorem encAlternative_some {as : Alts} {i : Nat} {name : String} {v : Val} {r : Except Uper.Err Bytes}
    (h : encAlternative as i name v = some r) : ∃ t j, r = encV t (some j) v := by
  induction as using Alts.ind generalizing i with
  | nil => simp [encAlternative] at h
  | cons n t rest ih =>
    simp only [encAlternative] at h
    split at h
    · cases h; exact ⟨t, i, rfl⟩
    · exact ih h

theorem spec_tlv_singleTLV (t : Ty) (tg : Option Nat) (c : Bool) (content : Bytes)
    (hlen : (tlv (header t tg c) content).length < 256 ^ 127) : SingleTLV (tlv (header t tg c) content) := by
  rw [tlv_eq, header_eq_mkTag] at hlen ⊢
  exact tlv_singleTLV _ _ (mkTag_validTag _ _ _ (univNumber_lt t)) hlen

theorem encV_tlv_shape_aux (t : Ty) (tg : Option Nat) (v : Val) (bytes : Bytes)
    (h : encV t tg v = .ok bytes) (hlen : bytes.length < 256 ^ 127) :
    SingleTLV bytes ∨ (tg = none ∧ ∃ t' j v', encV t' (some j) v' = .ok bytes) := by
  cases t <;> cases v <;> simp only [encV] at h <;> try (cases h; done)
  case boolean.bool => cases h; exact Or.inl (spec_tlv_singleTLV _ _ _ _ hlen)
  case null.null => cases h; exact Or.inl (spec_tlv_singleTLV _ _ _ _ hlen)
  case integer.int => cases h; exact Or.inl (spec_tlv_singleTLV _ _ _ _ hlen)
  case enumerated.enum =>
    split at h
    · cases h
    · cases h; exact Or.inl (spec_tlv_singleTLV _ _ _ _ hlen)
  case octetString.bytes => cases h; exact Or.inl (spec_tlv_singleTLV _ _ _ _ hlen)
  case bitString.bits => cases h; exact Or.inl (spec_tlv_singleTLV _ _ _ _ hlen)
  case charString.str =>
    split at h
    · cases h
    · cases h; exact Or.inl (spec_tlv_singleTLV _ _ _ _ hlen)
  case sequence.record =>
    split at h
    · cases h
    · split at h
      · cases h
      · cases h; exact Or.inl (spec_tlv_singleTLV _ _ _ _ hlen)
  case sequenceOf.list =>
    split at h
    · cases h
    · cases h; exact Or.inl (spec_tlv_singleTLV _ _ _ _ hlen)
  case choice.choice root ext adds name v =>
    cases tg with
    | some i =>
      simp only [] at h
      split at h
      · cases h
      · cases h
        rw [tlv_eq, identifier_context 0 true i] at hlen ⊢
        exact Or.inl (tlv_singleTLV _ _ (Der.mkTag_ctx_validTag _ _ _) hlen)
    | none =>
      simp only [] at h
      refine Or.inr ⟨rfl, ?_⟩
      split at h
      · rename_i r hr
        obtain ⟨t', j, e⟩ := encAlternative_some hr
        exact ⟨t', j, v, e ▸ h⟩
      · split at h
        · rename_i r hr
          obtain ⟨t', j, e⟩ := encAlternative_some hr
          exact ⟨t', j, v, e ▸ h⟩
        · cases h

/-- output of the specification encoder -/
theorem encV_tlv_shape (t : Ty) (tg : Option Nat) (v : Val) (bytes : Bytes)
    (h : encV t tg v = .ok bytes) (hlen : bytes.length < 256 ^ 127) : SingleTLV bytes := by
  rcases encV_tlv_shape_aux t tg v bytes h hlen with hs | ⟨_, t', j, v', h'⟩
  · exact hs
  · rcases encV_tlv_shape_aux t' (some j) v' bytes h' hlen with hs | ⟨hn, _⟩
    · exact hs
    · cases hn

end Asn1.X690

#print axioms Asn1.X690.encLength_minimal
#print axioms Asn1.X690.enc_tlv_shape
#print axioms Asn1.X690.encV_tlv_shape
