import Asn1Proofs.Lemmas.DerSeqOf
/-
  CHOICE of the shared BER / DER decoder (`gChoice`): round trip and totality of the encoder.
-/
set_option linter.unusedSimpArgs false
set_option linter.unusedVariables false
namespace Asn1.Der
open Asn1.Uper (Err)
open Asn1.X690 (canonV canonAltV defaultsOkV altsDefaultsOkV)

/-! ### `findO` views of the alternative-list functions -/

theorem canonAltV_find (as : Alts) (name : String) (v : Val) :
    canonAltV as name v = (as.findO name).map (fun x => canonV x.2 v) := by
  induction as using Alts.ind with
  | nil => rfl
  | cons n t rest ih =>
    simp only [X690.canonAltV, Alts.findO]
    split
    · rfl
    · rw [ih]
      cases rest.findO name <;> rfl

theorem alts_all_defaultsOkV (as : Alts) (h : altsDefaultsOkV as = true) :
    as.AllO (fun t => defaultsOkV t = true) := by
  induction as using Alts.ind with
  | nil => trivial
  | cons n t rest ih =>
    simp only [X690.altsDefaultsOkV, Bool.and_eq_true] at h
    exact ⟨h.1, ih h.2⟩

theorem encAlt_find (as : Alts) (i : Nat) (name : String) (v : Val) :
    encAlt as i name v = (as.findO name).map (fun x => enc x.2 (some (i + x.1)) v) := by
  induction as using Alts.ind generalizing i with
  | nil => rfl
  | cons n t rest ih =>
    simp only [encAlt, Alts.findO]
    split
    · rfl
    · rw [ih]
      cases rest.findO name with
      | none => rfl
      | some x =>
        simp only [Option.map_some]
        rw [show i + 1 + x.1 = i + (x.1 + 1) by omega]

/-! ### the alternative selected by the identifier octets -/

theorem gAlt_find {D : Decoder} {test : Ty → Nat → Bytes → Bool} (hD : IsCodec D test)
    (as : Alts) (name : String) (j : Nat) (t : Ty) (h : as.findO name = some (j, t))
    (i : Nat) (fuel : Nat) (bs : Bytes) :
    gAlt D test as i (tagOf t (some (i + j))) fuel bs
      = some (match D t (some (i + j)) fuel bs with
        | .error e => .error e
        | .ok none => .error .unmodelled
        | .ok (some (v, k, r)) => .ok (some (.choice name v, k, r))) := by
  induction as using Alts.ind generalizing j i with
  | nil => simp [Alts.findO] at h
  | cons n t' rest ih =>
    simp only [Alts.findO] at h
    split at h
    · rename_i hn
      cases h
      have : n = name := by simpa using hn
      subst this
      simp only [gAlt, Nat.add_zero, hD.test_self, if_true]
      rfl
    · simp only [Option.map_eq_some_iff, Prod.mk.injEq] at h
      obtain ⟨⟨j', t''⟩, h1, h2, h3⟩ := h
      dsimp only at h2 h3
      subst h2
      subst h3
      have hne : test t' i (tagOf t'' (some (i + (j' + 1)))) = false := by
        cases hc : test t' i (tagOf t'' (some (i + (j' + 1)))) with
        | false => rfl
        | true =>
          have := hD.test_num t' i (i + (j' + 1)) (univNumber t'') (isConstructed t'') hc
          omega
      simp only [gAlt, hne, Bool.false_eq_true, if_false]
      have := ih j' h1 (i + 1)
      rw [show i + 1 + j' = i + (j' + 1) by omega] at this
      exact this

theorem gAlt_none {D : Decoder} {test : Ty → Nat → Bytes → Bool} (hD : IsCodec D test)
    (as : Alts) (u : Nat) (c : Bool) (idx i : Nat) (fuel : Nat) (bs : Bytes)
    (h : i + as.length ≤ idx) :
    gAlt D test as i (mkTag u c (some idx)) fuel bs = none := by
  induction as using Alts.ind generalizing i with
  | nil => rfl
  | cons n t rest ih =>
    simp only [Alts.length] at h
    have hne : test t i (mkTag u c (some idx)) = false := by
      cases hc : test t i (mkTag u c (some idx)) with
      | false => rfl
      | true =>
        have := hD.test_num t i idx u c hc
        omega
    simp only [gAlt, hne, Bool.false_eq_true, if_false]
    exact ih (i + 1) (by omega)

/-- the bare CHOICE read back, alternative in the extension root -/
theorem gBare_root {D : Decoder} {test : Ty → Nat → Bytes → Bool} (hD : IsCodec D test)
    (root : Alts) (ext : Bool) (adds : Alts) (name : String) (j : Nat) (t : Ty)
    (hf : root.findO name = some (j, t)) (v w : Val) (body rest : Bytes) (fuel : Nat)
    (hbody : enc t (some j) v = .ok body)
    (hdec : D t (some j) fuel (body ++ rest) = .ok (some (w, body.length, rest))) :
    gBare D test root ext adds fuel (body ++ rest)
      = .ok (some (.choice name w, body.length, rest)) := by
  obtain ⟨r, hr, hrne⟩ := enc_starts hbody
  have htag : readTag (body ++ rest) = .ok (tagOf t (some j), r ++ rest) := by
    rw [hr, List.append_assoc]
    exact readTag_mkTag_ctx _ _ _ _ (by simp [hrne])
  have hg := gAlt_find hD root name j t hf 0 fuel (body ++ rest)
  rw [Nat.zero_add] at hg
  rw [gBare, htag]
  simp only []
  rw [hg, hdec]

/-- the bare CHOICE read back, alternative among the extension additions -/
theorem gBare_adds {D : Decoder} {test : Ty → Nat → Bytes → Bool} (hD : IsCodec D test)
    (root : Alts) (ext : Bool) (adds : Alts) (name : String) (j : Nat) (t : Ty)
    (hf : adds.findO name = some (j, t)) (v w : Val) (body rest : Bytes) (fuel : Nat)
    (hbody : enc t (some (root.length + j)) v = .ok body)
    (hdec : D t (some (root.length + j)) fuel (body ++ rest) = .ok (some (w, body.length, rest))) :
    gBare D test root ext adds fuel (body ++ rest)
      = .ok (some (.choice name w, body.length, rest)) := by
  obtain ⟨r, hr, hrne⟩ := enc_starts hbody
  have htag : readTag (body ++ rest) = .ok (tagOf t (some (root.length + j)), r ++ rest) := by
    rw [hr, List.append_assoc]
    exact readTag_mkTag_ctx _ _ _ _ (by simp [hrne])
  have hn : gAlt D test root 0 (tagOf t (some (root.length + j))) fuel (body ++ rest) = none :=
    gAlt_none hD root _ _ _ 0 fuel _ (by omega)
  have hg := gAlt_find hD adds name j t hf root.length fuel (body ++ rest)
  rw [gBare, htag]
  simp only []
  rw [hn]
  simp only []
  rw [hg, hdec]

/-- the `ExplicitTag` wrapper around a bare CHOICE read back -/
theorem gChoice_of_bare {D : Decoder} {test : Ty → Nat → Bytes → Bool}
    (root : Alts) (ext : Bool) (adds : Alts) (tg : Option Nat) (inner : EncM Bytes)
    (bytes rest : Bytes) (fuel : Nat) (w : Val)
    (he : (match tg with
      | none => inner
      | some _ =>
        match inner with
        | .error e => .error e
        | .ok body => .ok (tlv (mkTag 0 true tg) body)) = .ok bytes)
    (hb : ∀ body, inner = .ok body → body.length ≤ bytes.length → ∀ rest',
      gBare D test root ext adds fuel (body ++ rest') = .ok (some (w, body.length, rest'))) :
    gChoice D test root ext adds tg fuel (bytes ++ rest) = .ok (some (w, bytes.length, rest)) := by
  cases tg with
  | none =>
    rw [gChoice]
    exact hb bytes he (Nat.le_refl _) rest
  | some i =>
    cases hin : inner with
    | error e => rw [hin] at he; cases he
    | ok body =>
      rw [hin] at he
      cases he
      have hlen := tlv_length (mkTag 0 true (some i)) body
      rw [gChoice]
      try simp only []
      rw [tlv_append, matchTag_self]
      try simp only []
      rw [readLen_encLength]
      try simp only []
      rw [hb body hin (by omega) rest]
      simp only [hlen]

/-! ### the two CHOICE theorems -/

theorem rt_choice {D : Decoder} {test : Ty → Nat → Bytes → Bool} (hD : IsCodec D test)
    (root : Alts) (ext : Bool) (adds : Alts)
    (ihr : root.AllO (RT D)) (iha : adds.AllO (RT D)) : RT D (.choice root ext adds) := by
  intro tg v bytes rest fuel hwf hwf2 hd ht he hfuel
  cases v <;> try (simp only [hasType, Bool.false_eq_true] at ht; done)
  rename_i name v
  simp only [hasType] at ht
  simp only [Ty.wf, Bool.and_eq_true, decide_eq_true_eq] at hwf
  obtain ⟨⟨⟨⟨hwr, hwa⟩, _⟩, hnd⟩, _⟩ := hwf
  simp only [Oer.oerWf, Bool.and_eq_true] at hwf2
  simp only [X690.defaultsOkV, Bool.and_eq_true] at hd
  rw [X690.canonV, canonAltV_find, canonAltV_find]
  simp only [enc] at he
  rw [encAlt_find, encAlt_find] at he
  rw [hD.choice]
  rcases Oer.choice_typed hnd ht with ⟨j, t, hf, hty⟩ | ⟨hf, j, t, hfa, hty⟩
  · simp only [hf, Option.map_some, Nat.zero_add] at he ⊢
    have hrt : RT D t := find_all_oer name root j t hf ihr
    have hwt := find_all_oer name root j t hf (alts_all_wf_oer root hwr)
    have hwt2 := find_all_oer name root j t hf (Oer.alts_all_oerWf root hwf2.1)
    have hdt := find_all_oer name root j t hf (alts_all_defaultsOkV root hd.1)
    refine gChoice_of_bare root ext adds tg _ bytes rest fuel _ he ?_
    intro body hbody hle rest'
    exact gBare_root hD root ext adds name j t hf v _ body rest' fuel hbody
      (hrt (some j) v body rest' fuel hwt hwt2 hdt hty hbody (by omega))
  · simp only [hf, hfa, Option.map_some, Option.map_none] at he ⊢
    have hrt : RT D t := find_all_oer name adds j t hfa iha
    have hwt := find_all_oer name adds j t hfa (alts_all_wf_oer adds hwa)
    have hwt2 := find_all_oer name adds j t hfa (Oer.alts_all_oerWf adds hwf2.2)
    have hdt := find_all_oer name adds j t hfa (alts_all_defaultsOkV adds hd.2)
    refine gChoice_of_bare root ext adds tg _ bytes rest fuel _ he ?_
    intro body hbody hle rest'
    exact gBare_adds hD root ext adds name j t hfa v _ body rest' fuel hbody
      (hrt (some (root.length + j)) v body rest' fuel hwt hwt2 hdt hty hbody (by omega))

theorem et_choice (root : Alts) (ext : Bool) (adds : Alts)
    (ihr : root.AllO ET) (iha : adds.AllO ET) : ET (.choice root ext adds) := by
  intro tg v hwf ht
  cases v <;> try (simp only [hasType, Bool.false_eq_true] at ht; done)
  rename_i name v
  simp only [hasType] at ht
  simp only [Ty.wf, Bool.and_eq_true, decide_eq_true_eq] at hwf
  obtain ⟨⟨⟨⟨hwr, hwa⟩, _⟩, hnd⟩, _⟩ := hwf
  simp only [enc]
  rw [encAlt_find, encAlt_find]
  rcases Oer.choice_typed hnd ht with ⟨j, t, hf, hty⟩ | ⟨hf, j, t, hfa, hty⟩
  · simp only [hf, Option.map_some, Nat.zero_add]
    have het : ET t := find_all_oer name root j t hf ihr
    have hwt := find_all_oer name root j t hf (alts_all_wf_oer root hwr)
    obtain ⟨body, hb⟩ := het (some j) v hwt hty
    rw [hb]
    cases tg with
    | none => exact ⟨_, rfl⟩
    | some i => exact ⟨_, rfl⟩
  · simp only [hf, hfa, Option.map_some, Option.map_none]
    have het : ET t := find_all_oer name adds j t hfa iha
    have hwt := find_all_oer name adds j t hfa (alts_all_wf_oer adds hwa)
    obtain ⟨body, hb⟩ := het (some (root.length + j)) v hwt hty
    rw [hb]
    cases tg with
    | none => exact ⟨_, rfl⟩
    | some i => exact ⟨_, rfl⟩

#print axioms rt_choice
#print axioms et_choice

end Asn1.Der
