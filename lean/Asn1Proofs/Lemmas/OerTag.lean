import Asn1Proofs.Lemmas.OerPrim
/-
  CHOICE tags of the OER model: `readTag (encTag n 0x80 ++ rest)` and injectivity of `encTag · 0x80`.
-/
namespace Asn1.Oer

/-- value of a big-endian base-128 digit string -/
def b128val (ds : Bytes) : Nat := ds.foldl (fun acc d => acc * 128 + d) 0

theorem b128val_concat (a : Bytes) (d : Nat) : b128val (a ++ [d]) = b128val a * 128 + d := by
  simp [b128val, List.foldl_append]

theorem base128_lt (f n : Nat) : ∀ d ∈ base128 f n, d < 128 := by
  induction f generalizing n with
  | zero => intro d hd; simp [base128] at hd
  | succ f ih =>
    intro d hd
    unfold base128 at hd
    split at hd
    · simp only [List.mem_singleton] at hd; omega
    · simp only [List.mem_append, List.mem_singleton] at hd
      rcases hd with hd | hd
      · exact ih _ d hd
      · omega

theorem base128_val (f n : Nat) (h : n < 128 ^ f) : b128val (base128 f n) = n := by
  induction f generalizing n with
  | zero => simp at h; subst h; rfl
  | succ f ih =>
    unfold base128
    split
    · simp [b128val]
    · rw [b128val_concat, ih (n / 128) (by rw [Nat.pow_succ] at h; omega)]
      omega

/-- shape of the digit string: non-empty when fuel is -/
theorem base128_succ (f n : Nat) : ∃ xs y, base128 (f + 1) n = xs ++ [y] := by
  unfold base128
  split
  · exact ⟨[], n, rfl⟩
  · exact ⟨_, _, rfl⟩

theorem lt_pow128 (n : Nat) : n < 128 ^ (bitLength n + 1) := by
  have h1 := lt_two_pow_bitLength_oer n
  have h2 : 2 ^ bitLength n ≤ 2 ^ (7 * (bitLength n + 1)) := Nat.pow_le_pow_right (by omega) (by omega)
  have h3 : (128 : Nat) ^ (bitLength n + 1) = 2 ^ (7 * (bitLength n + 1)) := by
    have e : (128 : Nat) = 2 ^ 7 := by decide
    rw [e, ← Nat.pow_mul]
  omega

/-- the long form of `encTag`, with the digit string split into leading digits and last digit -/
theorem encTag_long (n flags : Nat) (h : ¬ n < 63) :
    ∃ xs y, base128 (bitLength n + 1) n = xs ++ [y] ∧
      encTag n flags = (flags + 0x3f) :: (xs.map (· + 0x80) ++ [y]) := by
  obtain ⟨xs, y, hxy⟩ := base128_succ (bitLength n) n
  refine ⟨xs, y, hxy, ?_⟩
  unfold encTag
  rw [if_neg h]
  simp only [hxy, List.dropLast_concat, List.getLast?_concat, Option.getD_some]

theorem encTag_short (n flags : Nat) (h : n < 63) : encTag n flags = [flags + n] := by
  unfold encTag; rw [if_pos h]

/-- left inverse of `encTag · 0x80` -/
def tagNum : Bytes → Nat
  | [] => 0
  | [b] => b - 128
  | _ :: rest => rest.foldl (fun acc d => acc * 128 + d % 128) 0

theorem foldl_map_add128 (xs : Bytes) (a : Nat) (h : ∀ x ∈ xs, x < 128) :
    (xs.map (· + 0x80)).foldl (fun acc d => acc * 128 + d % 128) a
      = xs.foldl (fun acc d => acc * 128 + d) a := by
  induction xs generalizing a with
  | nil => rfl
  | cons x r ih =>
    have hx := h x (by simp)
    simp only [List.map_cons, List.foldl_cons]
    have : (x + 0x80) % 128 = x := by omega
    rw [this, ih _ (fun y hy => h y (by simp [hy]))]

theorem tagNum_cons (b : Nat) (r : Bytes) (h : r ≠ []) :
    tagNum (b :: r) = r.foldl (fun acc d => acc * 128 + d % 128) 0 := by
  cases r with
  | nil => exact absurd rfl h
  | cons a r => rfl

theorem tagNum_encTag (n : Nat) : tagNum (encTag n 0x80) = n := by
  by_cases h : n < 63
  · rw [encTag_short n _ h]
    show 0x80 + n - 128 = n
    omega
  · obtain ⟨xs, y, hxy, he⟩ := encTag_long n 0x80 h
    rw [he]
    have hlt := base128_lt (bitLength n + 1) n
    rw [hxy] at hlt
    have hy : y < 128 := hlt y (by simp)
    have hxs : ∀ x ∈ xs, x < 128 := fun x hx => hlt x (by simp [hx])
    have hval := base128_val (bitLength n + 1) n (lt_pow128 n)
    rw [hxy, b128val_concat] at hval
    have : tagNum ((0x80 + 0x3f) :: (xs.map (· + 0x80) ++ [y]))
        = (xs.map (· + 0x80) ++ [y]).foldl (fun acc d => acc * 128 + d % 128) 0 :=
      tagNum_cons _ _ (by simp)
    rw [this, List.foldl_append, foldl_map_add128 _ _ hxs]
    simp only [List.foldl_cons, List.foldl_nil]
    have : y % 128 = y := by omega
    rw [this]
    exact hval

theorem encTag_inj {i j : Nat} (h : encTag i 0x80 = encTag j 0x80) : i = j := by
  have := congrArg tagNum h
  rwa [tagNum_encTag, tagNum_encTag] at this

theorem readTagRest_body (xs : Bytes) (y : Nat) (rest : Bytes) (fuel : Nat)
    (hy : y < 128) (hf : xs.length + 1 ≤ fuel) :
    readTagRest fuel (xs.map (· + 0x80) ++ [y] ++ rest) = .ok (xs.map (· + 0x80) ++ [y], rest) := by
  induction xs generalizing fuel with
  | nil =>
    cases fuel with
    | zero => simp at hf
    | succ fuel =>
      simp only [List.map_nil, List.nil_append, List.cons_append, readTagRest, bind, Except.bind,
        readByte_cons, hy, if_true]
  | cons x r ih =>
    cases fuel with
    | zero => simp at hf
    | succ fuel =>
      simp only [List.map_cons, List.cons_append, readTagRest, bind, Except.bind, readByte_cons]
      rw [if_neg (by omega)]
      rw [ih fuel (by simp only [List.length_cons] at hf; omega)]

theorem readTag_encTag (n : Nat) (rest : Bytes) :
    readTag (encTag n 0x80 ++ rest) = .ok (encTag n 0x80, rest) := by
  by_cases h : n < 63
  · rw [encTag_short n _ h]
    simp only [readTag, bind, Except.bind, List.cons_append, List.nil_append, readByte_cons]
    rw [if_neg (by omega)]
  · obtain ⟨xs, y, hxy, he⟩ := encTag_long n 0x80 h
    rw [he]
    have hlt := base128_lt (bitLength n + 1) n
    rw [hxy] at hlt
    have hy : y < 128 := hlt y (by simp)
    simp only [readTag, bind, Except.bind, List.cons_append, readByte_cons]
    rw [if_pos (by decide)]
    rw [readTagRest_body xs y rest _ hy (by simp)]

end Asn1.Oer
