import Asn1Proofs.Lemmas.X690Int
/-
  C04 (completeness of the code's BER decoder with respect to the X.690 reference decoder
  `X690.berDecodeRef`), the LENGTH-FORM dimension and the PRIMITIVE LEAVES:

  * every definite length form the reference decoder reads (short form, long form with 1 .. 126
    subsequent octets, leading zero octets allowed) and the indefinite form are read by the code's
    `decode_length` (`Der.readLen`) with the same meaning;
  * BOOLEAN, NULL, INTEGER, ENUMERATED in any tagging context, and the primitive form of
    OCTET STRING, the character strings and BIT STRING: whatever `decV` accepts, `BerCodec.dec`
    accepts with the same value (BIT STRING: when the unused bits are zero, deviation
    `dirtyUnusedBits`);
  * a closed regression theorem for the repaired indefinite-length defect and a closed witness of the remaining deviation.
-/
set_option linter.unusedSimpArgs false
set_option linter.unusedVariables false
namespace Asn1.X690
open Asn1.Der (readLen readPrim matchTag mkTag)

/-! ### `takeN`, `stripPrefix` -/

/-- `takeN` is `Oer.splitAux` -/
theorem takeN_eq_splitAux (n : Nat) (bs acc : Bytes) : takeN n bs acc = Oer.splitAux n bs acc := by
  induction n generalizing bs acc with
  | zero => rfl
  | succ n ih =>
    cases bs with
    | nil => rfl
    | cons b r => simp only [takeN, Oer.splitAux]; exact ih r (b :: acc)

theorem takeN_some_acc {n : Nat} {bs acc c r : Bytes} (h : takeN n bs acc = some (c, r)) :
    ∃ c', c = acc.reverse ++ c' ∧ bs = c' ++ r ∧ c'.length = n := by
  induction n generalizing bs acc with
  | zero =>
    simp only [takeN, Option.some.injEq, Prod.mk.injEq] at h
    exact ⟨[], by simp [h.1], by simp [h.2], rfl⟩
  | succ n ih =>
    cases bs with
    | nil => simp [takeN] at h
    | cons b t =>
      simp only [takeN] at h
      obtain ⟨c', h1, h2, h3⟩ := ih h
      exact ⟨b :: c', by simp [h1], by simp [h2], by simp [h3]⟩

theorem takeN_some {n : Nat} {bs c r : Bytes} (h : takeN n bs [] = some (c, r)) :
    bs = c ++ r ∧ c.length = n := by
  obtain ⟨c', h1, h2, h3⟩ := takeN_some_acc h
  simp only [List.reverse_nil, List.nil_append] at h1
  subst h1
  exact ⟨h2, h3⟩

theorem takeN_append (a b : Bytes) : takeN a.length (a ++ b) [] = some (a, b) := by
  rw [takeN_eq_splitAux, Oer.splitAux_append]; simp

theorem stripPrefix_some {p bs r : Bytes} (h : stripPrefix p bs = some r) : bs = p ++ r := by
  induction p generalizing bs with
  | nil => simp only [stripPrefix, Option.some.injEq] at h; simp [h]
  | cons x ps ih =>
    cases bs with
    | nil => simp [stripPrefix] at h
    | cons b t =>
      simp only [stripPrefix] at h
      split at h
      · rename_i hb
        have hb' : x = b := by simpa using hb
        rw [ih h, hb']; rfl
      · cases h

theorem hasN_of_takeN {n : Nat} {r c rest : Bytes} (hc : takeN n r [] = some (c, rest)) :
    Der.hasN n r = true := by
  obtain ⟨h1, h2⟩ := takeN_some hc
  subst h1; subst h2
  exact Der.hasN_append c rest

/-! ### length octets -/

/-- every definite length form the reference decoder reads (short form, long form with up to 126
subsequent octets, leading zero octets allowed) is read by the code's `decode_length` with the same
value, provided the announced contents are there -/
theorem readLen_of_readLength {d : Bool} {bs r c rest : Bytes} {n : Nat}
    (h : readLength bs = some (.definite n, r)) (hc : takeN n r [] = some (c, rest)) :
    ∃ hdr, readLen d bs = .ok (some n, hdr, r) ∧ bs.length = hdr + r.length := by
  cases bs with
  | nil => simp [readLength] at h
  | cons l r0 =>
    simp only [readLength] at h
    by_cases h1 : l < 128
    · rw [if_pos h1] at h
      simp only [Option.some.injEq, Prod.mk.injEq, Len.definite.injEq] at h
      obtain ⟨hn, hr⟩ := h
      subst hn; subst hr
      refine ⟨1, ?_, by simp [Nat.add_comm]⟩
      simp only [readLen, if_pos h1, hasN_of_takeN hc, if_true]
    · rw [if_neg h1] at h
      by_cases h2 : l = 128
      · rw [if_pos h2] at h; cases h
      · rw [if_neg h2] at h
        by_cases h3 : l < 255
        · rw [if_pos h3] at h
          split at h
          · rename_i ds r' hds
            simp only [Option.some.injEq, Prod.mk.injEq, Len.definite.injEq] at h
            obtain ⟨hn, hr⟩ := h
            subst hn; subst hr
            obtain ⟨e1, e2⟩ := takeN_some hds
            refine ⟨l - 128 + 1, ?_, ?_⟩
            · rw [takeN_eq_splitAux] at hds
              simp only [readLen, if_neg h1, if_neg h2, hds, hasN_of_takeN hc, if_true]
            · subst e1
              simp only [List.length_cons, List.length_append, e2]
              omega
          · cases h
        · rw [if_neg h3] at h; cases h

/-- the indefinite form -/
theorem readLen_of_readLength_indef {bs r : Bytes} (h : readLength bs = some (.indefinite, r)) :
    readLen false bs = .ok (none, 1, r) := by
  cases bs with
  | nil => simp [readLength] at h
  | cons l r0 =>
    simp only [readLength] at h
    by_cases h1 : l < 128
    · rw [if_pos h1] at h; cases h
    · rw [if_neg h1] at h
      by_cases h2 : l = 128
      · rw [if_pos h2] at h
        simp only [Option.some.injEq, Prod.mk.injEq, true_and] at h
        subst h
        simp [readLen, h2]
      · rw [if_neg h2] at h
        by_cases h3 : l < 255
        · rw [if_pos h3] at h
          split at h <;> cases h
        · rw [if_neg h3] at h; cases h

/-- `validLen` octets (any padding) with at most 126 subsequent octets are read by both -/
theorem readLength_validLen (l : Bytes) (n : Nat) (r : Bytes) (hl : Ber.validLen l n)
    (h255 : l.head? ≠ some 255) :
    readLength (l ++ r) = some (.definite n, r) := by
  rcases hl with ⟨rfl, hn⟩ | ⟨k, ds, rfl, hk1, hk2, hlen, hval⟩
  · simp [readLength, hn]
  · have hk : 128 + k ≠ 255 := by
      intro e; apply h255; simp [e]
    have e1 : ¬ (128 + k < 128) := by omega
    have e2 : ¬ (128 + k = 128) := by omega
    have e3 : 128 + k < 255 := by omega
    have e4 : 128 + k - 128 = ds.length := by omega
    simp only [List.cons_append, readLength, if_neg e1, if_neg e2, if_pos e3, e4, takeN_append, hval]

/-! ### primitive encodings -/

theorem primitiveContents_some {bs c rest : Bytes} (h : primitiveContents bs = some (c, rest)) :
    ∃ n r, readLength bs = some (.definite n, r) ∧ takeN n r [] = some (c, rest) := by
  unfold primitiveContents at h
  split at h
  · rename_i n r hr
    exact ⟨n, r, hr, h⟩
  · cases h

theorem readBytes_of_takeN {n : Nat} {r c rest : Bytes} (hc : takeN n r [] = some (c, rest)) :
    Oer.readBytes n r = .ok (c, rest) := by
  rw [takeN_eq_splitAux] at hc
  simp [Oer.readBytes, hc]

/-- a primitive encoding accepted by the reference decoder is read by the code's `readPrim` -/
theorem readPrim_of_primitiveContents {tag bs c rest : Bytes}
    (h : primitiveContents bs = some (c, rest)) :
    ∃ k, readPrim tag (tag ++ bs) = .ok (some (c, k, rest)) ∧ (tag ++ bs).length = k + rest.length := by
  obtain ⟨n, r, hr, hc⟩ := primitiveContents_some h
  obtain ⟨hdr, hlen, hbs⟩ := readLen_of_readLength (d := true) hr hc
  obtain ⟨e1, e2⟩ := takeN_some hc
  refine ⟨tag.length + hdr + n, ?_, ?_⟩
  · simp only [readPrim, bind, Except.bind, Der.matchTag_self, hlen, readBytes_of_takeN hc]
  · rw [List.length_append, hbs, e1, List.length_append, e2]; omega

/-- `PrimitiveOrConstructedType.decode` on a primitive encoding the reference decoder accepts -/
theorem pcDecode_of_primitiveContents {α : Type} (prim : Bytes → Bytes → Der.DecM α)
    (join : List α → α) (segTag segCtag : Bytes) (fuel : Nat) (tag ctag r content rest : Bytes) (a : α)
    (hp : primitiveContents r = some (content, rest)) (ha : prim content rest = .ok a) :
    ∃ k, BerCodec.pcDecode prim join segTag segCtag (fuel + 1) tag ctag (tag ++ r)
        = .ok (some (a, k, rest)) ∧ (tag ++ r).length = k + rest.length := by
  obtain ⟨n, r1, hr, hc⟩ := primitiveContents_some hp
  obtain ⟨hdr, hlen, hbs⟩ := readLen_of_readLength (d := false) hr hc
  obtain ⟨e1, e2⟩ := takeN_some hc
  refine ⟨tag.length + hdr + n, ?_, ?_⟩
  · simp only [BerCodec.pcDecode, Oer.splitAux_append, List.reverse_nil, List.nil_append,
      beq_self_eq_true, if_true, hlen, readBytes_of_takeN hc, ha]
  · rw [List.length_append, hbs, e1, List.length_append, e2]; omega

/-! ### the leaves that have only a primitive form -/

theorem enumNameOf_eq_enumName (v : Int) (l : List (String × Int)) : enumNameOf v l = Oer.enumName v l := by
  induction l with
  | nil => rfl
  | cons x r ih =>
    obtain ⟨n, w⟩ := x
    simp only [enumNameOf, Oer.enumName, ih]

/-- leaves that have only a primitive form -/
def isPrimLeaf : Ty → Bool
  | .boolean => true | .null => true | .integer _ => true | .enumerated _ _ => true | _ => false

/-- C04 for BOOLEAN, NULL, INTEGER, ENUMERATED in any tagging context and with ANY valid length form -/
theorem complete_leaf (t : Ty) (tg : Option Nat) (fuel : Nat) (bs rest : Bytes) (v : Val)
    (hl : isPrimLeaf t = true) (h : decV t tg fuel bs = some (v, rest)) :
    ∃ k, BerCodec.dec t tg fuel bs = .ok (some (v, k, rest)) ∧ bs.length = k + rest.length := by
  cases t with
  | boolean =>
    rw [decV] at h
    split at h
    · cases h
    · rename_i r hs
      have hbs := stripPrefix_some hs
      rw [header_eq_mkTag] at hbs
      split at h
      · rename_i b r' hp
        cases h
        obtain ⟨k, hk, hlen⟩ := readPrim_of_primitiveContents (tag := mkTag 1 false tg) hp
        refine ⟨k, ?_, by rw [hbs]; exact hlen⟩
        rw [BerCodec.dec, hbs]
        simp only [bind, Except.bind, Der.univNumber, hk]
      · cases h
  | null =>
    rw [decV] at h
    split at h
    · cases h
    · rename_i r hs
      have hbs := stripPrefix_some hs
      rw [header_eq_mkTag] at hbs
      split at h
      · rename_i r' hp
        cases h
        obtain ⟨n, r1, hr, hc⟩ := primitiveContents_some hp
        obtain ⟨hdr, hlen, hb⟩ := readLen_of_readLength (d := true) hr hc
        obtain ⟨e1, e2⟩ := takeN_some hc
        simp only [List.nil_append] at e1
        subst e1
        refine ⟨(mkTag 5 false tg).length + hdr, ?_, ?_⟩
        · rw [BerCodec.dec, hbs]
          simp only [bind, Except.bind, Der.univNumber, Der.matchTag_self, hlen]
        · rw [hbs, List.length_append, hb]; simp only [Der.univNumber]; omega
      · cases h
  | integer c =>
    rw [decV] at h
    split at h
    · cases h
    · rename_i r hs
      have hbs := stripPrefix_some hs
      rw [header_eq_mkTag] at hbs
      split at h
      · rename_i ct r' hp
        split at h
        · cases h
          obtain ⟨k, hk, hlen⟩ := readPrim_of_primitiveContents (tag := mkTag 2 false tg) hp
          refine ⟨k, ?_, by rw [hbs]; exact hlen⟩
          rw [BerCodec.dec, hbs]
          simp only [bind, Except.bind, Der.univNumber, hk]
        · cases h
      · cases h
  | enumerated root ext =>
    rw [decV] at h
    split at h
    · cases h
    · rename_i r hs
      have hbs := stripPrefix_some hs
      rw [header_eq_mkTag] at hbs
      split at h
      · rename_i ct r' hp
        split at h
        · split at h
          · rename_i name hname
            cases h
            rw [enumNameOf_eq_enumName] at hname
            obtain ⟨k, hk, hlen⟩ := readPrim_of_primitiveContents (tag := mkTag 10 false tg) hp
            refine ⟨k, ?_, by rw [hbs]; exact hlen⟩
            rw [BerCodec.dec, hbs]
            simp only [bind, Except.bind, Der.univNumber, hk, Der.enumOfContent, hname]
          · cases h
        · cases h
      · cases h
  | _ => simp [isPrimLeaf] at hl

/-! ### the string types in primitive form -/

/-- C04 for the string types in PRIMITIVE form (any valid length form): OCTET STRING ... -/
theorem complete_octets_primitive (c : SizeC) (tg : Option Nat) (fuel : Nat) (bs r rest : Bytes) (content : Bytes)
    (hf : 0 < fuel) (hs : stripPrefix (header (.octetString c) tg false) bs = some r)
    (hp : primitiveContents r = some (content, rest)) :
    ∃ k, BerCodec.dec (.octetString c) tg fuel bs = .ok (some (.bytes content, k, rest)) ∧ bs.length = k + rest.length := by
  obtain ⟨f, rfl⟩ : ∃ f, fuel = f + 1 := ⟨fuel - 1, by omega⟩
  have hbs := stripPrefix_some hs
  rw [header_eq_mkTag] at hbs
  obtain ⟨k, hk, hlen⟩ := pcDecode_of_primitiveContents (fun content _ => .ok content) List.flatten
    [4] [0x24] f (mkTag 4 false tg) (mkTag 4 true tg) r content rest content hp rfl
  refine ⟨k, ?_, by rw [hbs]; exact hlen⟩
  rw [BerCodec.dec, hbs]
  simp only [bind, Except.bind, Der.univNumber, BerCodec.decOctets, hk]

/-- what the reference decoder accepts as characters, the code's `decode('ascii')` / `decode('utf-8')` accepts -/
theorem decodeStr_of_charsOf {kind : StrKind} {content : Bytes} {cps : List Nat}
    (h : charsOf kind content = some cps) : Oer.decodeStr kind content = .ok cps := by
  have key : ∀ k : StrKind, (if content.all (fun b => (Uper.alphabetOf k).contains b) then some content else none) = some cps →
      (if content.all (· < 128) then (.ok content : Der.DecM (List Nat)) else .error .foreign) = .ok cps := by
    intro k hk
    split at hk
    · rename_i hall
      cases hk
      have : content.all (· < 128) = true := by
        rw [List.all_eq_true] at hall ⊢
        intro x hx
        have := hall x hx
        simp only [List.contains_iff_mem] at this
        simpa using Oer.alphabet_lt k x this
      rw [if_pos this]
    · cases hk
  cases kind with
  | utf8 =>
    simp only [charsOf] at h
    simp only [Oer.decodeStr, h]
  | ia5 => exact key .ia5 h
  | visible => exact key .visible h
  | numeric => exact key .numeric h
  | printable => exact key .printable h

/-- ... the character strings ... -/
theorem complete_chars_primitive (kind : StrKind) (c : SizeC) (tg : Option Nat) (fuel : Nat) (bs r rest : Bytes)
    (content : Bytes) (cps : List Nat)
    (hf : 0 < fuel) (hs : stripPrefix (header (.charString kind c) tg false) bs = some r)
    (hp : primitiveContents r = some (content, rest)) (hc : charsOf kind content = some cps) :
    ∃ k, BerCodec.dec (.charString kind c) tg fuel bs = .ok (some (.str cps, k, rest)) ∧ bs.length = k + rest.length := by
  obtain ⟨f, rfl⟩ : ∃ f, fuel = f + 1 := ⟨fuel - 1, by omega⟩
  have hbs := stripPrefix_some hs
  rw [header_eq_mkTag] at hbs
  obtain ⟨k, hk, hlen⟩ := pcDecode_of_primitiveContents (fun content _ => .ok content) List.flatten
    [4] [0x24] f (mkTag (Der.univNumber (.charString kind c)) false tg)
    (mkTag (Der.univNumber (.charString kind c)) true tg) r content rest content hp rfl
  refine ⟨k, ?_, by rw [hbs]; exact hlen⟩
  rw [BerCodec.dec, hbs]
  simp only [bind, Except.bind, BerCodec.decOctets, hk, decodeStr_of_charsOf hc]

/-- ... and BIT STRING, where the code returns the unused bits as they are (deviation
`dirtyUnusedBits`): equal values only when they are zero -/
theorem complete_bits_primitive (c : SizeC) (tg : Option Nat) (fuel : Nat) (bs r rest : Bytes) (u : Nat) (body : Bytes)
    (hf : 0 < fuel) (hs : stripPrefix (header (.bitString c) tg false) bs = some r)
    (hp : primitiveContents r = some (u :: body, rest)) (hu : u ≤ 7 ∧ (body.isEmpty → u = 0))
    (hclean : cleanBits body (8 * body.length - u) = body) :
    ∃ k, BerCodec.dec (.bitString c) tg fuel bs
      = .ok (some (.bits (cleanBits body (8 * body.length - u)) (8 * body.length - u), k, rest)) ∧ bs.length = k + rest.length := by
  obtain ⟨f, rfl⟩ : ∃ f, fuel = f + 1 := ⟨fuel - 1, by omega⟩
  have hbs := stripPrefix_some hs
  rw [header_eq_mkTag] at hbs
  have hb : Der.bitsOfContent (u :: body) rest = .ok (body, 8 * body.length - u) := by
    have : ¬ (8 * body.length < u) := by
      cases body with
      | nil => have := hu.2 rfl; omega
      | cons x xs => simp only [List.length_cons]; omega
    simp only [Der.bitsOfContent, if_neg this]
  obtain ⟨k, hk, hlen⟩ := pcDecode_of_primitiveContents Der.bitsOfContent
    (fun segs => ((segs.map (·.1)).flatten, (segs.map (·.2)).sum))
    [3] [0x23] f (mkTag 3 false tg) (mkTag 3 true tg) r (u :: body) rest _ hp hb
  refine ⟨k, ?_, by rw [hbs]; exact hlen⟩
  rw [BerCodec.dec, hbs, hclean]
  simp only [bind, Except.bind, Der.univNumber, BerCodec.decBits, hk]

/-! ### what the reference decoder returns under the hypotheses of the three theorems above -/

theorem stringChunks_primitive {u fuel : Nat} {prim cons bs r content rest : Bytes}
    (hs : stripPrefix prim bs = some r) (hp : primitiveContents r = some (content, rest)) :
    stringChunks u fuel prim cons bs = some ([content], rest) := by
  simp only [stringChunks, hs, hp]

theorem decV_octets_primitive (c : SizeC) (tg : Option Nat) (fuel : Nat) (bs r rest content : Bytes)
    (hs : stripPrefix (header (.octetString c) tg false) bs = some r)
    (hp : primitiveContents r = some (content, rest)) :
    decV (.octetString c) tg fuel bs = some (.bytes content, rest) := by
  rw [decV, stringChunks_primitive hs hp]; simp

theorem decV_chars_primitive (kind : StrKind) (c : SizeC) (tg : Option Nat) (fuel : Nat) (bs r rest content : Bytes)
    (cps : List Nat) (hs : stripPrefix (header (.charString kind c) tg false) bs = some r)
    (hp : primitiveContents r = some (content, rest)) (hc : charsOf kind content = some cps) :
    decV (.charString kind c) tg fuel bs = some (.str cps, rest) := by
  rw [decV, stringChunks_primitive hs hp]
  simp only [List.flatten_cons, List.flatten_nil, List.append_nil, hc]

theorem decV_bits_primitive (c : SizeC) (tg : Option Nat) (fuel : Nat) (bs r rest : Bytes) (u : Nat) (body : Bytes)
    (hs : stripPrefix (header (.bitString c) tg false) bs = some r)
    (hp : primitiveContents r = some (u :: body, rest)) (hu : u ≤ 7 ∧ (body.isEmpty → u = 0)) :
    decV (.bitString c) tg fuel bs
      = some (.bits (cleanBits body (8 * body.length - u)) (8 * body.length - u), rest) := by
  rw [decV, stringChunks_primitive hs hp]
  simp only [bitsOfChunks, if_pos hu]

/-! ### top level -/

/-- top level corollary -/
theorem complete_partial (t : Ty) (bs : Bytes) (v : Val) (hl : isPrimLeaf t = true)
    (h : berDecodeRef t bs = some v) : BerCodec.decode t bs = .ok v := by
  unfold berDecodeRef at h
  split at h
  · rename_i v' hd
    cases h
    obtain ⟨k, hk, _⟩ := complete_leaf t none (bs.length + 1) bs [] v hl hd
    simp only [BerCodec.decode, BerCodec.decodeWithLength, hk, Except.map]
  · cases h

/-! ### the repaired defect (regression) and the remaining deviation -/

/-- REGRESSION for the repaired defect (/repo commit 300e5ac; before it `30 80 80 01 ff 00 00` was a
`DecodeError`): an indefinite-length SEQUENCE whose type has extension additions, none of them
present -- after the root loop has consumed the end-of-contents octets the additions loop is
skipped (`while not out_of_data:`), OPTIONAL additions stay absent, DEFAULT ones are filled in; also
nested inside a definite- or indefinite-length SEQUENCE, and for the DER model (der.py reuses
ber.py's SEQUENCE) -/
theorem fixed_indefinite_extensible_accepted :
    let t : Ty := .sequence (.cons "a" .mandatory .boolean .nil) true (.cons "b" .optional (.integer ⟨none, none, false⟩) .nil)
    let d : Ty := .sequence (.cons "a" .mandatory .boolean .nil) true (.cons "b" (.default (.int 7)) (.integer ⟨none, none, false⟩) .nil)
    let o : Ty := .sequence (.cons "x" .mandatory t (.cons "y" .mandatory .boolean .nil)) false .nil
    berDecodeRef t [0x30, 0x80, 0x80, 0x01, 0xff, 0x00, 0x00] = some (.record [("a", .bool true)]) ∧
    BerCodec.decodeWithLength t [0x30, 0x80, 0x80, 0x01, 0xff, 0x00, 0x00] = .ok (.record [("a", .bool true)], 7) ∧
    BerCodec.decodeWithLength d [0x30, 0x80, 0x80, 0x01, 0xff, 0x00, 0x00] = .ok (.record [("a", .bool true), ("b", .int 7)], 7) ∧
    -- nested, outer indefinite / outer definite
    BerCodec.decodeWithLength o [0x30, 0x80, 0xa0, 0x80, 0x80, 0x01, 0xff, 0x00, 0x00, 0x81, 0x01, 0x00, 0x00, 0x00]
      = .ok (.record [("x", .record [("a", .bool true)]), ("y", .bool false)], 14) ∧
    BerCodec.decodeWithLength o [0x30, 0x0a, 0xa0, 0x80, 0x80, 0x01, 0xff, 0x00, 0x00, 0x81, 0x01, 0x00]
      = .ok (.record [("x", .record [("a", .bool true)]), ("y", .bool false)], 12) ∧
    berDecodeRef o [0x30, 0x80, 0xa0, 0x80, 0x80, 0x01, 0xff, 0x00, 0x00, 0x81, 0x01, 0x00, 0x00, 0x00]
      = some (.record [("x", .record [("a", .bool true)]), ("y", .bool false)]) ∧
    -- the forms that were accepted before still are
    BerCodec.decode t [0x30, 0x03, 0x80, 0x01, 0xff] = .ok (.record [("a", .bool true)]) ∧
    BerCodec.decode t [0x30, 0x80, 0x80, 0x01, 0xff, 0x81, 0x01, 0x05, 0x00, 0x00] = .ok (.record [("a", .bool true), ("b", .int 5)]) ∧
    -- DER model
    Der.decodeWithLength t [0x30, 0x80, 0x80, 0x01, 0xff, 0x00, 0x00] = .ok (.record [("a", .bool true)], 7) ∧
    Der.decodeWithLength o [0x30, 0x0a, 0xa0, 0x80, 0x80, 0x01, 0xff, 0x00, 0x00, 0x81, 0x01, 0x00]
      = .ok (.record [("x", .record [("a", .bool true)]), ("y", .bool false)], 12) := by
  refine ⟨?_, ?_, ?_, ?_, ?_, ?_, ?_, ?_, ?_, ?_⟩ <;> rfl

/-- deviation `dirtyUnusedBits`: BER lets the sender put anything in the unused bits (8.6.2.4); the
code returns them as part of the value -/
theorem witness_dirty_unused_bits :
    berDecodeRef (.bitString ⟨0, none, false⟩) [0x03, 0x02, 0x05, 0xff] = some (.bits [0xe0] 3) ∧
    BerCodec.decode (.bitString ⟨0, none, false⟩) [0x03, 0x02, 0x05, 0xff] = .ok (.bits [0xff] 3) := by
  refine ⟨?_, ?_⟩ <;> rfl

end Asn1.X690

#print axioms Asn1.X690.complete_leaf
#print axioms Asn1.X690.complete_partial
#print axioms Asn1.X690.readLen_of_readLength
#print axioms Asn1.X690.complete_octets_primitive
#print axioms Asn1.X690.complete_chars_primitive
#print axioms Asn1.X690.complete_bits_primitive
#print axioms Asn1.X690.fixed_indefinite_extensible_accepted
#print axioms Asn1.X690.witness_dirty_unused_bits
