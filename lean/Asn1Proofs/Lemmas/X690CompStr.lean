import Asn1Proofs.Lemmas.X690CompDefs
/-
  C04 completeness for the string types: OCTET STRING, the character strings and BIT STRING, in
  primitive form AND in constructed form with arbitrarily nested segments, definite and indefinite
  lengths.  Whatever the strict reference decoder `decVS` accepts, `BerCodec.dec` accepts with the
  same value, wherever the encoding sits in the code's input (`extra`).
-/
set_option linter.unusedSimpArgs false
set_option linter.unusedVariables false
namespace Asn1.X690
open Asn1.Der (readLen eoc mkTag DecM)
open Asn1.BerCodec (items pcDecode)

/-! ### the reference framing functions with something appended to the input -/

theorem takeN_append_right_str {n : Nat} {bs c r : Bytes} (x : Bytes) (h : takeN n bs [] = some (c, r)) :
    takeN n (bs ++ x) [] = some (c, r ++ x) := by
  obtain ⟨e1, e2⟩ := takeN_some h
  subst e1; subst e2
  rw [List.append_assoc]; exact takeN_append c (r ++ x)

theorem readLength_append_str {bs r : Bytes} {l : Len} (x : Bytes) (h : readLength bs = some (l, r)) :
    readLength (bs ++ x) = some (l, r ++ x) := by
  cases bs with
  | nil => simp [readLength] at h
  | cons b t =>
    simp only [readLength, List.cons_append] at h ⊢
    by_cases h1 : b < 128
    · rw [if_pos h1] at h ⊢; cases h; rfl
    · rw [if_neg h1] at h ⊢
      by_cases h2 : b = 128
      · rw [if_pos h2] at h ⊢; cases h; rfl
      · rw [if_neg h2] at h ⊢
        by_cases h3 : b < 255
        · rw [if_pos h3] at h ⊢
          split at h
          · rename_i ds r' hds
            cases h
            rw [takeN_append_right_str x hds]
          · cases h
        · rw [if_neg h3] at h; cases h

theorem readLength_ne_nil_str {bs r : Bytes} {l : Len} (h : readLength bs = some (l, r)) :
    bs ≠ [] ∧ r.length < bs.length := by
  cases bs with
  | nil => simp [readLength] at h
  | cons b t =>
    refine ⟨by simp, ?_⟩
    simp only [readLength] at h
    by_cases h1 : b < 128
    · rw [if_pos h1] at h; cases h; simp
    · rw [if_neg h1] at h
      by_cases h2 : b = 128
      · rw [if_pos h2] at h; cases h; simp
      · rw [if_neg h2] at h
        by_cases h3 : b < 255
        · rw [if_pos h3] at h
          split at h
          · rename_i ds r' hds
            cases h
            obtain ⟨e1, e2⟩ := takeN_some hds
            subst e1
            simp only [List.length_cons, List.length_append]; omega
          · cases h
        · rw [if_neg h3] at h; cases h

theorem readLength_indef_length_str {bs r : Bytes} (h : readLength bs = some (.indefinite, r)) :
    bs.length = 1 + r.length := by
  cases bs with
  | nil => simp [readLength] at h
  | cons b t =>
    simp only [readLength] at h
    by_cases h1 : b < 128
    · rw [if_pos h1] at h; cases h
    · rw [if_neg h1] at h
      by_cases h2 : b = 128
      · rw [if_pos h2] at h; cases h; simp [Nat.add_comm]
      · rw [if_neg h2] at h
        by_cases h3 : b < 255
        · rw [if_pos h3] at h
          split at h <;> cases h
        · rw [if_neg h3] at h; cases h

theorem primitiveContents_append_str {bs c r : Bytes} (x : Bytes) (h : primitiveContents bs = some (c, r)) :
    primitiveContents (bs ++ x) = some (c, r ++ x) := by
  obtain ⟨n, r1, hr, hc⟩ := primitiveContents_some h
  simp only [primitiveContents, readLength_append_str x hr, takeN_append_right_str x hc]

theorem stripPrefix_self_str (p r : Bytes) : stripPrefix p (p ++ r) = some r := by
  induction p with
  | nil => cases r <;> rfl
  | cons a ps ih => simp only [List.cons_append, stripPrefix, beq_self_eq_true, if_true, ih]

/-- not at an end-of-contents marker, and at least two octets there -/
theorem eoc_false_str {b : Nat} {r : Bytes} (x : Bytes) (hr : r ≠ []) (hs : startsEOC (b :: r) = false) :
    eoc (b :: r ++ x) = .ok false := by
  cases r with
  | nil => exact absurd rfl hr
  | cons b2 t =>
    simp only [List.cons_append]
    unfold eoc
    split
    · rename_i heq
      simp only [List.cons.injEq] at heq
      obtain ⟨rfl, rfl, _⟩ := heq
      simp [startsEOC] at hs
    · rfl
    · rename_i h1 h2
      exact absurd rfl (h2 b b2 (t ++ x))

/-! ### one iteration of the code's loop -/

theorem items_step_def_str {α : Type} (p : Bytes → DecM (Option (α × Nat × Bytes))) (lf n : Nat) (bs : Bytes)
    (a : α) (k : Nat) (r : Bytes) (as : List α) (k' : Nat) (r' : Bytes)
    (hn : n ≠ 0) (hp : p bs = .ok (some (a, k, r)))
    (hrec : items p lf (some (n - k)) r = .ok (as, k', r')) :
    items p (lf + 1) (some n) bs = .ok (a :: as, k + k', r') := by
  have : (n == 0) = false := by simpa using hn
  simp only [items, this, hp, Option.map_some, hrec]

theorem items_step_indef_str {α : Type} (p : Bytes → DecM (Option (α × Nat × Bytes))) (lf : Nat) (bs : Bytes)
    (a : α) (k : Nat) (r : Bytes) (as : List α) (k' : Nat) (r' : Bytes)
    (he : eoc bs = .ok false) (hp : p bs = .ok (some (a, k, r)))
    (hrec : items p lf none r = .ok (as, k', r')) :
    items p (lf + 1) none bs = .ok (a :: as, k + k', r') := by
  simp only [items, he, hp, Option.map_none, hrec]

/-! ### segments: reference `segments` against the code's `items` over `pcDecode` -/

section core
variable {α : Type} (prim : Bytes → Bytes → DecM α) (join : List α → α)
  (g : List Bytes → α) (good : Bytes → Prop) (u : Nat)

/-- the code's segment decoder (the untagged instance of the segment type) -/
abbrev segDec (fC : Nat) : Bytes → DecM (Option (α × Nat × Bytes)) :=
  pcDecode prim join [u] [u + 0x20] fC [u] [u + 0x20]

/-- what `segments` with reference fuel `f` accepts, the code's loop accepts with the same chunks:
definite mode (`y = []`) and indefinite mode (`y` starts with the end-of-contents octets) -/
def ItemsSpec (f : Nat) : Prop :=
  ∀ (x : Bytes) (cs : List Bytes) (y : Bytes), segments u f x = some (cs, y) → (∀ c ∈ cs, good c) →
    ∀ (extra : Bytes) (fC lf : Nat), (x ++ extra).length < fC → (x ++ extra).length < lf →
      (y = [] → ∃ css : List (List Bytes), css.flatten = cs ∧
          items (segDec prim join u fC) lf (some x.length) (x ++ extra) = .ok (css.map g, x.length, extra)) ∧
      (∀ rest, y = 0 :: 0 :: rest → ∃ (css : List (List Bytes)) (k : Nat), css.flatten = cs ∧
          items (segDec prim join u fC) lf none (x ++ extra) = .ok (css.map g, k, rest ++ extra) ∧
          x.length = k + rest.length)

/-- the contents of a constructed encoding: length octets and the loop -/
theorem constructed_items_str
    (f : Nat) (hI : ItemsSpec prim join g good u f) {r r' : Bytes} {cs : List Bytes}
    (h : constructedContents (segments u f) r = some (cs, r')) (hg : ∀ c ∈ cs, good c)
    (extra : Bytes) (fC : Nat) (hf : (r ++ extra).length < fC + 1) :
    ∃ (len : Option Nat) (hd : Nat) (r1 : Bytes) (k : Nat) (css : List (List Bytes)),
      readLen false (r ++ extra) = .ok (len, hd, r1) ∧ css.flatten = cs ∧
      items (segDec prim join u fC) (fC + 1) len r1 = .ok (css.map g, k, r' ++ extra) ∧
      r.length = hd + k + r'.length := by
  unfold constructedContents at h
  split at h
  · rename_i n r1 hr
    split at h
    · rename_i c rest hc
      split at h
      · rename_i a hseg
        cases h
        obtain ⟨hdr, hlen, hbs⟩ := readLen_of_readLength (d := false) (readLength_append_str extra hr)
          (takeN_append_right_str extra hc)
        obtain ⟨e1, e2⟩ := takeN_some hc
        have hlt := (readLength_ne_nil_str hr).2
        subst e1
        have hlen1 : (c ++ (r' ++ extra)).length < fC := by
          simp only [List.length_append] at hf hlt ⊢; omega
        obtain ⟨css, hcss, hit⟩ := (hI c cs [] hseg hg (r' ++ extra) fC (fC + 1) hlen1 (by omega)).1 rfl
        refine ⟨some n, hdr, c ++ r' ++ extra, c.length, css, hlen, hcss, ?_, ?_⟩
        · rw [← e2, List.append_assoc]; exact hit
        · simp only [List.length_append] at hbs ⊢; omega
      · cases h
    · cases h
  · rename_i r1 hr
    split at h
    · rename_i a rest hseg
      cases h
      have hlen := readLen_of_readLength_indef (readLength_append_str extra hr)
      have hlt := (readLength_ne_nil_str hr).2
      have hlen1 : (r1 ++ extra).length < fC := by
        simp only [List.length_append] at hf hlt ⊢; omega
      obtain ⟨css, k, hcss, hit, hk⟩ := (hI r1 cs _ hseg hg extra fC (fC + 1) hlen1 (by omega)).2 r' rfl
      refine ⟨none, 1, r1 ++ extra, k, css, hlen, hcss, hit, ?_⟩
      have := readLength_indef_length_str hr
      omega
    · cases h
  · cases h

/-- `PrimitiveOrConstructedType.decode` on a constructed encoding the reference decoder accepts -/
theorem pcDecode_constructed (hjoin : ∀ css : List (List Bytes), join (css.map g) = g css.flatten)
    (f : Nat) (hI : ItemsSpec prim join g good u f) (tag ctag : Bytes) (hlen : tag.length = ctag.length)
    (hne : ctag ≠ tag) {r r' : Bytes} {cs : List Bytes}
    (h : constructedContents (segments u f) r = some (cs, r')) (hg : ∀ c ∈ cs, good c)
    (extra : Bytes) (fC : Nat) (hf : (r ++ extra).length < fC + 1) :
    ∃ k, pcDecode prim join [u] [u + 0x20] (fC + 1) tag ctag (ctag ++ (r ++ extra))
        = .ok (some (g cs, k, r' ++ extra)) ∧ (ctag ++ r).length = k + r'.length ∧ tag.length ≤ k := by
  obtain ⟨len, hd, r1, k, css, hrl, hcss, hit, hk⟩ :=
    constructed_items_str prim join g good u f hI h hg extra fC hf
  refine ⟨tag.length + hd + k, ?_, ?_, by omega⟩
  · have hb : (ctag == tag) = false := by simpa using hne
    simp only [segDec] at hit
    simp only [pcDecode, hlen, Oer.splitAux_append, List.reverse_nil, List.nil_append, hb,
      beq_self_eq_true, if_true, Bool.false_eq_true, if_false, hrl, hit, hjoin, hcss]
  · simp only [List.length_append]; omega

/-- one segment, primitive or constructed -/
theorem one_segment_str (hprim : ∀ c rest, good c → prim c rest = .ok (g [c]))
    (hjoin : ∀ css : List (List Bytes), join (css.map g) = g css.flatten)
    (f : Nat) (hI : ItemsSpec prim join g good u f) {b : Nat} {r : Bytes} {cs : List Bytes} {y : Bytes}
    (hstop : ((b :: r).isEmpty || startsEOC (b :: r)) = false)
    (h : segments u (f + 1) (b :: r) = some (cs, y)) (hg : ∀ c ∈ cs, good c)
    (extra : Bytes) (fC : Nat) (hfC : (b :: r ++ extra).length < fC) :
    ∃ (cs1 cs' : List Bytes) (r' : Bytes) (k : Nat), cs = cs1 ++ cs' ∧ segments u f r' = some (cs', y) ∧
      segDec prim join u fC (b :: r ++ extra) = .ok (some (g cs1, k, r' ++ extra)) ∧
      (b :: r).length = k + r'.length ∧ 0 < k ∧ r ≠ [] := by
  obtain ⟨fC', rfl⟩ : ∃ fC', fC = fC' + 1 := ⟨fC - 1, by omega⟩
  rw [segments, hstop] at h
  simp only [Bool.false_eq_true, if_false] at h
  by_cases hb : b = u
  · rw [if_pos hb] at h; subst hb
    split at h
    · rename_i c r' hp
      split at h
      · rename_i cs' r'' hseg
        cases h
        have hgc : good c := hg c (by simp)
        obtain ⟨k, hk, hlen⟩ := pcDecode_of_primitiveContents prim join [b] [b + 0x20] fC' [b] [b + 0x20]
          (r ++ extra) c (r' ++ extra) (g [c]) (primitiveContents_append_str extra hp) (hprim c _ hgc)
        obtain ⟨n, r1, hr, hc⟩ := primitiveContents_some hp
        obtain ⟨e1, e2⟩ := takeN_some hc
        have hlt := readLength_ne_nil_str hr
        subst e1
        simp only [List.length_append, List.length_cons, List.length_nil] at hlen hlt
        refine ⟨[c], cs', r', k, rfl, hseg, hk, ?_, ?_, hlt.1⟩
        · simp only [List.length_cons]; omega
        · omega
      · cases h
    · cases h
  · rw [if_neg hb] at h
    by_cases hb2 : b = u + 0x20
    · rw [if_pos hb2] at h; subst hb2
      split at h
      · rename_i cs1 r' hcc
        split at h
        · rename_i cs' r'' hseg
          cases h
          have hne : [u + 0x20] ≠ [u] := by simp
          obtain ⟨k, hk, hlen, hk0⟩ := pcDecode_constructed prim join g good u hjoin f hI [u] [u + 0x20] rfl hne hcc
            (fun c hc => hg c (by simp [hc])) extra fC' (by simp only [List.length_cons, List.cons_append] at hfC; omega)
          have hr : r ≠ [] := by
            intro e; subst e
            simp [constructedContents, readLength] at hcc
          refine ⟨cs1, cs', r', k, rfl, hseg, hk, ?_, ?_, hr⟩
          · simp only [List.length_append, List.length_cons, List.length_nil] at hlen ⊢; omega
          · simp only [List.length_cons, List.length_nil] at hk0; omega
        · cases h
      · cases h
    · rw [if_neg hb2] at h; cases h


theorem itemsSpec (hprim : ∀ c rest, good c → prim c rest = .ok (g [c]))
    (hjoin : ∀ css : List (List Bytes), join (css.map g) = g css.flatten) :
    ∀ f, ItemsSpec prim join g good u f := by
  intro f
  induction f with
  | zero => intro x cs y h; simp [segments] at h
  | succ f ih =>
    intro x cs y h hg extra fC lf hfC hlf
    obtain ⟨lf', rfl⟩ : ∃ lf', lf = lf' + 1 := ⟨lf - 1, by omega⟩
    have hstopcase : (x.isEmpty || startsEOC x) = true → cs = [] ∧ y = x := by
      intro hstop
      cases x with
      | nil => simp [segments] at h; exact h
      | cons b r =>
        rw [segments, hstop] at h
        simp only [if_true] at h
        cases h; exact ⟨rfl, rfl⟩
    cases hstop : (x.isEmpty || startsEOC x) with
    | true =>
      obtain ⟨rfl, rfl⟩ := hstopcase hstop
      constructor
      · intro hy; subst hy
        exact ⟨[], rfl, by simp [items]⟩
      · intro rest hy; subst hy
        exact ⟨[], 2, rfl, by simp [items, eoc], by simp only [List.length_cons]; omega⟩
    | false =>
      cases x with
      | nil => simp at hstop
      | cons b r =>
        obtain ⟨cs1, cs', r', k, hcs, hseg, hp, hlen, hk, hr⟩ :=
          one_segment_str prim join g good u hprim hjoin f ih hstop h hg extra fC hfC
        subst hcs
        have hg' : ∀ c ∈ cs', good c := fun c hc => hg c (by simp [hc])
        have hl1 : (r' ++ extra).length < fC := by
          simp only [List.length_append, List.length_cons] at hfC hlen ⊢; omega
        have hl2 : (r' ++ extra).length < lf' := by
          simp only [List.length_append, List.length_cons] at hlf hlen ⊢; omega
        have IH := ih r' cs' y hseg hg' extra fC lf' hl1 hl2
        constructor
        · intro hy
          obtain ⟨css, hcss, hit⟩ := IH.1 hy
          refine ⟨cs1 :: css, by simp [hcss], ?_⟩
          have hsub : (b :: r).length - k = r'.length := by omega
          have := items_step_def_str (segDec prim join u fC) lf' (b :: r).length (b :: r ++ extra) (g cs1) k
            (r' ++ extra) (css.map g) r'.length extra (by simp) hp (by rw [hsub]; exact hit)
          rw [this, ← hlen]; rfl
        · intro rest hy
          obtain ⟨css, k', hcss, hit, hk'⟩ := IH.2 rest hy
          refine ⟨cs1 :: css, k + k', by simp [hcss], ?_, by omega⟩
          have he : startsEOC (b :: r) = false := by simpa using hstop
          exact items_step_indef_str (segDec prim join u fC) lf' (b :: r ++ extra) (g cs1) k (r' ++ extra)
            (css.map g) k' (rest ++ extra) (eoc_false_str extra hr he) hp hit


/-- a string encoding (primitive or constructed) the reference decoder accepts, wherever it sits in
the code's input -/
theorem pcDecode_of_stringChunks (hprim : ∀ c rest, good c → prim c rest = .ok (g [c]))
    (hjoin : ∀ css : List (List Bytes), join (css.map g) = g css.flatten)
    (tag ctag : Bytes) (hlen : tag.length = ctag.length)
    {fuel : Nat} {bs rest : Bytes} {cs : List Bytes}
    (h : stringChunks u fuel tag ctag bs = some (cs, rest)) (hg : ∀ c ∈ cs, good c)
    (extra : Bytes) (fuelC : Nat) (hf : (bs ++ extra).length < fuelC) :
    ∃ k, pcDecode prim join [u] [u + 0x20] fuelC tag ctag (bs ++ extra) = .ok (some (g cs, k, rest ++ extra)) ∧
      bs.length = k + rest.length := by
  obtain ⟨fC, rfl⟩ : ∃ fC, fuelC = fC + 1 := ⟨fuelC - 1, by omega⟩
  unfold stringChunks at h
  split at h
  · rename_i r hs
    split at h
    · rename_i c r' hp
      simp only [Option.some.injEq, Prod.mk.injEq] at h
      obtain ⟨rfl, rfl⟩ := h
      have hbs := stripPrefix_some hs
      obtain ⟨k, hk, hl⟩ := pcDecode_of_primitiveContents prim join [u] [u + 0x20] fC tag ctag (r ++ extra) c
        (r' ++ extra) (g [c]) (primitiveContents_append_str extra hp) (hprim c _ (hg c (by simp)))
      refine ⟨k, ?_, ?_⟩
      · rw [hbs, List.append_assoc]; exact hk
      · rw [hbs]; simp only [List.length_append] at hl ⊢; omega
    · cases h
  · rename_i hs
    split at h
    · rename_i r hs2
      have hbs := stripPrefix_some hs2
      have hne : ctag ≠ tag := by
        intro e; rw [hbs, e, stripPrefix_self_str] at hs; cases hs
      obtain ⟨k, hk, hl, _⟩ := pcDecode_constructed prim join g good u hjoin fuel
        (itemsSpec prim join g good u hprim hjoin fuel) tag ctag hlen hne h hg extra fC
        (by rw [hbs] at hf; simp only [List.length_append] at hf ⊢; omega)
      exact ⟨k, by rw [hbs, List.append_assoc]; exact hk, by rw [hbs]; exact hl⟩
    · cases h


end core

/-! ### identifier octets: primitive and constructed form have the same length -/

theorem mkTag_length_eq_str (u : Nat) (hu : u < 31) (tg : Option Nat) :
    (mkTag u false tg).length = (mkTag u true tg).length := by
  cases tg with
  | none => simp [mkTag, Der.encTag_short_der _ _ hu]
  | some i =>
    exact Nat.le_antisymm (Der.mkTag_ctx_length_mono (Nat.le_refl i)) (Der.mkTag_ctx_length_mono (Nat.le_refl i))

theorem univNumber_charString_lt (k : StrKind) (c : SizeC) : Der.univNumber (.charString k c) < 31 := by
  cases k <;> simp [Der.univNumber]

/-! ### OCTET STRING and the character strings -/

theorem decOctets_of_stringChunks (uu : Nat) (hu : uu < 31) (tg : Option Nat)
    {fuel : Nat} {bs rest : Bytes} {cs : List Bytes}
    (h : stringChunks 4 fuel (mkTag uu false tg) (mkTag uu true tg) bs = some (cs, rest))
    (extra : Bytes) (fuelC : Nat) (hf : (bs ++ extra).length < fuelC) :
    ∃ k, BerCodec.decOctets fuelC (mkTag uu false tg) (mkTag uu true tg) (bs ++ extra)
        = .ok (some (cs.flatten, k, rest ++ extra)) ∧ bs.length = k + rest.length :=
  pcDecode_of_stringChunks (fun content _ => .ok content) List.flatten (fun cs => cs.flatten)
    (fun _ => True) 4 (by intros; simp) (by intro css; exact List.flatten_flatten.symm)
    (mkTag uu false tg) (mkTag uu true tg) (mkTag_length_eq_str uu hu tg) h (by intros; trivial) extra fuelC hf

theorem comp_octetString (c : SizeC) : COMP (.octetString c) := by
  intro tg fuel fuelC bs rest extra v h hf
  rw [decVS, decV] at h
  split at h
  · rename_i cs r hsc
    cases h
    rw [header_eq_mkTag, header_eq_mkTag] at hsc
    obtain ⟨k, hk, hl⟩ := decOctets_of_stringChunks 4 (by decide) tg hsc extra fuelC hf
    refine ⟨k, ?_, hl⟩
    rw [BerCodec.dec]
    simp only [bind, Except.bind, hk]
  · cases h

theorem comp_charString (k : StrKind) (c : SizeC) : COMP (.charString k c) := by
  intro tg fuel fuelC bs rest extra v h hf
  rw [decVS, decV] at h
  split at h
  · rename_i cs r hsc
    split at h
    · rename_i cps hcps
      cases h
      rw [header_eq_mkTag, header_eq_mkTag] at hsc
      obtain ⟨k', hk, hl⟩ := decOctets_of_stringChunks _ (univNumber_charString_lt k c) tg hsc extra fuelC hf
      refine ⟨k', ?_, hl⟩
      rw [BerCodec.dec]
      simp only [bind, Except.bind, hk, decodeStr_of_charsOf hcps]
    · cases h
  · cases h

/-! ### BIT STRING -/

/-- data octets and number of bits of a list of chunks, the way the code adds them up -/
def bitsG (cs : List Bytes) : Bytes × Nat :=
  ((cs.map List.tail).flatten, (cs.map (fun c => 8 * c.tail.length - c.headD 0)).sum)

/-- a chunk the code's `decode_primitive_contents` turns into a value of the universe -/
def bitsGood (c : Bytes) : Prop := c ≠ [] ∧ c.headD 0 ≤ 8 * c.tail.length

theorem bitsG_prim (c rest : Bytes) (h : bitsGood c) : Der.bitsOfContent c rest = .ok (bitsG [c]) := by
  cases c with
  | nil => exact absurd rfl h.1
  | cons u body =>
    have h2 : ¬ (8 * body.length < u) := by
      have := h.2; simp only [List.headD_cons, List.tail_cons] at this; omega
    simp [Der.bitsOfContent, if_neg h2, bitsG]

theorem bitsG_join (css : List (List Bytes)) :
    (fun segs : List (Bytes × Nat) => ((segs.map (·.1)).flatten, (segs.map (·.2)).sum)) (css.map bitsG)
      = bitsG css.flatten := by
  induction css with
  | nil => rfl
  | cons cs css ih =>
    simp only [bitsG, List.map_cons, List.flatten_cons, List.sum_cons, List.map_append,
      List.flatten_append, List.sum_append, Prod.mk.injEq] at ih ⊢
    exact ⟨by rw [ih.1], by rw [ih.2]⟩

theorem bitsOfChunks_spec (cs : List Bytes) : ∀ (data : Bytes) (n : Nat), bitsOfChunks cs = some (data, n) →
    (∀ c ∈ cs, bitsGood c) ∧ bitsG cs = (data, n) := by
  induction cs with
  | nil =>
    intro data n h
    simp only [bitsOfChunks, Option.some.injEq, Prod.mk.injEq] at h
    obtain ⟨rfl, rfl⟩ := h
    exact ⟨by simp, rfl⟩
  | cons c cs ih =>
    intro data n h
    cases cs with
    | nil =>
      cases c with
      | nil => simp [bitsOfChunks] at h
      | cons u body =>
        simp only [bitsOfChunks] at h
        split at h
        · rename_i hu
          simp only [Option.some.injEq, Prod.mk.injEq] at h
          obtain ⟨rfl, rfl⟩ := h
          refine ⟨?_, by simp [bitsG]⟩
          intro c hc
          simp only [List.mem_singleton] at hc
          subst hc
          refine ⟨by simp, ?_⟩
          simp only [List.headD_cons, List.tail_cons]
          cases body with
          | nil => have := hu.2 rfl; omega
          | cons x xs => simp only [List.length_cons]; omega
        · cases h
    | cons c' cs' =>
      unfold bitsOfChunks at h
      split at h
      · rename_i body
        split at h
        · rename_i d m hd
          simp only [Option.some.injEq, Prod.mk.injEq] at h
          obtain ⟨rfl, rfl⟩ := h
          obtain ⟨hgood, hG⟩ := ih d m hd
          constructor
          · intro x hx
            rcases List.mem_cons.mp hx with rfl | hx
            · exact ⟨by simp, by simp⟩
            · exact hgood x hx
          · simp only [bitsG, Prod.mk.injEq] at hG ⊢
            simp only [List.map_cons, List.flatten_cons, List.sum_cons, List.tail_cons, List.headD_cons] at hG ⊢
            exact ⟨by rw [hG.1], by rw [hG.2]; omega⟩
        · cases h
      · cases h

theorem comp_bitString (c : SizeC) : COMP (.bitString c) := by
  intro tg fuel fuelC bs rest extra v h hf
  rw [decVS] at h
  split at h
  · rename_i cs r hsc
    split at h
    · rename_i data n hbits
      split at h
      · cases h
        rw [header_eq_mkTag, header_eq_mkTag] at hsc
        obtain ⟨hgood, hG⟩ := bitsOfChunks_spec cs data n hbits
        obtain ⟨k, hk, hl⟩ := pcDecode_of_stringChunks Der.bitsOfContent
          (fun segs : List (Bytes × Nat) => ((segs.map (·.1)).flatten, (segs.map (·.2)).sum))
          bitsG bitsGood 3 bitsG_prim bitsG_join
          (mkTag 3 false tg) (mkTag 3 true tg) (mkTag_length_eq_str 3 (by decide) tg) hsc hgood extra fuelC hf
        refine ⟨k, ?_, hl⟩
        rw [BerCodec.dec]
        rw [hG] at hk
        simp only [bind, Except.bind, BerCodec.decBits, hk]
      · cases h
    · cases h
  · cases h

end Asn1.X690

#print axioms Asn1.X690.comp_octetString
#print axioms Asn1.X690.comp_charString
#print axioms Asn1.X690.comp_bitString
