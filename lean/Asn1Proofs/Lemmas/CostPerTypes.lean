import Asn1Proofs.Lemmas.CostPer
/-
  C08 for the ALIGNED PER model: the allocation bound of `Per.dec`, leaf types and SEQUENCE OF (the
  composite types and the induction over the universe are in `CostPerComp.lean`),

      nodes of the value ≤ KP t * (bits consumed + 1)

  for every type (since repair ace6523 of /repo no reader moves the position backwards; the factor
  `(N + 1) ^ rewinds t` of the earlier version of this file is gone).
-/
set_option linter.unusedSimpArgs false
set_option linter.unusedVariables false
namespace Asn1.CostP
open Asn1.Per
open Asn1.Uper (DecM Err bind_ok sizeBits utf8Dec charDecode sortByVal)
open Asn1.Cost (sumSize presenceNodes nodesFields_append sumSize_nodes)

/-- cost predicate of the decoder of `t` -/
def SzP (t : Ty) : Prop := ∀ f, BdP Val.nodes (KP t) (dec t f)

/-- closes the size part of a leaf type -/
macro "leaf_close" : tactic =>
  `(tactic| (simp only [KP, Nat.one_mul, Val.nodes]; omega))

theorem szp_boolean : SzP .boolean := by
  intro f s v r h
  rw [dec] at h
  obtain ⟨⟨b, r1⟩, h1, h⟩ := bind_ok h
  try dsimp only at h
  have := readBit_ok h1
  cases h
  refine ⟨by omega, ?_⟩
  leaf_close

theorem szp_null : SzP .null := by
  intro f s v r h
  rw [dec] at h
  cases h
  refine ⟨by omega, ?_⟩
  leaf_close

theorem szp_integer (c : IntC) : SzP (.integer c) := by
  intro f s v r h
  have ha := align_le s
  rw [dec] at h
  revert h
  split
  · dsimp only
    split
    · intro h
      obtain ⟨⟨b, r1⟩, h1, h⟩ := bind_ok h
      try dsimp only at h
      have := readBit_ok h1
      have := align_le r1
      try dsimp only at h
      revert h
      split
      · intro h
        obtain ⟨⟨i, r2⟩, h2, h⟩ := bind_ok h
        try dsimp only at h
        have := decUnconstrained_ok h2
        cases h
        refine ⟨by omega, ?_⟩
        leaf_close
      · intro h
        obtain ⟨⟨n, r2⟩, h2, h⟩ := bind_ok h
        try dsimp only at h
        have := decConstrainedInt_ok h2
        cases h
        refine ⟨by omega, ?_⟩
        leaf_close
    · intro h
      obtain ⟨⟨n, r2⟩, h2, h⟩ := bind_ok h
      try dsimp only at h
      have := decConstrainedInt_ok h2
      cases h
      refine ⟨by omega, ?_⟩
      leaf_close
  · split
    · intro h
      obtain ⟨⟨b, r1⟩, h1, h⟩ := bind_ok h
      try dsimp only at h
      have := readBit_ok h1
      have := align_le r1
      obtain ⟨⟨i, r2⟩, h2, h⟩ := bind_ok h
      try dsimp only at h
      have := decUnconstrained_ok h2
      cases h
      refine ⟨by omega, ?_⟩
      leaf_close
    · intro h
      obtain ⟨⟨i, r2⟩, h2, h⟩ := bind_ok h
      try dsimp only at h
      have := decUnconstrained_ok h2
      cases h
      refine ⟨by omega, ?_⟩
      leaf_close

theorem bitsPerChar_pos (k : StrKind) (hk : k ≠ .utf8) : 1 ≤ bitsPerChar k :=
  Nat.le_trans (Cost.bitsPerChar_pos k hk) (Per.bitsPerChar_ge k)

theorem szp_enumerated (root : List (String × Int)) (ext : Option (List (String × Int))) :
    SzP (.enumerated root ext) := by
  intro f s v r h
  have hroot : ∀ (s : St) (v : Val) (r : St),
      (do
        let (i, r) ← readNat (bitLength ((sortByVal root).length - 1)) s
        match (sortByVal root)[i]? with
        | some (n, _) => .ok (.enum n, r)
        | none => .error .decodeError : DecM (Val × St)) = .ok (v, r) →
      r.bs.length ≤ s.bs.length ∧ v.nodes = 1 := by
    intro s v r h
    obtain ⟨⟨i, r1⟩, h1, h⟩ := bind_ok h
    try dsimp only at h
    have := (readNat_ok h1).1
    try dsimp only at h
    revert h
    split
    · intro h; cases h; exact ⟨by omega, rfl⟩
    · intro h; cases h
  cases ext with
  | none =>
    rw [dec] at h
    try dsimp only at h
    obtain ⟨h1, h2⟩ := hroot s v r h
    refine ⟨h1, ?_⟩
    simp only [KP, h2]; omega
  | some adds =>
    rw [dec] at h
    try dsimp only at h
    obtain ⟨⟨b, r1⟩, h1, h⟩ := bind_ok h
    try dsimp only at h
    have := readBit_ok h1
    try dsimp only at h
    revert h
    split
    · intro h
      obtain ⟨h1, h2⟩ := hroot r1 v r h
      refine ⟨by omega, ?_⟩
      simp only [KP, h2]; omega
    · intro h
      obtain ⟨⟨i, r2⟩, h2, h⟩ := bind_ok h
      try dsimp only at h
      have := decNsnnwn_ok h2
      try dsimp only at h
      revert h
      split <;> (intro h; cases h; refine ⟨by omega, ?_⟩; leaf_close)

theorem szp_octetString (c : SizeC) : SzP (.octetString c) := by
  intro f s v r h
  rw [dec] at h
  obtain ⟨⟨ext, r0⟩, h0, h⟩ := bind_ok h
  try dsimp only at h
  have hl0 := optBit_ok h0
  have ha := align_le r0
  try dsimp only at h
  revert h
  split
  · intro h
    obtain ⟨⟨len, r1⟩, h1, h⟩ := bind_ok h
    try dsimp only at h
    have := (readLenDet_ok h1).1
    obtain ⟨⟨body, r2⟩, h2, h⟩ := bind_ok h
    try dsimp only at h
    obtain ⟨hl2, hb⟩ := readBits_ok h2
    cases h
    refine ⟨by omega, ?_⟩
    simp only [KP, Nat.one_mul, Val.nodes, packBits_length, hb]
    omega
  · split
    · intro h
      obtain ⟨⟨xs, r1⟩, h1, h⟩ := bind_ok h
      try dsimp only at h
      have := decChunksBits_ok 8 f h1
      cases h
      refine ⟨by omega, ?_⟩
      simp only [KP, Nat.one_mul, Val.nodes, packBits_length]
      omega
    · intro h
      obtain ⟨⟨len, r1⟩, h1, h⟩ := bind_ok h
      try dsimp only at h
      have := (readSize_ok h1).1
      obtain ⟨⟨body, r2⟩, h2, h⟩ := bind_ok h
      try dsimp only at h
      obtain ⟨hl2, hb⟩ := readBits_ok h2
      cases h
      refine ⟨by omega, ?_⟩
      simp only [KP, Nat.one_mul, Val.nodes, packBits_length, hb]
      omega

theorem szp_bitString (c : SizeC) : SzP (.bitString c) := by
  intro f s v r h
  rw [dec] at h
  obtain ⟨⟨ext, r0⟩, h0, h⟩ := bind_ok h
  try dsimp only at h
  have hl0 := optBit_ok h0
  have ha := align_le r0
  try dsimp only at h
  revert h
  split
  · intro h; cases h
  · split
    · intro h
      obtain ⟨⟨xs, r1⟩, h1, h⟩ := bind_ok h
      try dsimp only at h
      have := decChunksBits_ok 1 f h1
      cases h
      refine ⟨by omega, ?_⟩
      simp only [KP, Nat.one_mul, Val.nodes, packBits_length]
      omega
    · intro h
      obtain ⟨⟨len, r1⟩, h1, h⟩ := bind_ok h
      try dsimp only at h
      have := (readSize_ok h1).1
      obtain ⟨⟨body, r2⟩, h2, h⟩ := bind_ok h
      try dsimp only at h
      obtain ⟨hl2, hb⟩ := readBits_ok h2
      cases h
      refine ⟨by omega, ?_⟩
      simp only [KP, Nat.one_mul, Val.nodes, packBits_length, hb]
      omega

theorem szp_utf8 (c : SizeC) : SzP (.charString .utf8 c) := by
  intro f s v r h
  have ha := align_le s
  rw [dec] at h
  obtain ⟨⟨xs, r1⟩, h1, h⟩ := bind_ok h
  try dsimp only at h
  have := decChunksBits_ok 8 f h1
  try dsimp only at h
  revert h
  split
  · rename_i cps hu
    intro h; cases h
    have := Cost.utf8Dec_length _ _ _ hu
    rw [packBits_length] at this
    refine ⟨by omega, ?_⟩
    simp only [KP, Nat.one_mul, Val.nodes]; omega
  · intro h; cases h

theorem one_ok (k : StrKind) (hk : k ≠ .utf8) (s : St) (a : Nat) (r : St)
    (h : (do let (v, r) ← readNat (bitsPerChar k) s; let ch ← charDecode k v; .ok (ch, r)
      : DecM (Nat × St)) = .ok (a, r)) : r.bs.length < s.bs.length := by
  obtain ⟨⟨v, r1⟩, h1, h⟩ := bind_ok h
  try dsimp only at h
  have := (readNat_ok h1).1
  have := bitsPerChar_pos k hk
  try dsimp only at h
  obtain ⟨ch, h2, h⟩ := bind_ok h
  try dsimp only at h
  cases h; omega

theorem szp_charString (k : StrKind) (hk : k ≠ .utf8) (c : SizeC) : SzP (.charString k c) := by
  intro f s v r h
  rw [dec] at h
  · obtain ⟨⟨ext, r0⟩, h0, h⟩ := bind_ok h
    have hl0 := optBit_ok h0
    have ha := align_le r0
    try dsimp only at h
    revert h
    split
    · intro h; cases h
    · split
      · intro h
        obtain ⟨⟨xs, r1⟩, h1, h⟩ := bind_ok h
        try dsimp only at h
        have := decChunks_len (one_ok k hk) f h1
        cases h
        refine ⟨by omega, ?_⟩
        simp only [KP, Nat.one_mul, Val.nodes]; omega
      · intro h
        obtain ⟨⟨len, r1⟩, h1, h⟩ := bind_ok h
        try dsimp only at h
        have := (readSize_ok h1).1
        obtain ⟨⟨xs, r2⟩, h2, h⟩ := bind_ok h
        try dsimp only at h
        obtain ⟨hn, hx⟩ := decRepeat_len (one_ok k hk) len h2
        cases h
        refine ⟨by omega, ?_⟩
        simp only [KP, Nat.one_mul, Val.nodes]; omega
  all_goals (first | exact hk | (intro c' heq; cases heq; exact hk rfl))

/-! ### composite types -/

theorem seqOfMaxP_ge (c : SizeC) : 8192 ≤ seqOfMaxP c := by
  unfold seqOfMaxP; split
  · exact Nat.le_refl _
  · exact Nat.le_max_left _ _

theorem seqOfMaxP_sized {c : SizeC} {w : Nat} (h : sizeBits c = some w) :
    c.lo + 2 ^ w + 65536 ≤ seqOfMaxP c := by
  unfold seqOfMaxP; rw [h]; exact Nat.le_max_right _ _

theorem szp_sequenceOf (e : Ty) (c : SizeC) (ih : SzP e) : SzP (.sequenceOf e c) := by
  intro f s v r h
  rw [dec] at h
  obtain ⟨⟨ext, r0⟩, h0, h⟩ := bind_ok h
  try dsimp only at h
  have hl0 := optBit_ok h0
  have ha := align_le r0
  try dsimp only at h
  revert h
  split
  · intro h
    obtain ⟨⟨len, r1⟩, h1, h⟩ := bind_ok h
    try dsimp only at h
    obtain ⟨hl1, hlen⟩ := readLenDet_ok h1
    obtain ⟨⟨xs, r2⟩, h2, h⟩ := bind_ok h
    try dsimp only at h
    obtain ⟨hl2, hn, hs⟩ := decRepeat_ok (ih f) len h2
    cases h
    refine ⟨by omega, ?_⟩
    rw [sumSize_nodes] at hs
    simp only [KP, Val.nodes]
    have hm := seqOfMaxP_ge c
    refine Cost.seqOf_arith (c1 := r1.bs.length - r.bs.length)
      (c2 := (align r0).bs.length - r1.bs.length) hs ?_ (by omega) (by omega)
    refine Nat.le_trans hlen (Nat.le_trans (Nat.mul_le_mul_right _ hm) (Nat.mul_le_mul_left _ (by omega)))
  · split
    · intro h
      obtain ⟨⟨xs, r1⟩, h1, h⟩ := bind_ok h
      try dsimp only at h
      obtain ⟨hl1, hx, hs⟩ := decChunks_ok (ih f) f h1
      cases h
      refine ⟨by omega, ?_⟩
      rw [sumSize_nodes] at hs
      simp only [KP, Val.nodes]
      have hm := seqOfMaxP_ge c
      refine Cost.seqOf_arith (c1 := (align r0).bs.length - r.bs.length)
        (c2 := (align r0).bs.length - r.bs.length) hs ?_ (by omega) (by omega)
      refine Nat.le_trans hx (Nat.le_trans (Nat.mul_le_mul_right _ hm) (Nat.mul_le_mul_left _ (by omega)))
    · rename_i w hsb
      intro h
      obtain ⟨⟨len, r1⟩, h1, h⟩ := bind_ok h
      try dsimp only at h
      obtain ⟨hl1, hlen⟩ := readSize_ok h1
      obtain ⟨⟨xs, r2⟩, h2, h⟩ := bind_ok h
      try dsimp only at h
      obtain ⟨hl2, hn, hs⟩ := decRepeat_ok (ih f) len h2
      cases h
      refine ⟨by omega, ?_⟩
      rw [sumSize_nodes] at hs
      simp only [KP, Val.nodes]
      have hm := seqOfMaxP_sized hsb
      refine Cost.seqOf_arith (c1 := r1.bs.length - r.bs.length) (c2 := 0) hs ?_ (by omega) (by omega)
      omega

end Asn1.CostP
