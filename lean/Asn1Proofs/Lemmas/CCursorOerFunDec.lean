import Asn1Proofs.Lemmas.CCursorOerFun
/-
  C10, functional layer (decoder side): the values the OER C decoder helpers return are the
  big-endian numbers of the Python-codec model, and `decoder_read_length_determinant` agrees with
  `Oer.readLenDet`.
-/
namespace Asn1.C10
open Asn1 Asn1.CCursor Asn1.CCursorOer

/-! ### the input seen through the cursor -/

/-- the next `n` input octets (as `Bytes` of the Python-codec model) -/
def _root_.Asn1.CCursorOer.ODec.next (d : ODec) (n : Nat) : Bytes :=
  ((d.buf.toList.drop d.pos.toNat).take n).map UInt8.toNat

/-- all remaining input octets -/
def _root_.Asn1.CCursorOer.ODec.rest (d : ODec) : Bytes := d.next d.remaining

/-- input octet `k` after the cursor -/
def _root_.Asn1.CCursorOer.ODec.at (d : ODec) (k : Nat) : UInt8 := d.buf[d.pos.toNat + k]!

theorem rd_eq_at {d : ODec} {n : Nat} (hf : d.fits n) (k : Nat) : d.rd n k = d.at k := by
  simp [ODec.rd, hf, ODec.at]

theorem adv_of_fits {d : ODec} {n : Nat} (hf : d.fits n) : d.adv n = { d with pos := d.pos + n } := by
  obtain ⟨h0, h1⟩ := hf
  have : ¬ d.size < 0 := by omega
  simp [ODec.adv, this, h1]

theorem fits_bounds {d : ODec} (h : DInv d) {n : Nat} (hf : d.fits n) :
    0 ≤ d.pos ∧ d.pos.toNat + n ≤ d.buf.size := by
  obtain ⟨h0, h1⟩ := hf
  rcases h.2 with h | h <;> omega

theorem next_eq_at {d : ODec} (h : DInv d) {n : Nat} (hf : d.fits n) :
    d.next n = (List.range n).map fun k => (d.at k).toNat := by
  have hb := fits_bounds h hf
  unfold ODec.next
  rw [window_eq _ _ _ hb.2]
  simp [ODec.at, Function.comp_def]

theorem next_length {d : ODec} (h : DInv d) {n : Nat} (hf : d.fits n) : (d.next n).length = n := by
  rw [next_eq_at h hf]; simp

theorem at_adv {d : ODec} (h : DInv d) {a : Nat} (hf : d.fits a) (k : Nat) :
    (d.adv a).at k = d.at (a + k) := by
  have hb := fits_bounds h hf
  rw [adv_of_fits hf]
  unfold ODec.at
  simp only
  have : (d.pos + (a : Int)).toNat + k = d.pos.toNat + (a + k) := by omega
  rw [this]

theorem fits_adv {d : ODec} {a b : Nat} (hf : d.fits (a + b)) : d.fits a ∧ (d.adv a).fits b := by
  obtain ⟨h0, h1⟩ := hf
  have hfa : d.fits a := ⟨h0, by omega⟩
  refine ⟨hfa, ?_⟩
  rw [adv_of_fits hfa]
  exact ⟨h0, by simp only; omega⟩

theorem adv_adv {d : ODec} {a b : Nat} (hf : d.fits (a + b)) : (d.adv a).adv b = d.adv (a + b) := by
  obtain ⟨hfa, hfb⟩ := fits_adv hf
  rw [adv_of_fits hfb, adv_of_fits hfa, adv_of_fits hf]
  simp only [ODec.mk.injEq, true_and]
  omega

theorem rest_length {d : ODec} (h : DInv d) (h0 : 0 ≤ d.size) : d.rest.length = d.remaining := by
  unfold ODec.rest ODec.next ODec.remaining
  rcases h.2 with h | h
  · simp; omega
  · omega

theorem fits_of_le_rest {d : ODec} (h : DInv d) (h0 : 0 ≤ d.size) {n : Nat} (hl : n ≤ d.rest.length) :
    d.fits n := by
  rw [rest_length h h0] at hl
  unfold ODec.remaining at hl
  refine ⟨h0, ?_⟩
  rcases h.2 with h | h <;> omega

/-- the remaining input splits into the octets a successful read consumes and the rest -/
theorem rest_split {d : ODec} (h : DInv d) {n : Nat} (hf : d.fits n) :
    d.rest = d.next n ++ (d.adv n).rest := by
  have hb := fits_bounds h hf
  obtain ⟨h0, h1⟩ := hf
  rw [adv_of_fits ⟨h0, h1⟩]
  unfold ODec.rest ODec.next ODec.remaining
  simp only
  have e1 : (d.size - d.pos).toNat = n + (d.size - (d.pos + n)).toNat := by omega
  have e2 : (d.pos + (n : Int)).toNat = d.pos.toNat + n := by omega
  rw [e1, List.take_add, List.drop_drop, e2, List.map_append]

/-! ### values -/

theorem next1 {d : ODec} (h : DInv d) (hf : d.fits 1) : d.next 1 = [d.u8.toNat] := by
  rw [next_eq_at h hf]; simp [List.range_succ, ODec.u8, rd_eq_at hf]

theorem u8_toNat {d : ODec} (h : DInv d) (hf : d.fits 1) : d.u8.toNat = bytesToNat (d.next 1) := by
  rw [next1 h hf]; simp [bytesToNat]

theorem u16_toNat {d : ODec} (h : DInv d) (hf : d.fits 2) : d.u16.toNat = bytesToNat (d.next 2) := by
  rw [next_eq_at h hf]
  have h0 := (d.at 0).toNat_lt
  have h1 := (d.at 1).toNat_lt
  simp only [ODec.u16, rd_eq_at hf, List.range_succ, List.range_zero, List.nil_append, List.cons_append,
    List.map_cons, List.map_nil, bytesToNat, List.foldl_cons, List.foldl_nil, UInt16.toNat_ofNat']
  rw [← Nat.shiftLeft_add_eq_or_of_lt (by omega : (d.at 1).toNat < 2 ^ 8), Nat.shiftLeft_eq]
  omega

theorem u32_bytes (a b c e : UInt8) :
    (a.toUInt32 <<< 24 ||| b.toUInt32 <<< 16 ||| c.toUInt32 <<< 8 ||| e.toUInt32).toNat =
      256 * (256 * (256 * (256 * 0 + a.toNat) + b.toNat) + c.toNat) + e.toNat := by
  have h0 := a.toNat_lt
  have h1 := b.toNat_lt
  have h2 := c.toNat_lt
  have h3 := e.toNat_lt
  simp only [UInt32.toNat_or, UInt32.toNat_shiftLeft, UInt8.toNat_toUInt32]
  have s24 : (24 : UInt32).toNat % 32 = 24 := by decide
  have s16 : (16 : UInt32).toNat % 32 = 16 := by decide
  have s8 : (8 : UInt32).toNat % 32 = 8 := by decide
  rw [s24, s16, s8]
  have hA : a.toNat <<< 24 % 2 ^ 32 = a.toNat * 16777216 := by rw [Nat.shiftLeft_eq]; omega
  have hB : b.toNat <<< 16 % 2 ^ 32 = b.toNat * 65536 := by rw [Nat.shiftLeft_eq]; omega
  have hC : c.toNat <<< 8 % 2 ^ 32 = c.toNat * 256 := by rw [Nat.shiftLeft_eq]; omega
  rw [hA, hB, hC, or_eq_add (a.toNat * 16777216) (b.toNat * 65536) 24 (by omega) (by omega),
    or_eq_add (a.toNat * 16777216 + b.toNat * 65536) (c.toNat * 256) 16 (by omega) (by omega),
    or_eq_add (a.toNat * 16777216 + b.toNat * 65536 + c.toNat * 256) e.toNat 8 (by omega) (by omega)]
  omega

theorem u32_toNat {d : ODec} (h : DInv d) (hf : d.fits 4) : d.u32.toNat = bytesToNat (d.next 4) := by
  rw [next_eq_at h hf]
  simp only [ODec.u32, rd_eq_at hf, u32_bytes, List.range_succ, List.range_zero, List.nil_append,
    List.cons_append, List.map_cons, List.map_nil, bytesToNat, List.foldl_cons, List.foldl_nil]

theorem u64_bytes (a b c e f g i k : UInt8) :
    (a.toUInt64 <<< 56 ||| b.toUInt64 <<< 48 ||| c.toUInt64 <<< 40 ||| e.toUInt64 <<< 32 |||
      f.toUInt64 <<< 24 ||| g.toUInt64 <<< 16 ||| i.toUInt64 <<< 8 ||| k.toUInt64).toNat =
      256 * (256 * (256 * (256 * (256 * (256 * (256 * (256 * 0 + a.toNat) + b.toNat) + c.toNat) + e.toNat)
        + f.toNat) + g.toNat) + i.toNat) + k.toNat := by
  have h0 := a.toNat_lt
  have h1 := b.toNat_lt
  have h2 := c.toNat_lt
  have h3 := e.toNat_lt
  have h4 := f.toNat_lt
  have h5 := g.toNat_lt
  have h6 := i.toNat_lt
  have h7 := k.toNat_lt
  simp only [UInt64.toNat_or, UInt64.toNat_shiftLeft, UInt8.toNat_toUInt64]
  have s56 : (56 : UInt64).toNat % 64 = 56 := by decide
  have s48 : (48 : UInt64).toNat % 64 = 48 := by decide
  have s40 : (40 : UInt64).toNat % 64 = 40 := by decide
  have s32 : (32 : UInt64).toNat % 64 = 32 := by decide
  have s24 : (24 : UInt64).toNat % 64 = 24 := by decide
  have s16 : (16 : UInt64).toNat % 64 = 16 := by decide
  have s8 : (8 : UInt64).toNat % 64 = 8 := by decide
  rw [s56, s48, s40, s32, s24, s16, s8]
  have hA : a.toNat <<< 56 % 2 ^ 64 = a.toNat * 72057594037927936 := by rw [Nat.shiftLeft_eq]; omega
  have hB : b.toNat <<< 48 % 2 ^ 64 = b.toNat * 281474976710656 := by rw [Nat.shiftLeft_eq]; omega
  have hC : c.toNat <<< 40 % 2 ^ 64 = c.toNat * 1099511627776 := by rw [Nat.shiftLeft_eq]; omega
  have hE : e.toNat <<< 32 % 2 ^ 64 = e.toNat * 4294967296 := by rw [Nat.shiftLeft_eq]; omega
  have hF : f.toNat <<< 24 % 2 ^ 64 = f.toNat * 16777216 := by rw [Nat.shiftLeft_eq]; omega
  have hG : g.toNat <<< 16 % 2 ^ 64 = g.toNat * 65536 := by rw [Nat.shiftLeft_eq]; omega
  have hI : i.toNat <<< 8 % 2 ^ 64 = i.toNat * 256 := by rw [Nat.shiftLeft_eq]; omega
  rw [hA, hB, hC, hE, hF, hG, hI]
  generalize a.toNat = a' at *
  generalize b.toNat = b' at *
  generalize c.toNat = c' at *
  generalize e.toNat = e' at *
  generalize f.toNat = f' at *
  generalize g.toNat = g' at *
  generalize i.toNat = i' at *
  generalize k.toNat = k' at *
  rw [or_eq_add (a' * 72057594037927936) (b' * 281474976710656) 56 (by omega) (by omega),
    or_eq_add (a' * 72057594037927936 + b' * 281474976710656) (c' * 1099511627776) 48 (by omega) (by omega),
    or_eq_add (a' * 72057594037927936 + b' * 281474976710656 + c' * 1099511627776) (e' * 4294967296) 40
      (by omega) (by omega),
    or_eq_add (a' * 72057594037927936 + b' * 281474976710656 + c' * 1099511627776 + e' * 4294967296)
      (f' * 16777216) 32 (by omega) (by omega),
    or_eq_add (a' * 72057594037927936 + b' * 281474976710656 + c' * 1099511627776 + e' * 4294967296 +
      f' * 16777216) (g' * 65536) 24 (by omega) (by omega),
    or_eq_add (a' * 72057594037927936 + b' * 281474976710656 + c' * 1099511627776 + e' * 4294967296 +
      f' * 16777216 + g' * 65536) (i' * 256) 16 (by omega) (by omega),
    or_eq_add (a' * 72057594037927936 + b' * 281474976710656 + c' * 1099511627776 + e' * 4294967296 +
      f' * 16777216 + g' * 65536 + i' * 256) k' 8 (by omega) (by omega)]
  omega

theorem u64_toNat {d : ODec} (h : DInv d) (hf : d.fits 8) : d.u64.toNat = bytesToNat (d.next 8) := by
  rw [next_eq_at h hf]
  simp only [ODec.u64, rd_eq_at hf, u64_bytes, List.range_succ, List.range_zero, List.nil_append,
    List.cons_append, List.map_cons, List.map_nil, bytesToNat, List.foldl_cons, List.foldl_nil]

/-- the three-octet value of `decoder_read_uint(3)` / case 3 of the length determinant -/
theorem u24_toNat {d : ODec} (h : DInv d) (hf : d.fits 3) :
    (d.u8.toUInt32 <<< 16 ||| (d.adv 1).u16.toUInt32).toNat = bytesToNat (d.next 3) := by
  obtain ⟨hf1, hf2⟩ := fits_adv (a := 1) (b := 2) hf
  rw [next_eq_at h hf]
  have h0 := (d.at 0).toNat_lt
  have h1 := (d.at 1).toNat_lt
  have h2 := (d.at 2).toNat_lt
  have hu16 := u16_toNat (DInv_adv h 1) hf2
  rw [next_eq_at (DInv_adv h 1) hf2] at hu16
  simp only [at_adv h hf1, List.range_succ, List.range_zero, List.nil_append, List.cons_append,
    List.map_cons, List.map_nil, bytesToNat, List.foldl_cons, List.foldl_nil, Nat.add_zero,
    Nat.reduceAdd] at hu16
  simp only [UInt32.toNat_or, UInt32.toNat_shiftLeft, UInt8.toNat_toUInt32, UInt16.toNat_toUInt32, hu16,
    ODec.u8, rd_eq_at hf1, List.range_succ, List.range_zero, List.nil_append, List.cons_append,
    List.map_cons, List.map_nil, bytesToNat, List.foldl_cons, List.foldl_nil]
  have s16 : (16 : UInt32).toNat % 32 = 16 := by decide
  rw [s16]
  have hA : (d.at 0).toNat <<< 16 % 2 ^ 32 = (d.at 0).toNat * 65536 := by rw [Nat.shiftLeft_eq]; omega
  rw [hA, or_eq_add _ _ 16 (by omega) (by omega)]
  omega

/-! ### reads whose input is a given big-endian number: round trips -/

theorem readU8_of_next {d : ODec} (h : DInv d) (j : Junk) (hj : j.Pre) (hf : d.fits 1) (v : UInt8)
    (hv : d.next 1 = natToBytesN 1 v.toNat) : d.readU8 j = .ok (v, d.adv 1) := by
  rw [readU8_eq h j hj]
  have : d.u8 = v := by
    apply UInt8.toNat_inj.mp
    rw [u8_toNat h hf, hv, bytesToNat_natToBytesN]
    have := v.toNat_lt
    omega
  rw [this]

theorem readU16_of_next {d : ODec} (h : DInv d) (j : Junk) (hj : j.Pre) (hf : d.fits 2) (v : UInt16)
    (hv : d.next 2 = natToBytesN 2 v.toNat) : d.readU16 j = .ok (v, d.adv 2) := by
  rw [readU16_eq h j hj]
  have : d.u16 = v := by
    apply UInt16.toNat_inj.mp
    rw [u16_toNat h hf, hv, bytesToNat_natToBytesN]
    have := v.toNat_lt
    omega
  rw [this]

theorem readU32_of_next {d : ODec} (h : DInv d) (j : Junk) (hj : j.Pre) (hf : d.fits 4) (v : UInt32)
    (hv : d.next 4 = natToBytesN 4 v.toNat) : d.readU32 j = .ok (v, d.adv 4) := by
  rw [readU32_eq h j hj]
  have : d.u32 = v := by
    apply UInt32.toNat_inj.mp
    rw [u32_toNat h hf, hv, bytesToNat_natToBytesN]
    have := v.toNat_lt
    omega
  rw [this]

theorem readU64_of_next {d : ODec} (h : DInv d) (j : Junk) (hj : j.Pre) (hf : d.fits 8) (v : UInt64)
    (hv : d.next 8 = natToBytesN 8 v.toNat) : d.readU64 j = .ok (v, d.adv 8) := by
  rw [readU64_eq h j hj]
  have : d.u64 = v := by
    apply UInt64.toNat_inj.mp
    rw [u64_toNat h hf, hv, bytesToNat_natToBytesN]
    have := v.toNat_lt
    omega
  rw [this]

/-! ### `decoder_read_length_determinant` against `Oer.readLenDet` -/

set_option maxRecDepth 100000 in
theorem and128_ne_zero : ∀ b, b < 256 → ((¬ (b &&& 128 = 0)) ↔ 128 ≤ b) := by decide

theorem mask80 (b : UInt8) : (b.toUInt32 &&& 0x80 ≠ 0) ↔ 128 ≤ b.toNat := by
  rw [Ne, ← UInt32.toNat_inj, UInt32.toNat_and]
  simp only [UInt8.toNat_toUInt32]
  have h80 : (0x80 : UInt32).toNat = 128 := by decide
  have h0 : (0 : UInt32).toNat = 0 := by decide
  rw [h80, h0]
  exact and128_ne_zero _ b.toNat_lt

theorem mask7f (b : UInt8) : (b.toUInt32 &&& 0x7f).toNat = b.toNat % 128 := by
  rw [UInt32.toNat_and]
  simp only [UInt8.toNat_toUInt32]
  have h7f : (0x7f : UInt32).toNat = 2 ^ 7 - 1 := by decide
  rw [h7f, Nat.and_two_pow_sub_one_eq_mod]

theorem mask7f_eq (b : UInt8) (k : Nat) (hk : k < 128) (hb : b.toNat % 128 = k) :
    b.toUInt32 &&& 0x7f = UInt32.ofNat k := by
  apply UInt32.toNat_inj.mp
  rw [mask7f, hb]
  simp
  omega

theorem lenDetSpec_short {d : ODec} (hb : d.u8.toNat < 128) : lenDetSpec d = (d.u8.toUInt32, d.adv 1) := by
  have hm : ¬ (d.u8.toUInt32 &&& 0x80 ≠ 0) := by rw [mask80]; omega
  unfold lenDetSpec
  simp only [hm, if_false]

theorem lenDetSpec_long {d : ODec} (hb : 128 ≤ d.u8.toNat) :
    lenDetSpec d =
      (let d1 := d.adv 1
       if d.u8.toNat = 129 then (d1.u8.toUInt32, d1.adv 1)
       else if d.u8.toNat = 130 then (d1.u16.toUInt32, d1.adv 2)
       else if d.u8.toNat = 131 then (d1.u8.toUInt32 <<< 16 ||| (d1.adv 1).u16.toUInt32, (d1.adv 1).adv 2)
       else if d.u8.toNat = 132 then (d1.u32, d1.adv 4)
       else (0xffffffff, d1)) := by
  have hm : d.u8.toUInt32 &&& 0x80 ≠ 0 := by rw [mask80]; omega
  have hlt := d.u8.toNat_lt
  unfold lenDetSpec
  simp only []
  rw [if_pos hm]
  have hk : d.u8.toUInt32 &&& 0x7f = UInt32.ofNat (d.u8.toNat - 128) :=
    mask7f_eq _ _ (by omega) (by omega)
  rw [hk]
  have e : ∀ k : Nat, k < 128 → ∀ c : Nat, c < 128 → ((UInt32.ofNat k = UInt32.ofNat c) ↔ k = c) := by
    intro k hk c hc
    rw [← UInt32.toNat_inj]
    simp
    omega
  have e1 := e (d.u8.toNat - 128) (by omega) 1 (by omega)
  have e2 := e (d.u8.toNat - 128) (by omega) 2 (by omega)
  have e3 := e (d.u8.toNat - 128) (by omega) 3 (by omega)
  have e4 := e (d.u8.toNat - 128) (by omega) 4 (by omega)
  have c1 : (UInt32.ofNat (d.u8.toNat - 128) = 1) ↔ d.u8.toNat = 129 := by rw [show (1 : UInt32) = UInt32.ofNat 1 from rfl, e1]; omega
  have c2 : (UInt32.ofNat (d.u8.toNat - 128) = 2) ↔ d.u8.toNat = 130 := by rw [show (2 : UInt32) = UInt32.ofNat 2 from rfl, e2]; omega
  have c3 : (UInt32.ofNat (d.u8.toNat - 128) = 3) ↔ d.u8.toNat = 131 := by rw [show (3 : UInt32) = UInt32.ofNat 3 from rfl, e3]; omega
  have c4 : (UInt32.ofNat (d.u8.toNat - 128) = 4) ↔ d.u8.toNat = 132 := by rw [show (4 : UInt32) = UInt32.ofNat 4 from rfl, e4]; omega
  simp only [c1, c2, c3, c4]

theorem splitAux_ok : ∀ (n : Nat) (bs acc a b : Bytes), Oer.splitAux n bs acc = some (a, b) →
    acc.reverse ++ bs = a ++ b ∧ a.length = acc.length + n := by
  intro n
  induction n with
  | zero =>
    intro bs acc a b h
    simp [Oer.splitAux] at h
    obtain ⟨rfl, rfl⟩ := h
    simp
  | succ n ih =>
    intro bs acc a b h
    cases bs with
    | nil => simp [Oer.splitAux] at h
    | cons x r =>
      simp only [Oer.splitAux] at h
      obtain ⟨h1, h2⟩ := ih _ _ _ _ h
      simp at h1 h2
      exact ⟨by simpa using h1, by omega⟩

theorem readBytes_ok {n : Nat} {bs a b : Bytes} (h : Oer.readBytes n bs = .ok (a, b)) :
    bs = a ++ b ∧ a.length = n := by
  unfold Oer.readBytes at h
  split at h
  · rename_i x hx
    cases h
    have := splitAux_ok _ _ _ _ _ hx
    simpa using this
  · cases h

/-- a successful `read_bytes k` of the Python model on the remaining input is a fitting read -/
theorem take_of_readBytes {d : ODec} (h : DInv d) (h0 : 0 ≤ d.size) {k : Nat} {ds r : Bytes}
    (hr : Oer.readBytes k d.rest = .ok (ds, r)) :
    d.fits k ∧ ds = d.next k ∧ r = (d.adv k).rest := by
  obtain ⟨h1, h2⟩ := readBytes_ok hr
  have hf : d.fits k := fits_of_le_rest h h0 (by rw [h1]; simp; omega)
  have hs := rest_split h hf
  rw [h1] at hs
  obtain ⟨e1, e2⟩ := List.append_inj hs (by rw [h2, next_length h hf])
  exact ⟨hf, e1, e2⟩

theorem size_adv_of_fits {d : ODec} {n : Nat} (hf : d.fits n) : 0 ≤ (d.adv n).size := by
  rw [adv_of_fits hf]; exact hf.1

/-- FUNCTIONAL, decoder: whenever the Python codec's `read_length_determinant` succeeds on the
remaining input with a first octet `< 0x80` or in `0x81..0x84`, `decoder_read_length_determinant`
returns the same value (which is `< 2^32`) and leaves the same remaining input -/
theorem readLengthDeterminant_readLenDet {d : ODec} (h : DInv d) (h0 : 0 ≤ d.size) (j : Junk) (hj : j.Pre)
    {v : Nat} {r : Bytes} (hr : Oer.readLenDet d.rest = .ok (v, r))
    (hk : d.u8.toNat < 128 ∨ (129 ≤ d.u8.toNat ∧ d.u8.toNat ≤ 132)) :
    ∃ d', d.readLengthDeterminant j = .ok (UInt32.ofNat v, d') ∧ v < 4294967296 ∧
      0 ≤ d'.size ∧ d'.rest = r ∧ DInv d' := by
  rw [readLengthDeterminant_eq h j hj]
  unfold Oer.readLenDet at hr
  cases hrest : d.rest with
  | nil => rw [hrest] at hr; simp [Oer.readByte, bind, Except.bind] at hr
  | cons b t =>
    have hf1 : d.fits 1 := fits_of_le_rest h h0 (by rw [hrest]; simp)
    have hsp := rest_split h hf1
    rw [next1 h hf1, hrest] at hsp
    simp only [List.cons_append, List.nil_append, List.cons.injEq] at hsp
    obtain ⟨hb, ht⟩ := hsp
    have h1 := DInv_adv h 1
    have h10 := size_adv_of_fits hf1
    rw [hrest] at hr
    simp only [Oer.readByte, bind, Except.bind] at hr
    by_cases hlt : b < 128
    · simp only [hlt, if_true] at hr
      cases hr
      rw [lenDetSpec_short (by omega)]
      refine ⟨d.adv 1, ?_, by omega, h10, ht.symm, h1⟩
      rw [hb, ← UInt8.toNat_toUInt32, UInt32.ofNat_toNat]
    · simp only [hlt, if_false] at hr
      have hlong := lenDetSpec_long (d := d) (by omega)
      rw [hlong]
      simp only []
      cases hrb : Oer.readBytes (b - 128) t with
      | error e => rw [hrb] at hr; cases hr
      | ok x =>
        obtain ⟨ds, r'⟩ := x
        rw [hrb] at hr
        simp only at hr
        cases hr
        rw [ht] at hrb
        obtain ⟨hfk, hds, hr'⟩ := take_of_readBytes h1 h10 hrb
        have hbk : d.u8.toNat = 129 ∨ d.u8.toNat = 130 ∨ d.u8.toNat = 131 ∨ d.u8.toNat = 132 := by omega
        rcases hbk with hc | hc | hc | hc
        · have hk1 : b - 128 = 1 := by omega
          rw [hk1] at hfk hds hr'
          simp only [hc, if_true]
          refine ⟨_, ?_, ?_, size_adv_of_fits hfk, hr'.symm, DInv_adv h1 1⟩
          · rw [hds, ← u8_toNat h1 hfk, ← UInt8.toNat_toUInt32, UInt32.ofNat_toNat]
          · rw [hds, ← u8_toNat h1 hfk]; have := (d.adv 1).u8.toNat_lt; omega
        · have hk1 : b - 128 = 2 := by omega
          rw [hk1] at hfk hds hr'
          simp only [hc, show ¬ ((130 : Nat) = 129) by decide, if_true, if_false]
          refine ⟨_, ?_, ?_, size_adv_of_fits hfk, hr'.symm, DInv_adv h1 2⟩
          · rw [hds, ← u16_toNat h1 hfk, ← UInt16.toNat_toUInt32, UInt32.ofNat_toNat]
          · rw [hds, ← u16_toNat h1 hfk]; have := (d.adv 1).u16.toNat_lt; omega
        · have hk1 : b - 128 = 3 := by omega
          rw [hk1] at hfk hds hr'
          simp only [hc, show ¬ ((131 : Nat) = 129) by decide, show ¬ ((131 : Nat) = 130) by decide,
            if_true, if_false]
          rw [adv_adv (a := 1) (b := 2) hfk]
          refine ⟨_, ?_, ?_, size_adv_of_fits hfk, hr'.symm, DInv_adv h1 3⟩
          · rw [hds, ← u24_toNat h1 hfk, UInt32.ofNat_toNat]
          · rw [hds, ← u24_toNat h1 hfk]; exact UInt32.toNat_lt _
        · have hk1 : b - 128 = 4 := by omega
          rw [hk1] at hfk hds hr'
          simp only [hc, show ¬ ((132 : Nat) = 129) by decide, show ¬ ((132 : Nat) = 130) by decide,
            show ¬ ((132 : Nat) = 131) by decide, if_true, if_false]
          refine ⟨_, ?_, ?_, size_adv_of_fits hfk, hr'.symm, DInv_adv h1 4⟩
          · rw [hds, ← u32_toNat h1 hfk, UInt32.ofNat_toNat]
          · rw [hds, ← u32_toNat h1 hfk]; exact UInt32.toNat_lt _

/-- ... and otherwise: a first octet `0x80` (length of length 0) or `> 0x84` (length of length
`> 4`) makes the C decoder return `0xffffffff` having consumed one octet; it does NOT latch an error -/
theorem readLengthDeterminant_unsupported {d : ODec} (h : DInv d) (j : Junk) (hj : j.Pre)
    (hk : d.u8.toNat = 128 ∨ 133 ≤ d.u8.toNat) :
    d.readLengthDeterminant j = .ok (0xffffffff, d.adv 1) := by
  rw [readLengthDeterminant_eq h j hj, lenDetSpec_long (by omega)]
  have c1 : ¬ d.u8.toNat = 129 := by omega
  have c2 : ¬ d.u8.toNat = 130 := by omega
  have c3 : ¬ d.u8.toNat = 131 := by omega
  have c4 : ¬ d.u8.toNat = 132 := by omega
  simp only [c1, c2, c3, c4, if_false]

/-- on input that starts with the length determinant of `n < 2^32`, the C decoder returns `n` and
is left with the input after it -/
theorem readLengthDeterminant_lenDet {d : ODec} (h : DInv d) (h0 : 0 ≤ d.size) (j : Junk) (hj : j.Pre)
    (n : UInt32) (t : Bytes) (hin : d.rest = encBytes (.lendet n) ++ t) :
    ∃ d', d.readLengthDeterminant j = .ok (n, d') ∧ 0 ≤ d'.size ∧ d'.rest = t ∧ DInv d' := by
  have hl := encBytes_lendet n
  have hr := Oer.readLenDet_lenDet hl t
  rw [← hin] at hr
  have hne := Oer.lenDet_ne_nil hl
  have hf1 : d.fits 1 := fits_of_le_rest h h0 (by
    rw [hin]
    cases hx : encBytes (OEncOp.lendet n) with
    | nil => exact absurd hx hne
    | cons a l => simp)
  have hsp := rest_split h hf1
  rw [next1 h hf1, hin] at hsp
  -- the first octet
  have hfirst : d.u8.toNat < 128 ∨ (129 ≤ d.u8.toNat ∧ d.u8.toNat ≤ 132) := by
    have hlt := n.toNat_lt
    unfold encBytes chunks lenDetChunks at hsp
    simp only at hsp
    split at hsp
    · simp at hsp; omega
    split at hsp
    · simp at hsp; omega
    split at hsp
    · simp [be16] at hsp; omega
    split at hsp
    · rename_i h3 h2 h1 hh
      have hor : (n ||| (0x83 : UInt32) <<< 24).toNat = 2197815296 + n.toNat := by
        rw [UInt32.toNat_or, Nat.or_comm]
        have : ((0x83 : UInt32) <<< 24).toNat = 2197815296 := by decide
        rw [this, or_eq_add _ _ 24 (by omega) (by decide)]
      simp [be32, UInt32.toNat_shiftRight, Nat.shiftRight_eq_div_pow, hor] at hsp
      omega
    · simp at hsp; omega
  obtain ⟨d', hd, _, hs, hrest, hinv⟩ := readLengthDeterminant_readLenDet h h0 j hj hr hfirst
  exact ⟨d', by rw [hd, UInt32.ofNat_toNat], hs, hrest, hinv⟩

end Asn1.C10
