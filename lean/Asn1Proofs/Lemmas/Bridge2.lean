import Asn1Proofs.Lemmas.Bridge2OerEnc
import Asn1Proofs.Lemmas.Bridge2OerDec
import Asn1Proofs.Lemmas.Bridge2PerDec
/-
  BRIDGE, part 2: the translated decoder classes `per.Decoder`, `oer.Decoder` and the translated `oer.Encoder`
  (regenerated from /repo by harness/py2lean.py on every run) refine the reading / writing primitives of the
  hand-written models (`Per.St` readers, `Oer` byte readers and writers).

  This is the top module; the theorems live in

  * `Bridge2Defs.lean`    `errOk`, `Refines`, `bitVal`, `natVal`, `bytesVal` (unchanged), `shlE` / `shrE` / mask lemmas
  * `PyStrLemmas.lean`    `int(s, 2)`, slices, `unhexlify(hex(x)[4:])` behind the 0x80 sentinel, `packBits`, `splitExact`
  * `Bridge2OerEnc.lean`  `OEncInv`, `oEncBits`, `OEncRefines` (unchanged) and
        oer_append_non_negative_binary_integer_refines  oer_append_bit_refines  oer_append_u8_refines
        oer_append_bits_refines  oer_append_bytes_refines  oer_align_refines  oer_number_of_bytes_eq  oer_iadd_refines
        oer_append_length_determinant_refines (+ `_cases`, the same statement spelled out)
        oer_append_integer_refines  oer_append_unsigned_integer_refines
  * `Bridge2OerDec.lean`  `ODecInv`, `oBits`, `oAt`, `ORefines` (unchanged) and
        oer_read_bit_bits  oer_peek_bit_bits  oer_skip_bits_bits  oer_read_byte_refines  oer_read_bytes_refines
        oer_read_length_determinant_refines  oer_read_integer_refines  oer_read_unsigned_integer_refines
        oer_read_tag_refines
  * `Bridge2PerDec.lean`  `PDecInv` (CHANGED, see below), `pAbs` (unchanged) and
        per_number_of_read_bits  per_align_always_refines  per_skip_bits_refines  per_read_bit_refines
        per_read_non_negative_binary_integer_refines  per_read_bits_refines  per_read_length_determinant_refines
        per_read_normally_small_non_negative_whole_number_refines  per_read_normally_small_length_refines
        per_read_constrained_whole_number_refines  per_read_unconstrained_whole_number_refines

  Every theorem is proved with the statement it was given.  One helper definition had to change:

  ORIGINAL
      structure PDecInv (d : per_DecoderS) : Prop where
        nb : 0 ≤ d.number_of_bits
        le : d.number_of_bits ≤ d.total_number_of_bits
        len : (d.value.length : Int) = d.total_number_of_bits
        bin : ∀ c ∈ d.value, c = '0' ∨ c = '1'
  NOW   the same with the additional field  `al : d.total_number_of_bits % 8 = 0`.
  `Decoder.__init__` sets `total_number_of_bits = 8 * len(encoded)`; `Decoder.align_always` drops
  `number_of_bits & 7` of the REMAINING bits while `Per.align` pads the number of bits READ to a multiple of eight, and
  the two agree only when the total is a multiple of eight.  With the original invariant (kept as `PDecInv0`)
  `per_align_always_refines` is false: `per_align_always_refines_original_false` (and with it
  `per_read_constrained_whole_number_refines`, which aligns for ranges above 255).
-/
