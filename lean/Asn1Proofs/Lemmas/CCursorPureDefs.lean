import Asn1Model.Prim
import Asn1Model.CCursor
/-
  C09: UNCHECKED, total, pure counterparts of the memory-touching helpers of
  `Asn1Model/CCursor.lean` (`Array.set!` / `[·]!` instead of the checked accessors, `Nat` indices
  instead of wrapping `UInt64`).  `CCursorRefine.lean` proves that under the invariant the checked
  model never faults and computes exactly these functions (that is the memory-safety proof);
  `CCursorBits.lean` proves what these functions do at the bit level (the functional proof).
-/
namespace Asn1.CCursor
open Asn1

/-- bit `p` of a memory object; bit 0 is the most significant bit of byte 0 -/
def getBit (m : Mem) (p : Nat) : Bool := m[p / 8]!.toNat.testBit (7 - p % 8)

/-- the `n` bits starting at bit position `p` -/
def bitsFrom (m : Mem) (p n : Nat) : Bits := (List.range n).map fun i => getBit m (p + i)

/-- zero padding: the bits from `p` up to the next byte boundary are zero.  (The encoder helpers use
`|=` and rely on this.) -/
def Padded (m : Mem) (p : Nat) : Prop := ∀ q, p ≤ q → q < 8 * ((p + 7) / 8) → getBit m q = false

/-- effect of `encoder_append_bit(value = v)` at bit position `p` on the buffer -/
def writeBit (buf : Mem) (p v : Nat) : Mem :=
  let buf1 := if p % 8 = 0 then buf.set! (p / 8) 0 else buf
  buf1.set! (p / 8) (buf1[p / 8]! ||| UInt8.ofNat (v <<< (7 - p % 8)))

/-- `memcpy(&dst[dOff], &src[sOff], n)` -/
def pureMemcpy (src : Mem) : (n : Nat) → (dst : Mem) → (dOff sOff : Nat) → Mem
  | 0, dst, _, _ => dst
  | n + 1, dst, dOff, sOff => pureMemcpy src n (dst.set! dOff src[sOff]!) (dOff + 1) (sOff + 1)

/-- the unaligned loop of `encoder_append_bytes` -/
def pureAppendBytesLoop (src : Mem) (bytePos pib : Nat) : (n : Nat) → (i : Nat) → Mem → Mem
  | 0, _, buf => buf
  | n + 1, i, buf =>
    let buf := buf.set! (bytePos + i) (buf[bytePos + i]! ||| UInt8.ofNat (src[i]!.toNat >>> pib))
    let buf := buf.set! (bytePos + i + 1) (UInt8.ofNat (src[i]!.toNat <<< (8 - pib)))
    pureAppendBytesLoop src bytePos pib n (i + 1) buf

/-- effect of `encoder_append_bytes(src, n)` at bit position `p` on the buffer -/
def writeBytes (buf : Mem) (p : Nat) (src : Mem) (n : Nat) : Mem :=
  if p % 8 = 0 then pureMemcpy src n buf (p / 8) 0 else pureAppendBytesLoop src (p / 8) (p % 8) n 0 buf

/-- effect of the loop of `encoder_append_non_negative_binary_integer(value, size)`:
`n` remaining iterations, loop counter `i`, current bit position `p` -/
def writeNnbi (value : UInt64) (size : Nat) : (n : Nat) → (i : Nat) → (buf : Mem) → (p : Nat) → Mem
  | 0, _, buf, _ => buf
  | n + 1, i, buf, p =>
    writeNnbi value size n (i + 1)
      (writeBit buf p ((value >>> UInt64.ofNat (size - i - 1)) &&& 1).toNat) (p + 1)

/-- the bytes `encoder_append_uint16/32/64` hand to `encoder_append_bytes` -/
def bytesU16 (v : UInt16) : Mem := #[UInt8.ofNat (v.toNat >>> 8), UInt8.ofNat v.toNat]
def bytesU32 (v : UInt32) : Mem := #[(v >>> 24).toUInt8, (v >>> 16).toUInt8, (v >>> 8).toUInt8, v.toUInt8]
def bytesU64 (v : UInt64) : Mem :=
  #[(v >>> 56).toUInt8, (v >>> 48).toUInt8, (v >>> 40).toUInt8, (v >>> 32).toUInt8,
    (v >>> 24).toUInt8, (v >>> 16).toUInt8, (v >>> 8).toUInt8, v.toUInt8]

/-- value of `decoder_read_bit` at bit position `p` -/
def readBitVal (buf : Mem) (p : Nat) : Nat := (buf[p / 8]!.toNat >>> (7 - p % 8)) &&& 1

/-- the unaligned loop of `decoder_read_bytes` -/
def pureReadBytesLoop (src : Mem) (bytePos pib : Nat) : (n : Nat) → (i : Nat) → Mem → Mem
  | 0, _, dst => dst
  | n + 1, i, dst =>
    let dst := dst.set! i (UInt8.ofNat (src[bytePos + i]!.toNat <<< pib))
    let dst := dst.set! i (dst[i]! ||| UInt8.ofNat (src[bytePos + i + 1]!.toNat >>> (8 - pib)))
    pureReadBytesLoop src bytePos pib n (i + 1) dst

/-- destination object after `decoder_read_bytes(dst, n)` at bit position `p` -/
def readBytesVal (buf : Mem) (p : Nat) (dst : Mem) (n : Nat) : Mem :=
  if p % 8 = 0 then pureMemcpy buf n dst 0 (p / 8) else pureReadBytesLoop buf (p / 8) (p % 8) n 0 dst

/-- value of the loop of `decoder_read_non_negative_binary_integer`: `n` remaining iterations,
accumulator `v`, bit position `p` -/
def readNnbiVal (buf : Mem) : (n : Nat) → (v : UInt64) → (p : Nat) → UInt64
  | 0, v, _ => v
  | n + 1, v, p => readNnbiVal buf n ((v <<< 1) ||| UInt64.ofNat (readBitVal buf p)) (p + 1)

/-- values assembled by `decoder_read_uint16/32/64` from the bytes read -/
def valU16 (m : Mem) : UInt16 := UInt16.ofNat ((m[0]!.toNat <<< 8) ||| m[1]!.toNat)
def valU32 (m : Mem) : UInt32 :=
  (m[0]!.toUInt32 <<< 24) ||| (m[1]!.toUInt32 <<< 16) ||| (m[2]!.toUInt32 <<< 8) ||| m[3]!.toUInt32
def valU64 (m : Mem) : UInt64 :=
  (m[0]!.toUInt64 <<< 56) ||| (m[1]!.toUInt64 <<< 48) ||| (m[2]!.toUInt64 <<< 40) ||| (m[3]!.toUInt64 <<< 32)
  ||| (m[4]!.toUInt64 <<< 24) ||| (m[5]!.toUInt64 <<< 16) ||| (m[6]!.toUInt64 <<< 8) ||| m[7]!.toUInt64

end Asn1.CCursor
