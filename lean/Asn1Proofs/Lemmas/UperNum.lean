import Asn1Proofs.Lemmas.UperPrim
/-
  Whole numbers: bytes, unconstrained (two's complement) integers, normally small numbers.
-/
namespace Asn1

theorem bytesToBits_append (a b : Bytes) : bytesToBits (a ++ b) = bytesToBits a ++ bytesToBits b := by
  simp [bytesToBits]

theorem bytesToBits_length (bs : Bytes) : (bytesToBits bs).length = 8 * bs.length := by
  induction bs with
  | nil => rfl
  | cons b r ih =>
    show (natToBits 8 b ++ bytesToBits r).length = _
    simp [ih]; omega

theorem natToBytesN_length (k n : Nat) : (natToBytesN k n).length = k := by
  induction k generalizing n with
  | zero => rfl
  | succ k ih => simp [natToBytesN, ih]

theorem bytesToBits_natToBytesN (k n : Nat) : bytesToBits (natToBytesN k n) = natToBits (8 * k) n := by
  induction k generalizing n with
  | zero => rfl
  | succ k ih =>
    rw [natToBytesN, bytesToBits_append, ih]
    have : 8 * (k + 1) = 8 * k + 8 := by omega
    rw [this, natToBits_add]
    congr 1
    show natToBits 8 (n % 256) ++ [] = _
    rw [List.append_nil]
    exact natToBits_mod 8 n

theorem pow256 (k : Nat) : 256 ^ k = 2 ^ (8 * k) := by
  rw [Nat.pow_mul]

/-- `i` fits in `intByteLength i` octets of two's complement -/
theorem intByteLength_bounds (i : Int) :
    -((2 ^ (8 * intByteLength i - 1) : Nat) : Int) ≤ i ∧ i < ((2 ^ (8 * intByteLength i - 1) : Nat) : Int) := by
  unfold intByteLength
  split
  · rename_i h
    have h1 := lt_two_pow_bitLength i.toNat
    have h2 : 2 ^ bitLength i.toNat ≤ 2 ^ (8 * (bitLength i.toNat / 8 + 1) - 1) :=
      Nat.pow_le_pow_right (by omega) (by omega)
    omega
  · rename_i h
    have h1 := lt_two_pow_bitLength (-i - 1).toNat
    have h2 : 2 ^ bitLength (-i - 1).toNat ≤ 2 ^ (8 * (bitLength (-i - 1).toNat / 8 + 1) - 1) :=
      Nat.pow_le_pow_right (by omega) (by omega)
    omega

theorem intByteLength_pos (i : Int) : 1 ≤ intByteLength i := by
  unfold intByteLength; split <;> omega

namespace Uper

theorem decUnconstrained_enc (i : Int) (rest : Bits) (h : intByteLength i < 16384) :
    decUnconstrained (encUnconstrained i ++ rest) = .ok (i, rest) := by
  have hb := intByteLength_bounds i
  have hpos := intByteLength_pos i
  generalize hk : intByteLength i = k at *
  unfold encUnconstrained
  simp only [hk, intToBytesN]
  rw [bytesToBits_natToBytesN]
  have hQ : (2 : Nat) ^ (8 * k) = 2 * 2 ^ (8 * k - 1) := by
    have : 8 * k = (8 * k - 1) + 1 := by omega
    rw [this, Nat.pow_succ]; simp; omega
  generalize hq : (2 : Nat) ^ (8 * k - 1) = Q at *
  have hm : ((i % ((256 ^ k : Nat) : Int)).toNat : Int) = if 0 ≤ i then i else i + 2 * Q := by
    rw [pow256, hQ]
    split
    · rename_i h0
      rw [Int.emod_eq_of_lt h0 (by omega)]; omega
    · rename_i h0
      have : i % ((2 * Q : Nat) : Int) = i + 2 * Q := by
        rw [← Int.add_emod_right, Int.emod_eq_of_lt (by omega) (by omega)]; simp
      rw [this]; omega
  generalize (i % ((256 ^ k : Nat) : Int)).toNat = m at *
  have hmlt : m < 2 ^ (8 * k) := by rw [hQ]; split at hm <;> omega
  simp only [decUnconstrained, bind, Except.bind, List.append_assoc]
  rw [readLenDet_lenDet, lenDet_snd_of_lt h]
  simp only
  rw [readBits_append _ _ (natToBits_length _ _)]
  simp only
  have hk0 : ¬ k = 0 := by omega
  simp only [hk0, if_false, bitsToNat_natToBits_of_lt hmlt, hq]
  split at hm
  · have : ¬ m ≥ Q := by omega
    simp only [this, if_false]
    congr 2
  · have : m ≥ Q := by omega
    simp only [this, if_true, hQ]
    congr 2
    omega

/-- hypothesis under which the normally-small number's length determinant is not fragmented -/
theorem decNsnnwn_enc (v : Nat) (rest : Bits) (h : (bitLength v + 7) / 8 < 16384) :
    decNsnnwn (encNsnnwn v ++ rest) = .ok (v, rest) := by
  unfold encNsnnwn
  split
  · rename_i hv
    rw [natToBits_succ_of_lt (w := 6) (by omega)]
    simp only [decNsnnwn, bind, Except.bind, List.cons_append, readBit_cons]
    simp only [Bool.not_false, if_true]
    exact readNat_natToBits rest (by omega)
  · simp only [decNsnnwn, bind, Except.bind, List.cons_append, List.nil_append, readBit_cons,
      List.append_assoc]
    simp only [Bool.not_true, Bool.false_eq_true, if_false]
    rw [readLenDet_lenDet, lenDet_snd_of_lt h]
    simp only
    apply readNat_natToBits
    have := lt_two_pow_bitLength v
    exact Nat.lt_of_lt_of_le this (Nat.pow_le_pow_right (by omega) (by omega))

theorem encNsLength_small {n : Nat} (h : n ≤ 64) : encNsLength n = .ok (natToBits 7 (n - 1)) := by
  simp [encNsLength, h]

theorem decNsLength_enc {n : Nat} (rest : Bits) (h1 : 1 ≤ n) (h : n ≤ 64) :
    decNsLength (natToBits 7 (n - 1) ++ rest) = .ok (n, rest) := by
  rw [natToBits_succ_of_lt (w := 6) (by omega)]
  simp only [decNsLength, bind, Except.bind, List.cons_append, readBit_cons]
  simp only [Bool.not_false, if_true]
  rw [readNat_natToBits rest (by omega)]
  simp only [Except.ok.injEq, Prod.mk.injEq, and_true]
  omega

end Uper
end Asn1
