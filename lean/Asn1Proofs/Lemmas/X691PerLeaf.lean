import Asn1Proofs.Lemmas.X691PerPrim
/-
  The ALIGNED specification encoder against the code model `Per.enc`: the types without
  components.  `PREF t`: outside the deviation predicates, whenever the standard defines an encoding
  of `v : t` at position `pos` the code emits exactly those bits.
-/
set_option linter.unusedSimpArgs false
set_option linter.unusedVariables false
namespace Asn1.X691
open Asn1.Uper (lenDet encChunks encChunked padToByte)
open Asn1.Per (alignBits padLen)

def PREF (t : Ty) : Prop :=
  ∀ (v : Val) (pos : Nat) (bits : Bits),
    devs true t v = [] → enc true t pos v = .ok bits → Per.enc t pos v = .ok bits

theorem pref_boolean : PREF .boolean := by
  intro v pos bits _ h
  cases v <;> simp only [enc, invalid] at h <;> try (cases h)
  simp only [Per.enc]

theorem pref_null : PREF .null := by
  intro v pos bits _ h
  cases v <;> simp only [enc, invalid] at h <;> try (cases h)
  simp only [Per.enc]

/-! ### INTEGER -/

theorem pref_integer (c : IntC) : PREF (.integer c) := by
  intro v pos bits hd h
  cases v <;> simp only [enc, invalid] at h <;> try (cases h)
  rename_i i
  obtain ⟨lo, hi, ext⟩ := c
  rw [devs] at hd
  unfold devsInteger at hd
  unfold encInteger at h
  simp only [Per.enc]
  cases lo with
  | none =>
    simp only at hd h ⊢
    cases ext with
    | true => simp at hd
    | false =>
      simp only [Bool.false_eq_true, if_false] at hd h ⊢
      have hk : minOctets2c i < 16384 := by
        by_cases hk : minOctets2c i ≥ 16384
        · simp [hk] at hd
        · omega
      cases hi with
      | none =>
        simp only at h ⊢
        cases h
        rw [unconstrained_true _ _ hk]
      | some ub =>
        simp only at h ⊢
        split at h
        · cases h; rw [unconstrained_true _ _ hk]
        · cases h
  | some lb =>
    cases hi with
    | none =>
      simp only at hd h ⊢
      cases ext with
      | true => simp at hd
      | false =>
        simp only [Bool.false_eq_true, if_false] at hd h ⊢
        by_cases hle : lb ≤ i
        · simp only [hle, if_true] at hd h
          cases h
          by_cases hne : (natToBytesN (minOctets (i - lb).toNat) (i - lb).toNat
              != intToBytesN (minOctets2c i) i) = true
          · simp [hne] at hd
          · simp only [hne, if_false, Bool.false_eq_true] at hd
            have hk : minOctets2c i < 16384 := by
              by_cases hk : minOctets2c i ≥ 16384
              · simp [hk] at hd
              · omega
            have heq : natToBytesN (minOctets (i - lb).toNat) (i - lb).toNat
                = intToBytesN (minOctets2c i) i := by
              simpa using hne
            unfold semiConstrained
            rw [heq]
            have := unconstrained_true pos i hk
            unfold unconstrained at this
            rw [this]
        · simp only [hle, if_false] at h
          cases h
    | some ub =>
      simp only at hd h ⊢
      cases ext with
      | false =>
        simp only [Bool.false_eq_true, if_false] at h ⊢
        by_cases hin : lb ≤ i ∧ i ≤ ub
        · simp only [hin, if_true, and_self, true_and, decide_true, Bool.true_and] at h hd ⊢
          cases h
          rw [encConstrainedInt_eq]
          intro h64
          by_cases hk : minOctets (ub - lb).toNat > 128
          · simp [h64, hk] at hd
          · omega
        · simp only [hin, if_false] at h
          cases h
      | true =>
        simp only [if_true] at h ⊢
        by_cases hin : lb ≤ i ∧ i ≤ ub
        · simp only [hin, if_true, decide_true, Bool.and_self, and_self, true_and] at h hd ⊢
          cases h
          rw [encConstrainedInt_eq]
          · rfl
          · intro h64
            by_cases hk : minOctets (ub - lb).toNat > 128
            · simp [h64, hk] at hd
            · omega
        · have hdec : (decide (lb ≤ i) && decide (i ≤ ub)) = false := by
            simp only [Bool.and_eq_false_iff, decide_eq_false_iff_not]
            by_cases h1 : lb ≤ i
            · right; intro h2; exact hin ⟨h1, h2⟩
            · left; exact h1
          simp only [hin, if_false, hdec, Bool.false_eq_true, true_and] at hd h ⊢
          cases h
          have hk : minOctets2c i < 16384 := by
            by_cases hk : minOctets2c i ≥ 16384
            · simp [hk] at hd
            · omega
          rw [unconstrained_true _ _ hk]
          simp

/-! ### ENUMERATED -/

theorem cwn_true_tiny (pos v range : Nat) (h : range ≤ 255) :
    cwn true pos v range = natToBits (bitLength (range - 1)) v := by
  rw [cwn_true_small _ _ _ (by omega)]
  unfold Per.encCwn
  rw [if_pos h]

theorem pref_enumerated (root : List (String × Int)) (ext : Option (List (String × Int))) :
    PREF (.enumerated root ext) := by
  intro v pos bits hd h
  cases v <;> simp only [enc, invalid] at h <;> try (cases h)
  rename_i name
  rw [devs] at hd
  unfold devsEnumerated at hd
  unfold encEnumerated at h
  simp only [Per.enc]
  simp only [sortAsc_eq, indexOfName_map_fst] at hd h
  have hlen : (Uper.sortByVal root).length = root.length := Uper.sortByVal_length root
  cases ext with
  | none =>
    simp only at h ⊢
    cases hi : Uper.nameIndex name (Uper.sortByVal root) with
    | none => rw [hi] at h; cases h
    | some i =>
      rw [hi] at h hd
      simp only at h hd ⊢
      cases h
      have h255 : root.length ≤ 255 := by
        by_cases hh : root.length ≥ 256
        · simp [hh] at hd
        · omega
      rw [cwn_true_tiny _ _ _ (by omega)]
  | some adds =>
    simp only at h ⊢
    cases hi : Uper.nameIndex name (Uper.sortByVal root) with
    | some i =>
      rw [hi] at h hd
      simp only at h hd ⊢
      cases h
      have h255 : root.length ≤ 255 := by
        by_cases hh : root.length ≥ 256
        · simp [hh] at hd
        · omega
      rw [cwn_true_tiny _ _ _ (by omega)]; rfl
    | none =>
      rw [hi] at h hd
      simp only at h hd ⊢
      cases hj : Uper.nameIndex name adds with
      | none => rw [hj] at h; cases h
      | some j =>
        rw [hj] at h hd
        simp only at h hd ⊢
        cases h
        unfold devsNsnnwn at hd
        have h63 : j ≤ 63 := by
          by_cases hh : j ≥ 64
          · simp [hh] at hd
          · omega
        rw [nsnnwn_true _ _ h63]
        rfl

/-! ### size-constrained types without components -/

/-- what the code writes below the extension bit for a size inside the (root of the) constraint -/
def pSized (c : SizeC) (p : Nat) (items : List Bits) (av af : Bool) : Bits :=
  match Uper.sizeBits c with
  | none => alignBits p ++ encChunked items
  | some w => Per.sizePrefix c w p items.length av af ++ items.flatten

theorem sizedM_leaf (u : Nat) (c : SizeC) (af av af' av' : Bool) (hfix : c.hi = some c.lo → af = af')
    (items : List Bits) (hu : ∀ x ∈ items, x.length = u)
    (hvar : ∀ ub, c.hi = some ub → ub < 65536 → c.lo ≠ ub → inRoot c items.length = true → av = av')
    (pos : Nat) (bits : Bits)
    (h : sizedM true leaf c.lo c.hi af av pos items = .ok bits) :
    Uper.inSize c items.length = true ∧ bits = pSized c pos items av' af' := by
  obtain ⟨hin, h1, h2⟩ := sizedM_true_inv leaf c af av af' av' hfix items hvar pos bits h
  refine ⟨hin, ?_⟩
  unfold pSized
  cases hsb : Uper.sizeBits c with
  | none =>
    have := h1 hsb
    rw [genLenM_leaf, genLen_true u _ _ hu] at this
    cases this
    rfl
  | some w =>
    obtain ⟨body, hb1, hb2⟩ := h2 w hsb
    rw [seqM_leaf] at hb1
    cases hb1
    exact hb2

/-- the code's expression for a size inside the root -/
theorem pShape (c : SizeC) (items : List Bits) (n p : Nat) (body pre : Bits) (av af : Bool)
    (hn : items.length = n) (hb : items.flatten = body) (hin : Uper.inSize c n = true) :
    (match Uper.sizeBits c with
      | none => (Except.ok (pre ++ alignBits p ++ encChunked items) : EncM Bits)
      | some w =>
        if ¬ Uper.inSize c n = true then .error .unmodelled
        else .ok (pre ++ Per.sizePrefix c w p n av af ++ body)) = .ok (pre ++ pSized c p items av af) := by
  unfold pSized
  subst hn hb
  cases Uper.sizeBits c with
  | none => simp
  | some w =>
    simp only [hin, not_true_eq_false, if_false]
    simp

theorem pShape0 (c : SizeC) (items : List Bits) (n p : Nat) (body : Bits) (av af : Bool)
    (hn : items.length = n) (hb : items.flatten = body) (hin : Uper.inSize c n = true) :
    (match Uper.sizeBits c with
      | none => (Except.ok (alignBits p ++ encChunked items) : EncM Bits)
      | some w =>
        if ¬ Uper.inSize c n = true then .error .unmodelled
        else .ok (Per.sizePrefix c w p n av af ++ body)) = .ok (pSized c p items av af) := by
  have := pShape c items n p body [] av af hn hb hin
  simp only [List.nil_append] at this
  exact this

theorem extSized_leaf_true (u : Nat) (c : SizeC) (af av af' av' : Bool) (unimpl : Bool)
    (hfix : c.hi = some c.lo → af = af')
    (items : List Bits) (hu : ∀ x ∈ items, x.length = u)
    (hvar : ∀ ub, c.hi = some ub → ub < 65536 → c.lo ≠ ub → inRoot c items.length = true → av = av')
    (pos : Nat) (bits : Bits)
    (hd : devsSize c items.length unimpl = [])
    (h : extSizedM true leaf c af av pos items = .ok bits) :
    (c.ext = true ∧ Per.extRange c items.length = .outside ∧ unimpl = false ∧
      bits = [true] ++ alignBits (pos + 1) ++ (lenDet items.length).1 ++ items.flatten) ∨
    (c.ext = true ∧ Per.extRange c items.length = .inside ∧ Uper.inSize c items.length = true ∧
      bits = [false] ++ pSized c (pos + 1) items av' af') ∨
    (c.ext = false ∧ Uper.inSize c items.length = true ∧ bits = pSized c pos items av' af') := by
  have hdv := devsSize_nil _ _ _ hd
  rcases extSizedM_true_inv leaf c af av items pos bits h with
    ⟨hext, hin, b, hb1, hb2⟩ | ⟨hext, hin, b, hb1, hb2⟩ | ⟨hext, hb⟩
  · obtain ⟨hhi, hout⟩ := hdv hext
    obtain ⟨ub, hub⟩ : ∃ ub, c.hi = some ub := by
      cases hc : c.hi with
      | none => rw [hc] at hhi; cases hhi
      | some ub => exact ⟨ub, rfl⟩
    rw [inRoot_eq_inSize] at hin
    obtain ⟨hun, hlt⟩ := hout hin
    rw [← inRoot_eq_inSize] at hin
    refine Or.inl ⟨hext, inRoot_outside c _ ub hub hin, hun, ?_⟩
    rw [genLenM_leaf, genLen_true u _ _ hu, encChunked_small _ hlt] at hb1
    cases hb1
    rw [hb2]
    simp
  · obtain ⟨hhi, _⟩ := hdv hext
    obtain ⟨ub, hub⟩ : ∃ ub, c.hi = some ub := by
      cases hc : c.hi with
      | none => rw [hc] at hhi; cases hhi
      | some ub => exact ⟨ub, rfl⟩
    obtain ⟨hin', hbits⟩ := sizedM_leaf u c af av af' av' hfix items hu hvar _ _ hb1
    refine Or.inr (Or.inl ⟨hext, inRoot_inside c _ ub hub hin, hin', ?_⟩)
    rw [hb2, hbits]; rfl
  · obtain ⟨hin', hbits⟩ := sizedM_leaf u c af av af' av' hfix items hu hvar _ _ hb
    exact Or.inr (Or.inr ⟨hext, hin', hbits⟩)

theorem pref_octetString (c : SizeC) : PREF (.octetString c) := by
  intro v pos bits hd h
  cases v <;> simp only [enc, invalid] at h <;> try (cases h)
  rename_i data
  rw [devs] at hd
  unfold encOctetString at h
  split at h
  case isFalse => cases h
  simp only [Per.enc]
  have hfix : c.hi = some c.lo → decide (c.hi.getD 0 > 2) = decide (c.lo > 2) := by
    intro hh; rw [hh]; rfl
  have hlen : (data.map (natToBits 8)).length = data.length := by simp
  rw [← hlen] at hd
  rcases extSized_leaf_true 8 c _ true _ true false hfix _ (uniform_map_natToBits 8 data)
      (fun _ _ _ _ _ => rfl) pos bits hd h with
    ⟨hext, hr, _, hb⟩ | ⟨hext, hr, hin, hb⟩ | ⟨hext, hin, hb⟩
  · rw [hlen] at hr hb
    rw [flatten_map_natToBits8] at hb
    simp only [hext, if_true, hr, hb]
  · rw [hlen] at hr hin
    simp only [hext, if_true, hr]
    rw [hb]
    exact pShape c _ data.length _ _ _ _ _ hlen (flatten_map_natToBits8 data) hin
  · rw [hlen] at hin
    simp only [hext, Bool.false_eq_true, if_false]
    rw [hb]
    have := pShape c _ data.length pos _ [] true (decide (c.lo > 2)) hlen (flatten_map_natToBits8 data) hin
    simp only [List.nil_append] at this
    exact this

theorem pref_bitString (c : SizeC) : PREF (.bitString c) := by
  intro v pos bits hd h
  cases v <;> simp only [enc, invalid] at h <;> try (cases h)
  rename_i data n
  rw [devs] at hd
  unfold encBitString at h
  split at h
  case isFalse => cases h
  rename_i hn
  simp only [Per.enc, Uper.takeBits, if_pos hn]
  have hfix : c.hi = some c.lo → decide (c.hi.getD 0 > 16) = decide (c.lo > 16) := by
    intro hh; rw [hh]; rfl
  have hlen : (((bytesToBits data).take n).map fun b => [b]).length = n := by
    rw [List.length_map, List.length_take, bytesToBits_length]; omega
  rw [← hlen] at hd
  rcases extSized_leaf_true 1 c _ true _ true true hfix _ (uniform_map_singleton _)
      (fun _ _ _ _ _ => rfl) pos bits hd h with
    ⟨_, _, hf, _⟩ | ⟨hext, hr, hin, hb⟩ | ⟨hext, hin, hb⟩
  · cases hf
  · rw [hlen] at hr hin
    simp only [hext, if_true, hr]
    rw [hb]
    exact pShape c _ n _ _ _ _ _ hlen (flatten_map_singleton _) hin
  · rw [hlen] at hin
    simp only [hext, Bool.false_eq_true, if_false]
    rw [hb]
    have := pShape c _ n pos _ [] true (decide (c.lo > 16)) hlen (flatten_map_singleton _) hin
    simp only [List.nil_append] at this
    exact this

/-! ### character strings -/

theorem pref_utf8 (c : SizeC) : PREF (.charString .utf8 c) := by
  intro v pos bits hd h
  cases v <;> simp only [enc, invalid] at h <;> try (cases h)
  rename_i cps
  unfold encUtf8 at h
  split at h
  case isFalse => cases h
  rename_i hall
  cases h
  simp only [Per.enc]
  have hany : cps.any (fun cp => decide (0xd800 ≤ cp) && decide (cp < 0xe000)) = false := by
    rw [List.any_eq_false]
    intro x hx
    have := List.all_eq_true.mp hall x hx
    simp only [Bool.and_eq_true, decide_eq_true_eq, Bool.not_eq_true'] at this
    simp only [Bool.and_eq_true, decide_eq_true_eq]
    intro hh
    have h2 := this.2
    simp only [Bool.and_eq_false_iff, decide_eq_false_iff_not] at h2
    omega
  unfold Per.utf8Bytes
  rw [hany]
  simp only [Bool.false_eq_true, if_false]
  rw [lenOctets_true]

theorem charBits_true (k : StrKind) (hk : k ≠ .utf8) : charBits true k = Per.bitsPerChar k := by
  cases k <;> first | (exact absurd rfl hk) | decide +kernel

theorem charValue_true_small (k : StrKind) (hk : k ≠ .utf8) :
    ∀ cp, cp < 128 → charValue true k cp = Per.charCode k cp := by
  cases k <;> first | (exact absurd rfl hk) | decide +kernel

theorem charValue_true (k : StrKind) (hk : k ≠ .utf8) (cp v : Nat)
    (h : charValue true k cp = .ok v) : Per.charCode k cp = .ok v := by
  have hlt : cp < 128 := by
    unfold charValue at h
    by_cases hc : (alphabet k).contains cp = true
    · exact alphabet_lt k cp (by simpa using hc)
    · simp only [hc, if_false, Bool.false_eq_true, invalid] at h
      cases h
  rw [← charValue_true_small k hk cp hlt]; exact h

theorem knownMultiplier_true (k : StrKind) (hk : k ≠ .utf8) (c : SizeC) (pos : Nat) (cps : List Nat)
    (bits : Bits) (hd : devsKnownMultiplier true k c cps.length = [])
    (h : encKnownMultiplier true k c pos cps = .ok bits) :
    ∃ codes, cps.mapM (Per.charCode k) = .ok codes ∧
      (codes.map (natToBits (Per.bitsPerChar k))).length = cps.length ∧
      ((c.ext = true ∧ Per.extRange c cps.length = .inside ∧ Uper.inSize c cps.length = true ∧
          bits = [false] ++ pSized c (pos + 1) (codes.map (natToBits (Per.bitsPerChar k)))
            (decide (c.hi.getD 0 > 1 ∧ cps.length > 0))
            (decide (c.hi.getD 0 * Per.bitsPerChar k > 16))) ∨
       (c.ext = false ∧ Uper.inSize c cps.length = true ∧
          bits = pSized c pos (codes.map (natToBits (Per.bitsPerChar k)))
            (decide (c.hi.getD 0 > 1 ∧ cps.length > 0))
            (decide (c.hi.getD 0 * Per.bitsPerChar k > 16)))) := by
  unfold devsKnownMultiplier at hd
  obtain ⟨hd1, hd2⟩ := List.append_eq_nil_iff.mp hd
  unfold encKnownMultiplier at h
  cases hm : cps.mapM (charValue true k) with
  | error e => rw [hm] at h; cases h
  | ok vals =>
    rw [hm] at h
    simp only at h
    have hm' := mapM_congr_ok _ (Per.charCode k) cps vals
      (fun a _ b hb => charValue_true k hk a b hb) hm
    rw [charBits_true k hk] at h hd2
    have hlen : (vals.map (natToBits (Per.bitsPerChar k))).length = cps.length := by
      rw [List.length_map]; exact mapM_length' _ _ _ hm
    refine ⟨vals, hm', hlen, ?_⟩
    rw [← hlen] at hd1
    have hvar : ∀ ub, c.hi = some ub → ub < 65536 → c.lo ≠ ub →
        inRoot c (vals.map (natToBits (Per.bitsPerChar k))).length = true →
        strAlignVar (c.hi.getD 0) (Per.bitsPerChar k) =
          decide (c.hi.getD 0 > 1 ∧ cps.length > 0) := by
      intro ub hub h64 hne hin
      rw [hlen] at hin
      rw [hub] at hd2 ⊢
      simp only [true_and, Option.getD_some] at hd2 ⊢
      rw [if_pos ⟨h64, hne, hin⟩] at hd2
      by_cases hx : (strAlignVar ub (Per.bitsPerChar k) != (decide (ub > 1) && decide (cps.length > 0))) = true
      · rw [if_pos hx] at hd2
        split at hd2 <;> cases hd2
      · simp only [bne_iff_ne, ne_eq, Decidable.not_not] at hx
        rw [hx, Bool.decide_and]
    rcases extSized_leaf_true (Per.bitsPerChar k) c _ _ _ _ true (fun _ => rfl) _
        (uniform_map_natToBits _ vals) hvar pos bits hd1 h with
      ⟨_, _, hf, _⟩ | ⟨hext, hr, hin, hb⟩ | ⟨hext, hin, hb⟩
    · cases hf
    · rw [hlen] at hr hin
      exact Or.inl ⟨hext, hr, hin, hb⟩
    · rw [hlen] at hin
      exact Or.inr ⟨hext, hin, hb⟩

theorem pref_knownMultiplier (k : StrKind) (hk : k ≠ .utf8) (c : SizeC) : PREF (.charString k c) := by
  intro v pos bits hd h
  cases k with
  | utf8 => exact absurd rfl hk
  | _ =>
    cases v <;> simp only [enc, invalid] at h <;> try (cases h)
    rename_i cps
    simp only [devs] at hd
    simp only [Per.enc]
    obtain ⟨codes, hcodes, hlen, hcase⟩ := knownMultiplier_true _ hk c pos cps bits hd h
    rw [hcodes]
    simp only
    rcases hcase with ⟨hext, hr, hin, hb⟩ | ⟨hext, hin, hb⟩
    · simp only [hext, if_true, hr]
      rw [hb]
      exact pShape c _ cps.length _ _ _ _ _ hlen rfl hin
    · simp only [hext, Bool.false_eq_true, if_false]
      rw [hb]
      exact pShape0 c _ cps.length pos _ _ _ hlen rfl hin

theorem pref_charString (k : StrKind) (c : SizeC) : PREF (.charString k c) := by
  by_cases hk : k = .utf8
  · subst hk; exact pref_utf8 c
  · exact pref_knownMultiplier k hk c

end Asn1.X691
