import Asn1Proofs.Lemmas.CCursorBits2
/-
  C09, functional part (continued): B3 (`writeBytes`: aligned `memcpy` branch and unaligned loop;
  `bytesU16/32/64`).
-/
set_option linter.unusedSimpArgs false
namespace Asn1.CCursor
open Asn1

/-! ### bytes as bit strings -/

theorem bytesToBits_append' (a b : Bytes) : bytesToBits (a ++ b) = bytesToBits a ++ bytesToBits b := by
  simp [bytesToBits]

theorem bytesToBits_singleton (b : Nat) : bytesToBits [b] = natToBits 8 b := by
  simp [bytesToBits]

/-- if the `i`-th group of eight bits after `p` is byte `f i`, the `8 * n` bits after `p` are the
bytes `f 0 .. f (n - 1)` -/
theorem bitsFrom_of_bytes (m : Mem) (p : Nat) (f : Nat → Nat) :
    ∀ n, (∀ i, i < n → bitsFrom m (p + 8 * i) 8 = natToBits 8 (f i)) →
      bitsFrom m p (8 * n) = bytesToBits ((List.range n).map f) := by
  intro n
  induction n with
  | zero => intro _; rfl
  | succ n ih =>
    intro h
    have e : 8 * (n + 1) = 8 * n + 8 := by omega
    rw [e, bitsFrom_add, ih (fun i hi => h i (by omega)), h n (by omega), List.range_succ,
      List.map_append, bytesToBits_append']
    rfl

/-! ### `pureMemcpy` -/

theorem pureMemcpy_spec (src : Mem) :
    ∀ (n : Nat) (dst : Mem) (dOff sOff : Nat), dOff + n ≤ dst.size →
      (pureMemcpy src n dst dOff sOff).size = dst.size
      ∧ (∀ i, i < n → (pureMemcpy src n dst dOff sOff)[dOff + i]! = src[sOff + i]!)
      ∧ (∀ j, j < dOff ∨ dOff + n ≤ j → (pureMemcpy src n dst dOff sOff)[j]! = dst[j]!) := by
  intro n
  induction n with
  | zero => intro dst dOff sOff _; simp [pureMemcpy]
  | succ n ih =>
    intro dst dOff sOff hsz
    simp only [pureMemcpy]
    obtain ⟨h1, h2, h3⟩ := ih (dst.set! dOff src[sOff]!) (dOff + 1) (sOff + 1)
      (by rw [size_set!]; omega)
    refine ⟨by rw [h1, size_set!], ?_, ?_⟩
    · intro i hi
      cases i with
      | zero =>
        show (pureMemcpy src n (dst.set! dOff src[sOff]!) (dOff + 1) (sOff + 1))[dOff]! = src[sOff]!
        rw [h3 dOff (by omega), get_set!_same _ _ _ (by omega)]
      | succ i =>
        have := h2 i (by omega)
        rw [show dOff + 1 + i = dOff + (i + 1) by omega,
          show sOff + 1 + i = sOff + (i + 1) by omega] at this
        exact this
    · intro j hj
      rw [h3 j (by omega), get_set!_ne _ _ _ _ (by omega)]

/-! ### one iteration of the unaligned loop of `encoder_append_bytes` -/

/-- writing the byte `b` at the unaligned bit position `P` -/
def putByte (buf : Mem) (P : Nat) (b : UInt8) : Mem :=
  (buf.set! (P / 8) (buf[P / 8]! ||| UInt8.ofNat (b.toNat >>> (P % 8)))).set! (P / 8 + 1)
    (UInt8.ofNat (b.toNat <<< (8 - P % 8)))

theorem putByte_size (buf : Mem) (P : Nat) (b : UInt8) : (putByte buf P b).size = buf.size := by
  simp [putByte]

theorem putByte_other (buf : Mem) (P : Nat) (b : UInt8) (j : Nat) (h1 : j ≠ P / 8)
    (h2 : j ≠ P / 8 + 1) : (putByte buf P b)[j]! = buf[j]! := by
  unfold putByte
  rw [get_set!_ne _ _ _ _ (Ne.symm h2), get_set!_ne _ _ _ _ (Ne.symm h1)]

theorem putByte_lo (buf : Mem) (P : Nat) (b : UInt8) (hsz : P / 8 + 1 < buf.size) :
    (putByte buf P b)[P / 8]! = buf[P / 8]! ||| UInt8.ofNat (b.toNat >>> (P % 8)) := by
  unfold putByte
  rw [get_set!_ne _ _ _ _ (by omega), get_set!_same _ _ _ (by omega)]

theorem putByte_hi (buf : Mem) (P : Nat) (b : UInt8) (hsz : P / 8 + 1 < buf.size) :
    (putByte buf P b)[P / 8 + 1]! = UInt8.ofNat (b.toNat <<< (8 - P % 8)) := by
  unfold putByte
  rw [get_set!_same _ _ _ (by rw [size_set!]; omega)]

theorem putByte_spec (buf : Mem) (P : Nat) (b : UInt8) (hP : P % 8 ≠ 0)
    (hsz : P / 8 + 1 < buf.size) (hpad : Padded buf P) :
    (∀ q, q < P → getBit (putByte buf P b) q = getBit buf q)
    ∧ bitsFrom (putByte buf P b) P 8 = natToBits 8 b.toNat
    ∧ Padded (putByte buf P b) (P + 8) := by
  have hb := b.toNat_lt
  -- bits in the low byte
  have hlo : ∀ q, q / 8 = P / 8 →
      getBit (putByte buf P b) q = (getBit buf q || b.toNat.testBit (P % 8 + (7 - q % 8))) := by
    intro q hq
    rw [getBit_def, hq, putByte_lo buf P b hsz, UInt8.toNat_or, Nat.testBit_or, UInt8.toNat_ofNat',
      Nat.testBit_mod_two_pow, Nat.testBit_shiftRight, getBit_def, hq]
    have : decide (7 - q % 8 < 8) = true := by simp; omega
    rw [this, Bool.true_and]
  -- bits in the high byte
  have hhi : ∀ q, q / 8 = P / 8 + 1 →
      getBit (putByte buf P b) q
        = (decide (7 - q % 8 ≥ 8 - P % 8) && b.toNat.testBit (7 - q % 8 - (8 - P % 8))) := by
    intro q hq
    rw [getBit_def, hq, putByte_hi buf P b hsz, UInt8.toNat_ofNat', Nat.testBit_mod_two_pow,
      Nat.testBit_shiftLeft]
    have : decide (7 - q % 8 < 8) = true := by simp; omega
    rw [this, Bool.true_and]
  refine ⟨?_, ?_, ?_⟩
  · intro q hq
    by_cases h8 : q / 8 = P / 8
    · rw [hlo q h8, byte_testBit_ge b _ (by omega), Bool.or_false]
    · exact getBit_congr_byte (putByte_other buf P b _ h8 (by omega))
  · apply List.ext_getElem
    · simp
    · intro k h1 h2
      have hk : k < 8 := by simpa using h1
      rw [bitsFrom_getElem, natToBits_getElem]
      by_cases h8 : (P + k) / 8 = P / 8
      · rw [hlo _ h8, hpad (P + k) (by omega) (by omega), Bool.false_or]
        congr 1; omega
      · have h9 : (P + k) / 8 = P / 8 + 1 := by omega
        rw [hhi _ h9]
        have : decide (7 - (P + k) % 8 ≥ 8 - P % 8) = true := by simp; omega
        rw [this, Bool.true_and]
        congr 1; omega
  · intro q h1 h2
    have h9 : q / 8 = P / 8 + 1 := by omega
    rw [hhi _ h9]
    have : decide (7 - q % 8 ≥ 8 - P % 8) = false := by simp; omega
    rw [this, Bool.false_and]

/-! ### the unaligned loop -/

theorem pureAppendBytesLoop_succ (src : Mem) (bytePos pib n i : Nat) (buf : Mem) (h8 : pib < 8) :
    pureAppendBytesLoop src bytePos pib (n + 1) i buf
      = pureAppendBytesLoop src bytePos pib n (i + 1) (putByte buf (8 * (bytePos + i) + pib) src[i]!) := by
  have e1 : (8 * (bytePos + i) + pib) / 8 = bytePos + i := by omega
  have e2 : (8 * (bytePos + i) + pib) % 8 = pib := by omega
  simp only [pureAppendBytesLoop, putByte, e1, e2]

theorem pureAppendBytesLoop_spec (src : Mem) (bytePos pib : Nat) (h0 : 0 < pib) (h8 : pib < 8) :
    ∀ (n i : Nat) (buf : Mem), bytePos + i + n < buf.size → Padded buf (8 * (bytePos + i) + pib) →
      (∀ q, q < 8 * (bytePos + i) + pib →
        getBit (pureAppendBytesLoop src bytePos pib n i buf) q = getBit buf q)
      ∧ (∀ k, k < n → bitsFrom (pureAppendBytesLoop src bytePos pib n i buf)
            (8 * (bytePos + i) + pib + 8 * k) 8 = natToBits 8 src[i + k]!.toNat)
      ∧ Padded (pureAppendBytesLoop src bytePos pib n i buf) (8 * (bytePos + i) + pib + 8 * n)
      ∧ (pureAppendBytesLoop src bytePos pib n i buf).size = buf.size
      ∧ (∀ j, j < bytePos + i ∨ bytePos + i + n < j →
          (pureAppendBytesLoop src bytePos pib n i buf)[j]! = buf[j]!) := by
  intro n
  induction n with
  | zero =>
    intro i buf _ hpad
    simp [pureAppendBytesLoop, hpad]
  | succ n ih =>
    intro i buf hsz hpad
    rw [pureAppendBytesLoop_succ _ _ _ _ _ _ h8]
    generalize hP : 8 * (bytePos + i) + pib = P at *
    have e1 : P / 8 = bytePos + i := by omega
    have e2 : P % 8 ≠ 0 := by omega
    obtain ⟨p1, p2, p3⟩ := putByte_spec buf P src[i]! e2 (by omega) hpad
    have hP' : 8 * (bytePos + (i + 1)) + pib = P + 8 := by omega
    obtain ⟨q1, q2, q3, q4, q5⟩ := ih (i + 1) (putByte buf P src[i]!)
      (by rw [putByte_size]; omega) (by rw [hP']; exact p3)
    rw [hP'] at q1 q2 q3
    refine ⟨?_, ?_, ?_, by rw [q4, putByte_size], ?_⟩
    · intro q hq
      rw [q1 q (by omega), p1 q hq]
    · intro k hk
      cases k with
      | zero =>
        show bitsFrom _ P 8 = natToBits 8 src[i]!.toNat
        rw [← p2]
        apply bitsFrom_congr
        intro t ht
        exact q1 _ (by omega)
      | succ k =>
        have := q2 k (by omega)
        rw [show P + 8 + 8 * k = P + 8 * (k + 1) by omega,
          show i + 1 + k = i + (k + 1) by omega] at this
        exact this
    · rw [show P + 8 * (n + 1) = P + 8 + 8 * n by omega]; exact q3
    · intro j hj
      rw [q5 j (by omega), putByte_other buf P _ j (by omega) (by omega)]

/-! ### B3: `writeBytes` -/

/-- the appended bytes, read back groupwise; everything before `p` is untouched -/
theorem writeBytes_groups (buf : Mem) (p : Nat) (src : Mem) (n : Nat)
    (hsz : (p + 8 * n + 7) / 8 ≤ buf.size) (hpad : Padded buf p) :
    (∀ q, q < p → getBit (writeBytes buf p src n) q = getBit buf q)
    ∧ (∀ k, k < n → bitsFrom (writeBytes buf p src n) (p + 8 * k) 8 = natToBits 8 src[k]!.toNat)
    ∧ Padded (writeBytes buf p src n) (p + 8 * n)
    ∧ (writeBytes buf p src n).size = buf.size
    ∧ (∀ j, j < p / 8 ∨ (p + 8 * n + 7) / 8 ≤ j → (writeBytes buf p src n)[j]! = buf[j]!) := by
  unfold writeBytes
  by_cases hal : p % 8 = 0
  · rw [if_pos hal]
    obtain ⟨h1, h2, h3⟩ := pureMemcpy_spec src n buf (p / 8) 0 (by omega)
    refine ⟨?_, ?_, padded_aligned _ _ (by omega), h1, ?_⟩
    · intro q hq
      exact getBit_congr_byte (h3 _ (by omega))
    · intro k hk
      have e : p + 8 * k = 8 * (p / 8 + k) := by omega
      rw [e, bitsFrom_byte, h2 k hk, Nat.zero_add]
    · intro j hj
      exact h3 j (by omega)
  · rw [if_neg hal]
    have hp : 8 * (p / 8 + 0) + p % 8 = p := by omega
    by_cases hn : n = 0
    · subst hn
      simp [pureAppendBytesLoop, hpad]
    · obtain ⟨h1, h2, h3, h4, h5⟩ := pureAppendBytesLoop_spec src (p / 8) (p % 8) (by omega)
        (by omega) n 0 buf (by omega) (by rw [hp]; exact hpad)
      rw [hp] at h1 h2 h3
      refine ⟨h1, ?_, h3, h4, ?_⟩
      · intro k hk
        have := h2 k hk
        rw [Nat.zero_add] at this
        exact this
      · intro j hj
        exact h5 j (by omega)

/-- B3: `encoder_append_bytes(src, n)` appends the bits of the first `n` bytes of `src` -/
theorem writeBytes_spec (buf : Mem) (p : Nat) (src : Mem) (n : Nat) (hn : n ≤ src.size)
    (hsz : (p + 8 * n + 7) / 8 ≤ buf.size) (hpad : Padded buf p) :
    bitsFrom (writeBytes buf p src n) 0 (p + 8 * n)
        = bitsFrom buf 0 p ++ bytesToBits ((src.toList.take n).map UInt8.toNat)
    ∧ Padded (writeBytes buf p src n) (p + 8 * n)
    ∧ (writeBytes buf p src n).size = buf.size := by
  obtain ⟨h1, h2, h3, h4, _⟩ := writeBytes_groups buf p src n hsz hpad
  refine ⟨?_, h3, h4⟩
  rw [bitsFrom_add, Nat.zero_add, bytes_take_eq src n hn,
    bitsFrom_of_bytes _ p (fun i => src[i]!.toNat) n h2]
  congr 1
  apply bitsFrom_congr
  intro k hk
  simp only [Nat.zero_add]
  exact h1 k hk

/-! ### the byte strings of `encoder_append_uint8/16/32/64` -/

theorem bytesToBits_u8 (v : UInt8) : bytesToBits ((#[v] : Mem).toList.map UInt8.toNat) = natToBits 8 v.toNat := by
  simp [bytesToBits]

theorem bytesToBits_bytesU16 (v : UInt16) :
    bytesToBits ((bytesU16 v).toList.map UInt8.toNat) = natToBits 16 v.toNat := by
  simp only [bytesU16, List.map_cons, List.map_nil, UInt8.toNat_ofNat', bytesToBits,
    List.flatMap_cons, List.flatMap_nil, List.append_nil]
  rw [natToBits_mod, natToBits_mod, Nat.shiftRight_eq_div_pow]
  exact (natToBits_add 8 8 v.toNat).symm

theorem bytesToBits_bytesU32 (v : UInt32) :
    bytesToBits ((bytesU32 v).toList.map UInt8.toNat) = natToBits 32 v.toNat := by
  simp only [bytesU32, List.map_cons, List.map_nil, UInt32.toNat_toUInt8, UInt32.toNat_shiftRight,
    bytesToBits, List.flatMap_cons, List.flatMap_nil, List.append_nil]
  simp only [natToBits_mod, Nat.shiftRight_eq_div_pow]
  rw [show (32 : Nat) = 8 + 8 + 8 + 8 from rfl, natToBits_add, natToBits_add, natToBits_add]
  simp only [Nat.div_div_eq_div_mul, List.append_assoc]
  rfl

theorem bytesToBits_bytesU64 (v : UInt64) :
    bytesToBits ((bytesU64 v).toList.map UInt8.toNat) = natToBits 64 v.toNat := by
  simp only [bytesU64, List.map_cons, List.map_nil, UInt64.toNat_toUInt8, UInt64.toNat_shiftRight,
    bytesToBits, List.flatMap_cons, List.flatMap_nil, List.append_nil]
  simp only [natToBits_mod, Nat.shiftRight_eq_div_pow]
  rw [show (64 : Nat) = 8 + 8 + 8 + 8 + 8 + 8 + 8 + 8 from rfl, natToBits_add, natToBits_add,
    natToBits_add, natToBits_add, natToBits_add, natToBits_add, natToBits_add]
  simp only [Nat.div_div_eq_div_mul, List.append_assoc]
  rfl

end Asn1.CCursor
