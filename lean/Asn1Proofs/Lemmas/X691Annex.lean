import Asn1Model.X691
import Asn1Model.Per
/-
  The worked examples of X.691 Annex A (ASN.1 sources: /repo/tests/files/x691_a1.asn, x691_a4.asn;
  expected octets: the Recommendation, also in /repo/tests/test_per.py / test_uper.py) written in the
  type/value universe of Schema.lean.  Types that the universe lacks are inlined:
  * type references are expanded;
  * a SET is written as the SEQUENCE of its components in canonical tag order (X.691 20: "encoded as
    if it were a sequence type" after sorting by tag): A.1 `PersonnelRecord` = name [APPLICATION 1],
    number [APPLICATION 2], title [0], dateOfHire [1], nameOfSpouse [2], children [3];
  * A.4: the extension addition group `[[ g, h ]]` is one addition of type SEQUENCE { g, h } (X.691
    18.9 encodes a group exactly so), the version brackets inside the CHOICE only group alternatives,
    and the absent `i BMPString OPTIONAL` is given a type of the universe.
  A.2 and A.3 need permitted-alphabet (FROM) constraints, which the universe does not have.
-/
namespace Asn1.X691.Annex
open Asn1

def vis : Ty := .charString .visible ⟨0, none, false⟩

def nameTy : Ty :=
  .sequence (.cons "givenName" .mandatory vis (.cons "initial" .mandatory vis
    (.cons "familyName" .mandatory vis .nil))) false .nil

def childTy : Ty :=
  .sequence (.cons "name" .mandatory nameTy (.cons "dateOfBirth" .mandatory vis .nil)) false .nil

/-- A.1.1 `PersonnelRecord` -/
def a1Ty : Ty :=
  .sequence
    (.cons "name" .mandatory nameTy
    (.cons "number" .mandatory (.integer ⟨none, none, false⟩)
    (.cons "title" .mandatory vis
    (.cons "dateOfHire" .mandatory vis
    (.cons "nameOfSpouse" .mandatory nameTy
    (.cons "children" (.default (.list [])) (.sequenceOf childTy ⟨0, none, false⟩) .nil))))))
    false .nil

def mkName (g i f : List Nat) : Val :=
  .record [("givenName", .str g), ("initial", .str i), ("familyName", .str f)]

/-- A.1.2: John P Smith, Director, 51, 19710917, Mary T Smith, Ralph T Smith 19571111,
Susan B Jones 19590717 -/
def a1Val : Val :=
  .record [
    ("name", mkName [74, 111, 104, 110] [80] [83, 109, 105, 116, 104]),
    ("number", .int 51),
    ("title", .str [68, 105, 114, 101, 99, 116, 111, 114]),
    ("dateOfHire", .str [49, 57, 55, 49, 48, 57, 49, 55]),
    ("nameOfSpouse", mkName [77, 97, 114, 121] [84] [83, 109, 105, 116, 104]),
    ("children", .list [
      .record [("name", mkName [82, 97, 108, 112, 104] [84] [83, 109, 105, 116, 104]),
               ("dateOfBirth", .str [49, 57, 53, 55, 49, 49, 49, 49])],
      .record [("name", mkName [83, 117, 115, 97, 110] [66] [74, 111, 110, 101, 115]),
               ("dateOfBirth", .str [49, 57, 53, 57, 48, 55, 49, 55])]])]

/-- A.1.3 ALIGNED PER representation (94 octets) -/
def a1Aligned : Bytes :=
  [0x80, 0x04, 0x4a, 0x6f, 0x68, 0x6e, 0x01, 0x50, 0x05, 0x53, 0x6d, 0x69, 0x74, 0x68, 0x01, 0x33,
   0x08, 0x44, 0x69, 0x72, 0x65, 0x63, 0x74, 0x6f, 0x72, 0x08, 0x31, 0x39, 0x37, 0x31, 0x30, 0x39,
   0x31, 0x37, 0x04, 0x4d, 0x61, 0x72, 0x79, 0x01, 0x54, 0x05, 0x53, 0x6d, 0x69, 0x74, 0x68, 0x02,
   0x05, 0x52, 0x61, 0x6c, 0x70, 0x68, 0x01, 0x54, 0x05, 0x53, 0x6d, 0x69, 0x74, 0x68, 0x08, 0x31,
   0x39, 0x35, 0x37, 0x31, 0x31, 0x31, 0x31, 0x05, 0x53, 0x75, 0x73, 0x61, 0x6e, 0x01, 0x42, 0x05,
   0x4a, 0x6f, 0x6e, 0x65, 0x73, 0x08, 0x31, 0x39, 0x35, 0x39, 0x30, 0x37, 0x31, 0x37]

/-- A.1.4 UNALIGNED PER representation (84 octets) -/
def a1Unaligned : Bytes :=
  [0x82, 0x4a, 0xdf, 0xa3, 0x70, 0x0d, 0x00, 0x5a, 0x7b, 0x74, 0xf4, 0xd0, 0x02, 0x66, 0x11, 0x13,
   0x4f, 0x2c, 0xb8, 0xfa, 0x6f, 0xe4, 0x10, 0xc5, 0xcb, 0x76, 0x2c, 0x1c, 0xb1, 0x6e, 0x09, 0x37,
   0x0f, 0x2f, 0x20, 0x35, 0x01, 0x69, 0xed, 0xd3, 0xd3, 0x40, 0x10, 0x2d, 0x2c, 0x3b, 0x38, 0x68,
   0x01, 0xa8, 0x0b, 0x4f, 0x6e, 0x9e, 0x9a, 0x02, 0x18, 0xb9, 0x6a, 0xdd, 0x8b, 0x16, 0x2c, 0x41,
   0x69, 0xf5, 0xe7, 0x87, 0x70, 0x0c, 0x20, 0x59, 0x5b, 0xf7, 0x65, 0xe6, 0x10, 0xc5, 0xcb, 0x57,
   0x2c, 0x1b, 0xb1, 0x6e]

/-- A.4.1 `Ax` -/
def a4Ty : Ty :=
  .sequence
    (.cons "a" .mandatory (.integer ⟨some 250, some 253, false⟩)
    (.cons "b" .mandatory .boolean
    (.cons "c" .mandatory
      (.choice (.cons "d" (.integer ⟨none, none, false⟩) .nil) true
               (.cons "e" .boolean (.cons "f" (.charString .ia5 ⟨0, none, false⟩) .nil)))
    (.cons "i" .optional (.charString .ia5 ⟨0, none, false⟩)
    (.cons "j" .optional (.charString .printable ⟨0, none, false⟩) .nil)))))
    true
    (.cons "gh" .mandatory
      (.sequence (.cons "g" .mandatory (.charString .numeric ⟨3, some 3, false⟩)
                 (.cons "h" .optional .boolean .nil)) false .nil) .nil)

/-- A.4.2: `{ a 253, b TRUE, c e : TRUE, g "123", h TRUE }` -/
def a4Val : Val :=
  .record [("a", .int 253), ("b", .bool true), ("c", .choice "e" (.bool true)),
           ("gh", .record [("g", .str [49, 50, 51]), ("h", .bool true)])]

/-- A.4.3 ALIGNED PER representation -/
def a4Aligned : Bytes := [0x9e, 0x00, 0x01, 0x80, 0x01, 0x02, 0x91, 0xa4]

/-- A.4.4 UNALIGNED PER representation -/
def a4Unaligned : Bytes := [0x9e, 0x00, 0x06, 0x00, 0x04, 0x0a, 0x46, 0x90]

end Asn1.X691.Annex
