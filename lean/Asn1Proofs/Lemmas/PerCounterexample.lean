import Asn1Proofs.Lemmas.PerRoundtrip
/-
  The hypothesis `Per.fragFree` of `Per.roundtrip_partial` is necessary: a machine-checked input on
  which the aligned PER code model (like the real codec) does not round-trip.

  `OCTET STRING (SIZE(0, ...))` with 16385 octets lies outside the extension root, so the code calls
  `append_length_determinant(16385)` directly; that writes the fragment marker `0xc1` ("16384 items
  follow, more fragments after them") and then ALL 16385 octets.  The decoder takes 16384 octets and
  leaves the last one unread.  The witness is handled symbolically (kernel evaluation of 131 000-bit
  lists is too slow).
-/
set_option linter.unusedSimpArgs false
namespace Asn1.Per
open Asn1.Uper (lenDet)

def cxTy : Ty := .octetString ⟨0, some 0, true⟩
def cxData : Bytes := List.replicate 16385 0
def cxVal : Val := .bytes cxData
def cxBits : Bits := [true] ++ alignBits 1 ++ natToBits 8 0xc1 ++ bytesToBits cxData

theorem cxData_length : cxData.length = 16385 := List.length_replicate ..

theorem cxData_split : bytesToBits cxData = bytesToBits (List.replicate 16384 0) ++ natToBits 8 0 := by
  have : cxData = List.replicate 16384 0 ++ [0] := by
    unfold cxData
    rw [show (16385 : Nat) = 16384 + 1 from rfl, List.replicate_succ']
  rw [this, bytesToBits_append]
  rfl

theorem cx_lenDet : lenDet 16385 = (natToBits 8 0xc1, 16384) := by
  simp [lenDet]

theorem cx_wf : cxTy.wf = true := by decide
theorem cx_defaultsOk : cxTy.defaultsOk = true := by decide
theorem cx_nsOk : cxTy.nsOk = true := by decide

theorem cx_hasType : hasType cxTy cxVal = true := by
  simp only [cxTy, cxVal, hasType, Bool.true_or, Bool.and_true, Uper.allBytes_iff]
  intro b hb
  rw [List.eq_of_mem_replicate hb]
  omega

theorem cx_not_fragFree : fragFree cxTy cxVal = false := by
  simp only [cxTy, cxVal, fragFree, cxData_length, Uper.inSize, Uper.smallLen]
  decide

theorem cx_enc (pos : Nat) (h : pos % 8 = 0) : enc cxTy pos cxVal = .ok cxBits := by
  have hal : alignBits (pos + 1) = alignBits 1 := by
    unfold alignBits
    rw [padLen_congr (by omega : (pos + 1) % 8 = 1 % 8)]
  unfold cxTy cxVal
  rw [enc_octetString]
  simp only [cxData_length, extRange, if_true]
  rw [if_neg (by omega), cx_lenDet, hal]
  rfl

/-- the decoder takes the fragment marker `0xc1` for a length of 16384 octets (stated for arbitrary
contents so that nothing big is ever evaluated) -/
theorem dec_unfragmented (c : SizeC) (hext : c.ext = true) (D1 D2 rest : Bits)
    (hD : D1.length = 8 * 16384) (fuel : Nat) :
    dec (.octetString c) fuel ⟨0, [true] ++ alignBits 1 ++ natToBits 8 0xc1 ++ (D1 ++ D2) ++ rest⟩ =
      .ok (.bytes (packBits D1), ⟨131088, D2 ++ rest⟩) := by
  rw [dec_octetString]
  have h1 := readLenDet_lenDet 8 16385 (D1 ++ (D2 ++ rest))
  rw [cx_lenDet] at h1
  simp only [natToBits_length] at h1
  simp only [hext, bind, Except.bind, if_true, List.cons_append, List.nil_append, readBit_cons,
    List.append_assoc]
  rw [align_alignBits 1 (0 + 1) _ rfl, show 0 + 1 + padLen 1 = 8 from rfl, h1]
  simp only
  rw [readBits_append _ _ _ hD]

/-- the decoder stops one octet early -/
theorem cx_dec (rest : Bits) (fuel : Nat) :
    dec cxTy fuel ⟨0, cxBits ++ rest⟩ =
      .ok (.bytes (packBits (bytesToBits (List.replicate 16384 0))),
        ⟨131088, natToBits 8 0 ++ rest⟩) := by
  unfold cxTy cxBits
  rw [cxData_split]
  exact dec_unfragmented _ rfl _ _ rest (by rw [bytesToBits_length, List.length_replicate]) fuel

/-- **Necessity of `fragFree`.**  All other hypotheses of `Per.roundtrip_partial` hold, the encoder
succeeds, and for every continuation `rest` and every amount of fuel the decoder does NOT return the
value and the continuation: it returns `rest` with the last octet of the value in front of it. -/
theorem roundtrip_fails_without_fragFree :
    cxTy.wf = true ∧ cxTy.defaultsOk = true ∧ hasType cxTy cxVal = true ∧ cxTy.nsOk = true ∧
    fragFree cxTy cxVal = false ∧ enc cxTy 0 cxVal = .ok cxBits ∧
    ∀ (rest : Bits) (fuel : Nat),
      dec cxTy fuel ⟨0, cxBits ++ rest⟩ ≠ .ok (canon cxTy cxVal, ⟨0 + cxBits.length, rest⟩) := by
  refine ⟨cx_wf, cx_defaultsOk, cx_hasType, cx_nsOk, cx_not_fragFree, cx_enc 0 rfl, ?_⟩
  intro rest fuel h
  rw [cx_dec] at h
  simp only [Except.ok.injEq, Prod.mk.injEq, St.mk.injEq] at h
  have := congrArg List.length h.2.2
  simp only [List.length_append, natToBits_length] at this
  omega

end Asn1.Per

#print axioms Asn1.Per.roundtrip_fails_without_fragFree
