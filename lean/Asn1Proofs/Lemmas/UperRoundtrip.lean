import Asn1Proofs.Lemmas.UperSeq
/-
  Round-trip theorem for the UPER model (used by C01, C05, C16).

  `enc_total` is proved as stated.

  `roundtrip` as originally stated is FALSE (see `UperCounterexample.lean` for a machine-checked
  refutation): `encNsnnwn idx` (index of an ENUMERATED addition / CHOICE addition) calls
  `lenDet` on the octet count of `idx` without fragmentation, and `Ty.wf` does not bound the number
  of additions, so for `idx ≥ 2^131072` the length determinant is a fragment marker and the decoder
  reads the wrong number of octets.  The theorem is proved here as `roundtrip_partial` with the single
  extra hypothesis `t.nsOk = true` (`UperDefs.lean`): every ENUMERATED / CHOICE in `t` has a number
  `n` of additions with `(bitLength (n - 1) + 7) / 8 < 16384`, i.e. `n ≤ 2^131064`.
-/
namespace Asn1.Uper

theorem et_all (t : Ty) : ET t :=
  Ty.rec (motive_1 := ET) (motive_2 := Members.All ET) (motive_3 := Alts.All ET)
    et_boolean et_null et_integer et_enumerated et_octetString et_bitString et_charString
    (fun root ext adds ihr _ => et_sequence root ext adds ihr)
    (fun e c ih => et_sequenceOf e c ih)
    (fun root ext adds ihr iha => et_choice root ext adds ihr iha)
    trivial (fun _ _ _ _ iht ihr => ⟨iht, ihr⟩)
    trivial (fun _ _ _ iht ihr => ⟨iht, ihr⟩) t

theorem members_all_et (ms : Members) : ms.All ET := by
  induction ms using Members.ind with
  | nil => trivial
  | cons name p t rest ih => exact ⟨et_all t, ih⟩

theorem rt_all (t : Ty) : RT t :=
  Ty.rec (motive_1 := RT) (motive_2 := Members.All RT) (motive_3 := Alts.All RT)
    rt_boolean rt_null rt_integer rt_enumerated rt_octetString rt_bitString
    (fun k c => by
      by_cases hk : k = .utf8
      · subst hk; exact rt_utf8 c
      · exact rt_charString k hk c)
    (fun root ext adds ihr iha => rt_sequence root ext adds ihr iha (members_all_et adds))
    (fun e c ih => rt_sequenceOf e c ih)
    (fun root ext adds ihr iha => rt_choice root ext adds ihr iha)
    trivial (fun _ _ _ _ iht ihr => ⟨iht, ihr⟩)
    trivial (fun _ _ _ iht ihr => ⟨iht, ihr⟩) t

/-- every well-typed value of a well-formed type encodes (no error branch is taken) -/
theorem enc_total (t : Ty) (v : Val)
    (hwf : t.wf = true) (hd : t.defaultsOk = true) (ht : hasType t v = true) :
    ∃ bits, enc t v = .ok bits :=
  have _ := hd
  et_all t v hwf ht

/-
ORIGINAL STATEMENT (false without `hns`, refuted in `UperCounterexample.lean`):

theorem roundtrip (t : Ty) (v : Val) (bits rest : Bits) (fuel : Nat)
    (hwf : t.wf = true) (hd : t.defaultsOk = true) (ht : hasType t v = true)
    (hf : fragFree t v = true) (he : enc t v = .ok bits)
    (hfuel : bits.length + rest.length + 2 ≤ fuel) :
    dec t fuel (bits ++ rest) = .ok (canon t v, rest)
-/

/-- decoding an encoding followed by arbitrary further bits returns the canonical value and
exactly the further bits.  Added hypothesis w.r.t. the original statement: `hns`. -/
theorem roundtrip_partial (t : Ty) (v : Val) (bits rest : Bits) (fuel : Nat)
    (hwf : t.wf = true) (hd : t.defaultsOk = true) (hns : t.nsOk = true) (ht : hasType t v = true)
    (hf : fragFree t v = true) (he : enc t v = .ok bits)
    (hfuel : bits.length + rest.length + 2 ≤ fuel) :
    dec t fuel (bits ++ rest) = .ok (canon t v, rest) :=
  rt_all t v bits rest fuel hwf hd hns ht hf he hfuel

end Asn1.Uper

#print axioms Asn1.Uper.enc_total
#print axioms Asn1.Uper.roundtrip_partial
