import Asn1Model.Der
import Asn1Proofs.Lemmas.BerFramingLemmas
import Asn1Proofs.Lemmas.PrefixOerTypes
/-
  C16 for the DER model.  Every DER encoding (other than a bare CHOICE, which is the encoding of its
  alternative) is `tag ++ definite length ++ contents`, and every DER decoder first matches the tag and
  then `readLen` checks that the announced contents are all there: on a strict prefix this fails with
  `decodeError` before anything else is looked at.
-/
set_option linter.unusedSimpArgs false
set_option linter.unusedVariables false
namespace Asn1.Der
open Asn1.Uper (Err)
open Asn1.Oer (splitAux readBytes)

/-- `q` is a strict prefix of `full` -/
def SPre (q full : Bytes) : Prop := ∃ x, x ≠ [] ∧ full = q ++ x

theorem hasN_eq (n : Nat) (bs : Bytes) : hasN n bs = decide (n ≤ bs.length) := by
  induction n generalizing bs with
  | zero => simp [hasN]
  | succ n ih =>
    cases bs with
    | nil => simp [hasN]
    | cons b r => simp [hasN, ih]

theorem tlv_eq (tag content : Bytes) :
    tlv tag content = tag ++ (Ber.encLength content.length ++ content) := by
  simp [tlv]

/-- the length octets cut short, or followed by fewer contents octets than announced -/
theorem readLen_short (d : Bool) (content q : Bytes)
    (h : SPre q (Ber.encLength content.length ++ content)) :
    readLen d q = .error .decodeError := by
  obtain ⟨x, hx, he⟩ := h
  have hxl : 0 < x.length := List.length_pos_iff.mpr hx
  cases q with
  | nil => rfl
  | cons l r =>
    unfold Ber.encLength at he
    by_cases hn : content.length ≤ 127
    · rw [if_pos hn] at he
      simp only [List.cons_append, List.nil_append, List.cons.injEq] at he
      obtain ⟨hl, hc⟩ := he
      have hr : r.length < content.length := by
        have := congrArg List.length hc
        simp only [List.length_append] at this
        omega
      subst hl
      simp only [readLen]
      rw [if_pos (by omega), hasN_eq]
      simp only [decide_eq_true_eq]
      rw [if_neg (by omega)]
    · rw [if_neg hn] at he
      simp only [List.cons_append, List.cons.injEq] at he
      obtain ⟨hl, hc⟩ := he
      have hds : (natToBytesMin content.length).length = byteLength content.length := by
        unfold natToBytesMin; exact Ber.natToBytesN_length _ _
      have h1 := Ber.one_le_byteLength content.length (by omega)
      have hval := Ber.bytesToNat_natToBytesMin content.length
      generalize natToBytesMin content.length = ds at hl hc hds hval
      subst hl
      simp only [readLen]
      rw [if_neg (by omega), if_neg (by omega), Oer.splitAux_eq]
      have hk : 128 + ds.length - 128 = ds.length := by omega
      rw [hk]
      by_cases hlen : ds.length ≤ r.length
      · rw [if_pos hlen]
        have htake : r.take ds.length = ds := by
          have := congrArg (List.take ds.length) hc
          rw [List.take_left', List.take_append_of_le_length hlen] at this
          · exact this.symm
          · rfl
        have hdrop : content = r.drop ds.length ++ x := by
          have := congrArg (List.drop ds.length) hc
          rw [List.drop_left', List.drop_append_of_le_length hlen] at this
          · exact this
          · rfl
        simp only [List.reverse_nil, List.nil_append, htake, hval, hasN_eq]
        have : ¬ content.length ≤ (r.drop ds.length).length := by
          have := congrArg List.length hdrop
          simp only [List.length_append] at this
          omega
        simp only [decide_eq_true_eq, if_neg this]
      · rw [if_neg hlen]

/-- matching the tag on a strict prefix of `tag ++ rest` -/
theorem matchTag_short (tag rest q : Bytes) (h : SPre q (tag ++ rest)) :
    matchTag tag q = .error .decodeError ∨
      ∃ q', q = tag ++ q' ∧ matchTag tag q = .ok (some q') ∧ SPre q' rest := by
  obtain ⟨x, hx, he⟩ := h
  unfold matchTag
  rw [Oer.splitAux_eq]
  by_cases hlen : tag.length ≤ q.length
  · right
    rw [if_pos hlen]
    have htake : q.take tag.length = tag := by
      have := congrArg (List.take tag.length) he
      rw [List.take_left', List.take_append_of_le_length hlen] at this
      · exact this.symm
      · rfl
    have hdrop : rest = q.drop tag.length ++ x := by
      have := congrArg (List.drop tag.length) he
      rw [List.drop_left', List.drop_append_of_le_length hlen] at this
      · exact this
      · rfl
    refine ⟨q.drop tag.length, ?_, ?_, x, hx, hdrop⟩
    · conv => lhs; rw [← List.take_append_drop tag.length q, htake]
    · simp only [List.reverse_nil, List.nil_append, htake, beq_self_eq_true, if_true]
  · left
    rw [if_neg hlen]

theorem readPrim_short (tag content q : Bytes) (h : SPre q (tlv tag content)) :
    readPrim tag q = .error .decodeError := by
  rw [tlv_eq] at h
  unfold readPrim
  rcases matchTag_short tag _ q h with h1 | ⟨q', _, h1, h2⟩
  · rw [h1]; rfl
  · rw [h1]
    have := readLen_short true content q' h2
    simp only [bind, Except.bind, this]

end Asn1.Der
