import Asn1Model.Json
/-
  Lexical lemmas for the JSON writer / reader of Asn1Model/Json.lean: decimal digits, `\uXXXX`
  escapes, string bodies, white space.
-/
namespace Asn1.Json

/-! ### decimal digits -/

theorem digitsVal_append_singleton (ds : List Nat) (c : Nat) :
    digitsVal (ds ++ [c]) = 10 * digitsVal ds + (c - 48) := by
  simp [digitsVal, List.foldl_append]

theorem natDigitsAux_spec (fuel : Nat) : ∀ (n : Nat) (acc : List Nat), n < fuel →
    ∃ ds, natDigitsAux fuel n acc = ds ++ acc ∧ (∀ c ∈ ds, isDigit c = true) ∧ ds ≠ [] ∧
      digitsVal ds = n ∧ (ds.head? = some 48 → ds = [48]) := by
  induction fuel with
  | zero => intro n acc h; omega
  | succ fuel ih =>
    intro n acc h
    unfold natDigitsAux
    by_cases h10 : n < 10
    · rw [if_pos h10]
      refine ⟨[48 + n], rfl, ?_, by simp, ?_, ?_⟩
      · intro c hc
        simp only [List.mem_singleton] at hc
        subst hc
        simp only [isDigit, Bool.and_eq_true, decide_eq_true_eq]
        omega
      · simp [digitsVal]
      · intro hh
        simp only [List.head?_cons, Option.some.injEq] at hh
        have : n = 0 := by omega
        subst this; rfl
    · rw [if_neg h10]
      obtain ⟨ds, h1, h2, h3, h4, h5⟩ := ih (n / 10) ((48 + n % 10) :: acc) (by omega)
      refine ⟨ds ++ [48 + n % 10], by rw [h1]; simp, ?_, by simp, ?_, ?_⟩
      · intro c hc
        simp only [List.mem_append, List.mem_singleton] at hc
        rcases hc with hc | hc
        · exact h2 c hc
        · subst hc
          simp only [isDigit, Bool.and_eq_true, decide_eq_true_eq]
          omega
      · rw [digitsVal_append_singleton, h4]; omega
      · intro hh
        exfalso
        cases ds with
        | nil => exact h3 rfl
        | cons d ds' =>
          simp only [List.cons_append, List.head?_cons, Option.some.injEq] at hh
          subst hh
          have := h5 rfl
          rw [this] at h4
          simp [digitsVal] at h4
          omega

theorem natDigits_spec (n : Nat) :
    (∀ c ∈ natDigits n, isDigit c = true) ∧ natDigits n ≠ [] ∧ digitsVal (natDigits n) = n ∧
      ((natDigits n).head? = some 48 → natDigits n = [48]) := by
  obtain ⟨ds, h1, h2, h3, h4, h5⟩ := natDigitsAux_spec (n + 1) n [] (by omega)
  have : natDigits n = ds := by rw [natDigits, h1]; simp
  rw [this]
  exact ⟨h2, h3, h4, h5⟩

/-- what may follow a value in a document: nothing, a structural character or white space -/
def okFollow : List Nat → Prop
  | [] => True
  | c :: _ => c = 44 ∨ c = 93 ∨ c = 125 ∨ isWs c = true

/-- the list does not start with a digit -/
def notDigitHead : List Nat → Prop
  | [] => True
  | c :: _ => isDigit c = false

theorem spanDigits_append (ds rest : List Nat) (hd : ∀ c ∈ ds, isDigit c = true)
    (hr : notDigitHead rest) :
    spanDigits (ds ++ rest) = (ds, rest) := by
  induction ds with
  | nil =>
    cases rest with
    | nil => rfl
    | cons c r => simp only [List.nil_append, spanDigits]; simp only [notDigitHead] at hr; rw [hr]; simp
  | cons d ds ih =>
    have hdd := hd d (List.mem_cons_self ..)
    simp only [List.cons_append, spanDigits, hdd, if_true]
    rw [ih (fun c hc => hd c (List.mem_cons_of_mem _ hc))]

theorem okFollow_not_digit {rest : List Nat} (h : okFollow rest) : notDigitHead rest := by
  cases rest with
  | nil => trivial
  | cons c r =>
    simp only [okFollow, isWs, Bool.or_eq_true, beq_iff_eq] at h
    simp only [notDigitHead, isDigit]
    rcases h with h | h | h | h
    · subst h; decide
    · subst h; decide
    · subst h; decide
    · rcases h with ((h | h) | h) | h <;> subst h <;> decide

/-! ### `\uXXXX` -/

theorem hexNat_hexDigitN (d : Nat) (h : d < 16) : hexNat (hexDigitN d) = some d := by
  unfold hexDigitN hexNat
  by_cases h10 : d < 10
  · rw [if_pos h10, if_pos (by omega)]; congr 1; omega
  · rw [if_neg h10, if_neg (by omega), if_pos (by omega)]; congr 1; omega

theorem hex4_digits (u : Nat) (h : u < 65536) (r : List Nat) :
    hex4 (hexDigitN (u / 4096 % 16) :: hexDigitN (u / 256 % 16) :: hexDigitN (u / 16 % 16) ::
      hexDigitN (u % 16) :: r) = some (u, r) := by
  simp only [hex4, hexNat_hexDigitN _ (Nat.mod_lt _ (by decide : 16 > 0))]
  congr 2
  omega

theorem hexDigitN_ne (d : Nat) (h : d < 16) (c : Nat) (hc : c < 48 ∨ (57 < c ∧ c < 97) ∨ 102 < c) :
    hexDigitN d ≠ c := by
  unfold hexDigitN
  split <;> omega

/-! ### string bodies -/

theorem uEscape_eq (u : Nat) : uEscape u = 92 :: 117 :: hexDigitN (u / 4096 % 16) :: hexDigitN (u / 256 % 16) ::
    hexDigitN (u / 16 % 16) :: hexDigitN (u % 16) :: [] := rfl

theorem strStep_escape_bmp (u : Nat) (h : u < 65536) (hs : ¬ (0xd800 ≤ u ∧ u < 0xe000)) (r : List Nat) :
    strStep (uEscape u ++ r) = some (u, r) := by
  rw [uEscape_eq]
  simp only [List.cons_append, List.nil_append, strStep]
  rw [hex4_digits u h]
  simp only [show ¬ ((92:Nat) = 34) by decide, show ¬ ((117:Nat) = 34) by decide, show ¬ ((117:Nat) = 92) by decide,
    show ¬ ((117:Nat) = 47) by decide, show ¬ ((117:Nat) = 98) by decide, show ¬ ((117:Nat) = 102) by decide,
    show ¬ ((117:Nat) = 110) by decide, show ¬ ((117:Nat) = 114) by decide, show ¬ ((117:Nat) = 116) by decide, if_true, if_false]
  rw [if_neg (by omega), if_neg (by omega)]

theorem strStep_pair_gen (hi lo : Nat) (hhi : 0xd800 ≤ hi ∧ hi < 0xdc00) (hlo : 0xdc00 ≤ lo ∧ lo < 0xe000)
    (r : List Nat) :
    strStep (uEscape hi ++ uEscape lo ++ r) = some (0x10000 + (hi - 0xd800) * 1024 + (lo - 0xdc00), r) := by
  rw [uEscape_eq, uEscape_eq]
  simp only [List.cons_append, List.nil_append, strStep]
  rw [hex4_digits hi (by omega)]
  simp only [show ¬ ((92:Nat) = 34) by decide, show ¬ ((117:Nat) = 34) by decide, show ¬ ((117:Nat) = 92) by decide,
    show ¬ ((117:Nat) = 47) by decide, show ¬ ((117:Nat) = 98) by decide, show ¬ ((117:Nat) = 102) by decide,
    show ¬ ((117:Nat) = 110) by decide, show ¬ ((117:Nat) = 114) by decide, show ¬ ((117:Nat) = 116) by decide, if_true, if_false]
  rw [if_pos hhi]
  rw [if_pos ⟨trivial, trivial⟩, hex4_digits lo (by omega)]
  simp only []
  rw [if_pos hlo]

theorem strStep_escape_pair (c : Nat) (h1 : 0x10000 ≤ c) (h2 : c < 0x110000) (r : List Nat) :
    strStep (uEscape (0xd800 + (c - 0x10000) / 1024 % 1024) ++ uEscape (0xdc00 + (c - 0x10000) % 1024) ++ r)
      = some (c, r) := by
  have hhi : 0xd800 ≤ 0xd800 + (c - 0x10000) / 1024 % 1024 ∧ 0xd800 + (c - 0x10000) / 1024 % 1024 < 0xdc00 := by omega
  have hlo : 0xdc00 ≤ 0xdc00 + (c - 0x10000) % 1024 ∧ 0xdc00 + (c - 0x10000) % 1024 < 0xe000 := by omega
  have key := strStep_pair_gen _ _ hhi hlo r
  rw [key]
  have : 0x10000 + (0xd800 + (c - 0x10000) / 1024 % 1024 - 0xd800) * 1024 + (0xdc00 + (c - 0x10000) % 1024 - 0xdc00) = c := by omega
  rw [this]

theorem strStep_renderChar (c : Nat) (hc : isScalar c = true) (r : List Nat) :
    strStep (renderChar c ++ r) = some (c, r) := by
  simp only [isScalar, Bool.and_eq_true, decide_eq_true_eq, Bool.not_eq_true', Bool.and_eq_false_iff,
    decide_eq_false_iff_not] at hc
  unfold renderChar
  by_cases e1 : c = 34
  · subst e1; rfl
  rw [if_neg e1]
  by_cases e2 : c = 92
  · subst e2; rfl
  rw [if_neg e2]
  by_cases e3 : c = 10
  · subst e3; rfl
  rw [if_neg e3]
  by_cases e4 : c = 13
  · subst e4; rfl
  rw [if_neg e4]
  by_cases e5 : c = 9
  · subst e5; rfl
  rw [if_neg e5]
  by_cases e6 : c = 12
  · subst e6; rfl
  rw [if_neg e6]
  by_cases e7 : c = 8
  · subst e7; rfl
  rw [if_neg e7]
  by_cases e8 : 32 ≤ c ∧ c ≤ 126
  · rw [if_pos e8]
    simp only [List.cons_append, List.nil_append, strStep]
    rw [if_neg e2, if_neg (by omega), if_neg e1]
    have : isScalar c = true := by
      simp only [isScalar, Bool.and_eq_true, decide_eq_true_eq, Bool.not_eq_true', Bool.and_eq_false_iff,
        decide_eq_false_iff_not]; omega
    rw [this]; rfl
  rw [if_neg e8]
  by_cases e9 : c < 0x10000
  · rw [if_pos e9]
    exact strStep_escape_bmp c e9 (by omega) r
  · rw [if_neg e9]
    exact strStep_escape_pair c (by omega) hc.1 r

theorem renderChar_head (c : Nat) : ∃ h tl, renderChar c = h :: tl ∧ h ≠ 34 := by
  unfold renderChar
  repeat' split
  all_goals first
    | exact ⟨92, _, rfl, by decide⟩
    | exact ⟨c, [], rfl, by assumption⟩
    | exact ⟨92, _, by rw [uEscape_eq]; rfl, by decide⟩

theorem parseStr_render (cps : List Nat) (hs : ∀ c ∈ cps, isScalar c = true) (r : List Nat) (fuel : Nat)
    (hf : cps.length + 1 ≤ fuel) :
    parseStr fuel (cps.flatMap renderChar ++ 34 :: r) = some (cps, r) := by
  induction cps generalizing fuel with
  | nil =>
    match fuel, hf with
    | fuel + 1, _ => simp [parseStr]
  | cons c cps ih =>
    match fuel, hf with
    | fuel + 1, hf =>
      obtain ⟨h, tl, e, hne⟩ := renderChar_head c
      have step := strStep_renderChar c (hs c (List.mem_cons_self ..)) (cps.flatMap renderChar ++ 34 :: r)
      rw [List.flatMap_cons, List.append_assoc]
      rw [e] at step ⊢
      rw [List.cons_append] at step ⊢
      rw [parseStr, if_neg hne, step]
      simp only []
      rw [ih (fun x hx => hs x (List.mem_cons_of_mem _ hx)) fuel (by simp at hf; omega)]


/-! ### white space -/

theorem skipWs_of_not_ws (c : Nat) (r : List Nat) (h : isWs c = false) : skipWs (c :: r) = c :: r := by
  simp [skipWs, h]

theorem skipWs_ws_append (w s : List Nat) (hw : ∀ c ∈ w, isWs c = true) : skipWs (w ++ s) = skipWs s := by
  induction w with
  | nil => rfl
  | cons c w ih =>
    rw [List.cons_append, skipWs, if_pos (hw c (List.mem_cons_self ..))]
    exact ih (fun x hx => hw x (List.mem_cons_of_mem _ hx))

theorem nl_ws (indent : Option Nat) (level : Nat) : ∀ c ∈ nl indent level, isWs c = true := by
  intro c hc
  cases indent with
  | none => simp [nl] at hc
  | some n =>
    simp only [nl, List.mem_cons, List.mem_replicate] at hc
    rcases hc with hc | ⟨_, hc⟩ <;> subst hc <;> decide

theorem skipWs_nl (indent : Option Nat) (level : Nat) (s : List Nat) :
    skipWs (nl indent level ++ s) = skipWs s := skipWs_ws_append _ _ (nl_ws indent level)

end Asn1.Json
