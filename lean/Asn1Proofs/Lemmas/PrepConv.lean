import Asn1Proofs.Lemmas.PrepDefault
/-
  Value level: the conversion of one DEFAULT (`convDefault`, the body of the member loop of
  `pre_process_default_value`) applied twice.

  * the BIT STRING / OCTET STRING / BOOLEAN clauses are idempotent and do not depend on
    `numeric_enums` (their "already processed" guards);
  * the ENUMERATED clauses: `numeric_enums=False` twice is idempotent; `numeric_enums=True` twice is
    idempotent unless a value reference used as enumeration number is itself the name of an item with
    another number (`RefStable`); a switch of the flag is absorbed when names and numbers of the
    enumeration determine each other and no number is a value reference (`GoodEnum`) and the default
    is not a Python `bool` (`isinstance(True, int)`).
-/
namespace Asn1.SpecDict

/-! ### BIT STRING, OCTET STRING -/

theorem bitStringDefault?_some {r : Core} {v w : DefVal} (h : bitStringDefault? r v = some w) :
    ∃ b n, w = .bits b n := by
  unfold bitStringDefault? at h
  split at h
  · exact ⟨_, _, (Option.some.inj h).symm⟩
  · split at h
    · cases h
    · split at h
      · cases h
      · exact ⟨_, _, (Option.some.inj h).symm⟩
  · split at h
    · split at h
      · cases h
      · exact ⟨_, _, (Option.some.inj h).symm⟩
    · split at h
      · cases h
      · exact ⟨_, _, (Option.some.inj h).symm⟩
    · cases h
  · cases h

theorem bitString_idem (r : Core) (v : DefVal) :
    (bitStringDefault? r ((bitStringDefault? r v).getD v)).getD ((bitStringDefault? r v).getD v)
      = (bitStringDefault? r v).getD v := by
  cases h : bitStringDefault? r v with
  | none => simp [h]
  | some w =>
    obtain ⟨b, n, rfl⟩ := bitStringDefault?_some h
    simp [bitStringDefault?]

theorem octetStringDefault?_some {v w : DefVal} (h : octetStringDefault? v = some w) :
    (∃ b, w = .bytes b) ∨ w = v := by
  unfold octetStringDefault? at h
  split at h
  · exact .inl ⟨_, (Option.some.inj h).symm⟩
  · split at h
    · split at h
      · cases h
      · exact .inl ⟨_, (Option.some.inj h).symm⟩
    · split at h
      · cases h
      · exact .inl ⟨_, (Option.some.inj h).symm⟩
    · exact .inr (Option.some.inj h).symm
  · cases h

theorem octetStringDefault?_fix {v w : DefVal} (h : octetStringDefault? v = some w) :
    octetStringDefault? w = some w := by
  rcases octetStringDefault?_some h with ⟨b, rfl⟩ | rfl
  · rfl
  · exact h

theorem octetString_idem (v : DefVal) :
    (octetStringDefault? ((octetStringDefault? v).getD v)).getD ((octetStringDefault? v).getD v)
      = (octetStringDefault? v).getD v := by
  cases h : octetStringDefault? v with
  | none => simp [h]
  | some w => simp [octetStringDefault?_fix h]

/-! ### ENUMERATED -/

/-- a value reference used as enumeration number is not the name of an item with another number -/
def RefStable (vals : List EnumItem) : Prop :=
  ∀ s t, enumValueOf? s vals = some (.ref t) →
    enumValueOf? t vals = none ∨ enumValueOf? t vals = some (.ref t)

/-- names and numbers of the enumeration determine each other, and no number is a value reference -/
structure GoodEnum (vals : List EnumItem) : Prop where
  noRef : ∀ s t, enumValueOf? s vals ≠ some (.ref t)
  nameOfValue : ∀ s i, enumValueOf? s vals = some (.int i) → enumNameOf? i vals = some s
  valueOfName : ∀ i k, enumNameOf? i vals = some k → enumValueOf? k vals = some (.int i)

section
variable {r : Core} {vals : List EnumItem}

theorem enumDefault_no_values (n : Bool) (v : DefVal) (hv : r.values = none) :
    enumDefault n r v = v := by
  simp [enumDefault, hv]

theorem enumDefault_false_name {v : DefVal} {i : Int} {k : String} (hv : r.values = some vals)
    (ha : v.asInt? = some i) (hn : enumNameOf? i vals = some k) :
    enumDefault false r v = .str k := by
  simp [enumDefault, hv, ha, hn]

theorem enumDefault_false_noname {v : DefVal} {i : Int} (hv : r.values = some vals)
    (ha : v.asInt? = some i) (hn : enumNameOf? i vals = none) :
    enumDefault false r v = v := by
  simp [enumDefault, hv, ha, hn]

theorem enumDefault_false_noint {v : DefVal} (hv : r.values = some vals)
    (ha : v.asInt? = none) : enumDefault false r v = v := by
  simp [enumDefault, hv, ha]

theorem enumDefault_true_int {s : String} {i : Int} (hv : r.values = some vals)
    (he : enumValueOf? s vals = some (.int i)) : enumDefault true r (.str s) = .int i := by
  simp [enumDefault, hv, he]

theorem enumDefault_true_ref {s t : String} (hv : r.values = some vals)
    (he : enumValueOf? s vals = some (.ref t)) : enumDefault true r (.str s) = .str t := by
  simp [enumDefault, hv, he]

theorem enumDefault_true_none {s : String} (hv : r.values = some vals)
    (he : enumValueOf? s vals = none) : enumDefault true r (.str s) = .str s := by
  simp [enumDefault, hv, he]

theorem enumDefault_true_nonstr {v : DefVal} (h : ∀ s, v ≠ .str s) :
    enumDefault true r v = v := by
  unfold enumDefault
  cases r.values with
  | none => rfl
  | some vals =>
    cases v with
    | str s => exact absurd rfl (h s)
    | _ => rfl

end

theorem enumDefault_false_idem (r : Core) (v : DefVal) :
    enumDefault false r (enumDefault false r v) = enumDefault false r v := by
  cases hv : r.values with
  | none => simp [enumDefault_no_values _ _ hv]
  | some vals =>
    cases ha : v.asInt? with
    | none => simp [enumDefault_false_noint hv ha]
    | some i =>
      cases hn : enumNameOf? i vals with
      | none => simp [enumDefault_false_noname hv ha hn]
      | some k =>
        rw [enumDefault_false_name hv ha hn]
        exact enumDefault_false_noint hv rfl

theorem enumDefault_true_idem (r : Core) (v : DefVal)
    (h : ∀ vals, r.values = some vals → RefStable vals) :
    enumDefault true r (enumDefault true r v) = enumDefault true r v := by
  cases hv : r.values with
  | none => simp [enumDefault_no_values _ _ hv]
  | some vals =>
    cases v with
    | str s =>
      cases he : enumValueOf? s vals with
      | none => simp [enumDefault_true_none hv he]
      | some ev =>
        cases ev with
        | int i =>
          rw [enumDefault_true_int hv he]
          exact enumDefault_true_nonstr (by simp)
        | ref t =>
          rw [enumDefault_true_ref hv he]
          rcases h vals hv s t he with h1 | h1
          · exact enumDefault_true_none hv h1
          · exact enumDefault_true_ref hv h1
    | _ => simp [enumDefault_true_nonstr]

theorem enumDefault_absorb (m n : Bool) (r : Core) (v : DefVal)
    (hg : ∀ vals, r.values = some vals → GoodEnum vals) (hb : ∀ b, v ≠ .bool b) :
    enumDefault n r (enumDefault m r v) = enumDefault n r v := by
  cases hv : r.values with
  | none => simp [enumDefault_no_values _ _ hv]
  | some vals =>
    have g := hg vals hv
    cases m <;> cases n
    · exact enumDefault_false_idem r v
    · -- first without, then with numeric_enums
      cases ha : v.asInt? with
      | none => rw [enumDefault_false_noint hv ha]
      | some i =>
        cases hn : enumNameOf? i vals with
        | none => rw [enumDefault_false_noname hv ha hn]
        | some k =>
          rw [enumDefault_false_name hv ha hn, enumDefault_true_int hv (g.valueOfName i k hn)]
          cases v with
          | int j =>
            simp only [DefVal.asInt?, Option.some.injEq] at ha
            subst ha
            exact (enumDefault_true_nonstr (by simp)).symm
          | bool b => exact absurd rfl (hb b)
          | _ => simp [DefVal.asInt?] at ha
    · -- first with, then without numeric_enums
      cases v with
      | str s =>
        cases he : enumValueOf? s vals with
        | none => rw [enumDefault_true_none hv he]
        | some ev =>
          cases ev with
          | int i =>
            rw [enumDefault_true_int hv he,
              enumDefault_false_name hv (v := .int i) rfl (g.nameOfValue s i he)]
            exact (enumDefault_false_noint hv rfl).symm
          | ref t => exact absurd he (g.noRef s t)
      | _ => rw [enumDefault_true_nonstr (by simp)]
    · refine enumDefault_true_idem r v ?_
      intro vals' hv' s t hs
      rw [hv] at hv'; cases hv'
      exact absurd hs (g.noRef s t)

theorem enumDefault_not_bool (n : Bool) (r : Core) (v : DefVal) (hb : ∀ b, v ≠ .bool b) :
    ∀ b, enumDefault n r v ≠ .bool b := by
  intro b
  cases hv : r.values with
  | none => rw [enumDefault_no_values _ _ hv]; exact hb b
  | some vals =>
    cases n
    · cases ha : v.asInt? with
      | none => rw [enumDefault_false_noint hv ha]; exact hb b
      | some i =>
        cases hn : enumNameOf? i vals with
        | none => rw [enumDefault_false_noname hv ha hn]; exact hb b
        | some k => rw [enumDefault_false_name hv ha hn]; simp
    · cases v with
      | str s =>
        cases he : enumValueOf? s vals with
        | none => rw [enumDefault_true_none hv he]; simp
        | some ev =>
          cases ev with
          | int i => rw [enumDefault_true_int hv he]; simp
          | ref t => rw [enumDefault_true_ref hv he]; simp
      | bool b' => exact absurd rfl (hb b')
      | _ => rw [enumDefault_true_nonstr (by simp)]; simp

/-! ### the whole conversion -/

theorem convDefault_flag (m n : Bool) (r : Core) (v : DefVal) (h : r.type ≠ "ENUMERATED") :
    convDefault m r v = convDefault n r v := by
  unfold convDefault
  simp [h]

/-- conversions on the types other than ENUMERATED are idempotent -/
theorem convDefault_idem_of_ne (n : Bool) (r : Core) (v : DefVal) (h : r.type ≠ "ENUMERATED") :
    convDefault n r (convDefault n r v) = convDefault n r v := by
  unfold convDefault
  by_cases h1 : r.type = "BIT STRING"
  · simp only [h1, if_true]; exact bitString_idem r v
  · by_cases h2 : r.type = "OCTET STRING"
    · simp only [h2, if_true]; exact octetString_idem v
    · by_cases h3 : r.type = "BOOLEAN"
      · simp only [h3, if_true]
        cases v with
        | str s =>
          by_cases h4 : s = "TRUE"
          · simp [h4]
          · by_cases h5 : s = "FALSE"
            · simp [h5]
            · simp [h4, h5]
        | _ => rfl
      · simp [h1, h2, h3, h]

theorem convDefault_enum (n : Bool) (r : Core) (v : DefVal) (h : r.type = "ENUMERATED") :
    convDefault n r v = enumDefault n r v := by
  unfold convDefault
  simp [h]

/-- `default_idem` at value level, `numeric_enums=False` -/
theorem convDefault_false_idem (r : Core) (v : DefVal) :
    convDefault false r (convDefault false r v) = convDefault false r v := by
  by_cases h : r.type = "ENUMERATED"
  · rw [convDefault_enum _ _ _ h, convDefault_enum _ _ _ h, enumDefault_false_idem]
  · exact convDefault_idem_of_ne false r v h

/-- `default_idem` at value level -/
theorem convDefault_idem (n : Bool) (r : Core) (v : DefVal)
    (hr : ∀ vals, r.values = some vals → RefStable vals) :
    convDefault n r (convDefault n r v) = convDefault n r v := by
  cases n
  · exact convDefault_false_idem r v
  · by_cases h : r.type = "ENUMERATED"
    · rw [convDefault_enum _ _ _ h, convDefault_enum _ _ _ h, enumDefault_true_idem r v hr]
    · exact convDefault_idem_of_ne true r v h

/-- a conversion under one flag followed by a conversion under another one -/
theorem convDefault_absorb (m n : Bool) (r : Core) (v : DefVal)
    (hg : r.type = "ENUMERATED" → ∀ vals, r.values = some vals → GoodEnum vals)
    (hb : r.type = "ENUMERATED" → ∀ b, v ≠ .bool b) :
    convDefault n r (convDefault m r v) = convDefault n r v := by
  by_cases h : r.type = "ENUMERATED"
  · simp only [convDefault_enum _ _ _ h]
    exact enumDefault_absorb m n r v (hg h) (hb h)
  · rw [convDefault_flag m n r v h]
    exact convDefault_idem_of_ne n r v h

theorem convDefault_not_bool (n : Bool) (r : Core) (v : DefVal)
    (hb : r.type = "ENUMERATED" → ∀ b, v ≠ .bool b) :
    r.type = "ENUMERATED" → ∀ b, convDefault n r v ≠ .bool b := by
  intro h
  rw [convDefault_enum _ _ _ h]
  exact enumDefault_not_bool n r v (hb h)

end Asn1.SpecDict
