import Asn1Proofs.Lemmas.X696Refine
/-
  C06: outside the deviation predicates the side conditions of the OER round-trip theorem
  (`utf8Ok`, `noSwallow`) hold, so the decoder model returns the value from the standard's octets.
-/
set_option linter.unusedSimpArgs false
namespace Asn1.X696
open Asn1.Uper (Err utf8Enc)

def NS (t : Ty) : Prop :=
  ∀ (v : Val), t.wf = true → hasType t v = true → devs t v = [] →
    Oer.utf8Ok t v = true ∧ Oer.noSwallow t v = true

theorem ns_boolean : NS .boolean := by intro v _ _ _; cases v <;> exact ⟨rfl, rfl⟩
theorem ns_null : NS .null := by intro v _ _ _; cases v <;> exact ⟨rfl, rfl⟩
theorem ns_integer (c : IntC) : NS (.integer c) := by intro v _ _ _; cases v <;> exact ⟨rfl, rfl⟩
theorem ns_enumerated (r e) : NS (.enumerated r e) := by intro v _ _ _; cases v <;> exact ⟨rfl, rfl⟩
theorem ns_octetString (c : SizeC) : NS (.octetString c) := by intro v _ _ _; cases v <;> exact ⟨rfl, rfl⟩
theorem ns_bitString (c : SizeC) : NS (.bitString c) := by intro v _ _ _; cases v <;> exact ⟨rfl, rfl⟩

theorem ns_charString (k : StrKind) (c : SizeC) : NS (.charString k c) := by
  intro v _ ht hd
  cases v with
  | str cps =>
    refine ⟨?_, rfl⟩
    cases k with
    | utf8 =>
      rw [devs, visibleFixedSize_eq] at hd
      rw [Oer.utf8Ok]
      cases hf : Oer.fixedSize c with
      | none => rfl
      | some n => simp [multiplier, hf] at hd
    | _ => rfl
  | _ => simp [hasType] at ht

theorem ns_sequenceOf (e : Ty) (c : SizeC) (ih : NS e) : NS (.sequenceOf e c) := by
  intro v hwf ht hd
  cases v with
  | list vs =>
    simp only [Ty.wf, Bool.and_eq_true] at hwf
    simp only [hasType, Bool.and_eq_true, List.all_eq_true] at ht
    rw [devs] at hd
    have hall := flatMap_eq_nil' _ _ hd
    simp only [Oer.utf8Ok, Oer.noSwallow, List.all_eq_true]
    exact ⟨fun x hx => (ih x hwf.1 (ht.1 x hx) (hall x hx)).1,
           fun x hx => (ih x hwf.1 (ht.1 x hx) (hall x hx)).2⟩
  | _ => simp [hasType] at ht

theorem findO_none_of_mem_other {root adds : Alts} {name : String}
    (hnd : (root.names ++ adds.names).Nodup) {x : Nat × Ty} (h : root.findO name = some x) :
    adds.findO name = none := by
  rw [find_none_iff_oer]
  intro h2
  have h1 : name ∈ root.names := Classical.byContradiction fun hc => by
    rw [← find_none_iff_oer] at hc; rw [hc] at h; cases h
  rw [List.nodup_append] at hnd
  exact hnd.2.2 name h1 name h2 rfl

theorem ns_choice (root : Alts) (ext : Bool) (adds : Alts)
    (ihr : root.AllO NS) (iha : adds.AllO NS) : NS (.choice root ext adds) := by
  intro v hwf ht hd
  cases v with
  | choice name w =>
    simp only [Ty.wf, Bool.and_eq_true, decide_eq_true_eq] at hwf
    obtain ⟨⟨⟨⟨hwr, hwa⟩, _⟩, hnd⟩, _⟩ := hwf
    rw [hasType] at ht
    rw [devs, List.append_eq_nil_iff, devsAlt_find, devsAlt_find] at hd
    simp only [Oer.utf8Ok, Oer.noSwallow, Oer.utf8OkAlt_find, Oer.noSwallowAlt_find, Bool.and_eq_true]
    rcases Oer.choice_typed hnd ht with ⟨j, t, hf, hty⟩ | ⟨hf, j, t, hfa, hty⟩
    · have hns : NS t := find_all_oer name root j t hf ihr
      have hwt : t.wf = true := find_all_oer name root j t hf (alts_all_wf_oer root hwr)
      have hdt : devs t w = [] := by simpa [hf] using hd.1
      have hn := findO_none_of_mem_other hnd hf
      have := hns w hwt hty hdt
      simp [hf, hn, this.1, this.2]
    · have hns : NS t := find_all_oer name adds j t hfa iha
      have hwt : t.wf = true := find_all_oer name adds j t hfa (alts_all_wf_oer adds hwa)
      have hdt : devs t w = [] := by simpa [hfa] using hd.2
      have := hns w hwt hty hdt
      simp [hf, hfa, this.1, this.2]
  | _ => simp [hasType] at ht

theorem ns_members (fs : List (String × Val)) (ms : Members) (isAdd : Bool)
    (ih : ms.AllO NS) (hwf : ms.wf = true) (hok : membersOk ms fs = true)
    (hd : devsMembers ms fs = []) (hfail : isAdd = true → additionFails ms fs = false) :
    Oer.utf8OkMembers ms fs = true ∧ Oer.noSwallowMembers ms fs isAdd = true := by
  induction ms using Members.ind with
  | nil => exact ⟨rfl, rfl⟩
  | cons name p t rest ihm =>
    simp only [Members.wf, Bool.and_eq_true] at hwf
    simp only [membersOk, Bool.and_eq_true] at hok
    rw [devsMembers_cons, List.append_eq_nil_iff] at hd
    have hfail' : isAdd = true → additionFails rest fs = false := by
      intro h; have := hfail h
      simp only [additionFails, Bool.or_eq_false_iff] at this
      exact this.2
    obtain ⟨r1, r2⟩ := ihm ih.2 hwf.2 hok.2 hd.2 hfail'
    simp only [Oer.utf8OkMembers, Oer.noSwallowMembers, r1, r2, Bool.and_true]
    cases hl : lookup name fs with
    | none => exact ⟨rfl, rfl⟩
    | some v =>
      have hty : hasType t v = true := by simpa [hl] using hok.1
      have hdv : devs t v = [] := by simpa [hl] using hd.1
      obtain ⟨u1, u2⟩ := ih.1 v hwf.1 hty hdv
      simp only [u1, u2, Bool.true_and, true_and]
      cases isAdd with
      | false => rfl
      | true =>
        have := hfail rfl
        simp only [additionFails, Bool.or_eq_false_iff, hl] at this
        rw [ref_all t v hwf.1 hty hdv]
        cases he : enc t v with
        | ok bs => rfl
        | error er => simp [he] at this

theorem ns_sequence (root : Members) (ext : Bool) (adds : Members)
    (ihr : root.AllO NS) (iha : adds.AllO NS) : NS (.sequence root ext adds) := by
  intro v hwf ht hd
  cases v with
  | record fs =>
    simp only [Ty.wf, Bool.and_eq_true, decide_eq_true_eq] at hwf
    obtain ⟨⟨⟨⟨hwr, hwa⟩, hnd⟩, _⟩, _⟩ := hwf
    obtain ⟨hokr, hoka⟩ := membersOk_of_hasType root adds ext fs hnd ht
    rw [devs] at hd
    simp only [List.append_eq_nil_iff] at hd
    obtain ⟨⟨⟨⟨hdr, hda⟩, _⟩, _⟩, hsw⟩ := hd
    have hfail : additionFails adds fs = false := by
      cases h : additionFails adds fs with
      | false => rfl
      | true =>
        have := anyPresent_of_fails fs adds hoka h
        simp [h, this] at hsw
    obtain ⟨a1, a2⟩ := ns_members fs root false ihr hwr hokr hdr (fun h => by cases h)
    obtain ⟨b1, b2⟩ := ns_members fs adds true iha hwa hoka hda (fun _ => hfail)
    simp only [Oer.utf8Ok, Oer.noSwallow, a1, a2, b1, b2, Bool.and_self, and_self]
  | _ => simp [hasType] at ht

theorem ns_all (t : Ty) : NS t :=
  Ty.rec (motive_1 := NS) (motive_2 := Members.AllO NS) (motive_3 := Alts.AllO NS)
    ns_boolean ns_null ns_integer ns_enumerated ns_octetString ns_bitString ns_charString
    (fun root ext adds ihr iha => ns_sequence root ext adds ihr iha)
    (fun e c ih => ns_sequenceOf e c ih)
    (fun root ext adds ihr iha => ns_choice root ext adds ihr iha)
    trivial (fun _ _ _ _ iht ihr => ⟨iht, ihr⟩)
    trivial (fun _ _ _ iht ihr => ⟨iht, ihr⟩) t

end Asn1.X696
