import Asn1Proofs.Lemmas.CostUperTypes
/-
  C08 for the UPER model: fuel sufficiency.  The only fuel-indexed loop of the decoder is
  `decChunks` (`read_length_determinant_chunks`); every chunk costs at least 8 bits, so any amount of
  fuel larger than the number of remaining bits gives the same result: the out-of-fuel branch is dead.
-/
set_option linter.unusedSimpArgs false
set_option linter.unusedVariables false
namespace Asn1.Cost
open Asn1.Uper

theorem bind_congr_ok {α β : Type} {m : DecM α} {g g' : α → DecM β}
    (h : ∀ a, m = .ok a → g a = g' a) : (m >>= g) = (m >>= g') := by
  cases m with
  | error e => rfl
  | ok a => exact h a rfl

/-- a parser that never lengthens its input -/
def NI {α : Type} (p : Bits → DecM (α × Bits)) : Prop :=
  ∀ bs a r, p bs = .ok (a, r) → r.length ≤ bs.length

theorem ni_dec (t : Ty) (f : Nat) : NI (dec t f) := fun bs a r h => (szu_all t f bs a r h).1

theorem decRepeat_congr {α : Type} {p p' : Bits → DecM (α × Bits)} (hp : NI p) (n : Nat) :
    ∀ bs : Bits, (∀ b : Bits, b.length ≤ bs.length → p b = p' b) →
      decRepeat p n bs = decRepeat p' n bs := by
  induction n with
  | zero => intro bs _; rfl
  | succ n ih =>
    intro bs hpp
    simp only [decRepeat]
    rw [← hpp bs (Nat.le_refl _)]
    refine bind_congr_ok ?_
    rintro ⟨a, r⟩ h1
    have hl := hp _ _ _ h1
    dsimp only
    rw [ih r (fun b hb => hpp b (by omega))]

theorem ni_decRepeat {α : Type} {p : Bits → DecM (α × Bits)} (hp : NI p) (n : Nat) :
    NI (decRepeat p n) := by
  intro bs xs r h
  exact (decRepeat_ok (size := fun _ => 0) (K := 0)
    (fun bs a r h => ⟨hp bs a r h, by simp⟩) n h).1

/-- **fuel sufficiency of the chunk loop**: with more fuel than remaining bits, the result of
`decChunks` does not depend on the fuel (nor on how the item decoder behaves on longer inputs) -/
theorem decChunks_fuel {α : Type} {p p' : Bits → DecM (α × Bits)} (hp : NI p) (f : Nat) :
    ∀ (f' : Nat) (bs : Bits), (∀ b : Bits, b.length ≤ bs.length → p b = p' b) →
      bs.length < f → bs.length < f' → decChunks p f bs = decChunks p' f' bs := by
  induction f with
  | zero => intro f' bs _ h; omega
  | succ f ih =>
    intro f' bs hpp hf hf'
    obtain ⟨f'', rfl⟩ : ∃ k, f' = k + 1 := ⟨f' - 1, by omega⟩
    simp only [decChunks]
    refine bind_congr_ok ?_
    rintro ⟨len, r⟩ h1
    have hl := (readLenDet_ok h1).1
    dsimp only
    rw [← decRepeat_congr hp len r (fun b hb => hpp b (by omega))]
    refine bind_congr_ok ?_
    rintro ⟨xs, r'⟩ h2
    have hl2 := ni_decRepeat hp len _ _ _ h2
    dsimp only
    split
    · rfl
    · rw [ih f'' r' (fun b hb => hpp b (by omega)) (by omega) (by omega)]

/-- the out-of-fuel branch itself: `decChunks` answers `unmodelled` only if an item decoder does -/
theorem decChunks_fuel_self {α : Type} {p : Bits → DecM (α × Bits)} (hp : NI p) (f f' : Nat) (bs : Bits)
    (hf : bs.length < f) (hf' : bs.length < f') : decChunks p f bs = decChunks p f' bs :=
  decChunks_fuel hp f f' bs (fun _ _ => rfl) hf hf'

/-- fuel independence of the decoder of `t` -/
def FIU (t : Ty) : Prop :=
  ∀ (f f' : Nat) (bs : Bits), bs.length < f → bs.length < f' → dec t f bs = dec t f' bs

theorem fiu_boolean : FIU .boolean := by intro f f' bs _ _; simp only [dec]
theorem fiu_null : FIU .null := by intro f f' bs _ _; simp only [dec]
theorem fiu_integer (c : IntC) : FIU (.integer c) := by intro f f' bs _ _; simp only [dec]
theorem fiu_enumerated (root : List (String × Int)) (ext : Option (List (String × Int))) :
    FIU (.enumerated root ext) := by intro f f' bs _ _; simp only [dec]

theorem ni_readNat (n : Nat) : NI (readNat n) := fun bs a r h => by have := (readNat_ok h).1; omega
theorem ni_readBit : NI readBit := fun bs a r h => by have := readBit_ok h; omega

theorem fiu_octetString (c : SizeC) : FIU (.octetString c) := by
  intro f f' bs hf hf'
  rw [dec, dec]
  refine bind_congr_ok ?_
  rintro ⟨ext, r0⟩ h0
  have hl0 := optBit_ok h0
  dsimp only
  rw [decChunks_fuel_self (ni_readNat 8) f f' r0 (by omega) (by omega)]

theorem fiu_bitString (c : SizeC) : FIU (.bitString c) := by
  intro f f' bs hf hf'
  rw [dec, dec]
  refine bind_congr_ok ?_
  rintro ⟨ext, r0⟩ h0
  have hl0 := optBit_ok h0
  dsimp only
  rw [decChunks_fuel_self ni_readBit f f' r0 (by omega) (by omega)]

theorem fiu_utf8 (c : SizeC) : FIU (.charString .utf8 c) := by
  intro f f' bs hf hf'
  rw [dec, dec]
  rw [decChunks_fuel_self (ni_readNat 8) f f' bs (by omega) (by omega)]


theorem fiu_charString (k : StrKind) (hk : k ≠ .utf8) (c : SizeC) : FIU (.charString k c) := by
  intro f f' bs hf hf'
  rw [dec, dec]
  · refine bind_congr_ok ?_
    rintro ⟨ext, r0⟩ h0
    have hl0 := optBit_ok h0
    dsimp only
    rw [decChunks_fuel_self (fun bs a r h => Nat.le_of_lt (one_ok k hk bs a r h)) f f' r0
      (by omega) (by omega)]
  all_goals (first | exact hk | (intro c' heq; cases heq; exact hk rfl))

theorem fiu_sequenceOf (e : Ty) (c : SizeC) (ih : FIU e) : FIU (.sequenceOf e c) := by
  intro f f' bs hf hf'
  rw [dec, dec]
  refine bind_congr_ok ?_
  rintro ⟨ext, r0⟩ h0
  have hl0 := optBit_ok h0
  dsimp only
  have hrep : ∀ (n : Nat) (b : Bits), b.length ≤ bs.length →
      decRepeat (dec e f) n b = decRepeat (dec e f') n b := fun n b hb =>
    decRepeat_congr (ni_dec e f) n b (fun b' hb' => ih f f' b' (by omega) (by omega))
  split
  · refine bind_congr_ok ?_
    rintro ⟨len, r1⟩ h1
    have hl1 := (readLenDet_ok h1).1
    dsimp only
    rw [hrep len r1 (by omega)]
  · split
    · rw [decChunks_fuel (ni_dec e f) f f' r0 (fun b' hb' => ih f f' b' (by omega) (by omega))
        (by omega) (by omega)]
    · refine bind_congr_ok ?_
      rintro ⟨len, r1⟩ h1
      have hl1 := (optLen_ok h1).1
      dsimp only
      rw [hrep len r1 (by omega)]

theorem members_all_of_forall {P : Ty → Prop} (h : ∀ t, P t) : ∀ ms : Members, ms.All P := by
  intro ms
  induction ms using Members.ind with
  | nil => trivial
  | cons name p t rest ih => exact ⟨h t, ih⟩

theorem alts_all_of_forall {P : Ty → Prop} (h : ∀ t, P t) : ∀ as : Alts, as.All P := by
  intro as
  induction as using Alts.ind with
  | nil => trivial
  | cons name t rest ih => exact ⟨h t, ih⟩

theorem fiu_decMembers (ms : Members) : ms.All FIU → ∀ (f f' : Nat) (flags bs : Bits),
    bs.length < f → bs.length < f' → decMembers ms f flags bs = decMembers ms f' flags bs := by
  induction ms using Members.ind with
  | nil => intro _ f f' flags bs _ _; simp only [decMembers]
  | cons name p t rest ih =>
    intro hall f f' flags bs hf hf'
    obtain ⟨ht, hrest⟩ := hall
    have hpresent : ∀ fl, (do
          let (v, r) ← dec t f bs
          let (fs, r') ← decMembers rest f fl r
          .ok ((name, v) :: fs, r') : DecM (List (String × Val) × Bits)) = (do
          let (v, r) ← dec t f' bs
          let (fs, r') ← decMembers rest f' fl r
          .ok ((name, v) :: fs, r') : DecM (List (String × Val) × Bits)) := by
      intro fl
      rw [← ht f f' bs hf hf']
      refine bind_congr_ok ?_
      rintro ⟨v, r⟩ h1
      have hl := ni_dec t f _ _ _ h1
      dsimp only
      rw [ih hrest f f' fl r (by omega) (by omega)]
    cases p with
    | mandatory =>
      rw [decMembers, decMembers]
      exact hpresent flags
    | optional =>
      rw [decMembers.eq_def, decMembers.eq_def]
      dsimp only
      split
      · exact hpresent _
      · exact ih hrest f f' _ bs hf hf'
      · rfl
    | default d =>
      rw [decMembers.eq_def, decMembers.eq_def]
      dsimp only
      split
      · exact hpresent _
      · rw [ih hrest f f' _ bs hf hf']
      · rfl

theorem fiu_decAdditions (ms : Members) : ms.All FIU → ∀ (f f' : Nat) (bitmap bs : Bits),
    bs.length < f → bs.length < f' → decAdditions ms f bitmap bs = decAdditions ms f' bitmap bs := by
  induction ms using Members.ind with
  | nil => intro _ f f' bitmap bs _ _; simp only [decAdditions]
  | cons name p t rest ih =>
    intro hall f f' bitmap bs hf hf'
    obtain ⟨ht, hrest⟩ := hall
    cases bitmap with
    | nil => simp only [decAdditions]
    | cons present bitmap =>
      rw [decAdditions.eq_def, decAdditions.eq_def]
      dsimp only
      split
      · refine bind_congr_ok ?_
        rintro ⟨len, r1⟩ h1
        have hl1 := (readLenDet_ok h1).1
        dsimp only
        rw [← ht f f' r1 (by omega) (by omega)]
        refine bind_congr_ok ?_
        rintro ⟨v, r2⟩ h2
        have hl2 := ni_dec t f _ _ _ h2
        dsimp only
        refine bind_congr_ok ?_
        intro r3 h3
        have hl3 := skipPad_ok h3
        rw [ih hrest f f' bitmap r3 (by omega) (by omega)]
      · exact ih hrest f f' bitmap bs hf hf'

theorem fiu_sequence (root : Members) (ext : Bool) (adds : Members)
    (ihr : root.All FIU) (iha : adds.All FIU) : FIU (.sequence root ext adds) := by
  intro f f' bs hf hf'
  rw [dec, dec]
  refine bind_congr_ok ?_
  rintro ⟨e, r0⟩ h0
  have hl0 := optBit_ok h0
  dsimp only
  refine bind_congr_ok ?_
  rintro ⟨flags, r1⟩ h1
  have hl1 := (readBits_ok h1).1
  dsimp only
  rw [← fiu_decMembers root ihr f f' flags r1 (by omega) (by omega)]
  refine bind_congr_ok ?_
  rintro ⟨fields, r2⟩ h2
  have hl2 := (szu_decMembers root (members_all_of_forall szu_all root) f _ _ _ _ h2).1
  dsimp only
  split
  · refine bind_congr_ok ?_
    rintro ⟨n, r3⟩ h3
    have hl3 := decNsLength_ok h3
    dsimp only
    refine bind_congr_ok ?_
    rintro ⟨bitmap, r4⟩ h4
    have hl4 := (readBits_ok h4).1
    dsimp only
    rw [fiu_decAdditions adds iha f f' bitmap r4 (by omega) (by omega)]
  · rfl


theorem fiu_decAlt (as : Alts) : as.All FIU → ∀ (f f' i : Nat) (bs : Bits),
    bs.length < f → bs.length < f' → decAlt as f i bs = decAlt as f' i bs := by
  induction as using Alts.ind with
  | nil => intro _ f f' i bs _ _; rfl
  | cons n t rest ih =>
    intro hall f f' i bs hf hf'
    obtain ⟨ht, hrest⟩ := hall
    cases i with
    | zero => simp only [decAlt]; rw [ht f f' bs hf hf']
    | succ i => simp only [decAlt]; exact ih hrest f f' i bs hf hf'

theorem fiu_choice (root : Alts) (ext : Bool) (adds : Alts)
    (ihr : root.All FIU) (iha : adds.All FIU) : FIU (.choice root ext adds) := by
  intro f f' bs hf hf'
  rw [dec, dec]
  refine bind_congr_ok ?_
  rintro ⟨e, r0⟩ h0
  have hl0 := optBit_ok h0
  dsimp only
  split
  · refine bind_congr_ok ?_
    rintro ⟨idx, r1⟩ h1
    have hl1 := decNsnnwn_ok h1
    dsimp only
    refine bind_congr_ok ?_
    rintro ⟨len, r2⟩ h2
    have hl2 := (readLenDet_ok h2).1
    dsimp only
    rw [fiu_decAlt adds iha f f' idx r2 (by omega) (by omega)]
  · refine bind_congr_ok ?_
    rintro ⟨idx, r1⟩ h1
    have hl1 : r1.length ≤ r0.length := by
      split at h1
      · have := (readNat_ok h1).1; omega
      · cases h1; exact Nat.le_refl _
    dsimp only
    rw [fiu_decAlt root ihr f f' idx r1 (by omega) (by omega)]

/-- **fuel independence of the UPER decoder**, every type: any two amounts of fuel larger than the
number of remaining bits give the same result (value, remaining input, or error) -/
theorem fiu_all (t : Ty) : FIU t :=
  Ty.rec (motive_1 := FIU) (motive_2 := Members.All FIU) (motive_3 := Alts.All FIU)
    fiu_boolean fiu_null fiu_integer fiu_enumerated fiu_octetString fiu_bitString
    (fun k c => by
      by_cases hk : k = .utf8
      · subst hk; exact fiu_utf8 c
      · exact fiu_charString k hk c)
    (fun root ext adds ihr iha => fiu_sequence root ext adds ihr iha)
    (fun e c ih => fiu_sequenceOf e c ih)
    (fun root ext adds ihr iha => fiu_choice root ext adds ihr iha)
    trivial (fun _ _ _ _ iht ihr => ⟨iht, ihr⟩)
    trivial (fun _ _ _ iht ihr => ⟨iht, ihr⟩) t

theorem uper_dec_fuel (t : Ty) (f f' : Nat) (bs : Bits) (hf : bs.length < f) (hf' : bs.length < f') :
    dec t f bs = dec t f' bs := fiu_all t f f' bs hf hf'

/-- **UPER fuel sufficiency**: the fuel `8 * length + 2` of `Uper.decode` is never exhausted; giving
the decoder more fuel changes nothing -/
theorem uper_decode_fuel (t : Ty) (bs : Bytes) (f : Nat) (hf : 8 * bs.length + 2 ≤ f) :
    dec t f (bytesToBits bs) = dec t (8 * bs.length + 2) (bytesToBits bs) :=
  uper_dec_fuel t _ _ _ (by rw [bytesToBits_length]; omega) (by rw [bytesToBits_length]; omega)

/-- `utf8Dec` (the model of CPython's UTF-8 decoder, fuel = length + 1): more fuel than octets gives
the same answer, so its out-of-fuel `none` is never the reason for a `UnicodeDecodeError` -/
theorem utf8Dec_fuel (f : Nat) : ∀ (f' : Nat) (bs : Bytes), bs.length < f → bs.length < f' →
    utf8Dec f bs = utf8Dec f' bs := by
  induction f with
  | zero => intro f' bs h; omega
  | succ f ih =>
    intro f' bs hf hf'
    obtain ⟨f'', rfl⟩ : ∃ k, f' = k + 1 := ⟨f' - 1, by omega⟩
    cases bs with
    | nil => simp only [utf8Dec]
    | cons b r =>
      have e0 : utf8Dec f r = utf8Dec f'' r := ih f'' r (by simp at hf; omega) (by simp at hf'; omega)
      conv => lhs; unfold utf8Dec
      conv => rhs; unfold utf8Dec
      simp only [e0]
      repeat' split
      all_goals first
        | rfl
        | (rw [ih f''] <;> (simp only [List.length_cons] at hf hf'; omega))

end Asn1.Cost
