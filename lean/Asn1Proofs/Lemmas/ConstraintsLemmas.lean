import Asn1Model.Constraints
import Asn1Model.Typing
/-
  Lemmas for C11 / C12 (Asn1Proofs/Properties/C11.lean): the constraints-checker model
  `check` against the specification `admits` / `components` / `reach`.

  The unrestricted equivalence `check t v = none ↔ admits t v` is FALSE (see
  `Asn1.Constraints.iff_counterexample`): for a CHOICE whose additions repeat a root alternative
  name the checker only looks at the root alternative, while `components` lists both.  The
  equivalence holds under `Ty.altsDisjoint` (every nested CHOICE has root names disjoint from
  addition names), which `Ty.wf` implies.
-/
namespace Asn1

mutual
  /-- in every CHOICE nested in the type, no addition alternative repeats a root alternative name
  (X.680 requires all alternative names of a CHOICE to be distinct) -/
  def Ty.altsDisjoint : Ty → Bool
    | .sequence root _ adds => root.altsDisjoint && adds.altsDisjoint
    | .sequenceOf e _ => e.altsDisjoint
    | .choice root _ adds =>
      root.altsDisjoint && adds.altsDisjoint && root.names.all (fun n => !adds.names.contains n)
    | _ => true
  def Members.altsDisjoint : Members → Bool
    | .nil => true
    | .cons _ _ t rest => t.altsDisjoint && rest.altsDisjoint
  def Alts.altsDisjoint : Alts → Bool
    | .nil => true
    | .cons _ t rest => t.altsDisjoint && rest.altsDisjoint
end

mutual
  theorem Ty.altsDisjoint_of_wf (t : Ty) (h : t.wf = true) : t.altsDisjoint = true := by
    cases t with
    | sequence root e adds =>
      simp only [Ty.wf, Bool.and_eq_true] at h
      simp only [Ty.altsDisjoint, Bool.and_eq_true]
      exact ⟨Members.altsDisjoint_of_wf root h.1.1.1.1, Members.altsDisjoint_of_wf adds h.1.1.1.2⟩
    | sequenceOf e c =>
      simp only [Ty.wf, Bool.and_eq_true] at h
      simp only [Ty.altsDisjoint]
      exact Ty.altsDisjoint_of_wf e h.1
    | choice root ext adds =>
      simp only [Ty.wf, Bool.and_eq_true, decide_eq_true_eq] at h
      simp only [Ty.altsDisjoint, Bool.and_eq_true]
      refine ⟨⟨Alts.altsDisjoint_of_wf root h.1.1.1.1, Alts.altsDisjoint_of_wf adds h.1.1.1.2⟩, ?_⟩
      have hn := h.1.2
      rw [List.nodup_append] at hn
      simp only [List.all_eq_true, Bool.not_eq_true', List.contains_eq_mem, decide_eq_false_iff_not]
      intro n hn1 hn2
      exact hn.2.2 n hn1 n hn2 rfl
    | _ => simp [Ty.altsDisjoint]
  theorem Members.altsDisjoint_of_wf (ms : Members) (h : ms.wf = true) : ms.altsDisjoint = true := by
    cases ms with
    | nil => simp [Members.altsDisjoint]
    | cons n p t rest =>
      simp only [Members.wf, Bool.and_eq_true] at h
      simp only [Members.altsDisjoint, Bool.and_eq_true]
      exact ⟨Ty.altsDisjoint_of_wf t h.1, Members.altsDisjoint_of_wf rest h.2⟩
  theorem Alts.altsDisjoint_of_wf (as : Alts) (h : as.wf = true) : as.altsDisjoint = true := by
    cases as with
    | nil => simp [Alts.altsDisjoint]
    | cons n t rest =>
      simp only [Alts.wf, Bool.and_eq_true] at h
      simp only [Alts.altsDisjoint, Bool.and_eq_true]
      exact ⟨Ty.altsDisjoint_of_wf t h.1, Alts.altsDisjoint_of_wf rest h.2⟩
end

namespace Constraints

/-! ### the counterexample to the unrestricted equivalence -/

/-- a CHOICE whose addition repeats the root alternative name `"a"` with a tighter constraint -/
def cexTy : Ty :=
  .choice (.cons "a" (.integer ⟨none, none, false⟩) .nil) false
    (.cons "a" (.integer ⟨some 0, some 1, false⟩) .nil)

def cexVal : Val := .choice "a" (.int 5)

/-- `check` accepts (it only looks at the root alternative) although a component of the value (the
additions' `"a"`) violates its constraint, so `admits` is false -/
theorem iff_counterexample :
    check cexTy cexVal = none ∧ admits cexTy cexVal = false ∧
      ((Ty.integer ⟨some 0, some 1, false⟩, Val.int 5) ∈ components cexTy cexVal ∧
        localOk (Ty.integer ⟨some 0, some 1, false⟩) (Val.int 5) = false) := by
  refine ⟨by decide +kernel, by decide +kernel, ?_, by decide +kernel⟩
  simp [cexTy, cexVal, components, componentsAlt]

/-! ### basic vocabulary -/

/-- the per-component test of `admits` -/
def compOk (p : Ty × Val) : Bool := localOk p.1 p.2 && altKnown p.1 p.2

theorem admits_eq (t : Ty) (v : Val) : admits t v = (components t v).all compOk := rfl

/-- a component that violates its own constraint -/
def Bad (c : Ty × Val) : Prop := localOk c.1 c.2 = false ∨ altKnown c.1 c.2 = false

theorem bad_iff (c : Ty × Val) : Bad c ↔ compOk c = false := by
  unfold Bad compOk
  cases localOk c.1 c.2 <;> cases altKnown c.1 c.2 <;> simp

/-- the (type, value) shapes on which `check` / `components` recurse -/
def composite : Ty → Val → Bool
  | .sequence _ _ _, .record _ => true
  | .sequenceOf _ _, .list _ => true
  | .choice _ _ _, .choice _ _ => true
  | _, _ => false

theorem check_leaf (t : Ty) (v : Val) (h : composite t v = false) :
    check t v = if localOk t v then none else some [] := by
  revert h
  fun_cases composite t v
  · simp
  · simp
  · simp
  · next h1 h2 h3 =>
    intro _
    exact check.eq_4 t v h1 h2 h3

theorem components_leaf (t : Ty) (v : Val) (h : composite t v = false) :
    components t v = [(t, v)] := by
  revert h
  fun_cases composite t v
  · simp
  · simp
  · simp
  · next h1 h2 h3 =>
    intro _
    exact components.eq_4 t v h1 h2 h3

theorem altKnown_leaf (t : Ty) (v : Val) (h : composite t v = false) : altKnown t v = true := by
  revert h
  fun_cases composite t v
  · simp
  · simp
  · simp
  · next h1 h2 h3 =>
    intro _
    exact altKnown.eq_2 t v h3

theorem reach_leaf_nil (t : Ty) (v : Val) (h : composite t v = false) :
    reach t v [] = [(t, v)] := by
  revert h
  fun_cases composite t v
  · simp
  · simp
  · simp
  · next h1 h2 h3 =>
    intro _
    exact reach.eq_4 t v h2

/-! ### `firstSome` -/

theorem firstSome_eq_none_iff {α β : Type} (f : α → Option β) (l : List α) :
    firstSome f l = none ↔ ∀ x ∈ l, f x = none := by
  induction l with
  | nil => simp [firstSome]
  | cons x r ih =>
    simp only [firstSome]
    split <;> simp_all

theorem firstSome_eq_some {α β : Type} (f : α → Option β) (l : List α) (y : β)
    (h : firstSome f l = some y) : ∃ x ∈ l, f x = some y := by
  induction l with
  | nil => simp [firstSome] at h
  | cons x r ih =>
    simp only [firstSome] at h
    split at h
    · next z hz => exact ⟨x, by simp, by simpa [hz] using h⟩
    · obtain ⟨x', hx', hfx⟩ := ih h
      exact ⟨x', by simp [hx'], hfx⟩

/-! ### alternatives: which one is selected -/

theorem checkAlt_eq_none_iff (n : String) (v : Val) :
    (as : Alts) → (checkAlt as n v = none ↔ as.names.contains n = false)
  | .nil => by simp [checkAlt, Alts.names]
  | .cons m t rest => by
    have ih := checkAlt_eq_none_iff n v rest
    by_cases hm : m = n
    · subst hm; simp [checkAlt, Alts.names]
    · have hm' : ¬ n = m := fun e => hm e.symm
      simp [checkAlt, Alts.names, hm, hm', ih]

theorem componentsAlt_eq_nil (n : String) (v : Val) :
    (as : Alts) → as.names.contains n = false → componentsAlt as n v = []
  | .nil, _ => by simp [componentsAlt]
  | .cons m t rest, h => by
    by_cases hm : m = n
    · subst hm; simp [Alts.names] at h
    · have hm' : ¬ n = m := fun e => hm e.symm
      simp only [Alts.names, List.contains_cons, Bool.or_eq_false_iff] at h
      simp [componentsAlt, hm, componentsAlt_eq_nil n v rest h.2]

theorem altKnown_choice (root adds : Alts) (ext : Bool) (n : String) (v : Val) :
    altKnown (.choice root ext adds) (.choice n v) =
      (ext || (root.names.contains n || adds.names.contains n)) := by
  simp [altKnown, List.contains_eq_mem, List.mem_append, Bool.decide_or]


/-! ### A. everything inside its constraints ⇒ accepted (unconditional) -/

theorem check_none_of_all_leaf (t : Ty) (v : Val) (hc : composite t v = false)
    (h : (components t v).all compOk = true) : check t v = none := by
  rw [components_leaf t v hc] at h
  rw [check_leaf t v hc]
  simp only [List.all_cons, List.all_nil, Bool.and_true, compOk, Bool.and_eq_true] at h
  simp [h.1]

mutual
  theorem check_none_of_all (t : Ty) (v : Val) (h : (components t v).all compOk = true) :
      check t v = none := by
    cases t with
    | sequence root e adds =>
      cases v with
      | record fs =>
        simp only [components, List.all_cons, List.all_append, Bool.and_eq_true] at h
        simp only [check]
        rw [checkMembers_none_of_all root fs h.2.1, checkMembers_none_of_all adds fs h.2.2]
      | _ => exact check_none_of_all_leaf _ _ rfl h
    | sequenceOf e c =>
      cases v with
      | list vs =>
        simp only [components, List.all_cons, List.all_flatMap, Bool.and_eq_true, List.all_eq_true] at h
        have hs : sizeOk c vs.length = true := by simpa [compOk, localOk, altKnown] using h.1
        simp only [check, hs, Bool.not_true, Bool.false_eq_true, if_false]
        rw [firstSome_eq_none_iff]
        intro x hx
        exact check_none_of_all e x (by simpa [List.all_eq_true] using h.2 x hx)
      | _ => exact check_none_of_all_leaf _ _ rfl h
    | choice root ext adds =>
      cases v with
      | choice n v =>
        simp only [components, List.all_cons, List.all_append, Bool.and_eq_true, compOk,
          altKnown_choice] at h
        simp only [check]
        rcases checkAlt_of_all root n v h.2.1 with hr | hr
        · rcases checkAlt_of_all adds n v h.2.2 with ha | ha
          · have h1 := (checkAlt_eq_none_iff n v root).1 hr
            have h2 := (checkAlt_eq_none_iff n v adds).1 ha
            have h3 := h.1.2
            simp only [h1, h2, Bool.or_false] at h3
            simp [hr, ha, h3]
          · simp [hr, ha]
        · simp [hr]
      | _ => exact check_none_of_all_leaf _ _ rfl h
    | _ => exact check_none_of_all_leaf _ _ (by cases v <;> rfl) h
  theorem checkMembers_none_of_all (ms : Members) (fs : List (String × Val))
      (h : (componentsMembers ms fs).all compOk = true) : checkMembers ms fs = none := by
    cases ms with
    | nil => simp [checkMembers]
    | cons name p t rest =>
      simp only [componentsMembers, List.all_append, Bool.and_eq_true] at h
      simp only [checkMembers]
      cases hl : lookup name fs with
      | none => simpa using checkMembers_none_of_all rest fs h.2
      | some x =>
        simp only [hl] at h
        simp only [check_none_of_all t x h.1]
        exact checkMembers_none_of_all rest fs h.2
  theorem checkAlt_of_all (as : Alts) (n : String) (v : Val)
      (h : (componentsAlt as n v).all compOk = true) :
      checkAlt as n v = none ∨ checkAlt as n v = some none := by
    cases as with
    | nil => simp [checkAlt]
    | cons m t rest =>
      simp only [componentsAlt] at h
      simp only [checkAlt]
      by_cases hm : (m == n) = true
      · simp only [hm, if_true] at h ⊢
        simp [check_none_of_all t v h]
      · simp only [hm] at h ⊢
        exact checkAlt_of_all rest n v h
end

/-! ### B. accepted ⇒ everything inside its constraints (needs `altsDisjoint`) -/

theorem all_of_check_none_leaf (t : Ty) (v : Val) (hc : composite t v = false)
    (h : check t v = none) : (components t v).all compOk = true := by
  rw [components_leaf t v hc]
  rw [check_leaf t v hc] at h
  have hl : localOk t v = true := by
    cases hb : localOk t v
    · simp [hb] at h
    · rfl
  simp [compOk, hl, altKnown_leaf t v hc]

mutual
  theorem all_of_check_none (t : Ty) (v : Val) (hd : t.altsDisjoint = true)
      (h : check t v = none) : (components t v).all compOk = true := by
    cases t with
    | sequence root e adds =>
      cases v with
      | record fs =>
        simp only [Ty.altsDisjoint, Bool.and_eq_true] at hd
        simp only [check] at h
        have hr : checkMembers root fs = none := by
          cases hr : checkMembers root fs
          · rfl
          · simp [hr] at h
        simp only [hr] at h
        simp only [components, List.all_cons, List.all_append, Bool.and_eq_true]
        refine ⟨by simp [compOk, localOk, altKnown], all_of_checkMembers_none root fs hd.1 hr,
          all_of_checkMembers_none adds fs hd.2 h⟩
      | _ => exact all_of_check_none_leaf _ _ rfl h
    | sequenceOf e c =>
      cases v with
      | list vs =>
        simp only [Ty.altsDisjoint] at hd
        simp only [check] at h
        have hs : sizeOk c vs.length = true := by
          cases hs : sizeOk c vs.length
          · simp [hs] at h
          · rfl
        simp only [hs, Bool.not_true, Bool.false_eq_true, if_false] at h
        rw [firstSome_eq_none_iff] at h
        simp only [components, List.all_cons, List.all_flatMap, Bool.and_eq_true, List.all_eq_true]
        refine ⟨by simp [compOk, localOk, altKnown, hs], ?_⟩
        intro x hx
        have := all_of_check_none e x hd (h x hx)
        simpa [List.all_eq_true] using this
      | _ => exact all_of_check_none_leaf _ _ rfl h
    | choice root ext adds =>
      cases v with
      | choice n v =>
        simp only [Ty.altsDisjoint, Bool.and_eq_true, List.all_eq_true, Bool.not_eq_true'] at hd
        simp only [check] at h
        simp only [components, List.all_cons, List.all_append, Bool.and_eq_true, compOk,
          altKnown_choice, localOk, Bool.true_and]
        cases hr : checkAlt root n v with
        | some r =>
          simp only [hr] at h
          subst h
          have hin : root.names.contains n = true := by
            cases hin : root.names.contains n
            · rw [(checkAlt_eq_none_iff n v root).2 hin] at hr; simp at hr
            · rfl
          have hout : adds.names.contains n = false :=
            hd.2 n (by simpa [List.contains_eq_mem] using hin)
          refine ⟨by rw [hin]; simp, all_of_checkAlt root n v hd.1.1 hr, ?_⟩
          simp [componentsAlt_eq_nil n v adds hout]
        | none =>
          have hin := (checkAlt_eq_none_iff n v root).1 hr
          simp only [hr] at h
          cases ha : checkAlt adds n v with
          | some r =>
            simp only [ha] at h
            subst h
            have hina : adds.names.contains n = true := by
              cases hina : adds.names.contains n
              · rw [(checkAlt_eq_none_iff n v adds).2 hina] at ha; simp at ha
              · rfl
            refine ⟨by rw [hina]; simp, ?_, all_of_checkAlt adds n v hd.1.2 ha⟩
            simp [componentsAlt_eq_nil n v root hin]
          | none =>
            have hina := (checkAlt_eq_none_iff n v adds).1 ha
            simp only [ha] at h
            have he : ext = true := by
              cases ext
              · simp at h
              · rfl
            refine ⟨by simp [he], ?_, ?_⟩
            · simp [componentsAlt_eq_nil n v root hin]
            · simp [componentsAlt_eq_nil n v adds hina]
      | _ => exact all_of_check_none_leaf _ _ rfl h
    | _ => exact all_of_check_none_leaf _ _ (by cases v <;> rfl) h
  theorem all_of_checkMembers_none (ms : Members) (fs : List (String × Val))
      (hd : ms.altsDisjoint = true) (h : checkMembers ms fs = none) :
      (componentsMembers ms fs).all compOk = true := by
    cases ms with
    | nil => simp [componentsMembers]
    | cons name p t rest =>
      simp only [Members.altsDisjoint, Bool.and_eq_true] at hd
      simp only [checkMembers] at h
      simp only [componentsMembers, List.all_append, Bool.and_eq_true]
      cases hl : lookup name fs with
      | none =>
        simp only [hl] at h
        exact ⟨by simp, all_of_checkMembers_none rest fs hd.2 h⟩
      | some x =>
        simp only [hl] at h
        cases hc : check t x with
        | some q => simp [hc] at h
        | none =>
          simp only [hc] at h
          exact ⟨all_of_check_none t x hd.1 hc, all_of_checkMembers_none rest fs hd.2 h⟩
  theorem all_of_checkAlt (as : Alts) (n : String) (v : Val) (hd : as.altsDisjoint = true)
      (h : checkAlt as n v = some none) : (componentsAlt as n v).all compOk = true := by
    cases as with
    | nil => simp [componentsAlt]
    | cons m t rest =>
      simp only [Alts.altsDisjoint, Bool.and_eq_true] at hd
      simp only [checkAlt] at h
      simp only [componentsAlt]
      by_cases hm : (m == n) = true
      · simp only [hm, if_true] at h ⊢
        have hc : check t v = none := by
          cases hc : check t v
          · rfl
          · simp [hc] at h
        exact all_of_check_none t v hd.1 hc
      · simp only [hm] at h ⊢
        exact all_of_checkAlt rest n v hd.2 h
end

theorem check_none_iff_admits (t : Ty) (v : Val) (hd : t.altsDisjoint = true) :
    check t v = none ↔ admits t v = true :=
  ⟨all_of_check_none t v hd, check_none_of_all t v⟩

/-! ### C. the reported path leads to a violating component (unconditional) -/

theorem path_leaf (t : Ty) (v : Val) (p : List String) (hc : composite t v = false)
    (h : check t v = some p) : ∃ c ∈ reach t v p, Bad c := by
  rw [check_leaf t v hc] at h
  cases hl : localOk t v
  · simp only [hl, Bool.false_eq_true, if_false, Option.some.injEq] at h
    subst h
    rw [reach_leaf_nil t v hc]
    exact ⟨(t, v), by simp, Or.inl hl⟩
  · simp [hl] at h

mutual
  theorem path_check (t : Ty) (v : Val) (p : List String) (h : check t v = some p) :
      ∃ c ∈ reach t v p, Bad c := by
    cases t with
    | sequence root e adds =>
      cases v with
      | record fs =>
        simp only [check] at h
        have key : ∃ name p', p = name :: p' ∧
            ((∃ c ∈ reachMembers root fs name p', Bad c) ∨ (∃ c ∈ reachMembers adds fs name p', Bad c)) := by
          cases hr : checkMembers root fs with
          | some q =>
            simp only [hr, Option.some.injEq] at h
            subst h
            obtain ⟨name, p', hp, hc⟩ := path_members root fs q hr
            exact ⟨name, p', hp, Or.inl hc⟩
          | none =>
            simp only [hr] at h
            obtain ⟨name, p', hp, hc⟩ := path_members adds fs p h
            exact ⟨name, p', hp, Or.inr hc⟩
        obtain ⟨name, p', rfl, hc⟩ := key
        simp only [reach, List.mem_append]
        rcases hc with ⟨c, hc, hb⟩ | ⟨c, hc, hb⟩
        · exact ⟨c, Or.inl hc, hb⟩
        · exact ⟨c, Or.inr hc, hb⟩
      | _ => exact path_leaf _ _ _ rfl h
    | sequenceOf e c =>
      cases v with
      | list vs =>
        simp only [check] at h
        cases hs : sizeOk c vs.length with
        | false =>
          simp only [hs, Bool.not_false, if_true, Option.some.injEq] at h
          subst h
          refine ⟨(.sequenceOf e c, .list vs), by simp [reach], Or.inl ?_⟩
          simp [localOk, hs]
        | true =>
          simp only [hs, Bool.not_true, Bool.false_eq_true, if_false] at h
          obtain ⟨x, hx, hcx⟩ := firstSome_eq_some _ _ _ h
          obtain ⟨c', hc', hb⟩ := path_check e x p hcx
          refine ⟨c', ?_, hb⟩
          simp only [reach, List.mem_append, List.mem_flatMap]
          exact Or.inr ⟨x, hx, hc'⟩
      | _ => exact path_leaf _ _ _ rfl h
    | choice root ext adds =>
      cases v with
      | choice n v =>
        simp only [check] at h
        cases hr : checkAlt root n v with
        | some r =>
          simp only [hr] at h
          subst h
          obtain ⟨p', rfl, c, hc, hb⟩ := path_alt root n v p hr
          exact ⟨c, by simp [reach, hc], hb⟩
        | none =>
          simp only [hr] at h
          cases ha : checkAlt adds n v with
          | some r =>
            simp only [ha] at h
            subst h
            obtain ⟨p', rfl, c, hc, hb⟩ := path_alt adds n v p ha
            exact ⟨c, by simp [reach, hc], hb⟩
          | none =>
            simp only [ha] at h
            have h1 := (checkAlt_eq_none_iff n v root).1 hr
            have h2 := (checkAlt_eq_none_iff n v adds).1 ha
            cases ext with
            | true => simp at h
            | false =>
              simp only [Bool.false_eq_true, if_false, Option.some.injEq] at h
              subst h
              refine ⟨(.choice root false adds, .choice n v), by simp [reach], Or.inr ?_⟩
              show altKnown _ _ = false
              rw [altKnown_choice, h1, h2]; rfl
      | _ => exact path_leaf _ _ _ rfl h
    | _ => exact path_leaf _ _ _ (by cases v <;> rfl) h
  theorem path_members (ms : Members) (fs : List (String × Val)) (p : List String)
      (h : checkMembers ms fs = some p) :
      ∃ name p', p = name :: p' ∧ ∃ c ∈ reachMembers ms fs name p', Bad c := by
    cases ms with
    | nil => simp [checkMembers] at h
    | cons m pr t rest =>
      simp only [checkMembers] at h
      have tail : checkMembers rest fs = some p →
          ∃ name p', p = name :: p' ∧ ∃ c ∈ reachMembers (.cons m pr t rest) fs name p', Bad c := by
        intro h'
        obtain ⟨name, p', hp, c, hc, hb⟩ := path_members rest fs p h'
        exact ⟨name, p', hp, c, by simp [reachMembers, hc], hb⟩
      cases hl : lookup m fs with
      | none =>
        simp only [hl] at h
        exact tail h
      | some x =>
        simp only [hl] at h
        cases hc : check t x with
        | none =>
          simp only [hc] at h
          exact tail h
        | some q =>
          simp only [hc, Option.some.injEq] at h
          subst h
          obtain ⟨c, hcr, hb⟩ := path_check t x q hc
          exact ⟨m, q, rfl, c, by simp [reachMembers, hl, hcr], hb⟩
  theorem path_alt (as : Alts) (n : String) (v : Val) (p : List String)
      (h : checkAlt as n v = some (some p)) :
      ∃ p', p = n :: p' ∧ ∃ c ∈ reachAlt as n v p', Bad c := by
    cases as with
    | nil => simp [checkAlt] at h
    | cons m t rest =>
      simp only [checkAlt] at h
      by_cases hm : (m == n) = true
      · simp only [hm, if_true, Option.some.injEq] at h
        cases hc : check t v with
        | none => simp [hc] at h
        | some q =>
          simp only [hc, Option.map_some, Option.some.injEq] at h
          subst h
          obtain ⟨c, hcr, hb⟩ := path_check t v q hc
          exact ⟨q, rfl, c, by simp [reachAlt, hm, hcr], hb⟩
      · simp only [hm] at h
        obtain ⟨p', hp, c, hc, hb⟩ := path_alt rest n v p h
        exact ⟨p', hp, c, by simp [reachAlt, hm, hc], hb⟩
end

end Constraints
end Asn1
