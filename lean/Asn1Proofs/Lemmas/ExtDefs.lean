import Asn1Model.Extension
import Asn1Model.X690Value
import Asn1Model.OerTyping
import Asn1Proofs.Lemmas.UperMembers
import Asn1Proofs.Lemmas.UperBeq
/-
  C07: codec-independent definitions for the cross-version theorems.

  The forward direction (V1 decodes V2 bytes) and the backward direction (V2 decodes V1 bytes)
  are both instances of ONE statement about a decoder type `tD` and an encoder type `tE` that
  agree up to the tails of their extension additions:

      Compat tD tE → … → enc tE v = .ok bits → dec tD (bits ++ rest) = .ok (view tD tE v, rest)

  * `Compat tD tE`: same skeleton; the additions of a SEQUENCE / CHOICE / ENUMERATED of either
    side may go on after the other side's end (`Extends t1 t2 → Compat t1 t2 ∧ Compat t2 t1`);
  * `view fa tD tE v`: what the decoder for `tD` returns for an encoding of `v` under `tE`
    (`fa`: DEFAULTs of absent additions are filled in -- true for BER / DER, false for PER / OER);
  * `canonG fa`: `Typing.canon` (`fa = false`) and `X690.canonV` (`fa = true`) in one definition;
  * `dOk fa tD tE`: every DEFAULT value of a member known to both sides is seen as itself.
-/
set_option linter.unusedSimpArgs false
set_option linter.unusedVariables false
namespace Asn1.Ext
open Asn1

/-! ### `canon` and `canonV` as one function -/

mutual
  def canonG (fa : Bool) : Ty → Val → Val
    | .bitString _, .bits data n => .bits (cleanBits data n) n
    | .sequence root _ adds, .record fs =>
      .record (canonMembersG fa root fs true ++ canonMembersG fa adds fs fa)
    | .sequenceOf e _, .list vs => .list (vs.map (canonG fa e))
    | .choice root _ adds, .choice n v =>
      match canonAltG fa root n v with
      | some w => .choice n w
      | none => match canonAltG fa adds n v with
        | some w => .choice n w
        | none => .choice n v
    | _, v => v
  def canonMembersG (fa : Bool) : Members → List (String × Val) → Bool → List (String × Val)
    | .nil, _, _ => []
    | .cons name p t rest, fs, fill =>
      match lookup name fs with
      | some v => (name, canonG fa t v) :: canonMembersG fa rest fs fill
      | none =>
        match p with
        | .default d => if fill then (name, d) :: canonMembersG fa rest fs fill
                        else canonMembersG fa rest fs fill
        | _ => canonMembersG fa rest fs fill
  def canonAltG (fa : Bool) : Alts → String → Val → Option Val
    | .nil, _, _ => none
    | .cons n t rest, name, v => if n == name then some (canonG fa t v) else canonAltG fa rest name v
end

mutual
  /-- `Ty.defaultsOk` (`fa = false`) and `X690.defaultsOkV` (`fa = true`) in one definition -/
  def defaultsOkG (fa : Bool) : Ty → Bool
    | .sequence root _ adds => membersDefaultsOkG fa root && membersDefaultsOkG fa adds
    | .sequenceOf e _ => defaultsOkG fa e
    | .choice root _ adds => altsDefaultsOkG fa root && altsDefaultsOkG fa adds
    | _ => true
  def membersDefaultsOkG (fa : Bool) : Members → Bool
    | .nil => true
    | .cons _ p t rest =>
      (match p with
       | .default d => hasType t d && (canonG fa t d == d)
       | _ => true) && defaultsOkG fa t && membersDefaultsOkG fa rest
  def altsDefaultsOkG (fa : Bool) : Alts → Bool
    | .nil => true
    | .cons _ t rest => defaultsOkG fa t && altsDefaultsOkG fa rest
end

/-! ### decoder type / encoder type -/

mutual
  /-- `Compat tD tE`: the decoder's type and the encoder's type are two versions of one type -/
  inductive Compat : Ty → Ty → Prop
    | boolean : Compat .boolean .boolean
    | null : Compat .null .null
    | integer (c : IntC) : Compat (.integer c) (.integer c)
    | octetString (c : SizeC) : Compat (.octetString c) (.octetString c)
    | bitString (c : SizeC) : Compat (.bitString c) (.bitString c)
    | charString (k : StrKind) (c : SizeC) : Compat (.charString k c) (.charString k c)
    | enumerated (root : List (String × Int)) : Compat (.enumerated root none) (.enumerated root none)
    /-- the encoder knows the items `new` the decoder does not know -/
    | enumeratedD (root adds new : List (String × Int)) :
        Compat (.enumerated root (some adds)) (.enumerated root (some (adds ++ new)))
    /-- the decoder knows the items `new` the encoder does not know -/
    | enumeratedE (root adds new : List (String × Int)) :
        Compat (.enumerated root (some (adds ++ new))) (.enumerated root (some adds))
    | sequence {rD rE aD aE : Members} (x : Bool) :
        CompatMembers rD rE → CompatAdds aD aE → Compat (.sequence rD x aD) (.sequence rE x aE)
    | sequenceOf {eD eE : Ty} (c : SizeC) : Compat eD eE → Compat (.sequenceOf eD c) (.sequenceOf eE c)
    | choice {rD rE aD aE : Alts} (x : Bool) :
        CompatAlts rD rE → CompatAltAdds aD aE → Compat (.choice rD x aD) (.choice rE x aE)
  inductive CompatMembers : Members → Members → Prop
    | nil : CompatMembers .nil .nil
    | cons {tD tE : Ty} {mD mE : Members} (name : String) (p : Presence) :
        Compat tD tE → CompatMembers mD mE → CompatMembers (.cons name p tD mD) (.cons name p tE mE)
  inductive CompatAdds : Members → Members → Prop
    /-- the decoder knows no further additions -/
    | nilD (ms : Members) : CompatAdds .nil ms
    /-- the encoder knows no further additions; those only the decoder knows are omissible -/
    | nilE (ms : Members) : allOmissible ms = true → CompatAdds ms .nil
    | cons {tD tE : Ty} {mD mE : Members} (name : String) (p : Presence) :
        Compat tD tE → CompatAdds mD mE → CompatAdds (.cons name p tD mD) (.cons name p tE mE)
  inductive CompatAlts : Alts → Alts → Prop
    | nil : CompatAlts .nil .nil
    | cons {tD tE : Ty} {mD mE : Alts} (name : String) :
        Compat tD tE → CompatAlts mD mE → CompatAlts (.cons name tD mD) (.cons name tE mE)
  inductive CompatAltAdds : Alts → Alts → Prop
    | nilD (as : Alts) : CompatAltAdds .nil as
    | nilE (as : Alts) : CompatAltAdds as .nil
    | cons {tD tE : Ty} {mD mE : Alts} (name : String) :
        Compat tD tE → CompatAltAdds mD mE → CompatAltAdds (.cons name tD mD) (.cons name tE mE)
end

mutual
  /-- the value the decoder for `tD` returns for an encoding of `v` under `tE` -/
  def view (fa : Bool) : Ty → Ty → Val → Val
    | .bitString _, _, .bits data n => .bits (cleanBits data n) n
    | .enumerated root ext, _, .enum n =>
      if (namesOf root).contains n || (match ext with | some a => (namesOf a).contains n | none => false)
      then .enum n else .absent
    | .sequence rD _ aD, .sequence rE _ aE, .record fs =>
      .record (viewMembers fa rD rE fs true ++ viewMembers fa aD aE fs fa)
    | .sequenceOf eD _, .sequenceOf eE _, .list vs => .list (vs.map (view fa eD eE))
    | .choice rD _ aD, .choice rE _ aE, .choice n v =>
      match viewAlt fa rD rE n v with
      | some w => .choice n w
      | none =>
        match viewAlt fa aD aE n v with
        | some w => .choice n w
        | none => .choice "" .absent
    | _, _, v => v
  /-- `fill`: absent DEFAULT members get their default -/
  def viewMembers (fa : Bool) : Members → Members → List (String × Val) → Bool → List (String × Val)
    | .nil, _, _, _ => []
    | .cons n p tD mD, .cons _ _ tE mE, fs, fill =>
      match lookup n fs with
      | some v => (n, view fa tD tE v) :: viewMembers fa mD mE fs fill
      | none =>
        match p with
        | .default d => if fill then (n, d) :: viewMembers fa mD mE fs fill
                        else viewMembers fa mD mE fs fill
        | _ => viewMembers fa mD mE fs fill
    -- members only the decoder knows: never present in a value of the encoder's type
    | .cons n p _ mD, .nil, fs, fill =>
      match p with
      | .default d => if fill then (n, d) :: viewMembers fa mD .nil fs fill
                      else viewMembers fa mD .nil fs fill
      | _ => viewMembers fa mD .nil fs fill
  def viewAlt (fa : Bool) : Alts → Alts → String → Val → Option Val
    | .cons n tD mD, .cons _ tE mE, name, v =>
      if n == name then some (view fa tD tE v) else viewAlt fa mD mE name v
    | _, _, _, _ => none
end

mutual
  /-- every DEFAULT value of a member both sides know is seen by the decoder as itself -/
  def dOk (fa : Bool) : Ty → Ty → Prop
    | .sequence rD _ aD, .sequence rE _ aE => dOkMembers fa rD rE ∧ dOkMembers fa aD aE
    | .sequenceOf eD _, .sequenceOf eE _ => dOk fa eD eE
    | .choice rD _ aD, .choice rE _ aE => dOkAlts fa rD rE ∧ dOkAlts fa aD aE
    | _, _ => True
  def dOkMembers (fa : Bool) : Members → Members → Prop
    | .cons _ p tD mD, .cons _ _ tE mE =>
      (match p with
       | .default d => view fa tD tE d = d
       | _ => True) ∧ dOk fa tD tE ∧ dOkMembers fa mD mE
    | _, _ => True
  def dOkAlts (fa : Bool) : Alts → Alts → Prop
    | .cons _ tD mD, .cons _ tE mE => dOk fa tD tE ∧ dOkAlts fa mD mE
    | _, _ => True
end

/-! ### statements (proved below / in `ExtLemmas.lean`) -/

end Asn1.Ext
