import Asn1Proofs.Lemmas.X696Leaf
/-
  C06, SEQUENCE OF and CHOICE.
-/
set_option linter.unusedSimpArgs false
namespace Asn1.X696
open Asn1.Uper (Err utf8Enc)

theorem mapM_congr {α β : Type} (f g : α → EncM β) (l : List α) (h : ∀ x ∈ l, f x = g x) :
    l.mapM f = l.mapM g := by
  induction l with
  | nil => rw [Oer.mapM_nil', Oer.mapM_nil']
  | cons a l ih =>
    rw [Oer.mapM_cons', Oer.mapM_cons', h a (by simp), ih (fun x hx => h x (by simp [hx]))]

theorem flatMap_eq_nil' {α β : Type} (f : α → List β) (l : List α) (h : l.flatMap f = []) :
    ∀ x ∈ l, f x = [] := by
  intro x hx
  rw [List.flatMap_eq_nil_iff] at h
  exact h x hx

theorem ref_sequenceOf (e : Ty) (c : SizeC) (ih : REF e) : REF (.sequenceOf e c) := by
  intro v hwf ht hd
  cases v with
  | list vs =>
    simp only [Ty.wf, Bool.and_eq_true] at hwf
    simp only [hasType, Bool.and_eq_true, List.all_eq_true] at ht
    rw [devs] at hd
    have hall := flatMap_eq_nil' _ _ hd
    have hm : vs.mapM (Oer.enc e) = vs.mapM (enc e) :=
      mapM_congr _ _ _ (fun x hx => ih x hwf.1 (ht.1 x hx) (hall x hx))
    rw [Oer.enc, enc, hm, varUnsigned_eq]
    cases List.mapM (enc e) vs <;> cases Oer.encUnsigned vs.length <;> rfl
  | _ => simp [hasType] at ht

/-! ### CHOICE -/

theorem encAlt_find (as : Alts) (name : String) (v : Val) (i : Nat) :
    encAlt as name v i = (as.findO name).map (fun x => (i + x.1, enc x.2 v)) := by
  induction as using Alts.ind generalizing i with
  | nil => rfl
  | cons n t rest ih =>
    simp only [encAlt, Alts.findO]
    split
    · rfl
    · rw [ih]
      cases rest.findO name with
      | none => rfl
      | some x => simp only [Option.map_some]; congr 2; omega

theorem devsAlt_find (as : Alts) (name : String) (v : Val) :
    devsAlt as name v = (match as.findO name with | some x => devs x.2 v | none => []) := by
  induction as using Alts.ind with
  | nil => rfl
  | cons n t rest ih =>
    simp only [devsAlt, Alts.findO]
    split
    · rfl
    · rw [ih]
      cases rest.findO name <;> rfl

theorem ref_choice (root : Alts) (ext : Bool) (adds : Alts)
    (ihr : root.AllO REF) (iha : adds.AllO REF) : REF (.choice root ext adds) := by
  intro v hwf ht hd
  cases v with
  | choice name w =>
    simp only [Ty.wf, Bool.and_eq_true, decide_eq_true_eq] at hwf
    obtain ⟨⟨⟨⟨hwr, hwa⟩, _⟩, hnd⟩, _⟩ := hwf
    rw [hasType] at ht
    rw [devs, List.append_eq_nil_iff, devsAlt_find, devsAlt_find] at hd
    rw [Oer.enc, enc, Oer.encAlt_find, Oer.encAlt_find, encAlt_find, encAlt_find]
    rcases Oer.choice_typed hnd ht with ⟨j, t, hf, hty⟩ | ⟨hf, j, t, hfa, hty⟩
    · have href : REF t := find_all_oer name root j t hf ihr
      have hwt : t.wf = true := find_all_oer name root j t hf (alts_all_wf_oer root hwr)
      have hdt : devs t w = [] := by simpa [hf] using hd.1
      simp only [hf, Option.map_some, href w hwt hty hdt, tagOctets_eq]
      cases enc t w <;> rfl
    · have href : REF t := find_all_oer name adds j t hfa iha
      have hwt : t.wf = true := find_all_oer name adds j t hfa (alts_all_wf_oer adds hwa)
      have hdt : devs t w = [] := by simpa [hfa] using hd.2
      simp only [hf, hfa, Option.map_none, Option.map_some, href w hwt hty hdt, tagOctets_eq, openType_eq,
        Oer.wrap, bind, Except.bind]
      cases enc t w with
      | error e => rfl
      | ok body =>
        simp only
        cases Oer.lenDet body.length <;> simp
  | _ => simp [hasType] at ht

end Asn1.X696
