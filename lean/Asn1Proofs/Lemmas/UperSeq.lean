import Asn1Proofs.Lemmas.UperComp
/-
  SEQUENCE: preamble, root members, extension additions.
-/
set_option linter.unusedSimpArgs false
namespace Asn1
namespace Uper

/-! ### DEFAULT handling -/

theorem canon_of_isDefault (t : Ty) (v d : Val) (hv : hasType t v = true) (hd : hasType t d = true)
    (hc : (canon t d == d) = true) (h : isDefault t v d = true) : canon t v = d := by
  have hcd := Val.eq_of_beq _ _ hc
  unfold isDefault at h
  split at h
  · rename_i c a n b m
    rw [canon] at hcd ⊢
    simp only [Bool.and_eq_true, beq_iff_eq] at h
    have hcb := (Val.bits.inj hcd).1
    obtain ⟨h1, h2⟩ := h
    subst h1
    rw [h2, hcb]
  · have := Val.eq_of_beq _ _ h
    subst this
    exact hcd

/-! ### unfolding lemmas -/

def encHere (p : Presence) (t : Ty) (ov : Option Val) (encDefault : Bool) : EncM Bits :=
  match ov with
  | some v =>
    match p with
    | .default d => if !(isDefault t v d) || encDefault then enc t v else .ok []
    | _ => enc t v
  | none =>
    match p with
    | .mandatory => .error .encodeError
    | _ => .ok []

theorem encMembers_cons (name : String) (p : Presence) (t : Ty) (rest : Members)
    (fs : List (String × Val)) (b : Bool) :
    encMembers (.cons name p t rest) fs b =
      (match encHere p t (lookup name fs) b, encMembers rest fs b with
       | .ok a, .ok b => .ok (a ++ b)
       | .error e, _ => .error e
       | _, .error e => .error e) := by
  cases p <;> rfl

theorem encPreamble_cons (name : String) (p : Presence) (t : Ty) (rest : Members)
    (fs : List (String × Val)) :
    encPreamble (.cons name p t rest) fs =
      (match encPreamble rest fs with
       | .error e => .error e
       | .ok r =>
         match p with
         | .mandatory => .ok r
         | .optional => .ok ((lookup name fs).isSome :: r)
         | .default d =>
           match lookup name fs with
           | some v => .ok ((!(isDefault t v d)) :: r)
           | none => .ok (false :: r)) := by
  cases p <;> rfl

theorem encPreamble_ok (fs : List (String × Val)) (ms : Members) :
    ∃ pre, encPreamble ms fs = .ok pre := by
  induction ms using Members.ind with
  | nil => exact ⟨[], rfl⟩
  | cons name p t rest ih =>
    obtain ⟨r, hr⟩ := ih
    rw [encPreamble_cons, hr]
    cases p with
    | mandatory => exact ⟨_, rfl⟩
    | optional => exact ⟨_, rfl⟩
    | default d => cases lookup name fs <;> exact ⟨_, rfl⟩

/-- decode a present member then the remaining ones -/
def decHere (name : String) (t : Ty) (rest : Members) (fuel : Nat) (fl bs : Bits) :
    DecM (List (String × Val) × Bits) := do
  let (v, r) ← dec t fuel bs
  let (fs, r') ← decMembers rest fuel fl r
  .ok ((name, v) :: fs, r')

theorem decMembers_mandatory (name : String) (t : Ty) (rest : Members) (fuel : Nat) (fl bs : Bits) :
    decMembers (.cons name .mandatory t rest) fuel fl bs = decHere name t rest fuel fl bs := rfl

theorem decMembers_optional_true (name : String) (t : Ty) (rest : Members) (fuel : Nat) (fl bs : Bits) :
    decMembers (.cons name .optional t rest) fuel (true :: fl) bs = decHere name t rest fuel fl bs := rfl

theorem decMembers_optional_false (name : String) (t : Ty) (rest : Members) (fuel : Nat) (fl bs : Bits) :
    decMembers (.cons name .optional t rest) fuel (false :: fl) bs = decMembers rest fuel fl bs := rfl

theorem decMembers_default_true (name : String) (d : Val) (t : Ty) (rest : Members) (fuel : Nat)
    (fl bs : Bits) :
    decMembers (.cons name (.default d) t rest) fuel (true :: fl) bs = decHere name t rest fuel fl bs := rfl

theorem decMembers_default_false (name : String) (d : Val) (t : Ty) (rest : Members) (fuel : Nat)
    (fl bs : Bits) :
    decMembers (.cons name (.default d) t rest) fuel (false :: fl) bs =
      (do let (fs, r') ← decMembers rest fuel fl bs; .ok ((name, d) :: fs, r')) := rfl

theorem optionalCount_cons (name : String) (p : Presence) (t : Ty) (rest : Members) :
    optionalCount (.cons name p t rest) =
      (match p with | .mandatory => optionalCount rest | _ => optionalCount rest + 1) := by
  cases p <;> rfl

theorem canonMembers_cons (name : String) (p : Presence) (t : Ty) (rest : Members)
    (fs : List (String × Val)) (b : Bool) :
    canonMembers (.cons name p t rest) fs b =
      (match lookup name fs with
       | some v => (name, canon t v) :: canonMembers rest fs b
       | none =>
         match p with
         | .default d => if b then (name, d) :: canonMembers rest fs b else canonMembers rest fs b
         | _ => canonMembers rest fs b) := by
  cases p <;> rfl

/-- root members -/
theorem rt_members (fs : List (String × Val)) (ms : Members) :
    ms.All RT → ms.wf = true → ms.defaultsOk = true → ms.nsOk = true →
    membersOk ms fs = true → fragFreeMembers ms fs false = true →
    ∀ (pre body rest : Bits) (fuel : Nat), encPreamble ms fs = .ok pre →
      encMembers ms fs false = .ok body → body.length + rest.length + 2 ≤ fuel →
      decMembers ms fuel pre (body ++ rest) = .ok (canonMembers ms fs true, rest) ∧
        pre.length = optionalCount ms := by
  induction ms using Members.ind with
  | nil =>
    intro _ _ _ _ _ _ pre body rest fuel hp hb _
    cases hp; cases hb
    exact ⟨rfl, rfl⟩
  | cons name p t ms ih =>
    intro hall hwf hd hns hok hff pre body rest fuel hp hb hfuel
    obtain ⟨hrt, hall'⟩ := hall
    simp only [Members.wf, Members.defaultsOk, Members.nsOk, membersOk, fragFreeMembers,
      Bool.and_eq_true] at hwf hd hns hok hff
    rw [encPreamble_cons] at hp
    rw [encMembers_cons] at hb
    rw [optionalCount_cons]
    -- the tail
    cases hr : encPreamble ms fs with
    | error e => rw [hr] at hp; cases hp
    | ok r =>
    rw [hr] at hp
    simp only at hp
    cases hb' : encMembers ms fs false with
    | error e => rw [hb'] at hb; split at hb <;> simp_all
    | ok b =>
    rw [hb'] at hb
    cases ha : encHere p t (lookup name fs) false with
    | error e => rw [ha] at hb; cases hb
    | ok a =>
    rw [ha] at hb
    cases hb
    have hlen : b.length + rest.length + 2 ≤ fuel := by
      simp only [List.length_append] at hfuel; omega
    obtain ⟨ihd, ihl⟩ := ih hall' hwf.2 hd.2 hns.2 hok.2 hff.2 r b rest fuel hr hb' hlen
    -- a present member
    have present : ∀ v, lookup name fs = some v → enc t v = .ok a →
        decHere name t ms fuel r (a ++ b ++ rest) =
          .ok (canonMembers (.cons name p t ms) fs true, rest) := by
      intro v hl hav
      simp only [hl] at hok hff
      simp only [Bool.and_eq_true] at hff
      have := hrt v a (b ++ rest) fuel hwf.1 hd.1.2 hns.1 hok.1 hff.1.1 hav
        (by simp only [List.length_append] at hfuel ⊢; omega)
      simp only [decHere, bind, Except.bind, List.append_assoc, this, ihd]
      rw [canonMembers_cons, hl]
    rw [canonMembers_cons]
    cases hl : lookup name fs with
    | some v =>
      simp only [hl, encHere] at ha hp
      cases p with
      | mandatory =>
        simp only at ha hp
        cases hp
        rw [decMembers_mandatory, present v hl ha, canonMembers_cons, hl]
        exact ⟨rfl, ihl⟩
      | optional =>
        simp only [Option.isSome_some] at ha hp
        cases hp
        rw [decMembers_optional_true, present v hl ha, canonMembers_cons, hl]
        exact ⟨rfl, by simp [ihl]⟩
      | default d =>
        simp only [Bool.or_false] at ha hp
        cases hp
        cases hdef : isDefault t v d with
        | false =>
          simp only [hdef, Bool.not_false, if_true] at ha ⊢
          rw [decMembers_default_true, present v hl ha, canonMembers_cons, hl]
          exact ⟨rfl, by simp [ihl]⟩
        | true =>
          simp only [hdef, Bool.not_true, Bool.false_eq_true, if_false] at ha ⊢
          cases ha
          simp only [hl] at hok
          simp only [Bool.and_eq_true] at hd
          have hcan := canon_of_isDefault t v d hok.1 hd.1.1.1 hd.1.1.2 hdef
          rw [decMembers_default_false]
          simp only [List.nil_append, bind, Except.bind, ihd, hcan]
          exact ⟨trivial, by simp [ihl]⟩
    | none =>
      simp only [hl, encHere] at ha hp hok
      cases p with
      | mandatory => simp at hok
      | optional =>
        simp only at ha hp
        cases ha; cases hp
        simp only [Option.isSome_none]
        rw [decMembers_optional_false]
        simp only [List.nil_append, ihd]
        exact ⟨trivial, by simp [ihl]⟩
      | default d =>
        simp only at ha hp
        cases ha; cases hp
        rw [decMembers_default_false]
        simp only [List.nil_append, bind, Except.bind, ihd, if_true]
        exact ⟨trivial, by simp [ihl]⟩

theorem et_members (fs : List (String × Val)) (b : Bool) (ms : Members) :
    ms.All ET → ms.wf = true → membersOk ms fs = true → ∃ body, encMembers ms fs b = .ok body := by
  induction ms using Members.ind with
  | nil => intros; exact ⟨[], rfl⟩
  | cons name p t ms ih =>
    intro hall hwf hok
    simp only [Members.wf, membersOk, Bool.and_eq_true] at hwf hok
    obtain ⟨body, hbody⟩ := ih hall.2 hwf.2 hok.2
    rw [encMembers_cons, hbody]
    have : ∃ a, encHere p t (lookup name fs) b = .ok a := by
      unfold encHere
      cases hl : lookup name fs with
      | some v =>
        simp only [hl] at hok
        obtain ⟨a, ha⟩ := hall.1 v hwf.1 hok.1
        cases p with
        | mandatory => exact ⟨a, ha⟩
        | optional => exact ⟨a, ha⟩
        | default d =>
          simp only
          split
          · exact ⟨a, ha⟩
          · exact ⟨[], rfl⟩
      | none =>
        simp only [hl] at hok
        cases p with
        | mandatory => simp at hok
        | optional => exact ⟨[], rfl⟩
        | default d => exact ⟨[], rfl⟩
    obtain ⟨a, ha⟩ := this
    rw [ha]
    exact ⟨_, rfl⟩

/-! ### extension additions -/

/-- the open-type wrapping of the present additions -/
def wrapOpen (encs : List Bits) : Bits :=
  encs.flatMap (fun e => let p := padToByte e; (lenDet (p.length / 8)).1 ++ p)

theorem wrapOpen_cons (e : Bits) (encs : List Bits) :
    wrapOpen (e :: encs) = (lenDet ((padToByte e).length / 8)).1 ++ (padToByte e ++ wrapOpen encs) := by
  simp [wrapOpen]

def addHere (p : Presence) (t : Ty) (ov : Option Val) : EncM Bits :=
  match ov with
  | some v => enc t v
  | none =>
    match p with
    | .mandatory => .error .encodeError
    | _ => .ok []

theorem encAdditions_cons (name : String) (p : Presence) (t : Ty) (rest : Members)
    (fs : List (String × Val)) :
    encAdditions (.cons name p t rest) fs =
      (match addHere p t (lookup name fs) with
       | .error _ => ([], [])
       | .ok e =>
         if e.length > 0 ∨ (lookup name fs).isSome then
           (true :: (encAdditions rest fs).1, e :: (encAdditions rest fs).2)
         else (false :: (encAdditions rest fs).1, (encAdditions rest fs).2)) := by
  cases p <;> rfl

theorem decAdditions_cons_true (name : String) (p : Presence) (t : Ty) (rest : Members) (fuel : Nat)
    (bitmap bs : Bits) :
    decAdditions (.cons name p t rest) fuel (true :: bitmap) bs =
      (do
        let (_, r) ← readLenDet bs
        let (v, r1) ← dec t fuel r
        let r2 ← skipPad r.length r1
        let (fs, r3) ← decAdditions rest fuel bitmap r2
        .ok ((name, v) :: fs, r3)) := rfl

theorem decAdditions_cons_false (name : String) (p : Presence) (t : Ty) (rest : Members) (fuel : Nat)
    (bitmap bs : Bits) :
    decAdditions (.cons name p t rest) fuel (false :: bitmap) bs = decAdditions rest fuel bitmap bs := rfl

theorem skipPad_pad (e X : Bits) :
    skipPad (padToByte e ++ X).length
      (List.replicate (8 * ((e.length + 7) / 8) - e.length) false ++ X) = .ok X := by
  unfold skipPad
  rw [padToByte_eq]
  simp only [List.length_append, List.length_replicate]
  have h1 : (8 - (e.length + (8 * ((e.length + 7) / 8) - e.length) + X.length -
      (8 * ((e.length + 7) / 8) - e.length + X.length)) % 8) % 8 =
      8 * ((e.length + 7) / 8) - e.length := by omega
  rw [h1, if_pos (by omega)]
  rw [List.drop_append_of_le_length (by simp)]
  simp

theorem rt_additions (fs : List (String × Val)) (ms : Members) :
    ms.All RT → ms.All ET → ms.wf = true → ms.defaultsOk = true → ms.nsOk = true →
    membersOk ms fs = true → fragFreeMembers ms fs true = true →
    (encAdditions ms fs).1.length = ms.length ∧
    ((encAdditions ms fs).2 = [] → canonMembers ms fs false = []) ∧
    ∀ (rest : Bits) (fuel : Nat), (wrapOpen (encAdditions ms fs).2).length + rest.length + 2 ≤ fuel →
      decAdditions ms fuel (encAdditions ms fs).1 (wrapOpen (encAdditions ms fs).2 ++ rest) =
        .ok (canonMembers ms fs false, rest) := by
  induction ms using Members.ind with
  | nil =>
    intro _ _ _ _ _ _ _
    exact ⟨rfl, fun _ => rfl, fun rest fuel _ => rfl⟩
  | cons name p t ms ih =>
    intro hall hall2 hwf hd hns hok hff
    simp only [Members.wf, Members.defaultsOk, Members.nsOk, membersOk, fragFreeMembers,
      Bool.and_eq_true] at hwf hd hns hok hff
    obtain ⟨ih1, ih2, ih3⟩ := ih hall.2 hall2.2 hwf.2 hd.2 hns.2 hok.2 hff.2
    rw [encAdditions_cons, canonMembers_cons]
    cases hl : lookup name fs with
    | some v =>
      simp only [hl, Bool.and_eq_true] at hok hff
      obtain ⟨e, he⟩ := hall2.1 v hwf.1 hok.1
      simp only [addHere, he, Option.isSome_some, or_true, if_true]
      refine ⟨by simp [ih1, Members.length], by simp, ?_⟩
      intro rest fuel hfuel
      rw [wrapOpen_cons] at hfuel ⊢
      rw [padToByte_eq] at hfuel
      simp only [List.length_append, List.length_replicate] at hfuel
      have := hall.1 v e
        (List.replicate (8 * ((e.length + 7) / 8) - e.length) false ++
          (wrapOpen (encAdditions ms fs).2 ++ rest)) fuel hwf.1 hd.1.2 hns.1 hok.1 hff.1.1 he
        (by simp only [List.length_append, List.length_replicate]; omega)
      rw [decAdditions_cons_true]
      simp only [bind, Except.bind, List.append_assoc]
      rw [readLenDet_lenDet]
      simp only
      have hsp := skipPad_pad e (wrapOpen (encAdditions ms fs).2 ++ rest)
      rw [padToByte_eq] at hsp ⊢
      simp only [List.append_assoc] at hsp ⊢
      rw [this]
      simp only [hsp]
      rw [ih3 rest fuel (by omega)]
    | none =>
      simp only [hl] at hok
      cases p with
      | mandatory => simp at hok
      | optional =>
        simp only [addHere, List.length_nil, Nat.lt_irrefl, Option.isSome_none, Bool.false_eq_true,
          or_self, if_false]
        refine ⟨by simp [ih1, Members.length], ih2, ?_⟩
        intro rest fuel hfuel
        rw [decAdditions_cons_false]
        exact ih3 rest fuel hfuel
      | default d =>
        simp only [addHere, List.length_nil, Nat.lt_irrefl, Option.isSome_none, Bool.false_eq_true,
          or_self, if_false]
        refine ⟨by simp [ih1, Members.length], ih2, ?_⟩
        intro rest fuel hfuel
        rw [decAdditions_cons_false]
        exact ih3 rest fuel hfuel

theorem rt_sequence (root : Members) (ext : Bool) (adds : Members)
    (ihr : root.All RT) (iha : adds.All RT) (eta : adds.All ET) : RT (.sequence root ext adds) := by
  intro v bits rest fuel hwf hd hns ht hf he hfuel
  cases v <;> try (simp only [hasType, Bool.false_eq_true] at ht; done)
  rename_i fs
  rw [Ty.wf] at hwf
  rw [Ty.defaultsOk] at hd
  rw [Ty.nsOk] at hns
  rw [fragFree] at hf
  simp only [Bool.and_eq_true, decide_eq_true_eq, Bool.or_eq_true, beq_iff_eq] at hwf hd hns hf
  obtain ⟨⟨⟨⟨hrwf, hawf⟩, hnd⟩, hext⟩, h64⟩ := hwf
  obtain ⟨hokr, hoka⟩ := membersOk_of_hasType root adds ext fs hnd ht
  rw [canon]
  rw [enc] at he
  obtain ⟨pre, hpre⟩ := encPreamble_ok fs root
  rw [hpre] at he
  cases hbody : encMembers root fs false with
  | error e => rw [hbody] at he; cases he
  | ok body =>
  rw [hbody] at he
  simp only at he
  have hm := rt_members fs root ihr hrwf hd.1 hns.1 hokr hf.1 pre body
  obtain ⟨a1, a2, a3⟩ := rt_additions fs adds iha eta hawf hd.2 hns.2 hoka hf.2
  have plain : ∀ bits : Bits, bits = (if ext = true then [false] else []) ++ (pre ++ body) →
      canonMembers adds fs false = [] → bits.length + rest.length + 2 ≤ fuel →
      dec (.sequence root ext adds) fuel (bits ++ rest) =
        .ok (.record (canonMembers root fs true ++ canonMembers adds fs false), rest) := by
    intro bits hb hc hfu
    subst hb
    obtain ⟨hdm, hpl⟩ := hm rest fuel hpre hbody (by
      simp only [List.length_append] at hfu; omega)
    rw [dec]
    simp only [List.append_assoc, bind, Except.bind, readExt_pre]
    rw [readBits_append _ _ hpl]
    simp only [hdm, Bool.false_eq_true, if_false, hc, List.append_nil]
  cases ext with
  | false =>
    simp only [Bool.false_eq_true, if_false, false_or] at he hext
    cases he
    have : adds = .nil := by
      cases adds with
      | nil => rfl
      | cons _ _ _ _ => simp [Members.length] at hext
    subst this
    exact plain _ (by simp) rfl hfuel
  | true =>
    simp only [if_true] at he
    split at he
    · cases he
      exact plain _ (by simp) rfl hfuel
    · rename_i hnn
      split at he
      · rename_i hemp
        cases he
        exact plain _ (by simp) (a2 (by simpa using hemp)) hfuel
      · rename_i hemp
        have hlen1 : 1 ≤ adds.length := by
          cases adds with
          | nil => exact absurd rfl (hnn)
          | cons _ _ _ _ => simp [Members.length]
        rw [encNsLength_small h64] at he
        simp only [a1, Nat.sub_self, List.replicate_zero, List.append_nil] at he
        have hw : List.flatMap (fun e => (lenDet (List.length (padToByte e) / 8)).fst ++ padToByte e)
            (encAdditions adds fs).2 = wrapOpen (encAdditions adds fs).2 := rfl
        rw [hw] at he
        cases he
        simp only [List.length_append, List.length_cons, List.length_nil, natToBits_length] at hfuel
        obtain ⟨hdm, hpl⟩ := hm (natToBits 7 (adds.length - 1) ++ ((encAdditions adds fs).1 ++
          (wrapOpen (encAdditions adds fs).2 ++ rest))) fuel hpre hbody (by
            simp only [List.length_append, natToBits_length]; omega)
        rw [dec]
        simp only [List.append_assoc, bind, Except.bind, List.cons_append, List.nil_append,
          readBit_cons, if_true]
        rw [readBits_append _ _ hpl]
        simp only [hdm, if_true]
        rw [decNsLength_enc _ hlen1 h64]
        simp only
        rw [readBits_append _ _ a1]
        simp only
        rw [a3 rest fuel (by omega)]

theorem et_sequence (root : Members) (ext : Bool) (adds : Members)
    (ihr : root.All ET) : ET (.sequence root ext adds) := by
  intro v hwf ht
  cases v <;> try (simp only [hasType, Bool.false_eq_true] at ht; done)
  rename_i fs
  rw [Ty.wf] at hwf
  simp only [Bool.and_eq_true, decide_eq_true_eq, Bool.or_eq_true, beq_iff_eq] at hwf
  obtain ⟨⟨⟨⟨hrwf, hawf⟩, hnd⟩, hext⟩, h64⟩ := hwf
  obtain ⟨hokr, hoka⟩ := membersOk_of_hasType root adds ext fs hnd ht
  obtain ⟨pre, hpre⟩ := encPreamble_ok fs root
  obtain ⟨body, hbody⟩ := et_members fs false root ihr hrwf hokr
  rw [enc, hpre, hbody]
  simp only
  split
  · split
    · exact ⟨_, rfl⟩
    · split
      · exact ⟨_, rfl⟩
      · rw [encNsLength_small h64]
        exact ⟨_, rfl⟩
  · exact ⟨_, rfl⟩

end Uper
end Asn1
