import Asn1Proofs.Lemmas.ExtDefs
import Asn1Proofs.Lemmas.DerRoundtrip
import Asn1Proofs.Lemmas.ExtDerSeq
import Asn1Proofs.Lemmas.ExtDerChoice
import Asn1Proofs.Lemmas.ExtDerStable
/-
  C07, DER: the decoder for `tD` on an encoding under `tE` (`Compat tD tE`) returns `view true tD tE v`
  (the BER / DER decoders fill in the DEFAULT of absent extension additions too), the exact length of
  the encoding, and leaves exactly the octets that follow it.

  Proof: induction on the derivation of `Compat tD tE` (`Compat.rec`); the cases are in
  `ExtDerBase.lean` (leaves, ENUMERATED, SEQUENCE OF), `ExtDerSeq.lean` (SEQUENCE) and
  `ExtDerChoice.lean` (CHOICE); `enc_stable` is proved in `ExtDerStable.lean`.
-/
set_option linter.unusedSimpArgs false
set_option linter.unusedVariables false
namespace Asn1.Ext.DerX
open Asn1 Asn1.Der Asn1.Ext

/-- cross-version round trip of the pair decoder type `tD` / encoder type `tE`, in any tagging context -/
def XT (tD tE : Ty) : Prop :=
  ∀ (tg : Option Nat) (v : Val) (bytes rest : Bytes) (fuel : Nat),
    tE.wf = true → Oer.oerWf tE = true → X690.defaultsOkV tE = true → dOk true tD tE →
    hasType tE v = true → enc tE tg v = .ok bytes → bytes.length < fuel →
    dec tD tg fuel (bytes ++ rest) = .ok (some (view true tD tE v, bytes.length, rest))

theorem xtd_all {tD tE : Ty} (h : Compat tD tE) : XTd tD tE :=
  Compat.rec
    (motive_1 := fun tD tE _ => XTd tD tE)
    (motive_2 := fun rD rE _ => PairM XC rD rE)
    (motive_3 := fun aD aE _ => PairM XC aD aE)
    (motive_4 := fun rD rE _ => PairA XC rD rE)
    (motive_5 := fun aD aE _ => PairA XC aD aE)
    xt_boolean xt_null xt_integer xt_octetString xt_bitString xt_charString
    xt_enumerated xt_enumeratedD xt_enumeratedE
    (fun {rD rE aD aE} x hcr _ ihr iha => xt_sequence rD rE aD aE x ihr (compatMembers_length hcr) iha)
    (fun {eD eE} c _ ih => xt_sequenceOf eD eE c ih)
    (fun {rD rE aD aE} x hcr _ ihr iha => xt_choice rD rE aD aE x ihr (compatAlts_length hcr) iha)
    trivial
    (fun name p hc _ iht ihr => ⟨rfl, rfl, ⟨iht, hc⟩, ihr⟩)
    (fun ms => trivial)
    (fun ms ho => pairM_nilE XC ms ho)
    (fun name p hc _ iht ihr => ⟨rfl, rfl, ⟨iht, hc⟩, ihr⟩)
    trivial
    (fun name hc _ iht ihr => ⟨rfl, ⟨iht, hc⟩, ihr⟩)
    (fun as => trivial)
    (fun as => by cases as <;> trivial)
    (fun name hc _ iht ihr => ⟨rfl, ⟨iht, hc⟩, ihr⟩)
    h

theorem xt_all {tD tE : Ty} (h : Compat tD tE) : XT tD tE := xtd_all h

/-- the encoding of a version-1 value does not change when the type is extended
(tags are positional and new additions come last) -/
theorem enc_stable {t1 t2 : Ty} (h : Extends t1 t2) (hwf : t2.wf = true) (tg : Option Nat) (v : Val)
    (ht : hasType t1 v = true) : enc t2 tg v = enc t1 tg v :=
  st_all h hwf tg v ht

end Asn1.Ext.DerX

#print axioms Asn1.Ext.DerX.xt_all
#print axioms Asn1.Ext.DerX.enc_stable
