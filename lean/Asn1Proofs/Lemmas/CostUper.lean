import Asn1Proofs.Lemmas.CostBer
/-
  C08 for the UPER model: allocation bound of `Uper.dec`, step lemmas ("every read advances the
  offset or raises").
-/
set_option linter.unusedSimpArgs false
set_option linter.unusedVariables false
namespace Asn1.Cost
open Asn1.Uper

/-- elements a SEQUENCE OF may hold per bit consumed (+1): `65536` per length octet, or the largest
count the fixed-width length field can announce -/
def seqOfMax (c : SizeC) : Nat :=
  match sizeBits c with
  | none => 8192
  | some w => max 8192 (c.lo + 2 ^ w)

mutual
  /-- UPER: nodes allocated per bit consumed (+1), a function of the type only -/
  def KU : Ty → Nat
    | .sequence root _ adds => 1 + KUm root + KUm adds
    | .sequenceOf e c => 1 + KU e * (1 + seqOfMax c)
    | .choice root _ adds => 2 + KUa root + KUa adds
    | _ => 1
  def KUm : Members → Nat
    | .nil => 0
    | .cons _ p t rest => 1 + presenceNodes p + KU t + KUm rest
  def KUa : Alts → Nat
    | .nil => 0
    | .cons _ t rest => KU t + KUa rest
end

/-! ### primitives: what a successful read consumed -/

theorem readBit_ok {bs r : Bits} {b : Bool} (h : readBit bs = .ok (b, r)) :
    bs.length = r.length + 1 := by
  cases bs with
  | nil => cases h
  | cons x t => simp only [readBit] at h; cases h; simp

theorem readBits_ok {n : Nat} {bs a r : Bits} (h : readBits n bs = .ok (a, r)) :
    bs.length = r.length + n ∧ a.length = n := by
  rw [readBits_eq] at h
  split at h
  · cases h; simp only [List.length_drop, List.length_take]; omega
  · cases h

theorem readNat_ok {n : Nat} {bs r : Bits} {a : Nat} (h : readNat n bs = .ok (a, r)) :
    bs.length = r.length + n ∧ a < 2 ^ n := by
  rw [readNat_eq] at h
  split at h
  · cases h
    refine ⟨by simp only [List.length_drop]; omega, ?_⟩
    have := bitsToNat_lt (bs.take n)
    rwa [List.length_take, Nat.min_eq_left (by assumption)] at this
  · cases h

/-- a length determinant costs at least 8 bits and announces at most 8192 items per bit it costs -/
theorem readLenDet_ok {bs r : Bits} {n : Nat} (h : readLenDet bs = .ok (n, r)) :
    r.length + 8 ≤ bs.length ∧ n ≤ 8192 * (bs.length - r.length) := by
  unfold readLenDet at h
  obtain ⟨⟨v, r1⟩, h1, h⟩ := bind_ok h
  try dsimp only at h
  obtain ⟨hl1, hv⟩ := readNat_ok h1
  try dsimp only at h
  revert h
  split
  · intro h; cases h; omega
  split
  · intro h
    obtain ⟨⟨w, r2⟩, h2, h⟩ := bind_ok h
    try dsimp only at h
    obtain ⟨hl2, hw⟩ := readNat_ok h2
    cases h; omega
  split
  · intro h; cases h; omega
  split
  · intro h; cases h; omega
  split
  · intro h; cases h; omega
  split
  · intro h; cases h; omega
  · intro h; cases h

theorem decUnconstrained_ok {bs r : Bits} {i : Int} (h : decUnconstrained bs = .ok (i, r)) :
    r.length + 8 ≤ bs.length := by
  unfold decUnconstrained at h
  obtain ⟨⟨len, r1⟩, h1, h⟩ := bind_ok h
  try dsimp only at h
  obtain ⟨hl1, _⟩ := readLenDet_ok h1
  obtain ⟨⟨body, r2⟩, h2, h⟩ := bind_ok h
  try dsimp only at h
  obtain ⟨hl2, _⟩ := readBits_ok h2
  try dsimp only at h
  revert h
  split
  · intro h; cases h
  · split <;> (intro h; cases h; omega)

theorem decNsnnwn_ok {bs r : Bits} {n : Nat} (h : decNsnnwn bs = .ok (n, r)) :
    r.length < bs.length := by
  unfold decNsnnwn at h
  obtain ⟨⟨b, r1⟩, h1, h⟩ := bind_ok h
  try dsimp only at h
  have hl1 := readBit_ok h1
  try dsimp only at h
  revert h
  split
  · intro h; have := (readNat_ok h).1; omega
  · intro h
    obtain ⟨⟨len, r2⟩, h2, h⟩ := bind_ok h
    try dsimp only at h
    have := (readLenDet_ok h2).1
    have := (readNat_ok h).1
    omega

theorem decNsLength_ok {bs r : Bits} {n : Nat} (h : decNsLength bs = .ok (n, r)) :
    r.length < bs.length := by
  unfold decNsLength at h
  obtain ⟨⟨b, r1⟩, h1, h⟩ := bind_ok h
  try dsimp only at h
  have hl1 := readBit_ok h1
  try dsimp only at h
  revert h
  split
  · intro h
    obtain ⟨⟨v, r2⟩, h2, h⟩ := bind_ok h
    try dsimp only at h
    have := (readNat_ok h2).1
    cases h; omega
  · intro h
    obtain ⟨⟨b2, r2⟩, h2, h⟩ := bind_ok h
    try dsimp only at h
    have := readBit_ok h2
    try dsimp only at h
    revert h
    split
    · intro h; have := (readNat_ok h).1; omega
    · intro h; cases h

theorem skipPad_ok {s : Nat} {bs r : Bits} (h : skipPad s bs = .ok r) : r.length ≤ bs.length := by
  unfold skipPad at h
  try dsimp only at h
  split at h
  · cases h; simp only [List.length_drop]; omega
  · cases h

theorem skipUnknown_ok (bitmap : Bits) : ∀ {bs r : Bits}, skipUnknown bitmap bs = .ok r →
    r.length ≤ bs.length := by
  induction bitmap with
  | nil => intro bs r h; simp only [skipUnknown] at h; cases h; exact Nat.le_refl _
  | cons p bm ih =>
    intro bs r h
    rw [skipUnknown] at h
    split at h
    · obtain ⟨⟨len, r1⟩, h1, h⟩ := bind_ok h
      obtain ⟨⟨x, r2⟩, h2, h⟩ := bind_ok h
      try dsimp only at h
      have := (readLenDet_ok h1).1
      have := (readBits_ok h2).1
      have := ih h
      omega
    · exact ih h

theorem optBit_ok {c : Bool} {bs r : Bits} {b : Bool}
    (h : (if c = true then readBit bs else .ok (false, bs)) = .ok (b, r)) :
    r.length ≤ bs.length := by
  split at h
  · have := readBit_ok h; omega
  · cases h; exact Nat.le_refl _

theorem optLen_ok {c : SizeC} {w : Nat} {bs r : Bits} {n : Nat}
    (h : (if some c.lo ≠ c.hi then do let (d, r) ← readNat w bs; .ok (c.lo + d, r) else .ok (c.lo, bs))
      = (.ok (n, r) : DecM (Nat × Bits))) :
    r.length ≤ bs.length ∧ n < c.lo + 2 ^ w := by
  split at h
  · obtain ⟨⟨d, r1⟩, h1, h⟩ := bind_ok h
    obtain ⟨hl, hd⟩ := readNat_ok h1
    cases h; omega
  · cases h; exact ⟨Nat.le_refl _, by have := Nat.two_pow_pos w; omega⟩

/-! ### loops -/

/-- cost predicate of an item decoder: it never lengthens the input and the item's size is at most
`K` per bit consumed (+1) -/
def BdU {α : Type} (size : α → Nat) (K : Nat) (p : Bits → DecM (α × Bits)) : Prop :=
  ∀ bs a r, p bs = .ok (a, r) → r.length ≤ bs.length ∧ size a ≤ K * (bs.length - r.length + 1)

theorem sumSize_append {α : Type} (size : α → Nat) (a b : List α) :
    sumSize size (a ++ b) = sumSize size a + sumSize size b := by
  induction a with
  | nil => simp [sumSize]
  | cons x r ih => simp only [List.cons_append, sumSize, ih]; omega

theorem sumSize_nodes (vs : List Val) : sumSize Val.nodes vs = Val.nodesList vs := by
  induction vs with
  | nil => rfl
  | cons x r ih => simp only [sumSize, Val.nodesList, ih]

theorem sumSize_one {α : Type} (xs : List α) : sumSize (fun _ => 1) xs = xs.length := by
  induction xs with
  | nil => rfl
  | cons x r ih => simp only [sumSize, List.length_cons, ih]; omega

theorem decRepeat_ok {α : Type} {size : α → Nat} {K : Nat} {p : Bits → DecM (α × Bits)}
    (hp : BdU size K p) (n : Nat) : ∀ {bs r : Bits} {xs : List α}, decRepeat p n bs = .ok (xs, r) →
    r.length ≤ bs.length ∧ xs.length = n ∧ sumSize size xs ≤ K * (bs.length - r.length + n) := by
  induction n with
  | zero =>
    intro bs r xs h
    simp only [decRepeat] at h; cases h
    simp [sumSize]
  | succ n ih =>
    intro bs r xs h
    simp only [decRepeat] at h
    obtain ⟨⟨a, r1⟩, h1, h⟩ := bind_ok h
    try dsimp only at h
    obtain ⟨⟨as, r2⟩, h2, h⟩ := bind_ok h
    try dsimp only at h
    cases h
    obtain ⟨hl1, hs1⟩ := hp _ _ _ h1
    obtain ⟨hl2, hn, hs2⟩ := ih h2
    refine ⟨by omega, by simp [hn], ?_⟩
    simp only [sumSize]
    have e : K * (bs.length - r.length + (n + 1))
        = K * (bs.length - r1.length + 1) + K * (r1.length - r.length + n) := by
      rw [← Nat.mul_add]; congr 1; omega
    omega

/-- items that cost at least one bit each: there are at most as many as bits consumed -/
theorem decRepeat_len {α : Type} {p : Bits → DecM (α × Bits)}
    (hp : ∀ bs a r, p bs = .ok (a, r) → r.length < bs.length) (n : Nat) :
    ∀ {bs r : Bits} {xs : List α}, decRepeat p n bs = .ok (xs, r) → r.length + n ≤ bs.length := by
  induction n with
  | zero => intro bs r xs h; simp only [decRepeat] at h; cases h; omega
  | succ n ih =>
    intro bs r xs h
    simp only [decRepeat] at h
    obtain ⟨⟨a, r1⟩, h1, h⟩ := bind_ok h
    try dsimp only at h
    obtain ⟨⟨as, r2⟩, h2, h⟩ := bind_ok h
    try dsimp only at h
    cases h
    have := hp _ _ _ h1
    have := ih h2
    omega

theorem decChunks_ok {α : Type} {size : α → Nat} {K : Nat} {p : Bits → DecM (α × Bits)}
    (hp : BdU size K p) (f : Nat) : ∀ {bs r : Bits} {xs : List α}, decChunks p f bs = .ok (xs, r) →
    r.length ≤ bs.length ∧ xs.length ≤ 8192 * (bs.length - r.length)
      ∧ sumSize size xs ≤ K * (bs.length - r.length + xs.length) := by
  induction f with
  | zero => intro bs r xs h; simp only [decChunks] at h; cases h
  | succ f ih =>
    intro bs r xs h
    simp only [decChunks] at h
    obtain ⟨⟨len, r1⟩, h1, h⟩ := bind_ok h
    try dsimp only at h
    obtain ⟨hl1, hlen⟩ := readLenDet_ok h1
    obtain ⟨⟨ys, r2⟩, h2, h⟩ := bind_ok h
    try dsimp only at h
    obtain ⟨hl2, hn, hs2⟩ := decRepeat_ok hp len h2
    try dsimp only at h
    revert h
    split
    · intro h; cases h
      refine ⟨by omega, by omega, ?_⟩
      refine Nat.le_trans hs2 (Nat.mul_le_mul_left _ (by omega))
    · intro h
      obtain ⟨⟨zs, r3⟩, h3, h⟩ := bind_ok h
      try dsimp only at h
      cases h
      obtain ⟨hl3, hz, hs3⟩ := ih h3
      refine ⟨by omega, by simp only [List.length_append]; omega, ?_⟩
      rw [sumSize_append, List.length_append]
      have e : K * (r1.length - r2.length + len) + K * (r2.length - r.length + zs.length)
          ≤ K * (bs.length - r.length + (ys.length + zs.length)) := by
        rw [← Nat.mul_add]; exact Nat.mul_le_mul_left _ (by omega)
      omega

theorem decChunks_len {α : Type} {p : Bits → DecM (α × Bits)}
    (hp : ∀ bs a r, p bs = .ok (a, r) → r.length < bs.length) (f : Nat) :
    ∀ {bs r : Bits} {xs : List α}, decChunks p f bs = .ok (xs, r) →
    r.length + xs.length + 8 ≤ bs.length := by
  induction f with
  | zero => intro bs r xs h; simp only [decChunks] at h; cases h
  | succ f ih =>
    intro bs r xs h
    simp only [decChunks] at h
    obtain ⟨⟨len, r1⟩, h1, h⟩ := bind_ok h
    try dsimp only at h
    obtain ⟨hl1, hlen⟩ := readLenDet_ok h1
    obtain ⟨⟨ys, r2⟩, h2, h⟩ := bind_ok h
    try dsimp only at h
    have hn := decRepeat_len hp len h2
    have hys : ys.length = len := by
      have hp' : BdU (fun _ : α => 1) 1 p := fun bs a r h => ⟨Nat.le_of_lt (hp bs a r h), by show 1 ≤ 1 * _; omega⟩
      exact (decRepeat_ok hp' len h2).2.1
    try dsimp only at h
    revert h
    split
    · intro h; cases h; omega
    · intro h
      obtain ⟨⟨zs, r3⟩, h3, h⟩ := bind_ok h
      try dsimp only at h
      cases h
      have := ih h3
      simp only [List.length_append]; omega

end Asn1.Cost
