import Asn1Proofs.Lemmas.CCursorBasic
import Asn1Proofs.Lemmas.CCursorPureDefs
/-
  C09 memory safety core, encoder side: under the invariant `Enc.Inv` (and the argument
  preconditions) every encoder helper of the checked model returns `.ok` - i.e. performs no
  out-of-bounds access, no undefined shift, no signed overflow - and computes exactly the unchecked
  pure function of `CCursorPureDefs.lean`.  Three cases per helper: room / full (latches -ENOMEM) /
  already latched (no-op).
-/
namespace Asn1.CCursor

theorem shl_bound {v s : Nat} (hv : v < 16777216) (hs : s ≤ 7) : v <<< s < 2147483648 := by
  rw [Nat.shiftLeft_eq]
  have : 2 ^ s ≤ 2 ^ 7 := Nat.pow_le_pow_right (by decide) hs
  calc v * 2 ^ s ≤ v * 2 ^ 7 := Nat.mul_le_mul_left _ this
    _ < 2147483648 := by omega

/-! ### memcpy -/

theorem pureMemcpy_size (src : Mem) :
    ∀ n dst dOff sOff, (pureMemcpy src n dst dOff sOff).size = dst.size := by
  intro n
  induction n with
  | zero => intros; rfl
  | succ n ih => intro dst dOff sOff; simp [pureMemcpy, ih]

theorem memcpy_ok (src : Mem) : ∀ n dst dOff sOff, sOff + n ≤ src.size → dOff + n ≤ dst.size →
    memcpy src n dst dOff sOff = .ok (pureMemcpy src n dst dOff sOff) := by
  intro n
  induction n with
  | zero => intros; rfl
  | succ n ih =>
    intro dst dOff sOff hs hd
    unfold memcpy pureMemcpy
    rw [Mem.load_ok (by omega)]
    simp only [bind, Except.bind]
    rw [Mem.store_ok (by omega)]
    simp only []
    rw [ih _ _ _ (by omega) (by rw [Mem.size_set!]; omega)]

/-! ### `encoder_append_bit` -/

theorem writeBit_size (buf : Mem) (p v : Nat) : (writeBit buf p v).size = buf.size := by
  unfold writeBit
  by_cases h : p % 8 = 0 <;> simp [h]

theorem Enc.appendBit_room {e : Enc} (hi : e.Inv) (h0 : 0 ≤ e.size) (h : e.pos + 1 ≤ e.size)
    {v : Int} (hv0 : 0 ≤ v) (hv : v < 16777216) :
    e.appendBit v = .ok { e with buf := writeBit e.buf e.pos.toNat v.toNat, pos := e.pos + 1 } := by
  have hi' := hi
  obtain ⟨hb, hl | hl⟩ := hi'
  · unfold Enc.appendBit
    have h1 : (1 : UInt64).toNat = 1 := rfl
    rw [Enc.alloc_ok hi (by rw [h1]; omega) h0 (by rw [h1]; omega)]
    simp only [bind, Except.bind, h1]
    have hp : ¬ e.pos < 0 := by omega
    rw [if_neg hp]
    rw [Int.tmod_eq_emod_of_nonneg (by omega), Int.tdiv_eq_ediv_of_nonneg (by omega)]
    have hd0 : 0 ≤ e.pos / 8 := by omega
    have hdn : (e.pos / 8).toNat = e.pos.toNat / 8 := by omega
    have hdlt : e.pos.toNat / 8 < e.buf.size := by omega
    have hmod : (e.pos % 8 = 0) ↔ (e.pos.toNat % 8 = 0) := by omega
    rw [ssz_ok (by omega) (by omega)]
    have hsh : shlInt v (7 - e.pos % 8) = .ok (v.toNat <<< (7 - e.pos.toNat % 8)) := by
      unfold shlInt
      rw [if_neg (by omega)]
      have : (7 - e.pos % 8).toNat = 7 - e.pos.toNat % 8 := by omega
      rw [this, shlS32_ok (by omega) (shl_bound (by omega) (by omega))]
    simp only []
    rw [hsh]
    have hc1 : ((1 : Nat) : Int) = 1 := rfl
    by_cases hz : e.pos % 8 = 0
    · have hz' := hmod.1 hz
      simp only [hz, if_true]
      rw [Mem.storeI_ok hd0 (by rw [hdn]; exact hdlt)]
      simp only [hdn]
      rw [Mem.loadI_ok hd0 (by rw [hdn, Mem.size_set!]; exact hdlt)]
      simp only [hdn]
      rw [Mem.storeI_ok hd0 (by rw [hdn, Mem.size_set!]; exact hdlt)]
      simp only [hdn, writeBit, hz', if_true, hc1]
    · have hz' : ¬ e.pos.toNat % 8 = 0 := fun h => hz (hmod.2 h)
      simp only [hz, if_false]
      rw [Mem.loadI_ok hd0 (by rw [hdn]; exact hdlt)]
      simp only [hdn]
      rw [Mem.storeI_ok hd0 (by rw [hdn]; exact hdlt)]
      simp only [hdn, writeBit, hz', if_false, hc1]
  · omega

theorem Enc.appendBit_full {e : Enc} (hi : e.Inv) (h0 : 0 ≤ e.size) (h : e.size < e.pos + 1) (v : Int) :
    e.appendBit v = .ok (e.latch 12) := by
  unfold Enc.appendBit
  have h1 : (1 : UInt64).toNat = 1 := rfl
  rw [Enc.alloc_full hi (by rw [h1]; omega) h0 (by rw [h1]; omega)]
  simp only [bind, Except.bind]
  rw [if_pos (by omega)]

theorem Enc.appendBit_latched {e : Enc} (hi : e.Inv) (h0 : e.size < 0) (v : Int) :
    e.appendBit v = .ok e := by
  unfold Enc.appendBit
  have h1 : (1 : UInt64).toNat = 1 := rfl
  obtain ⟨p, hp, ha⟩ := Enc.alloc_latched (n := 1) hi (by rw [h1]; omega) h0
  rw [ha]
  simp only [bind, Except.bind]
  rw [if_pos hp]

/-! ### `encoder_append_bytes` -/

theorem pureAppendBytesLoop_size (src : Mem) (bytePos pib : Nat) :
    ∀ n i buf, (pureAppendBytesLoop src bytePos pib n i buf).size = buf.size := by
  intro n
  induction n with
  | zero => intros; rfl
  | succ n ih => intro i buf; simp [pureAppendBytesLoop, ih]

theorem Enc.appendBytesLoop_ok (src : Mem) (bytePos pib : UInt64)
    (hp0 : 0 < pib.toNat) (hp8 : pib.toNat < 8) :
    ∀ n (i : UInt64) (buf : Mem), i.toNat + n ≤ src.size →
      bytePos.toNat + i.toNat + n + 1 ≤ buf.size → buf.size < 576460752303423488 →
      Enc.appendBytesLoop src bytePos pib n i buf
        = .ok (pureAppendBytesLoop src bytePos.toNat pib.toNat n i.toNat buf) := by
  intro n
  induction n with
  | zero => intros; rfl
  | succ n ih =>
    intro i buf hs hb hsz
    unfold Enc.appendBytesLoop pureAppendBytesLoop
    have e1 : (bytePos + i).toNat = bytePos.toNat + i.toNat := by
      rw [UInt64.toNat_add]; omega
    have e2 : (bytePos + i + 1).toNat = bytePos.toNat + i.toNat + 1 := by
      rw [UInt64.toNat_add, e1, UInt64.toNat_one]; omega
    have e3 : (i + 1).toNat = i.toNat + 1 := by
      rw [UInt64.toNat_add, UInt64.toNat_one]; omega
    have e4 : (8 - pib).toNat = 8 - pib.toNat := by
      rw [UInt64.toNat_sub]
      have : (8 : UInt64).toNat = 8 := rfl
      rw [this]; omega
    have hsl : src[i.toNat]!.toNat < 256 := UInt8.toNat_lt _
    rw [Mem.load_ok (by omega)]
    simp only [bind, Except.bind, e1, e2, e4]
    rw [Mem.load_ok (by omega), shrS32_ok (by omega)]
    simp only []
    rw [Mem.store_ok (by omega)]
    simp only []
    rw [shlS32_ok (by omega) (shl_bound (by omega) (by omega))]
    simp only []
    rw [Mem.store_ok (by rw [Mem.size_set!]; omega)]
    simp only []
    rw [ih _ _ (by rw [e3]; omega) (by rw [e3]; simp only [Mem.size_set!]; omega)
      (by simp only [Mem.size_set!]; exact hsz), e3]

theorem writeBytes_size (buf : Mem) (p : Nat) (src : Mem) (n : Nat) :
    (writeBytes buf p src n).size = buf.size := by
  unfold writeBytes
  split
  · exact pureMemcpy_size _ _ _ _ _
  · exact pureAppendBytesLoop_size _ _ _ _ _ _

theorem eight_mul_toNat {n : UInt64} (hn : n.toNat < 576460752303423488) :
    (8 * n).toNat = 8 * n.toNat := by
  rw [UInt64.toNat_mul]
  have : (8 : UInt64).toNat = 8 := rfl
  rw [this]; omega

theorem Enc.appendBytes_room {e : Enc} (hi : e.Inv) (h0 : 0 ≤ e.size) {src : Mem} {n : UInt64}
    (hn : n.toNat < 576460752303423488) (hsrc : n.toNat ≤ src.size)
    (h : e.pos + 8 * (n.toNat : Int) ≤ e.size) :
    e.appendBytes src n
      = .ok { e with buf := writeBytes e.buf e.pos.toNat src n.toNat, pos := e.pos + 8 * (n.toNat : Int) } := by
  have hi' := hi
  obtain ⟨hb, hl | hl⟩ := hi'
  · unfold Enc.appendBytes
    have h8 := eight_mul_toNat hn
    rw [Enc.alloc_ok hi (by rw [h8]; omega) h0 (by rw [h8]; omega)]
    simp only [bind, Except.bind, h8]
    rw [if_neg (by omega)]
    have hts : (toSize e.pos).toNat = e.pos.toNat := toSize_nonneg (by omega) (by omega)
    have c8 : (8 : UInt64).toNat = 8 := rfl
    have hbp : (toSize e.pos / 8).toNat = e.pos.toNat / 8 := by rw [UInt64.toNat_div, hts, c8]
    have hpib : (toSize e.pos % 8).toNat = e.pos.toNat % 8 := by rw [UInt64.toNat_mod, hts, c8]
    have hcast : ((8 * n.toNat : Nat) : Int) = 8 * (n.toNat : Int) := by omega
    by_cases hz : toSize e.pos % 8 = 0
    · have hz' : e.pos.toNat % 8 = 0 := by
        rw [← hpib, hz]; rfl
      rw [if_pos hz, hbp, Mem.ptr_ok (by omega)]
      simp only []
      rw [memcpy_ok _ _ _ _ _ (by omega) (by omega)]
      simp only [writeBytes, hz', if_true, hcast]
    · have hz' : ¬ e.pos.toNat % 8 = 0 := by
        intro h'
        apply hz
        apply UInt64.toNat_inj.1
        rw [hpib, h']; rfl
      rw [if_neg hz]
      rw [Enc.appendBytesLoop_ok src _ _ (by rw [hpib]; omega) (by rw [hpib]; omega) _ _ _
        (by simp; omega) (by rw [hbp]; simp; omega) hb]
      simp only [writeBytes, hz', if_false, hbp, hpib, hcast]
      rfl
  · omega

theorem Enc.appendBytes_full {e : Enc} (hi : e.Inv) (h0 : 0 ≤ e.size) (src : Mem) {n : UInt64}
    (hn : n.toNat < 576460752303423488) (h : e.size < e.pos + 8 * (n.toNat : Int)) :
    e.appendBytes src n = .ok (e.latch 12) := by
  unfold Enc.appendBytes
  have h8 := eight_mul_toNat hn
  rw [Enc.alloc_full hi (by rw [h8]; omega) h0 (by rw [h8]; omega)]
  simp only [bind, Except.bind]
  rw [if_pos (by omega)]

theorem Enc.appendBytes_latched {e : Enc} (hi : e.Inv) (h0 : e.size < 0) (src : Mem) {n : UInt64}
    (hn : n.toNat < 576460752303423488) :
    e.appendBytes src n = .ok e := by
  unfold Enc.appendBytes
  have h8 := eight_mul_toNat hn
  obtain ⟨p, hp, ha⟩ := Enc.alloc_latched (n := 8 * n) hi (by rw [h8]; omega) h0
  rw [ha]
  simp only [bind, Except.bind]
  rw [if_pos hp]

/-! ### `encoder_append_non_negative_binary_integer` -/

theorem Enc.inv_step {e : Enc} (hi : e.Inv) {buf' : Mem} (hb : buf'.size = e.buf.size) {p' : Int}
    (h0 : 0 ≤ p') (h1 : p' ≤ e.size) : ({ e with buf := buf', pos := p' } : Enc).Inv := by
  obtain ⟨hbs, hl | hl⟩ := hi
  · exact ⟨by simpa [hb] using hbs, Or.inl ⟨h0, h1, by simpa [hb] using hl.2.2⟩⟩
  · omega

theorem Enc.inv_latch {e : Enc} (hi : e.Inv) {buf' : Mem} (hb : buf'.size = e.buf.size) :
    (({ e with buf := buf' } : Enc).latch 12).Inv := by
  refine ⟨by simpa [Enc.latch, hb] using hi.1, Or.inr ⟨?_, rfl, ?_⟩⟩ <;> simp [Enc.latch]

theorem Enc.nnbiLoop_spec (value size : UInt64) (hsz : size.toNat ≤ 64) :
    ∀ n (i : UInt64) (e : Enc), e.Inv → i.toNat + n = size.toNat →
      (e.size < 0 → Enc.nnbiLoop value size n i e = .ok e) ∧
      (0 ≤ e.size → e.pos + (n : Int) ≤ e.size →
        Enc.nnbiLoop value size n i e
          = .ok { e with buf := writeNnbi value size.toNat n i.toNat e.buf e.pos.toNat, pos := e.pos + (n : Int) }) ∧
      (0 ≤ e.size → e.size < e.pos + (n : Int) →
        ∃ buf', buf'.size = e.buf.size ∧
          Enc.nnbiLoop value size n i e = .ok (({ e with buf := buf' } : Enc).latch 12)) := by
  intro n
  induction n with
  | zero =>
    intro i e hi hin
    refine ⟨fun _ => rfl, fun _ _ => ?_, fun h0 h => ?_⟩
    · simp [Enc.nnbiLoop, writeNnbi]
    · exfalso
      obtain ⟨_, hl | hl⟩ := hi <;> omega
  | succ n ih =>
    intro i e hi hin
    have e3 : (i + 1).toNat = i.toNat + 1 := by
      rw [UInt64.toNat_add, UInt64.toNat_one]; omega
    have e5 : (size - i - 1).toNat = size.toNat - i.toNat - 1 := by
      have a : (size - i).toNat = size.toNat - i.toNat := by
        rw [UInt64.toNat_sub]; omega
      rw [UInt64.toNat_sub, a, UInt64.toNat_one]; omega
    have hx : ∀ x : UInt64, (x &&& 1).toNat ≤ 1 := by
      intro x; rw [UInt64.toNat_and, UInt64.toNat_one]; exact Nat.and_le_right
    unfold Enc.nnbiLoop
    rw [e5, shrU64_ok (by omega)]
    simp only [bind, Except.bind]
    generalize hbv : (value >>> UInt64.ofNat (size.toNat - i.toNat - 1) &&& 1) = x
    have hx1 := hx (value >>> UInt64.ofNat (size.toNat - i.toNat - 1))
    rw [hbv] at hx1
    have hto : (Int.ofNat x.toNat).toNat = x.toNat := rfl
    refine ⟨fun hl => ?_, fun h0 h => ?_, fun h0 h => ?_⟩
    · rw [Enc.appendBit_latched hi hl]
      exact (ih (i + 1) e hi (by omega)).1 hl
    · rw [Enc.appendBit_room hi h0 (by omega) (by simp) (by simp; omega)]
      simp only [hto]
      have hi' : ({ e with buf := writeBit e.buf e.pos.toNat x.toNat, pos := e.pos + 1 } : Enc).Inv :=
        Enc.inv_step hi (writeBit_size _ _ _) (by obtain ⟨_, hl | hl⟩ := hi <;> omega) (by omega)
      have := (ih (i + 1) _ hi' (by omega)).2.1 h0 (by simp only []; omega)
      rw [this]
      have hp : (e.pos + 1).toNat = e.pos.toNat + 1 := by
        obtain ⟨_, hl | hl⟩ := hi <;> omega
      simp only [writeNnbi, e3, hp, hbv]
      congr 2
      omega
    · by_cases hroom : e.pos + 1 ≤ e.size
      · rw [Enc.appendBit_room hi h0 hroom (by simp) (by simp; omega)]
        simp only [hto]
        have hi' : ({ e with buf := writeBit e.buf e.pos.toNat x.toNat, pos := e.pos + 1 } : Enc).Inv :=
          Enc.inv_step hi (writeBit_size _ _ _) (by obtain ⟨_, hl | hl⟩ := hi <;> omega) hroom
        obtain ⟨buf', hb', hr⟩ := (ih (i + 1) _ hi' (by omega)).2.2 h0 (by simp only []; omega)
        exact ⟨buf', by rw [hb', writeBit_size], by rw [hr]; rfl⟩
      · rw [Enc.appendBit_full hi h0 (by omega)]
        simp only []
        have hi' : (e.latch 12).Inv := Enc.inv_latch (buf' := e.buf) hi rfl
        refine ⟨e.buf, rfl, ?_⟩
        exact (ih (i + 1) _ hi' (by omega)).1 (by simp [Enc.latch])

theorem writeNnbi_size (value : UInt64) (size : Nat) :
    ∀ n i buf p, (writeNnbi value size n i buf p).size = buf.size := by
  intro n
  induction n with
  | zero => intros; rfl
  | succ n ih => intro i buf p; simp [writeNnbi, ih, writeBit_size]

/-! ### the fixed width helpers are `encoder_append_bytes` of the big-endian bytes -/

theorem Enc.appendU16_eq (e : Enc) (v : UInt16) : e.appendU16 v = e.appendBytes (bytesU16 v) 2 := by
  unfold Enc.appendU16
  rw [shrS32_ok (by omega)]
  rfl

theorem Enc.appendU32_eq (e : Enc) (v : UInt32) : e.appendU32 v = e.appendBytes (bytesU32 v) 4 := by
  unfold Enc.appendU32
  rw [shrU32_ok (by omega), shrU32_ok (by omega), shrU32_ok (by omega)]
  rfl

theorem Enc.appendU64_eq (e : Enc) (v : UInt64) : e.appendU64 v = e.appendBytes (bytesU64 v) 8 := by
  unfold Enc.appendU64
  rw [shrU64_ok (by omega), shrU64_ok (by omega), shrU64_ok (by omega), shrU64_ok (by omega),
    shrU64_ok (by omega), shrU64_ok (by omega), shrU64_ok (by omega)]
  rfl

/-! ### one step of any helper: three cases -/

/-- bits appended by a helper call -/
def EncOp.need : EncOp → Nat
  | .bit _ => 1
  | .bool _ => 1
  | .bytes _ n => 8 * n.toNat
  | .u8 _ => 8 | .u16 _ => 16 | .u32 _ => 32 | .u64 _ => 64
  | .i8 _ => 8 | .i16 _ => 16 | .i32 _ => 32 | .i64 _ => 64
  | .nnbi _ n => n.toNat
  | .abort _ => 0

/-- Argument preconditions of the encoder helpers (what generated code must guarantee): a bit value
that can be shifted in `int`, a source object at least as large as the claimed size (< 2^59), at most
64 bits for `append_non_negative_binary_integer`, a positive error code. -/
def EncOp.Pre : EncOp → Prop
  | .bit v => 0 ≤ v ∧ v < 16777216
  | .bytes src n => n.toNat ≤ src.size ∧ n.toNat < 576460752303423488
  | .nnbi _ n => n.toNat ≤ 64
  | .abort err => 0 < err ∧ err ≤ 4611686018427387904
  | _ => True

/-- what one helper call does to the cursor -/
def Enc.StepSpec (e : Enc) (need : Nat) (r : C Enc) : Prop :=
  (e.size < 0 → r = .ok e) ∧
  (0 ≤ e.size → e.pos + (need : Int) ≤ e.size →
    ∃ buf', buf'.size = e.buf.size ∧ r = .ok { e with buf := buf', pos := e.pos + (need : Int) }) ∧
  (0 ≤ e.size → e.size < e.pos + (need : Int) →
    ∃ buf', buf'.size = e.buf.size ∧ r = .ok (({ e with buf := buf' } : Enc).latch 12))

theorem Enc.appendBytes_spec {e : Enc} (hi : e.Inv) {src : Mem} {n : UInt64}
    (hn : n.toNat < 576460752303423488) (hsrc : n.toNat ≤ src.size) :
    e.StepSpec (8 * n.toNat) (e.appendBytes src n) := by
  have hc : ((8 * n.toNat : Nat) : Int) = 8 * (n.toNat : Int) := by omega
  refine ⟨fun hl => Enc.appendBytes_latched hi hl src hn, fun h0 h => ?_, fun h0 h => ?_⟩
  · exact ⟨_, writeBytes_size _ _ _ _, by rw [Enc.appendBytes_room hi h0 hn hsrc (by omega), hc]⟩
  · exact ⟨e.buf, rfl, Enc.appendBytes_full hi h0 src hn (by omega)⟩

theorem Enc.appendBit_spec {e : Enc} (hi : e.Inv) {v : Int} (hv0 : 0 ≤ v) (hv : v < 16777216) :
    e.StepSpec 1 (e.appendBit v) := by
  refine ⟨fun hl => Enc.appendBit_latched hi hl v, fun h0 h => ?_, fun h0 h => ?_⟩
  · exact ⟨_, writeBit_size _ _ _, by rw [Enc.appendBit_room hi h0 (by omega) hv0 hv]; rfl⟩
  · exact ⟨e.buf, rfl, Enc.appendBit_full hi h0 (by omega) v⟩

theorem Enc.run_spec {e : Enc} (hi : e.Inv) {op : EncOp} (hpre : op.Pre)
    (hna : ∀ err, op ≠ .abort err) : e.StepSpec op.need (e.run op) := by
  have c1 : (1 : UInt64).toNat = 1 := rfl
  have c2 : (2 : UInt64).toNat = 2 := rfl
  have c4 : (4 : UInt64).toNat = 4 := rfl
  have c8 : (8 : UInt64).toNat = 8 := rfl
  cases op with
  | bit v => exact Enc.appendBit_spec hi hpre.1 hpre.2
  | bool b =>
    show e.StepSpec 1 (e.appendBit (if b then 1 else 0))
    cases b <;> exact Enc.appendBit_spec hi (by decide) (by decide)
  | bytes src n => exact Enc.appendBytes_spec hi hpre.2 hpre.1
  | u8 v =>
    have := Enc.appendBytes_spec (e := e) (src := #[v]) (n := 1) hi (by rw [c1]; omega) (by rw [c1]; simp)
    rwa [c1] at this
  | u16 v =>
    show e.StepSpec 16 (e.appendU16 v)
    rw [Enc.appendU16_eq]
    have := Enc.appendBytes_spec (e := e) (src := bytesU16 v) (n := 2) hi (by rw [c2]; omega) (by rw [c2]; simp [bytesU16])
    rwa [c2] at this
  | u32 v =>
    show e.StepSpec 32 (e.appendU32 v)
    rw [Enc.appendU32_eq]
    have := Enc.appendBytes_spec (e := e) (src := bytesU32 v) (n := 4) hi (by rw [c4]; omega) (by rw [c4]; simp [bytesU32])
    rwa [c4] at this
  | u64 v =>
    show e.StepSpec 64 (e.appendU64 v)
    rw [Enc.appendU64_eq]
    have := Enc.appendBytes_spec (e := e) (src := bytesU64 v) (n := 8) hi (by rw [c8]; omega) (by rw [c8]; simp [bytesU64])
    rwa [c8] at this
  | i8 v =>
    have := Enc.appendBytes_spec (e := e) (src := #[UInt8.ofNat (v.toUInt8.toNat + 128)]) (n := 1) hi
      (by rw [c1]; omega) (by rw [c1]; simp)
    rwa [c1] at this
  | i16 v =>
    show e.StepSpec 16 (e.appendU16 _)
    rw [Enc.appendU16_eq]
    have := Enc.appendBytes_spec (e := e) (src := bytesU16 (UInt16.ofNat (v.toUInt16.toNat + 32768))) (n := 2) hi
      (by rw [c2]; omega) (by rw [c2]; simp [bytesU16])
    rwa [c2] at this
  | i32 v =>
    show e.StepSpec 32 (e.appendU32 _)
    rw [Enc.appendU32_eq]
    have := Enc.appendBytes_spec (e := e) (src := bytesU32 (UInt32.ofNat (v.toUInt32.toNat + 2147483648))) (n := 4) hi
      (by rw [c4]; omega) (by rw [c4]; simp [bytesU32])
    rwa [c4] at this
  | i64 v =>
    show e.StepSpec 64 (e.appendU64 _)
    rw [Enc.appendU64_eq]
    have := Enc.appendBytes_spec (e := e) (src := bytesU64 (v.toUInt64 + 9223372036854775808)) (n := 8) hi
      (by rw [c8]; omega) (by rw [c8]; simp [bytesU64])
    rwa [c8] at this
  | nnbi v n =>
    have hs := Enc.nnbiLoop_spec v n hpre n.toNat 0 e hi (by simp)
    refine ⟨hs.1, fun h0 h => ?_, hs.2.2⟩
    exact ⟨_, writeNnbi_size _ _ _ _ _ _, hs.2.1 h0 h⟩
  | abort err => exact absurd rfl (hna err)

end Asn1.CCursor
