import Asn1Model.BerCodec
import Asn1Proofs.Lemmas.PrefixDerTop
import Asn1Proofs.Lemmas.DerTag
/-
  C16 for the BER model.  `BerCodec.enc` IS `Der.enc` (definitionally), so the shape lemmas of the DER
  proof (`Der.enc_shape`: every encoding is `tag ++ definite length ++ contents`) are reused as they are.
  `BerCodec.dec` is a different function; what has to be re-argued is

  * the string types (`pcDecode`): the identifier octets are compared with the primitive AND the
    constructed tag, then `readLen false` (indefinite form allowed) is called.  On a strict prefix of an
    encoder output the octets after the tag are a strict prefix of `encLength n ++ contents`, and
    `Der.readLen_short` (proved from the actual bytes, for either value of the `definiteOnly` flag)
    says that this is `decodeError`: the first length octet the encoder writes is never `0x80`, and if
    it is present the announced contents are not all there;
  * SEQUENCE OF: `readLen false` instead of `readLen true`, same argument;
  * a bare CHOICE: `tag_to_member` also holds the constructed tag of every string alternative, so an
    alternative may be entered through its constructed tag (`dec_ctag_short`).
-/
set_option linter.unusedSimpArgs false
set_option linter.unusedVariables false
namespace Asn1.BerCodec
open Asn1.Uper (Err)
open Asn1.Oer (splitAux readBytes)
open Asn1.Der (SPre tlv tlv_eq mkTag tagOf readLen matchTag readTag skipTLV readPrim readLen_short
  matchTag_short readPrim_short matchTag_readLen_short)

/-- splitting off `T.length` octets of a strict prefix of `T ++ rest` -/
theorem split_short (T rest q : Bytes) (h : SPre q (T ++ rest)) :
    splitAux T.length q [] = none ∨
      ∃ q', splitAux T.length q [] = some (T, q') ∧ SPre q' rest := by
  obtain ⟨x, hx, he⟩ := h
  rw [Oer.splitAux_eq]
  by_cases hlen : T.length ≤ q.length
  · right
    rw [if_pos hlen]
    have htake : q.take T.length = T := by
      have := congrArg (List.take T.length) he
      rw [List.take_left', List.take_append_of_le_length hlen] at this
      · exact this.symm
      · rfl
    have hdrop : rest = q.drop T.length ++ x := by
      have := congrArg (List.drop T.length) he
      rw [List.drop_left', List.drop_append_of_le_length hlen] at this
      · exact this
      · rfl
    exact ⟨q.drop T.length, by simp only [List.reverse_nil, List.nil_append, htake], x, hx, hdrop⟩
  · left
    rw [if_neg hlen]

/-- the primitive-or-constructed decoder on a strict prefix of a definite-length TLV carrying its
primitive or its constructed tag: the tag is matched (or is cut short) and `readLen false` fails -/
theorem pcDecode_short {α : Type} (prim : Bytes → Bytes → Der.DecM α) (join : List α → α)
    (segTag segCtag : Bytes) (fuel : Nat) (tag ctag T q content : Bytes)
    (hlen : T.length = tag.length) (hT : T = tag ∨ T = ctag) (h : SPre q (tlv T content)) :
    pcDecode prim join segTag segCtag (fuel + 1) tag ctag q = .error .decodeError := by
  rw [tlv_eq] at h
  rw [pcDecode, ← hlen]
  rcases split_short T _ q h with h1 | ⟨q', h1, h2⟩
  · rw [h1]
  · rw [h1]
    have hl := readLen_short false content q' h2
    dsimp only
    split
    · rw [hl]
    · split
      · rw [hl]
      · rename_i hn1 hn2
        rcases hT with rfl | rfl
        · simp at hn1
        · simp at hn2

theorem mkTag_length_flag (u : Nat) (c c' : Bool) (tg : Option Nat) :
    (mkTag u c tg).length = (mkTag u c' tg).length := by
  cases tg <;> simp only [mkTag, Der.encTag_length_der]

/-- `BerCodec.dec` of a string type on a strict prefix of a TLV carrying the primitive (`c = false`)
or the constructed (`c = true`) form of its tag -/
theorem dec_string_short (t : Ty) (hs : isString t = true) (tg : Option Nat) (fuel : Nat) (c : Bool)
    (q content : Bytes) (h : SPre q (tlv (mkTag (Der.univNumber t) c tg) content)) :
    dec t tg (fuel + 1) q = .error .decodeError := by
  have hT : ∀ u, mkTag u c tg = mkTag u false tg ∨ mkTag u c tg = mkTag u true tg := by
    intro u; cases c
    · exact .inl rfl
    · exact .inr rfl
  cases t <;> simp only [isString, Bool.false_eq_true] at hs
  case octetString cc =>
    rw [dec, decOctets, pcDecode_short _ _ _ _ fuel _ _ _ q content (mkTag_length_flag 4 c false tg) (hT 4) h]
    rfl
  case bitString cc =>
    rw [dec, decBits, pcDecode_short _ _ _ _ fuel _ _ _ q content (mkTag_length_flag 3 c false tg) (hT 3) h]
    rfl
  case charString k cc =>
    rw [dec, decOctets, pcDecode_short _ _ _ _ fuel _ _ _ q content
      (mkTag_length_flag (Der.univNumber (.charString k cc)) c false tg) (hT _) h]
    rfl

/-- every BER decoder of a tagged type rejects a strict prefix of a TLV carrying its tag -/
theorem dec_short (t : Ty) (tg : Option Nat) (fuel : Nat) (q content : Bytes)
    (hne : tg.isSome = true ∨ ∀ r e a, t ≠ .choice r e a)
    (h : SPre q (tlv (tagOf t tg) content)) : dec t tg (fuel + 1) q = .error .decodeError := by
  cases t with
  | boolean =>
    have := readPrim_short (mkTag 1 false tg) content q h
    rw [dec, this]; rfl
  | null =>
    rcases matchTag_readLen_short (mkTag 5 false tg) content q h with h1 | ⟨q', h1, h2⟩
    · rw [dec]; dsimp only; rw [h1]; rfl
    · rw [dec]; dsimp only; rw [h1]; simp only [bind, Except.bind, h2]
  | integer c =>
    have := readPrim_short (mkTag 2 false tg) content q h
    rw [dec, this]; rfl
  | enumerated root ext =>
    have := readPrim_short (mkTag 10 false tg) content q h
    rw [dec, this]; rfl
  | octetString c => exact dec_string_short _ rfl tg fuel false q content h
  | bitString c => exact dec_string_short _ rfl tg fuel false q content h
  | charString k c => exact dec_string_short _ rfl tg fuel false q content h
  | sequence root ext adds =>
    rcases matchTag_readLen_short (mkTag 16 true tg) content q h with h1 | ⟨q', h1, h2⟩
    · rw [dec]; dsimp only; rw [h1]; rfl
    · rw [dec]; dsimp only; rw [h1]; simp only [bind, Except.bind, h2]
  | sequenceOf e c =>
    rcases matchTag_readLen_short (mkTag 16 true tg) content q h with h1 | ⟨q', h1, h2⟩
    · rw [dec]; dsimp only; rw [h1]; rfl
    · rw [dec]; dsimp only; rw [h1]; simp only [bind, Except.bind, h2]
  | choice root ext adds =>
    cases tg with
    | none =>
      rcases hne with hne | hne
      · cases hne
      · exact absurd rfl (hne root ext adds)
    | some i =>
      rcases matchTag_readLen_short (mkTag 0 true (some i)) content q h with h1 | ⟨q', h1, h2⟩
      · rw [dec]; dsimp only; rw [h1]; rfl
      · rw [dec]; dsimp only; rw [h1]; simp only [bind, Except.bind, h2]

/-- `tag_to_member` of ber.py: whichever key (tag or constructed tag) leads to an alternative, that
alternative's decoder runs out of data -/
theorem decAlt_short (as : Alts) (i : Nat) (T : Bytes) (fuel : Nat) (q content : Bytes)
    (h : SPre q (tlv T content)) :
    decAlt as i T (fuel + 1) q = none ∨ decAlt as i T (fuel + 1) q = some (.error .decodeError) := by
  induction as using Alts.ind generalizing i with
  | nil => exact .inl rfl
  | cons n t rest ih =>
    simp only [decAlt]
    split
    · rename_i heq
      right
      simp only [Bool.or_eq_true, Bool.and_eq_true, beq_iff_eq] at heq
      rcases heq with hT | ⟨hs, hT⟩
      · rw [dec_short t (some i) fuel q content (.inl rfl) (hT ▸ h)]
        rfl
      · rw [dec_string_short t hs (some i) fuel true q content (hT ▸ h)]
        rfl
    · exact ih (i + 1)

/-- a bare CHOICE on a strict prefix of the TLV of one of its alternatives: out of data, or (at
worst) no alternative claims the tag -/
theorem dec_bare_short (root adds : Alts) (ext : Bool) (fuel : Nat) (q content : Bytes) (n c : Nat)
    (hc : c = 0 ∨ c = 32) (h : SPre q (tlv (Ber.encTag n (0x80 + c)) content)) :
    dec (.choice root ext adds) none (fuel + 1) q = .error .decodeError ∨
      dec (.choice root ext adds) none (fuel + 1) q = .ok none := by
  rw [dec]
  dsimp only
  obtain ⟨x, hx, hfull⟩ := h
  rcases Der.readTag_cases q with h1 | ⟨t, r', h1, hq, hr', hext⟩
  · left; rw [h1]; rfl
  · have hfull' := Der.readTag_encTag n c (Ber.encLength content.length ++ content) hc
      (by simp [Der.encLength_ne_nil])
    rw [← tlv_eq, hfull, hext x] at hfull'
    injection hfull' with hfull'
    injection hfull' with ht hrest
    subst ht
    have hsp : SPre q (tlv (Ber.encTag n (0x80 + c)) content) := ⟨x, hx, hfull⟩
    have hlen : readLen true r' = .error .decodeError :=
      readLen_short true content r' ⟨x, hx, hrest.symm⟩
    rw [h1]
    dsimp only [bind, Except.bind]
    rcases decAlt_short root 0 _ fuel q content hsp with e1 | e1 <;> rw [e1] <;> dsimp only
    · rcases decAlt_short adds root.length _ fuel q content hsp with e2 | e2 <;> rw [e2] <;> dsimp only
      · cases ext
        · right; rfl
        · left
          simp only [skipTLV, h1, bind, Except.bind, hlen, if_true]
      · exact .inl rfl
    · exact .inl rfl

/-- **BER: every strict prefix of an encoding is rejected with `decodeError`** (no hypothesis on the
type or the value other than that the encoder accepted it) -/
theorem decode_short (t : Ty) (v : Val) (bytes : Bytes) (k : Nat)
    (he : encode t v = .ok bytes) (hk : k < bytes.length) :
    decode t (bytes.take k) = .error .decodeError := by
  unfold encode at he
  replace he : Der.enc t none v = .ok bytes := by
    split at he
    · exact he
    · cases he
  have hsp : SPre (bytes.take k) bytes :=
    ⟨bytes.drop k, by
      intro h0
      have := congrArg List.length h0
      simp only [List.length_drop, List.length_nil] at this
      omega, (List.take_append_drop k bytes).symm⟩
  have key : dec t none ((bytes.take k).length + 1) (bytes.take k) = .error .decodeError ∨
      dec t none ((bytes.take k).length + 1) (bytes.take k) = .ok none := by
    by_cases hch : ∃ r e a, t = .choice r e a
    · obtain ⟨root, ext, adds, rfl⟩ := hch
      cases v <;> simp only [Der.enc] at he <;> first | cases he | skip
      rename_i name v'
      have : ∃ j t', Der.enc t' (some j) v' = .ok bytes := by
        split at he
        · rename_i r hr
          obtain ⟨j, t', rfl⟩ := Der.encAlt_some _ _ _ _ _ hr
          exact ⟨j, t', he⟩
        · split at he
          · rename_i r hr
            obtain ⟨j, t', rfl⟩ := Der.encAlt_some _ _ _ _ _ hr
            exact ⟨j, t', he⟩
          · cases he
      obtain ⟨j, t', he'⟩ := this
      obtain ⟨content, rfl⟩ := Der.enc_shape t' (some j) _ _ (.inl rfl) he'
      exact dec_bare_short root adds ext _ _ content j (if Der.isConstructed t' then 0x20 else 0)
        (by split <;> simp) hsp
    · left
      have hne : ∀ r e a, t ≠ .choice r e a := fun r e a h => hch ⟨r, e, a, h⟩
      obtain ⟨content, rfl⟩ := Der.enc_shape t none v bytes (.inr hne) he
      exact dec_short t none _ _ content (.inr hne) hsp
  unfold decode decodeWithLength
  rcases key with k1 | k1 <;> rw [k1] <;> rfl

/-- the name asked for: `BerCodec.truncated` -/
theorem truncated (t : Ty) (v : Val) (bytes : Bytes) (k : Nat)
    (he : encode t v = .ok bytes) (hk : k < bytes.length) :
    decode t (bytes.take k) = .error .decodeError :=
  decode_short t v bytes k he hk

end Asn1.BerCodec

#print axioms Asn1.BerCodec.truncated
