import Asn1Proofs.Lemmas.CostDer2
/-
  C08 for the DER model: allocation bound and fuel sufficiency of `Der.dec`.

  `presenceNodes`, `KD`, `KDm`, `KDa` are defined (unchanged) in `CostDer1.lean`, next to the lemmas
  about the SEQUENCE / CHOICE decoder shared with BER that need them.
-/
set_option linter.unusedSimpArgs false
set_option linter.unusedVariables false
namespace Asn1.Cost
open Asn1.Der
open Asn1.Uper (Err)
open Asn1.Oer (splitAux readBytes decodeStr)

/-! ### allocation bound, type by type -/

theorem ct_boolean : CT dec .boolean := by
  intro tg f bs v k r h
  rw [dec] at h
  obtain ⟨o, h1, h⟩ := Uper.bind_ok h
  cases o with
  | none => cases h
  | some x =>
    obtain ⟨content, k', r'⟩ := x
    dsimp only at h
    split at h
    · cases h
      obtain ⟨a1, a2⟩ := readPrim_spec h1
      have := mkTag_pos 1 false tg
      simp only [Val.nodes, KD]
      omega
    · cases h

theorem ct_null : CT dec .null := by
  intro tg f bs v k r h
  rw [dec] at h
  dsimp only at h
  obtain ⟨o, h1, h⟩ := Uper.bind_ok h
  cases o with
  | none => cases h
  | some r0 =>
    dsimp only at h
    obtain ⟨⟨len, hh, r1⟩, h2, h⟩ := Uper.bind_ok h
    cases h
    have a1 := matchTag_len h1
    obtain ⟨a2, a3, _, _⟩ := readLen_spec h2
    have := mkTag_pos 5 false tg
    simp only [Val.nodes, KD]
    omega

theorem ct_integer (c : IntC) : CT dec (.integer c) := by
  intro tg f bs v k r h
  rw [dec] at h
  obtain ⟨o, h1, h⟩ := Uper.bind_ok h
  cases o with
  | none => cases h
  | some x =>
    obtain ⟨content, k', r'⟩ := x
    cases h
    obtain ⟨a1, a2⟩ := readPrim_spec h1
    have := mkTag_pos 2 false tg
    simp only [Val.nodes, KD]
    omega

theorem ct_enumerated (root : List (String × Int)) (ext : Option (List (String × Int))) :
    CT dec (.enumerated root ext) := by
  intro tg f bs v k r h
  rw [dec] at h
  obtain ⟨o, h1, h⟩ := Uper.bind_ok h
  cases o with
  | none => cases h
  | some x =>
    obtain ⟨content, k', r'⟩ := x
    dsimp only at h
    obtain ⟨v', h2, h⟩ := Uper.bind_ok h
    cases h
    obtain ⟨a1, a2⟩ := readPrim_spec h1
    have := mkTag_pos 10 false tg
    have hv : v.nodes = 1 := by
      unfold enumOfContent at h2
      split at h2
      · cases h2; rfl
      · split at h2
        · cases h2; rfl
        · cases h2
    rw [hv]
    simp only [KD]
    omega

theorem ct_octetString (c : SizeC) : CT dec (.octetString c) := by
  intro tg f bs v k r h
  rw [dec] at h
  obtain ⟨o, h1, h⟩ := Uper.bind_ok h
  cases o with
  | none => cases h
  | some x =>
    obtain ⟨content, k', r'⟩ := x
    cases h
    obtain ⟨a1, a2⟩ := readPrim_spec h1
    have := mkTag_pos 4 false tg
    simp only [Val.nodes, KD]
    omega

theorem ct_bitString (c : SizeC) : CT dec (.bitString c) := by
  intro tg f bs v k r h
  rw [dec] at h
  obtain ⟨o, h1, h⟩ := Uper.bind_ok h
  cases o with
  | none => cases h
  | some x =>
    obtain ⟨content, k', r'⟩ := x
    dsimp only at h
    obtain ⟨⟨body, n⟩, h2, h⟩ := Uper.bind_ok h
    cases h
    obtain ⟨a1, a2⟩ := readPrim_spec h1
    have a3 := bitsOfContent_len h2
    have := mkTag_pos 3 false tg
    simp only [Val.nodes, KD]
    omega

theorem ct_charString (kind : StrKind) (c : SizeC) : CT dec (.charString kind c) := by
  intro tg f bs v k r h
  rw [dec] at h
  obtain ⟨o, h1, h⟩ := Uper.bind_ok h
  cases o with
  | none => cases h
  | some x =>
    obtain ⟨content, k', r'⟩ := x
    dsimp only at h
    obtain ⟨cps, h2, h⟩ := Uper.bind_ok h
    cases h
    obtain ⟨a1, a2⟩ := readPrim_spec h1
    have a3 := decodeStr_len h2
    have := tagOf_pos (.charString kind c) tg
    simp only [Val.nodes, KD]
    omega

theorem ct_sequenceOf (e : Ty) (c : SizeC) (ih : CT dec e) : CT dec (.sequenceOf e c) := by
  intro tg f bs v k r h
  rw [dec] at h
  dsimp only at h
  obtain ⟨o, h1, h⟩ := Uper.bind_ok h
  cases o with
  | none => cases h
  | some r0 =>
    dsimp only at h
    obtain ⟨⟨len, hh, r1⟩, h2, h⟩ := Uper.bind_ok h
    dsimp only at h
    obtain ⟨⟨vs, k', r2⟩, h3, h⟩ := Uper.bind_ok h
    cases h
    have a1 := matchTag_len h1
    obtain ⟨a2, a3, _, _⟩ := readLen_spec h2
    have := mkTag_pos 16 true tg
    obtain ⟨b1, b2⟩ := derElems_cost (ih none f) _ _ _ _ _ _ h3
    dsimp only
    refine ⟨by omega, by omega, ?_⟩
    simp only [Val.nodes, KD]
    have c1 : 1 * 1 ≤ 1 * (bs.length - r2.length) := Nat.mul_le_mul_left _ (by omega)
    have c2 := bm_mono b2 (Nat.le_refl _) (show r1.length - r2.length ≤ bs.length - r2.length by omega)
    rw [Nat.add_mul]
    omega

theorem ct_sequence (root : Members) (ext : Bool) (adds : Members) (hr : Members.All (CT dec) root)
    (ha : Members.All (CT dec) adds) : CT dec (.sequence root ext adds) := by
  intro tg f bs v k r h
  rw [der_dec_seq] at h
  simp only [KD]
  exact gSeq_cost dec root adds hr ha tg f bs v k r h

theorem ct_choice (root : Alts) (ext : Bool) (adds : Alts) (hr : Alts.All (CT dec) root)
    (ha : Alts.All (CT dec) adds) : CT dec (.choice root ext adds) := by
  intro tg f bs v k r h
  rw [der_dec_choice] at h
  simp only [KD]
  exact gChoice_cost dec derTest root ext adds hr ha tg f bs v k r h

theorem ct_all (t : Ty) : CT dec t :=
  Ty.rec (motive_1 := CT dec) (motive_2 := Members.All (CT dec)) (motive_3 := Alts.All (CT dec))
    ct_boolean ct_null ct_integer ct_enumerated ct_octetString ct_bitString ct_charString
    (fun root ext adds ihr iha => ct_sequence root ext adds ihr iha)
    (fun e c ih => ct_sequenceOf e c ih)
    (fun root ext adds ihr iha => ct_choice root ext adds ihr iha)
    trivial (fun _ _ _ _ iht ihr => ⟨iht, ihr⟩)
    trivial (fun _ _ _ iht ihr => ⟨iht, ihr⟩) t

theorem ct_members (ms : Members) : Members.All (CT dec) ms := by
  induction ms using Members.ind with
  | nil => trivial
  | cons name p t rest ih => exact ⟨ct_all t, ih⟩

theorem ct_alts (as : Alts) : Alts.All (CT dec) as := by
  induction as using Alts.ind with
  | nil => trivial
  | cons name t rest ih => exact ⟨ct_all t, ih⟩

/-! ### fuel independence, type by type -/

theorem fi_sequenceOf (e : Ty) (c : SizeC) (ih : FI dec e) : FI dec (.sequenceOf e c) := by
  intro tg f f' bs h1 h2
  simp only [dec]
  cases hm : matchTag (mkTag 16 true tg) bs with
  | error err => rfl
  | ok o =>
    cases o with
    | none => rfl
    | some r0 =>
      simp only [bind, Except.bind]
      have m1 := matchTag_len hm
      cases hl : readLen true r0 with
      | error err => rfl
      | ok x =>
        obtain ⟨len, h, r1⟩ := x
        dsimp only
        obtain ⟨_, l2, l3, l4⟩ := readLen_spec hl
        have hlen : len.getD 0 ≤ r1.length := by
          cases len with
          | none => simp
          | some n => exact l3 n rfl
        rw [derElems_congr (ct_all e none f) f f' (len.getD 0) r1
          (fun b hb => ih none f f' b (by omega) (by omega)) (by omega) (by omega)]

theorem fi_sequence (root : Members) (ext : Bool) (adds : Members) (hr : Members.All (FI dec) root)
    (ha : Members.All (FI dec) adds) : FI dec (.sequence root ext adds) := by
  intro tg f f' bs h1 h2
  rw [der_dec_seq, der_dec_seq]
  exact gSeq_fuel dec root adds (ct_members root) (ct_members adds) hr ha tg f f' bs h1 h2

theorem fi_choice (root : Alts) (ext : Bool) (adds : Alts) (hr : Alts.All (FI dec) root)
    (ha : Alts.All (FI dec) adds) : FI dec (.choice root ext adds) := by
  intro tg f f' bs h1 h2
  rw [der_dec_choice, der_dec_choice]
  exact gChoice_fuel dec derTest root ext adds hr ha tg f f' bs h1 h2

theorem fi_all (t : Ty) : FI dec t :=
  Ty.rec (motive_1 := FI dec) (motive_2 := Members.All (FI dec)) (motive_3 := Alts.All (FI dec))
    (fun tg f f' bs _ _ => by simp only [dec])
    (fun tg f f' bs _ _ => by simp only [dec])
    (fun c tg f f' bs _ _ => by simp only [dec])
    (fun root ext tg f f' bs _ _ => by simp only [dec])
    (fun c tg f f' bs _ _ => by simp only [dec])
    (fun c tg f f' bs _ _ => by simp only [dec])
    (fun k c tg f f' bs _ _ => by simp only [dec])
    (fun root ext adds ihr iha => fi_sequence root ext adds ihr iha)
    (fun e c ih => fi_sequenceOf e c ih)
    (fun root ext adds ihr iha => fi_choice root ext adds ihr iha)
    trivial (fun _ _ _ _ iht ihr => ⟨iht, ihr⟩)
    trivial (fun _ _ _ iht ihr => ⟨iht, ihr⟩) t

/-! ### the theorems -/

/-- every successful `Der.dec` consumes input, reports a positive octet count and returns a value whose
size is at most `KD t` per octet consumed -/
theorem der_dec_cost (t : Ty) (tg : Option Nat) (f : Nat) (bs : Bytes) (v : Val) (k : Nat) (r : Bytes)
    (h : Der.dec t tg f bs = .ok (some (v, k, r))) :
    r.length < bs.length ∧ 1 ≤ k ∧ v.nodes ≤ KD t * (bs.length - r.length) :=
  ct_all t tg f bs v k r h

/-- the global fuel (length of the whole input + 1) is never exhausted: any two amounts of fuel larger
than the length of the input give the same result -/
theorem der_dec_fuel (t : Ty) (tg : Option Nat) (f f' : Nat) (bs : Bytes)
    (hf : bs.length < f) (hf' : bs.length < f') :
    Der.dec t tg f bs = Der.dec t tg f' bs :=
  fi_all t tg f f' bs hf hf'

/-- the `while True` loop of `decode_members` (fuel `ms.length + 1`, fixed by the type) is never out of
fuel: more fuel does not change the result -/
theorem der_retry_fuel (ms : Members) (i f extra : Nat) (c : Cur) :
    retry (decPass ms i f) (ms.length + 1 + extra) (List.replicate ms.length none) c
      = retry (decPass ms i f) (ms.length + 1) (List.replicate ms.length none) c := by
  rw [der_decPass_fun]
  exact gPass_retry_fuel dec ms i f extra c

end Asn1.Cost

#print axioms Asn1.Cost.der_dec_cost
#print axioms Asn1.Cost.der_dec_fuel
#print axioms Asn1.Cost.der_retry_fuel
