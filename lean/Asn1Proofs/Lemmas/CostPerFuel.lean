import Asn1Proofs.Lemmas.CostPerComp
/-
  C08 for the ALIGNED PER model: fuel sufficiency.  The fuel-indexed loops of the decoder are
  `decChunks` and `decChunksBits` (`read_length_determinant_chunks`); every chunk costs at least 8
  bits and no reader ever lengthens the remaining input (alignment only drops bits), so any amount of fuel larger than the number of
  remaining bits gives the same result: the out-of-fuel branch is dead.  No hypothesis on the type.
-/
set_option linter.unusedSimpArgs false
set_option linter.unusedVariables false
namespace Asn1.CostP
open Asn1.Per
open Asn1.Uper (DecM Err bind_ok sizeBits utf8Dec charDecode sortByVal)
open Asn1.Cost (bind_congr_ok members_all_of_forall alts_all_of_forall)

/-- a parser that never lengthens its input -/
def NIP {α : Type} (p : St → DecM (α × St)) : Prop :=
  ∀ s a r, p s = .ok (a, r) → r.bs.length ≤ s.bs.length

theorem nip_dec (t : Ty) (f : Nat) : NIP (dec t f) :=
  fun s a r h => (per_dec_cost t f s a r h).1

theorem decRepeat_congr {α : Type} {p p' : St → DecM (α × St)} (hp : NIP p) (n : Nat) :
    ∀ s : St, (∀ b : St, b.bs.length ≤ s.bs.length → p b = p' b) →
      decRepeat p n s = decRepeat p' n s := by
  induction n with
  | zero => intro s _; rfl
  | succ n ih =>
    intro s hpp
    simp only [decRepeat]
    rw [← hpp s (Nat.le_refl _)]
    refine bind_congr_ok ?_
    rintro ⟨a, r⟩ h1
    have hl := hp _ _ _ h1
    dsimp only
    rw [ih r (fun b hb => hpp b (by omega))]

theorem nip_decRepeat {α : Type} {p : St → DecM (α × St)} (hp : NIP p) (n : Nat) :
    NIP (decRepeat p n) := by
  intro s xs r h
  exact (decRepeat_ok (size := fun _ => 0) (K := 0)
    (fun s a r h => ⟨hp s a r h, by simp⟩) n h).1

/-- **fuel sufficiency of the chunk loop**: with more fuel than remaining bits, the result of
`decChunks` does not depend on the fuel (nor on how the item decoder behaves on longer inputs) -/
theorem decChunks_fuel {α : Type} {p p' : St → DecM (α × St)} (hp : NIP p) (f : Nat) :
    ∀ (f' : Nat) (s : St), (∀ b : St, b.bs.length ≤ s.bs.length → p b = p' b) →
      s.bs.length < f → s.bs.length < f' → decChunks p f s = decChunks p' f' s := by
  induction f with
  | zero => intro f' s _ h; omega
  | succ f ih =>
    intro f' s hpp hf hf'
    obtain ⟨f'', rfl⟩ : ∃ k, f' = k + 1 := ⟨f' - 1, by omega⟩
    simp only [decChunks]
    refine bind_congr_ok ?_
    rintro ⟨len, r⟩ h1
    have hl := (readLenDet_ok h1).1
    dsimp only
    rw [← decRepeat_congr hp len r (fun b hb => hpp b (by omega))]
    refine bind_congr_ok ?_
    rintro ⟨xs, r'⟩ h2
    have hl2 := nip_decRepeat hp len _ _ _ h2
    dsimp only
    split
    · rfl
    · rw [ih f'' r' (fun b hb => hpp b (by omega)) (by omega) (by omega)]

theorem decChunks_fuel_self {α : Type} {p : St → DecM (α × St)} (hp : NIP p) (f f' : Nat) (s : St)
    (hf : s.bs.length < f) (hf' : s.bs.length < f') : decChunks p f s = decChunks p f' s :=
  decChunks_fuel hp f f' s (fun _ _ => rfl) hf hf'

/-- the same for the block-wise chunk reader -/
theorem decChunksBits_fuel (u : Nat) (f : Nat) : ∀ (f' : Nat) (s : St),
    s.bs.length < f → s.bs.length < f' → decChunksBits u f s = decChunksBits u f' s := by
  induction f with
  | zero => intro f' s h; omega
  | succ f ih =>
    intro f' s hf hf'
    obtain ⟨f'', rfl⟩ : ∃ k, f' = k + 1 := ⟨f' - 1, by omega⟩
    simp only [decChunksBits]
    refine bind_congr_ok ?_
    rintro ⟨len, r⟩ h1
    have hl := (readLenDet_ok h1).1
    dsimp only
    refine bind_congr_ok ?_
    rintro ⟨xs, r'⟩ h2
    have hl2 := (readBits_ok h2).1
    dsimp only
    split
    · rfl
    · rw [ih f'' r' (by omega) (by omega)]

/-- fuel independence of the decoder of `t` -/
def FIP (t : Ty) : Prop :=
  ∀ (f f' : Nat) (s : St), s.bs.length < f → s.bs.length < f' → dec t f s = dec t f' s

theorem fip_boolean : FIP .boolean := by intro f f' s _ _; simp only [dec]
theorem fip_null : FIP .null := by intro f f' s _ _; simp only [dec]
theorem fip_integer (c : IntC) : FIP (.integer c) := by intro f f' s _ _; simp only [dec]
theorem fip_enumerated (root : List (String × Int)) (ext : Option (List (String × Int))) :
    FIP (.enumerated root ext) := by intro f f' s _ _; simp only [dec]

theorem fip_octetString (c : SizeC) : FIP (.octetString c) := by
  intro f f' s hf hf'
  rw [dec, dec]
  refine bind_congr_ok ?_
  rintro ⟨ext, r0⟩ h0
  have hl0 := optBit_ok h0
  have ha := align_le r0
  dsimp only
  rw [decChunksBits_fuel 8 f f' (align r0) (by omega) (by omega)]

theorem fip_bitString (c : SizeC) : FIP (.bitString c) := by
  intro f f' s hf hf'
  rw [dec, dec]
  refine bind_congr_ok ?_
  rintro ⟨ext, r0⟩ h0
  have hl0 := optBit_ok h0
  have ha := align_le r0
  dsimp only
  rw [decChunksBits_fuel 1 f f' (align r0) (by omega) (by omega)]

theorem fip_utf8 (c : SizeC) : FIP (.charString .utf8 c) := by
  intro f f' s hf hf'
  have ha := align_le s
  rw [dec, dec]
  rw [decChunksBits_fuel 8 f f' (align s) (by omega) (by omega)]

theorem fip_charString (k : StrKind) (hk : k ≠ .utf8) (c : SizeC) : FIP (.charString k c) := by
  intro f f' s hf hf'
  rw [dec, dec]
  · refine bind_congr_ok ?_
    rintro ⟨ext, r0⟩ h0
    have hl0 := optBit_ok h0
    have ha := align_le r0
    dsimp only
    rw [decChunks_fuel_self (fun s a r h => Nat.le_of_lt (one_ok k hk s a r h)) f f' (align r0)
      (by omega) (by omega)]
  all_goals (first | exact hk | (intro c' heq; cases heq; exact hk rfl))

theorem fip_sequenceOf (e : Ty) (c : SizeC) (ih : FIP e) : FIP (.sequenceOf e c) := by
  intro f f' s hf hf'
  rw [dec, dec]
  refine bind_congr_ok ?_
  rintro ⟨ext, r0⟩ h0
  have hl0 := optBit_ok h0
  have ha := align_le r0
  dsimp only
  have hrep : ∀ (n : Nat) (b : St), b.bs.length ≤ s.bs.length →
      decRepeat (dec e f) n b = decRepeat (dec e f') n b := fun n b hb =>
    decRepeat_congr (nip_dec e f) n b (fun b' hb' => ih f f' b' (by omega) (by omega))
  split
  · refine bind_congr_ok ?_
    rintro ⟨len, r1⟩ h1
    have hl1 := (readLenDet_ok h1).1
    dsimp only
    rw [hrep len r1 (by omega)]
  · split
    · rw [decChunks_fuel (nip_dec e f) f f' (align r0)
        (fun b' hb' => ih f f' b' (by omega) (by omega)) (by omega) (by omega)]
    · refine bind_congr_ok ?_
      rintro ⟨len, r1⟩ h1
      have hl1 := (readSize_ok h1).1
      dsimp only
      rw [hrep len r1 (by omega)]

theorem fip_decMembers (ms : Members) : ms.All FIP → ∀ (f f' : Nat) (flags : Bits) (s : St),
    s.bs.length < f → s.bs.length < f' → decMembers ms f flags s = decMembers ms f' flags s := by
  induction ms using Members.ind with
  | nil => intro _ f f' flags s _ _; simp only [decMembers]
  | cons name p t rest ih =>
    intro hall f f' flags s hf hf'
    obtain ⟨ht, hrest⟩ := hall
    have hpresent : ∀ fl, (do
          let (v, r) ← dec t f s
          let (fs, r') ← decMembers rest f fl r
          .ok ((name, v) :: fs, r') : DecM (List (String × Val) × St)) = (do
          let (v, r) ← dec t f' s
          let (fs, r') ← decMembers rest f' fl r
          .ok ((name, v) :: fs, r') : DecM (List (String × Val) × St)) := by
      intro fl
      rw [← ht f f' s hf hf']
      refine bind_congr_ok ?_
      rintro ⟨v, r⟩ h1
      have hl := nip_dec t f _ _ _ h1
      dsimp only
      rw [ih hrest f f' fl r (by omega) (by omega)]
    cases p with
    | mandatory =>
      rw [decMembers, decMembers]
      exact hpresent flags
    | optional =>
      rw [decMembers.eq_def, decMembers.eq_def]
      dsimp only
      split
      · exact hpresent _
      · exact ih hrest f f' _ s hf hf'
      · rfl
    | default d =>
      rw [decMembers.eq_def, decMembers.eq_def]
      dsimp only
      split
      · exact hpresent _
      · rw [ih hrest f f' _ s hf hf']
      · rfl

theorem fip_decAdditions (ms : Members) : ms.All FIP → ∀ (f f' : Nat) (bitmap : Bits) (s : St),
    s.bs.length < f → s.bs.length < f' →
      decAdditions ms f bitmap s = decAdditions ms f' bitmap s := by
  induction ms using Members.ind with
  | nil => intro _ f f' bitmap s _ _; simp only [decAdditions]
  | cons name p t rest ih =>
    intro hall f f' bitmap s hf hf'
    obtain ⟨ht, hrest⟩ := hall
    cases bitmap with
    | nil => simp only [decAdditions]
    | cons present bitmap =>
      rw [decAdditions.eq_def, decAdditions.eq_def]
      dsimp only
      split
      · refine bind_congr_ok ?_
        rintro ⟨len, r1⟩ h1
        have hl1 := (readLenDet_ok h1).1
        dsimp only
        rw [← ht f f' r1 (by omega) (by omega)]
        refine bind_congr_ok ?_
        rintro ⟨v, r2⟩ h2
        have hl2 := nip_dec t f _ _ _ h2
        dsimp only
        refine bind_congr_ok ?_
        rintro ⟨pad, r3⟩ h3
        have hl3 := (readBits_ok h3).1
        dsimp only
        rw [ih hrest f f' bitmap r3 (by omega) (by omega)]
      · exact ih hrest f f' bitmap s hf hf'

theorem fip_sequence (root : Members) (ext : Bool) (adds : Members)
    (ihr : root.All FIP) (iha : adds.All FIP) : FIP (.sequence root ext adds) := by
  intro f f' s hf hf'
  rw [dec, dec]
  refine bind_congr_ok ?_
  rintro ⟨e, r0⟩ h0
  have hl0 := optBit_ok h0
  dsimp only
  refine bind_congr_ok ?_
  rintro ⟨flags, r1⟩ h1
  have hl1 := (readBits_ok h1).1
  dsimp only
  rw [← fip_decMembers root ihr f f' flags r1 (by omega) (by omega)]
  refine bind_congr_ok ?_
  rintro ⟨fields, r2⟩ h2
  have hl2 := (szp_decMembers root (members_all_of_forall szp_all root) f _ _ _ _ h2).1
  dsimp only
  split
  · refine bind_congr_ok ?_
    rintro ⟨n, r3⟩ h3
    have hl3 := decNsLength_ok h3
    dsimp only
    refine bind_congr_ok ?_
    rintro ⟨bitmap, r4⟩ h4
    have hl4 := (readBits_ok h4).1
    have ha := align_le r4
    dsimp only
    rw [fip_decAdditions adds iha f f' bitmap (align r4) (by omega) (by omega)]
  · rfl

theorem fip_decAlt (as : Alts) : as.All FIP → ∀ (f f' i : Nat) (s : St),
    s.bs.length < f → s.bs.length < f' → decAlt as f i s = decAlt as f' i s := by
  induction as using Alts.ind with
  | nil => intro _ f f' i s _ _; rfl
  | cons n t rest ih =>
    intro hall f f' i s hf hf'
    obtain ⟨ht, hrest⟩ := hall
    cases i with
    | zero => simp only [decAlt]; rw [ht f f' s hf hf']
    | succ i => simp only [decAlt]; exact ih hrest f f' i s hf hf'

theorem fip_choice (root : Alts) (ext : Bool) (adds : Alts)
    (ihr : root.All FIP) (iha : adds.All FIP) : FIP (.choice root ext adds) := by
  intro f f' s hf hf'
  rw [dec, dec]
  refine bind_congr_ok ?_
  rintro ⟨e, r0⟩ h0
  have hl0 := optBit_ok h0
  dsimp only
  split
  · refine bind_congr_ok ?_
    rintro ⟨idx, r1⟩ h1
    have hl1 := decNsnnwn_ok h1
    have ha := align_le r1
    dsimp only
    refine bind_congr_ok ?_
    rintro ⟨len, r2⟩ h2
    have hl2 := (readLenDet_ok h2).1
    dsimp only
    rw [fip_decAlt adds iha f f' idx r2 (by omega) (by omega)]
  · refine bind_congr_ok ?_
    rintro ⟨idx, r1⟩ h1
    have hl1 : r1.bs.length ≤ r0.bs.length := by
      split at h1
      · exact decConstrainedInt_ok h1
      · cases h1; exact Nat.le_refl _
    dsimp only
    rw [fip_decAlt root ihr f f' idx.toNat r1 (by omega) (by omega)]

/-- **fuel independence of the aligned PER decoder**, every type: any two amounts of fuel larger
than the number of remaining bits give the same result (value, remaining input, or error) -/
theorem fip_all (t : Ty) : FIP t :=
  Ty.rec (motive_1 := FIP) (motive_2 := Members.All FIP) (motive_3 := Alts.All FIP)
    fip_boolean fip_null fip_integer fip_enumerated fip_octetString fip_bitString
    (fun k c => by
      by_cases hk : k = .utf8
      · subst hk; exact fip_utf8 c
      · exact fip_charString k hk c)
    (fun root ext adds ihr iha => fip_sequence root ext adds ihr iha)
    (fun e c ih => fip_sequenceOf e c ih)
    (fun root ext adds ihr iha => fip_choice root ext adds ihr iha)
    trivial (fun _ _ _ _ iht ihr => ⟨iht, ihr⟩)
    trivial (fun _ _ _ iht ihr => ⟨iht, ihr⟩) t

theorem per_dec_fuel (t : Ty) (f f' : Nat) (s : St) (hf : s.bs.length < f) (hf' : s.bs.length < f') :
    dec t f s = dec t f' s := fip_all t f f' s hf hf'

/-- **aligned PER fuel sufficiency**: the fuel `8 * length + 2` of `Per.decode` is never exhausted;
giving the decoder more fuel changes nothing -/
theorem per_decode_fuel (t : Ty) (bs : Bytes) (f : Nat) (hf : 8 * bs.length + 2 ≤ f) :
    dec t f ⟨0, bytesToBits bs⟩ = dec t (8 * bs.length + 2) ⟨0, bytesToBits bs⟩ :=
  per_dec_fuel t _ _ _ (by simp only [bytesToBits_length]; omega)
    (by simp only [bytesToBits_length]; omega)

end Asn1.CostP
