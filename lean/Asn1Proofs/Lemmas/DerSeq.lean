import Asn1Proofs.Lemmas.DerChoice
/-
  SEQUENCE round trip for the shared BER / DER decoder (`gSeq`), for any decoder `D` that is an
  `IsCodec`: one pass of `decode_members` over an honest encoding decodes exactly the encoded
  members, a second pass (when extension additions follow) decodes nothing, and `fill` supplies
  the DEFAULT values.
-/
set_option linter.unusedSimpArgs false
set_option linter.unusedVariables false
namespace Asn1.Der
open Asn1.Uper (Err)
open Asn1.X690 (canonV canonMembersV canonAltV defaultsOkV membersDefaultsOkV altsDefaultsOkV)
open Asn1.Oer (oerWf oerWfMembers)

/-! ### DEFAULT handling -/

theorem canonV_of_isDefaultB (t : Ty) (v d : Val)
    (hc : (canonV t d == d) = true) (h : isDefaultB t v d = true) : canonV t v = d := by
  have hcd := Val.eq_of_beq _ _ hc
  have h' : isDefault t v d = true := by
    unfold isDefaultB at h
    split at h
    · cases h
    · exact h
  unfold isDefault at h'
  split at h'
  · rename_i c a n b m
    rw [canonV] at hcd ⊢
    simp only [Bool.and_eq_true, beq_iff_eq] at h'
    have hcb := (Val.bits.inj hcd).1
    obtain ⟨h1, h2⟩ := h'
    subst h1
    rw [h2, hcb]
  · have := Val.eq_of_beq _ _ h'
    subst this
    exact hcd

/-! ### the encoder on members -/

/-- `encode_member` of one member -/
def encHere (name : String) (p : Presence) (t : Ty) (i : Nat) (fs : List (String × Val)) : EncM Bytes :=
  match lookup name fs with
  | some v =>
    match p with
    | .default d => if isDefaultB t v d then .ok [] else enc t (some i) v
    | _ => enc t (some i) v
  | none =>
    match p with
    | .mandatory => .error .encodeError
    | _ => .ok []

theorem encMembers_cons (name : String) (p : Presence) (t : Ty) (rest : Members) (i : Nat)
    (fs : List (String × Val)) :
    encMembers (.cons name p t rest) i fs =
      (match encHere name p t i fs, encMembers rest (i + 1) fs with
       | .ok a, .ok b => .ok (a ++ b)
       | .error e, _ => .error e
       | _, .error e => .error e) := by
  cases p <;> rw [encMembers] <;> first | rfl | (intros; contradiction)

theorem encAdditions_cons (name : String) (p : Presence) (t : Ty) (rest : Members) (i : Nat)
    (fs : List (String × Val)) :
    encAdditions (.cons name p t rest) i fs =
      (match encHere name p t i fs with
       | .error .encodeError => .ok []
       | .error e => .error e
       | .ok a =>
         match encAdditions rest (i + 1) fs with
         | .ok b => .ok (a ++ b)
         | .error e => .error e) := by
  cases p <;> rw [encAdditions] <;> first | rfl | (intros; contradiction)

/-- the slot a first pass leaves for one member: the decoded value if it was encoded -/
def slotHere (name : String) (p : Presence) (t : Ty) (fs : List (String × Val)) : Option Val :=
  match lookup name fs with
  | some v =>
    match p with
    | .default d => if isDefaultB t v d then none else some (canonV t v)
    | _ => some (canonV t v)
  | none => none

def slotsOf : Members → List (String × Val) → List (Option Val)
  | .nil, _ => []
  | .cons name p t rest, fs => slotHere name p t fs :: slotsOf rest fs

theorem slotsOf_length (ms : Members) (fs : List (String × Val)) : (slotsOf ms fs).length = ms.length := by
  induction ms using Members.ind with
  | nil => rfl
  | cons name p t rest ih => simp [slotsOf, Members.length, ih]

/-- the two ways a well-typed member is treated by the encoder -/
theorem encHere_cases {name : String} {p : Presence} {t : Ty} {i : Nat} {fs : List (String × Val)}
    (hok : (match lookup name fs with
            | some v => hasType t v
            | none => match p with | .mandatory => false | _ => true) = true) :
    (encHere name p t i fs = .ok [] ∧ slotHere name p t fs = none) ∨
    (∃ v, lookup name fs = some v ∧ hasType t v = true ∧ encHere name p t i fs = enc t (some i) v ∧
      slotHere name p t fs = some (canonV t v)) := by
  unfold encHere slotHere
  cases hl : lookup name fs with
  | none =>
    simp only [hl] at hok
    cases p <;> simp_all
  | some v =>
    simp only [hl] at hok
    cases p with
    | mandatory => exact Or.inr ⟨v, rfl, hok, rfl, rfl⟩
    | optional => exact Or.inr ⟨v, rfl, hok, rfl, rfl⟩
    | default d =>
      simp only []
      by_cases hd : isDefaultB t v d = true
      · simp [hd]
      · simp only [hd, if_false, Bool.false_eq_true]
        exact Or.inr ⟨v, rfl, hok, rfl, rfl⟩

theorem membersOk_cons (name : String) (p : Presence) (t : Ty) (rest : Members) (fs : List (String × Val)) :
    membersOk (.cons name p t rest) fs =
      ((match lookup name fs with
        | some v => hasType t v
        | none => match p with | .mandatory => false | _ => true) && membersOk rest fs) := by
  cases p <;> rw [membersOk] <;> first | rfl | (intros; contradiction)

/-- whatever the members encode to is empty or starts with a member tag `[j]`, `j ≥ i` -/
theorem encMembers_starts (fs : List (String × Val)) (ms : Members) :
    ∀ (i : Nat) (body : Bytes), encMembers ms i fs = .ok body → body = [] ∨ StartsGe i body := by
  induction ms using Members.ind with
  | nil => intro i body h; rw [encMembers] at h; cases h; exact Or.inl rfl
  | cons name p t rest ih =>
    intro i body h
    rw [encMembers_cons] at h
    cases hh : encHere name p t i fs with
    | error e => simp [hh] at h
    | ok a =>
      cases hr : encMembers rest (i + 1) fs with
      | error e => simp [hh, hr] at h
      | ok b =>
        simp only [hh, hr] at h
        cases h
        by_cases ha : a = []
        · subst ha
          rcases ih (i + 1) b hr with h0 | h1
          · exact Or.inl (by simp [h0])
          · exact Or.inr (by simpa using h1.mono (by omega))
        · right
          have hs : Starts i a := by
            unfold encHere at hh
            split at hh
            · split at hh
              · split at hh
                · cases hh; exact absurd rfl ha
                · exact enc_Starts hh
              · exact enc_Starts hh
            · split at hh
              · cases hh
              · cases hh; exact absurd rfl ha
          exact ⟨i, Nat.le_refl _, hs.append b⟩

/-- well-typed members all encode -/
theorem encMembers_total (fs : List (String × Val)) (ms : Members) :
    ms.AllO ET → ms.wf = true → membersOk ms fs = true →
    ∀ (i : Nat), ∃ body, encMembers ms i fs = .ok body := by
  induction ms using Members.ind with
  | nil => intro _ _ _ i; exact ⟨[], by rw [encMembers]⟩
  | cons name p t rest ih =>
    intro hall hwf hok i
    rw [Members.wf, Bool.and_eq_true] at hwf
    rw [membersOk_cons, Bool.and_eq_true] at hok
    obtain ⟨b, hb⟩ := ih hall.2 hwf.2 hok.2 (i + 1)
    rw [encMembers_cons, hb]
    rcases encHere_cases (i := i) hok.1 with ⟨h1, _⟩ | ⟨v, _, hty, h1, _⟩
    · rw [h1]; exact ⟨_, rfl⟩
    · obtain ⟨a, ha⟩ := hall.1 (some i) v hwf.1 hty
      rw [h1, ha]; exact ⟨_, rfl⟩

/-- on well-typed members `encode_additions` has nothing to swallow -/
theorem encAdditions_eq (fs : List (String × Val)) (ms : Members) :
    ms.AllO ET → ms.wf = true → membersOk ms fs = true →
    ∀ (i : Nat), encAdditions ms i fs = encMembers ms i fs := by
  induction ms using Members.ind with
  | nil => intro _ _ _ i; rw [encMembers, encAdditions]
  | cons name p t rest ih =>
    intro hall hwf hok i
    rw [Members.wf, Bool.and_eq_true] at hwf
    rw [membersOk_cons, Bool.and_eq_true] at hok
    rw [encMembers_cons, encAdditions_cons, ih hall.2 hwf.2 hok.2 (i + 1)]
    obtain ⟨b, hb⟩ := encMembers_total fs rest hall.2 hwf.2 hok.2 (i + 1)
    rw [hb]
    rcases encHere_cases (i := i) hok.1 with ⟨h1, _⟩ | ⟨v, _, hty, h1, _⟩
    · rw [h1]
    · obtain ⟨a, ha⟩ := hall.1 (some i) v hwf.1 hty
      rw [h1, ha]

/-! ### `fill` -/

theorem canonMembersV_cons (name : String) (p : Presence) (t : Ty) (rest : Members) (fs : List (String × Val)) :
    canonMembersV (.cons name p t rest) fs =
      (match lookup name fs with
       | some v => (name, canonV t v) :: canonMembersV rest fs
       | none =>
         match p with
         | .default d => (name, d) :: canonMembersV rest fs
         | _ => canonMembersV rest fs) := by
  cases p <;> rw [canonMembersV] <;> first | rfl | (intros; contradiction)

theorem membersDefaultsOkV_cons (name : String) (p : Presence) (t : Ty) (rest : Members) :
    membersDefaultsOkV (.cons name p t rest) =
      ((match p with
        | .default d => hasType t d && (canonV t d == d)
        | _ => true) && defaultsOkV t && membersDefaultsOkV rest) := by
  cases p <;> rw [membersDefaultsOkV] <;> first | rfl | (intros; contradiction)

theorem fill_slotsOf (fs : List (String × Val)) (ign : Bool) (ms : Members) :
    membersDefaultsOkV ms = true → membersOk ms fs = true →
    fill ms (slotsOf ms fs) ign = .ok (canonMembersV ms fs) := by
  induction ms using Members.ind with
  | nil => intro _ _; rfl
  | cons name p t rest ih =>
    intro hd hok
    rw [membersDefaultsOkV_cons, Bool.and_eq_true, Bool.and_eq_true] at hd
    rw [membersOk_cons, Bool.and_eq_true] at hok
    have ih' := ih hd.2 hok.2
    rw [canonMembersV_cons]
    simp only [slotsOf, fill, List.headD_cons, List.tail_cons]
    unfold slotHere
    cases hl : lookup name fs with
    | none =>
      simp only [hl] at hok
      cases p with
      | mandatory => simp at hok
      | optional => simp only [ih']
      | default d => simp only [ih']
    | some v =>
      cases p with
      | mandatory => simp only [ih']
      | optional => simp only [ih']
      | default d =>
        simp only []
        by_cases hdv : isDefaultB t v d = true
        · have hcd : (canonV t d == d) = true := by
            have := hd.1.1
            simp only [Bool.and_eq_true] at this
            exact this.2
          simp only [hdv, if_true, ih', canonV_of_isDefaultB t v d hcd hdv]
        · simp only [hdv, if_false, Bool.false_eq_true, ih']

/-! ### one pass over an honest encoding -/

theorem replicate_headD (n : Nat) : ((List.replicate (n + 1) (none : Option Val)).headD none) = none := rfl
theorem replicate_tail (n : Nat) : (List.replicate (n + 1) (none : Option Val)).tail = List.replicate n none := rfl

theorem isEnd_some (bs : Bytes) (k r : Nat) : isEnd ⟨bs, k, some r⟩ = .ok (r == 0, ⟨bs, k, some r⟩) := rfl

theorem gPass_cons_none (D : Decoder) (name : String) (p : Presence) (t : Ty) (rest : Members)
    (i fuel : Nat) (slots : List (Option Val)) (st : MSt) (h : slots.headD none = none) :
    gPass D (.cons name p t rest) i fuel slots st =
      if st.ood then
        match gPass D rest (i + 1) fuel slots.tail st with
        | .error e => .error e
        | .ok (r, st') => .ok (none :: r, st')
      else
        match D t (some i) fuel st.cur.bs with
        | .error e => .error e
        | .ok none =>
          match gPass D rest (i + 1) fuel slots.tail st with
          | .error e => .error e
          | .ok (r, st') => .ok (none :: r, st')
        | .ok (some (v, k, r)) =>
          match isEnd (st.cur.advance k r) with
          | .error e => .error e
          | .ok (ood, c) =>
            match gPass D rest (i + 1) fuel slots.tail ⟨c, ood, true⟩ with
            | .error e => .error e
            | .ok (r, st') => .ok (some v :: r, st') := by
  rw [gPass]; simp only [h]; rfl

theorem gPass_cons_some (D : Decoder) (name : String) (p : Presence) (t : Ty) (rest : Members)
    (i fuel : Nat) (slots : List (Option Val)) (st : MSt) (v : Val) (h : slots.headD none = some v) :
    gPass D (.cons name p t rest) i fuel slots st =
      match gPass D rest (i + 1) fuel slots.tail st with
      | .error e => .error e
      | .ok (r, st') => .ok (some v :: r, st') := by
  rw [gPass]; simp only [h]; rfl

/-- first pass: the members encoded in `body` are decoded, the absent ones answer `TAG_MISMATCH`
(or are skipped once the end of the contents has been seen) -/
theorem gPass_first {D : Decoder} {test : Ty → Nat → Bytes → Bool} (hD : IsCodec D test)
    (fs : List (String × Val)) (ms : Members) :
    ms.AllO (RT D) → ms.wf = true → oerWfMembers ms = true → membersDefaultsOkV ms = true →
    membersOk ms fs = true →
    ∀ (i fuel : Nat) (body tail : Bytes) (m k0 : Nat) (succ : Bool),
      encMembers ms i fs = .ok body → body.length < fuel →
      (m ≠ 0 → StartsGe (i + ms.length) tail) →
      gPass D ms i fuel (List.replicate ms.length none)
          ⟨⟨body ++ tail, k0, some (body.length + m)⟩, (body.length + m == 0), succ⟩
        = .ok (slotsOf ms fs, ⟨⟨tail, k0 + body.length, some m⟩, (m == 0), succ || !body.isEmpty⟩) := by
  induction ms using Members.ind with
  | nil =>
    intro _ _ _ _ _ i fuel body tail m k0 succ he hf ht
    rw [encMembers] at he; cases he
    simp [gPass, slotsOf, Members.length]
  | cons name p t rest ih =>
    intro hall hwf howf hd hok i fuel body tail m k0 succ he hf ht
    rw [Members.wf, Bool.and_eq_true] at hwf
    rw [oerWfMembers, Bool.and_eq_true] at howf
    rw [membersDefaultsOkV_cons, Bool.and_eq_true, Bool.and_eq_true] at hd
    rw [membersOk_cons, Bool.and_eq_true] at hok
    rw [encMembers_cons] at he
    have ih' := ih hall.2 hwf.2 howf.2 hd.2 hok.2
    simp only [Members.length] at ht ⊢
    rw [gPass_cons_none _ _ _ _ _ _ _ _ _ (replicate_headD _), replicate_tail]
    simp only [slotsOf]
    rcases encHere_cases (i := i) hok.1 with ⟨h1, h2⟩ | ⟨v, _, hty, h1, h2⟩
    · -- not encoded
      rw [h1] at he
      cases hr : encMembers rest (i + 1) fs with
      | error e => simp [hr] at he
      | ok b =>
        simp only [hr, List.nil_append] at he
        cases he
        have hrec := ih' (i + 1) fuel body tail m k0 succ hr hf
          (fun hm => by have := ht hm; rwa [show i + (rest.length + 1) = i + 1 + rest.length by omega] at this)
        rw [h2]
        simp only [hrec]
        by_cases hood : (body.length + m == 0) = true
        · simp only [hood, if_true]
        · simp only [hood, if_false, Bool.false_eq_true]
          -- the input starts with a later tag
          have hst : StartsGe (i + 1) (body ++ tail) := by
            rcases encMembers_starts fs rest (i + 1) body hr with h0 | h0
            · subst h0
              have hm : m ≠ 0 := by
                intro h; apply hood; simp [h]
              simpa using (ht hm).mono (by omega)
            · exact h0.append tail
          obtain ⟨j, hj, u, c, r, hbs, hrne⟩ := hst
          have hmis := hD.mism t i j u c r fuel (by omega) (by omega)
          rw [hbs]
          simp only [hmis]
    · -- encoded
      obtain ⟨a, ha⟩ : ∃ a, enc t (some i) v = .ok a := by
        rw [h1] at he
        cases hx : enc t (some i) v with
        | ok a => exact ⟨a, rfl⟩
        | error e => simp [hx] at he
      rw [h1, ha] at he
      cases hr : encMembers rest (i + 1) fs with
      | error e => simp [hr] at he
      | ok b =>
        simp only [hr] at he
        cases he
        have hane : a ≠ [] := (enc_Starts ha).ne_nil
        have halen : 0 < a.length := List.length_pos_iff.mpr hane
        simp only [List.length_append] at hf ⊢
        have hood : (a.length + b.length + m == 0) = false := by
          rw [beq_eq_false_iff_ne]; omega
        simp only [hood, if_false, Bool.false_eq_true, List.append_assoc]
        have hrt := hall.1 (some i) v a (b ++ tail) fuel hwf.1 howf.1 hd.1.2 hty ha (show a.length < fuel by omega)
        rw [hrt]
        simp only [Cur.advance, Option.map_some, isEnd_some]
        have e1 : a.length + b.length + m - a.length = b.length + m := by omega
        rw [e1]
        have hrec := ih' (i + 1) fuel b tail m (k0 + a.length) true hr (by omega)
          (fun hm => by have := ht hm; rwa [show i + (rest.length + 1) = i + 1 + rest.length by omega] at this)
        rw [hrec, h2]
        have e2 : k0 + a.length + b.length = k0 + (a.length + b.length) := by omega
        have e3 : (a ++ b).isEmpty = false := by
          cases a with
          | nil => exact absurd rfl hane
          | cons x xs => rfl
        simp [e2, e3]

/-- a later pass over data that starts with a tag beyond all the members: nothing happens -/
theorem gPass_idle {D : Decoder} {test : Ty → Nat → Bytes → Bool} (hD : IsCodec D test) (ms : Members) :
    ∀ (i fuel : Nat) (slots : List (Option Val)) (st : MSt),
      slots.length = ms.length → st.ood = false → 0 < fuel → StartsGe (i + ms.length) st.cur.bs →
      gPass D ms i fuel slots st = .ok (slots, st) := by
  induction ms using Members.ind with
  | nil =>
    intro i fuel slots st hl _ _ _
    simp only [Members.length, List.length_eq_zero_iff] at hl
    subst hl
    rw [gPass]
  | cons name p t rest ih =>
    intro i fuel slots st hl hood hf hst
    cases slots with
    | nil => simp [Members.length] at hl
    | cons s ss =>
      simp only [Members.length, List.length_cons, Nat.add_right_cancel_iff] at hl
      simp only [Members.length] at hst
      have hrec := ih (i + 1) fuel ss st hl hood hf
        (by rwa [show i + (rest.length + 1) = i + 1 + rest.length by omega] at hst)
      cases s with
      | some v =>
        rw [gPass_cons_some _ _ _ _ _ _ _ _ _ v rfl]
        simp only [List.tail_cons, hrec]
      | none =>
        rw [gPass_cons_none _ _ _ _ _ _ _ _ _ rfl]
        obtain ⟨j, hj, u, c, r, hbs, hrne⟩ := hst
        have hmis := hD.mism t i j u c r fuel (by omega) hf
        simp only [hood, if_false, Bool.false_eq_true, List.tail_cons, hbs, hmis]
        simp only [hrec]

end Asn1.Der

namespace Asn1.Der
open Asn1.Uper (Err)
open Asn1.X690 (canonV canonMembersV canonAltV defaultsOkV membersDefaultsOkV altsDefaultsOkV)
open Asn1.Oer (oerWf oerWfMembers)

/-! ### the two `decode_members` loops -/

/-- the `while True` loop over an honest encoding: one productive pass, at most one idle pass -/
theorem retry_first {D : Decoder} {test : Ty → Nat → Bytes → Bool} (hD : IsCodec D test)
    (fs : List (String × Val)) (ms : Members)
    (hall : ms.AllO (RT D)) (hwf : ms.wf = true) (howf : oerWfMembers ms = true)
    (hd : membersDefaultsOkV ms = true) (hok : membersOk ms fs = true)
    (i fuel : Nat) (body tail : Bytes) (m k0 : Nat)
    (he : encMembers ms i fs = .ok body) (hf : body.length < fuel)
    (ht : m ≠ 0 → StartsGe (i + ms.length) tail) :
    retry (gPass D ms i fuel) (ms.length + 1) (List.replicate ms.length none)
        ⟨body ++ tail, k0, some (body.length + m)⟩
      = .ok (slotsOf ms fs, ⟨tail, k0 + body.length, some m⟩, (m == 0)) := by
  have h1 := gPass_first hD fs ms hall hwf howf hd hok i fuel body tail m k0 false he hf ht
  rw [retry]
  simp only [isEnd_some, h1, Bool.false_or]
  by_cases hm : (m == 0) = true
  · simp [hm]
  · simp only [hm, Bool.false_eq_true, Bool.false_or]
    by_cases hb : body = []
    · subst hb; simp
    · have hbe : body.isEmpty = false := by
        cases body with
        | nil => exact absurd rfl hb
        | cons x xs => rfl
      simp only [hbe, Bool.not_false, Bool.not_true, if_false, Bool.false_eq_true]
      -- a second pass: needs one more unit of fuel, i.e. at least one member
      cases ms with
      | nil => rw [encMembers] at he; cases he; exact absurd rfl hb
      | cons name p t rest =>
        simp only [Members.length]
        rw [retry]
        have hm' : m ≠ 0 := by intro h; apply hm; simp [h]
        have h2 := gPass_idle hD (.cons name p t rest) i fuel (slotsOf (.cons name p t rest) fs)
          ⟨⟨tail, k0 + body.length, some m⟩, false, false⟩ (slotsOf_length _ _) rfl (by omega) (ht hm')
        have hm2 : (m == 0) = false := by simpa using hm
        simp only [isEnd_some, hm2, h2]
        simp

/-- a pass that starts after the end of the contents decodes nothing -/
theorem gPass_ood (D : Decoder) (ms : Members) :
    ∀ (i fuel : Nat) (st : MSt), st.ood = true →
      gPass D ms i fuel (List.replicate ms.length none) st = .ok (List.replicate ms.length none, st) := by
  induction ms using Members.ind with
  | nil => intro i fuel st _; rw [gPass]; rfl
  | cons name p t rest ih =>
    intro i fuel st h
    simp only [Members.length]
    rw [gPass_cons_none _ _ _ _ _ _ _ _ _ (replicate_headD _), replicate_tail]
    simp only [h, if_true, ih (i + 1) fuel st h, List.replicate_succ]

/-- definite form: skipping the additions loop when the root loop reached the end of the contents
(`while not out_of_data:`, /repo commit 300e5ac) gives what running it gave -/
theorem skip_or_retry (D : Decoder) (ms : Members) (i fuel : Nat) (bs : Bytes) (k n : Nat) :
    (if (n == 0) = true then
        (.ok (List.replicate ms.length none, (⟨bs, k, some n⟩ : Cur), true) : DecM (List (Option Val) × Cur × Bool))
      else retry (gPass D ms i fuel) (ms.length + 1) (List.replicate ms.length none) ⟨bs, k, some n⟩)
      = retry (gPass D ms i fuel) (ms.length + 1) (List.replicate ms.length none) ⟨bs, k, some n⟩ := by
  by_cases h : (n == 0) = true
  · rw [if_pos h]
    have : n = 0 := by simpa using h
    subst this
    rw [retry]
    simp only [isEnd_some]
    rw [gPass_ood D ms i fuel _ rfl]
    simp
  · rw [if_neg h]

theorem members_nil_of_length {ms : Members} (h : ms.length = 0) : ms = .nil := by
  cases ms with
  | nil => rfl
  | cons _ _ _ _ => simp [Members.length] at h

theorem rt_sequence {D : Decoder} {test : Ty → Nat → Bytes → Bool} (hD : IsCodec D test)
    (root : Members) (ext : Bool) (adds : Members)
    (ihr : root.AllO (RT D)) (iha : adds.AllO (RT D))
    (etr : root.AllO ET) (eta : adds.AllO ET) : RT D (.sequence root ext adds) := by
  intro tg v bytes rest fuel hwf howf hd ht he hf
  cases v <;> simp only [hasType, Bool.false_eq_true] at ht
  rename_i fs
  have hwf0 := hwf
  simp only [Ty.wf, Bool.and_eq_true, decide_eq_true_eq] at hwf
  obtain ⟨⟨⟨⟨hwr, hwa⟩, hnd⟩, _⟩, _⟩ := hwf
  have hnd' : (root.names ++ adds.names).Nodup := by simpa using hnd
  obtain ⟨hokr, hoka⟩ := membersOk_of_hasType root adds ext fs hnd' (by rw [hasType]; exact ht)
  rw [oerWf, Bool.and_eq_true] at howf
  rw [defaultsOkV, Bool.and_eq_true] at hd
  rw [enc] at he
  rw [encAdditions_eq fs adds eta hwa hoka] at he
  cases hbr : encMembers root 0 fs with
  | error e => simp [hbr] at he
  | ok br =>
    cases hba : encMembers adds root.length fs with
    | error e => simp [hbr, hba] at he
    | ok ba =>
      simp only [hbr, hba] at he
      cases he
      rw [hD.seq, gSeq, tlv_append, matchTag_self]
      simp only [readLen_encLength]
      have hlen : (tlv (mkTag 16 true tg) (br ++ ba)).length
          = (mkTag 16 true tg).length + (Ber.encLength (br ++ ba).length).length + (br.length + ba.length) := by
        rw [tlv_length, List.length_append]
      rw [hlen] at hf
      -- root pass
      have hta : ba.length ≠ 0 → StartsGe (0 + root.length) (ba ++ rest) := by
        intro hne
        rcases encMembers_starts fs adds root.length ba hba with h0 | h0
        · subst h0; exact absurd rfl hne
        · simpa using h0.append rest
      have h1 := retry_first hD fs root ihr hwr howf.1 hd.1 hokr 0 fuel br (ba ++ rest) ba.length
        ((mkTag 16 true tg).length + (Ber.encLength (br ++ ba).length).length) hbr (by omega) hta
      simp only [List.length_append, List.append_assoc] at h1 hlen hf ⊢
      rw [h1]
      simp only [fill_slotsOf fs false root hd.1 hokr]
      rw [canonV]
      by_cases hal : adds.length = 0
      · have := members_nil_of_length hal
        subst this
        rw [encMembers] at hba
        cases hba
        simp only [List.length_nil, Nat.add_zero, List.append_nil] at hlen ⊢
        simp [finishMembers, canonMembersV, Members.length, hlen]
      · simp only [hal, if_false]
        rw [skip_or_retry]
        have h2 := retry_first hD fs adds iha hwa howf.2 hd.2 hoka root.length fuel ba rest 0
          ((mkTag 16 true tg).length + (Ber.encLength (br ++ ba).length).length + br.length) hba (by omega)
          (fun h => absurd rfl h)
        simp only [Nat.add_zero, List.append_nil, List.length_append] at h2
        rw [h2]
        simp only [fill_slotsOf fs true adds hd.2 hoka]
        simp [finishMembers, hlen]
        omega

theorem et_sequence (root : Members) (ext : Bool) (adds : Members)
    (etr : root.AllO ET) (eta : adds.AllO ET) : ET (.sequence root ext adds) := by
  intro tg v hwf ht
  cases v <;> simp only [hasType, Bool.false_eq_true] at ht
  rename_i fs
  simp only [Ty.wf, Bool.and_eq_true, decide_eq_true_eq] at hwf
  obtain ⟨⟨⟨⟨hwr, hwa⟩, hnd⟩, _⟩, _⟩ := hwf
  have hnd' : (root.names ++ adds.names).Nodup := by simpa using hnd
  obtain ⟨hokr, hoka⟩ := membersOk_of_hasType root adds ext fs hnd' (by rw [hasType]; exact ht)
  rw [enc, encAdditions_eq fs adds eta hwa hoka]
  obtain ⟨br, hbr⟩ := encMembers_total fs root etr hwr hokr 0
  obtain ⟨ba, hba⟩ := encMembers_total fs adds eta hwa hoka root.length
  rw [hbr, hba]
  exact ⟨_, rfl⟩

end Asn1.Der
