import Asn1Proofs.Lemmas.OerRoundtrip
/-
  Machine-checked refutation of the original statement of `Asn1.Oer.roundtrip`
  (the one without the hypothesis `noSwallow t v = true`).

  Type   : SEQUENCE { ..., a OCTET STRING OPTIONAL }
  Value  : { a <2^1016 zero octets> }
  `enc` of the addition fails in `lenDet` (the length needs 128 length octets), `encAdditions`
  swallows the error, the SEQUENCE is encoded as the single octet `00`, and decoding `00` gives the
  empty record instead of the canonical value.
-/
namespace Asn1.Oer
open Asn1.Uper (Err)

def cexTy : Ty := .sequence .nil true (.cons "a" .optional (.octetString ⟨0, none, false⟩) .nil)
def cexVal (data : Bytes) : Val := .record [("a", .bytes data)]

set_option exponentiation.threshold 2000 in
/-- a length that `lenDet` cannot write -/
theorem lenDet_big_pow : lenDet (2 ^ 1016) = .error .encodeError := by
  have h1 : ¬ (2 ^ 1016 < 128) :=
    Nat.not_lt.mpr (Nat.le_trans (by decide : 128 ≤ 2 ^ 7)
      (Nat.pow_le_pow_right (by decide) (by decide)))
  have h2 : bitLength (2 ^ 1016) = 1017 := by
    unfold bitLength
    rw [if_neg (Nat.ne_of_gt (Nat.two_pow_pos _)), Nat.log2_two_pow]
  rw [lenDet_def, if_neg h1]
  have h3 : (natToBytesMin (2 ^ 1016)).length = 128 := by
    unfold natToBytesMin byteLength
    rw [natToBytesN_length, h2]
  rw [h3]
  rfl

theorem lenDet_big : ∃ N, lenDet N = .error .encodeError := ⟨_, lenDet_big_pow⟩

section
variable (data : Bytes) (hlen : lenDet data.length = .error .encodeError)
include hlen

theorem cex_enc : enc cexTy (cexVal data) = .ok [0] := by
  have hadd : encAdditions (.cons "a" .optional (.octetString ⟨0, none, false⟩) .nil)
      [("a", Val.bytes data)] = ([false], [], true) := by
    rw [encAdditions_cons]
    have : addHere .optional (.octetString ⟨0, none, false⟩) (lookup "a" [("a", Val.bytes data)])
        = .error .encodeError := by
      show enc (.octetString ⟨0, none, false⟩) (.bytes data) = _
      rw [enc]
      show (do let l ← lenDet data.length; Except.ok (l ++ data)) = _
      rw [hlen]; rfl
    rw [this]
  unfold cexTy cexVal
  rw [enc]
  simp only [encPreamble, encMembers, if_true, hadd, List.isEmpty_nil, List.append_nil]
  have hp : packBits [false] = [0] := by decide
  rw [hp]

omit hlen in
theorem cex_dec (rest : Bytes) : dec cexTy ([0] ++ rest) = .ok (.record [], rest) := by
  have h := dec_sequence_ok .nil true (.cons "a" .optional (.octetString ⟨0, none, false⟩) .nil)
    [] false [] rest [] rfl rfl
  have hp : packBits (if true = true then [false] else []) = [0] := by decide
  rw [hp] at h
  exact h

omit hlen in
theorem cex_canon : canon cexTy (cexVal data) = cexVal data := by
  simp [cexTy, cexVal, canon, canonMembers, lookup]

end

/-- the original statement of `roundtrip` does not hold -/
theorem roundtrip_original_false :
    ¬ (∀ (t : Ty) (v : Val) (bytes rest : Bytes),
        t.wf = true → oerWf t = true → t.defaultsOk = true →
        hasType t v = true → utf8Ok t v = true → enc t v = .ok bytes →
        dec t (bytes ++ rest) = .ok (canon t v, rest)) := by
  intro h
  obtain ⟨N, hN⟩ := lenDet_big
  generalize hdata : List.replicate N 0 = data
  have hlen : lenDet data.length = .error .encodeError := by
    rw [← hdata, List.length_replicate]; exact hN
  have hall : allBytes data = true := by
    rw [← hdata]
    show (List.replicate N 0).all (· < 256) = true
    rw [List.all_eq_true]
    intro x hx
    rw [List.eq_of_mem_replicate hx]
    decide
  have hty : hasType cexTy (cexVal data) = true := by
    simp [cexTy, cexVal, hasType, hasMembers, hall, sizeOk]
  have hutf : utf8Ok cexTy (cexVal data) = true := by
    simp [cexTy, cexVal, utf8Ok, utf8OkMembers, lookup]
  have := h cexTy (cexVal data) [0] [] (by decide) (by decide) (by decide) hty hutf (cex_enc data hlen)
  rw [cex_dec, cex_canon] at this
  simp [cexVal] at this

end Asn1.Oer

#print axioms Asn1.Oer.roundtrip_original_false
