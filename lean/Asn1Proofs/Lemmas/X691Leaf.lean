import Asn1Proofs.Lemmas.X691Prim
/-
  The UNALIGNED specification encoder against the code model `Uper.enc`: the types without
  components.  `REF t`: outside the deviation predicates, whenever the standard defines an encoding
  of `v : t` the code emits exactly those bits.
-/
set_option linter.unusedSimpArgs false
namespace Asn1.X691
open Asn1.Uper (lenDet encChunks encChunked padToByte)

deriving instance DecidableEq for Except

def REF (t : Ty) : Prop :=
  ∀ (v : Val) (pos : Nat) (bits : Bits),
    devs false t v = [] → enc false t pos v = .ok bits → Uper.enc t v = .ok bits

theorem invalid_ne_ok {α : Type} (b : α) : (invalid : EncM α) ≠ .ok b := by
  intro h; cases h

theorem ref_boolean : REF .boolean := by
  intro v pos bits _ h
  cases v <;> simp only [enc, invalid] at h <;> try (cases h)
  rw [Uper.enc]

theorem ref_null : REF .null := by
  intro v pos bits _ h
  cases v <;> simp only [enc, invalid] at h <;> try (cases h)
  rw [Uper.enc]

/-! ### INTEGER -/

theorem intToBytesN_length (k : Nat) (i : Int) : (intToBytesN k i).length = k := by
  unfold intToBytesN; exact natToBytesN_length _ _

theorem unconstrained_false (pos : Nat) (i : Int) (h : minOctets2c i < 16384) :
    unconstrained false pos i = Uper.encUnconstrained i := by
  unfold unconstrained Uper.encUnconstrained
  rw [minOctets2c_eq] at h ⊢
  rw [lenOctets_false_small _ _ (by rw [intToBytesN_length]; exact h), intToBytesN_length]

theorem ref_integer (c : IntC) : REF (.integer c) := by
  intro v pos bits hd h
  cases v <;> simp only [enc, invalid] at h <;> try (cases h)
  rename_i i
  obtain ⟨lo, hi, ext⟩ := c
  rw [devs] at hd
  unfold devsInteger at hd
  unfold encInteger at h
  rw [Uper.enc]
  cases lo with
  | none =>
    simp only at hd h ⊢
    cases ext with
    | true => simp at hd
    | false =>
      simp only [Bool.false_eq_true, if_false] at hd h ⊢
      have hk : minOctets2c i < 16384 := by
        by_cases hk : minOctets2c i ≥ 16384
        · simp [hk] at hd
        · omega
      cases hi with
      | none =>
        simp only at h ⊢
        cases h
        rw [unconstrained_false _ _ hk]
      | some ub =>
        simp only at h ⊢
        split at h
        · cases h; rw [unconstrained_false _ _ hk]
        · cases h
  | some lb =>
    cases hi with
    | none =>
      simp only at hd h ⊢
      cases ext with
      | true => simp at hd
      | false =>
        simp only [Bool.false_eq_true, if_false] at hd h ⊢
        by_cases hle : lb ≤ i
        · simp only [hle, if_true] at hd h
          cases h
          by_cases hne : (natToBytesN (minOctets (i - lb).toNat) (i - lb).toNat
              != intToBytesN (minOctets2c i) i) = true
          · simp [hne] at hd
          · simp only [hne, if_false, Bool.false_eq_true] at hd
            have hk : minOctets2c i < 16384 := by
              by_cases hk : minOctets2c i ≥ 16384
              · simp [hk] at hd
              · omega
            have heq : natToBytesN (minOctets (i - lb).toNat) (i - lb).toNat
                = intToBytesN (minOctets2c i) i := by
              simpa using hne
            unfold semiConstrained
            rw [heq]
            have := unconstrained_false pos i hk
            unfold unconstrained at this
            rw [this]
        · simp only [hle, if_false] at h
          cases h
    | some ub =>
      simp only at hd h ⊢
      cases ext with
      | false =>
        simp only [Bool.false_eq_true, if_false] at h ⊢
        split at h
        · cases h
          rw [cwn_false, Nat.add_sub_cancel]
        · cases h
      | true =>
        simp only [if_true] at h ⊢
        by_cases hin : lb ≤ i ∧ i ≤ ub
        · simp only [hin, if_true, decide_true, Bool.and_self, and_self] at h ⊢
          cases h
          rw [cwn_false, Nat.add_sub_cancel]
          rfl
        · have hdec : (decide (lb ≤ i) && decide (i ≤ ub)) = false := by
            simp only [Bool.and_eq_false_iff, decide_eq_false_iff_not]
            by_cases h1 : lb ≤ i
            · right; intro h2; exact hin ⟨h1, h2⟩
            · left; exact h1
          simp only [hin, if_false, hdec, Bool.false_eq_true] at hd h ⊢
          cases h
          have hk : minOctets2c i < 16384 := by
            by_cases hk : minOctets2c i ≥ 16384
            · simp [hk] at hd
            · omega
          rw [unconstrained_false _ _ hk]
          rfl

/-! ### ENUMERATED -/

theorem insertAsc_eq (x : String × Int) (xs : List (String × Int)) :
    insertAsc x xs = Uper.insertByVal x xs := by
  induction xs with
  | nil => rfl
  | cons y r ih => simp only [insertAsc, Uper.insertByVal, ih]

theorem sortAsc_eq (xs : List (String × Int)) : sortAsc xs = Uper.sortByVal xs := by
  unfold sortAsc Uper.sortByVal
  induction xs with
  | nil => rfl
  | cons y r ih => simp only [List.foldr_cons, ih, insertAsc_eq]

theorem indexOfName_map_fst (name : String) (xs : List (String × Int)) :
    indexOfName name (xs.map (·.1)) = Uper.nameIndex name xs := by
  induction xs with
  | nil => rfl
  | cons y r ih =>
    obtain ⟨n, v⟩ := y
    simp only [List.map_cons, indexOfName, Uper.nameIndex, ih]

theorem nsnnwn_false (pos n : Nat) (h : n ≥ 64 → minOctets n < 16384) :
    nsnnwn false pos n = Uper.encNsnnwn n := by
  unfold nsnnwn Uper.encNsnnwn
  by_cases hn : n ≤ 63
  · rw [if_pos hn, if_pos (by omega), natToBits_succ_of_lt (w := 6) (by omega)]
  · rw [if_neg hn, if_neg (by omega)]
    have hk := h (by omega)
    have hm : minOctets n = (bitLength n + 7) / 8 := by
      rw [minOctets_eq, if_neg (by omega)]
    unfold semiConstrained
    rw [hm] at hk ⊢
    rw [lenOctets_false_small _ _ (by rw [natToBytesN_length]; exact hk), natToBytesN_length,
      bytesToBits_natToBytesN]
    rfl

theorem ref_enumerated (root : List (String × Int)) (ext : Option (List (String × Int))) :
    REF (.enumerated root ext) := by
  intro v pos bits hd h
  cases v <;> simp only [enc, invalid] at h <;> try (cases h)
  rename_i name
  rw [devs] at hd
  unfold devsEnumerated at hd
  unfold encEnumerated at h
  simp only [Uper.enc]
  simp only [sortAsc_eq, indexOfName_map_fst] at hd h
  cases ext with
  | none =>
    simp only at h ⊢
    cases hi : Uper.nameIndex name (Uper.sortByVal root) with
    | none => rw [hi] at h; cases h
    | some i =>
      rw [hi] at h
      simp only at h ⊢
      cases h
      rw [cwn_false]
  | some adds =>
    simp only at h ⊢
    cases hi : Uper.nameIndex name (Uper.sortByVal root) with
    | some i =>
      rw [hi] at h
      simp only at h ⊢
      cases h
      rw [cwn_false]; rfl
    | none =>
      rw [hi] at h hd
      simp only at h hd ⊢
      cases hj : Uper.nameIndex name adds with
      | none => rw [hj] at h; cases h
      | some j =>
        rw [hj] at h hd
        simp only at h hd ⊢
        cases h
        unfold devsNsnnwn at hd
        rw [nsnnwn_false]
        · rfl
        · intro h64
          by_cases hk : minOctets j ≥ 16384
          · simp [h64, hk] at hd
          · omega

/-! ### size-constrained types without components -/

theorem extSized_leaf (c : SizeC) (af av : Bool) (items : List Bits) (pos : Nat) (bits : Bits)
    (h : extSizedM false leaf c af av pos items = .ok bits) :
    (c.ext = true ∧ Uper.inSize c items.length = false ∧ bits = true :: encChunked items) ∨
    (Uper.inSize c items.length = true ∧ bits = (if c.ext then [false] else []) ++ mSized c items) := by
  obtain ⟨items', h1, h2⟩ := extSizedM_false leaf (fun b => (Except.ok b : EncM Bits)) c af av items
    (leaf_ok items) pos bits h
  rw [mapM_ok_id] at h1
  cases h1
  exact h2

theorem devsSize_nil (c : SizeC) (n : Nat) (unimpl : Bool) (h : devsSize c n unimpl = []) :
    c.ext = true → c.hi.isNone = false ∧ (Uper.inSize c n = false → unimpl = false ∧ n < 16384) := by
  intro hext
  unfold devsSize at h
  rw [if_pos hext, inRoot_eq_inSize] at h
  cases hhi : c.hi.isNone with
  | true => simp [hhi] at h
  | false =>
    refine ⟨rfl, ?_⟩
    intro hin
    simp only [hhi, hin, Bool.false_eq_true, if_false] at h
    cases unimpl with
    | true => simp at h
    | false =>
      refine ⟨rfl, ?_⟩
      by_cases hn : n ≥ 16384
      · simp [hn] at h
      · omega

/-- the code's expression for a size inside the root -/
theorem mShape (c : SizeC) (items : List Bits) (n : Nat) (body pre : Bits)
    (hn : items.length = n) (hb : items.flatten = body) :
    (match Uper.sizeBits c with
      | none => (Except.ok (pre ++ encChunked items) : EncM Bits)
      | some w =>
        if some c.lo ≠ c.hi then .ok (pre ++ natToBits w (n - c.lo) ++ body)
        else .ok (pre ++ body)) = .ok (pre ++ mSized c items) := by
  unfold mSized
  subst hn hb
  cases Uper.sizeBits c with
  | none => rfl
  | some w =>
    simp only
    split <;> simp

theorem length_map_natToBits8 (data : Bytes) : (data.map (natToBits 8)).length = data.length := by simp

theorem ref_octetString (c : SizeC) : REF (.octetString c) := by
  intro v pos bits hd h
  cases v <;> simp only [enc, invalid] at h <;> try (cases h)
  rename_i data
  rw [devs] at hd
  unfold encOctetString at h
  split at h
  case isFalse => cases h
  simp only [Uper.enc]
  have hdv := devsSize_nil _ _ _ hd
  have hitems := extSized_leaf _ _ _ _ _ _ h
  simp only [List.length_map] at hitems
  by_cases hext : c.ext = true
  · obtain ⟨hhi, hout⟩ := hdv hext
    rw [if_neg (by simp [hhi])]
    rcases hitems with ⟨_, hin, hb⟩ | ⟨hin, hb⟩
    · obtain ⟨_, hlt⟩ := hout hin
      rw [if_pos ⟨hext, by simp [hin]⟩, hb,
        encChunked_small _ (by simpa using hlt), flatten_map_natToBits8]
      simp
    · rw [if_neg (by simp [hin])]
      rw [hb]
      exact mShape c (data.map (natToBits 8)) data.length (bytesToBits data) _ (by simp)
        (flatten_map_natToBits8 data)
  · rcases hitems with ⟨he, _, _⟩ | ⟨hin, hb⟩
    · exact absurd he hext
    · rw [if_neg (by simp [hext]), if_neg (by simp [hext])]
      rw [hb]
      exact mShape c (data.map (natToBits 8)) data.length (bytesToBits data) _ (by simp)
        (flatten_map_natToBits8 data)

theorem flatten_map_singleton (bs : Bits) : (bs.map fun b => [b]).flatten = bs := by
  induction bs with
  | nil => rfl
  | cons b r ih => simp [ih]

theorem ref_bitString (c : SizeC) : REF (.bitString c) := by
  intro v pos bits hd h
  cases v <;> simp only [enc, invalid] at h <;> try (cases h)
  rename_i data n
  rw [devs] at hd
  unfold encBitString at h
  split at h
  case isFalse => cases h
  rename_i hn
  simp only [Uper.enc, Uper.takeBits, if_pos hn]
  have hdv := devsSize_nil _ _ _ hd
  have hitems := extSized_leaf _ _ _ _ _ _ h
  have hlen : (List.take n (bytesToBits data)).length = n := by
    rw [List.length_take, bytesToBits_length]; omega
  simp only [List.length_map, hlen] at hitems
  by_cases hext : c.ext = true
  · obtain ⟨hhi, hout⟩ := hdv hext
    rw [if_neg (by simp [hhi])]
    rcases hitems with ⟨_, hin, hb⟩ | ⟨hin, hb⟩
    · obtain ⟨hf, _⟩ := hout hin
      cases hf
    · rw [if_neg (by simp [hin])]
      rw [hb]
      exact mShape c _ n _ _ (by rw [List.length_map, hlen]) (flatten_map_singleton _)
  · rcases hitems with ⟨he, _, _⟩ | ⟨hin, hb⟩
    · exact absurd he hext
    · rw [if_neg (by simp [hext]), if_neg (by simp [hext])]
      rw [hb]
      exact mShape c _ n _ _ (by rw [List.length_map, hlen]) (flatten_map_singleton _)

/-! ### character strings -/

theorem ref_utf8 (c : SizeC) : REF (.charString .utf8 c) := by
  intro v pos bits _ h
  cases v <;> simp only [enc, invalid] at h <;> try (cases h)
  rename_i cps
  unfold encUtf8 at h
  split at h
  case isFalse => cases h
  cases h
  simp only [Uper.enc]
  unfold lenOctets
  rw [genLen_false]

theorem alphabet_lt (k : StrKind) : ∀ c ∈ alphabet k, c < 128 := by
  cases k <;> decide +kernel

theorem charBits_false (k : StrKind) (hk : k ≠ .utf8) : charBits false k = Uper.bitsPerChar k := by
  cases k <;> first | (exact absurd rfl hk) | decide +kernel

theorem charValue_small (k : StrKind) (hk : k ≠ .utf8) :
    ∀ cp, cp < 128 → charValue false k cp = Uper.charCode k cp := by
  cases k <;> first | (exact absurd rfl hk) | decide +kernel

theorem charValue_false (k : StrKind) (hk : k ≠ .utf8) (cp v : Nat)
    (h : charValue false k cp = .ok v) : Uper.charCode k cp = .ok v := by
  have hlt : cp < 128 := by
    unfold charValue at h
    by_cases hc : (alphabet k).contains cp = true
    · exact alphabet_lt k cp (by simpa using hc)
    · simp only [hc, if_false, Bool.false_eq_true, invalid] at h
      cases h
  rw [← charValue_small k hk cp hlt]; exact h

theorem ref_knownMultiplier (k : StrKind) (hk : k ≠ .utf8) (c : SizeC) : REF (.charString k c) := by
  intro v pos bits hd h
  have hstr : ∀ cps, devsKnownMultiplier false k c (List.length cps) = [] →
      encKnownMultiplier false k c pos cps = .ok bits →
      (match cps.mapM (Uper.charCode k) with
        | .error e => (.error e : EncM Bits)
        | .ok codes =>
          let items := codes.map (natToBits (Uper.bitsPerChar k))
          let pre : Bits := if c.ext then [false] else []
          if ¬ Uper.inSize c cps.length then .error .unmodelled else
          match Uper.sizeBits c with
          | none => .ok (pre ++ encChunked items)
          | some w =>
            if some c.lo ≠ c.hi then .ok (pre ++ natToBits w (cps.length - c.lo) ++ items.flatten)
            else .ok (pre ++ items.flatten)) = .ok bits := by
    intro cps hd h
    unfold devsKnownMultiplier at hd
    have hd1 := (List.append_eq_nil_iff.mp hd).1
    unfold encKnownMultiplier at h
    cases hm : cps.mapM (charValue false k) with
    | error e => rw [hm] at h; cases h
    | ok vals =>
      rw [hm] at h
      simp only at h
      have hm' := mapM_congr_ok _ (Uper.charCode k) cps vals
        (fun a _ b hb => charValue_false k hk a b hb) hm
      rw [hm']
      simp only
      rw [charBits_false k hk] at h
      have hlen : vals.length = cps.length := mapM_length' _ _ _ hm
      have hdv := devsSize_nil _ _ _ hd1
      have hitems := extSized_leaf _ _ _ _ _ _ h
      simp only [List.length_map, hlen] at hitems
      by_cases hext : c.ext = true
      · obtain ⟨hhi, hout⟩ := hdv hext
        rcases hitems with ⟨_, hin, hb⟩ | ⟨hin, hb⟩
        · obtain ⟨hf, _⟩ := hout hin
          cases hf
        · rw [if_neg (by simp [hin])]
          rw [hb]
          exact mShape c _ cps.length _ _ (by rw [List.length_map, hlen]) rfl
      · rcases hitems with ⟨he, _, _⟩ | ⟨hin, hb⟩
        · exact absurd he hext
        · rw [if_neg (by simp [hin])]
          rw [hb]
          exact mShape c _ cps.length _ _ (by rw [List.length_map, hlen]) rfl
  cases k with
  | utf8 => exact absurd rfl hk
  | ia5 =>
    cases v <;> simp only [enc, invalid] at h <;> try (cases h)
    simp only [devs] at hd
    simp only [Uper.enc]
    exact hstr _ hd h
  | visible =>
    cases v <;> simp only [enc, invalid] at h <;> try (cases h)
    simp only [devs] at hd
    simp only [Uper.enc]
    exact hstr _ hd h
  | numeric =>
    cases v <;> simp only [enc, invalid] at h <;> try (cases h)
    simp only [devs] at hd
    simp only [Uper.enc]
    exact hstr _ hd h
  | printable =>
    cases v <;> simp only [enc, invalid] at h <;> try (cases h)
    simp only [devs] at hd
    simp only [Uper.enc]
    exact hstr _ hd h

theorem ref_charString (k : StrKind) (c : SizeC) : REF (.charString k c) := by
  by_cases hk : k = .utf8
  · subst hk; exact ref_utf8 c
  · exact ref_knownMultiplier k hk c

end Asn1.X691
