import Asn1Proofs.Lemmas.PerChoice
/-
  Aligned PER SEQUENCE: preamble and root members.
-/
set_option linter.unusedSimpArgs false
namespace Asn1.Per
open Asn1.Uper (EncM DecM canon_of_isDefault canonMembers_cons)

/-! ### unfolding lemmas -/

def encHere (p : Presence) (t : Ty) (ov : Option Val) (encDefault : Bool) (pos : Nat) : EncM Bits :=
  match ov with
  | some v =>
    match p with
    | .default d => if !(isDefault t v d) || encDefault then enc t pos v else .ok []
    | _ => enc t pos v
  | none =>
    match p with
    | .mandatory => .error .encodeError
    | _ => .ok []

theorem encMembers_cons (name : String) (p : Presence) (t : Ty) (rest : Members)
    (fs : List (String × Val)) (b : Bool) (pos : Nat) :
    encMembers (.cons name p t rest) fs b pos =
      (match encHere p t (lookup name fs) b pos with
       | .error e => .error e
       | .ok a =>
         match encMembers rest fs b (pos + a.length) with
         | .error e => .error e
         | .ok r => .ok (a ++ r)) := by
  cases p <;> rfl

theorem encPreamble_cons (name : String) (p : Presence) (t : Ty) (rest : Members)
    (fs : List (String × Val)) :
    encPreamble (.cons name p t rest) fs =
      (match p with
       | .mandatory => encPreamble rest fs
       | .optional => (lookup name fs).isSome :: encPreamble rest fs
       | .default d =>
         match lookup name fs with
         | some v => (!(isDefault t v d)) :: encPreamble rest fs
         | none => false :: encPreamble rest fs) := by
  cases p <;> rfl

theorem optionalCount_cons (name : String) (p : Presence) (t : Ty) (rest : Members) :
    optionalCount (.cons name p t rest) =
      (match p with | .mandatory => optionalCount rest | _ => optionalCount rest + 1) := by
  cases p <;> rfl

theorem encPreamble_length (fs : List (String × Val)) (ms : Members) :
    (encPreamble ms fs).length = optionalCount ms := by
  induction ms using Members.ind with
  | nil => rfl
  | cons name p t rest ih =>
    rw [encPreamble_cons, optionalCount_cons]
    cases p with
    | mandatory => exact ih
    | optional => simp [ih]
    | default d => cases lookup name fs <;> simp [ih]

/-- decode a present member then the remaining ones -/
def decHere (name : String) (t : Ty) (rest : Members) (fuel : Nat) (fl : Bits) (s : St) :
    DecM (List (String × Val) × St) := do
  let (v, r) ← dec t fuel s
  let (fs, r') ← decMembers rest fuel fl r
  .ok ((name, v) :: fs, r')

theorem decMembers_mandatory (name : String) (t : Ty) (rest : Members) (fuel : Nat) (fl : Bits)
    (s : St) :
    decMembers (.cons name .mandatory t rest) fuel fl s = decHere name t rest fuel fl s := rfl

theorem decMembers_optional_true (name : String) (t : Ty) (rest : Members) (fuel : Nat) (fl : Bits)
    (s : St) :
    decMembers (.cons name .optional t rest) fuel (true :: fl) s = decHere name t rest fuel fl s := rfl

theorem decMembers_optional_false (name : String) (t : Ty) (rest : Members) (fuel : Nat) (fl : Bits)
    (s : St) :
    decMembers (.cons name .optional t rest) fuel (false :: fl) s = decMembers rest fuel fl s := rfl

theorem decMembers_default_true (name : String) (d : Val) (t : Ty) (rest : Members) (fuel : Nat)
    (fl : Bits) (s : St) :
    decMembers (.cons name (.default d) t rest) fuel (true :: fl) s = decHere name t rest fuel fl s :=
  rfl

theorem decMembers_default_false (name : String) (d : Val) (t : Ty) (rest : Members) (fuel : Nat)
    (fl : Bits) (s : St) :
    decMembers (.cons name (.default d) t rest) fuel (false :: fl) s =
      (do let (fs, r') ← decMembers rest fuel fl s; .ok ((name, d) :: fs, r')) := rfl

/-! ### root members -/

theorem rt_members (fs : List (String × Val)) (ms : Members) :
    ms.All RT → ms.wf = true → ms.defaultsOk = true → ms.nsOk = true →
    membersOk ms fs = true → fragFreeMembers ms fs = true →
    ∀ (pos pos' : Nat) (body rest : Bits) (fuel : Nat), pos' % 8 = pos % 8 →
      encMembers ms fs false pos = .ok body → body.length + rest.length + 2 ≤ fuel →
      decMembers ms fuel (encPreamble ms fs) ⟨pos', body ++ rest⟩ =
        .ok (canonMembers ms fs true, ⟨pos' + body.length, rest⟩) := by
  induction ms using Members.ind with
  | nil =>
    intro _ _ _ _ _ _ pos pos' body rest fuel _ hb _
    cases hb
    rfl
  | cons name p t ms ih =>
    intro hall hwf hd hns hok hff pos pos' body rest fuel hp hb hfuel
    obtain ⟨hrt, hall'⟩ := hall
    simp only [Members.wf, Members.defaultsOk, Members.nsOk, membersOk, fragFreeMembers,
      Bool.and_eq_true] at hwf hd hns hok hff
    rw [encMembers_cons] at hb
    rw [encPreamble_cons]
    cases ha : encHere p t (lookup name fs) false pos with
    | error e => rw [ha] at hb; cases hb
    | ok a =>
    rw [ha] at hb
    simp only at hb
    cases hb' : encMembers ms fs false (pos + a.length) with
    | error e => rw [hb'] at hb; cases hb
    | ok b =>
    rw [hb'] at hb
    cases hb
    simp only [List.length_append] at hfuel
    have ihd := ih hall' hwf.2 hd.2 hns.2 hok.2 hff.2 (pos + a.length) (pos' + a.length) b rest fuel
      (by omega) hb' (by omega)
    -- a present member
    have present : ∀ v, lookup name fs = some v → enc t pos v = .ok a →
        decHere name t ms fuel (encPreamble ms fs) ⟨pos', a ++ b ++ rest⟩ =
          .ok (canonMembers (.cons name p t ms) fs true, ⟨pos' + (a ++ b).length, rest⟩) := by
      intro v hl hav
      simp only [hl] at hok hff
      have := hrt v pos pos' a (b ++ rest) fuel hwf.1 hd.1.2 hns.1 hok.1 hff.1 hp hav
        (by simp only [List.length_append]; omega)
      simp only [decHere, bind, Except.bind, List.append_assoc, this, ihd]
      rw [canonMembers_cons, hl]
      simp only [List.length_append, Nat.add_assoc]
    cases hl : lookup name fs with
    | some v =>
      simp only [hl, encHere] at ha
      cases p with
      | mandatory =>
        simp only at ha ⊢
        rw [decMembers_mandatory, present v hl ha]
      | optional =>
        simp only [Option.isSome_some] at ha ⊢
        rw [decMembers_optional_true, present v hl ha]
      | default d =>
        simp only [Bool.or_false] at ha ⊢
        cases hdef : isDefault t v d with
        | false =>
          simp only [hdef, Bool.not_false, if_true] at ha ⊢
          rw [decMembers_default_true, present v hl ha]
        | true =>
          simp only [hdef, Bool.not_true, Bool.false_eq_true, if_false] at ha ⊢
          cases ha
          simp only [hl] at hok
          simp only [Bool.and_eq_true] at hd
          have hcan := canon_of_isDefault t v d hok.1 hd.1.1.1 hd.1.1.2 hdef
          rw [decMembers_default_false, canonMembers_cons, hl]
          simp only [List.length_nil, Nat.add_zero] at ihd
          simp only [List.nil_append, bind, Except.bind, ihd, hcan]
    | none =>
      simp only [hl, encHere] at ha hok
      rw [canonMembers_cons, hl]
      cases p with
      | mandatory => simp at hok
      | optional =>
        simp only at ha ⊢
        cases ha
        simp only [List.length_nil, Nat.add_zero] at ihd
        simp only [Option.isSome_none]
        rw [decMembers_optional_false]
        simp only [List.nil_append, ihd]
      | default d =>
        simp only at ha ⊢
        cases ha
        simp only [List.length_nil, Nat.add_zero] at ihd
        rw [decMembers_default_false]
        simp only [List.nil_append, bind, Except.bind, ihd, if_true]

theorem et_members (fs : List (String × Val)) (b : Bool) (ms : Members) :
    ms.All ET → ms.wf = true → membersOk ms fs = true →
    ∀ pos, ∃ body, encMembers ms fs b pos = .ok body := by
  induction ms using Members.ind with
  | nil => intros; exact ⟨[], rfl⟩
  | cons name p t ms ih =>
    intro hall hwf hok pos
    simp only [Members.wf, membersOk, Bool.and_eq_true] at hwf hok
    have : ∃ a, encHere p t (lookup name fs) b pos = .ok a := by
      unfold encHere
      cases hl : lookup name fs with
      | some v =>
        simp only [hl] at hok
        obtain ⟨a, ha⟩ := hall.1 v pos hwf.1 hok.1
        cases p with
        | mandatory => exact ⟨a, ha⟩
        | optional => exact ⟨a, ha⟩
        | default d =>
          simp only
          split
          · exact ⟨a, ha⟩
          · exact ⟨[], rfl⟩
      | none =>
        simp only [hl] at hok
        cases p with
        | mandatory => simp at hok
        | optional => exact ⟨[], rfl⟩
        | default d => exact ⟨[], rfl⟩
    obtain ⟨a, ha⟩ := this
    obtain ⟨body, hbody⟩ := ih hall.2 hwf.2 hok.2 (pos + a.length)
    rw [encMembers_cons, ha]
    simp only [hbody]
    exact ⟨_, rfl⟩

end Asn1.Per
