import Asn1Proofs.Lemmas.CCursorOerDec
import Asn1Proofs.Lemmas.OerPrim
/-
  C10, functional layer (encoder side): the bytes the OER C helpers append are the big-endian /
  length-determinant encodings of the Python-codec model (`Asn1Model/Prim.lean`,
  `Asn1Model/Oer.lean`), and the static length function of the generator.
-/
namespace Asn1.C10
open Asn1 Asn1.CCursor Asn1.CCursorOer

/-! ### big-endian content -/

theorem be16_toNat (v : UInt16) : (be16 v).map UInt8.toNat = natToBytesN 2 v.toNat := by
  have := v.toNat_lt
  simp [be16, natToBytesN, Nat.shiftRight_eq_div_pow]

theorem be32_toNat (v : UInt32) : (be32 v).map UInt8.toNat = natToBytesN 4 v.toNat := by
  have := v.toNat_lt
  simp [be32, natToBytesN, UInt32.toNat_shiftRight, Nat.shiftRight_eq_div_pow]
  omega

theorem be64_toNat (v : UInt64) : (be64 v).map UInt8.toNat = natToBytesN 8 v.toNat := by
  have := v.toNat_lt
  simp [be64, natToBytesN, UInt64.toNat_shiftRight, Nat.shiftRight_eq_div_pow]
  omega

/-- `encoder_append_long_uint(value, n)` appends the `n` low-order octets, big endian -/
theorem luintBytes_toNat (v : UInt64) (n : UInt8) (hn : n.toNat ≤ 8) :
    (luintBytes v n).map UInt8.toNat = natToBytesN n.toNat v.toNat := by
  have := v.toNat_lt
  rcases uint8_cases_le8 n hn with h | h | h | h | h | h | h | h | h <;> subst h <;>
    simp [luintBytes, OEnc.u64Object, natToBytesN, UInt64.toNat_shiftRight, Nat.shiftRight_eq_div_pow] <;>
    omega

/-- two's complement content of the signed appends -/
theorem intToBytesN_of_toNat (k : Nat) (i : Int) (u : Nat) (h : (u : Int) = i % ((256 ^ k : Nat) : Int)) :
    intToBytesN k i = natToBytesN k u := by
  unfold intToBytesN
  rw [← h]
  simp

theorem i8_content (v : Int8) : [v.toUInt8].map UInt8.toNat = intToBytesN 1 v.toInt := by
  rw [intToBytesN_of_toNat 1 v.toInt v.toUInt8.toNat]
  · have := v.toUInt8.toNat_lt
    simp [natToBytesN]
  · have h1 := v.toInt_toBitVec
    have : v.toUInt8.toNat = v.toBitVec.toNat := rfl
    rw [this, ← Int8.toInt_toBitVec, BitVec.toInt_eq_toNat_bmod]
    simp [Int.bmod]
    split <;> omega

/-! ### length determinant -/

theorem byteLength_eq {n k : Nat} (h1 : 2 ^ (8 * k) ≤ n) (h2 : n < 2 ^ (8 * (k + 1))) :
    byteLength n = k + 1 := by
  have hle := bitLength_le_of_lt_pow_oer h2
  have hlt := lt_two_pow_bitLength_oer n
  have hge : 8 * k + 1 ≤ bitLength n := by
    apply Classical.byContradiction
    intro hc
    have : 2 ^ bitLength n ≤ 2 ^ (8 * k) := Nat.pow_le_pow_right (by decide) (by omega)
    omega
  unfold byteLength
  omega

theorem lenDet_short {n : Nat} (h : n < 128) : Oer.lenDet n = .ok [n] := by
  simp [Oer.lenDet_def, h]

theorem lenDet_long {n k : Nat} (h0 : 128 ≤ n) (h1 : 2 ^ (8 * k) ≤ n) (h2 : n < 2 ^ (8 * (k + 1)))
    (hk : k < 127) : Oer.lenDet n = .ok ((0x80 + (k + 1)) :: natToBytesN (k + 1) n) := by
  have hb := byteLength_eq h1 h2
  have hn : ¬ n < 128 := by omega
  have hl : ¬ (k + 1 > 127) := by omega
  simp [Oer.lenDet_def, hn, natToBytesMin, hb, hl]

theorem or_eq_add (a b i : Nat) (hb : b < 2 ^ i) (ha : a % 2 ^ i = 0) : a ||| b = a + b := by
  have : a = (a / 2 ^ i) <<< i := by
    rw [Nat.shiftLeft_eq]
    have := Nat.div_add_mod a (2 ^ i)
    rw [ha] at this
    rw [Nat.mul_comm]; omega
  rw [this, Nat.shiftLeft_add_eq_or_of_lt hb]

/-- all octets `encoder_append_length_determinant` appends -/
def lenDetBytes (n : UInt32) : List UInt8 := (lenDetChunks n).flatten

/-- `encoder_append_length_determinant(n)` appends exactly the Python codec's `lenDet n`, for every
`uint32_t n` -/
theorem lenDetBytes_eq (n : UInt32) : Oer.lenDet n.toNat = .ok ((lenDetBytes n).map UInt8.toNat) := by
  have hlt := n.toNat_lt
  unfold lenDetBytes lenDetChunks
  split
  · rename_i h
    rw [lenDet_short h]
    simp
    omega
  split
  · rename_i h1 h
    rw [lenDet_long (k := 0) (by omega) (by simp; omega) (by simp; omega) (by omega)]
    simp [natToBytesN]
  split
  · rename_i h2 h1 h
    rw [lenDet_long (k := 1) (by omega) (by simp; omega) (by simp; omega) (by omega)]
    simp [be16_toNat, natToBytesN]
    omega
  split
  · rename_i h3 h2 h1 h
    rw [lenDet_long (k := 2) (by omega) (by simp; omega) (by simp; omega) (by omega)]
    have hor : (n ||| (0x83 : UInt32) <<< 24).toNat = 2197815296 + n.toNat := by
      rw [UInt32.toNat_or, Nat.or_comm]
      have : ((0x83 : UInt32) <<< 24).toNat = 2197815296 := by decide
      rw [this, or_eq_add _ _ 24 (by omega) (by decide)]
    simp [be32_toNat, natToBytesN, hor]
    omega
  · rename_i h3 h2 h1 h
    rw [lenDet_long (k := 3) (by omega) (by simp; omega) (by simp; omega) (by omega)]
    simp [be32_toNat, natToBytesN]

theorem lenDetBytes_length (n : UInt32) : (lenDetBytes n).length = (lengthDeterminantLength n).toNat := by
  unfold lenDetBytes lenDetChunks lengthDeterminantLength
  repeat' split
  all_goals simp [be16, be32]

/-- the RUN-TIME `length_determinant_length` is the true length of the length determinant -/
theorem lengthDeterminantLength_eq (n : UInt32) :
    ∃ l, Oer.lenDet n.toNat = .ok l ∧ l.length = (lengthDeterminantLength n).toNat :=
  ⟨_, lenDetBytes_eq n, by rw [List.length_map, lenDetBytes_length]⟩

/-! ### the static (generation-time) length function -/

/-- true length of the OER length determinant of `n` (0 if it cannot be encoded) -/
def trueLenDetLen (n : Nat) : Nat :=
  match Oer.lenDet n with
  | .ok l => l.length
  | .error _ => 0

theorem trueLenDetLen_eq (n : Nat) (h : n < 4294967296) :
    trueLenDetLen n = (lengthDeterminantLength (UInt32.ofNat n)).toNat := by
  obtain ⟨l, h1, h2⟩ := lengthDeterminantLength_eq (UInt32.ofNat n)
  have : (UInt32.ofNat n).toNat = n := by simp; omega
  rw [this] at h1
  simp [trueLenDetLen, h1, h2]

theorem runtime_len_cases (n : Nat) (h : n < 4294967296) :
    (lengthDeterminantLength (UInt32.ofNat n)).toNat =
      if n < 128 then 1 else if n < 256 then 2 else if n < 65536 then 3 else if n < 16777216 then 4 else 5 := by
  have : (UInt32.ofNat n).toNat = n := by simp; omega
  unfold lengthDeterminantLength
  rw [this]
  repeat' split
  all_goals rfl

/-! ### buffer content after an encoder operation -/

theorem putAll_fits (cs : List (List UInt8)) : ∀ {e : OEnc}, 0 ≤ e.size → 0 ≤ e.pos →
    e.pos + (cs.flatten.length : Nat) ≤ e.size →
    e.putAll cs = { e with buf := write e.buf e.pos.toNat cs.flatten, pos := e.pos + (cs.flatten.length : Nat) } := by
  induction cs with
  | nil => intro e _ _ _; simp [OEnc.putAll]
  | cons c cs ih =>
    intro e h0 hp hfit
    simp only [List.flatten_cons, List.length_append] at hfit ⊢
    have hs0 : ¬ e.size < 0 := by omega
    have hfit1 : e.pos + (c.length : Int) ≤ e.size := by omega
    have hput : e.put c = { e with buf := write e.buf e.pos.toNat c, pos := e.pos + c.length } := by
      unfold OEnc.put
      rw [if_neg hs0, if_pos hfit1]
    rw [OEnc.putAll, hput, ih (by exact h0) (by simp only; omega) (by simp only; omega)]
    have : (e.pos + (c.length : Int)).toNat = e.pos.toNat + c.length := by omega
    simp only [this, write_append]
    congr 1
    omega

/-- the octets an operation appends, as `Bytes` of the Python-codec model -/
def encBytes (op : OEncOp) : Bytes := (chunks op).flatten.map UInt8.toNat

theorem need_eq_length (op : OEncOp) : need op = (chunks op).flatten.length := by
  unfold need
  rw [List.length_flatten]

/-- FUNCTIONAL, encoder: with enough room an operation advances `pos` by `need op`, writes exactly
`encBytes op` at the old position and leaves every other byte of the buffer unchanged -/
theorem run_content {e : OEnc} (h : EInv e) (h0 : 0 ≤ e.size) (op : OEncOp) (hp : op.Pre)
    (hna : ¬ op.isAbort) (hfit : e.pos + (need op : Nat) ≤ e.size) :
    ∃ e', e.run op = .ok e' ∧ e'.size = e.size ∧ e'.pos = e.pos + (need op : Nat) ∧
      e'.buf.size = e.buf.size ∧
      e'.buf.toList.take e.pos.toNat = e.buf.toList.take e.pos.toNat ∧
      ((e'.buf.toList.drop e.pos.toNat).take (need op)).map UInt8.toNat = encBytes op ∧
      e'.buf.toList.drop (e.pos.toNat + need op) = e.buf.toList.drop (e.pos.toNat + need op) := by
  have hpos : 0 ≤ e.pos := by rcases h.2 with h | h <;> omega
  have hle : e.size ≤ e.buf.size := by rcases h.2 with h | h <;> omega
  rw [need_eq_length] at hfit ⊢
  have hw : e.pos.toNat + (chunks op).flatten.length ≤ e.buf.size := by omega
  refine ⟨_, run_eq h op hp hna, ?_⟩
  rw [putAll_fits _ h0 hpos hfit]
  refine ⟨rfl, rfl, by simp, take_write _ _ _ hw, ?_, drop_write _ _ _ hw⟩
  simp only [region_write _ _ _ hw, encBytes]

theorem encBytes_lendet (n : UInt32) : Oer.lenDet n.toNat = .ok (encBytes (.lendet n)) := lenDetBytes_eq n

theorem encBytes_u8 (v : UInt8) : encBytes (.u8 v) = natToBytesN 1 v.toNat := by
  have := v.toNat_lt
  simp [encBytes, chunks, natToBytesN]

theorem encBytes_u16 (v : UInt16) : encBytes (.u16 v) = natToBytesN 2 v.toNat := by
  simp [encBytes, chunks, be16_toNat]

theorem encBytes_u32 (v : UInt32) : encBytes (.u32 v) = natToBytesN 4 v.toNat := by
  simp [encBytes, chunks, be32_toNat]

theorem encBytes_u64 (v : UInt64) : encBytes (.u64 v) = natToBytesN 8 v.toNat := by
  simp [encBytes, chunks, be64_toNat]

theorem encBytes_f32 (v : UInt32) : encBytes (.f32 v) = natToBytesN 4 v.toNat := by
  simp [encBytes, chunks, be32_toNat]

theorem encBytes_f64 (v : UInt64) : encBytes (.f64 v) = natToBytesN 8 v.toNat := by
  simp [encBytes, chunks, be64_toNat]

theorem encBytes_bool (b : Bool) : encBytes (.bool b) = [if b then 255 else 0] := by
  cases b <;> simp [encBytes, chunks]

theorem encBytes_luint (v : UInt64) (n : UInt8) (junk : Mem) (hn : n.toNat ≤ 8) :
    encBytes (.luint v n junk) = natToBytesN n.toNat v.toNat := by
  simp [encBytes, chunks, luintBytes_toNat v n hn]

/-- `encoder_append_uint(value, k)` for k = 1..4 appends the `k` low-order octets of `value` -/
theorem encBytes_uint (v : UInt32) (k : UInt8) (hk : 1 ≤ k.toNat ∧ k.toNat ≤ 4) :
    encBytes (.uint v k) = natToBytesN k.toNat v.toNat := by
  have := v.toNat_lt
  have hc : k = 1 ∨ k = 2 ∨ k = 3 ∨ k = 4 := by
    rcases uint8_cases_le8 k (by omega) with h | h | h | h | h | h | h | h | h <;> subst h <;> simp at hk ⊢
  rcases hc with h | h | h | h <;> subst h <;>
    simp [encBytes, chunks, uintChunks, be16, be32, natToBytesN, UInt32.toNat_shiftRight,
      Nat.shiftRight_eq_div_pow] <;> omega

/-! ### signed appends: two's complement content -/

theorem encBytes_i8 (v : Int8) : encBytes (.i8 v) = intToBytesN 1 v.toInt := by
  simpa [encBytes, chunks] using i8_content v

theorem i16_mod (v : Int16) : (v.toUInt16.toNat : Int) = v.toInt % ((256 ^ 2 : Nat) : Int) := by
  have : v.toUInt16.toNat = v.toBitVec.toNat := rfl
  rw [this, ← Int16.toInt_toBitVec, BitVec.toInt_eq_toNat_bmod]
  have := v.toBitVec.isLt
  simp [Int.bmod]
  split <;> omega

theorem i32_mod (v : Int32) : (v.toUInt32.toNat : Int) = v.toInt % ((256 ^ 4 : Nat) : Int) := by
  have : v.toUInt32.toNat = v.toBitVec.toNat := rfl
  rw [this, ← Int32.toInt_toBitVec, BitVec.toInt_eq_toNat_bmod]
  have := v.toBitVec.isLt
  simp [Int.bmod]
  split <;> omega

theorem i64_mod (v : Int64) : (v.toUInt64.toNat : Int) = v.toInt % ((256 ^ 8 : Nat) : Int) := by
  have : v.toUInt64.toNat = v.toBitVec.toNat := rfl
  rw [this, ← Int64.toInt_toBitVec, BitVec.toInt_eq_toNat_bmod]
  have := v.toBitVec.isLt
  simp [Int.bmod]
  split <;> omega

theorem encBytes_i16 (v : Int16) : encBytes (.i16 v) = intToBytesN 2 v.toInt := by
  rw [intToBytesN_of_toNat 2 v.toInt _ (i16_mod v)]
  simp [encBytes, chunks, be16_toNat]

theorem encBytes_i32 (v : Int32) : encBytes (.i32 v) = intToBytesN 4 v.toInt := by
  rw [intToBytesN_of_toNat 4 v.toInt _ (i32_mod v)]
  simp [encBytes, chunks, be32_toNat]

theorem encBytes_i64 (v : Int64) : encBytes (.i64 v) = intToBytesN 8 v.toInt := by
  rw [intToBytesN_of_toNat 8 v.toInt _ (i64_mod v)]
  simp [encBytes, chunks, be64_toNat]

end Asn1.C10
