import Asn1Proofs.Lemmas.CostBer1
/-
  C08 for the BER model: allocation bound and fuel sufficiency of `BerCodec.dec`.

  The SEQUENCE / CHOICE part is the generic one of `CostDer1.lean` / `CostDer2.lean` (instantiated through
  `ber_dec_seq`, `ber_dec_choice`, `ber_decPass_fun` of `DerCodecInst.lean`); the loops that are new in BER
  (`BerCodec.items`, `BerCodec.pcDecode`) are in `CostBer1.lean`.
-/
set_option linter.unusedSimpArgs false
set_option linter.unusedVariables false
namespace Asn1.Cost
open Asn1.Der
open Asn1.Uper (Err)
open Asn1.Oer (splitAux readBytes decodeStr)

/-! ### allocation bound, type by type -/

theorem bct_boolean : CT BerCodec.dec .boolean := by
  intro tg f bs v k r h
  rw [BerCodec.dec] at h
  obtain ⟨o, h1, h⟩ := Uper.bind_ok h
  cases o with
  | none => cases h
  | some x =>
    obtain ⟨content, k', r'⟩ := x
    dsimp only at h
    split at h
    · cases h
      obtain ⟨a1, a2⟩ := readPrim_spec h1
      have := mkTag_pos 1 false tg
      simp only [Val.nodes, KD]
      omega
    · cases h

theorem bct_null : CT BerCodec.dec .null := by
  intro tg f bs v k r h
  rw [BerCodec.dec] at h
  dsimp only at h
  obtain ⟨o, h1, h⟩ := Uper.bind_ok h
  cases o with
  | none => cases h
  | some r0 =>
    dsimp only at h
    obtain ⟨⟨len, hh, r1⟩, h2, h⟩ := Uper.bind_ok h
    cases h
    have a1 := matchTag_len h1
    obtain ⟨a2, a3, _, _⟩ := readLen_spec h2
    have := mkTag_pos 5 false tg
    simp only [Val.nodes, KD]
    omega

theorem bct_integer (c : IntC) : CT BerCodec.dec (.integer c) := by
  intro tg f bs v k r h
  rw [BerCodec.dec] at h
  obtain ⟨o, h1, h⟩ := Uper.bind_ok h
  cases o with
  | none => cases h
  | some x =>
    obtain ⟨content, k', r'⟩ := x
    cases h
    obtain ⟨a1, a2⟩ := readPrim_spec h1
    have := mkTag_pos 2 false tg
    simp only [Val.nodes, KD]
    omega

theorem bct_enumerated (root : List (String × Int)) (ext : Option (List (String × Int))) :
    CT BerCodec.dec (.enumerated root ext) := by
  intro tg f bs v k r h
  rw [BerCodec.dec] at h
  obtain ⟨o, h1, h⟩ := Uper.bind_ok h
  cases o with
  | none => cases h
  | some x =>
    obtain ⟨content, k', r'⟩ := x
    dsimp only at h
    obtain ⟨v', h2, h⟩ := Uper.bind_ok h
    cases h
    obtain ⟨a1, a2⟩ := readPrim_spec h1
    have := mkTag_pos 10 false tg
    have hv : v.nodes = 1 := by
      unfold enumOfContent at h2
      split at h2
      · cases h2; rfl
      · split at h2
        · cases h2; rfl
        · cases h2
    rw [hv]
    simp only [KD]
    omega

theorem bct_octetString (c : SizeC) : CT BerCodec.dec (.octetString c) := by
  intro tg f bs v k r h
  rw [BerCodec.dec] at h
  obtain ⟨o, h1, h⟩ := Uper.bind_ok h
  cases o with
  | none => cases h
  | some x =>
    obtain ⟨content, k', r'⟩ := x
    cases h
    obtain ⟨a1, a2, a3⟩ := decOctets_cost (mkTag_pos 4 false tg) h1
    simp only [Val.nodes, KD]
    omega

theorem bct_bitString (c : SizeC) : CT BerCodec.dec (.bitString c) := by
  intro tg f bs v k r h
  rw [BerCodec.dec] at h
  obtain ⟨o, h1, h⟩ := Uper.bind_ok h
  cases o with
  | none => cases h
  | some x =>
    obtain ⟨⟨body, n⟩, k', r'⟩ := x
    cases h
    obtain ⟨a1, a2, a3⟩ := decBits_cost (mkTag_pos 3 false tg) h1
    simp only [Val.nodes, KD]
    omega

theorem bct_charString (kind : StrKind) (c : SizeC) : CT BerCodec.dec (.charString kind c) := by
  intro tg f bs v k r h
  rw [BerCodec.dec] at h
  obtain ⟨o, h1, h⟩ := Uper.bind_ok h
  cases o with
  | none => cases h
  | some x =>
    obtain ⟨content, k', r'⟩ := x
    dsimp only at h
    obtain ⟨cps, h2, h⟩ := Uper.bind_ok h
    cases h
    obtain ⟨a1, a2, a3⟩ := decOctets_cost (mkTag_pos _ false tg) h1
    have a4 := decodeStr_len h2
    simp only [Val.nodes, KD]
    omega

theorem bct_sequenceOf (e : Ty) (c : SizeC) (ih : CT BerCodec.dec e) : CT BerCodec.dec (.sequenceOf e c) := by
  intro tg f bs v k r h
  rw [BerCodec.dec] at h
  dsimp only at h
  obtain ⟨o, h1, h⟩ := Uper.bind_ok h
  cases o with
  | none => cases h
  | some r0 =>
    dsimp only at h
    obtain ⟨⟨len, hh, r1⟩, h2, h⟩ := Uper.bind_ok h
    dsimp only at h
    obtain ⟨⟨vs, k', r2⟩, h3, h⟩ := Uper.bind_ok h
    cases h
    have a1 := matchTag_len h1
    obtain ⟨a2, a3, _, _⟩ := readLen_spec h2
    have := mkTag_pos 16 true tg
    obtain ⟨b1, b2⟩ := items_cost Val.nodes (K := KD e) (fun b a k r hb => by
        obtain ⟨c1, _, c3⟩ := ih none f b a k r hb
        exact ⟨c1, c3⟩) _ _ _ _ _ _ h3
    rw [← nodesList_eq_sumSize] at b2
    dsimp only
    refine ⟨by omega, by omega, ?_⟩
    simp only [Val.nodes, KD]
    have c1 : 1 * 1 ≤ 1 * (bs.length - r2.length) := Nat.mul_le_mul_left _ (by omega)
    have c2 := bm_mono b2 (Nat.le_refl _) (show r1.length - r2.length ≤ bs.length - r2.length by omega)
    rw [Nat.add_mul]
    omega

theorem bct_sequence (root : Members) (ext : Bool) (adds : Members) (hr : Members.All (CT BerCodec.dec) root)
    (ha : Members.All (CT BerCodec.dec) adds) : CT BerCodec.dec (.sequence root ext adds) := by
  intro tg f bs v k r h
  rw [BerCodec.ber_dec_seq] at h
  simp only [KD]
  exact gSeq_cost BerCodec.dec root adds hr ha tg f bs v k r h

theorem bct_choice (root : Alts) (ext : Bool) (adds : Alts) (hr : Alts.All (CT BerCodec.dec) root)
    (ha : Alts.All (CT BerCodec.dec) adds) : CT BerCodec.dec (.choice root ext adds) := by
  intro tg f bs v k r h
  rw [BerCodec.ber_dec_choice] at h
  simp only [KD]
  exact gChoice_cost BerCodec.dec BerCodec.berTest root ext adds hr ha tg f bs v k r h

theorem bct_all (t : Ty) : CT BerCodec.dec t :=
  Ty.rec (motive_1 := CT BerCodec.dec) (motive_2 := Members.All (CT BerCodec.dec))
    (motive_3 := Alts.All (CT BerCodec.dec))
    bct_boolean bct_null bct_integer bct_enumerated bct_octetString bct_bitString bct_charString
    (fun root ext adds ihr iha => bct_sequence root ext adds ihr iha)
    (fun e c ih => bct_sequenceOf e c ih)
    (fun root ext adds ihr iha => bct_choice root ext adds ihr iha)
    trivial (fun _ _ _ _ iht ihr => ⟨iht, ihr⟩)
    trivial (fun _ _ _ iht ihr => ⟨iht, ihr⟩) t

theorem bct_members (ms : Members) : Members.All (CT BerCodec.dec) ms := by
  induction ms using Members.ind with
  | nil => trivial
  | cons name p t rest ih => exact ⟨bct_all t, ih⟩

theorem bct_alts (as : Alts) : Alts.All (CT BerCodec.dec) as := by
  induction as using Alts.ind with
  | nil => trivial
  | cons name t rest ih => exact ⟨bct_all t, ih⟩

/-! ### fuel independence, type by type -/

theorem bfi_octetString (c : SizeC) : FI BerCodec.dec (.octetString c) := by
  intro tg f f' bs h1 h2
  simp only [BerCodec.dec]
  rw [decOctets_fuel f f' _ _ bs h1 h2]

theorem bfi_bitString (c : SizeC) : FI BerCodec.dec (.bitString c) := by
  intro tg f f' bs h1 h2
  simp only [BerCodec.dec]
  rw [decBits_fuel f f' _ _ bs h1 h2]

theorem bfi_charString (kind : StrKind) (c : SizeC) : FI BerCodec.dec (.charString kind c) := by
  intro tg f f' bs h1 h2
  simp only [BerCodec.dec]
  rw [decOctets_fuel f f' _ _ bs h1 h2]

theorem bfi_sequenceOf (e : Ty) (c : SizeC) (ih : FI BerCodec.dec e) : FI BerCodec.dec (.sequenceOf e c) := by
  intro tg f f' bs h1 h2
  simp only [BerCodec.dec]
  cases hm : matchTag (mkTag 16 true tg) bs with
  | error err => rfl
  | ok o =>
    cases o with
    | none => rfl
    | some r0 =>
      simp only [bind, Except.bind]
      have m1 := matchTag_len hm
      cases hl : readLen false r0 with
      | error err => rfl
      | ok x =>
        obtain ⟨len, h, r1⟩ := x
        dsimp only
        obtain ⟨_, l2, l3, l4⟩ := readLen_spec hl
        rw [items_congr (p' := BerCodec.dec e none f')
          (fun b a k r hb => (bct_all e none f b a k r hb).1) f f' len r1
          (fun b hb => ih none f f' b (by omega) (by omega)) (by omega) (by omega)]

theorem bfi_sequence (root : Members) (ext : Bool) (adds : Members) (hr : Members.All (FI BerCodec.dec) root)
    (ha : Members.All (FI BerCodec.dec) adds) : FI BerCodec.dec (.sequence root ext adds) := by
  intro tg f f' bs h1 h2
  rw [BerCodec.ber_dec_seq, BerCodec.ber_dec_seq]
  exact gSeq_fuel BerCodec.dec root adds (bct_members root) (bct_members adds) hr ha tg f f' bs h1 h2

theorem bfi_choice (root : Alts) (ext : Bool) (adds : Alts) (hr : Alts.All (FI BerCodec.dec) root)
    (ha : Alts.All (FI BerCodec.dec) adds) : FI BerCodec.dec (.choice root ext adds) := by
  intro tg f f' bs h1 h2
  rw [BerCodec.ber_dec_choice, BerCodec.ber_dec_choice]
  exact gChoice_fuel BerCodec.dec BerCodec.berTest root ext adds hr ha tg f f' bs h1 h2

theorem bfi_all (t : Ty) : FI BerCodec.dec t :=
  Ty.rec (motive_1 := FI BerCodec.dec) (motive_2 := Members.All (FI BerCodec.dec))
    (motive_3 := Alts.All (FI BerCodec.dec))
    (fun tg f f' bs _ _ => by simp only [BerCodec.dec])
    (fun tg f f' bs _ _ => by simp only [BerCodec.dec])
    (fun c tg f f' bs _ _ => by simp only [BerCodec.dec])
    (fun root ext tg f f' bs _ _ => by simp only [BerCodec.dec])
    bfi_octetString bfi_bitString bfi_charString
    (fun root ext adds ihr iha => bfi_sequence root ext adds ihr iha)
    (fun e c ih => bfi_sequenceOf e c ih)
    (fun root ext adds ihr iha => bfi_choice root ext adds ihr iha)
    trivial (fun _ _ _ _ iht ihr => ⟨iht, ihr⟩)
    trivial (fun _ _ _ iht ihr => ⟨iht, ihr⟩) t

/-! ### the theorems -/

/-- every successful `BerCodec.dec` consumes input, reports a positive octet count and returns a value
whose size is at most `KD t` per octet consumed -/
theorem ber_dec_cost (t : Ty) (tg : Option Nat) (f : Nat) (bs : Bytes) (v : Val) (k : Nat) (r : Bytes)
    (h : BerCodec.dec t tg f bs = .ok (some (v, k, r))) :
    r.length < bs.length ∧ 1 ≤ k ∧ v.nodes ≤ KD t * (bs.length - r.length) :=
  bct_all t tg f bs v k r h

/-- the global fuel (length of the whole input + 1) is never exhausted -/
theorem ber_dec_fuel (t : Ty) (tg : Option Nat) (f f' : Nat) (bs : Bytes)
    (hf : bs.length < f) (hf' : bs.length < f') :
    BerCodec.dec t tg f bs = BerCodec.dec t tg f' bs :=
  bfi_all t tg f f' bs hf hf'

theorem ber_retry_fuel (ms : Members) (i f extra : Nat) (c : Cur) :
    retry (BerCodec.decPass ms i f) (ms.length + 1 + extra) (List.replicate ms.length none) c
      = retry (BerCodec.decPass ms i f) (ms.length + 1) (List.replicate ms.length none) c := by
  rw [BerCodec.ber_decPass_fun]
  exact gPass_retry_fuel BerCodec.dec ms i f extra c

end Asn1.Cost

#print axioms Asn1.Cost.ber_dec_cost
#print axioms Asn1.Cost.ber_dec_fuel
#print axioms Asn1.Cost.ber_retry_fuel
