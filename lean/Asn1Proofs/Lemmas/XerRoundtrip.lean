import Asn1Proofs.Lemmas.XerLeaf
/-
  Tree-level round trip of the XER model: decoding the element tree the encoder builds returns
  the canonical value (`X690.canonV`: absent DEFAULT members filled in, root and additions;
  unused bits of a BIT STRING cleared) — for the normal element form and for the form used inside
  SEQUENCE OF (`inList`).
-/
set_option linter.unusedSimpArgs false

namespace Asn1.Xer
open Asn1.Xml Asn1.X690

/-- statement proved by induction over the type -/
def RT (t : Ty) : Prop :=
  ∀ (inList : Bool) (nm : String) (v : Val),
    t.wf = true → hasType t v = true → intsOk t v = true →
    ∃ x, enc t inList nm v = .ok x ∧ dec t inList x = .ok (canonV t v) ∧
      (inList = false → x.name = nm)

/-! ### leaves -/

theorem rt_boolean : RT .boolean := by
  intro inList nm v hwf ht hi
  cases v <;> simp [hasType] at ht
  case bool b =>
    cases inList <;> cases b
    · exact ⟨_, rfl, rfl, fun _ => rfl⟩
    · exact ⟨_, rfl, rfl, fun _ => rfl⟩
    · exact ⟨_, rfl, rfl, fun h => by cases h⟩
    · exact ⟨_, rfl, rfl, fun h => by cases h⟩

theorem rt_null : RT .null := by
  intro inList nm v hwf ht hi
  cases v <;> simp [hasType] at ht
  exact ⟨leaf nm [], by simp [enc], by simp [dec, canonV], fun _ => rfl⟩

theorem rt_integer (c : IntC) : RT (.integer c) := by
  intro inList nm v _ ht hi
  cases v <;> simp [hasType] at ht
  case int i =>
    simp only [intsOk, decide_eq_true_eq] at hi
    have hit : intText i = .ok (if i < 0 then 45 :: natToDec i.natAbs else natToDec i.natAbs) := by
      unfold intText
      simp only []
      rw [if_neg (by omega)]
    obtain ⟨hp, hne⟩ := parseInt_intText i _ hit
    refine ⟨leaf nm (if i < 0 then 45 :: natToDec i.natAbs else natToDec i.natAbs), by simp only [enc, hit], ?_, fun _ => rfl⟩
    simp only [dec, leaf, XmlT.text, canonV]
    have : (if i < 0 then 45 :: natToDec i.natAbs else natToDec i.natAbs).isEmpty = false := by
      cases h : (if i < 0 then 45 :: natToDec i.natAbs else natToDec i.natAbs) with
      | nil => exact absurd h hne
      | cons _ _ => rfl
    simp only [this, Bool.false_eq_true, if_false, hp]

theorem rt_enumerated (root : List (String × Int)) (ext : Option (List (String × Int))) :
    RT (.enumerated root ext) := by
  intro inList nm v hwf ht hi
  cases v <;> simp [hasType] at ht
  case «enum» n =>
    have hmem : (enumNames root ext).contains n = true := by
      simp only [enumNames, List.contains_eq_mem, List.mem_append, decide_eq_true_eq]
      rcases ht with h | h
      · exact Or.inl h
      · cases ext with
        | none => simp at h
        | some a => exact Or.inr (by simpa using h)
    have hmem' : n ∈ enumNames root ext := by simpa using hmem
    cases inList
    · refine ⟨.elem nm [] [leaf n []], by simp [enc, hmem'], ?_, fun _ => rfl⟩
      simp [dec, XmlT.kids, leaf, XmlT.name, hmem', canonV]
    · refine ⟨leaf n [], by simp [enc, hmem'], ?_, fun h => by cases h⟩
      simp [dec, leaf, XmlT.name, hmem', canonV]

theorem rt_octetString (c : SizeC) : RT (.octetString c) := by
  intro inList nm v hwf ht hi
  cases v <;> simp [hasType] at ht
  case bytes bs =>
    have hall : ∀ b ∈ bs, b < 256 := by
      have := ht.1
      simpa [allBytes, List.all_eq_true] using this
    refine ⟨leaf nm (hexText bs), by simp [enc], ?_, fun _ => rfl⟩
    simp only [dec, leaf, XmlT.text, hexText_isEmpty, canonV]
    cases bs with
    | nil => rfl
    | cons b r =>
      simp only [List.isEmpty_cons, Bool.false_eq_true, if_false]
      rw [parseHex_hexText _ hall]

theorem rt_bitString (c : SizeC) : RT (.bitString c) := by
  intro inList nm v hwf ht hi
  cases v <;> simp [hasType] at ht
  case bits data n =>
    obtain ⟨⟨_, hlen⟩, _⟩ := ht
    have h8 : ¬ 8 * data.length < n := by omega
    refine ⟨leaf nm (bitText ((bytesToBits data).take n)), by simp only [enc, if_neg h8], ?_, fun _ => rfl⟩
    simp only [dec, leaf, XmlT.text, canonV, cleanBits]
    have hl : ((bytesToBits data).take n).length = n := by
      rw [List.length_take, bytesToBits_length]; omega
    by_cases h0 : n = 0
    · subst h0
      simp only [List.take_zero, bitText, List.map_nil, List.isEmpty_nil, if_true]
      rfl
    · have hne : (bitText ((bytesToBits data).take n)).isEmpty = false := by
        cases h : (bytesToBits data).take n with
        | nil => rw [h] at hl; simp at hl; omega
        | cons _ _ => rfl
      simp only [hne, Bool.false_eq_true, if_false]
      rw [parseBits_bitText, hl]

theorem rt_charString (k : StrKind) (c : SizeC) : RT (.charString k c) := by
  intro inList nm v hwf ht hi
  cases v <;> simp [hasType] at ht
  case str cps =>
    exact ⟨leaf nm cps, by simp [enc], by simp [dec, leaf, XmlT.text, canonV], fun _ => rfl⟩

/-! ### SEQUENCE -/

theorem findKid_append_of_ne (name : String) (pre l : List XmlT)
    (h : ∀ x ∈ pre, x.name ≠ name) : findKid name (pre ++ l) = findKid name l := by
  induction pre with
  | nil => rfl
  | cons a r ih =>
    have ha := h a (List.mem_cons_self ..)
    simp only [List.cons_append, findKid]
    rw [if_neg (by simpa using ha)]
    exact ih (fun x hx => h x (List.mem_cons_of_mem _ hx))

theorem findKid_none_of_ne (name : String) (l : List XmlT)
    (h : ∀ x ∈ l, x.name ≠ name) : findKid name l = none := by
  have := findKid_append_of_ne name l [] h
  simpa [findKid] using this

theorem rt_members (ms : Members) (hall : Members.AllO RT ms) (fs : List (String × Val))
    (hwf : ms.wf = true) (hnd : ms.names.Nodup) (hok : membersOk ms fs = true)
    (hint : intsOkMembers ms fs = true) :
    ∃ xs, encMembers ms fs = .ok xs ∧ (∀ x ∈ xs, x.name ∈ ms.names) ∧
      ∀ pre post : List XmlT, (∀ x ∈ pre, x.name ∉ ms.names) → (∀ x ∈ post, x.name ∉ ms.names) →
        decMembers ms (pre ++ xs ++ post) = .ok (canonMembersV ms fs) := by
  induction ms using Members.ind with
  | nil =>
    exact ⟨[], rfl, by simp, fun _ _ _ _ => by simp [decMembers, canonMembersV]⟩
  | cons name p t rest ih =>
    simp only [Members.wf, Bool.and_eq_true] at hwf
    simp only [Members.names, List.nodup_cons] at hnd
    simp only [membersOk, Bool.and_eq_true] at hok
    simp only [intsOkMembers, Bool.and_eq_true] at hint
    obtain ⟨xs', he', hn', hd'⟩ := ih hall.2 hwf.2 hnd.2 hok.2 hint.2
    cases hl : lookup name fs with
    | some v =>
      rw [hl] at hok hint
      obtain ⟨x, hex, hdx, hnx⟩ := hall.1 false name v hwf.1 hok.1 hint.1
      have hxn : x.name = name := hnx rfl
      refine ⟨x :: xs', by simp only [encMembers, hl, hex, he'], ?_, ?_⟩
      · intro y hy
        rcases List.mem_cons.1 hy with rfl | hy
        · simp [Members.names, hxn]
        · simp [Members.names, hn' y hy]
      · intro pre post hpre hpost
        have hfind : findKid name (pre ++ (x :: xs') ++ post) = some x := by
          rw [List.append_assoc, findKid_append_of_ne]
          · simp [findKid, hxn]
          · intro y hy e
            exact hpre y hy (by simp [Members.names, e])
        have hrest : decMembers rest (pre ++ (x :: xs') ++ post) = .ok (canonMembersV rest fs) := by
          have := hd' (pre ++ [x]) post (by
            intro y hy
            rcases List.mem_append.1 hy with hy | hy
            · intro hm; exact hpre y hy (by simp [Members.names, hm])
            · simp only [List.mem_singleton] at hy
              subst hy; rw [hxn]; exact hnd.1) (by
            intro y hy hm; exact hpost y hy (by simp [Members.names, hm]))
          simpa [List.append_assoc] using this
        simp only [decMembers, hfind, hdx, hrest, canonMembersV, hl]
    | none =>
      rw [hl] at hok
      have hnone : ∀ pre post : List XmlT, (∀ x ∈ pre, x.name ∉ (Members.cons name p t rest).names) →
          (∀ x ∈ post, x.name ∉ (Members.cons name p t rest).names) →
          findKid name (pre ++ xs' ++ post) = none := by
        intro pre post hpre hpost
        apply findKid_none_of_ne
        intro y hy e
        simp only [List.mem_append] at hy
        rcases hy with (hy | hy) | hy
        · exact hpre y hy (by simp [Members.names, e])
        · exact hnd.1 (e ▸ hn' y hy)
        · exact hpost y hy (by simp [Members.names, e])
      have hrest : ∀ pre post : List XmlT, (∀ x ∈ pre, x.name ∉ (Members.cons name p t rest).names) →
          (∀ x ∈ post, x.name ∉ (Members.cons name p t rest).names) →
          decMembers rest (pre ++ xs' ++ post) = .ok (canonMembersV rest fs) := by
        intro pre post hpre hpost
        exact hd' pre post (fun y hy hm => hpre y hy (by simp [Members.names, hm]))
          (fun y hy hm => hpost y hy (by simp [Members.names, hm]))
      cases p with
      | mandatory => simp at hok
      | optional =>
        refine ⟨xs', by simp only [encMembers, hl, he'], fun y hy => by simp [Members.names, hn' y hy], ?_⟩
        intro pre post hpre hpost
        simp only [decMembers, hnone pre post hpre hpost, hrest pre post hpre hpost, canonMembersV, hl]
      | «default» d =>
        refine ⟨xs', by simp only [encMembers, hl, he'], fun y hy => by simp [Members.names, hn' y hy], ?_⟩
        intro pre post hpre hpost
        simp only [decMembers, hnone pre post hpre hpost, hrest pre post hpre hpost, canonMembersV, hl]

theorem rt_sequence (root : Members) (ext : Bool) (adds : Members)
    (ihr : Members.AllO RT root) (iha : Members.AllO RT adds) : RT (.sequence root ext adds) := by
  intro inList nm v hwf ht hi
  cases v <;> simp only [hasType, Bool.false_eq_true] at ht
  case record fs =>
    simp only [Ty.wf, Bool.and_eq_true, decide_eq_true_eq] at hwf
    obtain ⟨⟨⟨⟨hwr, hwa⟩, hnd⟩, _⟩, _⟩ := hwf
    have hnd' : (root.names ++ adds.names).Nodup := by simpa using hnd
    have hty : hasType (.sequence root ext adds) (.record fs) = true := by
      simp only [hasType]; exact ht
    obtain ⟨hokr, hoka⟩ := membersOk_of_hasType root adds ext fs hnd' hty
    simp only [intsOk, Bool.and_eq_true] at hi
    rw [List.nodup_append] at hnd'
    obtain ⟨ndr, nda, disj⟩ := hnd'
    obtain ⟨a, hea, hna, hda⟩ := rt_members root ihr fs hwr ndr hokr hi.1
    obtain ⟨b, heb, hnb, hdb⟩ := rt_members adds iha fs hwa nda hoka hi.2
    refine ⟨.elem nm [] (a ++ b), by simp only [enc, hea, heb], ?_, fun _ => rfl⟩
    have h1 : decMembers root (a ++ b) = .ok (canonMembersV root fs) := by
      have := hda [] b (by simp) (fun y hy hm => disj _ hm _ (hnb y hy) rfl)
      simpa using this
    have h2 : decMembers adds (a ++ b) = .ok (canonMembersV adds fs) := by
      have := hdb a [] (fun y hy hm => disj _ (hna y hy) _ hm rfl) (by simp)
      simpa using this
    simp only [dec, XmlT.kids, h1, h2, canonV]

/-! ### SEQUENCE OF -/

theorem rt_list (e : Ty) (ih : RT e) (hwf : e.wf = true) (vs : List Val)
    (hty : ∀ v ∈ vs, hasType e v = true) (hint : ∀ v ∈ vs, intsOk e v = true) :
    ∃ xs, vs.mapM (enc e true (typeName e)) = .ok xs ∧
      xs.mapM (dec e true) = .ok (vs.map (canonV e)) := by
  induction vs with
  | nil => exact ⟨[], rfl, rfl⟩
  | cons v r ihr =>
    obtain ⟨x, hex, hdx, _⟩ := ih true (typeName e) v hwf (hty v (List.mem_cons_self ..))
      (hint v (List.mem_cons_self ..))
    obtain ⟨xs, hexs, hdxs⟩ := ihr (fun w hw => hty w (List.mem_cons_of_mem _ hw))
      (fun w hw => hint w (List.mem_cons_of_mem _ hw))
    refine ⟨x :: xs, ?_, ?_⟩
    · simp [List.mapM_cons, hex, hexs, bind, Except.bind, pure, Except.pure]
    · simp [List.mapM_cons, hdx, hdxs, bind, Except.bind, pure, Except.pure]

theorem rt_sequenceOf (e : Ty) (c : SizeC) (ih : RT e) : RT (.sequenceOf e c) := by
  intro inList nm v hwf ht hi
  cases v <;> simp only [hasType, Bool.false_eq_true] at ht
  case list vs =>
    simp only [Ty.wf, Bool.and_eq_true] at hwf
    simp only [Bool.and_eq_true, List.all_eq_true] at ht
    simp only [intsOk, List.all_eq_true] at hi
    obtain ⟨xs, hexs, hdxs⟩ := rt_list e ih hwf.1 vs ht.1 hi
    refine ⟨.elem nm [] xs, by simp only [enc, hexs], ?_, fun _ => rfl⟩
    simp only [dec, XmlT.kids, hdxs, canonV]

/-! ### CHOICE -/

theorem rt_alts_absent (as : Alts) (n : String) (v : Val) (h : n ∉ as.names) :
    encAlt as n v = none ∧ (∀ x, decAlt as n x = none) ∧ canonAltV as n v = none ∧
      hasAlt as n v = false := by
  induction as using Alts.ind with
  | nil => exact ⟨rfl, fun _ => rfl, rfl, rfl⟩
  | cons m t rest ih =>
    simp only [Alts.names, List.mem_cons, not_or] at h
    have hb : (m == n) = false := by simpa using fun e => h.1 e.symm
    obtain ⟨h1, h2, h3, h4⟩ := ih h.2
    refine ⟨by simp only [encAlt, hb, Bool.false_eq_true, if_false, h1],
      fun x => by simp only [decAlt, hb, Bool.false_eq_true, if_false, h2 x],
      by simp only [canonAltV, hb, Bool.false_eq_true, if_false, h3],
      by simp only [hasAlt, hb, Bool.false_eq_true, if_false, h4]⟩

theorem rt_alts (as : Alts) (hall : Alts.AllO RT as) (hwf : as.wf = true) (n : String) (v : Val)
    (ht : hasAlt as n v = true) (hi : intsOkAlt as n v = true) :
    ∃ x w, encAlt as n v = some (.ok x) ∧ x.name = n ∧ decAlt as n x = some (.ok w) ∧
      canonAltV as n v = some w := by
  induction as using Alts.ind with
  | nil => simp [hasAlt] at ht
  | cons m t rest ih =>
    simp only [Alts.wf, Bool.and_eq_true] at hwf
    by_cases hm : m = n
    · subst hm
      simp only [hasAlt, intsOkAlt, beq_self_eq_true, if_true] at ht hi
      obtain ⟨x, hex, hdx, hnx⟩ := hall.1 false m v hwf.1 ht hi
      exact ⟨x, canonV t v, by simp only [encAlt, beq_self_eq_true, if_true, hex], hnx rfl,
        by simp only [decAlt, beq_self_eq_true, if_true, hdx],
        by simp only [canonAltV, beq_self_eq_true, if_true]⟩
    · have hb : (m == n) = false := by simpa using hm
      simp only [hasAlt, intsOkAlt, hb, Bool.false_eq_true, if_false] at ht hi
      obtain ⟨x, w, h1, h2, h3, h4⟩ := ih hall.2 hwf.2 ht hi
      exact ⟨x, w, by simp only [encAlt, hb, Bool.false_eq_true, if_false, h1], h2,
        by simp only [decAlt, hb, Bool.false_eq_true, if_false, h3],
        by simp only [canonAltV, hb, Bool.false_eq_true, if_false, h4]⟩

theorem hasAlt_mem (as : Alts) (n : String) (v : Val) (h : hasAlt as n v = true) : n ∈ as.names := by
  apply Classical.byContradiction
  intro hn
  rw [(rt_alts_absent as n v hn).2.2.2] at h
  cases h

theorem rt_choice (root : Alts) (ext : Bool) (adds : Alts)
    (ihr : Alts.AllO RT root) (iha : Alts.AllO RT adds) : RT (.choice root ext adds) := by
  intro inList nm v hwf ht hi
  cases v <;> simp only [hasType, Bool.false_eq_true] at ht
  case choice n v =>
    simp only [Ty.wf, Bool.and_eq_true, decide_eq_true_eq] at hwf
    obtain ⟨⟨⟨⟨hwr, hwa⟩, _⟩, hnd⟩, _⟩ := hwf
    have hnd' : (root.names ++ adds.names).Nodup := by simpa using hnd
    rw [List.nodup_append] at hnd'
    obtain ⟨_, _, disj⟩ := hnd'
    simp only [intsOk, Bool.and_eq_true] at hi
    simp only [Bool.or_eq_true] at ht
    by_cases hr : hasAlt root n v = true
    · obtain ⟨x, w, h1, h2, h3, h4⟩ := rt_alts root ihr hwr n v hr hi.1
      cases inList
      · refine ⟨.elem nm [] [x], by simp only [enc, h1, Bool.false_eq_true, if_false], ?_, fun _ => rfl⟩
        simp only [dec, XmlT.kids, Bool.false_eq_true, if_false, h2, h3, canonV, h4]
      · refine ⟨x, by simp only [enc, h1, if_true], ?_, fun h => by cases h⟩
        simp only [dec, if_true, h2, h3, canonV, h4]
    · have ha : hasAlt adds n v = true := by
        rcases ht with h | h
        · exact absurd h hr
        · exact h
      have hnr : n ∉ root.names := fun hm => disj _ hm _ (hasAlt_mem adds n v ha) rfl
      obtain ⟨e1, e2, e3, _⟩ := rt_alts_absent root n v hnr
      obtain ⟨x, w, h1, h2, h3, h4⟩ := rt_alts adds iha hwa n v ha hi.2
      cases inList
      · refine ⟨.elem nm [] [x], by simp only [enc, e1, h1, Bool.false_eq_true, if_false], ?_, fun _ => rfl⟩
        simp only [dec, XmlT.kids, Bool.false_eq_true, if_false, h2, e2, h3, canonV, e3, h4]
      · refine ⟨x, by simp only [enc, e1, h1, if_true], ?_, fun h => by cases h⟩
        simp only [dec, if_true, h2, e2, h3, canonV, e3, h4]

/-! ### all types -/

theorem rt_all (t : Ty) : RT t :=
  Ty.rec (motive_1 := RT) (motive_2 := Members.AllO RT) (motive_3 := Alts.AllO RT)
    rt_boolean rt_null rt_integer rt_enumerated rt_octetString rt_bitString rt_charString
    (fun root ext adds ihr iha => rt_sequence root ext adds ihr iha)
    (fun e c ih => rt_sequenceOf e c ih)
    (fun root ext adds ihr iha => rt_choice root ext adds ihr iha)
    trivial (fun _ _ _ _ iht ihr => ⟨iht, ihr⟩)
    trivial (fun _ _ _ iht ihr => ⟨iht, ihr⟩) t

end Asn1.Xer
