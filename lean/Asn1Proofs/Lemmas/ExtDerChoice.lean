import Asn1Proofs.Lemmas.ExtDerBase
/-
  C07, DER: CHOICE.  The alternative is selected by its identifier octets; an alternative the
  decoder does not know is stepped over with `skipTLV` and reported as `.choice "" .absent`.
-/
set_option linter.unusedSimpArgs false
set_option linter.unusedVariables false
namespace Asn1.Ext.DerX
open Asn1 Asn1.Der Asn1.Ext
open Asn1.X690 (defaultsOkV altsDefaultsOkV)

/-! ### `viewAlt` along paired alternative lists -/

theorem viewAlt_nil (asE : Alts) (name : String) (v : Val) : viewAlt true .nil asE name v = none := by
  cases asE <;> rw [viewAlt] <;> (intros; contradiction)

theorem viewAlt_cons_nil (n : String) (t : Ty) (r : Alts) (name : String) (v : Val) :
    viewAlt true (.cons n t r) .nil name v = none := by
  rw [viewAlt]; intros; contradiction

theorem dOkAlts_cons_cons (n : String) (tD : Ty) (mD : Alts) (n' : String) (tE : Ty) (mE : Alts) :
    dOkAlts true (.cons n tD mD) (.cons n' tE mE) = (dOk true tD tE ∧ dOkAlts true mD mE) := by
  rw [dOkAlts]

/-- the encoder's alternative `name` is number `j` of `asE` -/
theorem pairA_find (name : String) (v : Val) (asD : Alts) : ∀ (asE : Alts) (j : Nat) (tE : Ty),
    PairA XC asD asE → dOkAlts true asD asE → asE.findO name = some (j, tE) →
    (j < asD.length → ∃ tD, asD.findO name = some (j, tD) ∧ XC tD tE ∧ dOk true tD tE ∧
        viewAlt true asD asE name v = some (view true tD tE v)) ∧
    (asD.length ≤ j → viewAlt true asD asE name v = none) := by
  induction asD using Alts.ind with
  | nil =>
    intro asE j tE _ _ _
    exact ⟨fun h => by simp [Alts.length] at h, fun _ => viewAlt_nil _ _ _⟩
  | cons n tD mD ih =>
    intro asE j tE hp hdk hf
    cases asE with
    | nil => simp [Alts.findO] at hf
    | cons n' tE' mE =>
      obtain ⟨hn, hx, hp'⟩ := hp
      subst hn
      rw [dOkAlts_cons_cons] at hdk
      simp only [Alts.findO] at hf ⊢
      rw [viewAlt]
      by_cases hnn : (n' == name) = true
      · simp only [hnn, if_true, Option.some.injEq, Prod.mk.injEq] at hf ⊢
        obtain ⟨hj, ht⟩ := hf
        subst hj
        subst ht
        exact ⟨fun _ => ⟨tD, ⟨rfl, rfl⟩, hx, hdk.1, rfl⟩, fun h => by simp [Alts.length] at h⟩
      · simp only [hnn, if_false, Bool.false_eq_true, Option.map_eq_some_iff, Prod.mk.injEq] at hf ⊢
        obtain ⟨⟨j', t'⟩, h1, h2, h3⟩ := hf
        dsimp only at h2 h3
        subst h2
        subst h3
        obtain ⟨ih1, ih2⟩ := ih mE j' t' hp' hdk.2 h1
        constructor
        · intro hlt
          simp only [Alts.length] at hlt
          obtain ⟨tD', e1, e2, e3, e4⟩ := ih1 (by omega)
          exact ⟨tD', ⟨(j', tD'), e1, rfl, rfl⟩, e2, e3, e4⟩
        · intro hle
          simp only [Alts.length] at hle
          exact ih2 (by omega)

theorem pairA_find_none (name : String) (v : Val) (asD : Alts) : ∀ (asE : Alts),
    PairA XC asD asE → asE.findO name = none → viewAlt true asD asE name v = none := by
  induction asD using Alts.ind with
  | nil => intro asE _ _; exact viewAlt_nil _ _ _
  | cons n tD mD ih =>
    intro asE hp hf
    cases asE with
    | nil => exact viewAlt_cons_nil _ _ _ _ _
    | cons n' tE' mE =>
      obtain ⟨hn, hx, hp'⟩ := hp
      subst hn
      simp only [Alts.findO] at hf
      rw [viewAlt]
      by_cases hnn : (n' == name) = true
      · simp [hnn] at hf
      · simp only [hnn, if_false, Bool.false_eq_true, Option.map_eq_none_iff] at hf ⊢
        exact ih mE hp' hf

/-! ### the bare CHOICE of the decoder's version read back -/

theorem gBare_rootX (root : Alts) (ext : Bool) (adds : Alts) (name : String) (j : Nat) (t : Ty)
    (hf : root.findO name = some (j, t)) (w : Val) (body rest : Bytes) (fuel : Nat)
    (hst : ∃ r, body = tagOf t (some j) ++ r ∧ r ≠ [])
    (hdec : dec t (some j) fuel (body ++ rest) = .ok (some (w, body.length, rest))) :
    gBare dec derTest root ext adds fuel (body ++ rest)
      = .ok (some (.choice name w, body.length, rest)) := by
  obtain ⟨r, hr, hrne⟩ := hst
  have htag : readTag (body ++ rest) = .ok (tagOf t (some j), r ++ rest) := by
    rw [hr, List.append_assoc]
    exact readTag_mkTag_ctx _ _ _ _ (by simp [hrne])
  have hg := gAlt_find der_isCodec root name j t hf 0 fuel (body ++ rest)
  rw [Nat.zero_add] at hg
  rw [gBare, htag]
  simp only []
  rw [hg, hdec]

theorem gBare_addsX (root : Alts) (ext : Bool) (adds : Alts) (name : String) (j : Nat) (t : Ty)
    (hf : adds.findO name = some (j, t)) (w : Val) (body rest : Bytes) (fuel : Nat)
    (hst : ∃ r, body = tagOf t (some (root.length + j)) ++ r ∧ r ≠ [])
    (hdec : dec t (some (root.length + j)) fuel (body ++ rest) = .ok (some (w, body.length, rest))) :
    gBare dec derTest root ext adds fuel (body ++ rest)
      = .ok (some (.choice name w, body.length, rest)) := by
  obtain ⟨r, hr, hrne⟩ := hst
  have htag : readTag (body ++ rest) = .ok (tagOf t (some (root.length + j)), r ++ rest) := by
    rw [hr, List.append_assoc]
    exact readTag_mkTag_ctx _ _ _ _ (by simp [hrne])
  have hn : gAlt dec derTest root 0 (tagOf t (some (root.length + j))) fuel (body ++ rest) = none :=
    gAlt_none der_isCodec root _ _ _ 0 fuel _ (by omega)
  have hg := gAlt_find der_isCodec adds name j t hf root.length fuel (body ++ rest)
  rw [gBare, htag]
  simp only []
  rw [hn]
  simp only []
  rw [hg, hdec]

/-- an alternative beyond all those the decoder knows, in an extensible CHOICE -/
theorem gBare_unknown (root adds : Alts) (u : Nat) (c : Bool) (idx : Nat) (content rest : Bytes) (fuel : Nat)
    (h : root.length + adds.length ≤ idx) :
    gBare dec derTest root true adds fuel (tlv (mkTag u c (some idx)) content ++ rest)
      = .ok (some (.choice "" .absent, (tlv (mkTag u c (some idx)) content).length, rest)) := by
  have htag : readTag (tlv (mkTag u c (some idx)) content ++ rest)
      = .ok (mkTag u c (some idx), Ber.encLength content.length ++ (content ++ rest)) := by
    rw [tlv_append]
    exact readTag_mkTag_ctx _ _ _ _ (by simp [encLength_ne_nil_rt])
  have hn1 : gAlt dec derTest root 0 (mkTag u c (some idx)) fuel (tlv (mkTag u c (some idx)) content ++ rest) = none :=
    gAlt_none der_isCodec root _ _ _ 0 fuel _ (by omega)
  have hn2 : gAlt dec derTest adds root.length (mkTag u c (some idx)) fuel
      (tlv (mkTag u c (some idx)) content ++ rest) = none :=
    gAlt_none der_isCodec adds _ _ _ root.length fuel _ (by omega)
  rw [gBare, htag]
  simp only []
  rw [hn1]
  simp only []
  rw [hn2]
  simp only [if_true, skipTLV_tlv]

/-! ### CHOICE -/

theorem xt_choice (rD rE aD aE : Alts) (x : Bool)
    (hr : PairA XC rD rE) (hrl : rD.length = rE.length) (ha : PairA XC aD aE) :
    XTd (.choice rD x aD) (.choice rE x aE) := by
  intro tg v bytes rest fuel hwf hwf2 hd hdk ht he hfuel
  cases v <;> try (simp only [hasType, Bool.false_eq_true] at ht; done)
  rename_i name v
  simp only [hasType] at ht
  simp only [Ty.wf, Bool.and_eq_true, decide_eq_true_eq] at hwf
  obtain ⟨⟨⟨⟨hwr, hwa⟩, _⟩, hnd⟩, hxa⟩ := hwf
  simp only [Oer.oerWf, Bool.and_eq_true] at hwf2
  simp only [X690.defaultsOkV, Bool.and_eq_true] at hd
  rw [dOk] at hdk
  rw [view]
  simp only [enc] at he
  rw [encAlt_find, encAlt_find] at he
  rw [der_isCodec.choice]
  rcases Oer.choice_typed hnd ht with ⟨j, t, hf, hty⟩ | ⟨hf, j, t, hfa, hty⟩
  · -- alternative of the extension root
    simp only [hf, Option.map_some, Nat.zero_add] at he
    have hwt := find_all_oer name rE j t hf (alts_all_wf_oer rE hwr)
    have hwt2 := find_all_oer name rE j t hf (Oer.alts_all_oerWf rE hwf2.1)
    have hdt := find_all_oer name rE j t hf (alts_all_defaultsOkV rE hd.1)
    have hjlt : j < rD.length := by rw [hrl]; exact find_lt_oer name rE j t hf
    obtain ⟨tD, hfD, ⟨hxt, hcp⟩, hdkt, hview⟩ := (pairA_find name v rD rE j t hr hdk.1 hf).1 hjlt
    rw [hview]
    refine gChoice_of_bare rD x aD tg _ bytes rest fuel _ he ?_
    intro body hbody hle rest'
    refine gBare_rootX rD x aD name j tD hfD _ body rest' fuel ?_
      (hxt (some j) v body rest' fuel hwt hwt2 hdt hdkt hty hbody (by omega))
    rw [compat_tagOf hcp]
    exact enc_starts hbody
  · -- alternative among the extension additions
    simp only [hf, hfa, Option.map_some, Option.map_none] at he
    have hwt := find_all_oer name aE j t hfa (alts_all_wf_oer aE hwa)
    have hwt2 := find_all_oer name aE j t hfa (Oer.alts_all_oerWf aE hwf2.2)
    have hdt := find_all_oer name aE j t hfa (alts_all_defaultsOkV aE hd.2)
    rw [pairA_find_none name v rD rE hr hf]
    by_cases hjlt : j < aD.length
    · -- known to the decoder
      obtain ⟨tD, hfD, ⟨hxt, hcp⟩, hdkt, hview⟩ := (pairA_find name v aD aE j t ha hdk.2 hfa).1 hjlt
      simp only [hview]
      refine gChoice_of_bare rD x aD tg _ bytes rest fuel _ he ?_
      intro body hbody hle rest'
      rw [← hrl] at hbody
      refine gBare_addsX rD x aD name j tD hfD _ body rest' fuel ?_
        (hxt (some (rD.length + j)) v body rest' fuel hwt hwt2 hdt hdkt hty hbody (by omega))
      rw [compat_tagOf hcp]
      exact enc_starts hbody
    · -- unknown to the decoder
      have hview := (pairA_find name v aD aE j t ha hdk.2 hfa).2 (by omega)
      simp only [hview]
      have hx : x = true := by
        have hpos : 0 < aE.length := by
          have := find_lt_oer name aE j t hfa
          omega
        cases x with
        | true => rfl
        | false =>
          simp only [Bool.false_or, beq_iff_eq] at hxa
          omega
      subst hx
      refine gChoice_of_bare rD true aD tg _ bytes rest fuel _ he ?_
      intro body hbody hle rest'
      obtain ⟨content, hc⟩ := enc_tlv hbody
      subst hc
      exact gBare_unknown rD aD _ _ (rE.length + j) content rest' fuel (by omega)

end Asn1.Ext.DerX
