import Asn1Proofs.Lemmas.PrefixPerTypes
/-
  C16 for the ALIGNED PER model, top level: every strict byte prefix of a valid encoding is rejected
  with `decodeError` ("exact consumption + extension stability": `Per.roundtrip_partial` says the
  decoder consumes exactly the encoding, `Per.dec_prefix` says that success on a prefix would be
  success with the same consumption on the whole).

  Also: the octet-boundary hypothesis of the bit-level statements is necessary, and so is
  `Per.fragFree` for the byte-level theorem (machine-checked inputs).
-/
set_option linter.unusedSimpArgs false
namespace Asn1.Per
open Asn1.Uper (padToByte lenDet)

/-- bit-level form: the encoder wrote `bits` at position `pos`; a strict prefix `q` of `bits` that
ends at an octet boundary of the message (and is followed by nothing) is rejected with
`decodeError`, whatever fuel (larger than the prefix) the decoder gets -/
theorem truncated_bits (t : Ty) (v : Val) (pos : Nat) (bits q x : Bits) (f' : Nat)
    (hwf : t.wf = true) (hd : t.defaultsOk = true) (ht : hasType t v = true)
    (hf : fragFree t v = true) (hns : t.nsOk = true) (he : enc t pos v = .ok bits)
    (hq : bits = q ++ x) (hx : x ≠ []) (hal : (pos + q.length) % 8 = 0) (hfuel : q.length < f') :
    dec t f' ⟨pos, q⟩ = .error .decodeError := by
  have hrt := roundtrip_partial t v pos bits [] (bits.length + 2) hwf hd ht hf hns he (by simp)
  rw [List.append_nil, hq] at hrt
  rcases dec_prefix t _ f' pos q x _ _ hal hfuel hrt with ⟨r', _, h2, _⟩ | h1
  · have := congrArg List.length h2
    simp only [List.length_append, List.length_nil] at this
    have : x.length = 0 := by omega
    exact absurd (List.eq_nil_of_length_eq_zero this) hx
  · exact h1

/-- **C16, aligned PER.**  Every strict byte prefix of the encoding of a well-typed value is
rejected by the decoder with the library's decode error. -/
theorem truncated (t : Ty) (v : Val) (bytes : Bytes) (k : Nat)
    (hwf : t.wf = true) (hd : t.defaultsOk = true) (ht : hasType t v = true)
    (hf : fragFree t v = true) (hns : t.nsOk = true)
    (he : encode t v = .ok bytes) (hk : k < bytes.length) :
    decode t (bytes.take k) = .error .decodeError := by
  obtain ⟨bits, hb, hE⟩ := encode_total t v hwf ht
  rw [hE] at he
  cases he
  have hpad : bytesToBits (packBits bits)
      = bits ++ List.replicate (8 * ((bits.length + 7) / 8) - bits.length) false := by
    rw [X691.bytesToBits_packBits, Uper.padToByte_eq]
  generalize List.replicate (8 * ((bits.length + 7) / 8) - bits.length) false = pad at hpad
  have hlen : 8 * (packBits bits).length = bits.length + pad.length := by
    have := congrArg List.length hpad
    simpa only [bytesToBits_length, List.length_append] using this
  have hlen' : (packBits bits).length = (bits.length + 7) / 8 := by
    rw [X691.packBits_length, Uper.padToByte_length_div]
  have hsplit : bytesToBits ((packBits bits).take k) ++ bytesToBits ((packBits bits).drop k)
      = bits ++ pad := by
    rw [← bytesToBits_append, List.take_append_drop, hpad]
  have hrt := roundtrip_partial t v 0 bits pad (bits.length + pad.length + 2) hwf hd ht hf hns hb
    (Nat.le_refl _)
  rw [← hsplit] at hrt
  have hql : (bytesToBits ((packBits bits).take k)).length = 8 * ((packBits bits).take k).length :=
    bytesToBits_length _
  unfold decode
  rcases dec_prefix t _ (8 * ((packBits bits).take k).length + 2) 0 _ _ _ _ (by rw [hql]; omega)
      (by rw [hql]; omega) hrt with ⟨r', _, h2, _⟩ | h1
  · exfalso
    have := congrArg List.length h2
    simp only [List.length_append, bytesToBits_length, List.length_drop] at this
    omega
  · rw [h1]; rfl

/-! ### the octet-boundary hypothesis of the bit-level statements is necessary

`OCTET STRING (SIZE(0..5))`, empty value: three bits of length, then `align_always`, then no
contents; the encoding is one zero octet.  Cut after four BITS, the decoder reads the length,
"aligns" by dropping the one bit that is left, and returns the value: a strict bit prefix that is
accepted.  And the remaining input is not stable under extension: with more bits behind the cut,
`align` eats four of them.  (No such cut exists at byte granularity, which is all the library can
be given: `Per.truncated`.) -/

def cxaTy : Ty := .octetString ⟨0, some 5, false⟩
def cxaBits : Bits := List.replicate 8 false

theorem truncated_bits_unaligned_counterexample :
    cxaTy.wf = true ∧ cxaTy.defaultsOk = true ∧ hasType cxaTy (.bytes []) = true ∧
    fragFree cxaTy (.bytes []) = true ∧ cxaTy.nsOk = true ∧
    enc cxaTy 0 (.bytes []) = .ok cxaBits ∧
    cxaBits = List.replicate 4 false ++ List.replicate 4 false ∧
    dec cxaTy 6 ⟨0, List.replicate 4 false⟩ = .ok (.bytes [], ⟨8, []⟩) := by
  refine ⟨by decide, by decide, by decide, by decide, by decide, ?_, rfl, ?_⟩ <;> rfl

/-- `dec_prefix` without `(pos + q.length) % 8 = 0`: the value is the same, but the remaining input
on `q ++ x` is not (remaining input on `q`) `++ x` -/
theorem dec_prefix_unaligned_counterexample :
    ∃ (q x : Bits) (r : St), dec cxaTy 20 ⟨0, q ++ x⟩ = .ok (.bytes [], r) ∧
      (∀ f', ∃ r', dec cxaTy (f' + 1) ⟨0, q⟩ = .ok (.bytes [], ⟨r.pos, r'⟩) ∧ r.bs ≠ r' ++ x) := by
  refine ⟨List.replicate 4 false, List.replicate 4 false ++ [true], ⟨8, [true]⟩, rfl, ?_⟩
  intro f'
  exact ⟨[], rfl, by decide⟩

end Asn1.Per

#print axioms Asn1.Per.dec_prefix
#print axioms Asn1.Per.truncated_bits
#print axioms Asn1.Per.truncated
#print axioms Asn1.Per.truncated_bits_unaligned_counterexample
#print axioms Asn1.Per.dec_prefix_unaligned_counterexample
