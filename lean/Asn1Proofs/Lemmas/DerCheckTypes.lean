import Asn1Proofs.Lemmas.DerCounterexample
/-
  The model of the library's type checker (`Der.checkTypes`, run by `Specification.encode` before
  the codec is entered) accepts every value that `hasType` accepts; hence `Der.encode` and
  `BerCodec.encode` are total on well-typed values of well-formed types.
-/
namespace Asn1.Der

/-- `checkTypes` accepts what `hasType` accepts (per type; the induction predicate) -/
def CT (t : Ty) : Prop := ∀ v, t.wf = true → hasType t v = true → checkTypes t v = true

theorem checkMembers_cons (name : String) (p : Presence) (t : Ty) (rest : Members)
    (fs : List (String × Val)) :
    checkMembers (.cons name p t rest) fs =
      ((match lookup name fs with
        | some v => checkTypes t v
        | none => true) && checkMembers rest fs) := by
  cases p <;> rw [checkMembers] <;> first | rfl | (intros; contradiction)

theorem checkAlt_find (as : Alts) (name : String) (v : Val) :
    checkAlt as name v = (as.findO name).map (fun x => checkTypes x.2 v) := by
  induction as using Alts.ind with
  | nil => simp [checkAlt, Alts.findO]
  | cons n t rest ih =>
    simp only [checkAlt, Alts.findO]
    split
    · rfl
    · rw [ih]
      cases rest.findO name <;> rfl

theorem checkMembers_of_membersOk (fs : List (String × Val)) (ms : Members)
    (hall : ms.AllO CT) (hwf : ms.wf = true) (hok : membersOk ms fs = true) :
    checkMembers ms fs = true := by
  induction ms using Members.ind with
  | nil => rw [checkMembers]
  | cons name p t rest ih =>
    rw [checkMembers_cons]
    rw [membersOk_cons] at hok
    simp only [Members.wf, Bool.and_eq_true] at hwf
    simp only [Bool.and_eq_true] at hok ⊢
    refine ⟨?_, ih hall.2 hwf.2 hok.2⟩
    have h1 := hok.1
    cases hl : lookup name fs with
    | none => rfl
    | some v =>
      simp only [hl] at h1
      exact hall.1 v hwf.1 h1

theorem ct_boolean : CT .boolean := by
  intro v _ ht
  cases v <;> first | rfl | (simp only [hasType, Bool.false_eq_true] at ht)

theorem ct_null : CT .null := by
  intro v _ ht
  cases v <;> first | rfl | (simp only [hasType, Bool.false_eq_true] at ht)

theorem ct_integer (c : IntC) : CT (.integer c) := by
  intro v _ ht
  cases v <;> first | rfl | (simp only [hasType, Bool.false_eq_true] at ht)

theorem ct_enumerated (root : List (String × Int)) (ext : Option (List (String × Int))) :
    CT (.enumerated root ext) := by
  intro v _ ht
  cases v <;> first | rfl | (simp only [hasType, Bool.false_eq_true] at ht)

theorem ct_octetString (c : SizeC) : CT (.octetString c) := by
  intro v _ ht
  cases v <;> first | rfl | (simp only [hasType, Bool.false_eq_true] at ht)

theorem ct_charString (k : StrKind) (c : SizeC) : CT (.charString k c) := by
  intro v _ ht
  cases v <;> first | rfl | (simp only [hasType, Bool.false_eq_true] at ht)

theorem ct_bitString (c : SizeC) : CT (.bitString c) := by
  intro v _ ht
  cases v <;> try (simp only [hasType, Bool.false_eq_true] at ht; done)
  rename_i data n
  simp only [hasType, Bool.and_eq_true, decide_eq_true_eq] at ht
  simp only [checkTypes, decide_eq_true_eq]
  have := ht.1.2
  omega

theorem ct_sequence (root : Members) (ext : Bool) (adds : Members)
    (ihr : root.AllO CT) (iha : adds.AllO CT) : CT (.sequence root ext adds) := by
  intro v hwf ht
  cases v <;> try (simp only [hasType, Bool.false_eq_true] at ht; done)
  rename_i fs
  simp only [Ty.wf, Bool.and_eq_true, decide_eq_true_eq] at hwf
  obtain ⟨⟨⟨⟨hwr, hwa⟩, hnd⟩, _⟩, _⟩ := hwf
  have hnd' : (root.names ++ adds.names).Nodup := by simpa using hnd
  obtain ⟨hokr, hoka⟩ := membersOk_of_hasType root adds ext fs hnd' ht
  rw [checkTypes, checkMembers_of_membersOk fs root ihr hwr hokr,
    checkMembers_of_membersOk fs adds iha hwa hoka]
  rfl

theorem ct_sequenceOf (e : Ty) (c : SizeC) (ih : CT e) : CT (.sequenceOf e c) := by
  intro v hwf ht
  cases v <;> try (simp only [hasType, Bool.false_eq_true] at ht; done)
  rename_i vs
  simp only [hasType, Bool.and_eq_true, List.all_eq_true] at ht
  simp only [Ty.wf, Bool.and_eq_true] at hwf
  simp only [checkTypes, List.all_eq_true]
  exact fun x hx => ih x hwf.1 (ht.1 x hx)

theorem ct_choice (root : Alts) (ext : Bool) (adds : Alts)
    (ihr : root.AllO CT) (iha : adds.AllO CT) : CT (.choice root ext adds) := by
  intro v hwf ht
  cases v <;> try (simp only [hasType, Bool.false_eq_true] at ht; done)
  rename_i name v
  simp only [hasType] at ht
  simp only [Ty.wf, Bool.and_eq_true, decide_eq_true_eq] at hwf
  obtain ⟨⟨⟨⟨hwr, hwa⟩, _⟩, hnd⟩, _⟩ := hwf
  have hnd' : (root.names ++ adds.names).Nodup := by simpa using hnd
  simp only [checkTypes]
  rw [checkAlt_find, checkAlt_find]
  rcases Oer.choice_typed hnd' ht with ⟨j, t, hf, hty⟩ | ⟨hf, j, t, hfa, hty⟩
  · simp only [hf, Option.map_some]
    exact find_all_oer name root j t hf ihr v
      (find_all_oer name root j t hf (alts_all_wf_oer root hwr)) hty
  · simp only [hf, hfa, Option.map_some, Option.map_none, Option.getD_some]
    exact find_all_oer name adds j t hfa iha v
      (find_all_oer name adds j t hfa (alts_all_wf_oer adds hwa)) hty

theorem ct_all (t : Ty) : CT t :=
  Ty.rec (motive_1 := CT) (motive_2 := Members.AllO CT) (motive_3 := Alts.AllO CT)
    ct_boolean ct_null ct_integer ct_enumerated ct_octetString ct_bitString ct_charString
    (fun root ext adds ihr iha => ct_sequence root ext adds ihr iha)
    (fun e c ih => ct_sequenceOf e c ih)
    (fun root ext adds ihr iha => ct_choice root ext adds ihr iha)
    trivial (fun _ _ _ _ iht ihr => ⟨iht, ihr⟩)
    trivial (fun _ _ _ iht ihr => ⟨iht, ihr⟩) t

/-- values accepted by `hasType` pass the model of the library's type checker -/
theorem checkTypes_of_hasType (t : Ty) (v : Val) (hwf : t.wf = true) (ht : hasType t v = true) :
    checkTypes t v = true :=
  ct_all t v hwf ht

/-- every well-typed value of a well-formed type is encoded (DER and BER) -/
theorem encode_total (t : Ty) (v : Val) (hwf : t.wf = true) (ht : hasType t v = true) :
    ∃ bytes, encode t v = .ok bytes := by
  unfold encode
  rw [checkTypes_of_hasType t v hwf ht, if_pos rfl]
  exact enc_total t none v hwf ht

theorem encode_total_ber (t : Ty) (v : Val) (hwf : t.wf = true) (ht : hasType t v = true) :
    ∃ bytes, BerCodec.encode t v = .ok bytes :=
  encode_total t v hwf ht

end Asn1.Der

#print axioms Asn1.Der.checkTypes_of_hasType
#print axioms Asn1.Der.encode_total_ber
#print axioms Asn1.Der.encode_total
