import Asn1Proofs.Lemmas.CostDer
/-
  C08 for the BER model, part 1: the loops that are new in BER, `BerCodec.items` (definite or
  indefinite length) and `BerCodec.pcDecode` (primitive-or-constructed strings): allocation bound and
  fuel independence.
-/
set_option linter.unusedSimpArgs false
set_option linter.unusedVariables false
namespace Asn1.Cost
open Asn1.Der
open Asn1.Uper (Err)
open Asn1.Oer (splitAux readBytes decodeStr)

/-- total size of a list of items -/
def sumSize {α : Type} (size : α → Nat) : List α → Nat
  | [] => 0
  | a :: as => size a + sumSize size as

theorem nodesList_eq_sumSize (vs : List Val) : Val.nodesList vs = sumSize Val.nodes vs := by
  induction vs with
  | nil => rfl
  | cons v r ih => simp only [Val.nodesList, sumSize, ih]

/-! ### the item loop -/

/-- allocation bound of the item loop: if every item costs at most `K` per octet it consumes (and
consumes at least one octet), so does the whole loop -/
theorem items_cost {α : Type} (size : α → Nat) {K : Nat} {p : Bytes → DecM (Option (α × Nat × Bytes))}
    (hp : ∀ bs a k r, p bs = .ok (some (a, k, r)) →
      r.length < bs.length ∧ size a ≤ K * (bs.length - r.length)) :
    ∀ (fuel : Nat) (toEnd : Option Nat) (bs : Bytes) (as : List α) (k : Nat) (r : Bytes),
      BerCodec.items p fuel toEnd bs = .ok (as, k, r) →
      r.length ≤ bs.length ∧ sumSize size as ≤ K * (bs.length - r.length) := by
  intro fuel
  induction fuel with
  | zero => intro toEnd bs as k r h; simp [BerCodec.items] at h
  | succ f ih =>
    intro toEnd bs as k r h
    have step : ∀ (te : Option Nat),
        (match p bs with
          | .error e => .error e
          | .ok none => .error .decodeError
          | .ok (some (a, k, r)) =>
            match BerCodec.items p f (te.map (· - k)) r with
            | .error e => .error e
            | .ok (as, k', r') => .ok (a :: as, k + k', r')) = Except.ok (as, k, r) →
        r.length ≤ bs.length ∧ sumSize size as ≤ K * (bs.length - r.length) := by
      intro te h
      split at h
      · cases h
      · cases h
      · rename_i a k1 r1 hp1
        split at h
        · cases h
        · rename_i as' k' r' hrec
          cases h
          obtain ⟨a1, a3⟩ := hp _ _ _ _ hp1
          obtain ⟨b1, b2⟩ := ih _ _ _ _ _ hrec
          refine ⟨by omega, ?_⟩
          simp only [sumSize]
          exact mul_split a3 b2 (by omega)
    cases toEnd with
    | some n =>
      simp only [BerCodec.items] at h
      by_cases hn : (n == 0) = true
      · simp only [hn] at h
        cases h
        simp [sumSize]
      · simp only [hn] at h
        exact step _ h
    | none =>
      simp only [BerCodec.items] at h
      cases he : eoc bs with
      | error e => simp only [he] at h; cases h
      | ok b =>
        cases b with
        | true =>
          simp only [he] at h
          cases h
          simp [sumSize]
        | false =>
          simp only [he] at h
          exact step _ h

/-- fuel congruence of the item loop: two runs agree when the item parsers agree on every input no
longer than the current one and both fuels exceed the length of the input (every item consumes at
least one octet) -/
theorem items_congr {α : Type} {p p' : Bytes → DecM (Option (α × Nat × Bytes))}
    (hp : ∀ bs a k r, p bs = .ok (some (a, k, r)) → r.length < bs.length) :
    ∀ (f f' : Nat) (toEnd : Option Nat) (bs : Bytes), (∀ b : Bytes, b.length ≤ bs.length → p b = p' b) →
      bs.length < f → bs.length < f' → BerCodec.items p f toEnd bs = BerCodec.items p' f' toEnd bs := by
  intro f
  induction f with
  | zero => intro f' toEnd bs _ h; omega
  | succ f ih =>
    intro f' toEnd bs hag h1 h2
    cases f' with
    | zero => omega
    | succ f' =>
      have step : ∀ (te : Option Nat),
          ((match p bs with
            | .error e => .error e
            | .ok none => .error .decodeError
            | .ok (some (a, k, r)) =>
              match BerCodec.items p f (te.map (· - k)) r with
              | .error e => .error e
              | .ok (as, k', r') => .ok (a :: as, k + k', r')) : DecM (List α × Nat × Bytes)) =
          (match p' bs with
            | .error e => .error e
            | .ok none => .error .decodeError
            | .ok (some (a, k, r)) =>
              match BerCodec.items p' f' (te.map (· - k)) r with
              | .error e => .error e
              | .ok (as, k', r') => Except.ok (a :: as, k + k', r')) := by
        intro te
        rw [← hag bs (Nat.le_refl _)]
        cases hpb : p bs with
        | error e => rfl
        | ok o =>
          cases o with
          | none => rfl
          | some x =>
            obtain ⟨a, k, r⟩ := x
            dsimp only
            have a1 := hp _ _ _ _ hpb
            rw [ih f' (te.map (· - k)) r (fun b hb => hag b (by omega)) (by omega) (by omega)]
      cases toEnd with
      | some n =>
        simp only [BerCodec.items]
        by_cases hn : (n == 0) = true
        · simp only [hn]
        · simp only [hn]
          exact step _
      | none =>
        simp only [BerCodec.items]
        cases he : eoc bs with
        | error e => rfl
        | ok b =>
          cases b with
          | true => rfl
          | false => exact step _

/-! ### primitive-or-constructed strings -/

/-- allocation bound of `pcDecode`: the header takes at least two octets, and the value is no larger
than the octets that follow it, whatever the nesting of the segments -/
theorem pcDecode_cost {α : Type} (size : α → Nat) (prim : Bytes → Bytes → DecM α) (join : List α → α)
    (segTag segCtag : Bytes)
    (hprim : ∀ content rest a, prim content rest = .ok a → size a ≤ content.length)
    (hjoin : ∀ segs, size (join segs) ≤ sumSize size segs)
    (hseg : 1 ≤ segTag.length) :
    ∀ (fuel : Nat) (tag ctag bs : Bytes) (a : α) (k : Nat) (r : Bytes), 1 ≤ tag.length →
      BerCodec.pcDecode prim join segTag segCtag fuel tag ctag bs = .ok (some (a, k, r)) →
      r.length + 2 ≤ bs.length ∧ 1 ≤ k ∧ size a + 2 ≤ bs.length - r.length := by
  intro fuel
  induction fuel with
  | zero => intro tag ctag bs a k r _ h; simp [BerCodec.pcDecode] at h
  | succ f ih =>
    intro tag ctag bs a k r ht h
    rw [BerCodec.pcDecode] at h
    split at h
    · cases h
    · rename_i t r0 hs
      have s1 := (splitAux_len hs).1
      split at h
      · split at h
        · cases h
        · cases h
        · rename_i n hh r1 hl
          obtain ⟨l1, l2, _, _⟩ := readLen_spec hl
          split at h
          · cases h
          · rename_i content r2 hb
            obtain ⟨b1, b2⟩ := readBytes_len hb
            split at h
            · cases h
            · rename_i a' hpr
              cases h
              have := hprim _ _ _ hpr
              omega
      · split at h
        · split at h
          · cases h
          · rename_i len hh r1 hl
            obtain ⟨l1, l2, _, _⟩ := readLen_spec hl
            split at h
            · cases h
            · rename_i segs k' r2 hit
              cases h
              obtain ⟨i1, i2⟩ := items_cost size (K := 1) (fun b a k r hb => by
                  obtain ⟨c1, c2, c3⟩ := ih segTag segCtag b a k r hseg hb
                  exact ⟨by omega, by omega⟩) _ _ _ _ _ _ hit
              have := hjoin segs
              omega
        · cases h

/-- fuel independence of `pcDecode`: nested segments are at least two octets shorter -/
theorem pcDecode_fuel {α : Type} (prim : Bytes → Bytes → DecM α) (join : List α → α)
    (segTag segCtag : Bytes) (hseg : 1 ≤ segTag.length) :
    ∀ (f f' : Nat) (tag ctag bs : Bytes), bs.length < f → bs.length < f' →
      BerCodec.pcDecode prim join segTag segCtag f tag ctag bs
        = BerCodec.pcDecode prim join segTag segCtag f' tag ctag bs := by
  intro f
  induction f with
  | zero => intro f' tag ctag bs h; omega
  | succ f ih =>
    intro f' tag ctag bs h1 h2
    cases f' with
    | zero => omega
    | succ f' =>
      rw [BerCodec.pcDecode, BerCodec.pcDecode]
      cases hs : splitAux tag.length bs [] with
      | none => rfl
      | some x =>
        obtain ⟨t, r0⟩ := x
        dsimp only
        have s1 := (splitAux_len hs).1
        by_cases c1 : (t == tag) = true
        · rw [if_pos c1, if_pos c1]
        · rw [if_neg c1, if_neg c1]
          by_cases c2 : (t == ctag) = true
          · rw [if_pos c2, if_pos c2]
            cases hl : readLen false r0 with
            | error e => rfl
            | ok y =>
              obtain ⟨len, h, r1⟩ := y
              dsimp only
              obtain ⟨l1, l2, _, _⟩ := readLen_spec hl
              rw [items_congr (p' := BerCodec.pcDecode prim join segTag segCtag f' segTag segCtag)
                (fun b a k r hb =>
                  (pcDecode_cost (fun _ => 0) prim join segTag segCtag (fun _ _ _ _ => Nat.zero_le _)
                    (fun _ => Nat.zero_le _) hseg f segTag segCtag b a k r hseg hb).1 |> fun x => by omega)
                (f + 1) (f' + 1) len r1
                (fun b hb => ih f' segTag segCtag b (by omega) (by omega)) (by omega) (by omega)]
          · rw [if_neg c2, if_neg c2]

/-! ### OCTET STRING and BIT STRING -/

theorem sumSize_flatten (l : List Bytes) : l.flatten.length = sumSize List.length l := by
  induction l with
  | nil => rfl
  | cons x r ih => simp only [List.flatten_cons, List.length_append, sumSize, ih]

theorem sumSize_map {α β : Type} (g : α → β) (size : β → Nat) (l : List α) :
    sumSize size (l.map g) = sumSize (fun a => size (g a)) l := by
  induction l with
  | nil => rfl
  | cons x r ih => simp only [List.map_cons, sumSize, ih]

theorem decOctets_cost {f : Nat} {tag ctag bs content r : Bytes} {k : Nat} (ht : 1 ≤ tag.length)
    (h : BerCodec.decOctets f tag ctag bs = .ok (some (content, k, r))) :
    r.length + 2 ≤ bs.length ∧ 1 ≤ k ∧ content.length + 2 ≤ bs.length - r.length := by
  unfold BerCodec.decOctets at h
  refine pcDecode_cost List.length _ _ _ _ ?_ ?_ (by simp) f tag ctag bs content k r ht h
  · intro content rest a ha; cases ha; exact Nat.le_refl _
  · intro segs; rw [sumSize_flatten]; exact Nat.le_refl _

theorem decBits_cost {f : Nat} {tag ctag bs body r : Bytes} {n k : Nat} (ht : 1 ≤ tag.length)
    (h : BerCodec.decBits f tag ctag bs = .ok (some ((body, n), k, r))) :
    r.length + 2 ≤ bs.length ∧ 1 ≤ k ∧ body.length + 2 ≤ bs.length - r.length := by
  unfold BerCodec.decBits at h
  refine pcDecode_cost (fun x : Bytes × Nat => x.1.length) _ _ _ _ ?_ ?_ (by simp) f tag ctag bs
    (body, n) k r ht h
  · intro content rest a ha
    obtain ⟨b, m⟩ := a
    have := bitsOfContent_len ha
    dsimp only; omega
  · intro segs
    dsimp only
    rw [sumSize_flatten, sumSize_map]
    exact Nat.le_refl _

theorem decOctets_fuel (f f' : Nat) (tag ctag bs : Bytes) (h1 : bs.length < f) (h2 : bs.length < f') :
    BerCodec.decOctets f tag ctag bs = BerCodec.decOctets f' tag ctag bs := by
  unfold BerCodec.decOctets
  exact pcDecode_fuel _ _ _ _ (by simp) f f' tag ctag bs h1 h2

theorem decBits_fuel (f f' : Nat) (tag ctag bs : Bytes) (h1 : bs.length < f) (h2 : bs.length < f') :
    BerCodec.decBits f tag ctag bs = BerCodec.decBits f' tag ctag bs := by
  unfold BerCodec.decBits
  exact pcDecode_fuel _ _ _ _ (by simp) f f' tag ctag bs h1 h2

end Asn1.Cost
