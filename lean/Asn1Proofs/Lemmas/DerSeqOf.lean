import Asn1Proofs.Lemmas.DerLeaf
/-
  SEQUENCE OF of the DER / BER models: round trip and totality of the encoder.
-/
set_option linter.unusedSimpArgs false
set_option linter.unusedVariables false
namespace Asn1.Der
open Asn1.Uper (Err)
open Asn1.Oer (mapM_nil' mapM_cons')
open Asn1.X690 (canonV defaultsOkV)

/-! ### no encoding is empty -/

theorem tlv_ne_nil (tag content : Bytes) : tlv tag content ≠ [] := by
  simp [tlv, encLength_ne_nil_rt]

theorem encAlt_some_rt {as : Alts} {i : Nat} {name : String} {v : Val} {r : EncM Bytes}
    (h : encAlt as i name v = some r) : ∃ t j, r = enc t (some j) v := by
  induction as using Alts.ind generalizing i with
  | nil => simp [encAlt] at h
  | cons n t rest ih =>
    simp only [encAlt] at h
    split at h
    · cases h; exact ⟨t, i, rfl⟩
    · exact ih h

/-- no encoding is empty (in any tagging context; a bare CHOICE is the encoding of an alternative in context `[i]`) -/
theorem enc_ne_nil {t : Ty} {tg : Option Nat} {v : Val} {b : Bytes} (h : enc t tg v = .ok b) : b ≠ [] := by
  cases tg with
  | some j =>
    obtain ⟨r, e, hr⟩ := enc_starts h
    subst e
    simp [hr]
  | none =>
    cases t <;> cases v <;> simp only [enc] at h <;> try (cases h; done)
    case boolean.bool => cases h; exact tlv_ne_nil _ _
    case null.null => cases h; simp
    case integer.int => cases h; exact tlv_ne_nil _ _
    case enumerated.enum =>
      split at h
      · cases h
      · cases h; exact tlv_ne_nil _ _
    case octetString.bytes => cases h; exact tlv_ne_nil _ _
    case bitString.bits => cases h; exact tlv_ne_nil _ _
    case charString.str =>
      split at h
      · cases h
      · cases h; exact tlv_ne_nil _ _
    case sequence.record =>
      split at h
      · cases h
      · split at h
        · cases h
        · cases h; exact tlv_ne_nil _ _
    case sequenceOf.list =>
      split at h
      · cases h
      · cases h; exact tlv_ne_nil _ _
    case choice.choice root ext adds name v =>
      have key : ∀ {r : EncM Bytes} {t : Ty} {j : Nat}, r = enc t (some j) v → r = .ok b → b ≠ [] := by
        intro r t j e hr
        subst e
        obtain ⟨r', e', hr'⟩ := enc_starts hr
        subst e'
        simp [hr']
      split at h
      · rename_i r hr
        obtain ⟨t, j, e⟩ := encAlt_some_rt hr
        exact key e h
      · split at h
        · rename_i r hr
          obtain ⟨t, j, e⟩ := encAlt_some_rt hr
          exact key e h
        · cases h

/-! ### the element loops -/

/-- der.py loop over a concatenation of element encodings -/
theorem derElems_mapM {α : Type} (f : α → EncM Bytes) (g : α → Val) (p : Bytes → DecM (Option Res)) (N : Nat)
    (vs : List α) (items : List Bytes) (rest : Bytes)
    (hne : ∀ v ∈ vs, ∀ b, f v = .ok b → b ≠ [])
    (hp : ∀ v ∈ vs, ∀ b r, f v = .ok b → b.length ≤ N → p (b ++ r) = .ok (some (g v, b.length, r)))
    (h : vs.mapM f = .ok items) (hN : items.flatten.length ≤ N)
    (lf : Nat) (hlf : items.flatten.length < lf) :
    derElems p lf items.flatten.length (items.flatten ++ rest)
      = .ok (vs.map g, items.flatten.length, rest) := by
  induction vs generalizing items lf with
  | nil =>
    rw [mapM_nil'] at h; cases h
    cases lf with
    | zero => simp at hlf
    | succ lf => simp [derElems]
  | cons v vs ih =>
    rw [mapM_cons'] at h
    split at h
    · cases h
    · rename_i b hb
      split at h
      · cases h
      · rename_i bs hbs
        cases h
        have hbne := hne v (by simp) b hb
        have hbl : 0 < b.length := List.length_pos_iff.mpr hbne
        simp only [List.flatten_cons, List.length_append] at hN hlf ⊢
        cases lf with
        | zero => omega
        | succ lf =>
          rw [derElems, if_neg (by omega), List.append_assoc, hp v (by simp) b _ hb (by omega)]
          simp only [Nat.add_sub_cancel_left]
          rw [ih bs (fun x hx => hne x (by simp [hx])) (fun x hx => hp x (by simp [hx])) hbs
            (by omega) lf (by omega)]
          simp only [List.map_cons]

/-- ber.py loop (definite length) over a concatenation of element encodings -/
theorem items_mapM {α : Type} (f : α → EncM Bytes) (g : α → Val) (p : Bytes → DecM (Option Res)) (N : Nat)
    (vs : List α) (items : List Bytes) (rest : Bytes)
    (hne : ∀ v ∈ vs, ∀ b, f v = .ok b → b ≠ [])
    (hp : ∀ v ∈ vs, ∀ b r, f v = .ok b → b.length ≤ N → p (b ++ r) = .ok (some (g v, b.length, r)))
    (h : vs.mapM f = .ok items) (hN : items.flatten.length ≤ N)
    (lf : Nat) (hlf : items.flatten.length < lf) :
    BerCodec.items p lf (some items.flatten.length) (items.flatten ++ rest)
      = .ok (vs.map g, items.flatten.length, rest) := by
  induction vs generalizing items lf with
  | nil =>
    rw [mapM_nil'] at h; cases h
    cases lf with
    | zero => simp at hlf
    | succ lf => simp [BerCodec.items]
  | cons v vs ih =>
    rw [mapM_cons'] at h
    split at h
    · cases h
    · rename_i b hb
      split at h
      · cases h
      · rename_i bs hbs
        cases h
        have hbne := hne v (by simp) b hb
        have hbl : 0 < b.length := List.length_pos_iff.mpr hbne
        simp only [List.flatten_cons, List.length_append] at hN hlf ⊢
        cases lf with
        | zero => omega
        | succ lf =>
          have hz : (b.length + bs.flatten.length == 0) = false := by
            rw [beq_eq_false_iff_ne]; omega
          rw [BerCodec.items]
          simp only [hz]
          rw [List.append_assoc, hp v (by simp) b _ hb (by omega)]
          simp only [Option.map_some, Nat.add_sub_cancel_left]
          rw [ih bs (fun x hx => hne x (by simp [hx])) (fun x hx => hp x (by simp [hx])) hbs
            (by omega) lf (by omega)]
          simp only [List.map_cons]

/-! ### SEQUENCE OF -/

theorem rt_sequenceOf_der (e : Ty) (c : SizeC) (ih : RT dec e) : RT dec (.sequenceOf e c) := by
  intro tg v bytes rest fuel hwf hwf2 hd ht he hfuel
  cases v <;> try (simp only [hasType, Bool.false_eq_true] at ht; done)
  rename_i vs
  simp only [hasType, Bool.and_eq_true, List.all_eq_true] at ht
  simp only [Ty.wf, Bool.and_eq_true] at hwf
  simp only [Oer.oerWf] at hwf2
  simp only [defaultsOkV] at hd
  rw [canonV]
  rw [enc] at he
  rw [dec]
  split at he
  · cases he
  · rename_i items hitems
    cases he
    rw [tlv_length] at hfuel
    rw [tlv_append]
    simp only [bind, Except.bind, matchTag_self, readLen_encLength, Option.getD_some]
    rw [derElems_mapM (enc e none) (canonV e) (dec e none fuel) items.flatten.length vs items rest
      (fun x hx b hb => enc_ne_nil hb)
      (fun x hx b r hb hl => ih none x b r fuel hwf.1 hwf2 hd (ht.1 x hx) hb (by omega))
      hitems (Nat.le_refl _) fuel (by omega)]
    simp only [tlv_length]

theorem rt_sequenceOf_ber (e : Ty) (c : SizeC) (ih : RT BerCodec.dec e) : RT BerCodec.dec (.sequenceOf e c) := by
  intro tg v bytes rest fuel hwf hwf2 hd ht he hfuel
  cases v <;> try (simp only [hasType, Bool.false_eq_true] at ht; done)
  rename_i vs
  simp only [hasType, Bool.and_eq_true, List.all_eq_true] at ht
  simp only [Ty.wf, Bool.and_eq_true] at hwf
  simp only [Oer.oerWf] at hwf2
  simp only [defaultsOkV] at hd
  rw [canonV]
  rw [enc] at he
  rw [BerCodec.dec]
  split at he
  · cases he
  · rename_i items hitems
    cases he
    rw [tlv_length] at hfuel
    rw [tlv_append]
    simp only [bind, Except.bind, matchTag_self, readLen_encLength]
    rw [items_mapM (enc e none) (canonV e) (BerCodec.dec e none fuel) items.flatten.length vs items rest
      (fun x hx b hb => enc_ne_nil hb)
      (fun x hx b r hb hl => ih none x b r fuel hwf.1 hwf2 hd (ht.1 x hx) hb (by omega))
      hitems (Nat.le_refl _) fuel (by omega)]
    simp only [tlv_length]

theorem mapM_ok {α β : Type} (f : α → EncM β) (l : List α) (h : ∀ a ∈ l, ∃ b, f a = .ok b) :
    ∃ r, l.mapM f = .ok r := by
  induction l with
  | nil => exact ⟨[], mapM_nil' f⟩
  | cons a l ih =>
    rw [mapM_cons']
    obtain ⟨b, hb⟩ := h a (by simp)
    obtain ⟨r, hr⟩ := ih (fun x hx => h x (by simp [hx]))
    rw [hb, hr]
    exact ⟨_, rfl⟩

theorem et_sequenceOf (e : Ty) (c : SizeC) (ih : ET e) : ET (.sequenceOf e c) := by
  intro tg v hwf ht
  cases v <;> try (simp only [hasType, Bool.false_eq_true] at ht; done)
  rename_i vs
  simp only [hasType, Bool.and_eq_true, List.all_eq_true] at ht
  simp only [Ty.wf, Bool.and_eq_true] at hwf
  rw [enc]
  obtain ⟨items, hi⟩ := mapM_ok (enc e none) vs (fun x hx => ih none x hwf.1 (ht.1 x hx))
  rw [hi]
  exact ⟨_, rfl⟩

end Asn1.Der

#print axioms Asn1.Der.enc_ne_nil
#print axioms Asn1.Der.rt_sequenceOf_der
#print axioms Asn1.Der.rt_sequenceOf_ber
#print axioms Asn1.Der.et_sequenceOf
