import Asn1Proofs.Lemmas.PrepCompOf
/-
  The three passes that do not follow COMPONENTS OF, composed on one type assignment:
  `locDesc = defaults ∘ tags ∘ extensibility-implied`.  A second application (possibly with another
  `numeric_enums` flag) is absorbed.
-/
namespace Asn1.SpecDict

def locDesc (sk : Skel) (n : Bool) (mn mt : String) (ext : Bool) (d : Desc) : Desc :=
  defDesc sk n mn false (tagDesc sk mt mn none (if ext then extDesc d else d))

section
variable (sk : Skel) (mn mt : String) (ext : Bool)

theorem locDesc_core (n : Bool) (d : Desc) :
    (locDesc sk n mn mt ext d).attrs.core = d.attrs.core := by
  cases ext <;> simp [locDesc]

theorem topClean_locDesc (n : Bool) (d : Desc) :
    (locDesc sk n mn mt ext d).topClean = d.topClean := by
  cases ext <;> simp [locDesc, topClean_defDesc, topClean_tagDesc, topClean_extDesc]

variable {P : Attrs → Prop}

theorem Desc.All.loc (n : Bool)
    (hPt : ∀ a k, P a → P (kindAttrs sk mt mn (numAttrs k a)))
    (hPc : ∀ a, P a → P (convAttrs sk n mn a))
    {d : Desc} (hd : d.All P) : (locDesc sk n mn mt ext d).All P := by
  unfold locDesc
  refine Desc.All.dflt sk n mn hPc false _ (Desc.All.tag sk mt mn hPt none _ ?_)
  cases ext
  · simpa using hd
  · simpa using Desc.All.ext d hd

/-- tags and EXTENSIBILITY IMPLIED applied to a descriptor that went through all three passes -/
theorem locDesc_locDesc (m n : Bool) (d : Desc) :
    locDesc sk n mn mt ext (locDesc sk m mn mt ext d)
      = defDesc sk n mn false (defDesc sk m mn false
          (tagDesc sk mt mn none (if ext then extDesc d else d))) := by
  unfold locDesc
  cases ext
  · simp only [Bool.false_eq_true, if_false]
    rw [tagDesc_defDesc, tagDesc_idem]
  · simp only [if_true]
    rw [extDesc_defDesc, extDesc_tagDesc, extDesc_idem, tagDesc_defDesc, tagDesc_idem]

theorem locDesc_absorb (m n : Bool)
    (hPt : ∀ a k, P a → P (kindAttrs sk mt mn (numAttrs k a)))
    (hPa : ∀ a, P a → Absorbs sk n mn m a)
    {d : Desc} (hd : d.All P) :
    locDesc sk n mn mt ext (locDesc sk m mn mt ext d) = locDesc sk n mn mt ext d := by
  rw [locDesc_locDesc]
  unfold locDesc
  refine defDesc_absorb sk n mn m false _ (Desc.All.imp hPa _ (Desc.All.tag sk mt mn hPt none _ ?_))
  cases ext
  · simpa using hd
  · simpa using Desc.All.ext d hd

end

end Asn1.SpecDict
