import Asn1Proofs.Lemmas.UperRoundtrip
/-
  C16 for the UPER model: the decoder is *prefix deterministic*.  If `dec t f (q ++ x)` succeeds with
  value `a` and remaining input `r`, then on the prefix `q` alone the decoder either succeeds with the
  same value (and `r = r' ++ x`), or fails with `decodeError` — it never returns another value and never
  another error class.  No hypothesis on the type is needed, only enough fuel for `q`.
-/
set_option linter.unusedSimpArgs false
set_option linter.unusedVariables false
namespace Asn1.Uper

/-- outcome on the prefix `q` (remaining input of length at most `n`) of a parser that on `q ++ x`
returned `b` with remaining input `r` -/
def Res {β : Type} (x : Bits) (b : β) (r : Bits) (n : Nat) (out : DecM (β × Bits)) : Prop :=
  (∃ r', out = .ok (b, r') ∧ r = r' ++ x ∧ r'.length ≤ n) ∨ out = .error .decodeError

theorem Res.mono {β : Type} {x : Bits} {b : β} {r : Bits} {n m : Nat} {out : DecM (β × Bits)}
    (h : Res x b r n out) (hnm : n ≤ m) : Res x b r m out := by
  rcases h with ⟨r', h1, h2, h3⟩ | h
  · exact .inl ⟨r', h1, h2, Nat.le_trans h3 hnm⟩
  · exact .inr h

theorem res_ok {β : Type} {x : Bits} {b : β} {r' : Bits} {n : Nat} (h : r'.length ≤ n) :
    Res x b (r' ++ x) n (.ok (b, r')) := .inl ⟨r', rfl, rfl, h⟩

theorem res_err {β : Type} {x : Bits} {b : β} {r : Bits} {n : Nat} :
    Res x b r n (.error .decodeError) := .inr rfl

/-- prefix determinism of a pair of parsers (the second one runs on the prefix), for prefixes of
length at most `N` -/
def PF {α : Type} (N : Nat) (p p' : Bits → DecM (α × Bits)) : Prop :=
  ∀ (q x : Bits) (a : α) (r : Bits), q.length ≤ N → p (q ++ x) = .ok (a, r) → Res x a r q.length (p' q)

theorem PF.mono {α : Type} {N M : Nat} {p p' : Bits → DecM (α × Bits)} (h : PF N p p') (hm : M ≤ N) :
    PF M p p' := fun q x a r hq he => h q x a r (Nat.le_trans hq hm) he

theorem pf_bind {α β : Type} {N : Nat} {p p' : Bits → DecM (α × Bits)} (hp : PF N p p')
    {g g' : α × Bits → DecM (β × Bits)} {q x : Bits} {b : β} {r : Bits}
    (hN : q.length ≤ N) (h : (p (q ++ x) >>= g) = .ok (b, r))
    (hg : ∀ a r1, r1.length ≤ q.length → p' q = .ok (a, r1) → g (a, r1 ++ x) = .ok (b, r) →
      Res x b r r1.length (g' (a, r1))) :
    Res x b r q.length (p' q >>= g') := by
  cases hp1 : p (q ++ x) with
  | error e => rw [hp1] at h; cases h
  | ok ar =>
    obtain ⟨a, r1⟩ := ar
    rw [hp1] at h
    rcases hp q x a r1 hN hp1 with ⟨r1', h1, rfl, hl⟩ | h1
    · rw [h1]; exact (hg a r1' hl h1 h).mono hl
    · rw [h1]; exact .inr rfl

/-! ### primitives -/

theorem splitAux_eq (n : Nat) (bs acc : Bits) :
    splitAux n bs acc =
      if n ≤ bs.length then some (acc.reverse ++ bs.take n, bs.drop n) else none := by
  induction n generalizing bs acc with
  | zero => simp [splitAux]
  | succ n ih =>
    cases bs with
    | nil => simp [splitAux]
    | cons b t =>
      simp only [splitAux, ih, List.length_cons, Nat.add_le_add_iff_right, List.reverse_cons,
        List.take_succ_cons, List.drop_succ_cons, List.append_assoc, List.singleton_append]

theorem readBits_eq (n : Nat) (bs : Bits) :
    readBits n bs = if n ≤ bs.length then .ok (bs.take n, bs.drop n) else .error .decodeError := by
  simp only [readBits, splitExact, splitAux_eq]
  by_cases h : n ≤ bs.length <;> simp [h]

theorem readNat_eq (n : Nat) (bs : Bits) :
    readNat n bs =
      if n ≤ bs.length then .ok (bitsToNat (bs.take n), bs.drop n) else .error .decodeError := by
  simp only [readNat, splitExact, splitAux_eq]
  by_cases h : n ≤ bs.length <;> simp [h]

theorem pf_readBits (n N : Nat) : PF N (readBits n) (readBits n) := by
  intro q x a r _ h
  rw [readBits_eq] at h ⊢
  by_cases hn : n ≤ q.length
  · rw [if_pos (by simp only [List.length_append]; omega), List.take_append_of_le_length hn,
      List.drop_append_of_le_length hn] at h
    rw [if_pos hn]
    cases h
    exact res_ok (by simp only [List.length_drop]; omega)
  · rw [if_neg hn]; exact res_err

theorem pf_readNat (n N : Nat) : PF N (readNat n) (readNat n) := by
  intro q x a r _ h
  rw [readNat_eq] at h ⊢
  by_cases hn : n ≤ q.length
  · rw [if_pos (by simp only [List.length_append]; omega), List.take_append_of_le_length hn,
      List.drop_append_of_le_length hn] at h
    rw [if_pos hn]
    cases h
    exact res_ok (by simp only [List.length_drop]; omega)
  · rw [if_neg hn]; exact res_err

theorem pf_readBit (N : Nat) : PF N readBit readBit := by
  intro q x a r _ h
  cases q with
  | nil => exact res_err
  | cons b t =>
    simp only [List.cons_append, readBit] at h ⊢
    cases h
    exact res_ok (by simp)

theorem readNat_lt {n : Nat} {bs r : Bits} {a : Nat} (hn : 0 < n) (h : readNat n bs = .ok (a, r)) :
    r.length < bs.length := by
  rw [readNat_eq] at h
  split at h
  · cases h; simp only [List.length_drop]; omega
  · cases h

theorem pf_readLenDet (N : Nat) : PF N readLenDet readLenDet := by
  intro q x a r hN h
  unfold readLenDet at h ⊢
  refine pf_bind (pf_readNat 8 N) hN h ?_
  intro v r1 hl _ h
  dsimp only at h ⊢
  revert h
  split
  · intro h; cases h; exact res_ok (Nat.le_refl _)
  split
  · intro h
    refine pf_bind (pf_readNat 8 N) (by omega) h ?_
    intro w r2 hl2 _ h
    cases h; exact res_ok (Nat.le_refl _)
  split
  · intro h; cases h; exact res_ok (Nat.le_refl _)
  split
  · intro h; cases h; exact res_ok (Nat.le_refl _)
  split
  · intro h; cases h; exact res_ok (Nat.le_refl _)
  split
  · intro h; cases h; exact res_ok (Nat.le_refl _)
  · intro h; cases h

/-- closes a goal `.ok (..) = .ok (a, r) → Res x a r n (.ok (..))` -/
macro "pf_ok" : tactic => `(tactic| (intro h; cases h; exact res_ok (Nat.le_refl _)))

theorem bind_ok {α β : Type} {m : DecM α} {g : α → DecM β} {b : β} (h : (m >>= g) = .ok b) :
    ∃ a, m = .ok a ∧ g a = .ok b := by
  cases m with
  | error e => cases h
  | ok a => exact ⟨a, rfl, h⟩

theorem readLenDet_lt {bs r : Bits} {n : Nat} (h : readLenDet bs = .ok (n, r)) :
    r.length < bs.length := by
  unfold readLenDet at h
  obtain ⟨⟨v, r1⟩, h1, h⟩ := bind_ok h
  have hlt := readNat_lt (by omega) h1
  dsimp only at h
  revert h
  split
  · intro h; cases h; exact hlt
  split
  · intro h
    obtain ⟨⟨w, r2⟩, h2, h⟩ := bind_ok h
    have hlt2 := readNat_lt (by omega) h2
    cases h; exact Nat.lt_trans hlt2 hlt
  split
  · intro h; cases h; exact hlt
  split
  · intro h; cases h; exact hlt
  split
  · intro h; cases h; exact hlt
  split
  · intro h; cases h; exact hlt
  · intro h; cases h

theorem pf_decUnconstrained (N : Nat) : PF N decUnconstrained decUnconstrained := by
  intro q x a r hN h
  unfold decUnconstrained at h ⊢
  refine pf_bind (pf_readLenDet N) hN h ?_
  intro len r1 hl _ h
  dsimp only at h ⊢
  refine pf_bind (pf_readBits _ N) (by omega) h ?_
  intro body r2 hl2 _ h
  dsimp only at h ⊢
  revert h
  split
  · intro h; cases h
  split <;> pf_ok

theorem pf_decNsnnwn (N : Nat) : PF N decNsnnwn decNsnnwn := by
  intro q x a r hN h
  unfold decNsnnwn at h ⊢
  refine pf_bind (pf_readBit N) hN h ?_
  intro b r1 hl _ h
  dsimp only at h ⊢
  revert h
  split
  · intro h; exact pf_readNat 6 N r1 x a r (by omega) h
  · intro h
    refine pf_bind (pf_readLenDet N) (by omega) h ?_
    intro len r2 hl2 _ h
    dsimp only at h ⊢
    exact pf_readNat _ N r2 x a r (by omega) h

theorem pf_decNsLength (N : Nat) : PF N decNsLength decNsLength := by
  intro q x a r hN h
  unfold decNsLength at h ⊢
  refine pf_bind (pf_readBit N) hN h ?_
  intro b r1 hl _ h
  dsimp only at h ⊢
  revert h
  split
  · intro h
    refine pf_bind (pf_readNat 6 N) (by omega) h ?_
    intro v r2 hl2 _
    pf_ok
  · intro h
    refine pf_bind (pf_readBit N) (by omega) h ?_
    intro b2 r2 hl2 _ h
    dsimp only at h ⊢
    revert h
    split
    · intro h; exact pf_readNat 7 N r2 x a r (by omega) h
    · intro h; cases h

theorem pf_decRepeat {α : Type} {N : Nat} {p p' : Bits → DecM (α × Bits)} (hp : PF N p p') (n : Nat) :
    PF N (decRepeat p n) (decRepeat p' n) := by
  induction n with
  | zero =>
    intro q x a r _ h
    simp only [decRepeat] at h ⊢
    revert h; pf_ok
  | succ n ih =>
    intro q x a r hN h
    simp only [decRepeat] at h ⊢
    refine pf_bind hp hN h ?_
    intro a1 r1 hl _ h
    dsimp only at h ⊢
    refine pf_bind ih (by omega) h ?_
    intro as r2 hl2 _
    pf_ok

theorem pf_decChunks {α : Type} {p p' : Bits → DecM (α × Bits)} (f : Nat) :
    ∀ (f' N : Nat), PF N p p' → N < f' → PF N (decChunks p f) (decChunks p' f') := by
  induction f with
  | zero => intro f' N hp hf q x a r hN h; simp only [decChunks] at h; cases h
  | succ f ih =>
    intro f' N hp hf q x a r hN h
    obtain ⟨f'', rfl⟩ : ∃ k, f' = k + 1 := ⟨f' - 1, by omega⟩
    simp only [decChunks] at h ⊢
    refine pf_bind (pf_readLenDet N) hN h ?_
    intro len r1 hl h1 h
    have hlt := readLenDet_lt h1
    dsimp only at h ⊢
    refine pf_bind (pf_decRepeat hp len) (by omega) h ?_
    intro xs r2 hl2 _ h
    dsimp only at h ⊢
    revert h
    split
    · pf_ok
    · intro h
      refine pf_bind (ih f'' r2.length (hp.mono (by omega)) (by omega)) (Nat.le_refl _) h ?_
      intro ys r3 hl3 _
      pf_ok

/-- `Res` for parsers that return only the remaining input -/
def ResU (x r : Bits) (n : Nat) (out : DecM Bits) : Prop :=
  (∃ r', out = .ok r' ∧ r = r' ++ x ∧ r'.length ≤ n) ∨ out = .error .decodeError

theorem pf_skipPad (s s' : Nat) (q x r : Bits) (hs : s - (q ++ x).length = s' - q.length)
    (h : skipPad s (q ++ x) = .ok r) : ResU x r q.length (skipPad s' q) := by
  unfold skipPad at h ⊢
  rw [hs] at h
  dsimp only at h ⊢
  by_cases hp : (8 - (s' - q.length) % 8) % 8 ≤ q.length
  · rw [if_pos (by simp only [List.length_append]; omega), List.drop_append_of_le_length hp] at h
    rw [if_pos hp]
    cases h
    exact .inl ⟨_, rfl, rfl, by simp only [List.length_drop]; omega⟩
  · rw [if_neg hp]; exact .inr rfl

theorem pf_skipUnknown (N : Nat) (bitmap : Bits) : ∀ (q x r : Bits), q.length ≤ N →
    skipUnknown bitmap (q ++ x) = .ok r → ResU x r q.length (skipUnknown bitmap q) := by
  induction bitmap with
  | nil =>
    intro q x r _ h
    simp only [skipUnknown] at h ⊢
    cases h
    exact .inl ⟨_, rfl, rfl, Nat.le_refl _⟩
  | cons present bitmap ih =>
    intro q x r hN h
    simp only [skipUnknown] at h ⊢
    revert h
    split
    · intro h
      obtain ⟨⟨len, r1⟩, h1, h⟩ := bind_ok h
      rcases pf_readLenDet N q x len r1 hN h1 with ⟨r1', e1, rfl, hl1⟩ | e1
      · rw [e1]
        dsimp only at h
        obtain ⟨⟨body, r2⟩, h2, h⟩ := bind_ok h
        rcases pf_readBits _ N r1' x body r2 (by omega) h2 with ⟨r2', e2, rfl, hl2⟩ | e2
        · dsimp only [bind, Except.bind]
          rw [e2]
          dsimp only at h ⊢
          rcases ih r2' x r (by omega) h with ⟨r', e3, rfl, hl3⟩ | e3
          · exact .inl ⟨r', e3, rfl, by omega⟩
          · exact .inr e3
        · dsimp only [bind, Except.bind]
          rw [e2]; exact .inr rfl
      · rw [e1]; exact .inr rfl
    · intro h; exact ih q x r hN h

/-- `pf_bind` for a first step that is not syntactically a parser applied to `q ++ x` -/
theorem res_bind {α β : Type} {m m' : DecM (α × Bits)} {g g' : α × Bits → DecM (β × Bits)}
    {x : Bits} {b : β} {r : Bits} {n : Nat}
    (hm : ∀ a r1, m = .ok (a, r1) → Res x a r1 n m')
    (h : (m >>= g) = .ok (b, r))
    (hg : ∀ a r1, r1.length ≤ n → m' = .ok (a, r1) → g (a, r1 ++ x) = .ok (b, r) →
      Res x b r r1.length (g' (a, r1))) :
    Res x b r n (m' >>= g') := by
  obtain ⟨⟨a, r1⟩, h1, h⟩ := bind_ok h
  rcases hm a r1 h1 with ⟨r1', e1, rfl, hl⟩ | e1
  · rw [e1]; exact (hg a r1' hl e1 h).mono hl
  · rw [e1]; exact .inr rfl

/-- bind after a parser that returns only the remaining input -/
theorem res_bindU {β : Type} {m m' : DecM Bits} {g g' : Bits → DecM (β × Bits)}
    {x : Bits} {b : β} {r : Bits} {n : Nat}
    (hm : ∀ r1, m = .ok r1 → ResU x r1 n m')
    (h : (m >>= g) = .ok (b, r))
    (hg : ∀ r1, r1.length ≤ n → g (r1 ++ x) = .ok (b, r) → Res x b r r1.length (g' r1)) :
    Res x b r n (m' >>= g') := by
  obtain ⟨r1, h1, h⟩ := bind_ok h
  rcases hm r1 h1 with ⟨r1', e1, rfl, hl⟩ | e1
  · rw [e1]; exact (hg r1' hl h).mono hl
  · rw [e1]; exact .inr rfl

end Asn1.Uper
