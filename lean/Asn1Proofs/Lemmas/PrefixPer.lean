import Asn1Proofs.Lemmas.PerRoundtrip
import Asn1Proofs.Lemmas.PrefixUper
/-
  C16 for the ALIGNED PER model: the decoder is *prefix deterministic* at octet boundaries.

  The decoder state is `St = ⟨pos, bs⟩` (bits consumed since the start of the message, remaining
  bits).  If `dec t f ⟨pos, q ++ x⟩` succeeds with value `a` and state `r`, and the cut between `q`
  and `x` is an octet boundary of the message (`(pos + q.length) % 8 = 0`), then on the prefix
  `⟨pos, q⟩` alone the decoder either succeeds with the same value, the same position and remaining
  bits `r'` with `r.bs = r' ++ x`, or it fails with `decodeError` -- never another value, never
  another error class.  No hypothesis on the type, only enough fuel for `q`.

  The octet-boundary hypothesis is what makes `Decoder.align_always` harmless: `align` drops
  `padLen pos` of the REMAINING bits, and only at an octet boundary of the message are that many
  bits always left.  (Without it the statement is false, see `PrefixPerTypes.lean`.)  Every result
  also carries the invariant `position + remaining = total`, i.e. exact consumption (it was needed
  for the backward `skip_bits` of a CHOICE addition, which repair ace6523 of /repo turned into a
  `DecodeError`; the invariant is kept because `Per.truncated_bits` reports it).
-/
set_option linter.unusedSimpArgs false
set_option linter.unusedVariables false
namespace Asn1.Per
open Asn1.Uper (DecM bind_ok)

/-- outcome on the prefix (at most `n` remaining bits, `T` = position + remaining bits at the
start) of a parser that on the extended input returned `b` and state `r` -/
def Res {β : Type} (x : Bits) (b : β) (r : St) (n T : Nat) (out : DecM (β × St)) : Prop :=
  (∃ (p' : Nat) (r' : Bits), out = .ok (b, ⟨p', r'⟩) ∧ r = ⟨p', r' ++ x⟩ ∧ r'.length ≤ n ∧
      p' + r'.length = T) ∨ out = .error .decodeError

theorem Res.mono {β : Type} {x : Bits} {b : β} {r : St} {n m T : Nat} {out : DecM (β × St)}
    (h : Res x b r n T out) (hnm : n ≤ m) : Res x b r m T out := by
  rcases h with ⟨p', r', h1, h2, h3, h4⟩ | h
  · exact .inl ⟨p', r', h1, h2, Nat.le_trans h3 hnm, h4⟩
  · exact .inr h

theorem res_ok {β : Type} {x : Bits} {b : β} {p' : Nat} {r' : Bits} {n T : Nat} (h : r'.length ≤ n)
    (hT : p' + r'.length = T) : Res x b ⟨p', r' ++ x⟩ n T (.ok (b, ⟨p', r'⟩)) :=
  .inl ⟨p', r', rfl, rfl, h, hT⟩

theorem res_err {β : Type} {x : Bits} {b : β} {r : St} {n T : Nat} :
    Res x b r n T (.error .decodeError) := .inr rfl

/-- prefix determinism of a pair of parsers (the second one runs on the prefix), for prefixes of
length at most `N` that end at an octet boundary of the message -/
def PF {α : Type} (N : Nat) (p p' : St → DecM (α × St)) : Prop :=
  ∀ (pos : Nat) (q x : Bits) (a : α) (r : St), q.length ≤ N → (pos + q.length) % 8 = 0 →
    p ⟨pos, q ++ x⟩ = .ok (a, r) → Res x a r q.length (pos + q.length) (p' ⟨pos, q⟩)

theorem PF.mono {α : Type} {N M : Nat} {p p' : St → DecM (α × St)} (h : PF N p p') (hm : M ≤ N) :
    PF M p p' := fun pos q x a r hq hal he => h pos q x a r (Nat.le_trans hq hm) hal he

theorem pf_bind {α β : Type} {N : Nat} {p p' : St → DecM (α × St)} (hp : PF N p p')
    {g g' : α × St → DecM (β × St)} {pos : Nat} {q x : Bits} {b : β} {r : St} {T : Nat}
    (hN : q.length ≤ N) (hT8 : T % 8 = 0) (hT : pos + q.length = T)
    (h : (p ⟨pos, q ++ x⟩ >>= g) = .ok (b, r))
    (hg : ∀ a pos1 r1, r1.length ≤ q.length → pos1 + r1.length = T → p' ⟨pos, q⟩ = .ok (a, ⟨pos1, r1⟩) →
      g (a, ⟨pos1, r1 ++ x⟩) = .ok (b, r) → Res x b r r1.length T (g' (a, ⟨pos1, r1⟩))) :
    Res x b r q.length T (p' ⟨pos, q⟩ >>= g') := by
  subst hT
  cases hp1 : p ⟨pos, q ++ x⟩ with
  | error e => rw [hp1] at h; cases h
  | ok ar =>
    obtain ⟨a, r1⟩ := ar
    rw [hp1] at h
    rcases hp pos q x a r1 hN hT8 hp1 with ⟨p1, r1', h1, rfl, hl, hT1⟩ | h1
    · rw [h1]; exact (hg a p1 r1' hl hT1 h1 h).mono hl
    · rw [h1]; exact .inr rfl

/-- closes a goal `.ok (..) = .ok (a, r) → Res x a r n T (.ok (..))` -/
macro "pf_ok" : tactic =>
  `(tactic| (intro h; cases h; exact res_ok (Nat.le_refl _) (by assumption)))

/-! ### alignment -/

/-- at an octet boundary of the message `align` finds all the bits it drops -/
theorem align_app (pos : Nat) (q x : Bits) (hal : (pos + q.length) % 8 = 0) :
    align ⟨pos, q ++ x⟩ = ⟨pos + padLen pos, q.drop (padLen pos) ++ x⟩ ∧ padLen pos ≤ q.length := by
  have hle : padLen pos ≤ q.length := by unfold padLen; omega
  refine ⟨?_, hle⟩
  unfold align
  dsimp only
  rw [List.drop_append_of_le_length hle]

theorem pf_align {α : Type} {N : Nat} {p p' : St → DecM (α × St)} (hp : PF N p p') :
    PF N (fun s => p (align s)) (fun s => p' (align s)) := by
  intro pos q x a r hN hal h
  dsimp only at h ⊢
  obtain ⟨e, hle⟩ := align_app pos q x hal
  rw [e] at h
  have hl : (q.drop (padLen pos)).length ≤ q.length := by simp only [List.length_drop]; omega
  have hT : pos + padLen pos + (q.drop (padLen pos)).length = pos + q.length := by
    simp only [List.length_drop]; omega
  have := hp (pos + padLen pos) (q.drop (padLen pos)) x a r (Nat.le_trans hl hN) (by rw [hT]; exact hal) h
  rw [hT] at this
  exact this.mono hl

/-! ### primitives -/

theorem readBits_eq (n : Nat) (s : St) :
    readBits n s = if n ≤ s.bs.length then .ok (s.bs.take n, ⟨s.pos + n, s.bs.drop n⟩)
      else .error .decodeError := by
  simp only [readBits, Uper.splitExact, Uper.splitAux_eq]
  by_cases h : n ≤ s.bs.length <;> simp [h]

theorem readNat_eq (n : Nat) (s : St) :
    readNat n s = if n ≤ s.bs.length then .ok (bitsToNat (s.bs.take n), ⟨s.pos + n, s.bs.drop n⟩)
      else .error .decodeError := by
  simp only [readNat, Uper.splitExact, Uper.splitAux_eq]
  by_cases h : n ≤ s.bs.length <;> simp [h]

theorem pf_readBits (n N : Nat) : PF N (readBits n) (readBits n) := by
  intro pos q x a r _ hal h
  rw [readBits_eq] at h ⊢
  dsimp only at h ⊢
  by_cases hn : n ≤ q.length
  · rw [if_pos (by simp only [List.length_append]; omega), List.take_append_of_le_length hn,
      List.drop_append_of_le_length hn] at h
    rw [if_pos hn]
    cases h
    exact res_ok (by simp only [List.length_drop]; omega) (by simp only [List.length_drop]; omega)
  · rw [if_neg hn]; exact res_err

theorem pf_readNat (n N : Nat) : PF N (readNat n) (readNat n) := by
  intro pos q x a r _ hal h
  rw [readNat_eq] at h ⊢
  dsimp only at h ⊢
  by_cases hn : n ≤ q.length
  · rw [if_pos (by simp only [List.length_append]; omega), List.take_append_of_le_length hn,
      List.drop_append_of_le_length hn] at h
    rw [if_pos hn]
    cases h
    exact res_ok (by simp only [List.length_drop]; omega) (by simp only [List.length_drop]; omega)
  · rw [if_neg hn]; exact res_err

theorem pf_readBit (N : Nat) : PF N readBit readBit := by
  intro pos q x a r _ hal h
  cases q with
  | nil => exact res_err
  | cons b t =>
    simp only [List.cons_append, readBit] at h ⊢
    cases h
    exact res_ok (by simp) (by simp only [List.length_cons]; omega)

theorem readNat_lt {n : Nat} {s r : St} {a : Nat} (hn : 0 < n) (h : readNat n s = .ok (a, r)) :
    r.bs.length < s.bs.length := by
  rw [readNat_eq] at h
  split at h
  · cases h; simp only [List.length_drop]; omega
  · cases h

theorem pf_readLenDet (N : Nat) : PF N readLenDet readLenDet := by
  intro pos q x a r hN hal h
  unfold readLenDet at h ⊢
  refine pf_bind (pf_readNat 8 N) hN hal rfl h ?_
  intro v p1 r1 hl hT1 _ h
  dsimp only at h ⊢
  revert h
  split
  · pf_ok
  split
  · intro h
    refine pf_bind (pf_readNat 8 N) (by omega) hal hT1 h ?_
    intro w p2 r2 hl2 hT2 _
    pf_ok
  split
  · pf_ok
  split
  · pf_ok
  split
  · pf_ok
  split
  · pf_ok
  · intro h; cases h

theorem readLenDet_lt {s r : St} {n : Nat} (h : readLenDet s = .ok (n, r)) :
    r.bs.length < s.bs.length := by
  unfold readLenDet at h
  obtain ⟨⟨v, r1⟩, h1, h⟩ := bind_ok h
  have hlt := readNat_lt (by omega) h1
  dsimp only at h
  revert h
  split
  · intro h; cases h; exact hlt
  split
  · intro h
    obtain ⟨⟨w, r2⟩, h2, h⟩ := bind_ok h
    have hlt2 := readNat_lt (by omega) h2
    cases h; exact Nat.lt_trans hlt2 hlt
  split
  · intro h; cases h; exact hlt
  split
  · intro h; cases h; exact hlt
  split
  · intro h; cases h; exact hlt
  split
  · intro h; cases h; exact hlt
  · intro h; cases h

theorem pf_decUnconstrained (N : Nat) : PF N decUnconstrained decUnconstrained := by
  intro pos q x a r hN hal h
  unfold decUnconstrained at h ⊢
  refine pf_bind (pf_readLenDet N) hN hal rfl h ?_
  intro len p1 r1 hl hT1 _ h
  dsimp only at h ⊢
  refine pf_bind (pf_readBits _ N) (by omega) hal hT1 h ?_
  intro body p2 r2 hl2 hT2 _ h
  dsimp only at h ⊢
  revert h
  split
  · intro h; cases h
  split <;> pf_ok

theorem pf_decNsnnwn (N : Nat) : PF N decNsnnwn decNsnnwn := by
  intro pos q x a r hN hal h
  unfold decNsnnwn at h ⊢
  refine pf_bind (pf_readBit N) hN hal rfl h ?_
  intro b p1 r1 hl hT1 _ h
  dsimp only at h ⊢
  revert h
  split
  · intro h
    have := pf_readNat 6 N p1 r1 x a r (by omega) (by omega) h
    rw [hT1] at this; exact this
  · intro h
    refine pf_bind (pf_readLenDet N) (by omega) hal hT1 h ?_
    intro len p2 r2 hl2 hT2 _ h
    dsimp only at h ⊢
    have := pf_readNat _ N p2 r2 x a r (by omega) (by omega) h
    rw [hT2] at this; exact this

theorem pf_decNsLength (N : Nat) : PF N decNsLength decNsLength := by
  intro pos q x a r hN hal h
  unfold decNsLength at h ⊢
  refine pf_bind (pf_readBit N) hN hal rfl h ?_
  intro b p1 r1 hl hT1 _ h
  dsimp only at h ⊢
  revert h
  split
  · intro h
    refine pf_bind (pf_readNat 6 N) (by omega) hal hT1 h ?_
    intro v p2 r2 hl2 hT2 _
    pf_ok
  · intro h
    refine pf_bind (pf_readBit N) (by omega) hal hT1 h ?_
    intro b2 p2 r2 hl2 hT2 _ h
    dsimp only at h ⊢
    revert h
    split
    · intro h
      have := pf_readNat 7 N p2 r2 x a r (by omega) (by omega) h
      rw [hT2] at this; exact this
    · intro h; cases h

theorem pf_decCwn (range nbits N : Nat) : PF N (decCwn range nbits) (decCwn range nbits) := by
  intro pos q x a r hN hal h
  unfold decCwn at h ⊢
  revert h
  split
  · exact pf_readNat _ N pos q x a r hN hal
  split
  · exact pf_align (pf_readNat 8 N) pos q x a r hN hal
  split
  · exact pf_align (pf_readNat 16 N) pos q x a r hN hal
  · exact pf_align (pf_readNat _ N) pos q x a r hN hal

theorem pf_decConstrainedInt (lo hi : Int) (N : Nat) :
    PF N (decConstrainedInt lo hi) (decConstrainedInt lo hi) := by
  intro pos q x a r hN hal h
  unfold decConstrainedInt at h ⊢
  dsimp only at h ⊢
  revert h
  split
  · intro h
    refine pf_bind (pf_decCwn _ _ N) hN hal rfl h ?_
    intro v p1 r1 hl hT1 _
    pf_ok
  · intro h
    refine pf_bind (pf_decCwn _ _ N) hN hal rfl h ?_
    intro k p1 r1 hl hT1 _ h
    dsimp only at h ⊢
    refine pf_bind (pf_align (pf_decCwn _ _ N)) (by omega) hal hT1 h ?_
    intro v p2 r2 hl2 hT2 _
    pf_ok

theorem pf_readSize (c : SizeC) (w : Nat) (av : Nat → Bool) (af : Bool) (N : Nat) :
    PF N (readSize c w av af) (readSize c w av af) := by
  intro pos q x a r hN hal h
  unfold readSize at h ⊢
  revert h
  split
  · intro h
    refine pf_bind (pf_decCwn _ _ N) hN hal rfl h ?_
    intro d p1 r1 hl hT1 _ h
    dsimp only at h ⊢
    cases hav : av (c.lo + d) with
    | false =>
      simp only [hav, Bool.false_eq_true, if_false] at h ⊢
      revert h; pf_ok
    | true =>
      simp only [hav, if_true] at h ⊢
      obtain ⟨e, hle⟩ := align_app p1 r1 x (by omega)
      rw [e] at h
      cases h
      exact res_ok (by simp only [List.length_drop]; omega) (by simp only [List.length_drop]; omega)
  · cases af with
    | false =>
      simp only [Bool.false_eq_true, if_false]
      intro h; cases h
      exact res_ok (Nat.le_refl _) rfl
    | true =>
      simp only [if_true]
      intro h
      obtain ⟨e, hle⟩ := align_app pos q x hal
      rw [e] at h
      cases h
      exact res_ok (by simp only [List.length_drop]; omega) (by simp only [List.length_drop]; omega)

theorem pf_decRepeat {α : Type} {N : Nat} {p p' : St → DecM (α × St)} (hp : PF N p p') (n : Nat) :
    PF N (decRepeat p n) (decRepeat p' n) := by
  induction n with
  | zero =>
    intro pos q x a r _ hal h
    simp only [decRepeat] at h ⊢
    cases h
    exact res_ok (Nat.le_refl _) rfl
  | succ n ih =>
    intro pos q x a r hN hal h
    simp only [decRepeat] at h ⊢
    refine pf_bind hp hN hal rfl h ?_
    intro a1 p1 r1 hl hT1 _ h
    dsimp only at h ⊢
    refine pf_bind ih (by omega) hal hT1 h ?_
    intro as p2 r2 hl2 hT2 _
    pf_ok

theorem pf_decChunks {α : Type} {p p' : St → DecM (α × St)} (f : Nat) :
    ∀ (f' N : Nat), PF N p p' → N < f' → PF N (decChunks p f) (decChunks p' f') := by
  induction f with
  | zero => intro f' N hp hf pos q x a r hN hal h; simp only [decChunks] at h; cases h
  | succ f ih =>
    intro f' N hp hf pos q x a r hN hal h
    obtain ⟨f'', rfl⟩ : ∃ k, f' = k + 1 := ⟨f' - 1, by omega⟩
    simp only [decChunks] at h ⊢
    refine pf_bind (pf_readLenDet N) hN hal rfl h ?_
    intro len p1 r1 hl hT1 h1 h
    have hlt := readLenDet_lt h1
    dsimp only at hlt h ⊢
    refine pf_bind (pf_decRepeat hp len) (by omega) hal hT1 h ?_
    intro xs p2 r2 hl2 hT2 _ h
    dsimp only at h ⊢
    revert h
    split
    · pf_ok
    · intro h
      refine pf_bind (ih f'' r2.length (hp.mono (by omega)) (by omega)) (Nat.le_refl _) hal hT2 h ?_
      intro ys p3 r3 hl3 hT3 _
      pf_ok

theorem pf_decChunksBits (unit f : Nat) :
    ∀ (f' N : Nat), N < f' → PF N (decChunksBits unit f) (decChunksBits unit f') := by
  induction f with
  | zero => intro f' N hf pos q x a r hN hal h; simp only [decChunksBits] at h; cases h
  | succ f ih =>
    intro f' N hf pos q x a r hN hal h
    obtain ⟨f'', rfl⟩ : ∃ k, f' = k + 1 := ⟨f' - 1, by omega⟩
    simp only [decChunksBits] at h ⊢
    refine pf_bind (pf_readLenDet N) hN hal rfl h ?_
    intro len p1 r1 hl hT1 h1 h
    have hlt := readLenDet_lt h1
    dsimp only at hlt h ⊢
    refine pf_bind (pf_readBits _ N) (by omega) hal hT1 h ?_
    intro xs p2 r2 hl2 hT2 _ h
    dsimp only at h ⊢
    revert h
    split
    · pf_ok
    · intro h
      refine pf_bind (ih f'' r2.length (by omega)) (Nat.le_refl _) hal hT2 h ?_
      intro ys p3 r3 hl3 hT3 _
      pf_ok

/-- `Res` for parsers that return only the state -/
def ResU (x : Bits) (r : St) (n T : Nat) (out : DecM St) : Prop :=
  (∃ (p' : Nat) (r' : Bits), out = .ok ⟨p', r'⟩ ∧ r = ⟨p', r' ++ x⟩ ∧ r'.length ≤ n ∧
      p' + r'.length = T) ∨ out = .error .decodeError

theorem pf_skipUnknown (N : Nat) (bitmap : Bits) : ∀ (pos : Nat) (q x : Bits) (r : St),
    q.length ≤ N → (pos + q.length) % 8 = 0 → skipUnknown bitmap ⟨pos, q ++ x⟩ = .ok r →
    ResU x r q.length (pos + q.length) (skipUnknown bitmap ⟨pos, q⟩) := by
  induction bitmap with
  | nil =>
    intro pos q x r _ _ h
    simp only [skipUnknown] at h ⊢
    cases h
    exact .inl ⟨_, _, rfl, rfl, Nat.le_refl _, rfl⟩
  | cons present bitmap ih =>
    intro pos q x r hN hal h
    simp only [skipUnknown] at h ⊢
    revert h
    split
    · intro h
      obtain ⟨⟨len, s1⟩, h1, h⟩ := bind_ok h
      rcases pf_readLenDet N pos q x len s1 hN hal h1 with ⟨p1, r1, e1, rfl, hl1, hT1⟩ | e1
      · rw [e1]
        dsimp only at h
        obtain ⟨⟨body, s2⟩, h2, h⟩ := bind_ok h
        rcases pf_readBits _ N p1 r1 x body s2 (by omega) (by omega) h2 with
          ⟨p2, r2, e2, rfl, hl2, hT2⟩ | e2
        · dsimp only [bind, Except.bind]
          rw [e2]
          dsimp only at h ⊢
          rcases ih p2 r2 x r (by omega) (by omega) h with ⟨p3, r3, e3, rfl, hl3, hT3⟩ | e3
          · exact .inl ⟨p3, r3, e3, rfl, by omega, by omega⟩
          · exact .inr e3
        · dsimp only [bind, Except.bind]
          rw [e2]; exact .inr rfl
      · rw [e1]; exact .inr rfl
    · intro h; exact ih pos q x r hN hal h

/-- `pf_bind` for a first step that is not syntactically a parser applied to the state -/
theorem res_bind {α β : Type} {m m' : DecM (α × St)} {g g' : α × St → DecM (β × St)}
    {x : Bits} {b : β} {r : St} {n T : Nat}
    (hm : ∀ a s1, m = .ok (a, s1) → Res x a s1 n T m')
    (h : (m >>= g) = .ok (b, r))
    (hg : ∀ a pos1 r1, r1.length ≤ n → pos1 + r1.length = T → m' = .ok (a, ⟨pos1, r1⟩) →
      g (a, ⟨pos1, r1 ++ x⟩) = .ok (b, r) → Res x b r r1.length T (g' (a, ⟨pos1, r1⟩))) :
    Res x b r n T (m' >>= g') := by
  obtain ⟨⟨a, s1⟩, h1, h⟩ := bind_ok h
  rcases hm a s1 h1 with ⟨p1, r1', e1, rfl, hl, hT1⟩ | e1
  · rw [e1]; exact (hg a p1 r1' hl hT1 e1 h).mono hl
  · rw [e1]; exact .inr rfl

/-- bind after a parser that returns only the state -/
theorem res_bindU {β : Type} {m m' : DecM St} {g g' : St → DecM (β × St)}
    {x : Bits} {b : β} {r : St} {n T : Nat}
    (hm : ∀ s1, m = .ok s1 → ResU x s1 n T m')
    (h : (m >>= g) = .ok (b, r))
    (hg : ∀ pos1 r1, r1.length ≤ n → pos1 + r1.length = T → g ⟨pos1, r1 ++ x⟩ = .ok (b, r) →
      Res x b r r1.length T (g' ⟨pos1, r1⟩)) :
    Res x b r n T (m' >>= g') := by
  obtain ⟨s1, h1, h⟩ := bind_ok h
  rcases hm s1 h1 with ⟨p1, r1', e1, rfl, hl, hT1⟩ | e1
  · rw [e1]; exact (hg p1 r1' hl hT1 h).mono hl
  · rw [e1]; exact .inr rfl

end Asn1.Per
