import Asn1Proofs.Lemmas.ExtBerBase
/-
  C07, BER: CHOICE.  `ExtDerChoice.lean` with the decoder as a parameter (`Der.gChoice`,
  `Der.IsCodec.choice`): the alternative is selected by its identifier octets -- for ber.py
  `tag_to_member` also holds the constructed tag of the string alternatives, which `IsCodec.test_num`
  covers (a key with tag number `j` only ever leads to alternative `j`) --; an alternative the decoder
  does not know is stepped over with `skipTLV` and reported as `.choice "" .absent`.
  The lemmas about `viewAlt` (`DerX.pairA_find`, `DerX.pairA_find_none`) are reused.
-/
set_option linter.unusedSimpArgs false
set_option linter.unusedVariables false
namespace Asn1.Ext.BerX
open Asn1 Asn1.Der Asn1.Ext Asn1.Ext.DerX
open Asn1.X690 (defaultsOkV altsDefaultsOkV)

/-! ### the bare CHOICE of the decoder's version read back -/

theorem gBare_rootG {D : Decoder} {test : Ty → Nat → Bytes → Bool} (hD : IsCodec D test)
    (root : Alts) (ext : Bool) (adds : Alts) (name : String) (j : Nat) (t : Ty)
    (hf : root.findO name = some (j, t)) (w : Val) (body rest : Bytes) (fuel : Nat)
    (hst : ∃ r, body = tagOf t (some j) ++ r ∧ r ≠ [])
    (hdec : D t (some j) fuel (body ++ rest) = .ok (some (w, body.length, rest))) :
    gBare D test root ext adds fuel (body ++ rest)
      = .ok (some (.choice name w, body.length, rest)) := by
  obtain ⟨r, hr, hrne⟩ := hst
  have htag : readTag (body ++ rest) = .ok (tagOf t (some j), r ++ rest) := by
    rw [hr, List.append_assoc]
    exact readTag_mkTag_ctx _ _ _ _ (by simp [hrne])
  have hg := gAlt_find hD root name j t hf 0 fuel (body ++ rest)
  rw [Nat.zero_add] at hg
  rw [gBare, htag]
  simp only []
  rw [hg, hdec]

theorem gBare_addsG {D : Decoder} {test : Ty → Nat → Bytes → Bool} (hD : IsCodec D test)
    (root : Alts) (ext : Bool) (adds : Alts) (name : String) (j : Nat) (t : Ty)
    (hf : adds.findO name = some (j, t)) (w : Val) (body rest : Bytes) (fuel : Nat)
    (hst : ∃ r, body = tagOf t (some (root.length + j)) ++ r ∧ r ≠ [])
    (hdec : D t (some (root.length + j)) fuel (body ++ rest) = .ok (some (w, body.length, rest))) :
    gBare D test root ext adds fuel (body ++ rest)
      = .ok (some (.choice name w, body.length, rest)) := by
  obtain ⟨r, hr, hrne⟩ := hst
  have htag : readTag (body ++ rest) = .ok (tagOf t (some (root.length + j)), r ++ rest) := by
    rw [hr, List.append_assoc]
    exact readTag_mkTag_ctx _ _ _ _ (by simp [hrne])
  have hn : gAlt D test root 0 (tagOf t (some (root.length + j))) fuel (body ++ rest) = none :=
    gAlt_none hD root _ _ _ 0 fuel _ (by omega)
  have hg := gAlt_find hD adds name j t hf root.length fuel (body ++ rest)
  rw [gBare, htag]
  simp only []
  rw [hn]
  simp only []
  rw [hg, hdec]

/-- an alternative beyond all those the decoder knows, in an extensible CHOICE -/
theorem gBare_unknownG {D : Decoder} {test : Ty → Nat → Bytes → Bool} (hD : IsCodec D test)
    (root adds : Alts) (u : Nat) (c : Bool) (idx : Nat) (content rest : Bytes) (fuel : Nat)
    (h : root.length + adds.length ≤ idx) :
    gBare D test root true adds fuel (tlv (mkTag u c (some idx)) content ++ rest)
      = .ok (some (.choice "" .absent, (tlv (mkTag u c (some idx)) content).length, rest)) := by
  have htag : readTag (tlv (mkTag u c (some idx)) content ++ rest)
      = .ok (mkTag u c (some idx), Ber.encLength content.length ++ (content ++ rest)) := by
    rw [tlv_append]
    exact readTag_mkTag_ctx _ _ _ _ (by simp [encLength_ne_nil_rt])
  have hn1 : gAlt D test root 0 (mkTag u c (some idx)) fuel (tlv (mkTag u c (some idx)) content ++ rest) = none :=
    gAlt_none hD root _ _ _ 0 fuel _ (by omega)
  have hn2 : gAlt D test adds root.length (mkTag u c (some idx)) fuel
      (tlv (mkTag u c (some idx)) content ++ rest) = none :=
    gAlt_none hD adds _ _ _ root.length fuel _ (by omega)
  rw [gBare, htag]
  simp only []
  rw [hn1]
  simp only []
  rw [hn2]
  simp only [if_true, skipTLV_tlv]

/-! ### CHOICE -/

theorem xt_choiceG {D : Decoder} {test : Ty → Nat → Bytes → Bool} (hD : IsCodec D test)
    (rD rE aD aE : Alts) (x : Bool)
    (hr : PairA (XCg D) rD rE) (hrl : rD.length = rE.length) (ha : PairA (XCg D) aD aE) :
    XTg D (.choice rD x aD) (.choice rE x aE) := by
  intro tg v bytes rest fuel hwf hwf2 hd hdk ht he hfuel
  cases v <;> try (simp only [hasType, Bool.false_eq_true] at ht; done)
  rename_i name v
  simp only [hasType] at ht
  simp only [Ty.wf, Bool.and_eq_true, decide_eq_true_eq] at hwf
  obtain ⟨⟨⟨⟨hwr, hwa⟩, _⟩, hnd⟩, hxa⟩ := hwf
  simp only [Oer.oerWf, Bool.and_eq_true] at hwf2
  simp only [X690.defaultsOkV, Bool.and_eq_true] at hd
  rw [dOk] at hdk
  rw [view]
  simp only [enc] at he
  rw [encAlt_find, encAlt_find] at he
  rw [hD.choice]
  rcases Oer.choice_typed hnd ht with ⟨j, t, hf, hty⟩ | ⟨hf, j, t, hfa, hty⟩
  · -- alternative of the extension root
    simp only [hf, Option.map_some, Nat.zero_add] at he
    have hwt := find_all_oer name rE j t hf (alts_all_wf_oer rE hwr)
    have hwt2 := find_all_oer name rE j t hf (Oer.alts_all_oerWf rE hwf2.1)
    have hdt := find_all_oer name rE j t hf (alts_all_defaultsOkV rE hd.1)
    have hjlt : j < rD.length := by rw [hrl]; exact find_lt_oer name rE j t hf
    obtain ⟨tD, hfD, _, hdkt, hview⟩ := (pairA_find name v rD rE j t (pairA_toDer hr) hdk.1 hf).1 hjlt
    obtain ⟨hxt, hcp⟩ := pairA_get name rD rE j tD t hr hfD hf
    rw [hview]
    refine gChoice_of_bare rD x aD tg _ bytes rest fuel _ he ?_
    intro body hbody hle rest'
    refine gBare_rootG hD rD x aD name j tD hfD _ body rest' fuel ?_
      (hxt (some j) v body rest' fuel hwt hwt2 hdt hdkt hty hbody (by omega))
    rw [compat_tagOf hcp]
    exact enc_starts hbody
  · -- alternative among the extension additions
    simp only [hf, hfa, Option.map_some, Option.map_none] at he
    have hwt := find_all_oer name aE j t hfa (alts_all_wf_oer aE hwa)
    have hwt2 := find_all_oer name aE j t hfa (Oer.alts_all_oerWf aE hwf2.2)
    have hdt := find_all_oer name aE j t hfa (alts_all_defaultsOkV aE hd.2)
    rw [pairA_find_none name v rD rE (pairA_toDer hr) hf]
    by_cases hjlt : j < aD.length
    · -- known to the decoder
      obtain ⟨tD, hfD, _, hdkt, hview⟩ := (pairA_find name v aD aE j t (pairA_toDer ha) hdk.2 hfa).1 hjlt
      obtain ⟨hxt, hcp⟩ := pairA_get name aD aE j tD t ha hfD hfa
      simp only [hview]
      refine gChoice_of_bare rD x aD tg _ bytes rest fuel _ he ?_
      intro body hbody hle rest'
      rw [← hrl] at hbody
      refine gBare_addsG hD rD x aD name j tD hfD _ body rest' fuel ?_
        (hxt (some (rD.length + j)) v body rest' fuel hwt hwt2 hdt hdkt hty hbody (by omega))
      rw [compat_tagOf hcp]
      exact enc_starts hbody
    · -- unknown to the decoder
      have hview := (pairA_find name v aD aE j t (pairA_toDer ha) hdk.2 hfa).2 (by omega)
      simp only [hview]
      have hx : x = true := by
        have hpos : 0 < aE.length := by
          have := find_lt_oer name aE j t hfa
          omega
        cases x with
        | true => rfl
        | false =>
          simp only [Bool.false_or, beq_iff_eq] at hxa
          omega
      subst hx
      refine gChoice_of_bare rD true aD tg _ bytes rest fuel _ he ?_
      intro body hbody hle rest'
      obtain ⟨content, hc⟩ := enc_tlv hbody
      subst hc
      exact gBare_unknownG hD rD aD _ _ (rE.length + j) content rest' fuel (by omega)

end Asn1.Ext.BerX
