import Asn1Proofs.Lemmas.X690CompDefs
/-
  C04 completeness (`COMP`, X690CompDefs.lean) for the primitive leaves BOOLEAN, NULL, INTEGER,
  ENUMERATED and for SEQUENCE OF.

  * the framing functions of the reference decoder (`takeN`, `stripPrefix`, `readLength`,
    `primitiveContents`) are stable under appending to the input when they succeed;
  * the strict reference decoder `decVS` consumes at least one octet whenever it succeeds
    (`progSo_all`): needed for the element loop of the code (`BerCodec.items`) not to run out of fuel;
  * the loop lemma `items_of_elements_so`: what the reference `elements` parses, in definite mode
    (contents cut out, parsed to the end) and in indefinite mode (end-of-contents octets follow),
    the code's `items` parses with the same values.
-/
set_option linter.unusedSimpArgs false
set_option linter.unusedVariables false
namespace Asn1.X690
open Asn1.Der (readLen readPrim matchTag mkTag)

/-! ### stability of the framing functions under appending to the input -/

theorem takeN_app_so {n : Nat} {bs c r : Bytes} (x : Bytes) (h : takeN n bs [] = some (c, r)) :
    takeN n (bs ++ x) [] = some (c, r ++ x) := by
  obtain ⟨e1, e2⟩ := takeN_some h
  subst e1; subst e2
  rw [List.append_assoc]; exact takeN_append c (r ++ x)

theorem stripPrefix_self_so (p r : Bytes) : stripPrefix p (p ++ r) = some r := by
  induction p with
  | nil => simp [stripPrefix]
  | cons a p ih => simp [stripPrefix, ih]

theorem stripPrefix_app_so {p bs r : Bytes} (x : Bytes) (h : stripPrefix p bs = some r) :
    stripPrefix p (bs ++ x) = some (r ++ x) := by
  rw [stripPrefix_some h, List.append_assoc]; exact stripPrefix_self_so _ _

theorem readLength_app_so {bs r : Bytes} {l : Len} (x : Bytes) (h : readLength bs = some (l, r)) :
    readLength (bs ++ x) = some (l, r ++ x) := by
  cases bs with
  | nil => simp [readLength] at h
  | cons b r0 =>
    simp only [readLength] at h
    simp only [List.cons_append, readLength]
    by_cases h1 : b < 128
    · rw [if_pos h1] at h ⊢; cases h; rfl
    · rw [if_neg h1] at h ⊢
      by_cases h2 : b = 128
      · rw [if_pos h2] at h ⊢; cases h; rfl
      · rw [if_neg h2] at h ⊢
        by_cases h3 : b < 255
        · rw [if_pos h3] at h ⊢
          split at h
          · rename_i ds r' hds
            cases h
            rw [takeN_app_so x hds]
          · cases h
        · rw [if_neg h3] at h; cases h

theorem primitiveContents_app_so {bs c r : Bytes} (x : Bytes) (h : primitiveContents bs = some (c, r)) :
    primitiveContents (bs ++ x) = some (c, r ++ x) := by
  obtain ⟨n, r1, hr, hc⟩ := primitiveContents_some h
  simp only [primitiveContents, readLength_app_so x hr, takeN_app_so x hc]

/-! ### the primitive leaves -/

/-- the reference decoder of a primitive leaf does not look at what follows -/
theorem decV_leaf_append (t : Ty) (tg : Option Nat) (fuel : Nat) (bs rest extra : Bytes) (v : Val)
    (hl : isPrimLeaf t = true) (h : decV t tg fuel bs = some (v, rest)) :
    decV t tg fuel (bs ++ extra) = some (v, rest ++ extra) := by
  cases t with
  | boolean =>
    rw [decV] at h ⊢
    split at h
    · cases h
    · rename_i r hs
      split at h
      · rename_i b r' hp
        cases h
        simp only [stripPrefix_app_so extra hs, primitiveContents_app_so extra hp]
      · cases h
  | null =>
    rw [decV] at h ⊢
    split at h
    · cases h
    · rename_i r hs
      split at h
      · rename_i r' hp
        cases h
        simp only [stripPrefix_app_so extra hs, primitiveContents_app_so extra hp]
      · cases h
  | integer c =>
    rw [decV] at h ⊢
    split at h
    · cases h
    · rename_i r hs
      split at h
      · rename_i ct r' hp
        split at h
        · rename_i hm
          cases h
          simp only [stripPrefix_app_so extra hs, primitiveContents_app_so extra hp, hm, if_true]
        · cases h
      · cases h
  | enumerated root ext =>
    rw [decV] at h ⊢
    split at h
    · cases h
    · rename_i r hs
      split at h
      · rename_i ct r' hp
        split at h
        · rename_i hm
          split at h
          · rename_i name hname
            cases h
            simp only [stripPrefix_app_so extra hs, primitiveContents_app_so extra hp, hm, if_true, hname]
          · cases h
        · cases h
      · cases h
  | _ => simp [isPrimLeaf] at hl

/-- the fuel of the leaf decoders is irrelevant -/
theorem decV_leaf_fuel_so (t : Ty) (tg : Option Nat) (f f' : Nat) (bs : Bytes) (hl : isPrimLeaf t = true) :
    decV t tg f bs = decV t tg f' bs := by
  cases t with
  | boolean => rw [decV, decV]
  | null => rw [decV, decV]
  | integer c => rw [decV, decV]
  | enumerated root ext => rw [decV, decV]
  | _ => simp [isPrimLeaf] at hl

theorem comp_leaf_so (t : Ty) (hl : isPrimLeaf t = true)
    (hS : ∀ tg fuel bs, decVS t tg fuel bs = decV t tg fuel bs) : COMP t := by
  intro tg fuel fuelC bs rest extra v h hlen
  rw [hS] at h
  have h1 := decV_leaf_append t tg fuel bs rest extra v hl h
  rw [decV_leaf_fuel_so t tg fuel fuelC _ hl] at h1
  obtain ⟨k, hk, hl2⟩ := complete_leaf t tg fuelC (bs ++ extra) (rest ++ extra) v hl h1
  refine ⟨k, hk, ?_⟩
  simp only [List.length_append] at hl2; omega

theorem comp_boolean : COMP .boolean :=
  comp_leaf_so _ rfl (fun tg fuel bs => by rw [decVS])
theorem comp_null : COMP .null :=
  comp_leaf_so _ rfl (fun tg fuel bs => by rw [decVS])
theorem comp_integer (c : IntC) : COMP (.integer c) :=
  comp_leaf_so _ rfl (fun tg fuel bs => by rw [decVS])
theorem comp_enumerated (root : List (String × Int)) (ext : Option (List (String × Int))) :
    COMP (.enumerated root ext) :=
  comp_leaf_so _ rfl (fun tg fuel bs => by rw [decVS])

/-! ### progress: the strict reference decoder consumes at least one octet -/

theorem header_ne_nil_so (t : Ty) (tg : Option Nat) (c : Bool) : header t tg c ≠ [] := by
  rw [header_eq_mkTag]; exact Der.mkTag_ne_nil _ _ _

theorem identifier_ctx_ne_nil_so (c : Bool) (i : Nat) : identifier .context c i ≠ [] := by
  rw [identifier_context 0]; exact Der.mkTag_ne_nil _ _ _

theorem stripPrefix_lt_so {p bs r : Bytes} (h : stripPrefix p bs = some r) (hp : p ≠ []) :
    r.length < bs.length := by
  rw [stripPrefix_some h, List.length_append]
  cases p with
  | nil => exact absurd rfl hp
  | cons a p => simp only [List.length_cons]; omega

theorem takeN_le_so {n : Nat} {bs c r : Bytes} (h : takeN n bs [] = some (c, r)) : r.length ≤ bs.length := by
  obtain ⟨e1, _⟩ := takeN_some h
  rw [e1, List.length_append]; omega

theorem readLength_lt_so {bs r : Bytes} {l : Len} (h : readLength bs = some (l, r)) : r.length < bs.length := by
  cases bs with
  | nil => simp [readLength] at h
  | cons b r0 =>
    simp only [readLength] at h
    split at h
    · cases h; simp
    · split at h
      · cases h; simp
      · split at h
        · split at h
          · rename_i ds r' hds
            cases h
            have := takeN_le_so hds
            simp only [List.length_cons]; omega
          · cases h
        · cases h

theorem primitiveContents_le_so {bs c r : Bytes} (h : primitiveContents bs = some (c, r)) : r.length ≤ bs.length := by
  obtain ⟨n, r1, hr, hc⟩ := primitiveContents_some h
  have := readLength_lt_so hr
  have := takeN_le_so hc
  omega

theorem constructedContents_le_so {α : Type} {p : Bytes → Option (α × Bytes)} {bs r : Bytes} {a : α}
    (hp : ∀ x a y, p x = some (a, y) → y.length ≤ x.length)
    (h : constructedContents p bs = some (a, r)) : r.length ≤ bs.length := by
  unfold constructedContents at h
  split at h
  · rename_i n r1 hr
    have h1 := readLength_lt_so hr
    split at h
    · rename_i c rest hc
      have h2 := takeN_le_so hc
      split at h
      · cases h; omega
      · cases h
    · cases h
  · rename_i r1 hr
    have h1 := readLength_lt_so hr
    split at h
    · rename_i a' rest hpr
      cases h
      have := hp _ _ _ hpr
      simp only [List.length_cons] at this; omega
    · cases h
  · cases h

theorem constructedContentsI_le_so {α : Type} {p : Bool → Bytes → Option (α × Bytes)} {bs r : Bytes} {a : α}
    (hp : ∀ b x a y, p b x = some (a, y) → y.length ≤ x.length)
    (h : constructedContentsI p bs = some (a, r)) : r.length ≤ bs.length := by
  unfold constructedContentsI at h
  split at h
  · rename_i n r1 hr
    have h1 := readLength_lt_so hr
    split at h
    · rename_i c rest hc
      have h2 := takeN_le_so hc
      split at h
      · cases h; omega
      · cases h
    · cases h
  · rename_i r1 hr
    have h1 := readLength_lt_so hr
    split at h
    · rename_i a' rest hpr
      cases h
      have := hp _ _ _ _ hpr
      simp only [List.length_cons] at this; omega
    · cases h
  · cases h

theorem segments_le_so (u : Nat) : ∀ (fuel : Nat) (bs : Bytes) (cs : List Bytes) (r : Bytes),
    segments u fuel bs = some (cs, r) → r.length ≤ bs.length := by
  intro fuel
  induction fuel with
  | zero => intro bs cs r h; simp [segments] at h
  | succ f ih =>
    intro bs cs r h
    unfold segments at h
    split at h
    · cases h; exact Nat.le_refl _
    · split at h
      · cases h
      · rename_i b r0
        split at h
        · split at h
          · rename_i c r' hp
            split at h
            · rename_i cs' r'' hs
              cases h
              have := primitiveContents_le_so hp
              have := ih _ _ _ hs
              simp only [List.length_cons]; omega
            · cases h
          · cases h
        · split at h
          · split at h
            · rename_i cs1 r' hc
              split at h
              · rename_i cs' r'' hs
                cases h
                have := constructedContents_le_so (fun x a y hx => ih x a y hx) hc
                have := ih _ _ _ hs
                simp only [List.length_cons]; omega
              · cases h
            · cases h
          · cases h

theorem stringChunks_lt_so {u fuel : Nat} {prim cons bs r : Bytes} {cs : List Bytes}
    (hprim : prim ≠ []) (hcons : cons ≠ [])
    (h : stringChunks u fuel prim cons bs = some (cs, r)) : r.length < bs.length := by
  unfold stringChunks at h
  split at h
  · rename_i r0 hs
    have := stripPrefix_lt_so hs hprim
    split at h
    · rename_i c r' hp
      cases h
      have := primitiveContents_le_so hp
      omega
    · cases h
  · split at h
    · rename_i r0 hs
      have := stripPrefix_lt_so hs hcons
      have := constructedContents_le_so (fun x a y hx => segments_le_so u fuel x a y hx) h
      omega
    · cases h

theorem elements_le_so {p : Bytes → Option (Val × Bytes)}
    (hp : ∀ x a y, p x = some (a, y) → y.length ≤ x.length) :
    ∀ (f : Nat) (x : Bytes) (vs : List Val) (y : Bytes), elements p f x = some (vs, y) → y.length ≤ x.length := by
  intro f
  induction f with
  | zero => intro x vs y h; simp [elements] at h
  | succ f ih =>
    intro x vs y h
    rw [elements] at h
    split at h
    · cases h; exact Nat.le_refl _
    · split at h
      · rename_i v r hpx
        split at h
        · rename_i vs' r' he
          cases h
          have := hp _ _ _ hpx
          have := ih _ _ _ he
          omega
        · cases h
      · cases h

/-- a successful `decVS` consumes at least one octet -/
def ProgSo (t : Ty) : Prop :=
  ∀ (tg : Option Nat) (fuel : Nat) (bs : Bytes) (v : Val) (rest : Bytes),
    decVS t tg fuel bs = some (v, rest) → rest.length < bs.length

theorem progSo_of_leaf (t : Ty) (hl : isPrimLeaf t = true)
    (hS : ∀ tg fuel bs, decVS t tg fuel bs = decV t tg fuel bs) : ProgSo t := by
  intro tg fuel bs v rest h
  rw [hS] at h
  have hcl : ∀ r c r', stripPrefix (header t tg false) bs = some r → primitiveContents r = some (c, r') →
      r'.length < bs.length := by
    intro r c r' hs hp
    have := stripPrefix_lt_so hs (header_ne_nil_so _ _ _)
    have := primitiveContents_le_so hp
    omega
  cases t with
  | boolean =>
    rw [decV] at h
    split at h
    · cases h
    · rename_i r hs
      split at h
      · rename_i b r' hp
        cases h; exact hcl _ _ _ hs hp
      · cases h
  | null =>
    rw [decV] at h
    split at h
    · cases h
    · rename_i r hs
      split at h
      · rename_i r' hp
        cases h; exact hcl _ _ _ hs hp
      · cases h
  | integer c =>
    rw [decV] at h
    split at h
    · cases h
    · rename_i r hs
      split at h
      · rename_i ct r' hp
        split at h
        · cases h; exact hcl _ _ _ hs hp
        · cases h
      · cases h
  | enumerated root ext =>
    rw [decV] at h
    split at h
    · cases h
    · rename_i r hs
      split at h
      · rename_i ct r' hp
        split at h
        · split at h
          · cases h; exact hcl _ _ _ hs hp
          · cases h
        · cases h
      · cases h
  | _ => simp [isPrimLeaf] at hl

theorem progSo_octetString (c : SizeC) : ProgSo (.octetString c) := by
  intro tg fuel bs v rest h
  rw [decVS, decV] at h
  split at h
  · rename_i cs r hs
    cases h
    exact stringChunks_lt_so (header_ne_nil_so _ _ _) (header_ne_nil_so _ _ _) hs
  · cases h

theorem progSo_charString (k : StrKind) (c : SizeC) : ProgSo (.charString k c) := by
  intro tg fuel bs v rest h
  rw [decVS, decV] at h
  split at h
  · rename_i cs r hs
    split at h
    · cases h
      exact stringChunks_lt_so (header_ne_nil_so _ _ _) (header_ne_nil_so _ _ _) hs
    · cases h
  · cases h

theorem progSo_bitString (c : SizeC) : ProgSo (.bitString c) := by
  intro tg fuel bs v rest h
  rw [decVS] at h
  split at h
  · rename_i cs r hs
    split at h
    · split at h
      · cases h
        exact stringChunks_lt_so (header_ne_nil_so _ _ _) (header_ne_nil_so _ _ _) hs
      · cases h
    · cases h
  · cases h

theorem progSo_sequenceOf (e : Ty) (c : SizeC) (ih : ProgSo e) : ProgSo (.sequenceOf e c) := by
  intro tg fuel bs v rest h
  rw [decVS] at h
  split at h
  · cases h
  · rename_i r hs
    have h1 := stripPrefix_lt_so hs (header_ne_nil_so _ _ _)
    split at h
    · rename_i vs r' hc
      cases h
      have := constructedContents_le_so
        (elements_le_so (fun x a y hx => Nat.le_of_lt (ih none fuel x a y hx)) fuel) hc
      omega
    · cases h

theorem decComponentsS_le_so (ms : Members) : ms.AllO ProgSo →
    ∀ (i fuel : Nat) (bs : Bytes) (fs : List (String × Val)) (r : Bytes),
      decComponentsS ms i fuel bs = some (fs, r) → r.length ≤ bs.length := by
  induction ms using Members.ind with
  | nil => intro _ i fuel bs fs r h; rw [decComponentsS] at h; cases h; exact Nat.le_refl _
  | cons name p t rest ih =>
    intro hall i fuel bs fs r h
    obtain ⟨ht, hrest⟩ := hall
    unfold decComponentsS at h
    split at h
    · split at h
      · cases h
      · rename_i v r1 hd
        split at h
        · cases h
        · rename_i fs' r' hr
          cases h
          have := ht _ _ _ _ _ hd
          have := ih hrest _ _ _ _ _ hr
          omega
    · split at h
      · cases h
      · exact ih hrest _ _ _ _ _ h
      · split at h
        · cases h
        · rename_i fs' r' hr
          cases h
          exact ih hrest _ _ _ _ _ hr

theorem decAlternativesS_lt_so (as : Alts) : as.AllO ProgSo →
    ∀ (i fuel : Nat) (bs : Bytes) (v : Val) (r : Bytes),
      decAlternativesS as i fuel bs = some (v, r) → r.length < bs.length := by
  induction as using Alts.ind with
  | nil => intro _ i fuel bs v r h; rw [decAlternativesS] at h; cases h
  | cons n t rest ih =>
    intro hall i fuel bs v r h
    obtain ⟨ht, hrest⟩ := hall
    rw [decAlternativesS] at h
    split at h
    · split at h
      · rename_i v' r' hd
        cases h
        exact ht _ _ _ _ _ hd
      · cases h
    · exact ih hrest _ _ _ _ _ h

theorem progSo_sequence (root : Members) (ext : Bool) (adds : Members)
    (ihr : root.AllO ProgSo) (iha : adds.AllO ProgSo) : ProgSo (.sequence root ext adds) := by
  intro tg fuel bs v rest h
  rw [decVS] at h
  split at h
  · cases h
  · rename_i r hs
    have h1 := stripPrefix_lt_so hs (header_ne_nil_so _ _ _)
    have := constructedContentsI_le_so (p := _) (fun b x a y hx => by
      split at hx
      · cases hx
      · rename_i fs1 c1 h1
        split at hx
        · cases hx
        · rename_i fs2 c2 h2
          cases hx
          have := decComponentsS_le_so root ihr _ _ _ _ _ h1
          have := decComponentsS_le_so adds iha _ _ _ _ _ h2
          omega) h
    omega

theorem progSo_choice (root : Alts) (ext : Bool) (adds : Alts)
    (ihr : root.AllO ProgSo) (iha : adds.AllO ProgSo) : ProgSo (.choice root ext adds) := by
  intro tg fuel bs v rest h
  have hch : ∀ (b : Bytes) (a : Val) (y : Bytes),
      (match decAlternativesS root 0 fuel b with
        | some x => some x
        | none => decAlternativesS adds root.length fuel b) = some (a, y) → y.length < b.length := by
    intro b a y hx
    split at hx
    · rename_i x hx1
      cases hx
      exact decAlternativesS_lt_so root ihr _ _ _ _ _ hx1
    · exact decAlternativesS_lt_so adds iha _ _ _ _ _ hx
  cases tg with
  | none => rw [decVS] at h; exact hch _ _ _ h
  | some i =>
    rw [decVS] at h
    split at h
    · cases h
    · rename_i r hs
      have h1 := stripPrefix_lt_so hs (identifier_ctx_ne_nil_so _ _)
      have := constructedContents_le_so (fun x a y hx => Nat.le_of_lt (hch x a y hx)) h
      omega

theorem progSo_all (t : Ty) : ProgSo t :=
  Ty.rec (motive_1 := ProgSo) (motive_2 := Members.AllO ProgSo) (motive_3 := Alts.AllO ProgSo)
    (progSo_of_leaf _ rfl (fun tg fuel bs => by rw [decVS]))
    (progSo_of_leaf _ rfl (fun tg fuel bs => by rw [decVS]))
    (fun c => progSo_of_leaf _ rfl (fun tg fuel bs => by rw [decVS]))
    (fun r x => progSo_of_leaf _ rfl (fun tg fuel bs => by rw [decVS]))
    progSo_octetString progSo_bitString progSo_charString
    (fun root ext adds ihr iha => progSo_sequence root ext adds ihr iha)
    (fun e c ih => progSo_sequenceOf e c ih)
    (fun root ext adds ihr iha => progSo_choice root ext adds ihr iha)
    trivial (fun _ _ _ _ iht ihr => ⟨iht, ihr⟩)
    trivial (fun _ _ _ iht ihr => ⟨iht, ihr⟩) t

/-! ### SEQUENCE OF: the element loop -/

theorem eoc_app_so (x extra' : Bytes) (hlen : 2 ≤ x.length) (hs : startsEOC x = false) :
    Der.eoc (x ++ extra') = .ok false := by
  match x, hlen, hs with
  | [], hl, _ => simp at hl
  | [a], hl, _ => simp at hl
  | a :: b :: t, _, hs =>
    cases a with
    | zero =>
      cases b with
      | zero => simp [startsEOC] at hs
      | succ b => simp [Der.eoc]
    | succ a => simp [Der.eoc]

/-- definite mode: the reference decoder parses the cut-out contents `x` to the end -/
theorem items_definite_so (e : Ty) (ih : COMP e) (f0 fuelC : Nat) :
    ∀ (f : Nat) (x : Bytes) (vs : List Val) (extra' : Bytes) (lf : Nat),
      elements (decVS e none f0) f x = some (vs, []) → x.length < lf → (x ++ extra').length < fuelC →
      BerCodec.items (BerCodec.dec e none fuelC) lf (some x.length) (x ++ extra')
        = .ok (vs, x.length, extra') := by
  intro f
  induction f with
  | zero => intro x vs extra' lf h; simp [elements] at h
  | succ f ihf =>
    intro x vs extra' lf h hlf hfc
    obtain ⟨lf', rfl⟩ : ∃ lf', lf = lf' + 1 := ⟨lf - 1, by omega⟩
    rw [elements] at h
    split at h
    · cases h
      simp [BerCodec.items]
    · rename_i hstop
      split at h
      · rename_i v x' hd
        split at h
        · rename_i vs' y he
          cases h
          obtain ⟨k, hk, hlen⟩ := ih none f0 fuelC x x' extra' v hd hfc
          have hprog := progSo_all e none f0 x v x' hd
          have hx0 : (x.length == 0) = false := by
            cases hh : x.length == 0
            · rfl
            · have : x.length = 0 := by simpa using hh
              omega
          have hfc' : (x' ++ extra').length < fuelC := by
            simp only [List.length_append] at hfc ⊢; omega
          have hrec := ihf x' vs' extra' lf' he (by omega) hfc'
          have e1 : x.length - k = x'.length := by omega
          have e2 : k + x'.length = x.length := by omega
          simp only [BerCodec.items, hx0, hk, Option.map, e1, hrec, e2]
        · cases h
      · cases h

/-- indefinite mode: the end-of-contents octets follow what the reference decoder parsed -/
theorem items_indefinite_so (e : Ty) (ih : COMP e) (f0 fuelC : Nat) :
    ∀ (f : Nat) (x : Bytes) (vs : List Val) (rest extra' : Bytes) (lf : Nat),
      elements (decVS e none f0) f x = some (vs, 0 :: 0 :: rest) → x.length < lf →
      (x ++ extra').length < fuelC →
      BerCodec.items (BerCodec.dec e none fuelC) lf none (x ++ extra')
        = .ok (vs, (x.length - (rest.length + 2)) + 2, rest ++ extra') := by
  intro f
  induction f with
  | zero => intro x vs rest extra' lf h; simp [elements] at h
  | succ f ihf =>
    intro x vs rest extra' lf h hlf hfc
    obtain ⟨lf', rfl⟩ : ∃ lf', lf = lf' + 1 := ⟨lf - 1, by omega⟩
    rw [elements] at h
    split at h
    · cases h
      simp [BerCodec.items, Der.eoc]
    · rename_i hstop
      split at h
      · rename_i v x' hd
        split at h
        · rename_i vs' y he
          cases h
          obtain ⟨k, hk, hlen⟩ := ih none f0 fuelC x x' extra' v hd hfc
          have hprog := progSo_all e none f0 x v x' hd
          have hy := elements_le_so (fun x a y hx => Nat.le_of_lt (progSo_all e none f0 x a y hx)) f _ _ _ he
          simp only [List.length_cons] at hy
          have hse : startsEOC x = false := by
            cases hh : startsEOC x
            · rfl
            · simp [hh] at hstop
          have heoc := eoc_app_so x extra' (by omega) hse
          have hfc' : (x' ++ extra').length < fuelC := by
            simp only [List.length_append] at hfc ⊢; omega
          have hrec := ihf x' vs' rest extra' lf' he (by omega) hfc'
          have e2 : k + (x'.length - (rest.length + 2) + 2) = x.length - (rest.length + 2) + 2 := by omega
          simp only [BerCodec.items, heoc, hk, Option.map, hrec, e2]
        · cases h
      · cases h

theorem readLength_indef_len_so {bs r : Bytes} (h : readLength bs = some (.indefinite, r)) :
    bs.length = 1 + r.length := by
  cases bs with
  | nil => simp [readLength] at h
  | cons b r0 =>
    simp only [readLength] at h
    split at h
    · cases h
    · split at h
      · cases h; simp [Nat.add_comm]
      · split at h
        · split at h <;> cases h
        · cases h

theorem comp_sequenceOf (e : Ty) (c : SizeC) (ih : COMP e) : COMP (.sequenceOf e c) := by
  intro tg fuel fuelC bs rest extra v h hlen
  rw [decVS] at h
  split at h
  · cases h
  · rename_i r hs
    have hbs := stripPrefix_some hs
    rw [header_eq_mkTag] at hbs
    simp only [Der.univNumber] at hbs
    subst hbs
    simp only [List.length_append] at hlen
    split at h
    · rename_i vs r' hc
      cases h
      unfold constructedContents at hc
      split at hc
      · -- definite length
        rename_i n r1 hr
        split at hc
        · rename_i ct rest' htk
          split at hc
          · rename_i a hel
            cases hc
            obtain ⟨e1, e2⟩ := takeN_some htk
            subst e1; subst e2
            have hr' := readLength_app_so extra hr
            have htk' := takeN_app_so extra htk
            obtain ⟨hdr, hlenr, hb⟩ := readLen_of_readLength (d := false) hr' htk'
            simp only [List.length_append] at hb
            have hrl := readLength_lt_so hr
            simp only [List.length_append] at hrl
            have hit := items_definite_so e ih fuel fuelC fuel ct vs (rest ++ extra) fuelC hel
              (by omega) (by simp only [List.length_append]; omega)
            refine ⟨(mkTag 16 true tg).length + hdr + ct.length, ?_, ?_⟩
            · rw [BerCodec.dec, List.append_assoc]
              rw [List.append_assoc] at hlenr
              simp only [bind, Except.bind, Der.matchTag_self, hlenr, hit]
            · simp only [List.length_append]; omega
          · cases hc
        · cases hc
      · -- indefinite length
        rename_i r1 hr
        split at hc
        · rename_i a rest' hel
          cases hc
          have hr' := readLength_app_so extra hr
          have hlenr := readLen_of_readLength_indef hr'
          have hb := readLength_indef_len_so hr
          have hy := elements_le_so (fun x a y hx => Nat.le_of_lt (progSo_all e none fuel x a y hx)) fuel _ _ _ hel
          simp only [List.length_cons] at hy
          have hit := items_indefinite_so e ih fuel fuelC fuel r1 vs rest extra fuelC hel
            (by omega) (by simp only [List.length_append]; omega)
          refine ⟨(mkTag 16 true tg).length + 1 + (r1.length - (rest.length + 2) + 2), ?_, ?_⟩
          · rw [BerCodec.dec, List.append_assoc]
            simp only [bind, Except.bind, Der.matchTag_self, hlenr, hit]
          · simp only [List.length_append]; omega
        · cases hc
      · cases hc
    · cases h

end Asn1.X690

#print axioms Asn1.X690.comp_sequenceOf
#print axioms Asn1.X690.comp_integer
#print axioms Asn1.X690.decV_leaf_append
#print axioms Asn1.X690.progSo_all
