import Asn1Model.Per
import Asn1Proofs.Lemmas.X691Refine
/-
  Primitive lemmas relating the ALIGNED variant of the X.691 specification model
  (`Asn1Model/X691.lean`, `aligned = true`) to the primitives of the code model `Asn1Model/Per.lean`:
  alignment, constrained whole numbers, length determinants with fragmentation, open types and the
  generic position threading combinators.
-/
set_option linter.unusedSimpArgs false
set_option linter.unusedVariables false
namespace Asn1.X691
open Asn1.Uper (lenDet encChunks encChunked padToByte)
open Asn1.Per (alignBits padLen)

/-! ### alignment -/

theorem pad_true (pos : Nat) : pad true pos = alignBits pos := rfl

@[simp] theorem alignBits_length (pos : Nat) : (alignBits pos).length = padLen pos := by
  unfold alignBits; simp

theorem padLen_of_aligned {pos : Nat} (h : pos % 8 = 0) : padLen pos = 0 := by
  unfold padLen; omega

theorem alignBits_of_aligned {pos : Nat} (h : pos % 8 = 0) : alignBits pos = [] := by
  unfold alignBits; rw [padLen_of_aligned h]; rfl

theorem add_padLen_mod (pos : Nat) : (pos + padLen pos) % 8 = 0 := by
  unfold padLen; omega

theorem lenDet_length_mod (n : Nat) : (lenDet n).1.length % 8 = 0 := by
  unfold lenDet; repeat' split
  all_goals simp

theorem lenDet_snd_mod (n : Nat) (h : ¬ (lenDet n).2 < 16384) : (lenDet n).2 % 8 = 0 := by
  revert h
  unfold lenDet; repeat' split
  all_goals first | omega | simp

theorem flatten_length_uniform (u : Nat) (l : List Bits) (h : ∀ x ∈ l, x.length = u) :
    l.flatten.length = l.length * u := by
  induction l with
  | nil => simp
  | cons a r ih =>
    rw [List.flatten_cons, List.length_append, ih (fun x hx => h x (by simp [hx])),
      h a (by simp), List.length_cons, Nat.succ_mul]
    omega

/-! ### fragmentation: items of one size -/

/-- every fragment but the last holds a multiple of 16K items, hence a whole number of octets:
only the first length determinant needs padding -/
theorem frag_true (u : Nat) (fuel pos : Nat) (items : List Bits) (hu : ∀ x ∈ items, x.length = u) :
    frag true fuel pos items = (if fuel = 0 then [] else alignBits pos) ++ encChunks fuel items := by
  induction fuel generalizing pos items with
  | zero => rfl
  | succ fuel ih =>
    simp only [frag, encChunks, pad_true, lengthOctets_eq, Nat.succ_ne_zero, if_false]
    by_cases hk : (lenDet items.length).2 < 16384
    · simp [hk]
    · simp only [hk, if_false]
      rw [ih _ _ (fun x hx => hu x (List.mem_of_mem_drop hx))]
      have hb : ((List.take (lenDet items.length).2 items).flatten).length % 8 = 0 := by
        rw [flatten_length_uniform u _ (fun x hx => hu x (List.mem_of_mem_take hx)),
          List.length_take]
        have h1 := Uper.lenDet_snd_le items.length
        have h2 := lenDet_snd_mod _ hk
        rw [Nat.min_eq_left h1, Nat.mul_mod, h2]; simp
      have hal : alignBits (pos + (alignBits pos).length + (lenDet items.length).1.length +
          ((List.take (lenDet items.length).2 items).flatten).length) = [] := by
        apply alignBits_of_aligned
        have h1 := add_padLen_mod pos
        have h2 := lenDet_length_mod items.length
        simp only [alignBits_length]
        omega
      rw [hal]
      simp

theorem genLen_true (u : Nat) (pos : Nat) (items : List Bits) (hu : ∀ x ∈ items, x.length = u) :
    genLen true pos items = alignBits pos ++ encChunked items := by
  unfold genLen encChunked
  rw [frag_true u _ _ _ hu, if_neg (by omega)]

theorem uniform_map_natToBits (w : Nat) (l : List Nat) :
    ∀ x ∈ l.map (natToBits w), x.length = w := by
  intro x hx
  obtain ⟨a, _, rfl⟩ := List.mem_map.mp hx
  simp

theorem uniform_map_singleton (l : Bits) : ∀ x ∈ l.map (fun b => [b]), x.length = 1 := by
  intro x hx
  obtain ⟨a, _, rfl⟩ := List.mem_map.mp hx
  rfl

theorem lenOctets_true (pos : Nat) (bs : Bytes) :
    lenOctets true pos bs = alignBits pos ++ encChunked (bs.map (natToBits 8)) := by
  unfold lenOctets
  exact genLen_true 8 _ _ (uniform_map_natToBits 8 bs)

theorem lenOctets_true_small (pos : Nat) (bs : Bytes) (h : bs.length < 16384) :
    lenOctets true pos bs = alignBits pos ++ ((lenDet bs.length).1 ++ bytesToBits bs) := by
  rw [lenOctets_true, encChunked_small _ (by simpa using h), flatten_map_natToBits8]
  simp

/-! ### whole numbers -/

theorem cwn_true_small (pos v range : Nat) (h : range ≤ 65536) :
    cwn true pos v range = Per.encCwn pos v range (bitLength (range - 1)) := by
  unfold cwn cwnSmall Per.encCwn
  simp only [Bool.not_true, Bool.false_or, decide_eq_true_eq, if_pos h, pad_true]
  by_cases h1 : range ≤ 1
  · have h0 : range - 1 = 0 := by omega
    rw [if_pos h1, if_pos (by omega), h0]
    rfl
  · rw [if_neg h1, minBits_eq]

theorem sizeAsBytes_eq (n : Nat) : Per.sizeAsBytes n = minOctets n := by
  rw [minOctets_eq]; rfl

theorem bitLength_pos {n : Nat} (h : n ≠ 0) : 0 < bitLength n := by
  unfold bitLength; simp [h]

theorem bitLength_ge_of_pow_le {n w : Nat} (h : 2 ^ w ≤ n) : w < bitLength n := by
  have h1 := lt_two_pow_bitLength n
  have h2 : 2 ^ w < 2 ^ bitLength n := by omega
  exact (Nat.pow_lt_pow_iff_right (by omega)).mp h2

/-- `Integer.encode` / `Choice.encode_root_index` below the extension bit is the constrained whole
number of 10.5, unless the length of the length needs more than seven bits -/
theorem encConstrainedInt_eq (pos : Nat) (lo hi i : Int)
    (hll : (hi - lo).toNat + 1 > 65536 → minOctets (hi - lo).toNat ≤ 128) :
    Per.encConstrainedInt pos lo hi i = cwn true pos (i - lo).toNat ((hi - lo).toNat + 1) := by
  unfold Per.encConstrainedInt
  simp only
  generalize (hi - lo).toNat = size at *
  generalize (i - lo).toNat = v at *
  by_cases hs : size ≤ 65535
  · rw [if_pos hs, cwn_true_small _ _ _ (by omega), Nat.add_sub_cancel]
  · rw [if_neg hs]
    have hll' := hll (by omega)
    have hs0 : size ≠ 0 := by omega
    rw [minOctets_eq, if_neg hs0] at hll'
    have hbl : 16 < bitLength size := bitLength_ge_of_pow_le (by omega)
    unfold cwn
    simp only [Bool.not_true, Bool.false_or, decide_eq_true_eq, Nat.add_sub_cancel]
    rw [if_neg (by omega)]
    rw [minOctets_eq size, if_neg hs0, if_pos (by omega), sizeAsBytes_eq]
    have hib : Per.indefBits (bitLength size) ≤ 7 := by
      unfold Per.indefBits
      apply bitLength_le_of_lt_pow
      omega
    have hpow : 2 ^ Per.indefBits (bitLength size) ≤ 2 ^ 7 := Nat.pow_le_pow_right (by omega) hib
    have ha : Per.encCwn pos (minOctets v - 1) (2 ^ Per.indefBits (bitLength size) + 1)
        (Per.indefBits (bitLength size)) = natToBits (Per.indefBits (bitLength size)) (minOctets v - 1) := by
      unfold Per.encCwn
      rw [if_pos (by omega)]
    have hl : cwnSmall true pos (minOctets v - 1) ((bitLength size + 7) / 8)
        = natToBits (Per.indefBits (bitLength size)) (minOctets v - 1) := by
      unfold cwnSmall
      rw [if_neg (by omega)]
      simp only [Bool.not_true, Bool.false_or, decide_eq_true_eq]
      rw [if_pos (by omega), minBits_eq]
      rfl
    rw [ha, hl]
    have hlast : Per.encCwn (pos + (natToBits (Per.indefBits (bitLength size)) (minOctets v - 1)).length +
          (alignBits (pos + (natToBits (Per.indefBits (bitLength size)) (minOctets v - 1)).length)).length)
          v (size + 1) (8 * minOctets v) = natToBits (8 * minOctets v) v := by
      unfold Per.encCwn
      rw [if_neg (by omega), if_neg (by omega), if_neg (by omega), alignBits_of_aligned]
      · rfl
      · rw [alignBits_length]
        exact add_padLen_mod _
    rw [hlast, flatten_map_natToBits8, bytesToBits_natToBytesN, pad_true]

theorem unconstrained_true (pos : Nat) (i : Int) (h : minOctets2c i < 16384) :
    unconstrained true pos i = alignBits pos ++ Uper.encUnconstrained i := by
  unfold unconstrained Uper.encUnconstrained
  rw [minOctets2c_eq] at h ⊢
  rw [lenOctets_true_small _ _ (by rw [intToBytesN_length]; exact h), intToBytesN_length]

theorem nsnnwn_true (pos n : Nat) (h : n ≤ 63) : nsnnwn true pos n = Uper.encNsnnwn n := by
  unfold nsnnwn Uper.encNsnnwn
  rw [if_pos h, if_pos (by omega), natToBits_succ_of_lt (w := 6) (by omega)]

/-! ### open types -/

theorem padToByte_length_mod (e : Bits) : (padToByte e).length % 8 = 0 := by
  unfold padToByte
  rw [List.length_append, List.length_replicate]
  omega

theorem perOpenType_length_mod (e : Bits) : (Per.openType e).length % 8 = 0 := by
  unfold Per.openType
  simp only [List.length_append]
  have h1 := lenDet_length_mod ((padToByte e).length / 8)
  have h2 := padToByte_length_mod e
  omega

theorem openType_true (pos : Nat) (e : Bits) (hne : e.isEmpty = false)
    (hlen : (complete e).length < 16384) :
    openType true pos e = alignBits pos ++ Per.openType e := by
  unfold openType Per.openType
  unfold complete at hlen ⊢
  rw [hne] at hlen ⊢
  simp only [Bool.false_eq_true, if_false] at hlen ⊢
  rw [lenOctets_true_small _ _ hlen, bytesToBits_packBits, packBits_length]

/-- each open type is a whole number of octets: only the first one is padded -/
theorem openTypes_true (pos : Nat) (encs : List Bits)
    (h : ∀ e ∈ encs, e.isEmpty = false ∧ (complete e).length < 16384) :
    openTypes true pos encs =
      (if encs.isEmpty then [] else alignBits pos) ++ encs.flatMap Per.openType := by
  induction encs generalizing pos with
  | nil => rfl
  | cons e r ih =>
    rw [openTypes, List.flatMap_cons]
    simp only [List.isEmpty_cons, Bool.false_eq_true, if_false]
    obtain ⟨h1, h2⟩ := h e (by simp)
    rw [openType_true _ _ h1 h2, ih _ (fun x hx => h x (by simp [hx]))]
    have hal : alignBits (pos + (alignBits pos ++ Per.openType e).length) = [] := by
      apply alignBits_of_aligned
      rw [List.length_append, alignBits_length]
      have h1 := add_padLen_mod pos
      have h2 := perOpenType_length_mod e
      omega
    rw [hal]
    simp

/-! ### position threading -/

section generic
variable {α : Type} (f g : Nat → α → EncM Bits)

theorem seqM_encSeqM (vs : List α) (hfg : ∀ v ∈ vs, ∀ p b, f p v = .ok b → g p v = .ok b)
    (pos : Nat) (bits : Bits) (h : seqM f pos vs = .ok bits) : Per.encSeqM g pos vs = .ok bits := by
  induction vs generalizing pos bits with
  | nil =>
    rw [seqM] at h
    rw [Per.encSeqM]; exact h
  | cons v r ih =>
    rw [seqM] at h
    rw [Per.encSeqM]
    cases hv : f pos v with
    | error e => rw [hv] at h; cases h
    | ok a =>
      rw [hv] at h
      simp only at h
      rw [hfg v (by simp) pos a hv]
      simp only
      cases hr : seqM f (pos + a.length) r with
      | error e => rw [hr] at h; cases h
      | ok b =>
        rw [hr] at h
        rw [ih (fun x hx => hfg x (by simp [hx])) _ _ hr]
        exact h

/-- fewer than 16K items behind an unconstrained length: one (octet-aligned) length determinant -/
theorem genLenM_small (vs : List α) (pos : Nat) (bits : Bits) (hn : vs.length < 16384)
    (h : genLenM true f pos vs = .ok bits) :
    ∃ body, seqM f (pos + (alignBits pos).length + (lenDet vs.length).1.length) vs = .ok body ∧
      bits = alignBits pos ++ (lenDet vs.length).1 ++ body := by
  unfold genLenM at h
  have hf : vs.length / 16384 + 2 = 1 + 1 := by omega
  rw [hf, fragM] at h
  simp only [pad_true, lengthOctets_eq] at h
  have hk : (lenDet vs.length).2 = vs.length := Uper.lenDet_snd_of_lt hn
  rw [hk, List.take_length] at h
  cases hb : seqM f (pos + (alignBits pos).length + (lenDet vs.length).1.length) vs with
  | error e => rw [hb] at h; cases h
  | ok body =>
    rw [hb] at h
    simp only [if_pos hn] at h
    cases h
    exact ⟨body, rfl, rfl⟩

theorem encChunksM_small (vs : List α) (pos : Nat) (body : Bits) (hn : vs.length < 16384)
    (h : Per.encSeqM g (pos + (lenDet vs.length).1.length) vs = .ok body) :
    Per.encChunksM g (vs.length / 16384 + 2) pos vs = .ok ((lenDet vs.length).1 ++ body) := by
  have hf : vs.length / 16384 + 2 = 1 + 1 := by omega
  rw [hf, Per.encChunksM]
  have hk : (lenDet vs.length).2 = vs.length := Uper.lenDet_snd_of_lt hn
  simp only [hk, List.take_length, if_pos hn, h]

end generic

/-! ### position independent items -/

theorem seqM_leaf (pos : Nat) (items : List Bits) : seqM leaf pos items = .ok items.flatten := by
  induction items generalizing pos with
  | nil => rfl
  | cons a r ih =>
    rw [seqM]
    simp only [leaf, ih, List.flatten_cons]

theorem fragM_leaf (aligned : Bool) (fuel pos : Nat) (items : List Bits) :
    fragM aligned leaf fuel pos items = .ok (frag aligned fuel pos items) := by
  induction fuel generalizing pos items with
  | zero => rfl
  | succ fuel ih =>
    rw [fragM, frag]
    simp only [seqM_leaf, ih]
    split <;> rfl

theorem genLenM_leaf (aligned : Bool) (pos : Nat) (items : List Bits) :
    genLenM aligned leaf pos items = .ok (genLen aligned pos items) := by
  unfold genLenM genLen
  exact fragM_leaf _ _ _ _

/-! ### size constraints -/

theorem inRoot_inside (c : SizeC) (n ub : Nat) (hhi : c.hi = some ub) (h : inRoot c n = true) :
    Per.extRange c n = .inside := by
  unfold inRoot at h
  unfold Per.extRange
  rw [hhi] at h ⊢
  simp only [Bool.and_eq_true, decide_eq_true_eq] at h ⊢
  rw [if_pos h]

theorem inRoot_outside (c : SizeC) (n ub : Nat) (hhi : c.hi = some ub) (h : inRoot c n = false) :
    Per.extRange c n = .outside := by
  unfold inRoot at h
  unfold Per.extRange
  rw [hhi] at h ⊢
  simp only [Bool.and_eq_false_iff, decide_eq_false_iff_not] at h ⊢
  rw [if_neg (by omega)]

section generic
variable {α : Type} (f : Nat → α → EncM Bits)

/-- the specification of a size inside the constraint, in the terms of the code: the size is in
range and either there is no length field width (`sizeBits = none`: unconstrained length) or the
length field / padding of `Per.sizePrefix` is followed by the items.  `af'` is the code's flag for
aligning fixed-size contents; it only matters when `lo = ub`. -/
theorem sizedM_true_inv (c : SizeC) (af av af' av' : Bool) (hfix : c.hi = some c.lo → af = af')
    (vs : List α)
    (hvar : ∀ ub, c.hi = some ub → ub < 65536 → c.lo ≠ ub → inRoot c vs.length = true → av = av')
    (pos : Nat) (bits : Bits)
    (h : sizedM true f c.lo c.hi af av pos vs = .ok bits) :
    Uper.inSize c vs.length = true ∧
    (Uper.sizeBits c = none → genLenM true f pos vs = .ok bits) ∧
    (∀ w, Uper.sizeBits c = some w →
      ∃ body, seqM f (pos + (Per.sizePrefix c w pos vs.length av' af').length) vs = .ok body ∧
        bits = Per.sizePrefix c w pos vs.length av' af' ++ body) := by
  unfold sizedM at h
  by_cases hlo : vs.length < c.lo
  · rw [if_pos hlo] at h; cases h
  rw [if_neg hlo] at h
  unfold Uper.sizeBits Uper.inSize Per.sizePrefix
  cases hhi : c.hi with
  | none =>
    rw [hhi] at h
    simp only at h
    exact ⟨by simp; omega, fun _ => h, fun w hw => by simp at hw⟩
  | some ub =>
    rw [hhi] at h hfix
    simp only at h
    have hvar' := hvar ub hhi
    by_cases hub : ub < vs.length
    · rw [if_pos hub] at h; cases h
    rw [if_neg hub] at h
    refine ⟨by simp; omega, ?_, ?_⟩
    · simp only
      intro hw
      by_cases h64 : ub < 65536
      · rw [if_neg (by omega)] at hw; cases hw
      · rw [if_neg h64] at h; exact h
    · simp only
      intro w hw
      by_cases h64 : ub < 65536
      · rw [if_pos h64] at h
        rw [if_neg (by omega)] at hw
        cases hw
        by_cases heq : c.lo = ub
        · rw [if_pos heq] at h
          have haf := hfix (by rw [heq])
          subst haf
          have hne : ¬ (some c.lo ≠ some ub) := by simp [heq]
          simp only [hne, if_false, pad_true]
          simp only [pad_true] at h
          cases hb : seqM f (pos + (if af = true then alignBits pos else []).length) vs with
          | error e => rw [hb] at h; cases h
          | ok body =>
            rw [hb] at h
            cases h
            exact ⟨body, rfl, rfl⟩
        · rw [if_neg heq] at h
          have hne : some c.lo ≠ some ub := by
            intro hh; cases hh; exact heq rfl
          have hav := hvar' h64 heq (by
            unfold inRoot; rw [hhi]; simp; omega)
          subst hav
          simp only [hne, if_true, ne_eq, not_false_eq_true, Option.getD_some]
          rw [cwn_true_small _ _ _ (by omega), Nat.add_sub_cancel] at h
          simp only [pad_true] at h
          cases hb : seqM f (pos + (Per.encCwn pos (vs.length - c.lo) (ub - c.lo + 1) (bitLength (ub - c.lo))).length +
              (if av = true then alignBits (pos + (Per.encCwn pos (vs.length - c.lo) (ub - c.lo + 1) (bitLength (ub - c.lo))).length) else []).length) vs with
          | error e => rw [hb] at h; cases h
          | ok body =>
            rw [hb] at h
            cases h
            refine ⟨body, ?_, by simp⟩
            rw [List.length_append, ← Nat.add_assoc]
            exact hb
      · rw [if_pos (by omega)] at hw; cases hw

/-- an extensible size constraint: the extension bit, then either the root form one bit further
or the unconstrained length -/
theorem extSizedM_true_inv (c : SizeC) (af av : Bool) (vs : List α) (pos : Nat) (bits : Bits)
    (h : extSizedM true f c af av pos vs = .ok bits) :
    (c.ext = true ∧ inRoot c vs.length = false ∧
      ∃ b, genLenM true f (pos + 1) vs = .ok b ∧ bits = true :: b) ∨
    (c.ext = true ∧ inRoot c vs.length = true ∧
      ∃ b, sizedM true f c.lo c.hi af av (pos + 1) vs = .ok b ∧ bits = false :: b) ∨
    (c.ext = false ∧ sizedM true f c.lo c.hi af av pos vs = .ok bits) := by
  unfold extSizedM at h
  cases hext : c.ext with
  | true =>
    rw [hext] at h
    simp only [if_true] at h
    cases hin : inRoot c vs.length with
    | false =>
      rw [hin] at h
      simp only [Bool.false_eq_true, if_false] at h
      cases hb : genLenM true f (pos + 1) vs with
      | error e => rw [hb] at h; cases h
      | ok b =>
        rw [hb] at h
        cases h
        exact Or.inl ⟨rfl, rfl, b, rfl, rfl⟩
    | true =>
      rw [hin] at h
      simp only [if_true] at h
      cases hb : sizedM true f c.lo c.hi af av (pos + 1) vs with
      | error e => rw [hb] at h; cases h
      | ok b =>
        rw [hb] at h
        cases h
        exact Or.inr (Or.inl ⟨rfl, rfl, b, rfl, rfl⟩)
  | false =>
    rw [hext] at h
    simp only [Bool.false_eq_true, if_false] at h
    exact Or.inr (Or.inr ⟨rfl, h⟩)

end generic

end Asn1.X691
