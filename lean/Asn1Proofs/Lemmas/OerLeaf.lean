import Asn1Proofs.Lemmas.OerDefs
/-
  Round trip and totality for the leaf types of the OER model.
-/
set_option linter.unusedSimpArgs false
namespace Asn1.Oer
open Asn1.Uper (Err utf8Enc utf8Dec alphabetOf)

theorem canon_boolean (v : Val) : canon .boolean v = v := by cases v <;> rfl
theorem canon_null (v : Val) : canon .null v = v := by cases v <;> rfl
theorem canon_integer (c : IntC) (v : Val) : canon (.integer c) v = v := by cases v <;> rfl
theorem canon_enumerated (r e) (v : Val) : canon (.enumerated r e) v = v := by cases v <;> rfl
theorem canon_octetString (c : SizeC) (v : Val) : canon (.octetString c) v = v := by cases v <;> rfl
theorem canon_charString (k : StrKind) (c : SizeC) (v : Val) : canon (.charString k c) v = v := by
  cases v <;> rfl

/-! ### BOOLEAN, NULL -/

theorem rt_boolean : RT .boolean := by
  intro v bytes rest hwf hwf2 hd ht hu hns he
  cases v <;> simp only [hasType, Bool.false_eq_true] at ht
  rename_i b
  rw [enc] at he; cases he
  rw [dec, canon_boolean]
  cases b <;> rfl

theorem et_boolean : ET .boolean := by
  intro v hwf ht
  cases v <;> simp only [hasType, Bool.false_eq_true] at ht
  exact Or.inl ⟨_, by rw [enc]⟩

theorem rt_null : RT .null := by
  intro v bytes rest hwf hwf2 hd ht hu hns he
  cases v <;> simp only [hasType, Bool.false_eq_true] at ht
  rw [enc] at he; cases he
  rw [dec, canon_null]; rfl

theorem et_null : ET .null := by
  intro v _ _
  exact Or.inl ⟨_, by rw [enc]⟩

/-! ### INTEGER -/

theorem intFixed_spec {c : IntC} {k : Nat} {s : Bool} (h : intFixed c = some (k, s)) :
    ∃ lo hi, c.lo = some lo ∧ c.hi = some hi ∧ c.ext = false ∧ 1 ≤ k ∧
      (s = false → 0 ≤ lo ∧ hi < ((256 ^ k : Nat) : Int)) ∧
      (s = true → -((2 ^ (8 * k - 1) : Nat) : Int) ≤ lo ∧ hi < ((2 ^ (8 * k - 1) : Nat) : Int)) := by
  unfold intFixed at h
  split at h
  · cases h
  · rename_i hext
    split at h
    · rename_i lo hi hlo hhi
      refine ⟨lo, hi, hlo, hhi, by simpa using hext, ?_⟩
      repeat' split at h
      all_goals first
        | (cases h; done)
        | (simp only [Option.some.injEq, Prod.mk.injEq] at h
           obtain ⟨rfl, rfl⟩ := h
           refine ⟨by omega, ?_, ?_⟩ <;> intro hs <;>
             first
             | (cases hs; done)
             | (simp only [Nat.reducePow, Nat.reduceMul, Nat.reduceSub]; omega))
    · cases h

theorem intSigned_false {c : IntC} (h : intSigned c = false) :
    ∃ lo, c.lo = some lo ∧ c.ext = false ∧ 0 ≤ lo := by
  unfold intSigned at h
  split at h
  · rename_i lo hlo
    split at h
    · cases h
    · rename_i hext
      exact ⟨lo, hlo, by simpa using hext, by simpa using h⟩
  · cases h

theorem rt_integer (c : IntC) : RT (.integer c) := by
  intro v bytes rest hwf hwf2 hd ht hu hns he
  cases v <;> simp only [hasType, Bool.false_eq_true] at ht
  rename_i i
  rw [canon_integer]
  rw [enc] at he
  rw [dec]
  cases hfx : intFixed c with
  | some ks =>
    obtain ⟨k, s⟩ := ks
    obtain ⟨lo, hi, hlo, hhi, hext, hk, hu, hs⟩ := intFixed_spec hfx
    simp only [hfx, hlo, hhi] at he ⊢
    split at he
    · rename_i hin
      cases he
      simp only [Bool.and_eq_true, decide_eq_true_eq] at hin
      simp only [bind, Except.bind]
      rw [readBytes_append _ _ (intToBytesN_length _ _)]
      simp only
      cases s with
      | false =>
        obtain ⟨h0, h1⟩ := hu rfl
        simp only [Bool.false_eq_true, if_false]
        rw [bytesToNat_intToBytesN k i (by omega) (by omega)]
      | true =>
        obtain ⟨h0, h1⟩ := hs rfl
        simp only [if_true]
        rw [bytesToInt_intToBytesN k i hk (by omega) (by omega)]
    · cases he
  | none =>
    simp only [hfx] at he ⊢
    cases hsg : intSigned c with
    | true =>
      simp only [hsg, if_true] at he ⊢
      simp only [bind, Except.bind]
      rw [decSigned_encSigned he]
    | false =>
      obtain ⟨lo, hlo, hext, h0⟩ := intSigned_false hsg
      simp only [hext, Bool.false_or, intInRange, hlo, Bool.and_eq_true, decide_eq_true_eq] at ht
      simp only [hsg, Bool.false_eq_true, if_false] at he ⊢
      rw [if_neg (by omega)] at he
      simp only [bind, Except.bind]
      rw [decUnsigned_encUnsigned he]
      simp only
      have : ((i.toNat : Nat) : Int) = i := by omega
      rw [this]

theorem lenDet_total (n : Nat) : (∃ l, lenDet n = .ok l) ∨ lenDet n = .error .encodeError := by
  rw [lenDet_def]
  split
  · exact Or.inl ⟨_, rfl⟩
  · split
    · exact Or.inr rfl
    · exact Or.inl ⟨_, rfl⟩

theorem encSigned_total (i : Int) :
    (∃ bs, encSigned i = .ok bs) ∨ encSigned i = .error .encodeError := by
  unfold encSigned
  simp only [bind, Except.bind]
  rcases lenDet_total (intByteLength i) with ⟨l, hl⟩ | hl <;> rw [hl]
  · exact Or.inl ⟨_, rfl⟩
  · exact Or.inr rfl

theorem encUnsigned_total (n : Nat) :
    (∃ bs, encUnsigned n = .ok bs) ∨ encUnsigned n = .error .encodeError := by
  unfold encUnsigned
  simp only [bind, Except.bind]
  rcases lenDet_total ((max (bitLength n) 1 + 7) / 8) with ⟨l, hl⟩ | hl <;> rw [hl]
  · exact Or.inl ⟨_, rfl⟩
  · exact Or.inr rfl

theorem et_integer (c : IntC) : ET (.integer c) := by
  intro v hwf ht
  cases v <;> simp only [hasType, Bool.false_eq_true] at ht
  rename_i i
  rw [enc]
  cases hfx : intFixed c with
  | some ks =>
    obtain ⟨k, s⟩ := ks
    obtain ⟨lo, hi, hlo, hhi, hext, hk, hu, hs⟩ := intFixed_spec hfx
    simp only [hext, Bool.false_or, intInRange, hlo, hhi, Bool.and_eq_true, decide_eq_true_eq] at ht
    simp only [hlo, hhi]
    rw [if_pos (by simp [ht])]
    exact Or.inl ⟨_, rfl⟩
  | none =>
    simp only
    cases hsg : intSigned c with
    | true => simp only [if_true]; exact encSigned_total i
    | false =>
      obtain ⟨lo, hlo, hext, h0⟩ := intSigned_false hsg
      simp only [hext, Bool.false_or, intInRange, hlo, Bool.and_eq_true, decide_eq_true_eq] at ht
      simp only [Bool.false_eq_true, if_false]
      rw [if_neg (by omega)]
      exact encUnsigned_total _

/-! ### ENUMERATED -/

theorem mem_namesOf_append (n : String) (a b : List (String × Int)) :
    n ∈ namesOf (a ++ b) ↔ n ∈ namesOf a ∨ n ∈ namesOf b := by
  simp [namesOf]

theorem enum_hasType_mem {root : List (String × Int)} {ext : Option (List (String × Int))} {n : String}
    (ht : hasType (.enumerated root ext) (.enum n) = true) : n ∈ namesOf (root ++ ext.getD []) := by
  rw [mem_namesOf_append]
  simp only [hasType, Bool.or_eq_true, List.contains_eq_mem, decide_eq_true_eq] at ht
  rcases ht with ht | ht
  · exact Or.inl ht
  · cases ext with
    | none => cases ht
    | some a => simp only [List.contains_eq_mem, decide_eq_true_eq] at ht; exact Or.inr ht

theorem rt_enumerated (root : List (String × Int)) (ext : Option (List (String × Int))) :
    RT (.enumerated root ext) := by
  intro v bytes rest hwf hwf2 hd ht hu hns he
  cases v <;> simp only [hasType, Bool.false_eq_true] at ht
  rename_i name
  rw [canon_enumerated]
  rw [enc] at he
  rw [oerWf] at hwf2
  simp only [decide_eq_true_eq] at hwf2
  split at he
  · cases he
  · rename_i val hval
    have hname := enumName_of_enumValue name val _ hwf2 hval
    split at he
    · rename_i hsmall
      cases he
      rw [dec]
      simp only [bind, Except.bind, List.cons_append, List.nil_append, readByte_cons]
      rw [if_neg (by omega)]
      simp only
      have : ((val.toNat : Nat) : Int) = val := by omega
      rw [this, hname]
    · split at he
      · rename_i l r henc
        cases he
        rw [dec]
        simp only [bind, Except.bind, List.cons_append, readByte_cons]
        rw [if_pos (by omega)]
        have e1 : l + 128 - 128 = l := by omega
        have e2 : List.drop 1 ((l + 128) :: (r ++ rest)) = r ++ rest := rfl
        rw [e1, e2]
        have := decSigned_encSigned henc rest
        rw [List.cons_append] at this
        rw [this]
        simp only
        rw [hname]
      · cases he
      · cases he

theorem et_enumerated (root : List (String × Int)) (ext : Option (List (String × Int))) :
    ET (.enumerated root ext) := by
  intro v hwf ht
  cases v <;> try (simp only [hasType, Bool.false_eq_true] at ht; done)
  rename_i name
  have hmem : name ∈ namesOf (root ++ ext.getD []) := enum_hasType_mem ht
  obtain ⟨val, hval⟩ := enumValue_of_mem name _ hmem
  rw [enc]
  simp only [hval]
  split
  · exact Or.inl ⟨_, rfl⟩
  · rcases encSigned_total val with ⟨bs, hbs⟩ | hbs
    · have hne := encSigned_ne_nil hbs
      cases bs with
      | nil => exact absurd rfl hne
      | cons l r => rw [hbs]; exact Or.inl ⟨_, rfl⟩
    · rw [hbs]; exact Or.inr rfl

/-! ### sizes -/

theorem fixedSize_spec {c : SizeC} {n : Nat} (h : fixedSize c = some n) :
    c.ext = false ∧ c.hi = some n ∧ c.lo = n := by
  unfold fixedSize at h
  split at h
  · cases h
  · rename_i hext
    split at h
    · rename_i hi hhi
      split at h
      · rename_i hlo
        cases h
        exact ⟨by simpa using hext, hhi, hlo⟩
      · cases h
    · cases h

theorem sizeOk_fixed {c : SizeC} {n m : Nat} (h : fixedSize c = some n) (hs : sizeOk c m = true) :
    m = n := by
  obtain ⟨_, hhi, hlo⟩ := fixedSize_spec h
  simp only [sizeOk, hhi, hlo, Bool.and_eq_true, decide_eq_true_eq] at hs
  omega

/-! ### OCTET STRING -/

theorem rt_octetString (c : SizeC) : RT (.octetString c) := by
  intro v bytes rest hwf hwf2 hd ht hu hns he
  cases v <;> simp only [hasType, Bool.false_eq_true] at ht
  rename_i data
  rw [canon_octetString]
  rw [enc] at he
  rw [dec]
  simp only [Bool.and_eq_true, Bool.or_eq_true] at ht
  cases hfs : fixedSize c with
  | some n =>
    simp only [hfs] at he ⊢
    cases he
    have hext := (fixedSize_spec hfs).1
    have hlen : bytes.length = n := by
      rcases ht.2 with h | h
      · rw [hext] at h; cases h
      · exact sizeOk_fixed hfs h
    simp only [bind, Except.bind]
    rw [readBytes_append _ _ hlen]
  | none =>
    simp only [hfs, bind, Except.bind] at he ⊢
    split at he
    · cases he
    · rename_i l hl
      cases he
      rw [List.append_assoc, readLenDet_lenDet hl]
      simp only
      rw [readBytes_append _ _ rfl]

theorem et_octetString (c : SizeC) : ET (.octetString c) := by
  intro v hwf ht
  cases v <;> simp only [hasType, Bool.false_eq_true] at ht
  rename_i data
  rw [enc]
  cases fixedSize c with
  | some n => exact Or.inl ⟨_, rfl⟩
  | none =>
    simp only [bind, Except.bind]
    rcases lenDet_total data.length with ⟨l, hl⟩ | hl <;> rw [hl]
    · exact Or.inl ⟨_, rfl⟩
    · exact Or.inr rfl

/-! ### BIT STRING -/

theorem rt_bitString (c : SizeC) : RT (.bitString c) := by
  intro v bytes rest hwf hwf2 hd ht hu hns he
  cases v <;> simp only [hasType, Bool.false_eq_true] at ht
  rename_i data n
  simp only [Bool.and_eq_true, decide_eq_true_eq] at ht
  obtain ⟨⟨_, hdl⟩, hsz⟩ := ht
  rw [canon]
  rw [enc] at he
  rw [dec]
  have hle : n ≤ 8 * data.length := by omega
  rw [if_neg (by omega)] at he
  have hcl := cleanBits_length data n hle
  cases hfs : fixedSize c with
  | some m =>
    simp only [hfs] at he ⊢
    cases he
    have : n = m := sizeOk_fixed hfs hsz
    subst this
    simp only [bind, Except.bind]
    rw [readBytes_append _ _ hcl]
  | none =>
    simp only [hfs, bind, Except.bind] at he ⊢
    split at he
    · cases he
    · rename_i l hl
      cases he
      rw [List.append_assoc, List.append_assoc, readLenDet_lenDet hl]
      simp only [List.cons_append, List.nil_append, readByte_cons]
      rw [if_neg (by rw [hcl]; omega)]
      simp only [Nat.add_sub_cancel]
      rw [readBytes_append _ _ rfl]
      simp only
      have : 8 * (cleanBits data n).length - (8 - n % 8) % 8 = n := by rw [hcl]; omega
      rw [this]

theorem et_bitString (c : SizeC) : ET (.bitString c) := by
  intro v hwf ht
  cases v <;> simp only [hasType, Bool.false_eq_true] at ht
  rename_i data n
  simp only [Bool.and_eq_true, decide_eq_true_eq] at ht
  obtain ⟨⟨_, hdl⟩, hsz⟩ := ht
  rw [enc]
  rw [if_neg (by omega)]
  cases fixedSize c with
  | some m => exact Or.inl ⟨_, rfl⟩
  | none =>
    simp only [bind, Except.bind]
    rcases lenDet_total ((cleanBits data n).length + 1) with ⟨l, hl⟩ | hl <;> rw [hl]
    · exact Or.inl ⟨_, rfl⟩
    · exact Or.inr rfl

/-! ### character strings -/

theorem all_lt_of_alphabet (k : StrKind) (cps : List Nat)
    (h : cps.all (fun cp => (alphabetOf k).contains cp) = true) : cps.all (· < 128) = true := by
  rw [List.all_eq_true] at h ⊢
  intro x hx
  have := h x hx
  simp only [List.contains_eq_mem, decide_eq_true_eq] at this
  simpa using alphabet_lt k x this

/-- what `hasType` gives for the two families of strings -/
theorem charString_hasType {k : StrKind} {c : SizeC} {cps : List Nat}
    (ht : hasType (.charString k c) (.str cps) = true) :
    (k = .utf8 ∧ ∀ cp ∈ cps, cp < 0x110000 ∧ ¬ (0xd800 ≤ cp ∧ cp < 0xe000)) ∨
    (k ≠ .utf8 ∧ cps.all (· < 128) = true ∧ sizeOk c cps.length = true) := by
  cases k <;> simp only [hasType] at ht
  case utf8 =>
    refine Or.inl ⟨rfl, ?_⟩
    simp only [List.all_eq_true, Bool.and_eq_true, decide_eq_true_eq, Bool.not_eq_true',
      Bool.and_eq_false_iff, decide_eq_false_iff_not] at ht
    intro cp hcp
    have := ht cp hcp
    omega
  all_goals
    simp only [Bool.and_eq_true] at ht
    exact Or.inr ⟨by simp, all_lt_of_alphabet _ _ ht.1, ht.2⟩

theorem encodeStr_not_utf8 {k : StrKind} (hk : k ≠ .utf8) (cps : List Nat) :
    encodeStr k cps = if cps.all (· < 128) then .ok cps else .error .foreign := by
  cases k <;> first | rfl | exact absurd rfl hk

theorem decodeStr_not_utf8 {k : StrKind} (hk : k ≠ .utf8) (bs : Bytes) :
    decodeStr k bs = if bs.all (· < 128) then .ok bs else .error .foreign := by
  cases k <;> first | rfl | exact absurd rfl hk

/-- both families: the encoder succeeds and the decoder inverts it -/
theorem str_rt {k : StrKind} {c : SizeC} {cps : List Nat}
    (ht : hasType (.charString k c) (.str cps) = true) :
    ∃ bs, encodeStr k cps = .ok bs ∧ decodeStr k bs = .ok cps ∧
      (∀ n, fixedSize c = some n → utf8Ok (.charString k c) (.str cps) = true → bs.length = n) := by
  rcases charString_hasType ht with ⟨rfl, h⟩ | ⟨hk, hall, hsz⟩
  · refine ⟨cps.flatMap utf8Enc, rfl, ?_, ?_⟩
    · show (match utf8Dec _ _ with | some cps => Except.ok cps | none => Except.error Err.foreign) = _
      rw [Uper.utf8Dec_flatMap_utf8Enc cps h _ (Nat.le_refl _)]
    · intro n hn hu
      rw [utf8Ok] at hu
      simp only [hn, decide_eq_true_eq] at hu
      exact hu
  · refine ⟨cps, ?_, ?_, ?_⟩
    · rw [encodeStr_not_utf8 hk, if_pos hall]
    · rw [decodeStr_not_utf8 hk, if_pos hall]
    · intro n hn _
      exact sizeOk_fixed hn hsz

theorem rt_charString (k : StrKind) (c : SizeC) : RT (.charString k c) := by
  intro v bytes rest hwf hwf2 hd ht hu hns he
  cases v <;> try (simp only [hasType, Bool.false_eq_true] at ht; done)
  rename_i cps
  obtain ⟨bs, hbs, hdec, hlen⟩ := str_rt ht
  rw [canon_charString]
  rw [enc] at he
  rw [dec]
  simp only [hbs] at he
  cases hfs : fixedSize c with
  | some n =>
    simp only [hfs] at he ⊢
    cases he
    simp only [bind, Except.bind]
    rw [readBytes_append _ _ (hlen n hfs hu)]
    simp only [hdec]
  | none =>
    simp only [hfs, bind, Except.bind] at he ⊢
    split at he
    · cases he
    · rename_i l hl
      cases he
      rw [List.append_assoc, readLenDet_lenDet hl]
      simp only
      rw [readBytes_append _ _ rfl]
      simp only [hdec]

theorem et_charString (k : StrKind) (c : SizeC) : ET (.charString k c) := by
  intro v hwf ht
  cases v <;> try (simp only [hasType, Bool.false_eq_true] at ht; done)
  rename_i cps
  obtain ⟨bs, hbs, _, _⟩ := str_rt ht
  rw [enc]
  simp only [hbs]
  cases fixedSize c with
  | some n => exact Or.inl ⟨_, rfl⟩
  | none =>
    simp only [bind, Except.bind]
    rcases lenDet_total bs.length with ⟨l, hl⟩ | hl <;> rw [hl]
    · exact Or.inl ⟨_, rfl⟩
    · exact Or.inr rfl

end Asn1.Oer
