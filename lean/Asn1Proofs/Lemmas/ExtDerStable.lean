import Asn1Proofs.Lemmas.ExtDerBase
/-
  C07, DER: the encoding of a version-1 value does not change when the type is extended
  (`enc_stable`): tags are positional, the new additions come last and a version-1 value has no
  field for them.
-/
set_option linter.unusedSimpArgs false
set_option linter.unusedVariables false
namespace Asn1.Ext.DerX
open Asn1 Asn1.Der Asn1.Ext

/-- `enc_stable` for one pair of types -/
def ST (t1 t2 : Ty) : Prop :=
  t2.wf = true → ∀ (tg : Option Nat) (v : Val), hasType t1 v = true → enc t2 tg v = enc t1 tg v

def SC (t1 t2 : Ty) : Prop := ST t1 t2 ∧ Extends t1 t2

/-- version-1 members paired with the version-2 members; version 2 may go on with omissible ones -/
def PairS (P : Ty → Ty → Prop) : Members → Members → Prop
  | .nil, ms => allOmissible ms = true
  | .cons n p t1 m1, .cons n' p' t2 m2 => n' = n ∧ p' = p ∧ P t1 t2 ∧ PairS P m1 m2
  | .cons _ _ _ _, .nil => False

def PairAS (P : Ty → Ty → Prop) : Alts → Alts → Prop
  | .nil, _ => True
  | .cons n t1 m1, .cons n' t2 m2 => n' = n ∧ P t1 t2 ∧ PairAS P m1 m2
  | .cons _ _ _, .nil => False

/-! ### names and lengths -/

theorem extendsMembers_names {r1 r2 : Members} (h : ExtendsMembers r1 r2) :
    r2.names = r1.names ∧ r2.length = r1.length := by
  induction r1 using Members.ind generalizing r2 with
  | nil => cases h; exact ⟨rfl, rfl⟩
  | cons n p t rest ih =>
    cases h with
    | cons _ _ _ h2 => simp only [Members.names, Members.length, (ih h2).1, (ih h2).2, and_self]

theorem extendsAdds_names {x : Bool} {a1 a2 : Members} (h : ExtendsAdds x a1 a2) :
    ∃ l, a2.names = a1.names ++ l := by
  induction a1 using Members.ind generalizing a2 with
  | nil => exact ⟨a2.names, rfl⟩
  | cons n p t rest ih =>
    cases h with
    | cons _ _ _ h2 =>
      obtain ⟨l, hl⟩ := ih h2
      exact ⟨l, by simp only [Members.names, hl, List.cons_append]⟩

theorem extendsAlts_names {r1 r2 : Alts} (h : ExtendsAlts r1 r2) :
    r2.names = r1.names ∧ r2.length = r1.length := by
  induction r1 using Alts.ind generalizing r2 with
  | nil => cases h; exact ⟨rfl, rfl⟩
  | cons n t rest ih =>
    cases h with
    | cons _ _ h2 => simp only [Alts.names, Alts.length, (ih h2).1, (ih h2).2, and_self]

theorem extendsAltAdds_names {x : Bool} {a1 a2 : Alts} (h : ExtendsAltAdds x a1 a2) :
    ∃ l, a2.names = a1.names ++ l := by
  induction a1 using Alts.ind generalizing a2 with
  | nil => exact ⟨a2.names, rfl⟩
  | cons n t rest ih =>
    cases h with
    | cons _ _ h2 =>
      obtain ⟨l, hl⟩ := ih h2
      exact ⟨l, by simp only [Alts.names, hl, List.cons_append]⟩

/-- the names of version 1 are pairwise distinct when those of version 2 are -/
theorem nodup_v1 {r1 r2 a1 a2 l : List String} (hr : r2 = r1) (ha : a2 = a1 ++ l)
    (h : (r2 ++ a2).Nodup) : (r1 ++ a1).Nodup := by
  subst hr
  subst ha
  rw [← List.append_assoc] at h
  exact (List.nodup_append.mp h).1

/-! ### members -/

theorem isDefaultB_stable {t1 t2 : Ty} (h : Extends t1 t2) (v d : Val) :
    isDefaultB t2 v d = isDefaultB t1 v d := by
  cases h <;> rfl

theorem encHere_stable {t1 t2 : Ty} (h : SC t1 t2) (hwf : t2.wf = true) (name : String) (p : Presence)
    (i : Nat) (fs : List (String × Val))
    (hok : (match lookup name fs with
            | some v => hasType t1 v
            | none => match p with | .mandatory => false | _ => true) = true) :
    encHere name p t2 i fs = encHere name p t1 i fs := by
  unfold encHere
  cases hl : lookup name fs with
  | none => rfl
  | some v =>
    simp only [hl] at hok
    simp only [h.1 hwf (some i) v hok, isDefaultB_stable h.2]

/-- members only version 2 knows: nothing is encoded for them -/
theorem encMembers_new (fs : List (String × Val)) (ms : Members) :
    allOmissible ms = true → (∀ n ∈ ms.names, lookup n fs = none) →
    ∀ i, encMembers ms i fs = .ok [] ∧ encAdditions ms i fs = .ok [] := by
  induction ms using Members.ind with
  | nil => intro _ _ i; rw [encMembers, encAdditions]; exact ⟨rfl, rfl⟩
  | cons n p t rest ih =>
    intro ho hn i
    simp only [allOmissible, Bool.and_eq_true] at ho
    have hl : lookup n fs = none := hn n (by simp [Members.names])
    have ih' := ih ho.2 (fun m hm => hn m (by simp [Members.names, hm])) (i + 1)
    have hh : encHere n p t i fs = .ok [] := by
      unfold encHere
      simp only [hl]
      cases p with
      | mandatory => simp [omissible] at ho
      | optional => rfl
      | default d => rfl
    rw [encMembers_cons, encAdditions_cons, hh, ih'.1, ih'.2]
    exact ⟨rfl, rfl⟩

theorem encMembers_stable (fs : List (String × Val)) (m1 : Members) : ∀ (m2 : Members),
    PairS SC m1 m2 → m2.wf = true → membersOk m1 fs = true → m2.names.Nodup →
    (∀ n ∈ m2.names, n ∈ m1.names ∨ lookup n fs = none) →
    ∀ i, encMembers m2 i fs = encMembers m1 i fs ∧ encAdditions m2 i fs = encAdditions m1 i fs := by
  induction m1 using Members.ind with
  | nil =>
    intro m2 hp _ _ _ hS i
    have := encMembers_new fs m2 hp (fun n hn => by
      rcases hS n hn with h | h
      · simp [Members.names] at h
      · exact h) i
    rw [this.1, this.2, encMembers, encAdditions]
    exact ⟨rfl, rfl⟩
  | cons n p t1 r1 ih =>
    intro m2 hp hwf hok hnd hS i
    cases m2 with
    | nil => exact absurd hp (by simp [PairS])
    | cons n' p' t2 r2 =>
      obtain ⟨hn, hpp, hsc, hp'⟩ := hp
      subst hn
      subst hpp
      rw [Members.wf, Bool.and_eq_true] at hwf
      rw [membersOk_cons, Bool.and_eq_true] at hok
      simp only [Members.names, List.nodup_cons] at hnd
      have ih' := ih r2 hp' hwf.2 hok.2 hnd.2 (fun m hm => by
        rcases hS m (by simp [Members.names, hm]) with h | h
        · simp only [Members.names, List.mem_cons] at h
          rcases h with h | h
          · subst h; exact absurd hm hnd.1
          · exact Or.inl h
        · exact Or.inr h) (i + 1)
      rw [encMembers_cons, encMembers_cons, encAdditions_cons, encAdditions_cons,
        encHere_stable hsc hwf.1 n' p' i fs hok.1, ih'.1, ih'.2]
      exact ⟨rfl, rfl⟩

/-- a version-1 record has no field named like a new addition -/
theorem fieldNames_of_hasType (root adds : Members) (ext : Bool) (fs : List (String × Val))
    (h : hasType (.sequence root ext adds) (.record fs) = true) :
    ∀ n ∈ fieldNames fs, n ∈ root.names ++ adds.names := by
  rw [hasType] at h
  cases h1 : hasMembers root fs with
  | none => simp [h1] at h
  | some rest =>
    simp only [h1] at h
    cases h2 : hasMembers adds rest with
    | none => simp [h2] at h
    | some rest' =>
      simp only [h2, List.isEmpty_iff] at h
      subst h
      obtain ⟨pre1, e1, m1⟩ := hasMembers_split root fs rest h1
      obtain ⟨pre2, e2, m2⟩ := hasMembers_split adds rest [] h2
      intro n hn
      rw [e1, e2, List.append_nil] at hn
      simp only [fieldNames, List.map_append, List.mem_append] at hn ⊢
      rcases hn with hn | hn
      · exact Or.inl (m1 n hn)
      · exact Or.inr (m2 n hn)

theorem st_sequence (r1 r2 a1 a2 : Members) (x : Bool)
    (hr : PairS SC r1 r2) (hrn : r2.names = r1.names ∧ r2.length = r1.length)
    (ha : PairS SC a1 a2) (han : ∃ l, a2.names = a1.names ++ l) :
    ST (.sequence r1 x a1) (.sequence r2 x a2) := by
  intro hwf tg v ht
  cases v <;> try (simp only [hasType, Bool.false_eq_true] at ht; done)
  rename_i fs
  simp only [Ty.wf, Bool.and_eq_true, decide_eq_true_eq] at hwf
  obtain ⟨⟨⟨⟨hwr, hwa⟩, hnd⟩, _⟩, _⟩ := hwf
  obtain ⟨l, hl⟩ := han
  have hnd1 : (r1.names ++ a1.names).Nodup := nodup_v1 hrn.1 hl hnd
  obtain ⟨hokr, hoka⟩ := membersOk_of_hasType r1 a1 x fs hnd1 ht
  have hfn := fieldNames_of_hasType r1 a1 x fs ht
  have hnd2 := List.nodup_append.mp hnd
  have hR := (encMembers_stable fs r1 r2 hr hwr hokr hnd2.1
    (fun n hn => Or.inl (by rw [← hrn.1]; exact hn)) 0).1
  have hA := (encMembers_stable fs a1 a2 ha hwa hoka hnd2.2.1 (fun n hn => by
    by_cases hm : n ∈ a1.names
    · exact Or.inl hm
    · right
      apply lookup_none_of_not_mem
      intro hmem
      have := hfn n hmem
      rw [List.mem_append] at this
      rcases this with h | h
      · exact hnd2.2.2 n (by rw [hrn.1]; exact h) n hn rfl
      · exact hm h) r1.length).2
  rw [enc, enc, hR, hrn.2, hA]

/-! ### alternatives -/

theorem pairAS_find (name : String) (as1 : Alts) : ∀ (as2 : Alts) (j : Nat) (t1 : Ty),
    PairAS SC as1 as2 → as2.wf = true → as1.findO name = some (j, t1) →
    ∃ t2, as2.findO name = some (j, t2) ∧ SC t1 t2 ∧ t2.wf = true := by
  induction as1 using Alts.ind with
  | nil => intro as2 j t1 _ _ hf; simp [Alts.findO] at hf
  | cons n t r ih =>
    intro as2 j t1 hp hwf hf
    cases as2 with
    | nil => exact absurd hp (by simp [PairAS])
    | cons n' t' r' =>
      obtain ⟨hn, hsc, hp'⟩ := hp
      subst hn
      rw [Alts.wf, Bool.and_eq_true] at hwf
      simp only [Alts.findO] at hf ⊢
      by_cases hnn : (n' == name) = true
      · simp only [hnn, if_true, Option.some.injEq, Prod.mk.injEq] at hf ⊢
        obtain ⟨hj, ht⟩ := hf
        subst hj
        subst ht
        exact ⟨t', ⟨rfl, rfl⟩, hsc, hwf.1⟩
      · simp only [hnn, if_false, Bool.false_eq_true, Option.map_eq_some_iff, Prod.mk.injEq] at hf ⊢
        obtain ⟨⟨j', t''⟩, h1, h2, h3⟩ := hf
        dsimp only at h2 h3
        subst h2
        subst h3
        obtain ⟨t2, e1, e2, e3⟩ := ih r' j' t'' hp' hwf.2 h1
        exact ⟨t2, ⟨(j', t2), e1, rfl, rfl⟩, e2, e3⟩

theorem st_choice (r1 r2 a1 a2 : Alts) (x : Bool)
    (hr : PairAS SC r1 r2) (hrn : r2.names = r1.names ∧ r2.length = r1.length)
    (ha : PairAS SC a1 a2) (han : ∃ l, a2.names = a1.names ++ l) :
    ST (.choice r1 x a1) (.choice r2 x a2) := by
  intro hwf tg v ht
  cases v <;> try (simp only [hasType, Bool.false_eq_true] at ht; done)
  rename_i name v
  simp only [hasType] at ht
  simp only [Ty.wf, Bool.and_eq_true, decide_eq_true_eq] at hwf
  obtain ⟨⟨⟨⟨hwr, hwa⟩, _⟩, hnd⟩, _⟩ := hwf
  obtain ⟨l, hl⟩ := han
  have hnd1 : (r1.names ++ a1.names).Nodup := nodup_v1 hrn.1 hl hnd
  simp only [enc]
  rw [encAlt_find, encAlt_find, encAlt_find, encAlt_find]
  rcases Oer.choice_typed hnd1 ht with ⟨j, t, hf, hty⟩ | ⟨hf, j, t, hfa, hty⟩
  · obtain ⟨t2, hf2, hsc, hw2⟩ := pairAS_find name r1 r2 j t hr hwr hf
    simp only [hf, hf2, Option.map_some, hsc.1 hw2 _ v hty]
  · obtain ⟨t2, hf2, hsc, hw2⟩ := pairAS_find name a1 a2 j t ha hwa hfa
    have hfn : r2.findO name = none := by
      rw [find_none_iff_oer] at hf ⊢
      rw [hrn.1]; exact hf
    simp only [hf, hfn, hfa, hf2, Option.map_some, Option.map_none, hrn.2, hsc.1 hw2 _ v hty]

/-! ### the other cases -/

theorem st_refl (t : Ty) : ST t t := fun _ _ _ _ => rfl

theorem st_enumeratedExt (root adds new : List (String × Int)) :
    ST (.enumerated root (some adds)) (.enumerated root (some (adds ++ new))) := by
  intro hwf tg v ht
  cases v <;> try (simp only [hasType, Bool.false_eq_true] at ht; done)
  rename_i name
  have hmem : name ∈ namesOf (root ++ adds) := by
    have := Oer.enum_hasType_mem ht
    simpa using this
  rw [enc, enc]
  simp only [Option.getD_some]
  rw [← List.append_assoc, enumValue_append_left _ _ _ hmem]

theorem mapM_congr' {α β : Type} (f g : α → EncM β) (l : List α) (h : ∀ a ∈ l, f a = g a) :
    l.mapM f = l.mapM g := by
  induction l with
  | nil => rw [Oer.mapM_nil', Oer.mapM_nil']
  | cons a l ih =>
    rw [Oer.mapM_cons', Oer.mapM_cons', h a (by simp), ih (fun x hx => h x (by simp [hx]))]

theorem st_sequenceOf (e1 e2 : Ty) (c : SizeC) (ih : ST e1 e2) : ST (.sequenceOf e1 c) (.sequenceOf e2 c) := by
  intro hwf tg v ht
  cases v <;> try (simp only [hasType, Bool.false_eq_true] at ht; done)
  rename_i vs
  simp only [hasType, Bool.and_eq_true, List.all_eq_true] at ht
  simp only [Ty.wf, Bool.and_eq_true] at hwf
  rw [enc, enc, mapM_congr' (enc e2 none) (enc e1 none) vs (fun a ha => ih hwf.1 none a (ht.1 a ha))]

theorem st_all {t1 t2 : Ty} (h : Extends t1 t2) : ST t1 t2 :=
  Extends.rec
    (motive_1 := fun t1 t2 _ => ST t1 t2)
    (motive_2 := fun r1 r2 _ => PairS SC r1 r2)
    (motive_3 := fun _ a1 a2 _ => PairS SC a1 a2)
    (motive_4 := fun r1 r2 _ => PairAS SC r1 r2)
    (motive_5 := fun _ a1 a2 _ => PairAS SC a1 a2)
    (st_refl _) (st_refl _) (fun c => st_refl _) (fun c => st_refl _) (fun c => st_refl _)
    (fun k c => st_refl _) (fun root => st_refl _) st_enumeratedExt
    (fun {r1 r2 a1 a2} x hr ha ihr iha =>
      st_sequence r1 r2 a1 a2 x ihr (extendsMembers_names hr) iha (extendsAdds_names ha))
    (fun {e1 e2} c _ ih => st_sequenceOf e1 e2 c ih)
    (fun {r1 r2 a1 a2} x hr ha ihr iha =>
      st_choice r1 r2 a1 a2 x ihr (extendsAlts_names hr) iha (extendsAltAdds_names ha))
    (by rfl)
    (fun name p he _ iht ihr => ⟨rfl, rfl, ⟨iht, he⟩, ihr⟩)
    (fun x ms _ ho => ho)
    (fun name p he _ iht ihr => ⟨rfl, rfl, ⟨iht, he⟩, ihr⟩)
    trivial
    (fun name he _ iht ihr => ⟨rfl, ⟨iht, he⟩, ihr⟩)
    (fun x as _ => trivial)
    (fun name he _ iht ihr => ⟨rfl, ⟨iht, he⟩, ihr⟩)
    h

end Asn1.Ext.DerX
