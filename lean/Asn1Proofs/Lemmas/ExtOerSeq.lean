import Asn1Proofs.Lemmas.ExtOerComp
/-
  C07, OER: SEQUENCE (root members, extension additions, the complete type).
-/
set_option linter.unusedSimpArgs false
set_option linter.unusedVariables false
namespace Asn1.Ext.OerX
open Asn1 Asn1.Oer Asn1.Ext

/-! ### unfolding `viewMembers` -/

theorem viewMembers_cons (n n' : String) (p p' : Presence) (tD tE : Ty) (mD mE : Members)
    (fs : List (String × Val)) (fill : Bool) :
    viewMembers false (.cons n p tD mD) (.cons n' p' tE mE) fs fill =
      (match lookup n fs with
       | some v => (n, view false tD tE v) :: viewMembers false mD mE fs fill
       | none =>
         match p with
         | .default d => if fill then (n, d) :: viewMembers false mD mE fs fill
                         else viewMembers false mD mE fs fill
         | _ => viewMembers false mD mE fs fill) := by
  cases p <;> rfl

theorem viewMembers_nil_right (fs : List (String × Val)) (mD : Members) :
    viewMembers false mD .nil fs false = [] := by
  induction mD using Members.ind with
  | nil => rfl
  | cons n p t rest ih =>
    cases p with
    | mandatory => simp only [viewMembers]; exact ih
    | optional => simp only [viewMembers]; exact ih
    | default d => simp only [viewMembers, Bool.false_eq_true, if_false]; exact ih

/-! ### root members -/

/-- the statement about the root members of a SEQUENCE -/
def MX (mD mE : Members) : Prop :=
  ∀ (fs : List (String × Val)),
    mE.wf = true → oerWfMembers mE = true → mE.defaultsOk = true → dOkMembers false mD mE →
    membersOk mE fs = true → utf8OkMembers mE fs = true → noSwallowMembers mE fs false = true →
    ∀ (pre : Bits) (body rest : Bytes),
      encPreamble mE fs = .ok pre → encMembers mE fs false = .ok body →
      pre.length = optionalCount mD ∧
      decMembers mD pre (body ++ rest) = .ok (viewMembers false mD mE fs true, rest)

theorem mx_nil : MX .nil .nil := by
  intro fs _ _ _ _ _ _ _ pre body rest hp hb
  simp only [encPreamble, encMembers] at hp hb
  cases hp; cases hb
  exact ⟨rfl, rfl⟩

theorem mx_cons {tD tE : Ty} {mD mE : Members} (name : String) (p : Presence)
    (hc : Compat tD tE) (hxt : XTd tD tE) (ih : MX mD mE) :
    MX (.cons name p tD mD) (.cons name p tE mE) := by
  intro fs hwf hwf2 hd hdk hok hu hns pre body rest hp hb
  simp only [Members.wf, Bool.and_eq_true] at hwf
  simp only [oerWfMembers, Bool.and_eq_true] at hwf2
  simp only [Members.defaultsOk, Bool.and_eq_true] at hd
  simp only [dOkMembers] at hdk
  simp only [membersOk, Bool.and_eq_true] at hok
  simp only [utf8OkMembers, Bool.and_eq_true] at hu
  simp only [noSwallowMembers, Bool.and_eq_true] at hns
  have ih' := ih fs hwf.2 hwf2.2 hd.2 hdk.2.2 hok.2 hu.2 hns.2
  rw [encPreamble_cons] at hp
  rw [encMembers_cons] at hb
  rw [optionalCount_cons, viewMembers_cons]
  cases hpr : encPreamble mE fs with
  | error e => rw [hpr] at hp; cases hp
  | ok r =>
  rw [hpr] at hp
  simp only at hp
  cases hbr : encMembers mE fs false with
  | error e =>
    rw [hbr] at hb
    cases hh : encHere p tE (lookup name fs) false <;> rw [hh] at hb <;> cases hb
  | ok b =>
  rw [hbr] at hb
  cases hh : encHere p tE (lookup name fs) false with
  | error e => rw [hh] at hb; cases hb
  | ok a =>
  rw [hh] at hb
  simp only [Except.ok.injEq] at hb
  subst hb
  obtain ⟨hlen, hdec⟩ := ih' r b rest hpr hbr
  cases hl : lookup name fs with
  | some v =>
    simp only [hl] at hok hu hns hh hp ⊢
    have hrt' : ∀ a', enc tE v = .ok a' →
        dec tD (a' ++ (b ++ rest)) = .ok (view false tD tE v, b ++ rest) := fun a' ha =>
      hxt v a' (b ++ rest) hwf.1 hwf2.1 hd.1.2 hdk.2.1 hok.1 hu.1 (by simpa using hns.1) ha
    cases p with
    | mandatory =>
      simp only [encHere] at hh
      simp only [Except.ok.injEq] at hp
      subst hp
      rw [decMembers_mandatory]
      exact ⟨hlen, decHere_ok (hrt' a hh) hdec⟩
    | optional =>
      simp only [encHere] at hh
      simp only [Option.isSome_some, Except.ok.injEq] at hp
      subst hp
      rw [decMembers_optional_true]
      exact ⟨by simp [hlen], decHere_ok (hrt' a hh) hdec⟩
    | default d =>
      simp only [encHere, Bool.or_false] at hh
      simp only [Except.ok.injEq] at hp
      subst hp
      cases hdef : isDefault tE v d with
      | true =>
        simp only [hdef, Bool.not_true, Bool.false_eq_true, if_false, Except.ok.injEq] at hh
        subst hh
        simp only [Bool.not_true]
        rw [decMembers_default_false]
        simp only [bind, Except.bind, List.nil_append]
        rw [hdec]
        have hc' := view_of_isDefault hc v d hdk.1 hdef
        rw [hc']
        exact ⟨by simp [hlen], rfl⟩
      | false =>
        simp only [hdef, Bool.not_false, if_true] at hh
        simp only [Bool.not_false]
        rw [decMembers_default_true]
        exact ⟨by simp [hlen], decHere_ok (hrt' a hh) hdec⟩
  | none =>
    simp only [hl] at hok hh hp ⊢
    cases p with
    | mandatory => simp at hok
    | optional =>
      simp only [encHere, Except.ok.injEq] at hh
      subst hh
      simp only [Option.isSome_none, Except.ok.injEq] at hp
      subst hp
      rw [decMembers_optional_false]
      exact ⟨by simp [hlen], by simpa using hdec⟩
    | default d =>
      simp only [encHere, Except.ok.injEq] at hh
      subst hh
      simp only [Except.ok.injEq] at hp
      subst hp
      rw [decMembers_default_false]
      simp only [bind, Except.bind, List.nil_append]
      rw [hdec]
      exact ⟨by simp [hlen], rfl⟩

/-! ### extension additions -/

/-- the statement about the extension additions of a SEQUENCE -/
def AX (aD aE : Members) : Prop :=
  ∀ (fs : List (String × Val)),
    aE.wf = true → oerWfMembers aE = true → aE.defaultsOk = true → dOkMembers false aD aE →
    membersOk aE fs = true → utf8OkMembers aE fs = true → noSwallowMembers aE fs true = true →
    ((encAdditions aE fs).2.1 = [] → viewMembers false aD aE fs false = []) ∧
    ∀ (wrapped : List Bytes) (rest : Bytes),
      (encAdditions aE fs).2.1.mapM wrap = .ok wrapped →
      decAdditions aD (encAdditions aE fs).1 (wrapped.flatten ++ rest)
        = .ok (viewMembers false aD aE fs false, rest)

/-- additions the decoder does not know are skipped by exactly their length prefixes -/
theorem skip_ok (fs : List (String × Val)) (ms : Members) :
    membersOk ms fs = true → noSwallowMembers ms fs true = true →
    ∀ (wrapped : List Bytes) (rest : Bytes),
      (encAdditions ms fs).2.1.mapM wrap = .ok wrapped →
      skipUnknown (encAdditions ms fs).1 (wrapped.flatten ++ rest) = .ok rest := by
  induction ms using Members.ind with
  | nil =>
    intro _ _ wrapped rest hw
    simp only [encAdditions] at hw ⊢
    rw [mapM_nil'] at hw
    cases hw
    rfl
  | cons name p t ms ih =>
    intro hok hns
    simp only [membersOk, Bool.and_eq_true] at hok
    simp only [noSwallowMembers, Bool.and_eq_true] at hns
    have ihd := ih hok.2 hns.2
    rw [encAdditions_cons]
    cases hl : lookup name fs with
    | some v =>
      simp only [hl, Bool.not_true, Bool.false_or, Bool.and_eq_true] at hok hns
      cases henc : enc t v with
      | error e => rw [henc] at hns; simp at hns
      | ok e =>
        simp only [addHere, henc, Option.isSome_some, or_true, if_true]
        intro wrapped rest hw
        rw [mapM_cons'] at hw
        cases hwe : wrap e with
        | error x => rw [hwe] at hw; cases hw
        | ok we =>
          rw [hwe] at hw
          simp only at hw
          cases hwr : List.mapM wrap (encAdditions ms fs).2.1 with
          | error x => rw [hwr] at hw; cases hw
          | ok wr =>
            rw [hwr] at hw
            simp only [Except.ok.injEq] at hw
            subst hw
            unfold wrap at hwe
            simp only [bind, Except.bind] at hwe
            cases hld : lenDet e.length with
            | error x => rw [hld] at hwe; cases hwe
            | ok l =>
              rw [hld] at hwe
              simp only [Except.ok.injEq] at hwe
              subst hwe
              simp only [skipUnknown, if_true, bind, Except.bind, List.flatten_cons, List.append_assoc]
              rw [readLenDet_lenDet hld]
              simp only
              rw [readBytes_append e _ rfl]
              simp only
              exact ihd wr rest hwr
    | none =>
      simp only [hl] at hok
      cases p with
      | mandatory => simp at hok
      | optional =>
        simp only [addHere, List.length_nil, Nat.lt_irrefl, Option.isSome_none, Bool.false_eq_true,
          or_self, if_false, gt_iff_lt]
        intro wrapped rest hw
        simp only [skipUnknown, Bool.false_eq_true, if_false]
        exact ihd wrapped rest hw
      | default d =>
        simp only [addHere, List.length_nil, Nat.lt_irrefl, Option.isSome_none, Bool.false_eq_true,
          or_self, if_false, gt_iff_lt]
        intro wrapped rest hw
        simp only [skipUnknown, Bool.false_eq_true, if_false]
        exact ihd wrapped rest hw

/-- the decoder knows no further additions -/
theorem ax_nilD (ms : Members) : AX .nil ms := by
  intro fs _ _ _ _ hok _ hns
  refine ⟨fun _ => rfl, ?_⟩
  intro wrapped rest hw
  simp only [decAdditions, bind, Except.bind]
  rw [skip_ok fs ms hok hns wrapped rest hw]
  rfl

/-- the encoder knows no further additions: the bitmap has run out -/
theorem ax_nilE (ms : Members) : AX ms .nil := by
  intro fs _ _ _ _ _ _ _
  refine ⟨fun _ => viewMembers_nil_right fs ms, ?_⟩
  intro wrapped rest hw
  simp only [encAdditions] at hw ⊢
  rw [mapM_nil'] at hw
  cases hw
  rw [viewMembers_nil_right]
  cases ms with
  | nil => rfl
  | cons n p t r => rfl

theorem ax_cons {tD tE : Ty} {mD mE : Members} (name : String) (p : Presence)
    (hxt : XTd tD tE) (ih : AX mD mE) :
    AX (.cons name p tD mD) (.cons name p tE mE) := by
  intro fs hwf hwf2 hd hdk hok hu hns
  simp only [Members.wf, Bool.and_eq_true] at hwf
  simp only [oerWfMembers, Bool.and_eq_true] at hwf2
  simp only [Members.defaultsOk, Bool.and_eq_true] at hd
  simp only [dOkMembers] at hdk
  simp only [membersOk, Bool.and_eq_true] at hok
  simp only [utf8OkMembers, Bool.and_eq_true] at hu
  simp only [noSwallowMembers, Bool.and_eq_true] at hns
  obtain ⟨ihe, ihd⟩ := ih fs hwf.2 hwf2.2 hd.2 hdk.2.2 hok.2 hu.2 hns.2
  rw [encAdditions_cons, viewMembers_cons]
  cases hl : lookup name fs with
  | some v =>
    simp only [hl, Bool.not_true, Bool.false_or, Bool.and_eq_true] at hok hu hns
    cases henc : enc tE v with
    | error e => rw [henc] at hns; simp at hns
    | ok e =>
      simp only [addHere, henc, Option.isSome_some, or_true, if_true]
      refine ⟨(fun h => absurd h (List.cons_ne_nil _ _)), ?_⟩
      intro wrapped rest hw
      rw [mapM_cons'] at hw
      cases hwe : wrap e with
      | error x => rw [hwe] at hw; cases hw
      | ok we =>
        rw [hwe] at hw
        simp only at hw
        cases hwr : List.mapM wrap (encAdditions mE fs).2.1 with
        | error x => rw [hwr] at hw; cases hw
        | ok wr =>
          rw [hwr] at hw
          simp only [Except.ok.injEq] at hw
          subst hw
          unfold wrap at hwe
          simp only [bind, Except.bind] at hwe
          cases hld : lenDet e.length with
          | error x => rw [hld] at hwe; cases hwe
          | ok l =>
            rw [hld] at hwe
            simp only [Except.ok.injEq] at hwe
            subst hwe
            rw [decAdditions_cons_true]
            simp only [bind, Except.bind, List.flatten_cons, List.append_assoc]
            rw [readLenDet_lenDet hld]
            simp only
            rw [hxt v e _ hwf.1 hwf2.1 hd.1.2 hdk.2.1 hok.1 hu.1 hns.1.1 henc]
            simp only
            rw [ihd wr rest hwr]
  | none =>
    simp only [hl] at hok
    cases p with
    | mandatory => simp at hok
    | optional =>
      simp only [addHere, List.length_nil, Nat.lt_irrefl, Option.isSome_none, Bool.false_eq_true,
        or_self, if_false, gt_iff_lt]
      refine ⟨ihe, ?_⟩
      intro wrapped rest hw
      rw [decAdditions_cons_false]
      exact ihd wrapped rest hw
    | default d =>
      simp only [addHere, List.length_nil, Nat.lt_irrefl, Option.isSome_none, Bool.false_eq_true,
        or_self, if_false, gt_iff_lt]
      refine ⟨ihe, ?_⟩
      intro wrapped rest hw
      rw [decAdditions_cons_false]
      exact ihd wrapped rest hw

/-! ### the complete type -/

theorem allO_rt (ms : Members) : ms.AllO RT := by
  induction ms using Members.ind with
  | nil => trivial
  | cons n p t r ih => exact ⟨rt_all t, ih⟩

theorem xt_sequence {rD rE aD aE : Members} (x : Bool) (hr : MX rD rE) (ha : AX aD aE) :
    XTd (.sequence rD x aD) (.sequence rE x aE) := by
  intro v bytes rest hwf hwf2 hd hdk ht hu hns he
  cases v <;> try (simp only [hasType, Bool.false_eq_true] at ht; done)
  rename_i fs
  simp only [Ty.wf, Bool.and_eq_true, decide_eq_true_eq, Bool.or_eq_true, beq_iff_eq] at hwf
  obtain ⟨⟨⟨⟨hwr, hwa⟩, hnd⟩, hext⟩, _⟩ := hwf
  simp only [oerWf, Bool.and_eq_true] at hwf2
  simp only [Ty.defaultsOk, Bool.and_eq_true] at hd
  simp only [dOk] at hdk
  simp only [utf8Ok, Bool.and_eq_true] at hu
  simp only [noSwallow, Bool.and_eq_true] at hns
  obtain ⟨hokr, hoka⟩ := membersOk_of_hasType rE aE x fs hnd ht
  simp only [view]
  rw [enc] at he
  obtain ⟨pre, hpre⟩ := encPreamble_ok fs rE
  cases hbody : encMembers rE fs false with
  | error e => rw [hpre, hbody] at he; cases he
  | ok body =>
  rw [hpre, hbody] at he
  simp only at he
  have hm := fun tail => hr fs hwr hwf2.1 hd.1 hdk.1 hokr hu.1 hns.1 pre body tail hpre hbody
  have hlen := (hm []).1
  obtain ⟨hae, had⟩ := ha fs hwa hwf2.2 hd.2 hdk.2 hoka hu.2 hns.2
  have hal := (rt_additions fs aE (allO_rt aE) hwa hwf2.2 hd.2 hoka hu.2 hns.2).1
  cases x with
  | false =>
    simp only [Bool.false_eq_true, if_false, Except.ok.injEq, false_or] at he hext
    subst he
    have := members_length_zero hext
    subst this
    have := dec_sequence_ok rD false aD pre false body rest _ hlen (hm rest).2
    simp only [Bool.false_eq_true, if_false, Bool.false_and] at this
    rw [List.append_assoc, this, viewMembers_nil_right, List.append_nil]
  | true =>
    simp only [if_true] at he
    have hshort : dec (.sequence rD true aD) ((packBits (false :: pre) ++ body) ++ rest)
        = .ok (.record (viewMembers false rD rE fs true), rest) := by
      have := dec_sequence_ok rD true aD pre false body rest _ hlen (hm rest).2
      simp only [if_true, Bool.and_false, Bool.false_eq_true, if_false] at this
      rw [List.append_assoc, this]
    cases aE with
    | nil =>
      simp only [Except.ok.injEq] at he
      subst he
      rw [hshort, viewMembers_nil_right, List.append_nil]
    | cons an ap at' ar =>
      simp only at he
      rcases hea : encAdditions (Members.cons an ap at' ar) fs with ⟨present, encs, stopped⟩
      rw [hea] at he hal hae had
      simp only at he hal hae had
      cases encs with
      | nil =>
        simp only [List.isEmpty_nil, if_true, Except.ok.injEq] at he
        subst he
        rw [hshort, hae rfl, List.append_nil]
      | cons e0 encs' =>
        simp only [List.isEmpty_cons, Bool.false_eq_true, if_false] at he
        rw [hal, Nat.sub_self, List.replicate_zero, List.nil_append] at he
        have hwrap : (fun e => do let l ← lenDet (List.length e); Except.ok (l ++ e)) = wrap := rfl
        rw [hwrap] at he
        cases hl : lenDet (((Members.cons an ap at' ar).length + 7) / 8 + 1) with
        | error x => rw [hl] at he; cases he
        | ok l =>
          rw [hl] at he
          cases hw : List.mapM wrap (e0 :: encs') with
          | error x => rw [hw] at he; cases he
          | ok wrapped =>
            rw [hw] at he
            simp only [Except.ok.injEq] at he
            subst he
            have hn : 0 < (Members.cons an ap at' ar).length := by simp [Members.length]
            have hd1 := had wrapped rest hw
            have hd2 := decExtBlock_ok aD (viewMembers false rD rE fs true) _ _ l
              present wrapped.flatten rest hl hal hn hd1
            have hd3 := dec_sequence_ok rD true aD pre true body _ _ hlen
              (hm (l ++ ([(8 - (Members.cons an ap at' ar).length % 8) % 8] ++
                (packBits present ++ (wrapped.flatten ++ rest))))).2
            simp only [if_true, Bool.and_true] at hd3
            simp only [List.append_assoc]
            try simp only [List.append_assoc] at hd3
            rw [hd3, hd2]

end Asn1.Ext.OerX
