import Asn1Proofs.Lemmas.DerSeq
/-
  Round-trip theorems for the DER and the BER model (C01 for BER / DER, and the
  `decode_with_length` part of C15).

  The canonical value `canon'` is `X690.canonV` (Asn1Model/X690Value.lean), NOT `Typing.canon`: the
  BER / DER decoders fill in the DEFAULT value of an absent extension addition as well
  (`Typing.canon`, the normal form of the PER / OER decoders, does so in the extension root only).
  Accordingly the hypothesis on DEFAULT values is `X690.defaultsOkV` (DEFAULT values are in
  `canonV` normal form); `Ty.defaultsOk` alone is not enough (`DerCounterexample.lean`).

  Side condition found necessary: `Oer.oerWf t` -- enumeration values pairwise distinct over root
  and additions (the decoder looks the name up by value; `Ty.wf` asks that of the root only).
  Counterexample without it in `DerCounterexample.lean`.
-/
namespace Asn1.Der
open Asn1.X690 (canonV defaultsOkV)

theorem members_allO_of_forall {P : Ty → Prop} (h : ∀ t, P t) (ms : Members) : ms.AllO P := by
  induction ms using Members.ind with
  | nil => trivial
  | cons _ _ t rest ih => exact ⟨h t, ih⟩

theorem et_all (t : Ty) : ET t :=
  Ty.rec (motive_1 := ET) (motive_2 := Members.AllO ET) (motive_3 := Alts.AllO ET)
    et_boolean et_null et_integer et_enumerated et_octetString et_bitString et_charString
    (fun root ext adds ihr iha => et_sequence root ext adds ihr iha)
    (fun e c ih => et_sequenceOf e c ih)
    (fun root ext adds ihr iha => et_choice root ext adds ihr iha)
    trivial (fun _ _ _ _ iht ihr => ⟨iht, ihr⟩)
    trivial (fun _ _ _ iht ihr => ⟨iht, ihr⟩) t

theorem rt_all_der (t : Ty) : RT dec t :=
  Ty.rec (motive_1 := RT dec) (motive_2 := Members.AllO (RT dec)) (motive_3 := Alts.AllO (RT dec))
    rt_boolean_der rt_null_der rt_integer_der rt_enumerated_der rt_octetString_der rt_bitString_der
    rt_charString_der
    (fun root ext adds ihr iha => rt_sequence der_isCodec root ext adds ihr iha
      (members_allO_of_forall et_all root) (members_allO_of_forall et_all adds))
    (fun e c ih => rt_sequenceOf_der e c ih)
    (fun root ext adds ihr iha => rt_choice der_isCodec root ext adds ihr iha)
    trivial (fun _ _ _ _ iht ihr => ⟨iht, ihr⟩)
    trivial (fun _ _ _ iht ihr => ⟨iht, ihr⟩) t

theorem rt_all_ber (t : Ty) : RT BerCodec.dec t :=
  Ty.rec (motive_1 := RT BerCodec.dec) (motive_2 := Members.AllO (RT BerCodec.dec))
    (motive_3 := Alts.AllO (RT BerCodec.dec))
    rt_boolean_ber rt_null_ber rt_integer_ber rt_enumerated_ber rt_octetString_ber rt_bitString_ber
    rt_charString_ber
    (fun root ext adds ihr iha => rt_sequence BerCodec.ber_isCodec root ext adds ihr iha
      (members_allO_of_forall et_all root) (members_allO_of_forall et_all adds))
    (fun e c ih => rt_sequenceOf_ber e c ih)
    (fun root ext adds ihr iha => rt_choice BerCodec.ber_isCodec root ext adds ihr iha)
    trivial (fun _ _ _ _ iht ihr => ⟨iht, ihr⟩)
    trivial (fun _ _ _ iht ihr => ⟨iht, ihr⟩) t

/-- the codec proper never fails on a well-typed value (in any tagging context) -/
theorem enc_total (t : Ty) (tg : Option Nat) (v : Val) (hwf : t.wf = true) (ht : hasType t v = true) :
    ∃ bytes, enc t tg v = .ok bytes :=
  et_all t tg v hwf ht

theorem enc_of_encode {t : Ty} {v : Val} {bytes : Bytes} (he : encode t v = .ok bytes) :
    enc t none v = .ok bytes := by
  unfold encode at he
  split at he
  · exact he
  · cases he

/-- DER: decoding an encoding followed by arbitrary further octets returns the canonical value
and exactly the length of the encoding (in any tagging context, for the recursive decoder) -/
theorem dec_enc_der (t : Ty) (tg : Option Nat) (v : Val) (bytes rest : Bytes) (fuel : Nat)
    (hwf : t.wf = true) (henum : Oer.oerWf t = true) (hd : defaultsOkV t = true)
    (ht : hasType t v = true) (he : enc t tg v = .ok bytes) (hf : bytes.length < fuel) :
    dec t tg fuel (bytes ++ rest) = .ok (some (canon' t v, bytes.length, rest)) :=
  rt_all_der t tg v bytes rest fuel hwf henum hd ht he hf

theorem dec_enc_ber (t : Ty) (tg : Option Nat) (v : Val) (bytes rest : Bytes) (fuel : Nat)
    (hwf : t.wf = true) (henum : Oer.oerWf t = true) (hd : defaultsOkV t = true)
    (ht : hasType t v = true) (he : enc t tg v = .ok bytes) (hf : bytes.length < fuel) :
    BerCodec.dec t tg fuel (bytes ++ rest) = .ok (some (canon' t v, bytes.length, rest)) :=
  rt_all_ber t tg v bytes rest fuel hwf henum hd ht he hf

/-- C01 (DER) / C15 `decode_with_length`: value and exact length, arbitrary trailing octets -/
theorem roundtrip_der (t : Ty) (v : Val) (bytes rest : Bytes)
    (hwf : t.wf = true) (henum : Oer.oerWf t = true) (hd : defaultsOkV t = true)
    (ht : hasType t v = true) (he : encode t v = .ok bytes) :
    decodeWithLength t (bytes ++ rest) = .ok (canon' t v, bytes.length) := by
  unfold decodeWithLength
  rw [dec_enc_der t none v bytes rest _ hwf henum hd ht (enc_of_encode he) (by simp; omega)]

/-- C01 (BER) / C15 `decode_with_length` -/
theorem roundtrip_ber (t : Ty) (v : Val) (bytes rest : Bytes)
    (hwf : t.wf = true) (henum : Oer.oerWf t = true) (hd : defaultsOkV t = true)
    (ht : hasType t v = true) (he : BerCodec.encode t v = .ok bytes) :
    BerCodec.decodeWithLength t (bytes ++ rest) = .ok (canon' t v, bytes.length) := by
  unfold BerCodec.decodeWithLength
  have he' : encode t v = .ok bytes := he
  rw [dec_enc_ber t none v bytes rest _ hwf henum hd ht (enc_of_encode he') (by simp; omega)]

theorem roundtrip_der_decode (t : Ty) (v : Val) (bytes : Bytes)
    (hwf : t.wf = true) (henum : Oer.oerWf t = true) (hd : defaultsOkV t = true)
    (ht : hasType t v = true) (he : encode t v = .ok bytes) :
    decode t bytes = .ok (canon' t v) := by
  have := roundtrip_der t v bytes [] hwf henum hd ht he
  rw [List.append_nil] at this
  unfold decode; rw [this]; rfl

theorem roundtrip_ber_decode (t : Ty) (v : Val) (bytes : Bytes)
    (hwf : t.wf = true) (henum : Oer.oerWf t = true) (hd : defaultsOkV t = true)
    (ht : hasType t v = true) (he : BerCodec.encode t v = .ok bytes) :
    BerCodec.decode t bytes = .ok (canon' t v) := by
  have := roundtrip_ber t v bytes [] hwf henum hd ht he
  rw [List.append_nil] at this
  unfold BerCodec.decode; rw [this]; rfl

end Asn1.Der

#print axioms Asn1.Der.enc_total
#print axioms Asn1.Der.roundtrip_der
#print axioms Asn1.Der.roundtrip_ber
