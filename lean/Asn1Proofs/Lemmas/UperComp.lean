import Asn1Proofs.Lemmas.UperSized
/-
  SEQUENCE OF and CHOICE.
-/
set_option linter.unusedSimpArgs false
namespace Asn1

def Members.All (P : Ty → Prop) : Members → Prop
  | .nil => True
  | .cons _ _ t rest => P t ∧ Members.All P rest

def Alts.All (P : Ty → Prop) : Alts → Prop
  | .nil => True
  | .cons _ t rest => P t ∧ Alts.All P rest

/-- first alternative with the given name and its position -/
def Alts.find (name : String) : Alts → Option (Nat × Ty)
  | .nil => none
  | .cons n t rest => if n == name then some (0, t) else (Alts.find name rest).map (fun x => (x.1 + 1, x.2))

namespace Uper

theorem rt_sequenceOf (e : Ty) (c : SizeC) (ih : RT e) : RT (.sequenceOf e c) := by
  intro v bits rest fuel hwf hd hns ht hf he hfuel
  cases v <;> simp only [hasType, Bool.false_eq_true] at ht
  rename_i vs
  rw [canon]
  rw [Ty.wf] at hwf
  rw [Ty.defaultsOk] at hd
  rw [Ty.nsOk] at hns
  rw [fragFree] at hf
  simp only [Bool.and_eq_true, List.all_eq_true, Bool.or_eq_true, sizeOk_eq_inSize] at ht hwf hf
  obtain ⟨hall, hsz⟩ := ht
  obtain ⟨hewf, hcwf⟩ := hwf
  obtain ⟨hfall, hfsz⟩ := hf
  rw [enc] at he
  rw [dec]
  split at he
  · cases he
  rename_i items hitems
  have hall2' : ∀ vs items, All2 (fun v item => enc e v = .ok item) vs items →
      (∀ v ∈ vs, hasType e v = true) → (∀ v ∈ vs, fragFree e v = true) →
      All2 (ItemRT (dec e fuel) (fuel - 2)) items (vs.map (canon e)) := by
    intro vs items h
    induction h with
    | nil => intros; exact .nil
    | @cons v item vs items hx _ ih2 =>
      intro h1 h2
      refine .cons ?_ (ih2 (fun x hx => h1 x (by simp [hx])) (fun x hx => h2 x (by simp [hx])))
      intro rest' hr
      exact ih v item rest' fuel hewf hd hns (h1 v (by simp)) (h2 v (by simp)) hx (by omega)
  have hall2 := hall2' vs items (all2_of_mapM _ _ _ hitems) hall hfall
  have hlen : items.length = vs.length := (All2.length_eq (all2_of_mapM _ _ _ hitems)).symm
  simp only [ext_hi_of_wf hcwf, if_false] at he
  split at he
  · rename_i hout
    cases he
    have hs : vs.length < 16384 := by
      simp only [Bool.not_eq_true', smallLen, decide_eq_true_eq] at hfsz
      rcases hfsz with (hf | hf) | hf
      · rw [hout.1] at hf; cases hf
      · exact absurd hf hout.2
      · exact hf
    simp only [hout.1, if_true, bind, Except.bind, List.cons_append, List.nil_append, readBit_cons,
      List.append_assoc]
    rw [readLenDet_lenDet, lenDet_snd_of_lt hs]
    simp only
    rw [← hlen, decRepeat_flatten _ (fuel - 2) _ _ hall2 rest
      (by simp only [List.length_append, List.length_cons] at hfuel; omega)]
  · rename_i hnot
    have hin : inSize c vs.length = true := by
      rcases hsz with h | h
      · cases hi : inSize c vs.length
        · exact absurd ⟨h, by simp [hi]⟩ hnot
        · rfl
      · exact h
    split at he
    · rename_i hsb
      cases he
      simp only [List.append_assoc, bind, Except.bind, readExt_pre, Bool.false_eq_true, if_false]
      rw [decChunks_encChunked _ (fuel - 2) _ _ hall2 rest
        (by simp only [List.length_append] at hfuel; omega) fuel
        (by simp only [List.length_append] at hfuel; omega)]
    · rename_i w hsb
      obtain ⟨h1, h2, h3⟩ := sizeBits_some hsb hin
      split at he
      · rename_i hne
        cases he
        simp only [List.append_assoc, bind, Except.bind, readExt_pre, Bool.false_eq_true, if_false]
        rw [if_pos hne, readNat_natToBits _ h2]
        simp only
        have : c.lo + (vs.length - c.lo) = items.length := by omega
        rw [this, decRepeat_flatten _ (fuel - 2) _ _ hall2 rest
          (by simp only [List.length_append] at hfuel; omega)]
      · rename_i hne
        cases he
        simp only [List.append_assoc, bind, Except.bind, readExt_pre, Bool.false_eq_true, if_false]
        rw [if_neg hne]
        have : c.lo = items.length := by rw [hlen]; exact (h3 (by simpa using hne)).symm
        simp only
        rw [this, decRepeat_flatten _ (fuel - 2) _ _ hall2 rest
          (by simp only [List.length_append] at hfuel; omega)]

theorem et_sequenceOf (e : Ty) (c : SizeC) (ih : ET e) : ET (.sequenceOf e c) := by
  intro v hwf ht
  cases v <;> simp only [hasType, Bool.false_eq_true] at ht
  rename_i vs
  rw [Ty.wf] at hwf
  simp only [Bool.and_eq_true, List.all_eq_true] at ht hwf
  obtain ⟨items, hitems⟩ := mapM_ok_of_forall (enc e) vs (fun v hv => ih v hwf.1 (ht.1 v hv))
  rw [enc]
  simp only [hitems, ext_hi_of_wf hwf.2, if_false]
  split
  · exact ⟨_, rfl⟩
  · split
    · exact ⟨_, rfl⟩
    · split <;> exact ⟨_, rfl⟩

/-! ### alternatives -/

theorem find_none_iff (name : String) (as : Alts) : as.find name = none ↔ name ∉ as.names := by
  induction as using Alts.ind with
  | nil => simp [Alts.find, Alts.names]
  | cons n t rest ih =>
    simp only [Alts.find, Alts.names, List.mem_cons, not_or]
    by_cases hn : n = name
    · subst hn; simp
    · have : ¬ name = n := fun e => hn e.symm
      simp [hn, this, ih]

theorem find_lt (name : String) (as : Alts) (j : Nat) (t : Ty) (h : as.find name = some (j, t)) :
    j < as.length := by
  induction as using Alts.ind generalizing j with
  | nil => simp [Alts.find] at h
  | cons n t' rest ih =>
    simp only [Alts.find] at h
    split at h
    · cases h; simp [Alts.length]
    · simp only [Option.map_eq_some_iff] at h
      obtain ⟨⟨j', t''⟩, h1, h2⟩ := h
      cases h2
      have := ih j' h1
      simp [Alts.length]; omega

theorem find_all {P : Ty → Prop} (name : String) (as : Alts) (j : Nat) (t : Ty)
    (h : as.find name = some (j, t)) (hall : as.All P) : P t := by
  induction as using Alts.ind generalizing j with
  | nil => simp [Alts.find] at h
  | cons n t' rest ih =>
    simp only [Alts.find] at h
    split at h
    · cases h; exact hall.1
    · simp only [Option.map_eq_some_iff] at h
      obtain ⟨⟨j', t''⟩, h1, h2⟩ := h
      cases h2
      exact ih j' h1 hall.2

theorem all_wf (as : Alts) (h : as.wf = true) : as.All (fun t => t.wf = true) := by
  induction as using Alts.ind with
  | nil => trivial
  | cons n t rest ih =>
    simp only [Alts.wf, Bool.and_eq_true] at h
    exact ⟨h.1, ih h.2⟩

theorem all_defaultsOk (as : Alts) (h : as.defaultsOk = true) : as.All (fun t => t.defaultsOk = true) := by
  induction as using Alts.ind with
  | nil => trivial
  | cons n t rest ih =>
    simp only [Alts.defaultsOk, Bool.and_eq_true] at h
    exact ⟨h.1, ih h.2⟩

theorem all_nsOk (as : Alts) (h : as.nsOk = true) : as.All (fun t => t.nsOk = true) := by
  induction as using Alts.ind with
  | nil => trivial
  | cons n t rest ih =>
    simp only [Alts.nsOk, Bool.and_eq_true] at h
    exact ⟨h.1, ih h.2⟩

theorem encAlt_find (as : Alts) (name : String) (v : Val) (i : Nat) :
    encAlt as name v i = (as.find name).map (fun x => (i + x.1, enc x.2 v)) := by
  induction as using Alts.ind generalizing i with
  | nil => rfl
  | cons n t rest ih =>
    simp only [encAlt, Alts.find]
    split
    · rfl
    · rw [ih]
      cases rest.find name with
      | none => rfl
      | some x => simp only [Option.map_some]; congr 2; omega

theorem hasAlt_find (as : Alts) (name : String) (v : Val) :
    hasAlt as name v = (match as.find name with | some x => hasType x.2 v | none => false) := by
  induction as using Alts.ind with
  | nil => rfl
  | cons n t rest ih =>
    simp only [hasAlt, Alts.find]
    split
    · rfl
    · rw [ih]
      cases rest.find name <;> rfl

theorem canonAlt_find (as : Alts) (name : String) (v : Val) :
    canonAlt as name v = (as.find name).map (fun x => canon x.2 v) := by
  induction as using Alts.ind with
  | nil => rfl
  | cons n t rest ih =>
    simp only [canonAlt, Alts.find]
    split
    · rfl
    · rw [ih]
      cases rest.find name <;> rfl

theorem fragFreeAlt_find (as : Alts) (name : String) (v : Val) (o : Bool) :
    fragFreeAlt as name v o = (match as.find name with
      | some x => fragFree x.2 v &&
          (!o || (match enc x.2 v with | .ok e => smallLen ((e.length + 7) / 8) | .error _ => true))
      | none => true) := by
  induction as using Alts.ind with
  | nil => rfl
  | cons n t rest ih =>
    simp only [fragFreeAlt, Alts.find]
    split
    · rfl
    · rw [ih]
      cases rest.find name <;> rfl

theorem decAlt_find (as : Alts) (name : String) (j : Nat) (t : Ty) (h : as.find name = some (j, t))
    (fuel : Nat) (bs : Bits) :
    decAlt as fuel j bs = some (do let (v, r) ← dec t fuel bs; .ok (.choice name v, r)) := by
  induction as using Alts.ind generalizing j with
  | nil => simp [Alts.find] at h
  | cons n t' rest ih =>
    simp only [Alts.find] at h
    split at h
    · rename_i hn
      cases h
      have : n = name := by simpa using hn
      subst this
      rfl
    · simp only [Option.map_eq_some_iff] at h
      obtain ⟨⟨j', t''⟩, h1, h2⟩ := h
      cases h2
      simp only [decAlt]
      exact ih j' h1

/-! ### padding -/

theorem padToByte_eq (bs : Bits) :
    padToByte bs = bs ++ List.replicate (8 * ((bs.length + 7) / 8) - bs.length) false := by
  unfold padToByte
  congr 2
  omega

theorem padToByte_length_div (bs : Bits) : (padToByte bs).length / 8 = (bs.length + 7) / 8 := by
  rw [padToByte_eq, List.length_append, List.length_replicate]
  omega

theorem rt_choice (root : Alts) (ext : Bool) (adds : Alts)
    (ihr : root.All RT) (iha : adds.All RT) : RT (.choice root ext adds) := by
  intro v bits rest fuel hwf hd hns ht hf he hfuel
  cases v <;> simp only [hasType, Bool.false_eq_true] at ht
  rename_i name w
  rw [canon]
  rw [Ty.wf] at hwf
  rw [Ty.defaultsOk] at hd
  rw [Ty.nsOk] at hns
  rw [fragFree] at hf
  simp only [Bool.and_eq_true, Bool.or_eq_true, decide_eq_true_eq, beq_iff_eq] at ht hwf hd hns hf
  obtain ⟨⟨⟨⟨hrwf, hawf⟩, hrpos⟩, hnd⟩, hext⟩ := hwf
  obtain ⟨⟨hrns, hans⟩, hnsi⟩ := hns
  rw [hasAlt_find, hasAlt_find] at ht
  rw [fragFreeAlt_find, fragFreeAlt_find] at hf
  rw [canonAlt_find, canonAlt_find]
  rw [enc] at he
  rw [encAlt_find, encAlt_find] at he
  rw [dec]
  cases hfr : root.find name with
  | some x =>
    obtain ⟨j, t⟩ := x
    have hnr : name ∈ root.names := by
      by_cases h : name ∈ root.names
      · exact h
      · have := (find_none_iff name root).2 h
        rw [this] at hfr; cases hfr
    have hfa : adds.find name = none := by
      rw [find_none_iff]
      intro hna
      exact (List.nodup_append.1 hnd).2.2 name hnr name hna rfl
    simp only [hfr, hfa, Option.map_some, Option.map_none, Bool.or_false, Bool.not_false,
      Bool.true_or, Bool.and_true, Nat.zero_add, Bool.false_eq_true, or_false] at ht hf he ⊢
    have hj := find_lt name root j t hfr
    split at he
    · cases he
    rename_i body hbody
    cases he
    have hrt := find_all name root j t hfr ihr w body rest fuel
      (find_all name root j t hfr (all_wf root hrwf))
      (find_all name root j t hfr (all_defaultsOk root hd.1))
      (find_all name root j t hfr (all_nsOk root hrns)) ht hf.1 hbody
      (by simp only [List.length_append] at hfuel; omega)
    simp only [List.append_assoc, bind, Except.bind, readExt_pre, Bool.false_eq_true, if_false]
    by_cases h1 : root.length > 1
    · simp only [h1, if_true]
      rw [readNat_natToBits _ (lt_two_pow_bitLength_of_le (by omega))]
      simp only
      rw [decAlt_find root name j t hfr]
      simp only [bind, Except.bind, hrt]
    · simp only [h1, if_false, List.nil_append]
      have : j = 0 := by omega
      subst this
      rw [decAlt_find root name 0 t hfr]
      simp only [bind, Except.bind, hrt]
  | none =>
    simp only [hfr, Option.map_none, Bool.false_eq_true, false_or] at ht hf he ⊢
    cases hfa : adds.find name with
    | none => simp [hfa] at ht
    | some x =>
      obtain ⟨j, t⟩ := x
      have hj := find_lt name adds j t hfa
      have hext' : ext = true := by
        rcases hext with h | h
        · exact h
        · omega
      simp only [hfa, hext', if_true, Option.map_some, Nat.zero_add, Bool.not_true, Bool.false_or,
        Bool.and_eq_true] at ht hf he ⊢
      split at he
      · cases he
      rename_i body hbody
      cases he
      rw [hbody] at hf
      simp only [smallLen, decide_eq_true_eq] at hf
      have hrt := find_all name adds j t hfa iha w body
        (List.replicate (8 * ((body.length + 7) / 8) - body.length) false ++ rest) fuel
        (find_all name adds j t hfa (all_wf adds hawf))
        (find_all name adds j t hfa (all_defaultsOk adds hd.2))
        (find_all name adds j t hfa (all_nsOk adds hans)) ht hf.2.1 hbody
        (by
          simp only [List.length_append, List.length_cons, List.length_replicate] at hfuel ⊢
          rw [padToByte_eq] at hfuel
          simp only [List.length_append, List.length_replicate] at hfuel
          omega)
      simp only [List.append_assoc, bind, Except.bind, List.cons_append, List.nil_append,
        readBit_cons, if_true]
      rw [decNsnnwn_enc j _ (nsIndexOk_lt hnsi hj)]
      simp only
      rw [readLenDet_lenDet, lenDet_snd_of_lt (by rw [padToByte_length_div]; exact hf.2.2)]
      simp only
      rw [decAlt_find adds name j t hfa]
      simp only [bind, Except.bind]
      rw [padToByte_length_div, padToByte_eq, List.append_assoc, hrt]
      simp only [List.length_append, List.length_replicate]
      have hc : ¬ (body.length + (8 * ((body.length + 7) / 8) - body.length + rest.length) -
          (8 * ((body.length + 7) / 8) - body.length + rest.length) > 8 * ((body.length + 7) / 8)) := by
        omega
      simp only [hc, if_false]
      rw [readBits_append _ _ (by simp only [List.length_replicate]; omega)]

theorem et_choice (root : Alts) (ext : Bool) (adds : Alts)
    (ihr : root.All ET) (iha : adds.All ET) : ET (.choice root ext adds) := by
  intro v hwf ht
  cases v <;> simp only [hasType, Bool.false_eq_true] at ht
  rename_i name w
  rw [Ty.wf] at hwf
  simp only [Bool.and_eq_true, Bool.or_eq_true, decide_eq_true_eq, beq_iff_eq] at ht hwf
  obtain ⟨⟨⟨⟨hrwf, hawf⟩, hrpos⟩, hnd⟩, hext⟩ := hwf
  rw [hasAlt_find, hasAlt_find] at ht
  rw [enc, encAlt_find, encAlt_find]
  cases hfr : root.find name with
  | some x =>
    obtain ⟨j, t⟩ := x
    have hnr : name ∈ root.names := by
      by_cases h : name ∈ root.names
      · exact h
      · have := (find_none_iff name root).2 h
        rw [this] at hfr; cases hfr
    have hfa : adds.find name = none := by
      rw [find_none_iff]
      intro hna
      exact (List.nodup_append.1 hnd).2.2 name hnr name hna rfl
    simp only [hfr, hfa, Bool.false_eq_true, or_false] at ht
    obtain ⟨body, hbody⟩ := find_all name root j t hfr ihr w
      (find_all name root j t hfr (all_wf root hrwf)) ht
    simp only [Option.map_some, hbody]
    exact ⟨_, rfl⟩
  | none =>
    simp only [hfr, Bool.false_eq_true, false_or] at ht
    cases hfa : adds.find name with
    | none => simp [hfa] at ht
    | some x =>
      obtain ⟨j, t⟩ := x
      have hj := find_lt name adds j t hfa
      have hext' : ext = true := by
        rcases hext with h | h
        · exact h
        · omega
      simp only [hfa] at ht
      obtain ⟨body, hbody⟩ := find_all name adds j t hfa iha w
        (find_all name adds j t hfa (all_wf adds hawf)) ht
      simp only [Option.map_none, hext', if_true, Option.map_some, hbody]
      exact ⟨_, rfl⟩

end Uper
end Asn1
