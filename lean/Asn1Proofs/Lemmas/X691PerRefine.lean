import Asn1Proofs.Lemmas.X691PerLeaf
/-
  The ALIGNED specification encoder against the code model `Per.enc`: SEQUENCE OF, CHOICE, SEQUENCE
  and the induction over all types.
-/
set_option linter.unusedSimpArgs false
set_option linter.unusedVariables false
namespace Asn1.X691
open Asn1.Uper (lenDet encChunks encChunked padToByte)
open Asn1.Per (alignBits padLen)

/-! ### SEQUENCE OF -/

section generic
variable {α : Type} (f g : Nat → α → EncM Bits)

/-- the code's expression below the extension bit for a size inside the (root of the) constraint -/
theorem seqOf_root (vs : List α) (hfg : ∀ v ∈ vs, ∀ p b, f p v = .ok b → g p v = .ok b)
    (c : SizeC) (p : Nat) (pre b : Bits) (hsmall : Uper.sizeBits c = none → vs.length < 16384)
    (h : sizedM true f c.lo c.hi false false p vs = .ok b) :
    (match Uper.sizeBits c with
      | none =>
        match Per.encChunksM g (vs.length / 16384 + 2) (p + (alignBits p).length) vs with
        | .error err => (.error err : EncM Bits)
        | .ok b => .ok (pre ++ alignBits p ++ b)
      | some w =>
        if ¬ Uper.inSize c vs.length = true then .error .unmodelled
        else
          match Per.encSeqM g (p + (Per.sizePrefix c w p vs.length false false).length) vs with
          | .error err => .error err
          | .ok b => .ok (pre ++ Per.sizePrefix c w p vs.length false false ++ b)) = .ok (pre ++ b) := by
  obtain ⟨hin, h1, h2⟩ := sizedM_true_inv f c false false false false (fun _ => rfl) vs
    (fun _ _ _ _ _ => rfl) p b h
  cases hsb : Uper.sizeBits c with
  | none =>
    simp only
    have hn := hsmall hsb
    obtain ⟨body, hs, hbits⟩ := genLenM_small f vs p b hn (h1 hsb)
    have hM := seqM_encSeqM f g vs hfg _ _ hs
    rw [encChunksM_small g vs _ body hn hM]
    simp only [hbits, List.append_assoc]
  | some w =>
    simp only [hin, not_true_eq_false, if_false]
    obtain ⟨body, hs, hbits⟩ := h2 w hsb
    have hM := seqM_encSeqM f g vs hfg _ _ hs
    rw [hM]
    simp only [hbits, List.append_assoc]

end generic

theorem sizeBits_none_getD (c : SizeC) (h : Uper.sizeBits c = none) : c.hi.getD 65536 ≥ 65536 := by
  unfold Uper.sizeBits at h
  cases hc : c.hi with
  | none => simp
  | some ub =>
    rw [hc] at h
    simp only at h
    split at h
    · simp only [Option.getD_some]; omega
    · cases h

theorem pref_sequenceOf (e : Ty) (c : SizeC) (ih : PREF e) : PREF (.sequenceOf e c) := by
  intro v pos bits hd h
  cases v <;> simp only [enc, invalid] at h <;> try (cases h)
  rename_i vs
  rw [devs] at hd
  simp only [List.append_eq_nil_iff] at hd
  obtain ⟨⟨hds, hfr⟩, hdv⟩ := hd
  have hdv' : ∀ v ∈ vs, devs true e v = [] := by
    intro v hv
    have := List.flatMap_eq_nil_iff.mp hdv v hv
    exact this
  have hfg : ∀ v ∈ vs, ∀ p b, enc true e p v = .ok b → Per.enc e p v = .ok b :=
    fun v hv p b hb => ih v p b (hdv' v hv) hb
  simp only [Per.enc]
  have hdvs := devsSize_nil _ _ _ hds
  have hsmall : Uper.sizeBits c = none → vs.length < 16384 := by
    intro hsb
    have := sizeBits_none_getD c hsb
    by_cases hn : vs.length ≥ 16384
    · rw [if_pos ⟨trivial, hn, Or.inl this⟩] at hfr
      cases hfr
    · omega
  rcases extSizedM_true_inv (enc true e) c false false vs pos bits h with
    ⟨hext, hin, b, hb1, hb2⟩ | ⟨hext, hin, b, hb1, hb2⟩ | ⟨hext, hb⟩
  · obtain ⟨hhi, hout⟩ := hdvs hext
    obtain ⟨ub, hub⟩ : ∃ ub, c.hi = some ub := by
      cases hc : c.hi with
      | none => rw [hc] at hhi; cases hhi
      | some ub => exact ⟨ub, rfl⟩
    have hr := inRoot_outside c _ ub hub hin
    rw [inRoot_eq_inSize] at hin
    obtain ⟨_, hlt⟩ := hout hin
    obtain ⟨body, hs, hbits⟩ := genLenM_small _ vs (pos + 1) b hlt hb1
    have hM := seqM_encSeqM _ (Per.enc e) vs hfg _ _ hs
    simp only [hext, if_true, hr]
    have hpos : pos + ([true] ++ alignBits (pos + 1) ++ (lenDet vs.length).1).length
        = pos + 1 + (alignBits (pos + 1)).length + (lenDet vs.length).1.length := by
      simp only [List.length_append, List.length_cons, List.length_nil]; omega
    rw [hpos, hM]
    simp only [hb2, hbits, List.append_assoc, List.cons_append, List.nil_append]
  · obtain ⟨hhi, _⟩ := hdvs hext
    obtain ⟨ub, hub⟩ : ∃ ub, c.hi = some ub := by
      cases hc : c.hi with
      | none => rw [hc] at hhi; cases hhi
      | some ub => exact ⟨ub, rfl⟩
    have hr := inRoot_inside c _ ub hub hin
    simp only [hext, if_true, hr]
    rw [hb2]
    exact seqOf_root (enc true e) (Per.enc e) vs hfg c (pos + 1) [false] b hsmall hb1
  · simp only [hext, Bool.false_eq_true, if_false]
    exact seqOf_root (enc true e) (Per.enc e) vs hfg c pos [] bits hsmall hb

/-! ### CHOICE -/

theorem nameIdx_eq (name : String) (l : List String) : Per.nameIdx name l = indexOfName name l := by
  induction l with
  | nil => rfl
  | cons n r ih => simp only [Per.nameIdx, indexOfName, ih]

/-- 22.6: the index among the root alternatives -/
theorem choiceIndex_eq (pos idx n : Nat) (hll : n > 65536 → minOctets (n - 1) ≤ 128) :
    (if n > 1 then Per.encConstrainedInt pos 0 ((n : Int) - 1) idx else []) = cwn true pos idx n := by
  by_cases hn : n > 1
  · rw [if_pos hn]
    have h1 : ((n : Int) - 1 - 0).toNat = n - 1 := by omega
    have h2 : ((idx : Int) - 0).toNat = idx := by omega
    rw [encConstrainedInt_eq, h1, h2]
    · have : n - 1 + 1 = n := by omega
      rw [this]
    · rw [h1]
      intro h
      exact hll (by omega)
  · rw [if_neg hn, cwn_true_small _ _ _ (by omega)]
    unfold Per.encCwn
    have : n - 1 = 0 := by omega
    rw [if_pos (by omega), this]
    rfl

theorem encAlt_pref (alts : Alts) (hall : alts.All PREF) (name : String) (v : Val) (pos : Nat)
    (body : Bits) (isOpen : Bool) (hpos : isOpen = true → pos = 0)
    (henc : encAlt true alts name pos v = some (.ok body))
    (hd : devsAlt true alts name v isOpen = []) :
    Per.encAlt alts name pos v = some (.ok body) ∧
      (isOpen = true → body.isEmpty = false ∧ (complete body).length < 16384) := by
  induction alts using Alts.ind with
  | nil =>
    rw [encAlt.eq_def] at henc
    cases henc
  | cons n t rest ih =>
    obtain ⟨ht, hrest⟩ := hall
    rw [encAlt.eq_def] at henc
    rw [devsAlt.eq_def] at hd
    rw [Per.encAlt.eq_def]
    simp only at henc hd ⊢
    by_cases hn : (n == name) = true
    · rw [if_pos hn] at henc hd ⊢
      obtain ⟨hd1, hd2⟩ := List.append_eq_nil_iff.mp hd
      have he : enc true t pos v = .ok body := by
        simpa using henc
      rw [ht v pos body hd1 he]
      refine ⟨rfl, ?_⟩
      intro ho
      rw [if_pos ho] at hd2
      have hp := hpos ho
      subst hp
      rw [he] at hd2
      unfold devsOpen at hd2
      simp only at hd2
      obtain ⟨ho1, ho2⟩ := List.append_eq_nil_iff.mp hd2
      constructor
      · cases hh : body.isEmpty with
        | false => rfl
        | true => simp [hh] at ho1
      · by_cases hh : (complete body).length ≥ 16384
        · simp [hh] at ho2
        · omega
    · rw [if_neg hn] at henc hd ⊢
      exact ih hrest henc hd

theorem pref_choice (root : Alts) (extensible : Bool) (adds : Alts)
    (hr : root.All PREF) (ha : adds.All PREF) : PREF (.choice root extensible adds) := by
  intro v pos bits hd h
  cases v <;> simp only [enc, invalid] at h <;> try (cases h)
  rename_i name v
  simp only [devs] at hd
  simp only [Per.enc, nameIdx_eq]
  cases hidx : indexOfName name root.names with
  | some idx =>
    rw [hidx] at h hd
    simp only at h hd ⊢
    obtain ⟨hd0, hd1⟩ := List.append_eq_nil_iff.mp hd
    have hll : root.length > 65536 → minOctets (root.length - 1) ≤ 128 := by
      intro h64
      by_cases hk : minOctets (root.length - 1) > 128
      · simp [h64, hk] at hd0
      · omega
    have hx : (if extensible = true then [false] else ([] : Bits)).length
        = (if extensible = true then 1 else 0) := by
      cases extensible <;> rfl
    rw [hx, choiceIndex_eq _ _ _ hll]
    split at h
    · rename_i body heq
      obtain ⟨hM, _⟩ := encAlt_pref root hr name v _ body false (by simp) heq hd1
      rw [hM]
      exact h
    · cases h
    · cases h
  | none =>
    rw [hidx] at h hd
    simp only at h hd ⊢
    cases extensible with
    | false => simp at h
    | true =>
      simp only [if_true] at h hd ⊢
      cases hj : indexOfName name adds.names with
      | none => rw [hj] at h; cases h
      | some j =>
        rw [hj] at h hd
        simp only at h hd ⊢
        obtain ⟨hd1, hd2⟩ := List.append_eq_nil_iff.mp hd
        split at h
        · rename_i body heq
          obtain ⟨hM, hopen⟩ := encAlt_pref adds ha name v 0 body true (by simp) heq hd2
          obtain ⟨hne, hsm⟩ := hopen rfl
          rw [hM]
          simp only
          unfold devsNsnnwn at hd1
          have h63 : j ≤ 63 := by
            by_cases hh : j ≥ 64
            · simp [hh] at hd1
            · omega
          rw [nsnnwn_true _ _ h63, openType_true _ _ hne hsm] at h
          rw [← h]
          simp [Nat.add_assoc, Nat.add_comm]
        · cases h
        · cases h

/-! ### SEQUENCE: preamble and root components -/

theorem encPreamble_per (root : Members) (fs : List (String × Val)) :
    Per.encPreamble root fs = preamble root fs := by
  induction root using Members.ind with
  | nil => rw [Per.encPreamble.eq_def, preamble.eq_def]
  | cons name p t rest ih =>
    rw [Per.encPreamble.eq_def, preamble.eq_def]
    simp only [ih]
    cases p with
    | mandatory => rfl
    | optional => rfl
    | default d =>
      simp only
      cases lookup name fs <;> rfl

/-- one root component -/
theorem here_pref (name : String) (p : Presence) (t : Ty) (fs : List (String × Val)) (pos : Nat)
    (a : Bits) (ht : PREF t)
    (hd1 : (match (generalizing := false) lookup name fs with
      | some v =>
        (match (generalizing := false) p with
         | .default d => if isDefault t v d then [] else devs true t v
         | _ => devs true t v)
      | none => []) = [])
    (ha : (match (generalizing := false) lookup name fs with
          | some v =>
            match (generalizing := false) p with
            | .default d => if isDefault t v d then (.ok [] : EncM Bits) else enc true t pos v
            | _ => enc true t pos v
          | none =>
            match (generalizing := false) p with
            | .mandatory => invalid
            | _ => .ok []) = .ok a) :
    (match (generalizing := false) lookup name fs with
      | some v =>
        match (generalizing := false) p with
        | .default d => if (!(isDefault t v d) || false) = true then Per.enc t pos v else .ok []
        | _ => Per.enc t pos v
      | none =>
        match (generalizing := false) p with
        | .mandatory => (.error .encodeError : EncM Bits)
        | _ => .ok []) = .ok a := by
  cases hl : lookup name fs with
  | none =>
    rw [hl] at ha
    cases p <;> simp only [invalid] at ha ⊢ <;> first | exact ha | cases ha
  | some v =>
    rw [hl] at ha hd1
    cases p with
    | mandatory => exact ht v pos a hd1 ha
    | optional => exact ht v pos a hd1 ha
    | default d =>
      simp only at ha hd1 ⊢
      cases hdef : isDefault t v d with
      | true =>
        rw [hdef] at ha
        simpa using ha
      | false =>
        rw [hdef] at ha hd1
        simp only [Bool.false_eq_true, if_false] at ha hd1
        simp only [Bool.not_false, Bool.or_false, if_true]
        exact ht v pos a hd1 ha

theorem encRoot_pref (ms : Members) (hall : ms.All PREF) :
    ∀ (fs : List (String × Val)) (pos : Nat) (bits : Bits),
      devsRoot true ms fs = [] → encRoot true ms fs pos = .ok bits →
      Per.encMembers ms fs false pos = .ok bits := by
  induction ms using Members.ind with
  | nil =>
    intro fs pos bits _ h
    rw [encRoot.eq_def] at h
    rw [Per.encMembers.eq_def]; exact h
  | cons name p t rest ih =>
    intro fs pos bits hd h
    obtain ⟨ht, hrest⟩ := hall
    rw [devsRoot.eq_def] at hd
    simp only at hd
    obtain ⟨hd1, hd2⟩ := List.append_eq_nil_iff.mp hd
    rw [encRoot.eq_def] at h
    rw [Per.encMembers.eq_def]
    simp only at h ⊢
    have hhere := fun a => here_pref name p t fs pos a ht hd1
    split at h
    · cases h
    · rename_i a ha
      split at h
      · cases h
      · rename_i b hb
        cases h
        have e1 := hhere a ha
        split
        · rename_i e heq
          have := heq.symm.trans e1
          cases this
        · rename_i a' heq
          have := heq.symm.trans e1
          cases this
          rw [ih hrest fs _ b hd2 hb]

/-! ### SEQUENCE: extension additions -/

theorem encAdds_pref (ms : Members) (hall : ms.All PREF) :
    ∀ (fs : List (String × Val)) (bitmap : Bits) (encs : List Bits),
      devsAdds true ms fs = [] → encAdds true ms fs = .ok (bitmap, encs) →
      ∃ present, Per.encAdditions ms fs = .ok (present, encs) ∧
        bitmap = present ++ List.replicate (ms.length - present.length) false ∧
        present.length ≤ ms.length ∧ bitmap.length = ms.length ∧
        (bitmap.any id = false ↔ encs = []) ∧
        (∀ e ∈ encs, e.isEmpty = false ∧ (complete e).length < 16384) := by
  induction ms using Members.ind with
  | nil =>
    intro fs bitmap encs _ h
    rw [encAdds.eq_def] at h
    cases h
    exact ⟨[], by rw [Per.encAdditions.eq_def], rfl, Nat.le_refl _, rfl, by simp, by simp⟩
  | cons name p t rest ih =>
    intro fs bitmap encs hd h
    obtain ⟨ht, hrest⟩ := hall
    rw [devsAdds.eq_def] at hd
    simp only at hd
    obtain ⟨hd1, hd2⟩ := List.append_eq_nil_iff.mp hd
    rw [encAdds.eq_def] at h
    simp only at h
    cases hr : encAdds true rest fs with
    | error e => rw [hr] at h; cases h
    | ok pr =>
      obtain ⟨bm, es⟩ := pr
      rw [hr] at h
      simp only at h
      obtain ⟨present, hp1, hp2, hp3, hp4, hp5, hp6⟩ := ih hrest fs bm es hd2 hr
      rw [Per.encAdditions.eq_def]
      simp only [Members.length]
      cases hl : lookup name fs with
      | some v =>
        rw [hl] at h hd1
        simp only at h hd1
        obtain ⟨hdv, hdo⟩ := List.append_eq_nil_iff.mp hd1
        cases he : enc true t 0 v with
        | error e => rw [he] at h; cases h
        | ok e =>
          rw [he] at h hdo
          cases h
          have hM := ht v 0 e hdv he
          simp only [hM, hp1, Option.isSome_some, or_true, if_true]
          unfold devsOpen at hdo
          simp only at hdo
          obtain ⟨ho1, ho2⟩ := List.append_eq_nil_iff.mp hdo
          have hne : e.isEmpty = false := by
            cases hh : e.isEmpty with
            | false => rfl
            | true => simp [hh] at ho1
          have hsm : (complete e).length < 16384 := by
            by_cases hh : (complete e).length ≥ 16384
            · simp [hh] at ho2
            · omega
          refine ⟨true :: present, rfl, ?_, by simp; omega, by simp [hp4], by simp, ?_⟩
          · rw [hp2]; simp
          · intro x hx
            rcases List.mem_cons.mp hx with hx | hx
            · subst hx; exact ⟨hne, hsm⟩
            · exact hp6 x hx
      | none =>
        rw [hl] at h
        simp only at h
        cases p with
        | mandatory =>
          simp only at h ⊢
          by_cases hany : bm.any id = true
          · rw [if_pos hany] at h; cases h
          · rw [if_neg hany] at h
            cases h
            have hany' : bm.any id = false := by simpa using hany
            have hes : encs = [] := hp5.mp hany'
            subst hes
            refine ⟨[], rfl, ?_, by simp, by simp [hp4], by simp [hany'], by simp⟩
            have := eq_replicate_of_any_false bm hany'
            rw [hp4] at this
            rw [this]
            simp [List.replicate_succ]
        | optional =>
          simp only at h ⊢
          cases h
          simp only [hp1, List.length_nil, Nat.lt_irrefl, Option.isSome_none, Bool.false_eq_true,
            or_self, if_false, gt_iff_lt]
          refine ⟨false :: present, rfl, ?_, by simp; omega, by simp [hp4], by simpa using hp5, hp6⟩
          rw [hp2]; simp
        | default d =>
          simp only at h ⊢
          cases h
          simp only [hp1, List.length_nil, Nat.lt_irrefl, Option.isSome_none, Bool.false_eq_true,
            or_self, if_false, gt_iff_lt]
          refine ⟨false :: present, rfl, ?_, by simp; omega, by simp [hp4], by simpa using hp5, hp6⟩
          rw [hp2]; simp

theorem nsLength_true (pos : Nat) (bitmap : Bits) (h1 : 1 ≤ bitmap.length) (h2 : bitmap.length ≤ 64) :
    Uper.encNsLength bitmap.length = .ok (natToBits 7 (bitmap.length - 1)) ∧
      nsLength true pos bitmap = natToBits 7 (bitmap.length - 1) ++ bitmap := by
  refine ⟨Uper.encNsLength_small h2, ?_⟩
  unfold nsLength
  simp only [h1, h2, and_self, if_true]
  rw [natToBits_succ_of_lt (w := 6) (by omega)]

theorem pref_sequence (root : Members) (extensible : Bool) (adds : Members)
    (hr : root.All PREF) (ha : adds.All PREF) : PREF (.sequence root extensible adds) := by
  intro v pos bits hd h
  cases v <;> simp only [enc, invalid] at h <;> try (cases h)
  rename_i fs
  rw [devs] at hd
  simp only [List.append_eq_nil_iff] at hd
  obtain ⟨⟨_, hdr⟩, hda⟩ := hd
  split at h
  · cases h
  cases hb : encRoot true root fs
      (pos + (if extensible = true then 1 else 0) + (preamble root fs).length) with
  | error e => rw [hb] at h; cases h
  | ok body =>
    rw [hb] at h
    simp only at h
    have hM := encRoot_pref root hr fs _ body hdr hb
    simp only [Per.enc]
    rw [encPreamble_per, hM]
    simp only
    cases extensible with
    | false =>
      simp only [Bool.false_eq_true, if_false] at h ⊢
      exact h
    | true =>
      simp only [if_true] at h hda ⊢
      obtain ⟨hda1, hda2⟩ := List.append_eq_nil_iff.mp hda
      cases hadds : encAdds true adds fs with
      | error e => rw [hadds] at h; cases h
      | ok pr =>
        obtain ⟨bitmap, encs⟩ := pr
        rw [hadds] at h hda1
        simp only at h hda1
        obtain ⟨present, hp1, hp2, hp3, hp4, hp5, hp6⟩ := encAdds_pref adds ha fs bitmap encs hda2 hadds
        cases adds with
        | nil =>
          rw [encAdds.eq_def] at hadds
          cases hadds
          simp only [List.any_nil, Bool.false_eq_true, if_false] at h
          simpa using h
        | cons name p t rest =>
          simp only
          rw [hp1]
          simp only
          cases hany : bitmap.any id with
          | false =>
            rw [hany] at h
            simp only [Bool.false_eq_true, if_false] at h
            have := hp5.mp hany
            subst this
            simpa using h
          | true =>
            rw [hany] at h hda1
            simp only [if_true] at h hda1
            have hne : encs ≠ [] := by
              intro he
              have := hp5.mpr he
              rw [hany] at this; cases this
            have hemp : encs.isEmpty = false := by
              cases encs with
              | nil => exact absurd rfl hne
              | cons _ _ => rfl
            rw [hemp]
            simp only [Bool.false_eq_true, if_false]
            obtain ⟨hda1a, hda1b⟩ := List.append_eq_nil_iff.mp hda1
            have hlen64 : (Members.cons name p t rest).length ≤ 64 := by
              by_cases hh : (Members.cons name p t rest).length > 64
              · simp [hh] at hda1b
              · omega
            have hlen1 : 1 ≤ bitmap.length := by
              rw [hp4]; simp [Members.length]
            obtain ⟨hnl1, hnl2⟩ := nsLength_true
              (pos + 1 + (preamble root fs).length + body.length) bitmap hlen1 (by rw [hp4]; exact hlen64)
            rw [hp4] at hnl1
            rw [hnl1]
            simp only
            rw [hnl2, openTypes_true _ _ hp6, hemp] at h
            simp only [Bool.false_eq_true, if_false] at h
            rw [← hp2, ← h]
            simp [Nat.add_assoc, hp4]

/-! ### all types -/

theorem pref_all (t : Ty) : PREF t :=
  Ty.rec (motive_1 := PREF) (motive_2 := Members.All PREF) (motive_3 := Alts.All PREF)
    pref_boolean pref_null pref_integer pref_enumerated pref_octetString pref_bitString pref_charString
    (fun root ext adds ihr iha => pref_sequence root ext adds ihr iha)
    (fun e c ih => pref_sequenceOf e c ih)
    (fun root ext adds ihr iha => pref_choice root ext adds ihr iha)
    trivial (fun _ _ _ _ iht ihr => ⟨iht, ihr⟩)
    trivial (fun _ _ _ iht ihr => ⟨iht, ihr⟩) t

/-- **ALIGNED PER: the code emits the bit string X.691 prescribes**, for every type and value of
the universe, outside the named deviation predicates: if `devs true t v` is empty and the
specification defines an encoding of `v : t` at position `pos`, `Per.enc` returns exactly that bit
string at that position. -/
theorem per_refines_bits (t : Ty) (v : Val) (pos : Nat) (bits : Bits)
    (hd : devs true t v = []) (h : enc true t pos v = .ok bits) : Per.enc t pos v = .ok bits :=
  pref_all t v pos bits hd h

end Asn1.X691

#print axioms Asn1.X691.per_refines_bits
