import Asn1Proofs.Lemmas.CCursorOerEnc
/-
  C10, decoder layer: every decoder helper of the OER C library model equals an explicitly given
  value and cursor (`d.adv`), from which absence of faults, preservation of the invariant, the
  frozen latch and termination of the `do … while` loop of `decoder_read_tag` follow.
-/
namespace Asn1.C10
open Asn1.CCursor Asn1.CCursorOer

/-- the uninitialised automatic objects have their declared sizes -/
def _root_.Asn1.CCursorOer.Junk.Pre (j : Junk) : Prop :=
  j.j1.size = 1 ∧ j.j2.size = 2 ∧ j.j4.size = 4 ∧ j.j8.size = 8

/-! ### values read at the cursor -/

def _root_.Asn1.CCursorOer.ODec.u8 (d : ODec) : UInt8 := d.rd 1 0

def _root_.Asn1.CCursorOer.ODec.u16 (d : ODec) : UInt16 :=
  UInt16.ofNat ((d.rd 2 0).toNat <<< 8 ||| (d.rd 2 1).toNat)

def _root_.Asn1.CCursorOer.ODec.u32 (d : ODec) : UInt32 :=
  (d.rd 4 0).toUInt32 <<< 24 ||| (d.rd 4 1).toUInt32 <<< 16 ||| (d.rd 4 2).toUInt32 <<< 8 |||
    (d.rd 4 3).toUInt32

def _root_.Asn1.CCursorOer.ODec.u64 (d : ODec) : UInt64 :=
  (d.rd 8 0).toUInt64 <<< 56 ||| (d.rd 8 1).toUInt64 <<< 48 ||| (d.rd 8 2).toUInt64 <<< 40 |||
    (d.rd 8 3).toUInt64 <<< 32 ||| (d.rd 8 4).toUInt64 <<< 24 ||| (d.rd 8 5).toUInt64 <<< 16 |||
    (d.rd 8 6).toUInt64 <<< 8 ||| (d.rd 8 7).toUInt64

theorem u8_latched {d : ODec} (h : d.size < 0) : d.u8 = 0 := rd_latched h 1 0

theorem u16_latched {d : ODec} (h : d.size < 0) : d.u16 = 0 := by
  simp [ODec.u16, rd_latched h]

theorem u32_latched {d : ODec} (h : d.size < 0) : d.u32 = 0 := by
  simp [ODec.u32, rd_latched h]

theorem u64_latched {d : ODec} (h : d.size < 0) : d.u64 = 0 := by
  simp [ODec.u64, rd_latched h]

/-! ### fixed-width reads -/

theorem readU8_eq {d : ODec} (h : DInv d) (j : Junk) (hj : j.Pre) :
    d.readU8 j = .ok (d.u8, d.adv 1) := by
  unfold ODec.readU8
  rw [readBytes_eq h _ _ (by decide) (by simp [hj.1])]
  simp only [bind, Except.bind]
  rw [write_full _ _ (by simp [hj.1])]
  simp [Mem.load, List.range_succ, ODec.u8]

theorem shl8_lt (b : UInt8) : b.toNat <<< 8 < 2147483648 := by
  have := b.toNat_lt
  rw [Nat.shiftLeft_eq]
  omega

theorem readU16_eq {d : ODec} (h : DInv d) (j : Junk) (hj : j.Pre) :
    d.readU16 j = .ok (d.u16, d.adv 2) := by
  unfold ODec.readU16
  rw [readBytes_eq h _ _ (by decide) (by simp [hj.2.1])]
  simp only [bind, Except.bind]
  rw [write_full _ _ (by simp [hj.2.1])]
  simp [Mem.load, List.range_succ, ODec.u16, shlS32, shl8_lt]

theorem readU32_eq {d : ODec} (h : DInv d) (j : Junk) (hj : j.Pre) :
    d.readU32 j = .ok (d.u32, d.adv 4) := by
  unfold ODec.readU32
  rw [readBytes_eq h _ _ (by decide) (by simp [hj.2.2.1])]
  simp only [bind, Except.bind]
  rw [write_full _ _ (by simp [hj.2.2.1])]
  simp [Mem.load, List.range_succ, ODec.u32, shlU32_24, shlU32_16, shlU32_8]

theorem readU64_eq {d : ODec} (h : DInv d) (j : Junk) (hj : j.Pre) :
    d.readU64 j = .ok (d.u64, d.adv 8) := by
  unfold ODec.readU64
  rw [readBytes_eq h _ _ (by decide) (by simp [hj.2.2.2])]
  simp only [bind, Except.bind]
  rw [write_full _ _ (by simp [hj.2.2.2])]
  simp [Mem.load, List.range_succ, ODec.u64, shlU64_56, shlU64_48, shlU64_40, shlU64_32, shlU64_24,
    shlU64_16, shlU64_8]

/-! ### composite reads -/

/-- `decoder_read_uint` -/
def uintSpec (d : ODec) (n : UInt8) : UInt32 × ODec :=
  if n = 1 then (d.u8.toUInt32, d.adv 1)
  else if n = 2 then (d.u16.toUInt32, d.adv 2)
  else if n = 3 then (d.u8.toUInt32 <<< 16 ||| (d.adv 1).u16.toUInt32, (d.adv 1).adv 2)
  else if n = 4 then (d.u32, d.adv 4)
  else (0xffffffff, d)

theorem readUint_eq {d : ODec} (h : DInv d) (n : UInt8) (j : Junk) (hj : j.Pre) :
    d.readUint n j = .ok (uintSpec d n) := by
  unfold ODec.readUint uintSpec
  split
  · rw [readU8_eq h j hj]; rfl
  split
  · rw [readU16_eq h j hj]; rfl
  split
  · rw [readU8_eq h j hj]
    simp only [bind, Except.bind, shlU32_16]
    rw [readU16_eq (DInv_adv h 1) j hj]
  split
  · rw [readU32_eq h j hj]
  · rfl

/-- the sign extension of the 3 byte case of `decoder_read_int` -/
def sext24 (tmp : UInt32) : UInt32 := if tmp &&& 0x800000 = 0x800000 then tmp + 0xff000000 else tmp

/-- `decoder_read_int` -/
def intSpec (d : ODec) (n : UInt8) : Int32 × ODec :=
  if n = 1 then (d.u8.toInt8.toInt32, d.adv 1)
  else if n = 2 then (d.u16.toInt16.toInt32, d.adv 2)
  else if n = 3 then
    ((sext24 (d.u8.toUInt32 <<< 16 ||| (d.adv 1).u16.toUInt32)).toInt32, (d.adv 1).adv 2)
  else if n = 4 then (d.u32.toInt32, d.adv 4)
  else (2147483647, d)

theorem readInt_eq {d : ODec} (h : DInv d) (n : UInt8) (j : Junk) (hj : j.Pre) :
    d.readInt n j = .ok (intSpec d n) := by
  unfold ODec.readInt intSpec ODec.readI8 ODec.readI16 ODec.readI32
  split
  · rw [readU8_eq h j hj]; rfl
  split
  · rw [readU16_eq h j hj]; rfl
  split
  · rw [readU8_eq h j hj]
    simp only [bind, Except.bind, shlU32_16]
    rw [readU16_eq (DInv_adv h 1) j hj]
    rfl
  split
  · rw [readU32_eq h j hj]; rfl
  · rfl

/-- `decoder_read_long_uint` -/
def luintSpec : Nat → UInt64 → ODec → UInt64 × ODec
  | 0, value, d => (value, d)
  | n + 1, value, d => luintSpec n (d.u8.toUInt64 ||| value <<< 8) (d.adv 1)

theorem longUintLoop_eq' (j : Junk) (hj : j.Pre) (n : Nat) : ∀ (value : UInt64) {d : ODec}, DInv d →
    ODec.longUintLoop j n value d = .ok (luintSpec n value d) := by
  induction n with
  | zero => intro value d _; rfl
  | succ n ih =>
    intro value d h
    unfold ODec.longUintLoop luintSpec
    rw [readU8_eq h j hj]
    simp only [bind, Except.bind, shlU64_8]
    exact ih _ (DInv_adv h 1)

theorem DInv_luintSpec (n : Nat) : ∀ (value : UInt64) {d : ODec}, DInv d → DInv (luintSpec n value d).2 := by
  induction n with
  | zero => intro _ d h; exact h
  | succ n ih => intro value d h; exact ih _ (DInv_adv h 1)

/-- `decoder_read_length_determinant` -/
def lenDetSpec (d : ODec) : UInt32 × ODec :=
  let length := d.u8.toUInt32
  let d1 := d.adv 1
  if length &&& 0x80 ≠ 0 then
    let k := length &&& 0x7f
    if k = 1 then (d1.u8.toUInt32, d1.adv 1)
    else if k = 2 then (d1.u16.toUInt32, d1.adv 2)
    else if k = 3 then (d1.u8.toUInt32 <<< 16 ||| (d1.adv 1).u16.toUInt32, (d1.adv 1).adv 2)
    else if k = 4 then (d1.u32, d1.adv 4)
    else (0xffffffff, d1)
  else (length, d1)

theorem readLengthDeterminant_eq {d : ODec} (h : DInv d) (j : Junk) (hj : j.Pre) :
    d.readLengthDeterminant j = .ok (lenDetSpec d) := by
  unfold ODec.readLengthDeterminant lenDetSpec
  have h1 := DInv_adv h 1
  rw [readU8_eq h j hj]
  simp only [bind, Except.bind]
  split
  · split
    · rw [readU8_eq h1 j hj]
    split
    · rw [readU16_eq h1 j hj]
    split
    · rw [readU8_eq h1 j hj]
      simp only [shlU32_16]
      rw [readU16_eq (DInv_adv h1 1) j hj]
    split
    · rw [readU32_eq h1 j hj]
    · rfl
  · rfl

/-- the other evaluation order of case 3 -/
def lenDetSpecRL (d : ODec) : UInt32 × ODec :=
  let length := d.u8.toUInt32
  let d1 := d.adv 1
  if length &&& 0x80 ≠ 0 then
    let k := length &&& 0x7f
    if k = 1 then (d1.u8.toUInt32, d1.adv 1)
    else if k = 2 then (d1.u16.toUInt32, d1.adv 2)
    else if k = 3 then ((d1.adv 2).u8.toUInt32 <<< 16 ||| d1.u16.toUInt32, (d1.adv 2).adv 1)
    else if k = 4 then (d1.u32, d1.adv 4)
    else (0xffffffff, d1)
  else (length, d1)

theorem readLengthDeterminantRL_eq {d : ODec} (h : DInv d) (j : Junk) (hj : j.Pre) :
    d.readLengthDeterminantRL j = .ok (lenDetSpecRL d) := by
  unfold ODec.readLengthDeterminantRL lenDetSpecRL
  have h1 := DInv_adv h 1
  rw [readU8_eq h j hj]
  simp only [bind, Except.bind]
  split
  · split
    · rw [readU8_eq h1 j hj]
    split
    · rw [readU16_eq h1 j hj]
    split
    · rw [readU16_eq h1 j hj]
      simp only []
      rw [readU8_eq (DInv_adv h1 2) j hj]
      simp only [shlU32_16]
    split
    · rw [readU32_eq h1 j hj]
    · rfl
  · rfl

/-! ### `decoder_read_tag` -/

/-- the `do … while` loop -/
def tagLoopSpec : Nat → UInt32 → ODec → Option UInt32 × ODec
  | 0, _, d => (none, d)
  | fuel + 1, tag, d =>
    let tag := tag <<< 8 ||| d.u8.toUInt32
    if tag &&& 0x80 = 0x80 then tagLoopSpec fuel tag (d.adv 1) else (some tag, d.adv 1)

theorem readTagLoop_eq (j : Junk) (hj : j.Pre) (fuel : Nat) : ∀ (tag : UInt32) {d : ODec}, DInv d →
    ODec.readTagLoop j fuel tag d = .ok (tagLoopSpec fuel tag d) := by
  induction fuel with
  | zero => intro tag d _; rfl
  | succ fuel ih =>
    intro tag d h
    unfold ODec.readTagLoop tagLoopSpec
    simp only [shlU32_8, bind, Except.bind]
    rw [readU8_eq h j hj]
    simp only []
    split
    · exact ih _ (DInv_adv h 1)
    · rfl

theorem DInv_tagLoopSpec (fuel : Nat) : ∀ (tag : UInt32) {d : ODec}, DInv d →
    DInv (tagLoopSpec fuel tag d).2 := by
  induction fuel with
  | zero => intro _ d h; exact h
  | succ fuel ih =>
    intro tag d h
    unfold tagLoopSpec
    simp only []
    split
    · exact ih _ (DInv_adv h 1)
    · exact DInv_adv h 1

def tagSpec (d : ODec) : Option UInt32 × ODec :=
  let tag := d.u8.toUInt32
  let d1 := d.adv 1
  if tag &&& 0x3f = 0x3f then tagLoopSpec ((d1.size - d1.pos).toNat + 2) tag d1 else (some tag, d1)

theorem readTag_eq {d : ODec} (h : DInv d) (j : Junk) (hj : j.Pre) :
    d.readTag j = .ok (tagSpec d) := by
  unfold ODec.readTag tagSpec
  rw [readU8_eq h j hj]
  simp only [bind, Except.bind]
  split
  · exact readTagLoop_eq j hj _ _ (DInv_adv h 1)
  · rfl

/-- a multiple of 256 has bit 7 clear -/
theorem and128_of_mod256 (x : Nat) (h : x % 256 = 0) : x &&& 128 = 0 := by
  apply Nat.eq_of_testBit_eq
  intro i
  rw [Nat.testBit_and, show (128 : Nat) = 2 ^ 7 by rfl, Nat.testBit_two_pow]
  by_cases hi : 7 = i
  · subst hi
    have : x.testBit 7 = false := by
      rw [Nat.testBit_eq_decide_div_mod_eq]
      simp
      omega
    simp [this]
  · simp [hi]

set_option maxRecDepth 100000 in
theorem and128_byte : ∀ b, b < 256 → ((b &&& 128 = 128) ↔ 128 ≤ b) := by decide

/-- the loop condition of `decoder_read_tag` only looks at the octet just read -/
theorem tag_continue_iff (tag : UInt32) (b : UInt8) :
    ((tag <<< 8 ||| b.toUInt32) &&& 0x80 = 0x80) ↔ 128 ≤ b.toNat := by
  rw [← UInt32.toNat_inj, UInt32.toNat_and, UInt32.toNat_or, UInt32.toNat_shiftLeft]
  simp only [UInt8.toNat_toUInt32]
  have h8 : (8 : UInt32).toNat % 32 = 8 := by decide
  have h80 : (0x80 : UInt32).toNat = 128 := by decide
  rw [h8, h80, Nat.and_or_distrib_right]
  have hz : (tag.toNat <<< 8 % 2 ^ 32) &&& 128 = 0 := by
    apply and128_of_mod256
    rw [Nat.shiftLeft_eq]
    omega
  rw [hz, Nat.zero_or]
  exact and128_byte _ b.toNat_lt

/-- bytes left to read -/
def _root_.Asn1.CCursorOer.ODec.remaining (d : ODec) : Nat := (d.size - d.pos).toNat

/-- TERMINATION of the `do … while` loop of `decoder_read_tag`: with fuel exceeding the number
of remaining input bytes the fuel never runs out, because a read in the error state yields 0,
whose bit 7 is clear -/
theorem tagLoopSpec_isSome (fuel : Nat) : ∀ (tag : UInt32) {d : ODec}, DInv d →
    d.remaining + 1 ≤ fuel → (tagLoopSpec fuel tag d).1.isSome := by
  induction fuel with
  | zero => intro _ d _ hf; omega
  | succ fuel ih =>
    intro tag d h hf
    unfold tagLoopSpec
    simp only []
    split
    · rename_i hc
      rw [tag_continue_iff] at hc
      have hfit : d.fits 1 := by
        by_cases hfit : d.fits 1
        · exact hfit
        · simp [ODec.u8, ODec.rd, hfit] at hc
      apply ih _ (DInv_adv h 1)
      obtain ⟨hs, hp⟩ := hfit
      have hadv : d.adv 1 = { d with pos := d.pos + 1 } := by
        have : ¬ d.size < 0 := by omega
        simp [ODec.adv, this]
        omega
      rw [hadv]
      unfold ODec.remaining at hf ⊢
      simp only
      omega
    · rfl

theorem remaining_adv_le {d : ODec} (h : DInv d) (n : Nat) : (d.adv n).remaining ≤ d.remaining := by
  unfold ODec.adv ODec.remaining
  rcases h.2 with h | h
  · split
    · omega
    · split
      · simp only; omega
      · simp
  · simp [h.1]

theorem tagSpec_isSome {d : ODec} (h : DInv d) : (tagSpec d).1.isSome := by
  unfold tagSpec
  simp only []
  split
  · apply tagLoopSpec_isSome _ _ (DInv_adv h 1)
    unfold ODec.remaining
    omega
  · rfl

theorem DInv_tagSpec {d : ODec} (h : DInv d) : DInv (tagSpec d).2 := by
  unfold tagSpec
  simp only []
  split
  · exact DInv_tagLoopSpec _ _ (DInv_adv h 1)
  · exact DInv_adv h 1

/-! ### operations -/

def _root_.Asn1.CCursorOer.ODecOp.Pre : ODecOp → Prop
  | .bool j | .u8 j | .u16 j | .u32 j | .u64 j | .i8 j | .i16 j | .i32 j | .i64 j
  | .uint _ j | .luint _ j | .int _ j | .f32 j | .f64 j | .lendet j | .tag j => j.Pre
  | .bytes dst n => n.toNat ≤ dst.size ∧ n.toNat < 4611686018427387904
  | .abort err => 0 < err ∧ err ≤ 4611686018427387904

/-- value and cursor of every decoder operation -/
def decSpec (d : ODec) : ODecOp → ODecVal × ODec
  | .bool _ => (.int (if d.u8 != 0 then 1 else 0), d.adv 1)
  | .bytes dst n => (.mem (write dst 0 ((List.range n.toNat).map (d.rd n.toNat))), d.adv n.toNat)
  | .u8 _ => (.int d.u8.toNat, d.adv 1)
  | .u16 _ => (.int d.u16.toNat, d.adv 2)
  | .u32 _ => (.int d.u32.toNat, d.adv 4)
  | .u64 _ => (.int d.u64.toNat, d.adv 8)
  | .i8 _ => (.int d.u8.toInt8.toInt, d.adv 1)
  | .i16 _ => (.int d.u16.toInt16.toInt, d.adv 2)
  | .i32 _ => (.int d.u32.toInt32.toInt, d.adv 4)
  | .i64 _ => (.int d.u64.toInt64.toInt, d.adv 8)
  | .uint n _ => (.int (uintSpec d n).1.toNat, (uintSpec d n).2)
  | .luint n _ => (.int (luintSpec n.toNat 0 d).1.toNat, (luintSpec n.toNat 0 d).2)
  | .int n _ => (.int (intSpec d n).1.toInt, (intSpec d n).2)
  | .f32 _ => (.int d.u32.toNat, d.adv 4)
  | .f64 _ => (.int d.u64.toNat, d.adv 8)
  | .lendet _ => (.int (lenDetSpec d).1.toNat, (lenDetSpec d).2)
  | .tag _ =>
    (match (tagSpec d).1 with
     | some v => .int v.toNat
     | none => .fuelExhausted, (tagSpec d).2)
  | .abort err => (.unit, if d.size ≥ 0 then { d with size := -err, pos := -err } else d)

theorem dabort_eq {d : ODec} (err : Int) (hp : 0 < err ∧ err ≤ 4611686018427387904) :
    d.abort err = .ok (if d.size ≥ 0 then { d with size := -err, pos := -err } else d) := by
  unfold ODec.abort
  split
  · rw [ssz_ok _ (by omega) (by omega)]; rfl
  · rfl

/-- COMPLETE functional characterisation of the decoder helpers -/
theorem drun_eq {d : ODec} (h : DInv d) (op : ODecOp) (hp : op.Pre) :
    d.run op = .ok (decSpec d op) := by
  cases op with
  | bool j => simp [ODec.run, ODec.readBool, readU8_eq h j hp, bind, Except.bind, decSpec]
  | bytes dst n => simp [ODec.run, readBytes_eq h dst n hp.2 hp.1, bind, Except.bind, decSpec]
  | u8 j => simp [ODec.run, readU8_eq h j hp, bind, Except.bind, decSpec]
  | u16 j => simp [ODec.run, readU16_eq h j hp, bind, Except.bind, decSpec]
  | u32 j => simp [ODec.run, readU32_eq h j hp, bind, Except.bind, decSpec]
  | u64 j => simp [ODec.run, readU64_eq h j hp, bind, Except.bind, decSpec]
  | i8 j => simp [ODec.run, ODec.readI8, readU8_eq h j hp, bind, Except.bind, decSpec]
  | i16 j => simp [ODec.run, ODec.readI16, readU16_eq h j hp, bind, Except.bind, decSpec]
  | i32 j => simp [ODec.run, ODec.readI32, readU32_eq h j hp, bind, Except.bind, decSpec]
  | i64 j => simp [ODec.run, ODec.readI64, readU64_eq h j hp, bind, Except.bind, decSpec]
  | uint n j => simp [ODec.run, readUint_eq h n j hp, bind, Except.bind, decSpec]
  | luint n j =>
    simp [ODec.run, ODec.readLongUint, longUintLoop_eq' j hp n.toNat 0 h, bind, Except.bind, decSpec]
  | int n j => simp [ODec.run, readInt_eq h n j hp, bind, Except.bind, decSpec]
  | f32 j => simp [ODec.run, ODec.readFloat, readU32_eq h j hp, bind, Except.bind, decSpec]
  | f64 j => simp [ODec.run, ODec.readDouble, readU64_eq h j hp, bind, Except.bind, decSpec]
  | lendet j => simp [ODec.run, readLengthDeterminant_eq h j hp, bind, Except.bind, decSpec]
  | tag j =>
    simp only [ODec.run, readTag_eq h j hp, bind, Except.bind, decSpec]
    cases (tagSpec d).1 <;> rfl
  | abort err => simp [ODec.run, dabort_eq err hp, bind, Except.bind, decSpec]

theorem DInv_uintSpec {d : ODec} (h : DInv d) (n : UInt8) : DInv (uintSpec d n).2 := by
  unfold uintSpec
  split
  · exact DInv_adv h _
  split
  · exact DInv_adv h _
  split
  · exact DInv_adv (DInv_adv h _) _
  split
  · exact DInv_adv h _
  · exact h

theorem DInv_intSpec {d : ODec} (h : DInv d) (n : UInt8) : DInv (intSpec d n).2 := by
  unfold intSpec
  split
  · exact DInv_adv h _
  split
  · exact DInv_adv h _
  split
  · exact DInv_adv (DInv_adv h _) _
  split
  · exact DInv_adv h _
  · exact h

theorem DInv_lenDetSpec {d : ODec} (h : DInv d) : DInv (lenDetSpec d).2 := by
  unfold lenDetSpec
  simp only []
  split
  · split
    · exact DInv_adv (DInv_adv h _) _
    split
    · exact DInv_adv (DInv_adv h _) _
    split
    · exact DInv_adv (DInv_adv (DInv_adv h _) _) _
    split
    · exact DInv_adv (DInv_adv h _) _
    · exact DInv_adv h _
  · exact DInv_adv h _

theorem DInv_decSpec {d : ODec} (h : DInv d) (op : ODecOp) (hp : op.Pre) : DInv (decSpec d op).2 := by
  cases op with
  | uint n j => exact DInv_uintSpec h n
  | luint n j => exact DInv_luintSpec _ _ h
  | int n j => exact DInv_intSpec h n
  | lendet j => exact DInv_lenDetSpec h
  | tag j => exact DInv_tagSpec h
  | abort err =>
    have hp' : 0 < err ∧ err ≤ 4611686018427387904 := hp
    simp only [decSpec]
    split
    · exact ⟨h.1, Or.inr ⟨by simp only; omega, rfl, by simp only; omega⟩⟩
    · exact h
  | _ => exact DInv_adv h _

/-- the fuel of the `decoder_read_tag` model never runs out -/
theorem decSpec_ne_fuelExhausted {d : ODec} (h : DInv d) (op : ODecOp) :
    (decSpec d op).1 ≠ .fuelExhausted := by
  cases op with
  | tag j =>
    have := tagSpec_isSome h
    simp only [decSpec]
    cases hv : (tagSpec d).1 with
    | none => simp [hv] at this
    | some v => simp
  | _ => simp [decSpec]

/-- SAFETY, one decoder operation: no fault, no fuel exhaustion, invariant preserved -/
theorem drun_safe {d : ODec} (h : DInv d) (op : ODecOp) (hp : op.Pre) :
    ∃ v d', d.run op = .ok (v, d') ∧ v ≠ .fuelExhausted ∧ DInv d' :=
  ⟨_, _, drun_eq h op hp, decSpec_ne_fuelExhausted h op, DInv_decSpec h op hp⟩

/-- SAFETY, any sequence of decoder operations on arbitrary input -/
theorem drunAll_safe (ops : List ODecOp) : ∀ {d : ODec}, DInv d → (∀ op ∈ ops, op.Pre) →
    ∃ vs d', d.runAll ops = .ok (vs, d') ∧ (∀ v ∈ vs, v ≠ .fuelExhausted) ∧ DInv d' := by
  induction ops with
  | nil => intro d h _; exact ⟨[], d, rfl, by simp, h⟩
  | cons op ops ih =>
    intro d h hp
    obtain ⟨v, d1, h1, hv, hi1⟩ := drun_safe h op (hp op (by simp))
    obtain ⟨vs, d2, h2, hvs, hi2⟩ := ih hi1 (fun o ho => hp o (by simp [ho]))
    refine ⟨v :: vs, d2, by simp [ODec.runAll, h1, bind, Except.bind, h2], ?_, hi2⟩
    intro x hx
    rcases List.mem_cons.mp hx with rfl | hx
    · exact hv
    · exact hvs x hx

/-! ### frozen latch -/

theorem luintSpec_latched (n : Nat) : ∀ (value : UInt64) {d : ODec}, d.size < 0 →
    (luintSpec n value d).2 = d := by
  induction n with
  | zero => intro _ d _; rfl
  | succ n ih => intro value d h; unfold luintSpec; rw [adv_latched h]; exact ih _ h

theorem tagLoopSpec_latched (fuel : Nat) : ∀ (tag : UInt32) {d : ODec}, d.size < 0 →
    (tagLoopSpec fuel tag d).2 = d := by
  induction fuel with
  | zero => intro _ d _; rfl
  | succ fuel ih =>
    intro tag d h
    unfold tagLoopSpec
    simp only [adv_latched h]
    split
    · exact ih _ h
    · rfl

/-- once latched, every decoder operation leaves the struct unchanged -/
theorem decSpec_latched {d : ODec} (hl : d.size < 0) (op : ODecOp) : (decSpec d op).2 = d := by
  have hn : ¬ d.size ≥ 0 := by omega
  cases op with
  | uint n j =>
    simp only [decSpec, uintSpec, adv_latched hl]
    repeat' split
    all_goals rfl
  | luint n j => exact luintSpec_latched _ _ hl
  | int n j =>
    simp only [decSpec, intSpec, adv_latched hl]
    repeat' split
    all_goals rfl
  | lendet j =>
    simp only [decSpec, lenDetSpec, adv_latched hl]
    repeat' split
    all_goals rfl
  | tag j =>
    simp only [decSpec, tagSpec, adv_latched hl]
    split
    · exact tagLoopSpec_latched _ _ hl
    · rfl
  | abort err => simp [decSpec, hn]
  | _ => simp [decSpec, adv_latched hl]

theorem drun_latched {d : ODec} (h : DInv d) (hl : d.size < 0) (op : ODecOp) (hp : op.Pre) :
    ∃ v, d.run op = .ok (v, d) := by
  refine ⟨(decSpec d op).1, ?_⟩
  rw [drun_eq h op hp]
  congr 1
  exact Prod.ext rfl (decSpec_latched hl op)

/-! ### `decoder_init` -/

theorem dinit_eq (buf : Mem) (size : UInt64) (h : size.toNat < 4611686018427387904) :
    ODec.init buf size = .ok { buf := buf, size := size.toNat, pos := 0 } := by
  simp [ODec.init, toSsize_of_lt size (by omega)]

theorem DInv_init (buf : Mem) (size : UInt64) (h : size.toNat = buf.size)
    (hb : buf.size < 4611686018427387904) :
    DInv { buf := buf, size := size.toNat, pos := 0 } :=
  ⟨hb, Or.inl ⟨by simp, by simp only; omega, by simp only; omega⟩⟩

end Asn1.C10
