import Asn1Proofs.Lemmas.PerChunks
/-
  Statement shapes for the mutual induction of the aligned PER round trip and the
  fragmentation-free predicate of the aligned PER code model.
-/
namespace Asn1.Per
open Asn1.Uper (smallLen inSize EncM DecM)

mutual
  /-- no length determinant that the aligned PER code writes *without* fragmentation
  (`append_length_determinant` called directly) and that its decoder actually uses reaches 16384:
  the octet count of an unconstrained INTEGER, the length of an extensible OCTET STRING /
  SEQUENCE OF outside the root, the open type of a CHOICE addition.  (The open type length of a
  SEQUENCE addition is ignored by the decoder, so no condition is needed there.) -/
  def fragFree : Ty → Val → Bool
    | .integer c, .int i =>
      (match c.lo, c.hi with
       | some lo, some hi => (decide (lo ≤ i) && decide (i ≤ hi)) || smallLen (intByteLength i)
       | _, _ => smallLen (intByteLength i))
    | .octetString c, .bytes bs => !c.ext || inSize c bs.length || smallLen bs.length
    | .sequence root _ adds, .record fs => fragFreeMembers root fs && fragFreeMembers adds fs
    | .sequenceOf e c, .list vs =>
      vs.all (fragFree e) && (!c.ext || inSize c vs.length || smallLen vs.length)
    | .choice root _ adds, .choice n v => fragFreeAlt root n v false && fragFreeAlt adds n v true
    | _, _ => true
  def fragFreeMembers : Members → List (String × Val) → Bool
    | .nil, _ => true
    | .cons name _ t rest, fs =>
      (match lookup name fs with
       | some v => fragFree t v
       | none => true) && fragFreeMembers rest fs
  def fragFreeAlt : Alts → String → Val → Bool → Bool
    | .nil, _, _, _ => true
    | .cons n t rest, name, v, openType =>
      if n == name then
        fragFree t v &&
          (!openType || (match enc t 0 v with
            | .ok e => smallLen ((e.length + 7) / 8)
            | .error _ => true))
      else fragFreeAlt rest name v openType
end

/-- round trip of one type: the encoder ran at `pos`, the decoder runs at any `pos'` that agrees
with `pos` modulo 8 -/
def RT (t : Ty) : Prop :=
  ∀ (v : Val) (pos pos' : Nat) (bits rest : Bits) (fuel : Nat),
    t.wf = true → t.defaultsOk = true → t.nsOk = true → hasType t v = true → fragFree t v = true →
    pos' % 8 = pos % 8 → enc t pos v = .ok bits → bits.length + rest.length + 2 ≤ fuel →
    dec t fuel ⟨pos', bits ++ rest⟩ = .ok (canon t v, ⟨pos' + bits.length, rest⟩)

def ET (t : Ty) : Prop :=
  ∀ (v : Val) (pos : Nat), t.wf = true → hasType t v = true → ∃ bits, enc t pos v = .ok bits

end Asn1.Per
