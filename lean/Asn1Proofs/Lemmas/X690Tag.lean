import Asn1Proofs.Lemmas.DerCheckTypes
import Asn1Model.X690
/-
  The identifier and length octets of the S-level X.690 model (`X690.identifier`,
  `X690.lengthOctets`, `X690.header`) are the ones the code model writes (`Ber.encTag` via
  `Der.mkTag`, `Ber.encLength`).
-/
set_option linter.unusedSimpArgs false
namespace Asn1.X690
open Asn1.Der (mkTag tagOf univNumber isConstructed)

theorem digits128_eq_base128 (f n : Nat) : digits128 f n = Ber.base128 f n := by
  induction f generalizing n with
  | zero => rfl
  | succ f ih => simp only [digits128, Ber.base128, ih]

/-- with enough fuel the digit string does not depend on the fuel -/
theorem base128_fuel (f g n : Nat) (hf : n < 128 ^ (f + 1)) (hg : n < 128 ^ (g + 1)) :
    Ber.base128 (f + 1) n = Ber.base128 (g + 1) n := by
  induction f generalizing g n with
  | zero =>
    have : n < 128 := by simpa using hf
    simp [Ber.base128, this]
  | succ f ih =>
    unfold Ber.base128
    split
    · rfl
    · rename_i hn
      cases g with
      | zero => exact absurd (by simpa using hg) hn
      | succ g =>
        rw [ih g (n / 128) (by rw [Nat.pow_succ] at hf; omega) (by rw [Nat.pow_succ] at hg; omega)]

theorem lt_pow128_succ (n : Nat) : n < 128 ^ (n + 1) := by
  have h1 : n < 2 ^ n := Nat.lt_two_pow_self
  have h2 : 2 ^ n ≤ 128 ^ n := Nat.pow_le_pow_left (by decide) n
  have h3 : 128 ^ n ≤ 128 ^ (n + 1) := Nat.pow_le_pow_right (by decide) (by omega)
  omega

theorem subsequentOctets_concat (xs : Bytes) (y : Nat) :
    subsequentOctets (xs ++ [y]) = xs.map (· + 0x80) ++ [y] := by
  induction xs with
  | nil => rfl
  | cons x r ih =>
    cases r with
    | nil => rfl
    | cons x' r' =>
      simp only [List.cons_append, subsequentOctets, List.map_cons] at ih ⊢
      rw [ih]

/-- 8.1.2 as written here = `encode_tag` of the code -/
theorem identifier_eq_encTag (cls : TagClass) (c : Bool) (n : Nat) :
    identifier cls c n = Ber.encTag n (cls.bits + (if c then 0x20 else 0)) := by
  unfold identifier
  simp only []
  by_cases h : n < 31
  · rw [if_pos h, Der.encTag_short_der _ _ h]
  · rw [if_neg h]
    obtain ⟨xs, y, hxy, _, _, _, he⟩ := Der.encTag_long_der n (cls.bits + (if c then 0x20 else 0)) h
    rw [he, digits128_eq_base128,
      base128_fuel n (bitLength n) n (lt_pow128_succ n) (Oer.lt_pow128 n), hxy, subsequentOctets_concat]

theorem identifier_context (u : Nat) (c : Bool) (i : Nat) : identifier .context c i = mkTag u c (some i) := by
  rw [identifier_eq_encTag]; rfl

theorem identifier_universal (u : Nat) (c : Bool) : identifier .universal c u = mkTag u c none := by
  rw [identifier_eq_encTag]
  cases c <;> simp [mkTag, TagClass.bits]

theorem universalTag_eq (t : Ty) : universalTag t = univNumber t := by
  cases t with
  | charString k c => cases k <;> rfl
  | _ => rfl

theorem derConstructed_eq (t : Ty) : derConstructed t = isConstructed t := by
  cases t <;> rfl

/-- `header` with any primitive / constructed bit -/
theorem header_eq_mkTag (t : Ty) (tg : Option Nat) (c : Bool) : header t tg c = mkTag (univNumber t) c tg := by
  cases tg with
  | none => simp only [header]; rw [universalTag_eq, identifier_universal]
  | some i => simp only [header]; rw [identifier_context (univNumber t)]

theorem header_eq_tagOf (t : Ty) (tg : Option Nat) : header t tg (derConstructed t) = tagOf t tg := by
  rw [header_eq_mkTag, derConstructed_eq]; rfl

theorem lengthOctets_eq (n : Nat) : lengthOctets n = Ber.encLength n := rfl

theorem tlv_eq (ident contents : Bytes) : tlv ident contents = Der.tlv ident contents := rfl

end Asn1.X690
